(* Proofs/ShippedKinds.v — the declared kinds of optional entries: [val_ok] (Spec/PageTreeSpec.v)
   is exactly what the check [chk_of_kind] demands, in the declarative semantics:
     kind_sound    : a conforming value (direct or behind a reference) satisfies the check at every depth
     kind_complete : a direct value that is not conforming fails the check at depth 6
     kind_indirect_direct : a direct value fails a required-indirect kind at depth 1 *)
From PV Require Import Spec.PageTreeSpec Proofs.ShippedApprox.

Lemma forallb_false_exists {A} (f : A -> bool) l : forallb f l = false -> exists x, In x l /\ f x = false.
Proof.
  induction l as [|a l IH]; simpl; [discriminate|].
  destruct (f a) eqn:E; simpl.
  - intros H. destruct (IH H) as [x [Hx Hf]]. exists x. auto.
  - intros _. exists a. auto.
Qed.
Lemma forallb_false_intro {A} (f : A -> bool) l x : In x l -> f x = false -> forallb f l = false.
Proof.
  intros Hx Hf. destruct (forallb f l) eqn:E; auto.
  rewrite forallb_forall in E. rewrite (E x Hx) in Hf. discriminate.
Qed.

Section Kinds.
Variable nd : list (N * N).
Variable oc : octx.
Variable tc : tctx.
Variable sk : bool.
Notation opq := (shipped_opq_with nd).
Notation A := (approxg opq oc tc sk).

Ltac leaf_sound :=
  let n := fresh "n" in let v := fresh "v" in
  intros n v ? ?; destruct v; try discriminate; destruct n; [reflexivity|];
  rewrite A_S, A1_direct by reflexivity; simpl.
Ltac leaf_fail := rewrite A_S, A1_direct by (reflexivity || assumption); simpl.

Lemma A_disj2 n o a b p i :
  A (S n) o (CRep (TDisj [a; b]) p i) = A n o (CRep TAny p i) && (A n o a || A n o b).
Proof. rewrite A_S, A1_disj. simpl. rewrite orb_false_r. reflexivity. Qed.

(* ---------- building blocks, soundness ---------- *)
Lemma s_name n o : is_name (value_of oc o) = true -> A n o c_name = true.
Proof. revert n o. apply via_sound; [reflexivity|]. leaf_sound. reflexivity. Qed.
Lemma s_string n o : is_str (value_of oc o) = true -> A n o c_string = true.
Proof. revert n o. apply via_sound; [reflexivity|]. leaf_sound. reflexivity. Qed.
Lemma s_bool n o : is_bool (value_of oc o) = true -> A n o c_bool = true.
Proof. revert n o. apply via_sound; [reflexivity|]. leaf_sound. reflexivity. Qed.
Lemma s_int n o : is_int (value_of oc o) = true -> A n o c_int = true.
Proof. revert n o. apply via_sound; [reflexivity|]. leaf_sound. reflexivity. Qed.
Lemma s_real n o : (match value_of oc o with OReal _ _ => true | _ => false end) = true -> A n o c_real = true.
Proof.
  revert n o. apply (via_sound opq oc tc sk (fun v => match v with OReal _ _ => true | _ => false end)); [reflexivity|].
  leaf_sound. reflexivity.
Qed.
Lemma s_dict n o : is_dict (value_of oc o) = true -> A n o c_dict = true.
Proof. revert n o. apply via_sound; [reflexivity|]. leaf_sound. reflexivity. Qed.
Lemma s_stream n o : is_stream (value_of oc o) = true -> A n o c_stream = true.
Proof. revert n o. apply via_sound; [reflexivity|]. leaf_sound. reflexivity. Qed.
Lemma s_array n o : is_arr (value_of oc o) = true -> A n o c_array = true.
Proof.
  revert n o. apply via_sound; [reflexivity|]. leaf_sound.
  apply forallb_forall. intros x _. apply A_any.
Qed.
Lemma s_number n o : is_num (value_of oc o) = true -> A n o c_number = true.
Proof.
  intros H. destruct n; [reflexivity|]. unfold c_number, c_plain. rewrite A_S, A1_disj.
  fold c_any. unfold c_any, c_plain. rewrite A_any. simpl.
  destruct (value_of oc o) eqn:E; try discriminate.
  - rewrite (s_int n o); [reflexivity|]. rewrite E. reflexivity.
  - rewrite (s_real n o); [apply orb_true_r|]. rewrite E. reflexivity.
Qed.

Definition arr_of (p : obj -> bool) (v : obj) : bool :=
  match v with OArr l => forallb (via oc p) l | _ => false end.
Lemma s_arr_of (p : obj -> bool) (c : chk) :
  (forall n o, p (value_of oc o) = true -> A n o c = true) ->
  forall n o, arr_of p (value_of oc o) = true -> A n o (c_plain (TArr c None)) = true.
Proof.
  intros H. apply via_sound; [reflexivity|]. leaf_sound.
  eapply forallb_mono; [|eassumption]. intros x _ Hx. apply H. exact Hx.
Qed.

Lemma opq0 o : opq 0%N o = date_pred o. Proof. reflexivity. Qed.
Lemma opq1 o : opq 1%N o = name_tree_pred o. Proof. reflexivity. Qed.
Lemma opq2 o : opq 2%N o = number_tree_pred o. Proof. reflexivity. Qed.

Lemma s_nametree n o : name_tree_pred (value_of oc o) = true -> A n o c_nametree = true.
Proof.
  revert n o. apply via_sound; [reflexivity|]. intros n v Hv Hp. destruct n; [reflexivity|].
  rewrite A_S, A1_direct by auto. simpl. rewrite opq1, Hp. reflexivity.
Qed.

(* ---------- soundness of every kind ---------- *)
Opaque resources_table namedict_keys.
Lemma kind_sound kd n o :
  val_ok oc kd (value_of oc o) = true ->
  (kind_indirect kd = true -> is_refb o = true) ->
  A n o (chk_of_kind kd) = true.
Proof.
  intros Hv Hi. destruct kd; simpl in Hv |- *.
  - apply s_name; auto.
  - apply s_string; auto.
  - apply s_bool; auto.
  - apply s_int; auto.
  - apply s_number; auto.
  - apply s_dict; auto.
  - (* VIDict *)
    revert Hv. apply (via_sound_req opq oc tc sk is_dict); [reflexivity| |auto].
    clear. leaf_sound. reflexivity.
  - apply s_array; auto.
  - apply (s_arr_of is_dict); auto. intros; apply s_dict; auto.
  - apply s_stream; auto.
  - revert Hv. apply (via_sound_req opq oc tc sk is_stream); [reflexivity| |auto].
    clear. leaf_sound. reflexivity.
  - (* VRect *)
    revert n o Hv Hi. intros n o Hv _. revert n o Hv.
    apply (via_sound opq oc tc sk (fun v => match v with OArr l => Nat.eqb (len l) 4 && forallb (via oc is_num) l | _ => false end));
      [reflexivity|].
    leaf_sound. apply andb_true_iff in H0 as [H1 H2]. rewrite H1. simpl.
    eapply forallb_mono; [|exact H2]. intros x _ Hx. apply s_number. exact Hx.
  - (* VDate *)
    revert n o Hv Hi. intros n o Hv _. revert n o Hv. apply via_sound; [reflexivity|].
    intros n v Hd Hp. destruct n; [reflexivity|]. rewrite A_S, A1_direct by auto. simpl.
    rewrite opq0, Hp. destruct v; try discriminate. reflexivity.
  - (* VNameIn *)
    revert n o Hv Hi. intros n o Hv _. revert n o Hv. unfold c_name_in. apply via_sound; [reflexivity|].
    leaf_sound. simpl in H0. rewrite existsb_sort_names, H0. reflexivity.
  - (* VContents *)
    destruct n; [reflexivity|]. unfold c_plain. rewrite A_S, A1_disj. rewrite A_any. simpl.
    destruct (value_of oc o) eqn:E; try discriminate.
    + rewrite (s_arr_of is_stream c_stream); [apply orb_true_r| |].
      * intros; apply s_stream; auto.
      * rewrite E. exact Hv.
    + rewrite (s_stream n o); [reflexivity|]. rewrite E. reflexivity.
  - (* VOpenAction *)
    destruct n; [reflexivity|]. unfold c_plain. rewrite A_S, A1_disj. rewrite A_any. simpl.
    apply orb_true_iff in Hv as [Hv|Hv].
    + rewrite (s_array n o Hv). reflexivity.
    + rewrite (s_dict n o Hv). apply orb_true_r.
  - (* VResources *)
    revert n o Hv Hi. intros n o Hv _. revert n o Hv.
    apply (via_sound opq oc tc sk (val_ok oc VResources)); [reflexivity|].
    leaf_sound. rewrite andb_true_r. apply ents_ok_forall. intros e He.
    apply in_map_iff in He as [[k b] [<- Hkb]]. simpl. simpl in H0.
    rewrite forallb_forall in H0. specialize (H0 _ Hkb). unfold sub_ok in H0. simpl in H0.
    destruct (dict_get l k); auto. destruct b; [apply s_dict | apply s_array]; exact H0.
  - (* VNameDict *)
    revert n o Hv Hi. intros n o Hv _. revert n o Hv.
    apply (via_sound opq oc tc sk (val_ok oc VNameDict)); [reflexivity|].
    leaf_sound. rewrite andb_true_r. apply ents_ok_forall. intros e He.
    apply in_map_iff in He as [k [<- Hk]]. simpl. simpl in H0.
    rewrite forallb_forall in H0. specialize (H0 _ Hk). unfold sub_ok in H0.
    destruct (dict_get l k); auto. apply s_nametree. exact H0.
  - (* VNumTree *)
    revert n o Hv Hi. intros n o Hv _. revert n o Hv. apply via_sound; [reflexivity|].
    intros n v Hd Hp. destruct n; [reflexivity|]. rewrite A_S, A1_direct by auto. simpl.
    rewrite opq2, Hp. reflexivity.
Qed.

(* ---------- building blocks, completeness ---------- *)
Ltac leaf_complete :=
  let v := fresh "v" in intros v ? ?;
  cbv [c_dict c_stream c_array c_any c_plain c_name c_string c_bool c_int c_real c_nametree];
  rewrite A_S, A1_direct by (reflexivity || assumption); simpl;
  destruct v; try reflexivity; try discriminate.

Lemma c_prim_direct (p : prim) v : is_refb v = false -> prim_match v p = false -> A 1 v (c_plain (TPrim p)) = false.
Proof. intros Hv Hp. unfold c_plain. rewrite A_S, A1_direct by auto. simpl. exact Hp. Qed.
Lemma c_dict_direct : forall v, is_refb v = false -> is_dict v = false -> A 1 v c_dict = false.
Proof. leaf_complete. Qed.
Lemma c_stream_direct : forall v, is_refb v = false -> is_stream v = false -> A 1 v c_stream = false.
Proof. leaf_complete. Qed.
Lemma c_array_direct : forall v, is_refb v = false -> is_arr v = false -> A 1 v c_array = false.
Proof. leaf_complete. Qed.
Lemma c_nametree_direct v : is_refb v = false -> name_tree_pred v = false -> A 1 v c_nametree = false.
Proof. intros Hv Hp. unfold c_nametree. rewrite A_S, A1_direct by auto. simpl. rewrite opq1, Hp. reflexivity. Qed.

Lemma c_via (P : obj -> bool) t p :
  is_disj t = false ->
  (forall v, is_refb v = false -> P v = false -> A 1 v (CRep t p IAllowed) = false) ->
  forall o, P (value_of oc o) = false -> A 2 o (CRep t p IAllowed) = false.
Proof. intros. eapply via_complete; eauto. Qed.

Lemma c_int_via o : is_int (value_of oc o) = false -> A 2 o c_int = false.
Proof.
  apply (c_via is_int); [reflexivity|]. intros v Hv Hp. apply c_prim_direct; auto; destruct v; try reflexivity; discriminate.
Qed.
Lemma c_real_via o : (match value_of oc o with OReal _ _ => true | _ => false end) = false -> A 2 o c_real = false.
Proof.
  apply (c_via (fun v => match v with OReal _ _ => true | _ => false end)); [reflexivity|].
  intros v Hv Hp. apply c_prim_direct; auto; destruct v; try reflexivity; discriminate.
Qed.
Lemma c_number_via o : is_num (value_of oc o) = false -> A 3 o c_number = false.
Proof.
  intros H. unfold c_number. unfold c_plain at 1. rewrite A_disj2.
  rewrite c_int_via, c_real_via; [apply andb_false_r| |]; destruct (value_of oc o); try reflexivity; discriminate.
Qed.
Lemma c_dict_via o : is_dict (value_of oc o) = false -> A 2 o c_dict = false.
Proof. apply (c_via is_dict); [reflexivity|]. apply c_dict_direct. Qed.
Lemma c_stream_via o : is_stream (value_of oc o) = false -> A 2 o c_stream = false.
Proof. apply (c_via is_stream); [reflexivity|]. apply c_stream_direct. Qed.
Lemma c_array_via o : is_arr (value_of oc o) = false -> A 2 o c_array = false.
Proof. apply (c_via is_arr); [reflexivity|]. apply c_array_direct. Qed.
Lemma c_nametree_via o : name_tree_pred (value_of oc o) = false -> A 2 o c_nametree = false.
Proof. apply (c_via name_tree_pred); [reflexivity|]. apply c_nametree_direct. Qed.

(* an array one of whose members fails the member check at depth m fails at depth m+1 *)
Lemma c_arr_member c sz p i m l x :
  In x l -> A m x c = false -> A (S m) (OArr l) (CRep (TArr c sz) p i) = false.
Proof.
  intros Hx Hf. rewrite A_S, A1_direct by reflexivity. simpl.
  rewrite (forallb_false_intro _ l x Hx Hf). rewrite !andb_false_r. reflexivity.
Qed.
Lemma c_not_array c sz p i m v :
  is_refb v = false -> is_arr v = false -> A (S m) v (CRep (TArr c sz) p i) = false.
Proof.
  intros Hv Ha. rewrite A_S, A1_direct by auto. simpl.
  destruct v; try discriminate; simpl; apply andb_false_r.
Qed.

(* ---------- completeness of every kind ---------- *)
Lemma kind_not_any kd : kind_checked kd = true -> is_any tc (chk_of_kind kd) = false.
Proof. destruct kd; try discriminate; reflexivity. Qed.

(* in the skipping reading the entries of the name dictionary (type Any) are not looked at, so only the
   other kinds are complete there *)
Lemma kind_complete kd v :
  sk = false \/ kind_checked kd = true ->
  is_refb v = false -> val_ok oc kd v = false -> A 6 v (chk_of_kind kd) = false.
Proof.
  intros Hsk Hd Hv. destruct kd; simpl in Hv; cbv beta iota delta [chk_of_kind].
  - apply (A_false_le _ _ _ _ 1); [lia|]. apply c_prim_direct; auto; destruct v; try reflexivity; discriminate.
  - apply (A_false_le _ _ _ _ 1); [lia|]. apply c_prim_direct; auto; destruct v; try reflexivity; discriminate.
  - apply (A_false_le _ _ _ _ 1); [lia|]. apply c_prim_direct; auto; destruct v; try reflexivity; discriminate.
  - apply (A_false_le _ _ _ _ 1); [lia|]. apply c_prim_direct; auto; destruct v; try reflexivity; discriminate.
  - (* VNumber *)
    apply (A_false_le _ _ _ _ 3); [lia|]. apply c_number_via. rewrite value_of_direct; auto.
  - apply (A_false_le _ _ _ _ 1); [lia|]. apply c_dict_direct; auto.
  - (* VIDict: a direct value fails the required indirection whatever it is *)
    apply (A_false_le _ _ _ _ 1); [lia|]. rewrite A_S, A1_direct by auto. reflexivity.
  - apply (A_false_le _ _ _ _ 1); [lia|]. apply c_array_direct; auto.
  - (* VArrDict *)
    apply (A_false_le _ _ _ _ 3); [lia|]. destruct (is_arr v) eqn:Ea.
    + destruct v; try discriminate. apply forallb_false_exists in Hv as [x [Hx Hf]].
      eapply c_arr_member; eauto. apply c_dict_via. exact Hf.
    + apply c_not_array; auto.
  - apply (A_false_le _ _ _ _ 1); [lia|]. apply c_stream_direct; auto.
  - apply (A_false_le _ _ _ _ 1); [lia|]. rewrite A_S, A1_direct by auto. reflexivity.
  - (* VRect *)
    apply (A_false_le _ _ _ _ 4); [lia|]. destruct (is_arr v) eqn:Ea.
    + destruct v; try discriminate. apply andb_false_iff in Hv as [Hv|Hv].
      * unfold c_plain. rewrite A_S, A1_direct by reflexivity. simpl. rewrite Hv. reflexivity.
      * apply forallb_false_exists in Hv as [x [Hx Hf]].
        eapply c_arr_member; eauto. apply c_number_via. exact Hf.
    + apply c_not_array; auto.
  - (* VDate *)
    apply (A_false_le _ _ _ _ 1); [lia|]. rewrite A_S, A1_direct by auto. simpl.
    rewrite opq0, Hv. reflexivity.
  - (* VNameIn *)
    apply (A_false_le _ _ _ _ 1); [lia|]. unfold c_name_in. rewrite A_S, A1_direct by auto. simpl.
    destruct v; try reflexivity. simpl in Hv. rewrite existsb_sort_names, Hv. reflexivity.
  - (* VContents *)
    apply (A_false_le _ _ _ _ 4); [lia|]. unfold c_plain at 1. rewrite A_disj2.
    assert (H1 : A 3 v c_stream = false).
    { apply (A_false_le _ _ _ _ 1); [lia|]. apply c_stream_direct; auto. destruct v; try reflexivity; discriminate. }
    assert (H2 : A 3 v (c_plain (TArr c_stream None)) = false).
    { destruct (is_arr v) eqn:Ea.
      - destruct v; try discriminate. apply forallb_false_exists in Hv as [x [Hx Hf]].
        eapply c_arr_member; eauto. apply c_stream_via. exact Hf.
      - apply c_not_array; auto. }
    rewrite H1, H2. apply andb_false_r.
  - (* VOpenAction *)
    apply (A_false_le _ _ _ _ 2); [lia|]. unfold c_plain at 1. rewrite A_disj2.
    apply orb_false_iff in Hv as [Ha Hb].
    rewrite (c_array_direct v), (c_dict_direct v) by auto. apply andb_false_r.
  - (* VResources *)
    apply (A_false_le _ _ _ _ 3); [lia|]. unfold c_plain. destruct (is_dict v) eqn:Ed.
    + destruct v; try discriminate. rewrite A_dict_direct. simpl negb. simpl pred_ok. simpl andb.
      apply forallb_false_exists in Hv as [[k b] [Hkb Hf]]. unfold sub_ok in Hf. simpl in Hf.
      apply (ents_ok_false _ _ _ _ _ (opt k (if b then c_dict else c_array))).
      * apply in_map_iff. exists (k, b). auto.
      * simpl. destruct (dict_get l k); [|discriminate]. split.
        -- destruct b; apply andb_false_r.
        -- destruct b; [apply c_dict_via | apply c_array_via]; exact Hf.
    + rewrite A_S, A1_direct by auto. simpl. destruct v; try discriminate; reflexivity.
  - (* VNameDict *)
    apply (A_false_le _ _ _ _ 3); [lia|]. unfold c_plain. destruct (is_dict v) eqn:Ed.
    + destruct v; try discriminate. rewrite A_dict_direct. simpl negb. simpl pred_ok. simpl andb.
      apply forallb_false_exists in Hv as [k [Hk Hf]]. unfold sub_ok in Hf.
      destruct Hsk as [Hsk|Hsk]; [|discriminate].
      apply (ents_ok_false _ _ _ _ _ (opt k c_nametree)).
      * apply in_map_iff. exists k. auto.
      * simpl. destruct (dict_get l k); [|discriminate]. split.
        -- rewrite Hsk. reflexivity.
        -- apply c_nametree_via. exact Hf.
    + rewrite A_S, A1_direct by auto. simpl. destruct v; try discriminate; reflexivity.
  - (* VNumTree *)
    apply (A_false_le _ _ _ _ 1); [lia|]. rewrite A_S, A1_direct by auto. simpl.
    rewrite opq2, Hv. reflexivity.
Qed.

Lemma kind_indirect_direct kd v :
  kind_indirect kd = true -> is_refb v = false -> A 1 v (chk_of_kind kd) = false.
Proof.
  intros Hk Hv. destruct kd; try discriminate; cbv beta iota delta [chk_of_kind]; rewrite A_S, A1_direct by auto; reflexivity.
Qed.
Transparent resources_table namedict_keys.
End Kinds.
