(* Proofs/ObjLit.v — C02, literal strings: RawLiteralString on '(' body ')' with a body that is
   balanced modulo backslash pairs ends exactly at the closing parenthesis and returns the raw body
   (the last_slash / depth state machine of pdf_prim.rs against the byte-wise definition
   [balanced_from] of Spec/Spelling.v). *)
From PV Require Import Model.Obj Spec.Spelling Proofs.PrimBase Proofs.PrimTok Proofs.PrimLit Proofs.PrimExtra
     Proofs.ObjDepth Proofs.ObjStream Proofs.ObjTok.
From Coq Require Import Lia.

Definition plain (b : N) : Prop := memb b lit_stops = false.

Lemma special_cases x : memb x lit_stops = true -> x = 40%N \/ x = 41%N \/ x = 92%N.
Proof. intros H. apply memb_In in H. vm_compute in H. intuition. Qed.

Lemma plain_neq b : plain b -> b <> 40%N /\ b <> 41%N /\ b <> 92%N.
Proof. unfold plain. intros H. repeat split; intros ->; vm_compute in H; discriminate. Qed.

Lemma balanced_plain_cons d b r : plain b -> balanced_from d (b :: r) = balanced_from d r.
Proof.
  intros H. destruct (plain_neq b H) as (A & B & C).
  destruct b as [|p]; [reflexivity|]. cbn [balanced_from].
  repeat (destruct p as [p|p|]; try reflexivity); contradiction.
Qed.

Lemma balanced_plain d p t : Forall plain p -> balanced_from d (p ++ t) = balanced_from d t.
Proof. induction 1 as [|b p Hb _ IH]; [reflexivity|]. cbn [app]. rewrite balanced_plain_cons by assumption. exact IH. Qed.

Lemma split_plain (t : bytes) :
  exists p t2, t = p ++ t2 /\ Forall plain p /\ match t2 with [] => True | x :: _ => memb x lit_stops = true end.
Proof.
  induction t as [|b t (p & t2 & -> & Hp & Ht)].
  - exists [], []. repeat split; constructor.
  - destruct (memb b lit_stops) eqn:E.
    + exists [], (b :: p ++ t2). repeat split; [constructor|exact E].
    + exists (b :: p), t2. repeat split; [constructor; assumption|exact Ht].
Qed.

Ltac fin_with E tac :=
  rewrite E; eexists;
  match goal with |- POk (_, _, ?a) ?a = POk (_, _, ?b) ?b => replace a with b by tac end; reflexivity.

Section Lit.
  Variable rel : bool.
  Variable start : nat.

  (* one iteration of the loop: a run of plain bytes, then the special byte x *)
  Lemma lit_loop_unfold f hd p x tl ls depth v :
    Forall plain p -> memb x lit_stops = true ->
    let s := hd ++ p ++ x :: tl in
    let cp := len hd + len p in
    lit_loop (S f) rel s start (len hd) ls depth v =
    if N.eqb x 40 then
      (if escaped ls cp then lit_loop f rel s start (S cp) ls depth (v ++ p ++ [40%N])
       else match i32_incr rel depth with
            | Some d => lit_loop f rel s start (S cp) None d (v ++ p ++ [40%N])
            | None => PPanic
            end)
    else if N.eqb x 41 then
      (if escaped ls cp then lit_loop f rel s start (S cp) ls depth ((v ++ p) ++ [41%N])
       else match i32_decr rel depth with
            | Some d => if (d =? 0)%Z then POk (v ++ p, start, S cp) (S cp)
                        else lit_loop f rel s start (S cp) None d ((v ++ p) ++ [41%N])
            | None => PPanic
            end)
    else if N.eqb x 92 then
      lit_loop f rel s start (S cp)
        (match ls with Some pos => if Nat.eqb (pos + 1) cp then None else Some cp | None => Some cp end)
        depth (v ++ p ++ [92%N])
    else PPanic.
  Proof.
    intros Hp Hx s cp. cbn [lit_loop].
    assert (U : until lit_stops s (len hd) = len p).
    { unfold s. apply until_run; [exact Hp|exact Hx]. }
    rewrite U. fold cp.
    assert (Pk : peek s cp = Some x).
    { unfold s, cp. rewrite app_assoc, <- len_app. rewrite peek_at. reflexivity. }
    rewrite Pk.
    assert (Lt : cp < len s) by (apply peek_Some_lt in Pk; exact Pk).
    rewrite !incr_ok by assumption.
    assert (Sb : sub s (len hd) cp = p) by (unfold s, cp; apply sub_at).
    rewrite Sb. reflexivity.
  Qed.

  (* [safe ls c t]: the recorded backslash position does not escape the next special byte *)
  Definition safe (ls : option nat) (c : nat) (t : bytes) : Prop :=
    match ls with
    | None => True
    | Some q => q + 1 < c \/ (q + 1 = c /\ match t with y :: _ => plain y | [] => False end)
    end.

  Lemma safe_not_escaped ls (hd p t2 : bytes) :
    safe ls (len hd) (p ++ t2) -> Forall plain p ->
    match t2 with [] => True | x :: _ => memb x lit_stops = true end ->
    escaped ls (len hd + len p) = false /\
    match ls with Some pos => if Nat.eqb (pos + 1) (len hd + len p) then None else Some (len hd + len p) | None => Some (len hd + len p) end
      = Some (len hd + len p).
  Proof.
    intros Hs Hp Ht. destruct ls as [q|]; [|split; reflexivity]. cbn [safe escaped] in *.
    assert (N : q + 1 <> len hd + len p).
    { destruct Hs as [Hs|[Hs Hy]]; [lia|].
      destruct p as [|b p']; [|unfold len in *; cbn [length]; lia].
      cbn [app] in Hy. destruct t2 as [|y t3]; [contradiction|]. unfold plain in Hy. congruence. }
    destruct (Nat.eqb_spec (q + 1) (len hd + len p)); [contradiction|]. split; reflexivity.
  Qed.

  Lemma lit_loop_balanced rest : forall m t, len t < m ->
    forall hd d ls v fuel,
      len t < fuel -> balanced_from d t = true -> safe ls (len hd) t ->
      (Z.of_nat d + Z.of_nat (len t) + 2 < 2147483647)%Z ->
      exists v', lit_loop fuel rel (hd ++ t ++ 41%N :: rest) start (len hd) ls (Z.of_nat d + 1) v =
                 POk (v', start, len hd + len t + 1) (len hd + len t + 1).
  Proof.
    induction m as [|m IH]; intros t Hm hd d ls v fuel Hf Hb Hs Hz; [lia|].
    destruct (split_plain t) as (p & t2 & -> & Hp & Ht).
    rewrite balanced_plain in Hb by assumption.
    destruct fuel as [|f]; [lia|].
    destruct (safe_not_escaped ls hd p t2 Hs Hp Ht) as [Esc Els].
    rewrite len_app in *.
    destruct t2 as [|x t3].
    - (* the closing parenthesis *)
      rewrite <- app_assoc. cbn [app].
      pose proof (lit_loop_unfold f hd p 41%N rest ls (Z.of_nat d + 1) v Hp eq_refl) as U. cbv zeta in U. rewrite U.
      cbn [N.eqb Pos.eqb]. rewrite Esc.
      unfold i32_decr, i32_min. destruct (Z.ltb_spec (-2147483648) (Z.of_nat d + 1)); [|lia].
      cbn [balanced_from] in Hb. apply Nat.eqb_eq in Hb. subst d. cbn [Z.of_nat Z.add Z.sub Z.eqb Pos.eqb Z.pos_sub].
      cbn [len length]. rewrite Nat.add_0_r. replace (S (len hd + len p)) with (len hd + len p + 1) by lia.
      eexists. reflexivity.
    - rewrite <- app_assoc. cbn [app].
      pose proof (lit_loop_unfold f hd p x (t3 ++ 41%N :: rest) ls (Z.of_nat d + 1) v Hp Ht) as U. cbv zeta in U. rewrite U.
      clear U. cbn [len length] in *.
      assert (Lt3 : len t3 < m) by (unfold len in *; lia).
      (* the text behind x, with the cursor moved past it *)
      assert (Re : hd ++ p ++ x :: t3 ++ 41%N :: rest = (hd ++ p ++ [x]) ++ t3 ++ 41%N :: rest)
        by (rewrite <- !app_assoc; reflexivity).
      assert (Lc : S (len hd + len p) = len (hd ++ p ++ [x])) by (rewrite !len_app; cbn [len length]; unfold len; lia).
      destruct (special_cases x Ht) as [->|[->| ->]]; cbn [N.eqb Pos.eqb]; rewrite ?Esc.
      + (* '(' *)
        cbn [balanced_from] in Hb.
        unfold i32_incr, i32_max. destruct (Z.ltb_spec (Z.of_nat d + 1) 2147483647); [|unfold len in *; lia].
        rewrite Re, Lc. replace (Z.of_nat d + 1 + 1)%Z with (Z.of_nat (S d) + 1)%Z by lia.
        destruct (IH t3 Lt3 (hd ++ p ++ [40%N]) (S d) None (v ++ p ++ [40%N]) f) as (v' & E);
          [unfold len in *; lia|assumption|exact I|unfold len in *; lia|].
        fin_with E ltac:(rewrite <- Lc; unfold len in *; cbn [length] in *; lia).
      + (* ')' *)
        cbn [balanced_from] in Hb. destruct d as [|d']; [discriminate|].
        unfold i32_decr, i32_min. destruct (Z.ltb_spec (-2147483648) (Z.of_nat (S d') + 1)); [|lia].
        replace (Z.of_nat (S d') + 1 - 1)%Z with (Z.of_nat d' + 1)%Z by lia.
        destruct (Z.eqb_spec (Z.of_nat d' + 1) 0); [lia|].
        rewrite Re, Lc.
        destruct (IH t3 Lt3 (hd ++ p ++ [41%N]) d' None ((v ++ p) ++ [41%N]) f) as (v' & E);
          [unfold len in *; lia|assumption|exact I|unfold len in *; lia|].
        fin_with E ltac:(rewrite <- Lc; unfold len in *; cbn [length] in *; lia).
      + (* backslash: the next byte is protected *)
        rewrite Els.
        destruct t3 as [|y t4]; [cbn [balanced_from] in Hb; discriminate|].
        assert (Hb4 : balanced_from d t4 = true) by (cbn [balanced_from] in Hb; exact Hb).
        destruct (memb y lit_stops) eqn:Ey.
        * (* a protected special byte: one more iteration *)
          destruct f as [|f']; [unfold len in *; cbn [length] in *; lia|].
          rewrite Re, Lc.
          pose proof (lit_loop_unfold f' (hd ++ p ++ [92%N]) [] y (t4 ++ 41%N :: rest) (Some (len hd + len p))
                        (Z.of_nat d + 1) (v ++ p ++ [92%N]) ltac:(constructor) Ey) as U.
          cbv zeta in U. cbn [app len length] in U. rewrite Nat.add_0_r in U. cbn [app]. rewrite U. clear U.
          assert (Esc2 : escaped (Some (len hd + len p)) (len (hd ++ p ++ [92%N])) = true).
          { cbn [escaped]. rewrite <- Lc. apply Nat.eqb_eq. lia. }
          assert (Lt4 : len t4 < m) by (unfold len in *; cbn [length] in *; lia).
          assert (Re2 : (hd ++ p ++ [92%N]) ++ y :: t4 ++ 41%N :: rest = (hd ++ p ++ [92%N; y]) ++ t4 ++ 41%N :: rest)
            by (rewrite <- !app_assoc; reflexivity).
          assert (Lc2 : S (len (hd ++ p ++ [92%N])) = len (hd ++ p ++ [92%N; y])) by (rewrite !len_app; cbn [len length]; unfold len; lia).
          destruct (special_cases y Ey) as [->|[->| ->]]; cbn [N.eqb Pos.eqb]; rewrite ?Esc2.
          -- rewrite Re2, Lc2.
             destruct (IH t4 Lt4 (hd ++ p ++ [92%N; 40%N]) d (Some (len hd + len p)) ((v ++ p ++ [92%N]) ++ [40%N]) f') as (v' & E);
               [unfold len in *; cbn [length] in *; lia|assumption|left; rewrite <- Lc2, <- Lc; lia|unfold len in *; cbn [length] in *; lia|].
             cbn [app] in E. fin_with E ltac:(rewrite <- Lc2, <- Lc; unfold len in *; cbn [length] in *; lia).
          -- rewrite Re2, Lc2.
             destruct (IH t4 Lt4 (hd ++ p ++ [92%N; 41%N]) d (Some (len hd + len p)) (((v ++ p ++ [92%N]) ++ []) ++ [41%N]) f') as (v' & E);
               [unfold len in *; cbn [length] in *; lia|assumption|left; rewrite <- Lc2, <- Lc; lia|unfold len in *; cbn [length] in *; lia|].
             fin_with E ltac:(rewrite <- Lc2, <- Lc; unfold len in *; cbn [length] in *; lia).
          -- rewrite Re2, Lc2.
             replace (Nat.eqb (len hd + len p + 1) (len (hd ++ p ++ [92%N]))) with true by (symmetry; apply Nat.eqb_eq; rewrite <- Lc; lia).
             destruct (IH t4 Lt4 (hd ++ p ++ [92%N; 92%N]) d None ((v ++ p ++ [92%N]) ++ [92%N]) f') as (v' & E);
               [unfold len in *; cbn [length] in *; lia|assumption|exact I|unfold len in *; cbn [length] in *; lia|].
             cbn [app] in E. fin_with E ltac:(rewrite <- Lc2, <- Lc; unfold len in *; cbn [length] in *; lia).
        * (* a protected plain byte *)
          rewrite Re, Lc.
          assert (Lt3' : len (y :: t4) < m) by (unfold len in *; cbn [length] in *; lia).
          destruct (IH (y :: t4) Lt3' (hd ++ p ++ [92%N]) d (Some (len hd + len p)) (v ++ p ++ [92%N]) f) as (v' & E).
          -- unfold len in *; cbn [length] in *; lia.
          -- rewrite balanced_plain_cons by exact Ey. assumption.
          -- right. split; [rewrite <- Lc; lia|exact Ey].
          -- unfold len in *; cbn [length] in *; lia.
          -- fin_with E ltac:(rewrite <- Lc; unfold len in *; cbn [length] in *; lia).
  Qed.
End Lit.

Theorem lit_string_spec rel body pre rest :
  balanced body -> (Z.of_nat (len body) < 2147483000)%Z ->
  lit_string rel (pre ++ (40%N :: body ++ [41%N]) ++ rest) (len pre) =
  POk (body, len pre, len pre + len body + 2) (len pre + len body + 2).
Proof.
  intros Hb Hl.
  set (s := pre ++ (40%N :: body ++ [41%N]) ++ rest).
  assert (Es : s = (pre ++ [40%N]) ++ body ++ 41%N :: rest)
    by (unfold s; repeat first [rewrite <- app_assoc | progress cbn [app]]; reflexivity).
  assert (H : exists v', lit_string rel s (len pre) = POk (v', len pre, len pre + len body + 2) (len pre + len body + 2)).
  { unfold lit_string. replace (peek_is s (len pre) 40) with true by (unfold s; rewrite peek_is_at; reflexivity).
    cbn [negb]. rewrite incr_ok by (unfold s; rewrite len_app; cbn; lia).
    replace (S (len pre)) with (len (pre ++ [40%N])) by (rewrite len_snoc; reflexivity). rewrite Es.
    destruct (lit_loop_balanced rel (len pre) rest (S (len body)) body (le_n _) (pre ++ [40%N]) 0 None []
                (S (len ((pre ++ [40%N]) ++ body ++ 41%N :: rest) - len pre))) as (v' & E).
    - rewrite !len_app. cbn [len length]. unfold len. lia.
    - exact Hb.
    - exact I.
    - lia.
    - cbn [Z.of_nat Z.add] in E. rewrite E. exists v'.
      replace (len (pre ++ [40%N]) + len body + 1) with (len pre + len body + 2) by (rewrite len_snoc; lia). reflexivity. }
  destruct H as (v' & E). rewrite E.
  destruct (lit_string_value _ _ _ _ _ _ _ E) as (Hv & _ & _).
  assert (Eb : v' = body).
  { rewrite Hv, Es. replace (S (len pre)) with (len (pre ++ [40%N])) by (rewrite len_snoc; reflexivity).
    replace (len pre + len body + 2 - 1) with (len (pre ++ [40%N]) + len body) by (rewrite len_snoc; lia).
    apply sub_at. }
  rewrite Eb. reflexivity.
Qed.
