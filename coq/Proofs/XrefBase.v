(* Proofs/XrefBase.v — shared lemmas for C13/C14: the buffer "at the cursor", the ParseBufferT
   primitives of Model/Prim.v on a known prefix, decimal and big-endian number text. *)
From PV Require Import Model.Prim Model.XrefTab Spec.XrefEnc.
From Coq Require Import ZifyBool ZifyNat ZifyN.
Ltac Zify.zify_post_hook ::= Z.div_mod_to_equations.

(* ---------- the buffer at the cursor ---------- *)
Definition at_cur (s : bytes) (c : nat) (p : bytes) : Prop := c <= len s /\ skipn c s = p.

Lemma at_cur_app s c a r : at_cur s c (a ++ r) -> at_cur s (c + len a) r.
Proof.
  intros [L E]. unfold len in *.
  assert (HL : List.length (skipn c s) = List.length a + List.length r) by (rewrite E, app_length; reflexivity).
  rewrite skipn_length in HL. split; [unfold len; lia|].
  rewrite Nat.add_comm, <- skipn_skipn', E, skipn_app, skipn_all, Nat.sub_diag. reflexivity.
Qed.

Lemma at_cur_inj s c p q : at_cur s c p -> at_cur s c q -> p = q.
Proof. intros [_ A] [_ B]. congruence. Qed.

Lemma at_cur_cons s c b r : at_cur s c (b :: r) -> at_cur s (S c) r.
Proof. intros H. replace (S c) with (c + len [b]) by (cbn; lia). apply at_cur_app. exact H. Qed.

Lemma at_cur_len s c p : at_cur s c p -> len s = c + len p.
Proof. intros [L E]. unfold len in *. rewrite <- E, skipn_length. lia. Qed.

Lemma at_cur_start (j p : bytes) : at_cur (j ++ p) (len j) p.
Proof.
  split; unfold len; [rewrite app_length; lia|].
  rewrite skipn_app, skipn_all, Nat.sub_diag. reflexivity.
Qed.

Lemma peek_at s c b r : at_cur s c (b :: r) -> peek s c = Some b.
Proof. intros [_ E]. unfold peek. rewrite nth_error_skipn, E. reflexivity. Qed.

Lemma peek_at_nil s c : at_cur s c [] -> peek s c = None.
Proof. intros [_ E]. unfold peek. rewrite nth_error_skipn, E. reflexivity. Qed.

Lemma peek_is_at s c b r x : at_cur s c (b :: r) -> peek_is s c x = N.eqb b x.
Proof. intros H. unfold peek_is. rewrite (peek_at _ _ _ _ H). reflexivity. Qed.

Lemma peek_is_nil s c x : at_cur s c [] -> peek_is s c x = false.
Proof. intros H. unfold peek_is. rewrite (peek_at_nil _ _ H). reflexivity. Qed.

Lemma sub_at s c a r : at_cur s c (a ++ r) -> sub s c (c + len a) = a.
Proof.
  intros [_ E]. unfold sub. replace (c + len a - c) with (len a) by lia.
  rewrite E. unfold len. rewrite firstn_app, firstn_all, Nat.sub_diag. cbn. apply app_nil_r.
Qed.

Lemma incr_at {A} s c b r (k : nat -> pres A) : at_cur s c (b :: r) -> incr s c k = k (S c).
Proof.
  intros H. unfold incr. pose proof (at_cur_len _ _ _ H) as L. cbn [len List.length] in L.
  destruct (Nat.ltb_spec c (len s)); [reflexivity|]. unfold len in *. lia.
Qed.

(* span_n *)
Definition stops (p : N -> bool) (r : bytes) : Prop :=
  match r with [] => True | b :: _ => p b = false end.

Lemma span_n_app p a r : Forall (fun b => p b = true) a -> stops p r -> span_n p (a ++ r) = len a.
Proof.
  intros F S. induction a as [|x a IH]; cbn.
  - destruct r as [|b r]; cbn; [reflexivity|]. cbn in S. rewrite S. reflexivity.
  - inversion F as [|? ? Hx Fa]; subst. rewrite Hx. f_equal. apply IH. exact Fa.
Qed.

Lemma allowed_at set s c a r :
  at_cur s c (a ++ r) -> Forall (fun b => memb b set = true) a -> stops (fun b => memb b set) r ->
  allowed set s c = len a.
Proof. intros [_ E] F S. unfold allowed. rewrite E. apply span_n_app; assumption. Qed.

Lemma prefixb_app a r : prefixb a (a ++ r) = true.
Proof. induction a as [|x a IH]; cbn; [reflexivity|]. rewrite N.eqb_refl. exact IH. Qed.

Lemma prefixb_true p l : prefixb p l = true -> exists r, l = p ++ r.
Proof.
  revert l. induction p as [|x p IH]; intros l H; cbn in *.
  - exists l. reflexivity.
  - destruct l as [|y l]; [discriminate|]. apply andb_true_iff in H as [H1 H2].
    apply N.eqb_eq in H1. subst. destruct (IH _ H2) as [r ->]. exists r. reflexivity.
Qed.

Lemma exact_at tag s c r : at_cur s c (tag ++ r) -> exact tag s c = Some (c + len tag).
Proof. intros [_ E]. unfold exact. rewrite E, prefixb_app. reflexivity. Qed.

Lemma exact_inv tag s c c1 : c <= len s -> exact tag s c = Some c1 ->
  exists r, at_cur s c (tag ++ r) /\ c1 = c + len tag.
Proof.
  intros L H. unfold exact in H. destruct (prefixb tag (skipn c s)) eqn:E; [|discriminate].
  inversion H; subst. apply prefixb_true in E as [r E]. exists r. split; [split; assumption|reflexivity].
Qed.

Lemma extract_at n s c a r : at_cur s c (a ++ r) -> len a = n -> extract n s c = POk a (c + n).
Proof.
  intros H <-. pose proof (at_cur_len _ _ _ H) as L. unfold len in L. rewrite app_length in L.
  unfold extract. rewrite (sub_at _ _ _ _ H). unfold len.
  destruct (Nat.ltb_spec (List.length s) c); [lia|].
  destruct (Nat.ltb_spec (List.length s - c) (List.length a)); [lia|]. reflexivity.
Qed.

(* every outcome of extract *)
Lemma extract_inv n s c : c <= len s ->
  (exists a r, at_cur s c (a ++ r) /\ len a = n /\ extract n s c = POk a (c + n)) \/
  (len s - c < n /\ extract n s c = PErr EEndOfBuffer c).
Proof.
  intros L. unfold extract. destruct (Nat.ltb_spec (len s) c); [lia|].
  destruct (Nat.ltb_spec (len s - c) n); [right; split; [assumption|reflexivity]|].
  left. exists (firstn n (skipn c s)), (skipn n (skipn c s)). split; [|split].
  - split; [assumption|]. symmetry. apply firstn_skipn.
  - unfold len in *. rewrite firstn_length, skipn_length. lia.
  - unfold sub. replace (c + n - c) with n by lia. reflexivity.
Qed.

(* ---------- decimal text ---------- *)
Lemma digits_len w n : len (digits w n) = w.
Proof.
  revert n. induction w as [|w IH]; intros n; cbn; [reflexivity|].
  unfold len in *. rewrite app_length, IH. cbn. lia.
Qed.

Lemma is_digit_d n : is_digit (48 + n mod 10) = true.
Proof. unfold is_digit. lia. Qed.

Lemma digits_all w n : Forall (fun b => is_digit b = true) (digits w n).
Proof.
  revert n. induction w as [|w IH]; intros n; cbn; [constructor|].
  apply Forall_app. split; [apply IH|]. constructor; [apply is_digit_d|constructor].
Qed.

Lemma parse_N_snoc a d : parse_N (a ++ [d]) = (parse_N a * 10 + (d - 48))%N.
Proof. unfold parse_N. rewrite fold_left_app. reflexivity. Qed.

Lemma parse_N_digits w n : (n < 10 ^ N.of_nat w)%N -> parse_N (digits w n) = n.
Proof.
  revert n. induction w as [|w IH]; intros n H.
  - cbn in *. lia.
  - cbn [digits]. rewrite parse_N_snoc, IH.
    + lia.
    + rewrite Nat2N.inj_succ, N.pow_succ_r' in H. lia.
Qed.

Lemma filter_all {A} (p : A -> bool) l : Forall (fun b => p b = true) l -> filter p l = l.
Proof.
  induction 1 as [|x l Hx _ IH]; cbn; [reflexivity|]. rewrite Hx, IH. reflexivity.
Qed.

Lemma count_digits_all l : Forall (fun b => is_digit b = true) l -> count_digits l = len l.
Proof. intros F. unfold count_digits. rewrite filter_all by exact F. reflexivity. Qed.

Lemma filter_len_le {A} (p : A -> bool) l : List.length (filter p l) <= List.length l.
Proof. induction l as [|x l IH]; cbn; [lia|]. destruct (p x); cbn; lia. Qed.

Lemma count_digits_le l : count_digits l <= len l.
Proof. unfold count_digits, len. apply filter_len_le. Qed.

Lemma count_digits_full l : count_digits l = len l -> Forall (fun b => is_digit b = true) l.
Proof.
  unfold count_digits, len. induction l as [|x l IH]; cbn; intros H; [constructor|].
  destruct (is_digit x) eqn:E; cbn in H.
  - constructor; [exact E|]. apply IH. lia.
  - pose proof (filter_len_le is_digit l). lia.
Qed.

Lemma utf8_ascii l : Forall (fun b => (b <= 127)%N) l -> utf8_valid l = true.
Proof.
  induction 1 as [|x l Hx _ IH]; cbn; [reflexivity|].
  destruct (N.leb_spec x 127); [exact IH|lia].
Qed.

Lemma digit_ascii l : Forall (fun b => is_digit b = true) l -> Forall (fun b => (b <= 127)%N) l.
Proof. apply Forall_impl. intros b H. unfold is_digit in H. lia. Qed.

(* a digit string is its own [digits] rendering *)
Lemma digits_of_string l : Forall (fun b => is_digit b = true) l ->
  l = digits (len l) (parse_N l) /\ (parse_N l < 10 ^ N.of_nat (len l))%N.
Proof.
  induction l as [|d l IH] using rev_ind; intros F.
  - cbn. split; [reflexivity|]. unfold parse_N. cbn. lia.
  - apply Forall_app in F as [Fl Fd]. inversion Fd as [|? ? Hd _]; subst.
    destruct (IH Fl) as [E B]. unfold len in *. rewrite app_length. cbn [List.length].
    replace (List.length l + 1) with (S (List.length l)) by lia.
    rewrite parse_N_snoc. cbn [digits]. unfold is_digit in Hd.
    replace ((parse_N l * 10 + (d - 48)) / 10)%N with (parse_N l) by lia.
    replace (48 + (parse_N l * 10 + (d - 48)) mod 10)%N with d by lia.
    rewrite <- E. split; [reflexivity|].
    rewrite Nat2N.inj_succ, N.pow_succ_r'. lia.
Qed.

(* ---------- big-endian text ---------- *)
Lemma be_bytes_len w x : len (be_bytes w x) = w.
Proof.
  revert x. induction w as [|w IH]; intros x; cbn; [reflexivity|].
  unfold len in *. rewrite app_length, IH. cbn. lia.
Qed.

Lemma be_bytes_wf w x : Forall (fun b => (b < 256)%N) (be_bytes w x).
Proof.
  revert x. induction w as [|w IH]; intros x; cbn; [constructor|].
  apply Forall_app. split; [apply IH|]. constructor; [lia|constructor].
Qed.
