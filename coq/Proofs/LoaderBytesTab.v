(* Proofs/LoaderBytesTab.v — C03b: filling the computed offsets into the in-use entries of a legal table
   (Spec/RenderClassic.v fill_sub) leaves it a legal table (Spec/XrefEnc.v wf_sect), provided the offsets fit
   the ten-digit field; what follows the table only matters through its first byte. *)
From PV Require Import Model.Obj Model.XrefTab Model.Loader Model.LoaderBytes Spec.XrefEnc Spec.RenderClassic.
From PV Require Import Proofs.XrefBase Proofs.XrefTab Proofs.ObjStream Proofs.LoaderBytesBase.
From Coq Require Import Lia.
Close Scope N_scope.

(* the first byte, digits identified *)
Definition cls (l : bytes) : option N :=
  match l with [] => None | b :: _ => Some (if is_digit b then 48%N else b) end.

Lemma no_ws_start_cls a b : cls a = cls b -> no_ws_start a -> no_ws_start b.
Proof.
  destruct a as [|x a], b as [|y b]; cbn [cls no_ws_start]; try discriminate; [tauto|].
  intros E. injection E as E.
  assert (D : forall d, is_digit d = true -> memb d [32; 0; 9; 13; 10; 12; 37]%N = false).
  { intros d Hd. unfold is_digit in Hd. apply andb_true_iff in Hd as [H1 H2]. apply N.leb_le in H1, H2.
    cbn [memb existsb]. repeat match goal with |- context [N.eqb d ?k] => destruct (N.eqb_spec d k); [lia|] end. reflexivity. }
  destruct (is_digit x) eqn:Dx, (is_digit y) eqn:Dy.
  - intros _. apply D, Dy.
  - subst y. discriminate.
  - subst x. discriminate.
  - subst y. tauto.
Qed.

Lemma cls_app_cons x a r : cls ((x :: a) ++ r) = cls (x :: a).
Proof. reflexivity. Qed.

Lemma cls_digits w n r : 1 <= w -> cls (digits w n ++ r) = Some 48%N.
Proof.
  intros W. destruct w as [|w]; [lia|]. destruct (digits_head w n) as (d & dr & -> & Hd). cbn [app cls]. rewrite Hd. reflexivity.
Qed.

Lemma cls_render_ents e es r : cls (render_ents (e :: es) ++ r) = Some 48%N.
Proof.
  rewrite render_ents_cons. unfold render_ent. rewrite <- !app_assoc. apply cls_digits. unfold xref_info_width. lia.
Qed.

(* ---------- fill preserves shapes ---------- *)
Lemma fill_ents_len ot es : forall n, len (fill_ents ot n es) = len es.
Proof. induction es as [|e es IH]; intros n; cbn [fill_ents len List.length]; [reflexivity|]. f_equal. apply IH. Qed.

Lemma fill_count ot x : ts_count (fill_sub ot x) = ts_count x.
Proof. unfold ts_count, fill_sub. cbn [ts_ents]. rewrite fill_ents_len. reflexivity. Qed.

Definition ot_small (ot : list (oid * N)) : Prop := forall id o, off_get ot id = Some o -> (o < 10 ^ 10)%N.

Lemma fill_ent_wf ot n e : ot_small ot -> wf_ent e -> wf_ent (fill_ent ot n e).
Proof.
  intros S (I & G & T). unfold fill_ent. destruct (te_inuse e); [|repeat split; assumption].
  unfold wf_ent. cbn [te_info te_gen te_term]. split; [|split; assumption].
  destruct (off_get ot (n, te_gen e)) as [o|] eqn:O; [exact (S _ _ O)|reflexivity].
Qed.

Lemma fill_ents_wf ot es : ot_small ot -> Forall wf_ent es -> forall n, Forall wf_ent (fill_ents ot n es).
Proof.
  intros S F. induction F as [|e es We _ IH]; intros n; cbn [fill_ents]; constructor; [apply fill_ent_wf; assumption|apply IH].
Qed.

Lemma fill_sub_wf ot x : ot_small ot -> wf_sub x -> wf_sub (fill_sub ot x).
Proof.
  intros S (A & B & C & D & E & F & G & H & I & J). unfold wf_sub. rewrite fill_count.
  cbn [fill_sub ts_lead ts_sw ts_start ts_cw ts_eol ts_ents]. repeat split; try assumption. apply fill_ents_wf; assumption.
Qed.

(* the first byte of a table (followed by [tail]) is not changed by filling *)
Lemma cls_table_fill ot t tail tail' :
  (forall x, In x t -> 1 <= ts_sw x) -> cls tail = cls tail' ->
  cls (render_table (List.map (fill_sub ot) t) ++ tail') = cls (render_table t ++ tail).
Proof.
  intros W Et. destruct t as [|x t]; [cbn; symmetry; exact Et|].
  cbn [List.map]. rewrite !render_table_cons. unfold render_sub. cbn [fill_sub ts_lead ts_sw ts_start].
  destruct (ts_lead x) as [|y ld]; [|reflexivity]. cbn [app]. rewrite <- !app_assoc.
  rewrite !cls_digits by (apply W; left; reflexivity). reflexivity.
Qed.

Lemma cls_ents_fill ot n es t tail tail' :
  (forall x, In x t -> 1 <= ts_sw x) -> cls tail = cls tail' ->
  cls (render_ents (fill_ents ot n es) ++ render_table (List.map (fill_sub ot) t) ++ tail') =
  cls (render_ents es ++ render_table t ++ tail).
Proof.
  intros W Et. destruct es as [|e es]; cbn [fill_ents].
  - cbn [render_ents concat List.map app]. apply cls_table_fill; assumption.
  - rewrite !cls_render_ents. reflexivity.
Qed.

Lemma wf_subs_sw t tail : wf_subs t tail -> forall x, In x t -> 1 <= ts_sw x.
Proof.
  induction t as [|y t IH]; cbn [wf_subs In]; [tauto|]. intros (Wy & _ & Wt) x [<-|H]; [apply Wy|apply IH; assumption].
Qed.

Lemma wf_subs_fill ot t tail tail' :
  ot_small ot -> cls tail = cls tail' -> wf_subs t tail -> wf_subs (List.map (fill_sub ot) t) tail'.
Proof.
  intros S Et. induction t as [|x t IH]; cbn [wf_subs List.map]; [tauto|]. intros (Wx & NS & Wt).
  split; [apply fill_sub_wf; assumption|]. split; [|apply IH, Wt].
  cbn [fill_sub ts_ents]. eapply no_ws_start_cls; [|exact NS]. symmetry.
  apply cls_ents_fill; [apply (wf_subs_sw _ _ Wt)|exact Et].
Qed.

Lemma tail_ok_cls a b : cls a = cls b -> tail_ok a -> tail_ok b.
Proof.
  destruct a as [|x a], b as [|y b]; cbn [cls tail_ok]; try discriminate; [tauto|].
  intros E. injection E as E.
  assert (D : forall d, is_digit d = true -> memb d [32; 0; 9; 13; 12; 48; 49; 50; 51; 52; 53; 54; 55; 56; 57; 43; 45; 46]%N = true).
  { intros d Hd. unfold is_digit in Hd. apply andb_true_iff in Hd as [H1 H2]. apply N.leb_le in H1, H2.
    assert (K : In d [48; 49; 50; 51; 52; 53; 54; 55; 56; 57]%N) by (cbn; lia).
    cbn [memb existsb]. cbn in K.
    repeat (destruct K as [<-|K]; [reflexivity|]). contradiction. }
  destruct (is_digit x) eqn:Dx, (is_digit y) eqn:Dy.
  - rewrite (D x Dx). discriminate.
  - subst y. discriminate.
  - subst x. discriminate.
  - subst y. tauto.
Qed.

(* THE LEMMA: a legal table stays legal when the offsets are filled in and the tail is replaced by one with the
   same first byte *)
Theorem wf_sect_fill ot pre eol t tail tail' :
  ot_small ot -> cls tail = cls tail' ->
  wf_sect pre eol t tail -> wf_sect pre eol (List.map (fill_sub ot) t) tail'.
Proof.
  intros S Et (Wp & Ne & We & Nt & NS & Wt & T).
  split; [exact Wp|]. split; [exact Ne|]. split; [exact We|]. split; [destruct t; [contradiction|discriminate]|].
  split; [|split; [apply (wf_subs_fill ot t tail tail' S Et Wt)|exact (tail_ok_cls _ _ Et T)]].
  eapply no_ws_start_cls; [|exact NS]. symmetry. apply cls_table_fill; [apply (wf_subs_sw _ _ Wt)|exact Et].
Qed.

(* ---------- the computed offsets are positions inside the body ---------- *)
Lemma offsets_bound cs : forall base o, In o (offsets base cs) -> o <= base + len (concat cs).
Proof.
  induction cs as [|c cs IH]; intros base o; cbn [offsets In concat]; [tauto|]. rewrite len_app.
  intros [<-|H]; [lia|]. apply IH in H. lia.
Qed.

Lemma off_get_in t id o : off_get t id = Some o -> In (id, o) t.
Proof.
  induction t as [|[k o'] t IH]; cbn [off_get In]; [discriminate|].
  destruct (oid_eqb k id) eqn:E; [|intros H; right; apply IH, H].
  intros H. injection H as ->. left. unfold oid_eqb in E. apply andb_true_iff in E as [E1 E2].
  apply N.eqb_eq in E1, E2. destruct k, id; cbn [fst snd] in *; subst; reflexivity.
Qed.

Lemma off_table_small objs l : (N.of_nat (len (body objs l)) < 10 ^ 10)%N -> ot_small (off_table objs l).
Proof.
  intros Hb id o H. apply off_get_in in H. unfold off_table in H. apply in_combine_r in H.
  apply in_map_iff in H as (k & <- & H). apply offsets_bound in H.
  unfold body in Hb. rewrite len_app in Hb. lia.
Qed.
