(* Proofs/BufSpec.v — C17: what "behaves like an independent copy of its window" means.
   The reference buffer is the trivial one: a byte list, a cursor, and whether some other handle
   shares the storage.  Its operations are the obvious list operations (the documented meaning
   of each ParseBufferT / StreamBufferT method).  Definitions only. *)
From PV Require Export Model.Buf.
Local Open Scope N_scope.

Record rb := { rdata : bytes; rcur : N; rshared : bool }.

Definition r_with_cur (r : rb) (c : N) : rb := {| rdata := rdata r; rcur := c; rshared := rshared r |}.
Definition r_rest (r : rb) : bytes := skipn (N.to_nat (rcur r)) (rdata r).

(* first position (relative) at which [t] occurs in [l] *)
Fixpoint find_tag (t l : bytes) : option N :=
  if prefixb t l then Some 0
  else match l with [] => None | _ :: l' => option_map N.succ (find_tag t l') end.

(* start of the last occurrence of [t] lying entirely inside [l] *)
Fixpoint find_last (t l : bytes) : option N :=
  match l with
  | [] => if prefixb t [] then Some 0 else None
  | _ :: l' =>
    match find_last t l' with
    | Some k => Some (k + 1)
    | None => if prefixb t l then Some 0 else None
    end
  end.

Definition r_step (r : rb) (o : op) : res (rv * rb) :=
  let n := lenN (rdata r) in
  let c := rcur r in
  match o with
  | OSetCursor k => if k <=? n then Ok (RUnit, r_with_cur r k) else Ok (RErr EEndOfBuffer, r)
  | OIncr => if c <? n then Ok (RUnit, r_with_cur r (c + 1)) else Ok (RErr EEndOfBuffer, r)
  | ODecr => if 0 <? c then Ok (RUnit, r_with_cur r (c - 1)) else Ok (RErr EEndOfBuffer, r)
  | OCheckCursor k => Ok (RBool (k <? n), r)
  (* the three operations that "assert their bounds checks": out of range is a panic by contract *)
  | OSetCursorU k => if k <=? n then Ok (RUnit, r_with_cur r k) else Panic
  | OIncrU => if c <? n then Ok (RUnit, r_with_cur r (c + 1)) else Panic
  | ODecrU => if 0 <? c then Ok (RUnit, r_with_cur r (c - 1)) else Panic
  | OCheckPrefix t => Ok (RBool (prefixb t (r_rest r)), r)
  | OAllowed t =>
    let x := take_while (fun b => memb b t) (r_rest r) in Ok (RBytes x, r_with_cur r (c + lenN x))
  | OUntil t =>
    let x := take_while (fun b => negb (memb b t)) (r_rest r) in Ok (RBytes x, r_with_cur r (c + lenN x))
  | OScan t =>
    match find_tag t (r_rest r) with
    | Some k => Ok (RNat k, r_with_cur r (c + k))
    | None => Ok (RErr EEndOfBuffer, r)
    end
  | OBScan t =>
    match find_last t (firstn (N.to_nat c) (rdata r)) with
    | Some p => Ok (RNat (c - p), r_with_cur r p)
    | None => Ok (RErr EEndOfBuffer, r)
    end
  | OExact t =>
    if prefixb t (r_rest r) then Ok (RBool true, r_with_cur r (c + lenN t)) else Ok (RErr EGuard, r)
  | OExtract k =>
    if n - c <? k then Ok (RErr EEndOfBuffer, r)
    else Ok (RBytes (firstn (N.to_nat k) (r_rest r)), r_with_cur r (c + k))
  | ODrop k =>
    if rshared r then Ok (RBool false, r)
    else if c <? k then Ok (RBool false, r)
    else Ok (RBool true, {| rdata := skipn (N.to_nat k) (rdata r); rcur := c - k; rshared := false |})
  | OAppend t =>
    if rshared r then Ok (RBool false, r)
    else Ok (RBool true, {| rdata := rdata r ++ t; rcur := c; rshared := false |})
  | OView a k =>
    if a + k <=? n then Ok (RUnit, {| rdata := sub (rdata r) (N.to_nat a) (N.to_nat (a + k)); rcur := 0; rshared := true |})
    else Ok (RErr EBounds, r)
  | OViewFrom a =>
    if a <? n then Ok (RUnit, {| rdata := skipn (N.to_nat a) (rdata r); rcur := 0; rshared := true |})
    else Ok (RErr EBounds, r)
  | ORelease => Ok (RUnit, {| rdata := rdata r; rcur := c; rshared := false |})
  end.

Definition r_observe (r : rb) : sobs :=
  {| o_cur := rcur r; o_size := lenN (rdata r); o_rem := lenN (rdata r) - rcur r;
     o_peek := nth_error (rdata r) (N.to_nat (rcur r)); o_buf := r_rest r |}.

Fixpoint run_r (ops : list op) (r : rb) : list obs :=
  match ops with
  | [] => []
  | o :: rest =>
    match r_step r o with
    | Ok (x, r') => OStep x (r_observe r') :: run_r rest r'
    | _ => [OPanic]
    end
  end.

(* ---------- the abstraction: a view is its window ---------- *)
Definition window (v : pb) : bytes := sub (data v) (N.to_nat (st v)) (N.to_nat (en v)).
Definition abs (v : pb) : rb := {| rdata := window v; rcur := ofs v - st v; rshared := shared v |}.
(* the last conjunct: Vec::len() <= isize::MAX (a Vec never holds more than isize::MAX bytes) *)
Definition Inv (v : pb) : Prop := st v <= ofs v /\ ofs v <= en v /\ en v <= lenN (data v) /\ 2 * lenN (data v) < W.

(* a well-formed reference buffer *)
Definition RInv (r : rb) : Prop := rcur r <= lenN (rdata r).

(* an operation is one of those that by contract assert (panic) when out of range *)
Definition asserting (o : op) : bool :=
  match o with OSetCursorU _ | OIncrU | ODecrU => true | _ => false end.
