(* Proofs/PrimTok.v — C15 for the token parsers without loops. *)
From PV Require Import Model.Prim Proofs.PrimBase.
From Coq Require Import ZifyBool ZifyNat ZifyN.

(* ---------- the three statements of C15, per parser ---------- *)
Definition err_restores {A} (P : bytes -> nat -> pres (lv A)) : Prop :=
  forall s c k c', P s c = PErr k c' -> c' = c.

Definition fine {A} (r : pres A) : Prop := match r with PPanic | PFuel => False | _ => True end.
Lemma fine_iff {A} (r : pres A) : fine r <-> r <> PPanic /\ r <> PFuel.
Proof. destruct r; cbn; split; try tauto; intros; try split; try discriminate; try exact I. Qed.
Definition no_panic {A} (P : bytes -> nat -> pres (lv A)) : Prop :=
  forall s c, c <= len s -> fine (P s c).

(* R a v v' : v' is v with nested locations shifted down by a (equality for all but StreamContentT) *)
Definition ok_span_rel {A} (R : nat -> A -> A -> Prop) (P : bytes -> nat -> pres (lv A)) : Prop :=
  forall s c v a b c', c <= len s -> P s c = POk (v, a, b) c' ->
    a = c /\ b = c' /\ c <= b /\ b <= len s /\
    exists v', P (sub s a b) 0 = POk (v', 0, b - a) (b - a) /\ R a v v'.
Definition ok_span {A} := @ok_span_rel A (fun _ v v' => v' = v).

Ltac brk :=
  repeat match goal with
         | H : context [if ?b then _ else _] |- _ => destruct b eqn:?
         | H : context [match ?x with _ => _ end] |- _ => destruct x eqn:?
         end.

Lemma boolean_err : err_restores boolean.
Proof. intros s c k c' H. unfold boolean in H. brk; congruence. Qed.

Ltac err_tac H := cbv beta in H; brk; try congruence; try discriminate.

Lemma null_err : err_restores null.
Proof. intros s c k c' H. unfold null in H. err_tac H. Qed.

Lemma bin_matcher_err tag : err_restores (bin_matcher tag).
Proof. intros s c k c' H. unfold bin_matcher in H. err_tac H. Qed.

Lemma bin_scanner_err tag : err_restores (bin_scanner tag).
Proof. intros s c k c' H. unfold bin_scanner, scan in H. err_tac H. Qed.

Lemma comment_err : err_restores comment.
Proof. intros s c k c' H. unfold comment, incr in H. err_tac H. Qed.

Lemma integer_err : err_restores integer.
Proof. intros s c k c' H. unfold integer, integer_body, incr, setc in H. err_tac H. Qed.

Lemma real_err : err_restores real.
Proof. intros s c k c' H. unfold real, real_body, incr, setc in H. err_tac H. Qed.

Lemma hexstring_err : err_restores hexstring.
Proof. intros s c k c' H. unfold hexstring, incr, setc in H. err_tac H. Qed.

Lemma name_err : err_restores name.
Proof. intros s c k c' H. unfold name, incr, setc in H. err_tac H. Qed.

Lemma operator_err : err_restores operator.
Proof. intros s c k c' H. unfold operator, incr, setc in H. err_tac H. Qed.

Lemma stream_content_err n e : err_restores (stream_content n e).
Proof. intros s c k c' H. unfold stream_content, incr, setc, extract in H. err_tac H. Qed.

Lemma ws_noeol_err e : err_restores (ws_noeol e).
Proof.
  intros s c k c' H. unfold ws_noeol, decr in H. cbv beta in H. brk; try discriminate; inversion H; subst; lia.
Qed.

(* ---------- no panic ---------- *)
Lemma incr_peek {A} s c b (k : nat -> pres A) : peek_is s c b = true -> incr s c k = k (S c).
Proof. intros H. apply incr_ok. eapply peek_is_lt, H. Qed.

Ltac np_step :=
  first [ match goal with
          | H : negb ?x = false |- _ => apply negb_false_iff in H
          | H : negb ?x = true |- _ => apply negb_true_iff in H
          end
        | match goal with H : peek_is ?s ?c ?b = true |- context [incr ?s ?c ?k] => rewrite (incr_peek s c b k H) end
        | rewrite setc_ok by lia
        | match goal with
          | |- context [if ?b then _ else _] => destruct b eqn:?
          | |- context [match ?x with _ => _ end] => destruct x eqn:?
          end ].
Ltac np := cbv beta; repeat np_step; try exact I.

Lemma boolean_np : no_panic boolean.
Proof. intros s c Hc. unfold boolean. np. Qed.
Lemma null_np : no_panic null.
Proof. intros s c Hc. unfold null. np. Qed.
Lemma bin_matcher_np tag : no_panic (bin_matcher tag).
Proof. intros s c Hc. unfold bin_matcher. np. Qed.
Lemma bin_scanner_np tag : no_panic (bin_scanner tag).
Proof. intros s c Hc. unfold bin_scanner, scan. destruct tag; [exact I|]. destruct (find_tag _ _); exact I. Qed.
Lemma comment_np : no_panic comment.
Proof. intros s c Hc. unfold comment. np. Qed.
Lemma integer_np : no_panic integer.
Proof. intros s c Hc. unfold integer, integer_body. np. Qed.
Lemma real_np : no_panic real.
Proof. intros s c Hc. unfold real, real_body. np. Qed.
Lemma name_np : no_panic name.
Proof. intros s c Hc. unfold name. np. Qed.
Lemma operator_np : no_panic operator.
Proof. intros s c Hc. unfold operator. np. Qed.

Lemma last_is_nonempty l b : last_is l b = true -> 0 < len l.
Proof. destruct l; cbn; [discriminate|lia]. Qed.

Lemma len_sub_le (s : bytes) a b : len (sub s a b) <= b - a.
Proof. unfold sub, len. rewrite firstn_length. lia. Qed.

Lemma ws_noeol_np e : no_panic (ws_noeol e).
Proof.
  intros s c Hc. unfold ws_noeol. cbv beta.
  destruct (last_is _ 13 && peek_is _ _ 10) eqn:E.
  - apply andb_true_iff in E as [E _]. apply last_is_nonempty in E.
    pose proof (len_sub_le s c (c + allowed ws_noeol_set s c)).
    destruct (c + allowed ws_noeol_set s c) eqn:E2; [lia|]. cbn [decr]. np.
  - np.
Qed.

(* HexString: every byte taken is a hex digit or white space, so int_of_hex's assert holds *)
Lemma memb_In x l : memb x l = true -> In x l.
Proof.
  unfold memb. intros H. apply existsb_exists in H as (y & Hy & E). apply N.eqb_eq in E. subst. exact Hy.
Qed.

Lemma hexws_hex b : memb b hexws_set = true -> memb b hex_ws = false -> is_hex_b b = true.
Proof.
  intros H1 H2. apply memb_In in H1.
  assert (F : forallb (fun b => memb b hex_ws || is_hex_b b) hexws_set = true) by (vm_compute; reflexivity).
  rewrite forallb_forall in F. specialize (F b H1). rewrite H2 in F. exact F.
Qed.

Lemma int_of_hex_some b : is_hex_b b = true -> exists x, int_of_hex b = Some x.
Proof. intros H. unfold int_of_hex. rewrite H. cbn [negb]. destruct (is_digit_b b); [eauto|]. destruct (_ && _); eauto. Qed.

Lemma hex_pairs_some l : Forall (fun b => is_hex_b b = true) l -> exists v, hex_pairs l = Some v.
Proof.
  assert (G : forall n l, len l <= n -> Forall (fun b => is_hex_b b = true) l -> exists v, hex_pairs l = Some v).
  { induction n as [|n IH]; intros [|a [|b r]] Hn F; cbn [hex_pairs]; eauto; try (cbn in Hn; lia).
    inversion F as [|? ? Fa F1]; subst. inversion F1 as [|? ? Fb F2]; subst.
    destruct (int_of_hex_some a Fa) as [x ->]. destruct (int_of_hex_some b Fb) as [y ->].
    destruct (IH r) as [v ->]; [cbn in Hn; unfold len in *; lia|exact F2|eauto]. }
  intros F. eapply G; [reflexivity|exact F].
Qed.

Lemma hex_value_some bs : Forall (fun b => memb b hexws_set = true) bs -> exists v, hex_value bs = Some v.
Proof.
  intros F. unfold hex_value.
  assert (Fh : Forall (fun b => is_hex_b b = true) (filter (fun b => negb (memb b hex_ws)) bs)).
  { apply Forall_forall. intros x Hx. apply filter_In in Hx as [Hx1 Hx2].
    rewrite Forall_forall in F. apply hexws_hex; [apply F, Hx1|]. destruct (memb x hex_ws); [discriminate|reflexivity]. }
  destruct (Nat.eqb _ 0); apply hex_pairs_some; [exact Fh|].
  apply Forall_app. split; [exact Fh|]. constructor; [reflexivity|constructor].
Qed.

Lemma allowed_all set s c : Forall (fun b => memb b set = true) (sub s c (c + allowed set s c)).
Proof.
  unfold sub, allowed. replace (c + _ - c) with (span_n (fun b => memb b set) (skipn c s)) by lia.
  apply span_n_all.
Qed.

Lemma hexstring_np : no_panic hexstring.
Proof.
  intros s c Hc. unfold hexstring. np.
  destruct (hex_value_some _ (allowed_all hexws_set s (S c))) as [v Hv]. congruence.
Qed.

Lemma extract_ok n s c v x : extract n s c = POk v x -> c + n <= len s /\ x = c + n /\ v = sub s c (c + n).
Proof.
  unfold extract. destruct (Nat.ltb_spec (len s) c); [discriminate|].
  destruct (Nat.ltb_spec (len s - c) n); [discriminate|]. intros H'; inversion H'; subst. repeat split; lia.
Qed.

Lemma stream_content_np n e : no_panic (stream_content n e).
Proof.
  intros s c Hc. unfold stream_content.
  destruct (exact kw_stream s c) as [c1|] eqn:E1; [|exact I].
  apply exact_some in E1 as [-> L1]. specialize (L1 Hc). cbv beta.
  set (c1 := c + len kw_stream) in *.
  assert (G : forall c2, c2 <= len s ->
     fine (if negb (peek_is s c2 10) then setc s c (fun c' => PErr EGuard c')
           else incr s c2 (fun c3 =>
      match extract n s c3 with
      | PErr k _ => setc s c (fun c' => PErr k c')
      | PPanic => PPanic
      | PFuel => PFuel
      | POk v _ =>
        setc s (c3 + n) (fun c4 =>
        (fun k => if peek_is s c4 13 then incr s c4 k else k c4) (fun c5 =>
        (fun k => if peek_is s c5 10 then incr s c5 k else k c5) (fun c6 =>
        if e && Nat.eqb c4 c6 then
          setc s c (fun c' => PErr EGuard c')
        else match exact kw_endstream s c6 with
             | None => setc s c (fun c' => PErr EGuard c')
             | Some c7 => POk ((c3, n, v), c, c7) c7
             end)))
      end))).
  { intros c2 L2. destruct (negb (peek_is s c2 10)) eqn:E2; [np|]. apply negb_false_iff in E2.
    rewrite (incr_peek _ _ _ _ E2). pose proof (peek_is_lt _ _ _ E2) as L3.
    destruct (extract n s (S c2)) as [v x|k x| |] eqn:Ex.
    - apply extract_ok in Ex as (L4 & -> & ->). rewrite setc_ok by lia. np.
    - np.
    - unfold extract in Ex. destruct (Nat.ltb_spec (len s) (S c2)); [lia|]. destruct (Nat.ltb _ n); discriminate.
    - unfold extract in Ex. destruct (Nat.ltb (len s) (S c2)); [discriminate|]. destruct (Nat.ltb _ n); discriminate. }
  destruct (peek_is s c1 13) eqn:E13.
  - rewrite (incr_peek _ _ _ _ E13). apply G. apply peek_is_lt in E13. lia.
  - apply G. exact L1.
Qed.

(* ---------- window lemmas in "position p of s = position i of the window" form ---------- *)
Lemma peek_is_win s c e p i b : p = c + i -> p < e -> peek_is (sub s c e) i b = peek_is s p b.
Proof. intros -> H. apply peek_is_sub_in. lia. Qed.
Lemma peek_is_win_out s c e p i b : p = c + i -> e <= p -> peek_is (sub s c e) i b = false.
Proof. intros -> H. apply peek_is_sub_out. lia. Qed.
Lemma peek_win s c e p i : p = c + i -> p < e -> peek (sub s c e) i = peek s p.
Proof. intros -> H. rewrite peek_sub. destruct (Nat.ltb_spec i (e - c)); [reflexivity|lia]. Qed.
Lemma peek_win_out s c e p i : p = c + i -> e <= p -> peek (sub s c e) i = None.
Proof. intros -> H. rewrite peek_sub. destruct (Nat.ltb_spec i (e - c)); [lia|reflexivity]. Qed.
Lemma allowed_win set s c e p i : p = c + i -> p + allowed set s p <= e -> allowed set (sub s c e) i = allowed set s p.
Proof. intros -> H. rewrite allowed_sub. lia. Qed.
Lemma until_win set s c e p i : p = c + i -> p + until set s p <= e -> until set (sub s c e) i = until set s p.
Proof. intros -> H. rewrite until_sub. lia. Qed.
Lemma sub_win (s : bytes) c e p q i j : p = c + i -> q = c + j -> q <= e -> sub (sub s c e) i j = sub s p q.
Proof. intros -> -> H. apply sub_sub. exact H. Qed.
Lemma exact_win_some tag s c e p i x : p = c + i -> exact tag s p = Some x -> x <= e -> exact tag (sub s c e) i = Some (x - c).
Proof. intros -> H L. eapply exact_sub_some; eassumption. Qed.
Lemma exact_win_none tag s c e p i : p = c + i -> exact tag s p = None -> exact tag (sub s c e) i = None.
Proof. intros -> H. eapply exact_sub_none; eassumption. Qed.
Lemma incr_win {A} (s : bytes) c e i (k : nat -> pres A) : c <= e -> e <= len s -> c + i < e -> incr (sub s c e) i k = k (S i).
Proof. intros H1 H2 H3. apply incr_ok. rewrite len_sub by lia. lia. Qed.

(* ---------- spans ---------- *)
Lemma boolean_span : ok_span boolean.
Proof.
  intros s c v a b c' Hc H. unfold boolean in H.
  destruct (exact kw_true s c) as [x|] eqn:E1.
  - injection H as Hv Ha Hb Hc2; subst v a b c'. destruct (exact_some _ _ _ _ E1) as [Ex L]. specialize (L Hc).
    repeat split; try lia. exists true. split; [|reflexivity]. unfold boolean.
    rewrite (exact_win_some kw_true s c x c 0 x) by (assumption || lia). reflexivity.
  - destruct (exact kw_false s c) as [x|] eqn:E2; [|discriminate].
    injection H as Hv Ha Hb Hc2; subst v a b c'. destruct (exact_some _ _ _ _ E2) as [Ex L]. specialize (L Hc).
    repeat split; try lia. exists false. split; [|reflexivity]. unfold boolean.
    rewrite (exact_win_none kw_true s c x c 0) by (assumption || lia).
    rewrite (exact_win_some kw_false s c x c 0 x) by (assumption || lia). reflexivity.
Qed.

Lemma null_span : ok_span null.
Proof.
  intros s c v a b c' Hc H. unfold null in H.
  destruct (exact kw_null s c) as [x|] eqn:E1; [|discriminate].
  injection H as Hv Ha Hb Hc2; subst v a b c'. destruct (exact_some _ _ _ _ E1) as [Ex L]. specialize (L Hc).
  repeat split; try lia. exists tt. split; [|reflexivity]. unfold null.
  rewrite (exact_win_some kw_null s c x c 0 x) by (assumption || lia). reflexivity.
Qed.

Lemma bin_matcher_span tag : ok_span (bin_matcher tag).
Proof.
  intros s c v a b c' Hc H. unfold bin_matcher in H.
  destruct (exact tag s c) as [x|] eqn:E1; [|discriminate].
  injection H as Hv Ha Hb Hc2; subst v a b c'. destruct (exact_some _ _ _ _ E1) as [Ex L]. specialize (L Hc).
  repeat split; try lia. exists true. split; [|reflexivity]. unfold bin_matcher.
  rewrite (exact_win_some tag s c x c 0 x) by (assumption || lia). reflexivity.
Qed.

Lemma integer_body_span m s c c1 v a b c' :
  c <= c1 -> c1 <= len s -> integer_body m s c c1 = POk (v, a, b) c' ->
  a = c /\ b = c' /\ c1 < b /\ b <= len s /\
  forall i, c1 = c + i -> integer_body m (sub s c b) 0 i = POk (v, 0, b - c) (b - c).
Proof.
  intros H1 H2 H. unfold integer_body in H.
  pose proof (allowed_le digit_set s c1 H2) as L.
  set (n := allowed digit_set s c1) in *.
  destruct (Nat.eqb_spec n 0) as [En|En]. { rewrite setc_ok in H by lia. discriminate. }
  destruct (acc_digits i64_max (sub s c1 (c1 + n)) 0) as [num|] eqn:Ea; [|rewrite setc_ok in H by lia; discriminate].
  injection H as Hv Ha Hb Hc2; subst v a b c'.
  repeat split; try lia.
  intros i ->. unfold integer_body.
  rewrite (allowed_win digit_set s c (c + i + n) (c + i) i) by (fold n; lia). fold n.
  destruct (Nat.eqb_spec n 0) as [En'|_]; [lia|].
  rewrite (sub_win s c (c + i + n) (c + i) (c + i + n) i (i + n)) by lia. rewrite Ea.
  f_equal; [f_equal; lia|lia].
Qed.

Lemma integer_span : ok_span integer.
Proof.
  intros s c v a b c' Hc H. unfold integer in H.
  destruct (peek_is s c 45) eqn:E1; [|destruct (peek_is s c 43) eqn:E2].
  - pose proof (peek_is_lt _ _ _ E1) as L. rewrite (incr_peek _ _ _ _ E1) in H.
    apply integer_body_span in H as (-> & -> & L1 & L2 & R); try lia.
    repeat split; try lia. exists v. split; [|reflexivity]. unfold integer.
    rewrite (peek_is_win s c c' c 0) by lia. rewrite E1.
    rewrite incr_win by lia. apply R. lia.
  - pose proof (peek_is_lt _ _ _ E2) as L. rewrite (incr_peek _ _ _ _ E2) in H.
    apply integer_body_span in H as (-> & -> & L1 & L2 & R); try lia.
    repeat split; try lia. exists v. split; [|reflexivity]. unfold integer.
    rewrite !(peek_is_win s c c' c 0) by lia. rewrite E1, E2.
    rewrite incr_win by lia. apply R. lia.
  - apply integer_body_span in H as (-> & -> & L1 & L2 & R); try lia.
    repeat split; try lia. exists v. split; [|reflexivity]. unfold integer.
    rewrite !(peek_is_win s c c' c 0) by lia. rewrite E1, E2. apply R. lia.
Qed.

Lemma real_body_span mn s c c1 v a b c' :
  c <= c1 -> c1 <= len s -> real_body mn s c c1 = POk (v, a, b) c' ->
  a = c /\ b = c' /\ c1 < b /\ b <= len s /\
  forall i, c1 = c + i -> real_body mn (sub s c b) 0 i = POk (v, 0, b - c) (b - c).
Proof.
  intros H1 H2 H. unfold real_body in H.
  pose proof (allowed_le digit_set s c1 H2) as L.
  set (n := allowed digit_set s c1) in *.
  destruct (Nat.eqb n 0 && negb (peek_is s (c1 + n) 46)) eqn:E0. { rewrite setc_ok in H by lia. discriminate. }
  destruct (acc_digits i128_max (sub s c1 (c1 + n)) 0) as [num|] eqn:Ea; [|rewrite setc_ok in H by lia; discriminate].
  destruct (peek_is s (c1 + n) 46) eqn:Ed.
  - pose proof (peek_is_lt _ _ _ Ed) as Ld. rewrite (incr_peek _ _ _ _ Ed) in H.
    pose proof (allowed_le digit_set s (S (c1 + n)) Ld) as L'.
    set (m := allowed digit_set s (S (c1 + n))) in *.
    destruct (acc_frac i128_max (sub s (S (c1 + n)) (S (c1 + n) + m)) num 1) as [[num' den]|] eqn:Ef;
      [|rewrite setc_ok in H by lia; discriminate].
    injection H as Hv Ha Hb Hc2; subst v a b c'.
    repeat split; try lia.
    intros i ->. unfold real_body. match goal with |- context [sub s c ?x] => remember x as e eqn:He end.
    rewrite (allowed_win digit_set s c e (c + i) i) by (fold n; lia). fold n.
    rewrite (peek_is_win s c e (c + i + n) (i + n)) by lia. rewrite Ed, E0.
    rewrite (sub_win s c e (c + i) (c + i + n) i (i + n)) by lia. rewrite Ea.
    rewrite incr_win by lia.
    rewrite (allowed_win digit_set s c e (S (c + i + n)) (S (i + n))) by (fold m; lia). fold m.
    rewrite (sub_win s c e (S (c + i + n)) (S (c + i + n) + m) (S (i + n)) (S (i + n) + m)) by lia. rewrite Ef.
    f_equal; [f_equal; lia|lia].
  - injection H as Hv Ha Hb Hc2; subst v a b c'.
    assert (n <> 0) by (destruct (Nat.eqb_spec n 0); [discriminate|assumption]).
    repeat split; try lia.
    intros i ->. unfold real_body. match goal with |- context [sub s c ?x] => remember x as e eqn:He end.
    rewrite (allowed_win digit_set s c e (c + i) i) by (fold n; lia). fold n.
    rewrite (peek_is_win_out s c e (c + i + n) (i + n)) by lia.
    destruct (Nat.eqb_spec n 0) as [En'|_]; [lia|]. cbn [andb].
    rewrite (sub_win s c e (c + i) (c + i + n) i (i + n)) by lia. subst e. rewrite Ea.
    f_equal; [f_equal; lia|lia].
Qed.

Lemma real_span : ok_span real.
Proof.
  intros s c v a b c' Hc H. unfold real in H.
  destruct (peek_is s c 45) eqn:E1; [|destruct (peek_is s c 43) eqn:E2].
  - pose proof (peek_is_lt _ _ _ E1) as L. rewrite (incr_peek _ _ _ _ E1) in H.
    apply real_body_span in H as (-> & -> & L1 & L2 & R); try lia.
    repeat split; try lia. exists v. split; [|reflexivity]. unfold real.
    rewrite (peek_is_win s c c' c 0) by lia. rewrite E1.
    rewrite incr_win by lia. apply R. lia.
  - pose proof (peek_is_lt _ _ _ E2) as L. rewrite (incr_peek _ _ _ _ E2) in H.
    apply real_body_span in H as (-> & -> & L1 & L2 & R); try lia.
    repeat split; try lia. exists v. split; [|reflexivity]. unfold real.
    rewrite !(peek_is_win s c c' c 0) by lia. rewrite E1, E2.
    rewrite incr_win by lia. apply R. lia.
  - apply real_body_span in H as (-> & -> & L1 & L2 & R); try lia.
    repeat split; try lia. exists v. split; [|reflexivity]. unfold real.
    rewrite !(peek_is_win s c c' c 0) by lia. rewrite E1, E2. apply R. lia.
Qed.

Lemma comment_span : ok_span comment.
Proof.
  intros s c v a b c' Hc H. unfold comment in H.
  destruct (peek_is s c 37) eqn:E1; [|discriminate]. cbn [negb] in H.
  pose proof (peek_is_lt _ _ _ E1) as L. rewrite (incr_peek _ _ _ _ E1) in H.
  pose proof (until_le comment_stop s (S c) L) as L1.
  set (n := until comment_stop s (S c)) in *.
  destruct (peek_is s (S c + n) 10) eqn:E2.
  - pose proof (peek_is_lt _ _ _ E2) as L2. rewrite (incr_peek _ _ _ _ E2) in H.
    injection H as Hv Ha Hb Hc2; subst v a b c'. repeat split; try lia.
    eexists. split; [|reflexivity]. unfold comment.
    match goal with |- context [sub s c ?x] => remember x as e eqn:He end.
    rewrite (peek_is_win s c e c 0) by lia. rewrite E1. cbn [negb]. rewrite incr_win by lia.
    rewrite (until_win comment_stop s c e (S c) 1) by (fold n; lia). fold n.
    rewrite (peek_is_win s c e (S c + n) (1 + n)) by lia. rewrite E2. rewrite incr_win by lia.
    rewrite (sub_win s c e (S c) (S c + n) 1 (1 + n)) by lia. subst e. f_equal; [f_equal; lia|lia].
  - injection H as Hv Ha Hb Hc2; subst v a b c'. repeat split; try lia.
    eexists. split; [|reflexivity]. unfold comment.
    match goal with |- context [sub s c ?x] => remember x as e eqn:He end.
    rewrite (peek_is_win s c e c 0) by lia. rewrite E1. cbn [negb]. rewrite incr_win by lia.
    rewrite (until_win comment_stop s c e (S c) 1) by (fold n; lia). fold n.
    rewrite (peek_is_win_out s c e (S c + n) (1 + n)) by lia.
    rewrite (sub_win s c e (S c) (S c + n) 1 (1 + n)) by lia. subst e. f_equal; [f_equal; lia|lia].
Qed.

Lemma hexstring_span : ok_span hexstring.
Proof.
  intros s c v a b c' Hc H. unfold hexstring in H.
  destruct (peek_is s c 60) eqn:E1; [|discriminate]. cbn [negb] in H.
  pose proof (peek_is_lt _ _ _ E1) as L. rewrite (incr_peek _ _ _ _ E1) in H.
  pose proof (allowed_le hexws_set s (S c) L) as L1.
  set (n := allowed hexws_set s (S c)) in *.
  destruct (peek_is s (S c + n) 62) eqn:E2; cbn [negb] in H; [|rewrite setc_ok in H by lia; discriminate].
  pose proof (peek_is_lt _ _ _ E2) as L2. rewrite (incr_peek _ _ _ _ E2) in H.
  destruct (hex_value (sub s (S c) (S c + n))) as [hv|] eqn:Ev; [|discriminate].
  injection H as Hv Ha Hb Hc2; subst v a b c'. repeat split; try lia.
  eexists. split; [|reflexivity]. unfold hexstring.
  match goal with |- context [sub s c ?x] => remember x as e eqn:He end.
  rewrite (peek_is_win s c e c 0) by lia. rewrite E1. cbn [negb]. rewrite incr_win by lia.
  rewrite (allowed_win hexws_set s c e (S c) 1) by (fold n; lia). fold n.
  rewrite (peek_is_win s c e (S c + n) (1 + n)) by lia. rewrite E2. cbn [negb]. rewrite incr_win by lia.
  rewrite (sub_win s c e (S c) (S c + n) 1 (1 + n)) by lia. rewrite Ev. subst e. f_equal; [f_equal; lia|lia].
Qed.

Lemma name_span : ok_span name.
Proof.
  intros s c v a b c' Hc H. unfold name in H.
  destruct (peek_is s c 47) eqn:E1; [|discriminate]. cbn [negb] in H.
  pose proof (peek_is_lt _ _ _ E1) as L. rewrite (incr_peek _ _ _ _ E1) in H.
  pose proof (until_le name_stops s (S c) L) as L1.
  set (n := until name_stops s (S c)) in *.
  destruct (name_decode (sub s (S c) (S c + n))) as [r|] eqn:Ev; [|rewrite setc_ok in H by lia; discriminate].
  injection H as Hv Ha Hb Hc2; subst v a b c'. repeat split; try lia.
  eexists. split; [|reflexivity]. unfold name.
  match goal with |- context [sub s c ?x] => remember x as e eqn:He end.
  rewrite (peek_is_win s c e c 0) by lia. rewrite E1. cbn [negb]. rewrite incr_win by lia.
  rewrite (until_win name_stops s c e (S c) 1) by (fold n; lia). fold n.
  rewrite (sub_win s c e (S c) (S c + n) 1 (1 + n)) by lia. rewrite Ev. subst e. f_equal; [f_equal; lia|lia].
Qed.

Lemma operator_span : ok_span operator.
Proof.
  intros s c v a b c' Hc H. unfold operator in H.
  pose proof (until_le op_stops s c Hc) as L1.
  set (n := until op_stops s c) in *.
  destruct (Nat.eqb_spec c (c + n)) as [En|En]; [rewrite setc_ok in H by lia; discriminate|].
  destruct (name_decode (sub s c (c + n))) as [r|] eqn:Ev; [|rewrite setc_ok in H by lia; discriminate].
  destruct (utf8_valid r) eqn:Eu; [|rewrite setc_ok in H by lia; discriminate].
  injection H as Hv Ha Hb Hc2; subst v a b c'. repeat split; try lia.
  eexists. split; [|reflexivity]. unfold operator.
  match goal with |- context [sub s c ?x] => remember x as e eqn:He end.
  rewrite (until_win op_stops s c e c 0) by (fold n; lia). fold n.
  destruct (Nat.eqb_spec 0 (0 + n)) as [En'|_]; [lia|].
  rewrite (sub_win s c e c (c + n) 0 (0 + n)) by lia. subst e. rewrite Ev, Eu. f_equal; [f_equal; lia|lia].
Qed.

Lemma ws_noeol_span e0 : ok_span (ws_noeol e0).
Proof.
  intros s c v a b c' Hc H. unfold ws_noeol in H. cbv beta in H.
  pose proof (allowed_le ws_noeol_set s c Hc) as L1.
  set (n := allowed ws_noeol_set s c) in *.
  (* on the window the look-ahead for LF is at the end of the buffer: no rewind *)
  assert (R : forall e, c <= e -> e <= c + n -> (Nat.eqb c e && negb e0 = false) ->
              ws_noeol e0 (sub s c e) 0 = POk (tt, 0, e - c) (e - c)).
  { intros e He1 He2 Hcond. unfold ws_noeol. cbv beta. rewrite allowed_sub.
    replace (c + 0) with c by lia. fold n. replace (Nat.min (e - c - 0) n) with (e - c) by lia.
    rewrite (peek_is_sub_out s c e (0 + (e - c)) 10) by lia. rewrite andb_false_r.
    replace (Nat.eqb 0 (0 + (e - c))) with (Nat.eqb c e).
    - rewrite Hcond. reflexivity.
    - destruct (Nat.eqb_spec c e), (Nat.eqb_spec 0 (0 + (e - c))); try reflexivity; lia. }
  destruct (last_is (sub s c (c + n)) 13 && peek_is s (c + n) 10) eqn:E.
  - apply andb_true_iff in E as [El _]. apply last_is_nonempty in El. rewrite len_sub in El by lia.
    destruct (c + n) as [|c2] eqn:E2; [lia|]. cbn [decr] in H.
    destruct (Nat.eqb c c2 && negb e0) eqn:E3; [discriminate|].
    injection H as Hv Ha Hb Hc2; subst v a b c'. repeat split; try lia.
    exists tt. split; [|reflexivity]. apply R; try lia; exact E3.
  - destruct (Nat.eqb c (c + n) && negb e0) eqn:E3; [discriminate|].
    injection H as Hv Ha Hb Hc2; subst v a b c'. repeat split; try lia.
    exists tt. split; [|reflexivity]. apply R; try lia; exact E3.
Qed.

(* BinaryScanner: the value (bytes skipped) is determined by the span followed by the tag
   (the tag is look-ahead: scan leaves the cursor at its start) *)
Lemma find_tag_some tag l k : find_tag tag l = Some k -> k + len tag <= len l /\ prefixb tag (skipn k l) = true.
Proof.
  revert k; induction l as [|x l IH]; intros k; cbn [find_tag].
  - destruct (prefixb tag []) eqn:E; [|discriminate]. intros H; inversion H; subst. split; [|exact E].
    apply prefixb_len in E. cbn in *. lia.
  - destruct (prefixb tag (x :: l)) eqn:E.
    + intros H; inversion H; subst. split; [|exact E]. apply prefixb_len in E. lia.
    + destruct (find_tag tag l) as [k'|] eqn:F; [|discriminate]. intros H; inversion H; subst.
      destruct (IH k' eq_refl) as [L P]. split; [unfold len in *; cbn; lia|exact P].
Qed.

Lemma find_tag_hit tag l : prefixb tag l = true -> find_tag tag l = Some 0.
Proof. intros H. destruct l; cbn [find_tag]; rewrite H; reflexivity. Qed.

Lemma find_tag_firstn tag l k : find_tag tag l = Some k -> find_tag tag (firstn (k + len tag) l) = Some k.
Proof.
  revert k; induction l as [|x l IH]; intros k; cbn [find_tag].
  - destruct (prefixb tag []) eqn:E; [|discriminate]. intros H; inversion H; subst.
    rewrite firstn_nil. cbn [find_tag]. rewrite E. reflexivity.
  - destruct (prefixb tag (x :: l)) eqn:E.
    + intros H; inversion H; subst. cbn [plus]. apply find_tag_hit. rewrite prefixb_firstn by lia. exact E.
    + destruct (find_tag tag l) as [k'|] eqn:F; [|discriminate]. intros H; inversion H; subst.
      cbn [plus firstn find_tag]. rewrite (IH k' eq_refl).
      destruct (prefixb tag (x :: firstn (k' + len tag) l)) eqn:E2; [|reflexivity].
      change (x :: firstn (k' + len tag) l) with (firstn (S (k' + len tag)) (x :: l)) in E2.
      apply prefixb_firstn_true in E2. congruence.
Qed.

Definition scan_span (tag : bytes) : Prop :=
  forall s c v a b c', c <= len s -> bin_scanner tag s c = POk (v, a, b) c' ->
    a = c /\ b = c' /\ c <= b /\ b + len tag <= len s /\ v = b - a /\
    bin_scanner tag (sub s a (b + len tag)) 0 = POk (v, 0, b - a) (b - a).

Lemma bin_scanner_span tag : scan_span tag.
Proof.
  intros s c v a b c' Hc H. unfold bin_scanner, scan in H. destruct tag as [|t0 tag].
  { injection H as Hv Ha Hb Hc2; subst v a b c'. cbn [len List.length]. repeat split; try lia.
    unfold bin_scanner, scan. f_equal; [f_equal; lia|lia]. }
  set (tg := t0 :: tag) in *.
  destruct (find_tag tg (skipn c s)) as [k|] eqn:F; [|discriminate].
  injection H as Hv Ha Hb Hc2; subst v a b c'.
  destruct (find_tag_some _ _ _ F) as [L _]. rewrite len_skipn in L.
  repeat split; try lia. unfold bin_scanner, scan. fold tg.
  replace (match tg with [] => POk 0 0 | _ :: _ => match find_tag tg (skipn 0 (sub s c (c + k + len tg))) with
            | Some k0 => POk k0 (0 + k0) | None => PErr EEndOfBuffer 0 end end)
    with (match find_tag tg (skipn 0 (sub s c (c + k + len tg))) with
            | Some k0 => POk k0 (0 + k0) | None => @PErr nat EEndOfBuffer 0 end) by reflexivity.
  cbn [skipn]. unfold sub. replace (c + k + len tg - c) with (k + len tg) by lia.
  rewrite (find_tag_firstn _ _ _ F). f_equal; [f_equal; lia|lia].
Qed.

(* ---------- StreamContentP ---------- *)
Definition opt_byte (s : bytes) (c : nat) (x : N) : nat := if peek_is s c x then S c else c.

Lemma opt_incr {A} s c x (K : nat -> pres A) : (if peek_is s c x then incr s c K else K c) = K (opt_byte s c x).
Proof. unfold opt_byte. destruct (peek_is s c x) eqn:E; [apply (incr_peek _ _ _ _ E)|reflexivity]. Qed.

Lemma opt_byte_le s c x : c <= len s -> c <= opt_byte s c x /\ opt_byte s c x <= S c /\ opt_byte s c x <= len s.
Proof. intros H. unfold opt_byte. destruct (peek_is s c x) eqn:E; [apply peek_is_lt in E|]; lia. Qed.

(* what StreamContentP computes, without the cursor plumbing *)
Definition stream_flat (n : nat) (eol : bool) (s : bytes) (c : nat) : pres (lv streamT) :=
  match exact kw_stream s c with
  | None => PErr EGuard c
  | Some c1 =>
    let c2 := opt_byte s c1 13 in
    if negb (peek_is s c2 10) then PErr EGuard c
    else if Nat.ltb (len s - S c2) n then PErr EEndOfBuffer c
    else let c4 := S c2 + n in
         let c6 := opt_byte s (opt_byte s c4 13) 10 in
         if eol && Nat.eqb c4 c6 then PErr EGuard c
         else match exact kw_endstream s c6 with
              | None => PErr EGuard c
              | Some c7 => POk ((S c2, n, sub s (S c2) (S c2 + n)), c, c7) c7
              end
  end.

Lemma stream_content_flat n eol s c : c <= len s -> stream_content n eol s c = stream_flat n eol s c.
Proof.
  intros Hc. unfold stream_content, stream_flat.
  destruct (exact kw_stream s c) as [c1|] eqn:E1; [|reflexivity].
  apply exact_some in E1 as [_ L1]. specialize (L1 Hc). cbv beta zeta.
  rewrite opt_incr. destruct (opt_byte_le s c1 13 L1) as (_ & _ & L2).
  set (c2 := opt_byte s c1 13) in *.
  destruct (peek_is s c2 10) eqn:E2; cbn [negb]; [|apply setc_ok; lia].
  rewrite (incr_peek _ _ _ _ E2). pose proof (peek_is_lt _ _ _ E2) as L3.
  unfold extract. destruct (Nat.ltb_spec (len s) (S c2)); [lia|].
  destruct (Nat.ltb_spec (len s - S c2) n); [apply setc_ok; lia|].
  rewrite setc_ok by lia. rewrite !opt_incr.
  destruct (eol && Nat.eqb _ _); [apply setc_ok; lia|].
  destruct (exact kw_endstream s _); [reflexivity|apply setc_ok; lia].
Qed.

Definition shift_stream (a : nat) (v v' : streamT) : Prop :=
  let '(st, sz, ct) := v in v' = (st - a, sz, ct).

Lemma opt_byte_win s c e p i x : p = c + i -> p < e -> opt_byte (sub s c e) i x = opt_byte s p x - c.
Proof. intros -> H. unfold opt_byte. rewrite (peek_is_win s c e (c + i) i) by lia. destruct (peek_is s (c + i) x); lia. Qed.

Lemma stream_content_span n eol : ok_span_rel shift_stream (stream_content n eol).
Proof.
  intros s c v a b c' Hc H. rewrite stream_content_flat in H by assumption. unfold stream_flat in H.
  destruct (exact kw_stream s c) as [c1|] eqn:E1; [|discriminate].
  destruct (exact_some _ _ _ _ E1) as [Ec1 L1]. specialize (L1 Hc). cbv zeta in H.
  destruct (opt_byte_le s c1 13 L1) as (G1 & G2 & L2).
  set (c2 := opt_byte s c1 13) in *.
  destruct (peek_is s c2 10) eqn:E2; cbn [negb] in H; [|discriminate].
  pose proof (peek_is_lt _ _ _ E2) as L3.
  destruct (Nat.ltb_spec (len s - S c2) n) as [|L4]; [discriminate|].
  destruct (opt_byte_le s (S c2 + n) 13 ltac:(lia)) as (G3 & G4 & L5).
  set (c5 := opt_byte s (S c2 + n) 13) in *.
  destruct (opt_byte_le s c5 10 L5) as (G5 & G6 & L6).
  set (c6 := opt_byte s c5 10) in *.
  destruct (eol && Nat.eqb (S c2 + n) c6) eqn:E3; [discriminate|].
  destruct (exact kw_endstream s c6) as [c7|] eqn:E4; [|discriminate].
  destruct (exact_some _ _ _ _ E4) as [Ec7 L7]. specialize (L7 L6).
  injection H as Hv Ha Hb Hc2; subst v a b c'.
  assert (0 < len kw_endstream) by (vm_compute; lia).
  assert (0 < len kw_stream) by (vm_compute; lia).
  repeat split; try lia.
  eexists. split; [|reflexivity].
  assert (Lt : len (sub s c c7) = c7 - c) by (apply len_sub; lia).
  rewrite stream_content_flat by lia. unfold stream_flat.
  rewrite (exact_win_some kw_stream s c c7 c 0 c1) by (assumption || lia). cbv zeta.
  rewrite (opt_byte_win s c c7 c1 (c1 - c) 13) by lia. fold c2.
  rewrite (peek_is_win s c c7 c2 (c2 - c) 10) by lia. rewrite E2. cbn [negb].
  rewrite Lt. destruct (Nat.ltb_spec (c7 - c - S (c2 - c)) n); [lia|].
  rewrite (opt_byte_win s c c7 (S c2 + n) (S (c2 - c) + n) 13) by lia. fold c5.
  rewrite (opt_byte_win s c c7 c5 (c5 - c) 10) by lia. fold c6.
  replace (Nat.eqb (S (c2 - c) + n) (c6 - c)) with (Nat.eqb (S c2 + n) c6)
    by (destruct (Nat.eqb_spec (S c2 + n) c6), (Nat.eqb_spec (S (c2 - c) + n) (c6 - c)); try reflexivity; lia).
  rewrite E3.
  rewrite (exact_win_some kw_endstream s c c7 c6 (c6 - c) c7) by (assumption || lia).
  rewrite (sub_win s c c7 (S c2) (S c2 + n) (S (c2 - c)) (S (c2 - c) + n)) by lia.
  replace (S (c2 - c)) with (S c2 - c) by lia. reflexivity.
Qed.

(* ---------- expanded forms used by Properties/C15.v ---------- *)
Lemma np_expand {A} (P : bytes -> nat -> pres (lv A)) :
  no_panic P -> forall s c, c <= len s -> P s c <> PPanic /\ P s c <> PFuel.
Proof. intros H s c Hc. apply fine_iff, H, Hc. Qed.

(* IntegerP: the value is an i64 and `num *= -1` cannot overflow (0 <= num <= i64::MAX) *)
Lemma digit_set_ge b : memb b digit_set = true -> (48 <= b)%N.
Proof. intros H. apply memb_In in H. vm_compute in H. intuition; subst; vm_compute; discriminate. Qed.

Lemma acc_digits_range mx ds : Forall (fun b => memb b digit_set = true) ds ->
  forall num r, (0 <= num <= mx)%Z -> acc_digits mx ds num = Some r -> (0 <= r <= mx)%Z.
Proof.
  induction 1 as [|d ds Hd _ IH]; intros num r Hn H'; cbn [acc_digits] in H'.
  - injection H' as <-. exact Hn.
  - apply digit_set_ge in Hd.
    destruct (Z.ltb_spec mx (num * 10)); [discriminate|].
    destruct (Z.ltb_spec mx (num * 10 + (Z.of_N d - 48))); [discriminate|].
    eapply IH; [|exact H']. lia.
Qed.

Lemma integer_range s c v a b c' :
  integer s c = POk (v, a, b) c' -> (- i64_max <= v <= i64_max)%Z.
Proof.
  assert (G : forall m c1, integer_body m s c c1 = POk (v, a, b) c' -> (- i64_max <= v <= i64_max)%Z).
  { intros m c1 H. unfold integer_body, setc in H.
    destruct (Nat.eqb _ 0); [destruct (Nat.leb c (len s)); discriminate|].
    destruct (acc_digits i64_max _ 0) as [num|] eqn:Ea; [|destruct (Nat.leb c (len s)); discriminate].
    apply acc_digits_range in Ea; [|apply allowed_all|unfold i64_max; lia].
    injection H as <- _ _ _. destruct m; lia. }
  unfold integer, incr. intros H.
  destruct (peek_is s c 45); [destruct (Nat.ltb c (len s)); [eapply G, H|discriminate]|].
  destruct (peek_is s c 43); [destruct (Nat.ltb c (len s)); [eapply G, H|discriminate]|eapply G, H].
Qed.
