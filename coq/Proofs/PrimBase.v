(* Proofs/PrimBase.v — lemmas on the buffer primitives of Model/Prim.v: bounds, and how each
   primitive behaves on a window [sub s c e] of the buffer (used for "re-parsing the reported span"). *)
From PV Require Import Model.Prim.
From Coq Require Import ZifyBool ZifyNat ZifyN.

(* ---------- peek / incr / setc ---------- *)
Lemma peek_Some_lt s c x : peek s c = Some x -> c < len s.
Proof. unfold peek, len. intros H. apply nth_error_Some. congruence. Qed.

Lemma peek_None_ge s c : peek s c = None -> len s <= c.
Proof. unfold peek, len. apply nth_error_None. Qed.

Lemma peek_is_lt s c b : peek_is s c b = true -> c < len s.
Proof. unfold peek_is. destruct (peek s c) eqn:E; [|discriminate]. intros _. eapply peek_Some_lt, E. Qed.

Lemma peek_is_ge s c b : len s <= c -> peek_is s c b = false.
Proof. intros H. unfold peek_is, peek. apply nth_error_None in H. unfold len in *. rewrite H. reflexivity. Qed.

Lemma peek_is_true s c b : peek_is s c b = true -> peek s c = Some b.
Proof.
  unfold peek_is. destruct (peek s c) eqn:E; [|discriminate]. intros H. apply N.eqb_eq in H. congruence.
Qed.

Lemma incr_ok {A} s c (k : nat -> pres A) : c < len s -> incr s c k = k (S c).
Proof. intros H. unfold incr. destruct (Nat.ltb_spec c (len s)); [reflexivity|lia]. Qed.

Lemma setc_ok {A} s c (k : nat -> pres A) : c <= len s -> setc s c k = k c.
Proof. intros H. unfold setc. destruct (Nat.leb_spec c (len s)); [reflexivity|lia]. Qed.

(* ---------- span_n / allowed / until ---------- *)
Lemma span_n_le p l : span_n p l <= len l.
Proof. unfold len. induction l as [|x l IH]; cbn; [lia|]. destruct (p x); cbn; lia. Qed.

Lemma span_n_firstn p k l : span_n p (firstn k l) = Nat.min k (span_n p l).
Proof.
  revert k; induction l as [|x l IH]; intros [|k]; cbn; try reflexivity.
  destruct (p x); cbn; [rewrite IH; reflexivity|reflexivity].
Qed.

Lemma span_n_all p l : Forall (fun b => p b = true) (firstn (span_n p l) l).
Proof.
  induction l as [|x l IH]; cbn; [constructor|]. destruct (p x) eqn:E; cbn; [|constructor].
  constructor; assumption.
Qed.

(* the byte after the run (if any) does not satisfy p *)
Lemma span_n_stop p l x : nth_error l (span_n p l) = Some x -> p x = false.
Proof.
  induction l as [|y l IH]; cbn; [discriminate|]. destruct (p y) eqn:E; cbn.
  - exact IH.
  - intros H; inversion H; subst; exact E.
Qed.

Lemma len_skipn (s : bytes) c : len (skipn c s) = len s - c.
Proof. unfold len. apply skipn_length. Qed.

Lemma allowed_le set s c : c <= len s -> c + allowed set s c <= len s.
Proof. intros H. unfold allowed. pose proof (span_n_le (fun b => memb b set) (skipn c s)). rewrite len_skipn in *. lia. Qed.

Lemma until_le set s c : c <= len s -> c + until set s c <= len s.
Proof. intros H. unfold until. pose proof (span_n_le (fun b => negb (memb b set)) (skipn c s)). rewrite len_skipn in *. lia. Qed.

Lemma nth_error_skipn_add {A} (l : list A) c i : nth_error (skipn c l) i = nth_error l (c + i).
Proof.
  revert l; induction c as [|c IH]; intros l; cbn; [reflexivity|].
  destruct l as [|x l]; cbn; [destruct i; reflexivity|apply IH].
Qed.

Lemma allowed_stop set s c x : peek s (c + allowed set s c) = Some x -> memb x set = false.
Proof.
  unfold allowed, peek. rewrite <- nth_error_skipn_add. intros H.
  apply span_n_stop in H. exact H.
Qed.

Lemma until_stop set s c x : peek s (c + until set s c) = Some x -> memb x set = true.
Proof.
  unfold until, peek. rewrite <- nth_error_skipn_add. intros H.
  apply span_n_stop in H. destruct (memb x set); [reflexivity|discriminate].
Qed.

(* ---------- windows ---------- *)
Lemma len_sub (s : bytes) a b : a <= b -> b <= len s -> len (sub s a b) = b - a.
Proof. apply sub_length. Qed.

Lemma skipn_firstn_comm' {A} i k (l : list A) : skipn i (firstn k l) = firstn (k - i) (skipn i l).
Proof.
  revert k l; induction i as [|i IH]; intros k l; cbn.
  - rewrite Nat.sub_0_r. reflexivity.
  - destruct k as [|k]; cbn; [reflexivity|]. destruct l as [|x l]; cbn; [rewrite firstn_nil; reflexivity|]. apply IH.
Qed.

(* the suffix of a window is a prefix of the suffix of the buffer *)
Lemma skipn_sub (s : bytes) c e i : skipn i (sub s c e) = firstn (e - c - i) (skipn (c + i) s).
Proof.
  unfold sub. rewrite skipn_firstn_comm', skipn_skipn'. f_equal. f_equal. lia.
Qed.

Lemma nth_error_firstn {A} k (l : list A) i : nth_error (firstn k l) i = if Nat.ltb i k then nth_error l i else None.
Proof.
  revert k l; induction i as [|i IH]; intros [|k] [|x l]; cbn [firstn nth_error]; try reflexivity.
  - destruct (Nat.ltb (S i) (S k)); reflexivity.
  - rewrite IH. reflexivity.
Qed.

Lemma peek_sub s c e i : peek (sub s c e) i = if Nat.ltb i (e - c) then peek s (c + i) else None.
Proof.
  unfold peek, sub. rewrite nth_error_firstn, nth_error_skipn_add. reflexivity.
Qed.

Lemma peek_is_sub_in s c e i b : i < e - c -> peek_is (sub s c e) i b = peek_is s (c + i) b.
Proof. intros H. unfold peek_is. rewrite peek_sub. destruct (Nat.ltb_spec i (e - c)); [reflexivity|lia]. Qed.

Lemma peek_is_sub_out s c e i b : e - c <= i -> peek_is (sub s c e) i b = false.
Proof. intros H. unfold peek_is. rewrite peek_sub. destruct (Nat.ltb_spec i (e - c)); [lia|reflexivity]. Qed.

Lemma allowed_sub set s c e i : allowed set (sub s c e) i = Nat.min (e - c - i) (allowed set s (c + i)).
Proof. unfold allowed. rewrite skipn_sub, span_n_firstn. reflexivity. Qed.

Lemma until_sub set s c e i : until set (sub s c e) i = Nat.min (e - c - i) (until set s (c + i)).
Proof. unfold until. rewrite skipn_sub, span_n_firstn. reflexivity. Qed.

Lemma firstn_firstn_min {A} a b (l : list A) : firstn a (firstn b l) = firstn (Nat.min a b) l.
Proof. apply firstn_firstn. Qed.

Lemma sub_sub (s : bytes) c e i j : c + j <= e -> sub (sub s c e) i j = sub s (c + i) (c + j).
Proof.
  intros H. unfold sub at 1. rewrite skipn_sub. unfold sub. rewrite firstn_firstn. f_equal. lia.
Qed.

Lemma prefixb_len p l : prefixb p l = true -> len p <= len l.
Proof.
  unfold len. revert l; induction p as [|x p IH]; intros [|y l]; cbn; try lia; try discriminate.
  intros H. apply andb_true_iff in H as [_ H]. apply IH in H. lia.
Qed.

Lemma prefixb_firstn p k l : len p <= k -> prefixb p (firstn k l) = prefixb p l.
Proof.
  unfold len. revert k l; induction p as [|x p IH]; intros k l H; cbn; [destruct (firstn k l), l; reflexivity|].
  destruct k as [|k]; [cbn in H; lia|]. destruct l as [|y l]; cbn; [reflexivity|].
  rewrite IH by (cbn in H; lia). reflexivity.
Qed.

Lemma prefixb_firstn_true p k l : prefixb p (firstn k l) = true -> prefixb p l = true.
Proof.
  revert k l; induction p as [|x p IH]; intros k l; cbn; [reflexivity|].
  destruct k as [|k]; cbn; [discriminate|]. destruct l as [|y l]; cbn; [discriminate|].
  intros H. apply andb_true_iff in H as [H1 H2]. rewrite H1. cbn. eapply IH, H2.
Qed.

Lemma exact_some tag s c e : exact tag s c = Some e -> e = c + len tag /\ (c <= len s -> e <= len s).
Proof.
  unfold exact. destruct (prefixb tag (skipn c s)) eqn:E; [|discriminate]. intros H; inversion H; subst.
  split; [reflexivity|]. intros Hc. apply prefixb_len in E. rewrite len_skipn in E. lia.
Qed.

Lemma exact_sub_some tag s c e i x :
  exact tag s (c + i) = Some x -> x <= e -> exact tag (sub s c e) i = Some (x - c).
Proof.
  unfold exact. destruct (prefixb tag (skipn (c + i) s)) eqn:E; [|discriminate].
  intros H Hx; inversion H; subst. rewrite skipn_sub, prefixb_firstn by lia. rewrite E. f_equal. lia.
Qed.

Lemma exact_sub_none tag s c e i :
  exact tag s (c + i) = None -> exact tag (sub s c e) i = None.
Proof.
  unfold exact. destruct (prefixb tag (skipn (c + i) s)) eqn:E; [discriminate|]. intros _.
  rewrite skipn_sub. destruct (prefixb tag (firstn _ _)) eqn:E2; [|reflexivity].
  apply prefixb_firstn_true in E2. congruence.
Qed.

Lemma sub_nil_len (s : bytes) a b : a <= b -> b <= len s -> b - a = 0 -> sub s a b = [].
Proof. intros. unfold sub. replace (b - a) with 0 by lia. reflexivity. Qed.
