(* Proofs/LoaderBytesXstm.v — C03b for the cross-reference STREAM layout (no filter): IndirectP + XrefStreamP
   (Model/XrefStm.v, round trip C13 xrefstm_rt) on the written stream object give the loader an IXStm item with
   exactly the rows written; the abstraction computed from the bytes is a C03 layout of the document. *)
From PV Require Import Model.Obj Model.XrefTab Model.XrefStm Model.Loader Model.LoaderBytes Spec.Spelling Spec.XrefEnc Spec.RenderClassic Spec.RenderXrefStm.
From PV Require Import Proofs.XrefBase Proofs.XrefTab Proofs.XrefStm Proofs.ObjStream Proofs.ObjSpell
     Proofs.Loader Proofs.LoaderObjs Proofs.LoaderMain Proofs.LoaderDoc
     Proofs.LoaderBytesBase Proofs.LoaderBytesObj Proofs.LoaderBytesSect Proofs.LoaderBytesTab Proofs.LoaderBytesMain.
From Coq Require Import Lia.
Close Scope N_scope.

(* ---------- filling the offsets into the rows ---------- *)
Lemma row_ent_fill ot n r : row_ent n (fill_row ot n r) = fillx ot (row_ent n r).
Proof. destruct r; reflexivity. Qed.

Lemma number_fill_rows ot l : forall n, number row_ent n (fill_rows ot n l) = List.map (fillx ot) (number row_ent n l).
Proof. induction l as [|r l IH]; intros n; cbn [fill_rows number List.map]; [reflexivity|]. rewrite row_ent_fill, IH. reflexivity. Qed.

Lemma parts_ents_fill ot p : parts_ents (List.map (fill_part ot) p) = List.map (fillx ot) (parts_ents p).
Proof.
  unfold parts_ents. induction p as [|x p IH]; cbn [List.map flat_map]; [reflexivity|].
  rewrite map_app, IH. cbn [fill_part fst snd]. rewrite number_fill_rows. reflexivity.
Qed.

Lemma fill_rows_len ot l : forall n, len (fill_rows ot n l) = len l.
Proof. induction l as [|r l IH]; intros n; cbn [fill_rows len List.length]; [reflexivity|]. f_equal. apply IH. Qed.

Lemma parts_index_fill ot p : parts_index (List.map (fill_part ot) p) = parts_index p.
Proof.
  unfold parts_index. induction p as [|x p IH]; cbn [List.map flat_map]; [reflexivity|].
  rewrite IH. cbn [fill_part fst snd]. rewrite fill_rows_len. reflexivity.
Qed.

Lemma parts_rows_fill ot p : parts_rows (List.map (fill_part ot) p) = parts_rows p.
Proof.
  unfold parts_rows. induction p as [|x p IH]; cbn [List.map fold_right]; [reflexivity|].
  rewrite IH. cbn [fill_part snd]. rewrite fill_rows_len. reflexivity.
Qed.

Lemma render_parts_len w0 w1 w2 p : len (render_parts w0 w1 w2 p) = (w0 + w1 + w2) * parts_rows p.
Proof.
  induction p as [|x p IH]; [cbn; lia|]. rewrite render_parts_cons, len_app, IH, render_rows_len.
  unfold parts_rows. cbn [fold_right]. lia.
Qed.

Definition ot_fits (w1 : nat) (ot : list (oid * N)) : Prop := forall id o, off_get ot id = Some o -> (o < 256 ^ N.of_nat w1)%N.

Lemma fill_row_fits ot w0 w1 w2 n r : ot_fits w1 ot -> wide w0 w1 w2 -> fits w0 w1 w2 r -> fits w0 w1 w2 (fill_row ot n r).
Proof.
  intros S (_ & W1 & _) (A & B & C). destruct r; try (repeat split; assumption). cbn [fill_row].
  unfold fits. cbn [row_type row_f2 row_f3] in *. split; [exact A|]. split; [|exact C].
  destruct (off_get ot (n, gen)) as [o|] eqn:O; [exact (S _ _ O)|].
  apply N.lt_le_trans with (256 ^ N.of_nat 1)%N; [reflexivity|]. apply pow256_mono. lia.
Qed.

Lemma wf_parts_fill ot w0 w1 w2 p : ot_fits w1 ot -> wide w0 w1 w2 -> wf_parts w0 w1 w2 p -> wf_parts w0 w1 w2 (List.map (fill_part ot) p).
Proof.
  intros S W F. unfold wf_parts in *. induction F as [|x p (A & B & C) _ IH]; cbn [List.map]; constructor; [|exact IH].
  cbn [fill_part fst snd]. rewrite fill_rows_len. split; [exact A|]. split; [exact B|].
  clear - S W C. generalize (fst x). induction C as [|r l Fr _ IH]; intros n; cbn [fill_rows]; constructor; [apply fill_row_fits; assumption|apply IH].
Qed.

(* ---------- the item found at a written cross-reference stream object ---------- *)
Lemma wf_obj_k_len K id d p p' lo : len p = len p' -> wf_obj_k K (id, OStream d p) lo -> wf_obj_k K (id, OStream d p') lo.
Proof. intros L W. unfold wf_obj_k in *. cbn [fst snd] in *. rewrite <- L. exact W. Qed.

Theorem item_at_xstm rel s c xid d p w0 w1 w2 size lo rest :
  at_cur s c (render_obj (xid, OStream d (render_parts w0 w1 w2 p)) lo ++ rest) ->
  wf_obj_k (fun _ => True) (xid, OStream d (render_parts w0 w1 w2 p)) lo ->
  wide w0 w1 w2 -> wf_parts w0 w1 w2 p -> xref_dict_ok d size (Some (parts_index p)) w0 w1 w2 ->
  exists nx, item_at rel s c =
             (IXStm xid (List.map conv_ent (parts_ents p)) (dict_get d key_Root) (dict_usize d key_Prev), nx).
Proof.
  intros H W Wd F D. destruct xid as [n g].
  assert (X : xsectp s c = PErr EGuard c).
  { pose proof H as H'. unfold render_obj in H'. cbn [fst snd] in H'. rewrite <- app_assoc in H'.
    apply (xsectp_at_digits s c _ _ _ H'). apply W. }
  destruct (indirect_stream _ rel s c n g d _ lo rest H W) as (os & oe & st & e & E).
  unfold item_at. rewrite X, E. cbn [i_num i_gen i_obj]. unfold obj_item, xstm_item.
  assert (Fb : Forall (fun x : spart => (fst x < i64_lim)%N /\ (N.of_nat (len (snd x)) < i64_lim)%N) p).
  { eapply Forall_impl; [|exact F]. intros x (B1 & B2 & _). split; assumption. }
  rewrite (get_dict_info_ok d size (Some p) w0 w1 w2 Wd D Fb). cbn [xi_filters].
  pose proof (xrefstm_rt d size w0 w1 w2 p [] [] [] Wd F D) as R. cbn [app len List.length] in R. rewrite app_nil_r in R.
  rewrite R. eauto.
Qed.

(* ---------- entries that lead to the document's objects (generic in where the objects stand) ---------- *)
Section Entries.
  Variables (f : file) (flen : N) (objs : list (oid * obj)) (ot : list (oid * N)) (T : list XrefTab.xent).
  Hypothesis Hfound : forall x, In x objs ->
    exists o nx, off_get ot (fst x) = Some (N.of_nat o) /\ (N.of_nat o <? flen)%N = true /\
                 Loader.find f (N.of_nat o) = Some (IObj (fst x) (snd x), nx) /\ simple (IObj (fst x) (snd x)).
  Hypothesis Hnums : NoDup (List.map xe_obj T).
  Hypothesis Hinuse : forall e, In e T -> inuse e = true -> In (xe_obj e, xe_gen e) (List.map fst objs).
  Hypothesis Hall : forall id, In id (List.map fst objs) -> exists e, In e T /\ inuse e = true /\ (xe_obj e, xe_gen e) = id.
  Hypothesis Hnostm : forall e, In e T -> forall a b, xe_st e <> XrefTab.XInStream a b.

  Let E : list Loader.xent := List.map (fun e => conv_ent (fillx ot e)) T.

  Lemma G_NoDup : NoDup (List.map x_num E).
  Proof.
    unfold E. rewrite map_map.
    replace (List.map (fun e => x_num (conv_ent (fillx ot e))) T) with (List.map xe_obj T) by (apply map_ext; intros e; symmetry; apply E_num).
    exact Hnums.
  Qed.

  Lemma G_inv e : In e E -> exists e0, In e0 T /\ e = conv_ent (fillx ot e0).
  Proof. unfold E. intros H. apply in_map_iff in H as (e0 & <- & H). eauto. Qed.

  Lemma G_status e : In e E -> (exists nx, x_st e = Loader.XFree nx) \/ (exists ofs, x_st e = Loader.XInUse ofs).
  Proof.
    intros Hin. destruct (G_inv e Hin) as (e0 & H0 & ->). unfold fillx.
    destruct (xe_st e0) as [nx0|o0|a c] eqn:S0; cbn; rewrite ?S0; cbn; eauto.
    exfalso. eapply Hnostm; eauto.
  Qed.

  Lemma G_inuse e ofs : In e E -> x_st e = Loader.XInUse ofs ->
    exists v nx, In (x_id e, v) objs /\ (ofs <? flen)%N = true /\
                 Loader.find f ofs = Some (IObj (x_id e) v, nx) /\ simple (IObj (x_id e) v).
  Proof.
    intros Hin St. destruct (G_inv e Hin) as (e0 & H0 & ->).
    unfold x_id. rewrite E_num, E_gen.
    unfold fillx in St. destruct (xe_st e0) as [nx0|o0|a c] eqn:S0; cbn in St; rewrite ?S0 in St; cbn in St; try discriminate.
    assert (Hid : In (xe_obj e0, xe_gen e0) (List.map fst objs)).
    { apply (Hinuse e0 H0). unfold inuse. rewrite S0. reflexivity. }
    apply in_map_iff in Hid as ([id v] & Eid & Hx). cbn [fst] in Eid. subst id.
    destruct (Hfound _ Hx) as (o & nx & G & Lo & F & S). cbn [fst snd] in *.
    rewrite G in St. injection St as <-. exists v, nx. repeat split; assumption.
  Qed.

  Lemma G_resolve_objs id v : In (id, v) objs -> resolve f E id = Some (VObj v).
  Proof.
    intros Hx. assert (Hid : In id (List.map fst objs)) by (change id with (fst (id, v)); apply in_map, Hx).
    destruct (Hall id Hid) as (e0 & H0 & U0 & Eid).
    set (e := conv_ent (fillx ot e0)).
    assert (He : In e E) by (unfold E; apply in_map_iff; exists e0; split; [reflexivity|exact H0]).
    assert (En : x_num e = fst id) by (unfold e; rewrite E_num, <- Eid; reflexivity).
    assert (Eg : x_gen e = snd id) by (unfold e; rewrite E_gen, <- Eid; reflexivity).
    pose proof (lookup_ent_NoDup _ _ G_NoDup He) as Lk. rewrite En in Lk.
    destruct (Hfound _ Hx) as (o & nx & G & Lo & F & S). cbn [fst snd] in *.
    assert (St : x_st e = Loader.XInUse (N.of_nat o)).
    { unfold e, fillx. unfold inuse in U0. destruct (xe_st e0); try discriminate. cbn. rewrite Eid, G. reflexivity. }
    unfold resolve. rewrite Lk, St, Eg, N.eqb_refl. unfold obj_at. rewrite F. reflexivity.
  Qed.

  Lemma G_resolve_only id w : resolve f E id = Some w -> exists v, w = VObj v /\ In (id, v) objs.
  Proof.
    unfold resolve. destruct (lookup_ent E (fst id)) as [e|] eqn:Lk; [|discriminate].
    apply lookup_ent_In in Lk as (He & En).
    destruct (G_status e He) as [(nx & St)|(ofs & St)]; rewrite St; [discriminate|].
    destruct (N.eqb (x_gen e) (snd id)) eqn:Eg; [|discriminate]. apply N.eqb_eq in Eg.
    destruct (G_inuse e ofs He St) as (v & nx & Hx & _ & F & _).
    unfold obj_at. rewrite F. cbn [item_val]. intros H. injection H as <-.
    exists v. split; [reflexivity|]. unfold x_id in Hx. rewrite En, Eg in Hx. destruct id. exact Hx.
  Qed.
End Entries.

(* a context that binds exactly what [resolve] says, when that is exactly the document *)
Lemma ctx_of_resolve f E (objs : list (oid * obj)) :
  NoDup (List.map fst objs) ->
  (forall id v, In (id, v) objs -> resolve f E id = Some (VObj v)) ->
  (forall id w, resolve f E id = Some w -> exists v, w = VObj v /\ In (id, v) objs) ->
  forall id, ctx_get (ctx_of objs) id = resolve f E id.
Proof.
  intros ND RO RY id. destruct (resolve f E id) as [w|] eqn:R.
  - destruct (RY id w R) as (v & -> & Hx). clear - ND Hx.
    induction objs as [|[k u] ds IH]; [destruct Hx|]. cbn [ctx_of List.map ctx_get fst snd] in *. inversion ND; subst.
    destruct Hx as [Hx|Hx].
    + inversion Hx; subst. rewrite oid_eqb_refl. reflexivity.
    + destruct (oid_eqb k id) eqn:Ek; [|apply IH; assumption].
      apply oid_eqb_eq in Ek. subst. exfalso. apply H1. change id with (fst (id, v)). apply in_map, Hx.
  - assert (N : forall v, ~ In (id, v) objs) by (intros v Hv; rewrite (RO id v Hv) in R; discriminate).
    clear - N. induction objs as [|[k u] ds IH]; [reflexivity|]. cbn [ctx_of List.map ctx_get fst snd].
    destruct (oid_eqb k id) eqn:Ek.
    + apply oid_eqb_eq in Ek. subst. exfalso. apply (N u). left. reflexivity.
    + apply IH. intros v Hv. apply (N v). right. exact Hv.
Qed.

Lemma In_combine_l_ex {A B} (a : list A) : forall (b : list B) x, len b = len a -> In x a -> exists y, In (x, y) (combine a b).
Proof.
  induction a as [|u a IH]; intros b x L Hin; [destruct Hin|]. destruct b as [|y b]; [discriminate|].
  cbn [combine In]. destruct Hin as [->|Hin]; [eauto|].
  destruct (IH b x ltac:(cbn [len List.length] in L; unfold len in *; lia) Hin) as (y' & H). eauto.
Qed.

(* ---------- side conditions ---------- *)
(* the frame: everything but the objects and what the rows say about them *)
Record wf_xframe (objs : list (oid * obj)) (root : oid) (X : xlayout) : Prop := {
  xf_garbage : find_tag kw_pdf (xl_garbage X ++ kw_pdf) = Some (len (xl_garbage X));
  (* legal widths; the template's rows are representable; every offset fits the second field *)
  xf_wide : wide (xl_w0 X) (xl_w1 X) (xl_w2 X);
  xf_parts : wf_parts (xl_w0 X) (xl_w1 X) (xl_w2 X) (xl_parts X);
  xf_small : (N.of_nat (len (xbody objs X)) < 256 ^ N.of_nat (xl_w1 X))%N;
  (* the stream object: legally written (any spelling of the dictionary), /Length = the size of the rows *)
  xf_xobj : wf_obj_k (fun _ => True)
              (xl_id X, OStream (xl_dict X) (render_parts (xl_w0 X) (xl_w1 X) (xl_w2 X) (xl_parts X))) (xl_lo X);
  (* the dictionary declares /Type /XRef, /Size, /W, /Index = the partition, no filter; /Root = the root; no /Prev *)
  xf_dict : exists size, xref_dict_ok (xl_dict X) size (Some (parts_index (xl_parts X))) (xl_w0 X) (xl_w1 X) (xl_w2 X);
  xf_root : dict_get (xl_dict X) key_Root = Some (ORef (fst root) (snd root));
  xf_prev : dict_usize (xl_dict X) key_Prev = None;
  xf_seol : plain_ws (xl_seol X) /\ xl_seol X <> [];
  xf_sx : 1 <= xl_sxw X /\ (N.of_nat (len (xbody objs X)) < 10 ^ N.of_nat (xl_sxw X))%N /\
          (N.of_nat (len (xbody objs X)) < i64_lim)%N;
  xf_eeol : plain_ws (xl_eeol X);
  xf_tail : Forall (fun b => b <> 37%N) (xl_tail X) }.

Record wf_xlayout (d : cdoc) (X : xlayout) : Prop := {
  wx_frame : wf_xframe (d_objs d) (d_root d) X;
  wx_len : len (xl_objs X) = len (d_objs d);
  wx_objs : Forall (fun p => wf_obj (fst p) (snd p)) (combine (d_objs d) (xl_objs X));
  (* the rows mention every number at most once; in-use rows = the document's identifiers; no compressed objects *)
  wx_nums : NoDup (List.map xe_obj (parts_ents (xl_parts X)));
  wx_inuse : forall e, In e (parts_ents (xl_parts X)) -> inuse e = true -> In (xe_obj e, xe_gen e) (List.map fst (d_objs d));
  wx_all : forall id, In id (List.map fst (d_objs d)) ->
                      exists e, In e (parts_ents (xl_parts X)) /\ inuse e = true /\ (xe_obj e, xe_gen e) = id;
  wx_nostm : forall e, In e (parts_ents (xl_parts X)) -> forall a b, xe_st e <> XrefTab.XInStream a b }.

(* ---------- the frame: objects found at their offsets, the stream object, the abstraction ---------- *)
Section XFrame.
  Variables (rel : bool) (objs : list (oid * obj)) (root : oid) (X : xlayout).
  Hypothesis Wf : wf_xframe objs root X.
  Hypothesis Hlen : len (xl_objs X) = len objs.
  Hypothesis Hwf : Forall (fun p => wf_obj_k (fun _ => True) (fst p) (snd p)) (combine objs (xl_objs X)).
  Hypothesis ND : NoDup (List.map fst objs).

  Let Bd := xbody objs X.
  Let V := render_xrefstm_view objs X.
  Let ot := xot objs X.
  Let f := file_of rel V.
  Let flen := N.of_nat (len V).
  Let E : list Loader.xent := List.map (fun e => conv_ent (fillx ot e)) (parts_ents (xl_parts X)).
  Let xobj := render_obj (xl_id X, OStream (xl_dict X) (xrows objs X)) (xl_lo X).
  Let post := kw_startxref ++ xl_seol X ++ digits (xl_sxw X) (N.of_nat (len Bd)) ++ xl_eeol X ++ kw_eof ++ xl_tail X.

  Lemma Vx_shape : V = Bd ++ xobj ++ post.
  Proof. reflexivity. Qed.

  Lemma xobj_nonempty : 1 <= len xobj.
  Proof. unfold xobj, render_obj. rewrite !len_app. cbn [kw_obj len List.length]. lia. Qed.

  Lemma Bd_lt_V : len Bd < len V.
  Proof. rewrite Vx_shape, !len_app. pose proof xobj_nonempty. lia. Qed.

  Lemma ot_ok : ot_fits (xl_w1 X) ot.
  Proof.
    intros id o H. apply off_get_in in H. unfold ot, xot in H. apply in_combine_r in H.
    apply in_map_iff in H as (k & <- & H). apply offsets_bound in H.
    pose proof (xf_small _ _ _ Wf) as Hb. unfold xbody in Hb. rewrite len_app in Hb. lia.
  Qed.

  (* every written object is found, at the offset the rows give for it, as what [obj_item] makes of it *)
  Lemma fobj_found x : In x objs ->
    exists o nx, off_get ot (fst x) = Some (N.of_nat o) /\ (N.of_nat o <? flen)%N = true /\
                 Loader.find f (N.of_nat o) = Some (obj_item rel (fst x) (snd x), nx) /\ simple (IObj (fst x) (snd x)).
  Proof.
    intros Hin.
    destruct (chunks_located objs (xl_objs X) (xhead X) (xobj ++ post) Hlen x Hin) as (lo & o & R & I1 & I2 & A).
    assert (W : wf_obj_k (fun _ => True) x lo) by exact (In_combine_Forall _ _ _ _ Hwf I1).
    assert (EV : xhead X ++ concat (List.map (fun p => render_obj (fst p) (snd p)) (combine objs (xl_objs X))) ++ xobj ++ post = V).
    { rewrite Vx_shape. unfold Bd, xbody, xchunks. rewrite <- app_assoc. reflexivity. }
    rewrite EV in A.
    destruct (item_at_fileobj _ rel V o x lo R A W) as (nx & EI).
    assert (Lo : o < len V).
    { pose proof (at_cur_len _ _ _ A) as SL. rewrite len_app in SL.
      assert (1 <= len (render_obj x lo)).
      { unfold render_obj. rewrite !len_app. destruct W as (W1 & _). rewrite digits_len. lia. }
      lia. }
    exists o, nx. split; [|split; [apply N.ltb_lt; unfold flen; lia|split]].
    - apply off_get_In; [|exact I2]. apply NoDup_combine_fst. exact ND.
    - unfold f. rewrite find_file_of by lia. rewrite EI. reflexivity.
    - exact (wf_obj_k_simple _ _ _ W).
  Qed.

  Lemma xstm_found :
    exists nx, Loader.find f (N.of_nat (len Bd)) =
               Some (IXStm (xl_id X) E (Some (ORef (fst root) (snd root))) None, nx).
  Proof.
    unfold f. rewrite find_file_of by (pose proof Bd_lt_V; lia).
    destruct (xf_dict _ _ _ Wf) as (size & D).
    assert (A : at_cur V (len Bd) (render_obj (xl_id X, OStream (xl_dict X) (render_parts (xl_w0 X) (xl_w1 X) (xl_w2 X) (xparts objs X))) (xl_lo X) ++ post)).
    { rewrite Vx_shape. apply at_cur_mid. }
    assert (Wo : wf_obj_k (fun _ => True) (xl_id X, OStream (xl_dict X) (render_parts (xl_w0 X) (xl_w1 X) (xl_w2 X) (xparts objs X))) (xl_lo X)).
    { eapply wf_obj_k_len; [|exact (xf_xobj _ _ _ Wf)]. rewrite !render_parts_len. unfold xparts. rewrite parts_rows_fill. reflexivity. }
    assert (F : wf_parts (xl_w0 X) (xl_w1 X) (xl_w2 X) (xparts objs X)).
    { apply wf_parts_fill; [exact ot_ok|exact (xf_wide _ _ _ Wf)|exact (xf_parts _ _ _ Wf)]. }
    assert (D' : xref_dict_ok (xl_dict X) size (Some (parts_index (xparts objs X))) (xl_w0 X) (xl_w1 X) (xl_w2 X)).
    { unfold xparts. rewrite parts_index_fill. exact D. }
    destruct (item_at_xstm rel V (len Bd) (xl_id X) (xl_dict X) (xparts objs X) _ _ _ size (xl_lo X) post A Wo (xf_wide _ _ _ Wf) F D') as (nx & EI).
    exists nx. rewrite EI, (xf_root _ _ _ Wf), (xf_prev _ _ _ Wf). f_equal. f_equal.
    unfold xparts. rewrite parts_ents_fill, map_map. reflexivity.
  Qed.

  Lemma abstract_xframe :
    abstract_file rel (render_xrefstm objs X) = mkpdf true flen (Some (N.of_nat (len Bd))) f.
  Proof.
    assert (EV : exists r, V = kw_pdf ++ r).
    { exists (xl_hdr X ++ concat (xchunks objs X) ++ xobj ++ post). rewrite Vx_shape. unfold Bd, xbody, xhead. rewrite <- !app_assoc. reflexivity. }
    destruct EV as (r & EV).
    unfold abstract_file, render_xrefstm. fold V. rewrite EV.
    rewrite (magic_found _ r (xf_garbage _ _ _ Wf)).
    replace (skipn (len (xl_garbage X)) (xl_garbage X ++ kw_pdf ++ r)) with V
      by (rewrite EV; symmetry; replace (len (xl_garbage X)) with (len (xl_garbage X) + 0) by lia; apply skipn_app_len).
    destruct (header_found V r EV) as (c' & Eh). rewrite Eh.
    assert (Sx : find_startxref V = Some (N.of_nat (len Bd))).
    { destruct (xf_seol _ _ _ Wf) as (S1 & S2). destruct (xf_sx _ _ _ Wf) as (X0 & X1 & X2).
      replace V with ((Bd ++ xobj) ++ kw_startxref ++ xl_seol X ++ digits (xl_sxw X) (N.of_nat (len Bd)) ++ xl_eeol X ++ kw_eof ++ xl_tail X).
      - apply startxref_found; try assumption. exact (xf_eeol _ _ _ Wf). exact (xf_tail _ _ _ Wf).
      - rewrite Vx_shape. unfold post. rewrite <- !app_assoc. reflexivity. }
    rewrite Sx. reflexivity.
  Qed.

  Lemma sx_lt_flen : (N.of_nat (len Bd) <? flen)%N = true.
  Proof. apply N.ltb_lt. unfold flen. pose proof Bd_lt_V. lia. Qed.
End XFrame.

Lemma wf_obj_weaken K x lo : wf_obj_k K x lo -> wf_obj_k (fun _ => True) x lo.
Proof.
  unfold wf_obj_k. intros (A1 & A2 & A3 & A4 & A5 & A6 & A7 & A8 & A9 & A10 & A11 & A12 & W).
  repeat (split; [assumption|]). destruct (snd x); try exact W.
  destruct W as (B1 & B2 & B3 & B4 & B5 & _). repeat (split; [assumption|]). exact I.
Qed.

Section XrefStream.
  Variables (rel : bool) (d : cdoc) (X : xlayout).
  Hypothesis Wd : wf_doc d.
  Hypothesis Wx : wf_xlayout d X.

  Let objs := d_objs d.
  Let V := render_xrefstm_view objs X.
  Let ot := xot objs X.
  Let f := file_of rel V.
  Let flen := N.of_nat (len V).
  Let E : list Loader.xent := List.map (fun e => conv_ent (fillx ot e)) (parts_ents (xl_parts X)).
  Let sx := N.of_nat (len (xbody objs X)).

  Lemma Hwf_all : Forall (fun p => wf_obj_k (fun _ => True) (fst p) (snd p)) (combine objs (xl_objs X)).
  Proof. eapply Forall_impl; [|exact (wx_objs _ _ Wx)]. intros p. apply wf_obj_weaken. Qed.

  Lemma x_obj_found x : In x objs ->
    exists o nx, off_get ot (fst x) = Some (N.of_nat o) /\ (N.of_nat o <? flen)%N = true /\
                 Loader.find f (N.of_nat o) = Some (IObj (fst x) (snd x), nx) /\ simple (IObj (fst x) (snd x)).
  Proof.
    intros Hin. destruct (fobj_found rel objs X (wx_len _ _ Wx) Hwf_all Wd x Hin) as (o & nx & G & Lo & F & S).
    exists o, nx. split; [exact G|]. split; [exact Lo|]. split; [|exact S]. unfold f, V. rewrite F. f_equal. f_equal.
    destruct (In_combine_l_ex objs (xl_objs X) x (wx_len _ _ Wx) Hin) as (lo & I1).
    pose proof (In_combine_Forall _ _ _ _ (wx_objs _ _ Wx) I1) as W. destruct x as [id v]. cbn [fst snd] in *.
    assert (Dv : (exists dd p, v = OStream dd p) \/ (forall dd p, v <> OStream dd p)).
    { destruct v; try (right; intros; discriminate). left. eauto. }
    destruct Dv as [(dd & p & ->)|Dv]; [apply obj_item_plain; apply W|apply obj_item_nostream, Dv].
  Qed.

  Lemma abstract_xrefstm :
    abstract_file rel (render_xrefstm objs X) = mkpdf true flen (Some sx) f.
  Proof. exact (abstract_xframe rel objs (d_root d) X (wx_frame _ _ Wx) (wx_len _ _ Wx)). Qed.

  (* the computed abstraction is a C03 layout of the document, the section being a cross-reference stream *)
  Theorem xrefstm_layout_of : layout_of objs (d_root d) (abstract_file rel (render_xrefstm objs X)) E.
  Proof.
    rewrite abstract_xrefstm. destruct (xstm_found rel objs (d_root d) X (wx_frame _ _ Wx) (wx_len _ _ Wx)) as (nx & TF).
    pose proof (G_inuse f flen objs ot (parts_ents (xl_parts X)) x_obj_found (wx_inuse _ _ Wx)) as GI.
    pose proof (G_status ot (parts_ents (xl_parts X)) (wx_nostm _ _ Wx)) as GS.
    constructor; cbn [p_magic p_startxref p_flen p_file].
    - reflexivity.
    - exists sx. split; [reflexivity|]. split; [exact (sx_lt_flen objs X (wx_len _ _ Wx))|].
      eapply SA_stream. exact TF.
    - intros e ofs Hin St. apply first_per_key_incl in Hin.
      destruct (GI e ofs Hin St) as (v & nx' & _ & Lo & F & S).
      split; [exact Lo|]. exists (IObj (x_id e) v), nx', (VObj v). split; [exact F|]. split; [reflexivity|]. left. exact S.
    - intros e stm idx ms n v Hin St. apply first_per_key_incl in Hin. destruct (GS e Hin) as [(? & K)|(? & K)]; congruence.
    - intros e stm idx ms Hin St. apply first_per_key_incl in Hin. destruct (GS e Hin) as [(? & K)|(? & K)]; congruence.
    - exact (G_resolve_objs f flen objs ot _ x_obj_found (wx_nums _ _ Wx) (wx_all _ _ Wx)).
    - intros id w H. left.
      exact (G_resolve_only f flen objs ot _ x_obj_found (wx_inuse _ _ Wx) (wx_nostm _ _ Wx) id w H).
  Qed.

  (* THE END-TO-END THEOREM for the cross-reference stream layout *)
  Theorem load_bytes_xrefstm :
    exists c, load_bytes rel (render_xrefstm objs X) = Loaded c (d_root d) /\
              forall id, ctx_get c id = ctx_get (ctx_of objs) id.
  Proof.
    pose proof xrefstm_layout_of as LO. unfold load_bytes.
    set (p := abstract_file rel (render_xrefstm objs X)) in *.
    destruct LO as [Hm (sx0 & Hs & Hb & SA) Hi Hmem Hnd Hobjs Hex].
    set (rt := ORef (fst (d_root d)) (snd (d_root d))) in *.
    assert (AE : all_ents [(sx0, E, Some rt)] = E) by (unfold all_ents; cbn; apply app_nil_r).
    destruct (load_history p [(sx0, E, Some rt)] (fst (d_root d)) (snd (d_root d)) sx0 Hm Hs Hb) as (c & L & K).
    - apply SS_last; assumption.
    - repeat constructor. intros [].
    - reflexivity.
    - rewrite AE. exact Hi.
    - rewrite AE. exact Hmem.
    - rewrite AE. exact Hnd.
    - exists c. split; [destruct (d_root d); exact L|]. intros id. rewrite K, AE. symmetry.
      apply (ctx_of_resolve (p_file p) E objs Wd Hobjs).
      intros id' w H. destruct (Hex id' w H) as [Hv|[->|(ms & ->)]]; [exact Hv| |];
        exfalso; assert (Pf : p_file p = f) by (unfold p; rewrite abstract_xrefstm; reflexivity); rewrite Pf in H;
        destruct (G_resolve_only f flen objs ot _ x_obj_found (wx_inuse _ _ Wx) (wx_nostm _ _ Wx) id' _ H) as (v & Ev & _); discriminate.
  Qed.
End XrefStream.
