(* Proofs/FiltersA85.v — C06 for ASCII85Decode: every legal encoding decodes to the payload in both build
   profiles; the corrupt classes are errors. *)
From PV Require Import Model.A85 Spec.A85Enc Proofs.FiltersHex.
From Coq Require Import ZifyBool ZifyNat ZifyN.
Ltac Zify.zify_post_hook ::= Z.div_mod_to_equations.

Definition is_d85 (c : N) : Prop := (33 <= c <= 117)%N.
Definition d85_only (d : bytes) : Prop := Forall is_d85 d.

(* ---------- arithmetic (DESIGN A.3) ---------- *)
Lemma digits5 w : (w < 4294967296)%N ->
  let d0 := (w / 52200625)%N in let d1 := ((w / 614125) mod 85)%N in let d2 := ((w / 7225) mod 85)%N in
  let d3 := ((w / 85) mod 85)%N in let d4 := (w mod 85)%N in
  (d0 * 52200625 + d1 * 614125 + d2 * 7225 + d3 * 85 + d4 = w /\ d0 < 85 /\ d1 < 85 /\ d2 < 85 /\ d3 < 85 /\ d4 < 85)%N.
Proof. intros H; cbv zeta. lia. Qed.

Lemma pad1 M : (M < 256)%N ->
  let N0 := (M * 16777216)%N in let D := (N0 / 614125)%N in let P := (D * 614125 + 614124)%N in
  (P < 4294967296 /\ P / 16777216 = M)%N.
Proof. intros H; cbv zeta. lia. Qed.
Lemma pad2 M : (M < 65536)%N ->
  let N0 := (M * 65536)%N in let D := (N0 / 7225)%N in let P := (D * 7225 + 7224)%N in
  (P < 4294967296 /\ P / 65536 = M)%N.
Proof. intros H; cbv zeta. lia. Qed.
Lemma pad3 M : (M < 16777216)%N ->
  let N0 := (M * 256)%N in let D := (N0 / 85)%N in let P := (D * 85 + 84)%N in
  (P < 4294967296 /\ P / 256 = M)%N.
Proof. intros H; cbv zeta. lia. Qed.

Lemma nest1 w : ((w / 52200625) * 85 + (w / 614125) mod 85 = w / 614125)%N.
Proof. lia. Qed.
Lemma nest2 w : ((w / 52200625) * 7225 + ((w / 614125) mod 85) * 85 + (w / 7225) mod 85 = w / 7225)%N.
Proof. lia. Qed.
Lemma nest3 w : ((w / 52200625) * 614125 + ((w / 614125) mod 85) * 7225 + ((w / 7225) mod 85) * 85 + (w / 85) mod 85 = w / 85)%N.
Proof. lia. Qed.
Lemma part1_bytes b0 : (b0 < 256)%N ->
  let P := (b0 * 16777216 / 614125 * 614125 + 614124)%N in
  (P < 4294967296 /\ P / 16777216 = b0)%N.
Proof. intros. cbv zeta. lia. Qed.
Lemma part2_bytes b0 b1 : (b0 < 256)%N -> (b1 < 256)%N ->
  let P := ((b0 * 256 + b1) * 65536 / 7225 * 7225 + 7224)%N in
  (P < 4294967296 /\ P / 16777216 = b0 /\ (P / 65536) mod 256 = b1)%N.
Proof. intros. cbv zeta. lia. Qed.
Lemma part3_bytes b0 b1 b2 : (b0 < 256)%N -> (b1 < 256)%N -> (b2 < 256)%N ->
  let P := ((b0 * 65536 + b1 * 256 + b2) * 256 / 85 * 85 + 84)%N in
  (P < 4294967296 /\ P / 16777216 = b0 /\ (P / 65536) mod 256 = b1 /\ (P / 256) mod 256 = b2)%N.
Proof. intros. cbv zeta. lia. Qed.

Lemma word_lt b0 b1 b2 b3 : (b0 < 256 -> b1 < 256 -> b2 < 256 -> b3 < 256 -> word b0 b1 b2 b3 < 4294967296)%N.
Proof. unfold word. lia. Qed.

Lemma be4_word b0 b1 b2 b3 : (b0 < 256)%N -> (b1 < 256)%N -> (b2 < 256)%N -> (b3 < 256)%N ->
  be4 (word b0 b1 b2 b3) = [b0; b1; b2; b3].
Proof. intros. unfold be4, word. repeat f_equal; lia. Qed.

(* ---------- one step of Parsley's group check and of the crate's loop ---------- *)
Lemma check_step n v c r : is_d85 c ->
  a85_check n v (c :: r) =
    if Nat.eqb (Nat.modulo (n + 1) 5) 0 then
      if (u32_max <? v * 85 + (c - 33))%N then None else option_map (cons c) (a85_check 0 0%N r)
    else option_map (cons c) (a85_check (Nat.modulo (n + 1) 5) (v * 85 + (c - 33))%N r).
Proof.
  intros [H1 H2]. cbn [a85_check].
  replace (c =? 122)%N with false by lia. cbn [andb].
  replace ((33 <=? c)%N && (c <=? 117)%N) with true by lia. cbv zeta.
  destruct (Nat.eqb _ 0); [destruct (_ <? _)%N; [reflexivity|]|]; destruct (a85_check _ _ r); reflexivity.
Qed.

Lemma acc_ok dbg c counter chunk : (33 <= c)%N ->
  (chunk + (c - 33) * pow85 counter < two32)%N ->
  a85_acc dbg c counter chunk = Some (chunk + (c - 33) * pow85 counter)%N.
Proof.
  intros H1 H. unfold a85_acc, u32_mul, u32_add.
  replace ((c - 33) * pow85 counter <? two32)%N with true by lia.
  replace (chunk + (c - 33) * pow85 counter <? two32)%N with true by lia. reflexivity.
Qed.

Lemma loop_step dbg c counter chunk r : is_d85 c ->
  (chunk + (c - 33) * pow85 counter < two32)%N ->
  a85_loop dbg (c :: r) counter chunk =
    if Nat.eqb counter 4 then a85_cons (be4 (chunk + (c - 33) * pow85 counter)) (a85_loop dbg r 0 0%N)
    else a85_loop dbg r (S counter) (chunk + (c - 33) * pow85 counter)%N.
Proof.
  intros [H1 H2] H. cbn [a85_loop].
  replace (c =? 122)%N with false by lia. cbn [andb].
  replace ((c <? 33)%N || (117 <? c)%N) with false by lia.
  rewrite acc_ok by assumption. reflexivity.
Qed.

Lemma pad_step dbg k counter chunk :
  (chunk + 84 * pow85 counter < two32)%N ->
  a85_pad dbg (S k) counter chunk = a85_pad dbg k (S counter) (chunk + 84 * pow85 counter)%N.
Proof.
  intros H. cbn [a85_pad]. rewrite acc_ok; [reflexivity | lia | exact H].
Qed.

(* ---------- a complete group ---------- *)
Section Group.
  Variables d0 d1 d2 d3 d4 : N.
  Hypothesis H0 : (d0 < 85)%N. Hypothesis H1 : (d1 < 85)%N. Hypothesis H2 : (d2 < 85)%N.
  Hypothesis H3 : (d3 < 85)%N. Hypothesis H4 : (d4 < 85)%N.
  Let V := (d0 * 52200625 + d1 * 614125 + d2 * 7225 + d3 * 85 + d4)%N.
  Hypothesis HV : (V < 4294967296)%N.
  Let g := [33 + d0; 33 + d1; 33 + d2; 33 + d3; 33 + d4]%N.

  Lemma check_group r : a85_check 0 0%N (g ++ r) = option_map (app g) (a85_check 0 0%N r).
  Proof.
    unfold g. cbn [app].
    rewrite check_step by (unfold is_d85; lia). change (Nat.eqb (Nat.modulo (0 + 1) 5) 0) with false. cbv iota.
    change (Nat.modulo (0 + 1) 5) with 1.
    rewrite check_step by (unfold is_d85; lia). change (Nat.eqb (Nat.modulo (1 + 1) 5) 0) with false. cbv iota.
    change (Nat.modulo (1 + 1) 5) with 2.
    rewrite check_step by (unfold is_d85; lia). change (Nat.eqb (Nat.modulo (2 + 1) 5) 0) with false. cbv iota.
    change (Nat.modulo (2 + 1) 5) with 3.
    rewrite check_step by (unfold is_d85; lia). change (Nat.eqb (Nat.modulo (3 + 1) 5) 0) with false. cbv iota.
    change (Nat.modulo (3 + 1) 5) with 4.
    rewrite check_step by (unfold is_d85; lia). change (Nat.eqb (Nat.modulo (4 + 1) 5) 0) with true. cbv iota.
    unfold V, u32_max in *.
    replace (_ <? _)%N with false by lia.
    destruct (a85_check 0 0%N r); reflexivity.
  Qed.

  Lemma loop_group dbg r : a85_loop dbg (g ++ r) 0 0%N = a85_cons (be4 V) (a85_loop dbg r 0 0%N).
  Proof.
    unfold g. cbn [app]. unfold V, two32 in *.
    rewrite loop_step by (unfold is_d85, two32; cbn [pow85]; lia). cbn [Nat.eqb pow85].
    rewrite loop_step by (unfold is_d85, two32; cbn [pow85]; lia). cbn [Nat.eqb pow85].
    rewrite loop_step by (unfold is_d85, two32; cbn [pow85]; lia). cbn [Nat.eqb pow85].
    rewrite loop_step by (unfold is_d85, two32; cbn [pow85]; lia). cbn [Nat.eqb pow85].
    rewrite loop_step by (unfold is_d85, two32; cbn [pow85]; lia). cbn [Nat.eqb pow85].
    f_equal. f_equal. lia.
  Qed.
End Group.

Lemma group5_form w : (w < 4294967296)%N ->
  exists d0 d1 d2 d3 d4,
    group5 w = [33 + d0; 33 + d1; 33 + d2; 33 + d3; 33 + d4]%N /\
    (d0 < 85 /\ d1 < 85 /\ d2 < 85 /\ d3 < 85 /\ d4 < 85)%N /\
    (d0 * 52200625 + d1 * 614125 + d2 * 7225 + d3 * 85 + d4 = w)%N /\
    d0 = (w / 52200625)%N /\ d1 = ((w / 614125) mod 85)%N /\ d2 = ((w / 7225) mod 85)%N /\ d3 = ((w / 85) mod 85)%N.
Proof.
  intros H. destruct (digits5 w H) as [E B].
  eexists _, _, _, _, _. split; [reflexivity|]. split; [exact B|]. split; [exact E|]. repeat split.
Qed.

(* ---------- a final partial group of 2, 3 or 4 characters ---------- *)
Section Part.
  Variables d0 d1 d2 d3 : N.
  Hypothesis H0 : (d0 < 85)%N. Hypothesis H1 : (d1 < 85)%N. Hypothesis H2 : (d2 < 85)%N. Hypothesis H3 : (d3 < 85)%N.
  Let P2 := (d0 * 52200625 + d1 * 614125 + 614124)%N.
  Let P3 := (d0 * 52200625 + d1 * 614125 + d2 * 7225 + 7224)%N.
  Let P4 := (d0 * 52200625 + d1 * 614125 + d2 * 7225 + d3 * 85 + 84)%N.

  Lemma check_part2 : (P2 < 4294967296)%N -> a85_check 0 0%N [33 + d0; 33 + d1]%N = Some [33 + d0; 33 + d1]%N.
  Proof.
    intros HP. unfold P2 in HP. clear P3 P4 H2 H3.
    rewrite check_step by (unfold is_d85; lia). change (Nat.eqb (Nat.modulo (0 + 1) 5) 0) with false. cbv iota.
    change (Nat.modulo (0 + 1) 5) with 1.
    rewrite check_step by (unfold is_d85; lia). change (Nat.eqb (Nat.modulo (1 + 1) 5) 0) with false. cbv iota.
    change (Nat.modulo (1 + 1) 5) with 2.
    cbn [a85_check Nat.eqb Nat.ltb Nat.leb Nat.sub pad_value]. unfold u32_max.
    replace (_ <? _)%N with false by lia. reflexivity.
  Qed.

  Lemma loop_part2 dbg : (P2 < 4294967296)%N -> a85_loop dbg [33 + d0; 33 + d1]%N 0 0%N = AOk (firstn 1 (be4 P2)).
  Proof.
    intros HP. unfold P2 in *. clear P3 P4 H2 H3.
    rewrite loop_step by (unfold is_d85, two32; cbn [pow85]; lia). cbn [Nat.eqb pow85].
    rewrite loop_step by (unfold is_d85, two32; cbn [pow85]; lia). cbn [Nat.eqb pow85].
    cbn [a85_loop Nat.eqb Nat.sub].
    rewrite pad_step by (unfold two32; cbn [pow85]; lia). cbn [pow85].
    rewrite pad_step by (unfold two32; cbn [pow85]; lia). cbn [pow85].
    rewrite pad_step by (unfold two32; cbn [pow85]; lia). cbn [pow85 a85_pad].
    f_equal. f_equal. f_equal. lia.
  Qed.

  Lemma check_part3 : (P3 < 4294967296)%N ->
    a85_check 0 0%N [33 + d0; 33 + d1; 33 + d2]%N = Some [33 + d0; 33 + d1; 33 + d2]%N.
  Proof.
    intros HP. unfold P3 in HP. clear P4 H3.
    rewrite check_step by (unfold is_d85; lia). change (Nat.eqb (Nat.modulo (0 + 1) 5) 0) with false. cbv iota.
    change (Nat.modulo (0 + 1) 5) with 1.
    rewrite check_step by (unfold is_d85; lia). change (Nat.eqb (Nat.modulo (1 + 1) 5) 0) with false. cbv iota.
    change (Nat.modulo (1 + 1) 5) with 2.
    rewrite check_step by (unfold is_d85; lia). change (Nat.eqb (Nat.modulo (2 + 1) 5) 0) with false. cbv iota.
    change (Nat.modulo (2 + 1) 5) with 3.
    cbn [a85_check Nat.eqb Nat.ltb Nat.leb Nat.sub pad_value]. unfold u32_max.
    replace (_ <? _)%N with false by lia. reflexivity.
  Qed.

  Lemma loop_part3 dbg : (P3 < 4294967296)%N ->
    a85_loop dbg [33 + d0; 33 + d1; 33 + d2]%N 0 0%N = AOk (firstn 2 (be4 P3)).
  Proof.
    intros HP. unfold P3 in *. clear P4 H3.
    rewrite loop_step by (unfold is_d85, two32; cbn [pow85]; lia). cbn [Nat.eqb pow85].
    rewrite loop_step by (unfold is_d85, two32; cbn [pow85]; lia). cbn [Nat.eqb pow85].
    rewrite loop_step by (unfold is_d85, two32; cbn [pow85]; lia). cbn [Nat.eqb pow85].
    cbn [a85_loop Nat.eqb Nat.sub].
    rewrite pad_step by (unfold two32; cbn [pow85]; lia). cbn [pow85].
    rewrite pad_step by (unfold two32; cbn [pow85]; lia). cbn [pow85 a85_pad].
    f_equal. f_equal. f_equal. lia.
  Qed.

  Lemma check_part4 : (P4 < 4294967296)%N ->
    a85_check 0 0%N [33 + d0; 33 + d1; 33 + d2; 33 + d3]%N = Some [33 + d0; 33 + d1; 33 + d2; 33 + d3]%N.
  Proof.
    intros HP. unfold P4 in HP.
    rewrite check_step by (unfold is_d85; lia). change (Nat.eqb (Nat.modulo (0 + 1) 5) 0) with false. cbv iota.
    change (Nat.modulo (0 + 1) 5) with 1.
    rewrite check_step by (unfold is_d85; lia). change (Nat.eqb (Nat.modulo (1 + 1) 5) 0) with false. cbv iota.
    change (Nat.modulo (1 + 1) 5) with 2.
    rewrite check_step by (unfold is_d85; lia). change (Nat.eqb (Nat.modulo (2 + 1) 5) 0) with false. cbv iota.
    change (Nat.modulo (2 + 1) 5) with 3.
    rewrite check_step by (unfold is_d85; lia). change (Nat.eqb (Nat.modulo (3 + 1) 5) 0) with false. cbv iota.
    change (Nat.modulo (3 + 1) 5) with 4.
    cbn [a85_check Nat.eqb Nat.ltb Nat.leb Nat.sub pad_value]. unfold u32_max.
    replace (_ <? _)%N with false by lia. reflexivity.
  Qed.

  Lemma loop_part4 dbg : (P4 < 4294967296)%N ->
    a85_loop dbg [33 + d0; 33 + d1; 33 + d2; 33 + d3]%N 0 0%N = AOk (firstn 3 (be4 P4)).
  Proof.
    intros HP. unfold P4 in *.
    rewrite loop_step by (unfold is_d85, two32; cbn [pow85]; lia). cbn [Nat.eqb pow85].
    rewrite loop_step by (unfold is_d85, two32; cbn [pow85]; lia). cbn [Nat.eqb pow85].
    rewrite loop_step by (unfold is_d85, two32; cbn [pow85]; lia). cbn [Nat.eqb pow85].
    rewrite loop_step by (unfold is_d85, two32; cbn [pow85]; lia). cbn [Nat.eqb pow85].
    cbn [a85_loop Nat.eqb Nat.sub].
    rewrite pad_step by (unfold two32; cbn [pow85]; lia). cbn [pow85 a85_pad].
    f_equal. f_equal. f_equal. lia.
  Qed.
End Part.

(* ---------- every legal digit string passes the check and decodes to the payload ---------- *)
Lemma digits_decode dbg p d : bytes_lt256 p -> a85_digits p d ->
  exists d', a85_check 0 0%N d = Some d' /\ a85_loop dbg d' 0 0%N = AOk p.
Proof.
  intros Hp H. induction H as [|b0 b1 b2 b3 p d _ IH|p d _ IH|b0|b0 b1|b0 b1 b2].
  - exists []. split; reflexivity.
  - inversion Hp as [|? ? B0 Hp1]; subst. inversion Hp1 as [|? ? B1 Hp2]; subst.
    inversion Hp2 as [|? ? B2 Hp3]; subst. inversion Hp3 as [|? ? B3 Hp4]; subst.
    destruct (IH Hp4) as [d' [C L]].
    pose proof (word_lt b0 b1 b2 b3 B0 B1 B2 B3) as Hw.
    destruct (group5_form _ Hw) as [d0 [d1 [d2 [d3 [d4 [-> [[D0 [D1 [D2 [D3 D4]]]] [E _]]]]]]]].
    exists ([33 + d0; 33 + d1; 33 + d2; 33 + d3; 33 + d4]%N ++ d'). split.
    + rewrite check_group by (try assumption; lia). rewrite C. reflexivity.
    + rewrite loop_group by (try assumption; lia). rewrite L, E. cbn [a85_cons].
      rewrite be4_word by assumption. reflexivity.
  - inversion Hp as [|? ? B0 Hp1]; subst. inversion Hp1 as [|? ? B1 Hp2]; subst.
    inversion Hp2 as [|? ? B2 Hp3]; subst. inversion Hp3 as [|? ? B3 Hp4]; subst.
    destruct (IH Hp4) as [d' [C L]].
    exists ([33; 33; 33; 33; 33]%N ++ d'). split.
    + cbn [a85_check N.eqb Pos.eqb Nat.eqb andb]. rewrite C. reflexivity.
    + change [33; 33; 33; 33; 33]%N with [33 + 0; 33 + 0; 33 + 0; 33 + 0; 33 + 0]%N.
      rewrite loop_group by lia. rewrite L. reflexivity.
  - inversion Hp as [|? ? B0 _]; subst.
    pose proof (word_lt b0 0 0 0 B0 ltac:(lia) ltac:(lia) ltac:(lia)) as Hw.
    assert (Ew : (word b0 0 0 0 = b0 * 16777216)%N) by (unfold word; lia).
    set (w := word b0 0 0 0) in *.
    destruct (group5_form w Hw) as [d0 [d1 [d2 [d3 [d4 [-> [[D0 [D1 [D2 [D3 D4]]]] [E [E0 [E1 _]]]]]]]]]].
    destruct (part1_bytes b0 B0) as [PB PV]. cbv zeta in PB, PV.
    assert (EP : (d0 * 52200625 + d1 * 614125 + 614124 = b0 * 16777216 / 614125 * 614125 + 614124)%N).
    { rewrite <- Ew. rewrite E0, E1. pose proof (nest1 w) as Hn. clear - Hn. lia. }
    cbn [firstn]. exists [33 + d0; 33 + d1]%N. split.
    + apply check_part2; [exact D0 | exact D1 | rewrite EP; exact PB].
    + rewrite loop_part2; [| exact D0 | exact D1 | rewrite EP; exact PB].
      rewrite EP. unfold be4. cbn [firstn]. rewrite PV. reflexivity.
  - inversion Hp as [|? ? B0 Hp1]; subst. inversion Hp1 as [|? ? B1 _]; subst.
    pose proof (word_lt b0 b1 0 0 B0 B1 ltac:(lia) ltac:(lia)) as Hw.
    assert (Ew : (word b0 b1 0 0 = (b0 * 256 + b1) * 65536)%N) by (unfold word; lia).
    set (w := word b0 b1 0 0) in *.
    destruct (group5_form w Hw) as [d0 [d1 [d2 [d3 [d4 [-> [[D0 [D1 [D2 [D3 D4]]]] [E [E0 [E1 [E2 _]]]]]]]]]]].
    destruct (part2_bytes b0 b1 B0 B1) as [PB [PV1 PV2]]. cbv zeta in PB, PV1, PV2.
    assert (EP : (d0 * 52200625 + d1 * 614125 + d2 * 7225 + 7224
                  = (b0 * 256 + b1) * 65536 / 7225 * 7225 + 7224)%N).
    { rewrite <- Ew. rewrite E0, E1, E2. pose proof (nest2 w) as Hn. clear - Hn. lia. }
    cbn [firstn]. exists [33 + d0; 33 + d1; 33 + d2]%N. split.
    + apply check_part3; [exact D0 | exact D1 | exact D2 | rewrite EP; exact PB].
    + rewrite loop_part3; [| exact D0 | exact D1 | exact D2 | rewrite EP; exact PB].
      rewrite EP. unfold be4. cbn [firstn]. rewrite PV1, PV2. reflexivity.
  - inversion Hp as [|? ? B0 Hp1]; subst. inversion Hp1 as [|? ? B1 Hp2]; subst. inversion Hp2 as [|? ? B2 _]; subst.
    pose proof (word_lt b0 b1 b2 0 B0 B1 B2 ltac:(lia)) as Hw.
    assert (Ew : (word b0 b1 b2 0 = (b0 * 65536 + b1 * 256 + b2) * 256)%N) by (unfold word; lia).
    set (w := word b0 b1 b2 0) in *.
    destruct (group5_form w Hw) as [d0 [d1 [d2 [d3 [d4 [-> [[D0 [D1 [D2 [D3 D4]]]] [E [E0 [E1 [E2 E3]]]]]]]]]]].
    destruct (part3_bytes b0 b1 b2 B0 B1 B2) as [PB [PV1 [PV2 PV3]]]. cbv zeta in PB, PV1, PV2, PV3.
    assert (EP : (d0 * 52200625 + d1 * 614125 + d2 * 7225 + d3 * 85 + 84
                  = (b0 * 65536 + b1 * 256 + b2) * 256 / 85 * 85 + 84)%N).
    { rewrite <- Ew. rewrite E0, E1, E2, E3. pose proof (nest3 w) as Hn. clear - Hn. lia. }
    cbn [firstn]. exists [33 + d0; 33 + d1; 33 + d2; 33 + d3]%N. split.
    + apply check_part4; [exact D0 | exact D1 | exact D2 | exact D3 | rewrite EP; exact PB].
    + rewrite loop_part4; [| exact D0 | exact D1 | exact D2 | exact D3 | rewrite EP; exact PB].
      rewrite EP. unfold be4. cbn [firstn]. rewrite PV1, PV2, PV3. reflexivity.
Qed.

(* ---------- what the check hands to the crate is made of `!`..`u` only ---------- *)
Lemma check_d85 s : forall n v d', a85_check n v s = Some d' -> d85_only d'.
Proof.
  induction s as [|c r IH]; intros n v d' H; cbn [a85_check] in H.
  - destruct (Nat.eqb n 1); [discriminate|]. destruct (Nat.ltb 1 n); [destruct (_ <? _)%N; [discriminate|]|];
      inversion H; constructor.
  - destruct ((c =? 122)%N && Nat.eqb n 0).
    { destruct (a85_check n v r) as [d|] eqn:E; [|discriminate]. inversion H; subst.
      repeat (constructor; [unfold is_d85; lia|]). exact (IH _ _ _ E). }
    destruct ((33 <=? c)%N && (c <=? 117)%N) eqn:R; [|discriminate].
    cbv zeta in H.
    assert (Hc : is_d85 c) by (unfold is_d85; lia).
    destruct (Nat.eqb _ 0).
    + destruct (_ <? _)%N; [discriminate|].
      destruct (a85_check 0 0%N r) as [d|] eqn:E; [|discriminate]. inversion H; subst.
      constructor; [exact Hc | exact (IH _ _ _ E)].
    + destruct (a85_check _ _ r) as [d|] eqn:E; [|discriminate]. inversion H; subst.
      constructor; [exact Hc | exact (IH _ _ _ E)].
Qed.

(* ---------- on such text the crate's trimming does nothing ---------- *)
Lemma frev_rev (l : bytes) : frev l = rev l.
Proof. unfold frev. symmetry. apply rev_alt. Qed.

Lemma d85_not_uws c : is_d85 c -> is_uws c = false.
Proof. unfold is_d85, is_uws. lia. Qed.

Lemma trim_start_d85 d : d85_only d -> trim_start d = d.
Proof. intros H. destruct H as [|c r Hc _]; [reflexivity|]. cbn [trim_start]. rewrite d85_not_uws by exact Hc. reflexivity. Qed.

Lemma strip_lt_tilde_d85 d : d85_only d -> strip_lt_tilde d = d.
Proof.
  intros H. destruct H as [|a r Ha Hr]; [reflexivity|]. destruct Hr as [|b r Hb _]; [reflexivity|].
  cbn [strip_lt_tilde]. replace ((a =? 60)%N && (b =? 126)%N) with false; [reflexivity|]. unfold is_d85 in *. lia.
Qed.

Lemma strip_gt_tilde_rev_d85 d : d85_only d -> strip_gt_tilde_rev d = d.
Proof.
  intros H. destruct H as [|a r Ha Hr]; [reflexivity|]. destruct Hr as [|b r Hb _]; [reflexivity|].
  cbn [strip_gt_tilde_rev]. replace ((a =? 62)%N && (b =? 126)%N) with false; [reflexivity|]. unfold is_d85 in *. lia.
Qed.

Lemma d85_rev d : d85_only d -> d85_only (rev d).
Proof. apply Forall_rev. Qed.

Lemma filter_d85 d : d85_only d -> filter (fun c => negb (is_ascii_ws c)) d = d.
Proof.
  induction 1 as [|c r Hc _ IH]; [reflexivity|]. cbn [filter].
  replace (negb (is_ascii_ws c)) with true; [rewrite IH; reflexivity|].
  unfold is_ascii_ws, memb, is_d85 in *. cbn [existsb]. lia.
Qed.

Lemma crate_decode_d85 dbg d : d85_only d -> crate_decode dbg d = a85_loop dbg d 0 0%N.
Proof.
  intros H. unfold crate_decode, trim_end, trim_end_eod.
  rewrite (trim_start_d85 d H). rewrite (strip_lt_tilde_d85 d H).
  rewrite !frev_rev.
  rewrite (trim_start_d85 (rev d) (d85_rev d H)). rewrite rev_involutive.
  rewrite (strip_gt_tilde_rev_d85 (rev d) (d85_rev d H)). rewrite rev_involutive.
  rewrite filter_d85 by exact H. reflexivity.
Qed.

(* ---------- staging ---------- *)
Lemma stage_app a b : a85_stage (a ++ b) = a85_stage a ++ a85_stage b.
Proof. unfold a85_stage. apply filter_app. Qed.

Lemma stage_ws eol : ws_only eol -> a85_stage eol = [].
Proof.
  induction 1 as [|w r Hw _ IH]; [reflexivity|]. unfold a85_stage in *. cbn [filter].
  rewrite (pdf_ws_is w Hw). exact IH.
Qed.

Lemma stage_interleave digits text :
  (forall c, In c digits -> is_pdf_ws c = false) -> interleave digits text -> a85_stage text = digits.
Proof.
  intros Hd Hi. induction Hi as [|w body text Hw _ IH|x body text _ IH].
  - reflexivity.
  - unfold a85_stage in *. cbn [filter]. rewrite (pdf_ws_is w Hw). apply IH, Hd.
  - unfold a85_stage in *. cbn [filter]. rewrite (Hd x (or_introl eq_refl)). cbn [negb]. f_equal.
    apply IH. intros c Hc. apply Hd. right. exact Hc.
Qed.

Lemma strip_eod_app d : strip_eod (d ++ [126; 62]%N) = Some d.
Proof.
  unfold strip_eod. rewrite frev_rev, rev_app_distr. cbn [rev app N.eqb Pos.eqb andb].
  rewrite frev_rev, rev_involutive. reflexivity.
Qed.

(* the characters an encoder produces *)
Definition enc_char (c : N) : Prop := is_d85 c \/ c = 122%N.

Lemma group5_chars w : (w < 4294967296)%N -> Forall enc_char (group5 w).
Proof.
  intros H. destruct (group5_form w H) as [d0 [d1 [d2 [d3 [d4 [-> [[D0 [D1 [D2 [D3 D4]]]] _]]]]]]].
  repeat (constructor; [left; unfold is_d85; lia|]). constructor.
Qed.

Lemma a85_digits_chars p d : bytes_lt256 p -> a85_digits p d -> Forall enc_char d.
Proof.
  intros Hp H. induction H as [|b0 b1 b2 b3 p d _ IH|p d _ IH|b0|b0 b1|b0 b1 b2].
  - constructor.
  - inversion Hp as [|? ? B0 Hp1]; subst. inversion Hp1 as [|? ? B1 Hp2]; subst.
    inversion Hp2 as [|? ? B2 Hp3]; subst. inversion Hp3 as [|? ? B3 Hp4]; subst.
    apply Forall_app. split; [apply group5_chars, word_lt; assumption | apply IH, Hp4].
  - constructor; [right; reflexivity|]. apply IH.
    inversion Hp as [|? ? _ Hp1]; subst. inversion Hp1 as [|? ? _ Hp2]; subst.
    inversion Hp2 as [|? ? _ Hp3]; subst. inversion Hp3 as [|? ? _ Hp4]; subst. exact Hp4.
  - inversion Hp as [|? ? B0 _]; subst.
    destruct (group5_form _ (word_lt b0 0 0 0 B0 ltac:(lia) ltac:(lia) ltac:(lia)))
      as [d0 [d1 [d2 [d3 [d4 [-> [[D0 [D1 [D2 [D3 D4]]]] _]]]]]]].
    cbn [firstn]. repeat (constructor; [left; unfold is_d85; lia|]). constructor.
  - inversion Hp as [|? ? B0 Hp1]; subst. inversion Hp1 as [|? ? B1 _]; subst.
    destruct (group5_form _ (word_lt b0 b1 0 0 B0 B1 ltac:(lia) ltac:(lia)))
      as [d0 [d1 [d2 [d3 [d4 [-> [[D0 [D1 [D2 [D3 D4]]]] _]]]]]]].
    cbn [firstn]. repeat (constructor; [left; unfold is_d85; lia|]). constructor.
  - inversion Hp as [|? ? B0 Hp1]; subst. inversion Hp1 as [|? ? B1 Hp2]; subst. inversion Hp2 as [|? ? B2 _]; subst.
    destruct (group5_form _ (word_lt b0 b1 b2 0 B0 B1 B2 ltac:(lia)))
      as [d0 [d1 [d2 [d3 [d4 [-> [[D0 [D1 [D2 [D3 D4]]]] _]]]]]]].
    cbn [firstn]. repeat (constructor; [left; unfold is_d85; lia|]). constructor.
Qed.

Lemma enc_char_not_ws c : enc_char c -> is_pdf_ws c = false.
Proof. unfold enc_char, is_d85, is_pdf_ws, memb. cbn [existsb]. lia. Qed.

Lemma strip_start_marker_enc d : Forall enc_char d -> strip_start_marker d = d.
Proof.
  intros H. destruct H as [|a r Ha Hr]; [reflexivity|]. destruct Hr as [|b r Hb _]; [reflexivity|].
  cbn [strip_start_marker]. replace ((a =? 60)%N && (b =? 126)%N) with false; [reflexivity|].
  unfold enc_char, is_d85 in *. lia.
Qed.

(* ---------- C06_a85 ---------- *)
Theorem a85_roundtrip dbg p e eol :
  bytes_lt256 p -> a85_enc p e -> ws_only eol -> a85_decode dbg (e ++ eol) = Ok p.
Proof.
  intros Hp [digits [Hd Hi]] Heol.
  pose proof (a85_digits_chars p digits Hp Hd) as Hc.
  unfold a85_decode.
  rewrite stage_app, (stage_ws eol Heol), app_nil_r.
  rewrite (stage_interleave (digits ++ [126; 62]%N) e); [| | exact Hi].
  2:{ intros c Hin. apply in_app_or in Hin as [Hin | Hin].
      - apply enc_char_not_ws. rewrite Forall_forall in Hc. apply Hc, Hin.
      - cbn in Hin. destruct Hin as [<- | [<- | []]]; reflexivity. }
  rewrite strip_eod_app. rewrite (strip_start_marker_enc digits Hc).
  destruct (digits_decode dbg p digits Hp Hd) as [d' [C L]]. rewrite C.
  rewrite (crate_decode_d85 dbg d' (check_d85 _ _ _ _ C)). rewrite L. reflexivity.
Qed.

(* ---------- corrupt encodings ---------- *)
(* no EOD marker *)
Lemma strip_eod_some s body : strip_eod s = Some body -> s = body ++ [126; 62]%N.
Proof.
  unfold strip_eod. rewrite frev_rev. destruct (rev s) as [|a [|b r]] eqn:E; try discriminate.
  destruct ((a =? 62)%N && (b =? 126)%N) eqn:T; [|discriminate]. intros H. inversion H; subst.
  rewrite frev_rev. apply andb_true_iff in T as [Ta Tb]. apply N.eqb_eq in Ta, Tb. subst.
  rewrite <- (rev_involutive s), E. cbn [rev]. rewrite <- app_assoc. reflexivity.
Qed.

Theorem a85_no_eod dbg data :
  (forall body, a85_stage data <> body ++ [126; 62]%N) -> a85_decode dbg data = Err ETransform.
Proof.
  intros H. unfold a85_decode. destruct (strip_eod (a85_stage data)) as [body|] eqn:E; [|reflexivity].
  exfalso. exact (H body (strip_eod_some _ _ E)).
Qed.

(* an illegal character anywhere in the body (this includes white space other than PDF's, `~`, and
   anything after a first `~>`) *)
Lemma check_illegal s : forall n v, (exists c, In c s /\ ~ is_d85 c /\ c <> 122%N) -> a85_check n v s = None.
Proof.
  induction s as [|c0 r IH]; intros n v [c [Hin [Hd Hz]]]; [contradiction|].
  cbn [a85_check]. destruct Hin as [<- | Hin].
  - replace (c0 =? 122)%N with false by lia. cbn [andb].
    replace ((33 <=? c0)%N && (c0 <=? 117)%N) with false; [reflexivity|]. unfold is_d85 in Hd. lia.
  - assert (E : forall n' v', a85_check n' v' r = None) by (intros; apply IH; exists c; auto).
    destruct (_ && Nat.eqb n 0); [rewrite E; reflexivity|].
    destruct (_ && _); [|reflexivity]. cbv zeta.
    destruct (Nat.eqb _ 0); [destruct (_ <? _)%N; [reflexivity|]|]; rewrite E; reflexivity.
Qed.

Theorem a85_illegal dbg data body c :
  a85_stage data = body ++ [126; 62]%N -> In c (strip_start_marker body) -> ~ is_d85 c -> c <> 122%N ->
  a85_decode dbg data = Err ETransform.
Proof.
  intros Hs Hin Hd Hz. unfold a85_decode. rewrite Hs, strip_eod_app.
  rewrite check_illegal; [reflexivity|]. exists c. auto.
Qed.

(* the state of the group check after a prefix *)
Fixpoint a85_state (n : nat) (v : N) (s : bytes) : option (nat * N) :=
  match s with
  | [] => Some (n, v)
  | c :: r =>
    if (c =? 122)%N && Nat.eqb n 0 then a85_state n v r
    else if (33 <=? c)%N && (c <=? 117)%N then
      let v' := (v * 85 + (c - 33))%N in
      let n' := Nat.modulo (n + 1) 5 in
      if Nat.eqb n' 0 then (if (u32_max <? v')%N then None else a85_state 0 0%N r)
      else a85_state n' v' r
    else None
  end.

Lemma check_app_none s1 : forall n v n' v' s2,
  a85_state n v s1 = Some (n', v') -> a85_check n' v' s2 = None -> a85_check n v (s1 ++ s2) = None.
Proof.
  induction s1 as [|c r IH]; intros n v n' v' s2 Hst Hc; cbn [a85_state] in Hst.
  - inversion Hst; subst. exact Hc.
  - cbn [app a85_check]. destruct (_ && Nat.eqb n 0).
    { rewrite (IH _ _ _ _ _ Hst Hc). reflexivity. }
    destruct (_ && _); [|discriminate]. cbv zeta in *.
    destruct (Nat.eqb _ 0).
    + destruct (_ <? _)%N; [reflexivity|]. rewrite (IH _ _ _ _ _ Hst Hc). reflexivity.
    + rewrite (IH _ _ _ _ _ Hst Hc). reflexivity.
Qed.

(* [pre] consists of complete groups *)
Definition complete (pre : bytes) : Prop := a85_state 0 0%N pre = Some (0, 0%N).

(* a final group of a single character *)
Lemma check_lone pre c : complete pre -> is_d85 c -> a85_check 0 0%N (pre ++ [c]) = None.
Proof.
  intros Hp Hc. apply (check_app_none pre 0 0%N 0 0%N [c] Hp).
  rewrite check_step by exact Hc. reflexivity.
Qed.

(* a `z` inside a group *)
Lemma check_misaligned_z pre n v post : a85_state 0 0%N pre = Some (n, v) -> n <> 0 ->
  a85_check 0 0%N (pre ++ 122%N :: post) = None.
Proof.
  intros Hp Hn. apply (check_app_none pre 0 0%N n v _ Hp).
  cbn [a85_check N.eqb Pos.eqb]. destruct n; [contradiction|]. reflexivity.
Qed.

(* a group whose value exceeds 2^32 - 1 *)
Lemma check_too_large pre c0 c1 c2 c3 c4 post :
  complete pre -> is_d85 c0 -> is_d85 c1 -> is_d85 c2 -> is_d85 c3 -> is_d85 c4 ->
  (4294967295 < (c0 - 33) * 52200625 + (c1 - 33) * 614125 + (c2 - 33) * 7225 + (c3 - 33) * 85 + (c4 - 33))%N ->
  a85_check 0 0%N (pre ++ c0 :: c1 :: c2 :: c3 :: c4 :: post) = None.
Proof.
  intros Hp H0 H1 H2 H3 H4 HV. apply (check_app_none pre 0 0%N 0 0%N _ Hp).
  rewrite check_step by assumption. change (Nat.eqb (Nat.modulo (0 + 1) 5) 0) with false. cbv iota.
  change (Nat.modulo (0 + 1) 5) with 1.
  rewrite check_step by assumption. change (Nat.eqb (Nat.modulo (1 + 1) 5) 0) with false. cbv iota.
  change (Nat.modulo (1 + 1) 5) with 2.
  rewrite check_step by assumption. change (Nat.eqb (Nat.modulo (2 + 1) 5) 0) with false. cbv iota.
  change (Nat.modulo (2 + 1) 5) with 3.
  rewrite check_step by assumption. change (Nat.eqb (Nat.modulo (3 + 1) 5) 0) with false. cbv iota.
  change (Nat.modulo (3 + 1) 5) with 4.
  rewrite check_step by assumption. change (Nat.eqb (Nat.modulo (4 + 1) 5) 0) with true. cbv iota.
  unfold u32_max. replace (_ <? _)%N with true by lia. reflexivity.
Qed.

(* a final partial group whose padded value exceeds 2^32 - 1 is rejected as well (e.g. `uu`) *)
Lemma check_partial_too_large pre c0 c1 :
  complete pre -> is_d85 c0 -> is_d85 c1 ->
  (4294967295 < (c0 - 33) * 52200625 + (c1 - 33) * 614125 + 614124)%N ->
  a85_check 0 0%N (pre ++ [c0; c1]) = None.
Proof.
  intros Hp H0 H1 HV. apply (check_app_none pre 0 0%N 0 0%N _ Hp).
  rewrite check_step by assumption. change (Nat.eqb (Nat.modulo (0 + 1) 5) 0) with false. cbv iota.
  change (Nat.modulo (0 + 1) 5) with 1.
  rewrite check_step by assumption. change (Nat.eqb (Nat.modulo (1 + 1) 5) 0) with false. cbv iota.
  change (Nat.modulo (1 + 1) 5) with 2.
  cbn [a85_check Nat.eqb Nat.ltb Nat.leb Nat.sub pad_value]. unfold u32_max.
  replace (_ <? _)%N with true by lia. reflexivity.
Qed.

(* lifted to the transform: the body (between an optional `<~` and the `~>`) fails the check *)
Theorem a85_check_fails dbg data body :
  a85_stage data = body ++ [126; 62]%N -> a85_check 0 0%N (strip_start_marker body) = None ->
  a85_decode dbg data = Err ETransform.
Proof. intros Hs Hc. unfold a85_decode. rewrite Hs, strip_eod_app, Hc. reflexivity. Qed.

(* legal encodings of whole groups are complete prefixes (ties [complete] to the specification) *)
Lemma state_group d0 d1 d2 d3 d4 r :
  (d0 < 85)%N -> (d1 < 85)%N -> (d2 < 85)%N -> (d3 < 85)%N -> (d4 < 85)%N ->
  (d0 * 52200625 + d1 * 614125 + d2 * 7225 + d3 * 85 + d4 < 4294967296)%N ->
  a85_state 0 0%N ([33 + d0; 33 + d1; 33 + d2; 33 + d3; 33 + d4]%N ++ r) = a85_state 0 0%N r.
Proof.
  intros. cbn [app a85_state].
  repeat (match goal with
          | |- context [((33 + ?d =? 122)%N && ?b)] => replace ((33 + d =? 122)%N && b) with false by lia
          | |- context [((33 <=? 33 + ?d)%N && (33 + ?d <=? 117)%N)] =>
            replace ((33 <=? 33 + d)%N && (33 + d <=? 117)%N) with true by lia
          end; cbv zeta;
          try change (Nat.modulo (0 + 1) 5) with 1; try change (Nat.modulo (1 + 1) 5) with 2;
          try change (Nat.modulo (2 + 1) 5) with 3; try change (Nat.modulo (3 + 1) 5) with 4;
          try change (Nat.modulo (4 + 1) 5) with 0; cbn [Nat.eqb]).
  unfold u32_max. replace (_ <? _)%N with false by lia. reflexivity.
Qed.

Inductive whole_groups : bytes -> Prop :=
| wg_nil : whole_groups []
| wg_group : forall b0 b1 b2 b3 d, (b0 < 256)%N -> (b1 < 256)%N -> (b2 < 256)%N -> (b3 < 256)%N ->
    whole_groups d -> whole_groups (group5 (word b0 b1 b2 b3) ++ d)
| wg_z : forall d, whole_groups d -> whole_groups (122%N :: d).

Lemma whole_groups_complete d : whole_groups d -> complete d.
Proof.
  unfold complete. induction 1 as [|b0 b1 b2 b3 d B0 B1 B2 B3 _ IH|d _ IH].
  - reflexivity.
  - pose proof (word_lt b0 b1 b2 b3 B0 B1 B2 B3) as Hw.
    destruct (group5_form _ Hw) as [d0 [d1 [d2 [d3 [d4 [-> [[D0 [D1 [D2 [D3 D4]]]] [E _]]]]]]]].
    rewrite state_group by (try assumption; lia). exact IH.
  - cbn [a85_state N.eqb Pos.eqb Nat.eqb andb]. exact IH.
Qed.
