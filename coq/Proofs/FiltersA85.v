(* Proofs/FiltersA85.v — C06 for ASCII85Decode: every legal encoding decodes to the payload in both build
   profiles; the corrupt classes are errors. *)
From PV Require Import Model.A85 Spec.A85Enc Proofs.FiltersHex.
From Coq Require Import ZifyBool ZifyNat ZifyN.
Ltac Zify.zify_post_hook ::= Z.div_mod_to_equations.

Definition is_d85 (c : N) : Prop := (33 <= c <= 117)%N.
Definition d85_only (d : bytes) : Prop := Forall is_d85 d.

(* ---------- arithmetic (DESIGN A.3) ---------- *)
Lemma digits5 w : (w < 4294967296)%N ->
  let d0 := (w / 52200625)%N in let d1 := ((w / 614125) mod 85)%N in let d2 := ((w / 7225) mod 85)%N in
  let d3 := ((w / 85) mod 85)%N in let d4 := (w mod 85)%N in
  (d0 * 52200625 + d1 * 614125 + d2 * 7225 + d3 * 85 + d4 = w /\ d0 < 85 /\ d1 < 85 /\ d2 < 85 /\ d3 < 85 /\ d4 < 85)%N.
Proof. intros H; cbv zeta. lia. Qed.

Lemma pad1 M : (M < 256)%N ->
  let N0 := (M * 16777216)%N in let D := (N0 / 614125)%N in let P := (D * 614125 + 614124)%N in
  (P < 4294967296 /\ P / 16777216 = M)%N.
Proof. intros H; cbv zeta. lia. Qed.
Lemma pad2 M : (M < 65536)%N ->
  let N0 := (M * 65536)%N in let D := (N0 / 7225)%N in let P := (D * 7225 + 7224)%N in
  (P < 4294967296 /\ P / 65536 = M)%N.
Proof. intros H; cbv zeta. lia. Qed.
Lemma pad3 M : (M < 16777216)%N ->
  let N0 := (M * 256)%N in let D := (N0 / 85)%N in let P := (D * 85 + 84)%N in
  (P < 4294967296 /\ P / 256 = M)%N.
Proof. intros H; cbv zeta. lia. Qed.

Lemma word_lt b0 b1 b2 b3 : (b0 < 256 -> b1 < 256 -> b2 < 256 -> b3 < 256 -> word b0 b1 b2 b3 < 4294967296)%N.
Proof. unfold word. lia. Qed.

Lemma be4_word b0 b1 b2 b3 : (b0 < 256)%N -> (b1 < 256)%N -> (b2 < 256)%N -> (b3 < 256)%N ->
  be4 (word b0 b1 b2 b3) = [b0; b1; b2; b3].
Proof. intros. unfold be4, word. repeat f_equal; lia. Qed.

(* ---------- one step of Parsley's group check and of the crate's loop ---------- *)
Lemma check_step n v c r : is_d85 c ->
  a85_check n v (c :: r) =
    if Nat.eqb (Nat.modulo (n + 1) 5) 0 then
      if (u32_max <? v * 85 + (c - 33))%N then None else option_map (cons c) (a85_check 0 0%N r)
    else option_map (cons c) (a85_check (Nat.modulo (n + 1) 5) (v * 85 + (c - 33))%N r).
Proof.
  intros [H1 H2]. cbn [a85_check].
  replace (c =? 122)%N with false by lia. cbn [andb].
  replace ((33 <=? c)%N && (c <=? 117)%N) with true by lia. cbv zeta.
  destruct (Nat.eqb _ 0); [destruct (_ <? _)%N; [reflexivity|]|]; destruct (a85_check _ _ r); reflexivity.
Qed.

Lemma acc_ok dbg c counter chunk : (33 <= c)%N ->
  (chunk + (c - 33) * pow85 counter < two32)%N ->
  a85_acc dbg c counter chunk = Some (chunk + (c - 33) * pow85 counter)%N.
Proof.
  intros H1 H. unfold a85_acc, u32_mul, u32_add.
  replace ((c - 33) * pow85 counter <? two32)%N with true by lia.
  replace (chunk + (c - 33) * pow85 counter <? two32)%N with true by lia. reflexivity.
Qed.

Lemma loop_step dbg c counter chunk r : is_d85 c ->
  (chunk + (c - 33) * pow85 counter < two32)%N ->
  a85_loop dbg (c :: r) counter chunk =
    if Nat.eqb counter 4 then a85_cons (be4 (chunk + (c - 33) * pow85 counter)) (a85_loop dbg r 0 0%N)
    else a85_loop dbg r (S counter) (chunk + (c - 33) * pow85 counter)%N.
Proof.
  intros [H1 H2] H. cbn [a85_loop].
  replace (c =? 122)%N with false by lia. cbn [andb].
  replace ((c <? 33)%N || (117 <? c)%N) with false by lia.
  rewrite acc_ok by assumption. reflexivity.
Qed.

Lemma pad_step dbg k counter chunk :
  (chunk + 84 * pow85 counter < two32)%N ->
  a85_pad dbg (S k) counter chunk = a85_pad dbg k (S counter) (chunk + 84 * pow85 counter)%N.
Proof.
  intros H. cbn [a85_pad]. rewrite acc_ok; [reflexivity | lia | exact H].
Qed.

(* ---------- a complete group ---------- *)
Section Group.
  Variables d0 d1 d2 d3 d4 : N.
  Hypothesis H0 : (d0 < 85)%N. Hypothesis H1 : (d1 < 85)%N. Hypothesis H2 : (d2 < 85)%N.
  Hypothesis H3 : (d3 < 85)%N. Hypothesis H4 : (d4 < 85)%N.
  Let V := (d0 * 52200625 + d1 * 614125 + d2 * 7225 + d3 * 85 + d4)%N.
  Hypothesis HV : (V < 4294967296)%N.
  Let g := [33 + d0; 33 + d1; 33 + d2; 33 + d3; 33 + d4]%N.

  Lemma check_group r : a85_check 0 0%N (g ++ r) = option_map (app g) (a85_check 0 0%N r).
  Proof.
    unfold g. cbn [app].
    rewrite check_step by (unfold is_d85; lia). change (Nat.eqb (Nat.modulo (0 + 1) 5) 0) with false. cbv iota.
    change (Nat.modulo (0 + 1) 5) with 1.
    rewrite check_step by (unfold is_d85; lia). change (Nat.eqb (Nat.modulo (1 + 1) 5) 0) with false. cbv iota.
    change (Nat.modulo (1 + 1) 5) with 2.
    rewrite check_step by (unfold is_d85; lia). change (Nat.eqb (Nat.modulo (2 + 1) 5) 0) with false. cbv iota.
    change (Nat.modulo (2 + 1) 5) with 3.
    rewrite check_step by (unfold is_d85; lia). change (Nat.eqb (Nat.modulo (3 + 1) 5) 0) with false. cbv iota.
    change (Nat.modulo (3 + 1) 5) with 4.
    rewrite check_step by (unfold is_d85; lia). change (Nat.eqb (Nat.modulo (4 + 1) 5) 0) with true. cbv iota.
    unfold V, u32_max in *.
    replace (_ <? _)%N with false by lia.
    destruct (a85_check 0 0%N r); reflexivity.
  Qed.

  Lemma loop_group dbg r : a85_loop dbg (g ++ r) 0 0%N = a85_cons (be4 V) (a85_loop dbg r 0 0%N).
  Proof.
    unfold g. cbn [app]. unfold V, two32 in *.
    rewrite loop_step by (unfold is_d85, two32; cbn [pow85]; lia). cbn [Nat.eqb pow85].
    rewrite loop_step by (unfold is_d85, two32; cbn [pow85]; lia). cbn [Nat.eqb pow85].
    rewrite loop_step by (unfold is_d85, two32; cbn [pow85]; lia). cbn [Nat.eqb pow85].
    rewrite loop_step by (unfold is_d85, two32; cbn [pow85]; lia). cbn [Nat.eqb pow85].
    rewrite loop_step by (unfold is_d85, two32; cbn [pow85]; lia). cbn [Nat.eqb pow85].
    f_equal. f_equal. lia.
  Qed.
End Group.

Lemma group5_form w : (w < 4294967296)%N ->
  exists d0 d1 d2 d3 d4,
    group5 w = [33 + d0; 33 + d1; 33 + d2; 33 + d3; 33 + d4]%N /\
    (d0 < 85 /\ d1 < 85 /\ d2 < 85 /\ d3 < 85 /\ d4 < 85)%N /\
    (d0 * 52200625 + d1 * 614125 + d2 * 7225 + d3 * 85 + d4 = w)%N /\
    d0 = (w / 52200625)%N /\ d1 = ((w / 614125) mod 85)%N /\ d2 = ((w / 7225) mod 85)%N /\ d3 = ((w / 85) mod 85)%N.
Proof.
  intros H. destruct (digits5 w H) as [E B].
  eexists _, _, _, _, _. split; [reflexivity|]. split; [exact B|]. split; [exact E|]. repeat split.
Qed.

(* ---------- a final partial group of 2, 3 or 4 characters ---------- *)
Section Part.
  Variables d0 d1 d2 d3 : N.
  Hypothesis H0 : (d0 < 85)%N. Hypothesis H1 : (d1 < 85)%N. Hypothesis H2 : (d2 < 85)%N. Hypothesis H3 : (d3 < 85)%N.
  Let P2 := (d0 * 52200625 + d1 * 614125 + 614124)%N.
  Let P3 := (d0 * 52200625 + d1 * 614125 + d2 * 7225 + 7224)%N.
  Let P4 := (d0 * 52200625 + d1 * 614125 + d2 * 7225 + d3 * 85 + 84)%N.

  Lemma check_part2 : (P2 < 4294967296)%N -> a85_check 0 0%N [33 + d0; 33 + d1]%N = Some [33 + d0; 33 + d1]%N.
  Proof.
    intros HP. unfold P2 in HP. clear P3 P4 H2 H3.
    rewrite check_step by (unfold is_d85; lia). change (Nat.eqb (Nat.modulo (0 + 1) 5) 0) with false. cbv iota.
    change (Nat.modulo (0 + 1) 5) with 1.
    rewrite check_step by (unfold is_d85; lia). change (Nat.eqb (Nat.modulo (1 + 1) 5) 0) with false. cbv iota.
    change (Nat.modulo (1 + 1) 5) with 2.
    cbn [a85_check Nat.eqb Nat.ltb Nat.leb Nat.sub pad_value]. unfold u32_max.
    replace (_ <? _)%N with false by lia. reflexivity.
  Qed.

  Lemma loop_part2 dbg : (P2 < 4294967296)%N -> a85_loop dbg [33 + d0; 33 + d1]%N 0 0%N = AOk (firstn 1 (be4 P2)).
  Proof.
    intros HP. unfold P2 in *. clear P3 P4 H2 H3.
    rewrite loop_step by (unfold is_d85, two32; cbn [pow85]; lia). cbn [Nat.eqb pow85].
    rewrite loop_step by (unfold is_d85, two32; cbn [pow85]; lia). cbn [Nat.eqb pow85].
    cbn [a85_loop Nat.eqb Nat.sub].
    rewrite pad_step by (unfold two32; cbn [pow85]; lia). cbn [pow85].
    rewrite pad_step by (unfold two32; cbn [pow85]; lia). cbn [pow85].
    rewrite pad_step by (unfold two32; cbn [pow85]; lia). cbn [pow85 a85_pad].
    f_equal. f_equal. f_equal. lia.
  Qed.

  Lemma check_part3 : (P3 < 4294967296)%N ->
    a85_check 0 0%N [33 + d0; 33 + d1; 33 + d2]%N = Some [33 + d0; 33 + d1; 33 + d2]%N.
  Proof.
    intros HP. unfold P3 in HP. clear P4 H3.
    rewrite check_step by (unfold is_d85; lia). change (Nat.eqb (Nat.modulo (0 + 1) 5) 0) with false. cbv iota.
    change (Nat.modulo (0 + 1) 5) with 1.
    rewrite check_step by (unfold is_d85; lia). change (Nat.eqb (Nat.modulo (1 + 1) 5) 0) with false. cbv iota.
    change (Nat.modulo (1 + 1) 5) with 2.
    rewrite check_step by (unfold is_d85; lia). change (Nat.eqb (Nat.modulo (2 + 1) 5) 0) with false. cbv iota.
    change (Nat.modulo (2 + 1) 5) with 3.
    cbn [a85_check Nat.eqb Nat.ltb Nat.leb Nat.sub pad_value]. unfold u32_max.
    replace (_ <? _)%N with false by lia. reflexivity.
  Qed.

  Lemma loop_part3 dbg : (P3 < 4294967296)%N ->
    a85_loop dbg [33 + d0; 33 + d1; 33 + d2]%N 0 0%N = AOk (firstn 2 (be4 P3)).
  Proof.
    intros HP. unfold P3 in *. clear P4 H3.
    rewrite loop_step by (unfold is_d85, two32; cbn [pow85]; lia). cbn [Nat.eqb pow85].
    rewrite loop_step by (unfold is_d85, two32; cbn [pow85]; lia). cbn [Nat.eqb pow85].
    rewrite loop_step by (unfold is_d85, two32; cbn [pow85]; lia). cbn [Nat.eqb pow85].
    cbn [a85_loop Nat.eqb Nat.sub].
    rewrite pad_step by (unfold two32; cbn [pow85]; lia). cbn [pow85].
    rewrite pad_step by (unfold two32; cbn [pow85]; lia). cbn [pow85 a85_pad].
    f_equal. f_equal. f_equal. lia.
  Qed.

  Lemma check_part4 : (P4 < 4294967296)%N ->
    a85_check 0 0%N [33 + d0; 33 + d1; 33 + d2; 33 + d3]%N = Some [33 + d0; 33 + d1; 33 + d2; 33 + d3]%N.
  Proof.
    intros HP. unfold P4 in HP.
    rewrite check_step by (unfold is_d85; lia). change (Nat.eqb (Nat.modulo (0 + 1) 5) 0) with false. cbv iota.
    change (Nat.modulo (0 + 1) 5) with 1.
    rewrite check_step by (unfold is_d85; lia). change (Nat.eqb (Nat.modulo (1 + 1) 5) 0) with false. cbv iota.
    change (Nat.modulo (1 + 1) 5) with 2.
    rewrite check_step by (unfold is_d85; lia). change (Nat.eqb (Nat.modulo (2 + 1) 5) 0) with false. cbv iota.
    change (Nat.modulo (2 + 1) 5) with 3.
    rewrite check_step by (unfold is_d85; lia). change (Nat.eqb (Nat.modulo (3 + 1) 5) 0) with false. cbv iota.
    change (Nat.modulo (3 + 1) 5) with 4.
    cbn [a85_check Nat.eqb Nat.ltb Nat.leb Nat.sub pad_value]. unfold u32_max.
    replace (_ <? _)%N with false by lia. reflexivity.
  Qed.

  Lemma loop_part4 dbg : (P4 < 4294967296)%N ->
    a85_loop dbg [33 + d0; 33 + d1; 33 + d2; 33 + d3]%N 0 0%N = AOk (firstn 3 (be4 P4)).
  Proof.
    intros HP. unfold P4 in *.
    rewrite loop_step by (unfold is_d85, two32; cbn [pow85]; lia). cbn [Nat.eqb pow85].
    rewrite loop_step by (unfold is_d85, two32; cbn [pow85]; lia). cbn [Nat.eqb pow85].
    rewrite loop_step by (unfold is_d85, two32; cbn [pow85]; lia). cbn [Nat.eqb pow85].
    rewrite loop_step by (unfold is_d85, two32; cbn [pow85]; lia). cbn [Nat.eqb pow85].
    cbn [a85_loop Nat.eqb Nat.sub].
    rewrite pad_step by (unfold two32; cbn [pow85]; lia). cbn [pow85 a85_pad].
    f_equal. f_equal. f_equal. lia.
  Qed.
End Part.

(* ---------- every legal digit string passes the check and decodes to the payload ---------- *)
Lemma digits_decode dbg p d : bytes_lt256 p -> a85_digits p d ->
  exists d', a85_check 0 0%N d = Some d' /\ a85_loop dbg d' 0 0%N = AOk p.
Proof.
  intros Hp H. induction H as [|b0 b1 b2 b3 p d _ IH|p d _ IH|b0|b0 b1|b0 b1 b2].
  - exists []. split; reflexivity.
  - inversion Hp as [|? ? B0 Hp1]; subst. inversion Hp1 as [|? ? B1 Hp2]; subst.
    inversion Hp2 as [|? ? B2 Hp3]; subst. inversion Hp3 as [|? ? B3 Hp4]; subst.
    destruct (IH Hp4) as [d' [C L]].
    pose proof (word_lt b0 b1 b2 b3 B0 B1 B2 B3) as Hw.
    destruct (group5_form _ Hw) as [d0 [d1 [d2 [d3 [d4 [-> [[D0 [D1 [D2 [D3 D4]]]] [E _]]]]]]]].
    exists ([33 + d0; 33 + d1; 33 + d2; 33 + d3; 33 + d4]%N ++ d'). split.
    + rewrite check_group by (try assumption; lia). rewrite C. reflexivity.
    + rewrite loop_group by (try assumption; lia). rewrite L, E. cbn [a85_cons].
      rewrite be4_word by assumption. reflexivity.
  - inversion Hp as [|? ? B0 Hp1]; subst. inversion Hp1 as [|? ? B1 Hp2]; subst.
    inversion Hp2 as [|? ? B2 Hp3]; subst. inversion Hp3 as [|? ? B3 Hp4]; subst.
    destruct (IH Hp4) as [d' [C L]].
    exists ([33; 33; 33; 33; 33]%N ++ d'). split.
    + cbn [a85_check N.eqb Pos.eqb Nat.eqb andb]. rewrite C. reflexivity.
    + change [33; 33; 33; 33; 33]%N with [33 + 0; 33 + 0; 33 + 0; 33 + 0; 33 + 0]%N.
      rewrite loop_group by lia. rewrite L. reflexivity.
  - inversion Hp as [|? ? B0 _]; subst.
    pose proof (word_lt b0 0 0 0 B0 ltac:(lia) ltac:(lia) ltac:(lia)) as Hw.
    destruct (group5_form _ Hw) as [d0 [d1 [d2 [d3 [d4 [-> [[D0 [D1 [D2 [D3 D4]]]] [E [E0 [E1 _]]]]]]]]]].
    destruct (pad1 b0 B0) as [PB PV]. cbv zeta in PB, PV. unfold word in *.
    cbn [firstn].
    assert (EP : (d0 * 52200625 + d1 * 614125 + 614124 = b0 * 16777216 / 614125 * 614125 + 614124)%N) by lia.
    exists [33 + d0; 33 + d1]%N. split.
    + apply check_part2; lia.
    + rewrite loop_part2 by lia. rewrite EP. unfold be4. cbn [firstn]. rewrite PV. reflexivity.
  - inversion Hp as [|? ? B0 Hp1]; subst. inversion Hp1 as [|? ? B1 _]; subst.
    pose proof (word_lt b0 b1 0 0 B0 B1 ltac:(lia) ltac:(lia)) as Hw.
    destruct (group5_form _ Hw) as [d0 [d1 [d2 [d3 [d4 [-> [[D0 [D1 [D2 [D3 D4]]]] [E [E0 [E1 [E2 _]]]]]]]]]]].
    destruct (pad2 (b0 * 256 + b1)%N ltac:(lia)) as [PB PV]. cbv zeta in PB, PV. unfold word in *.
    cbn [firstn].
    assert (EP : (d0 * 52200625 + d1 * 614125 + d2 * 7225 + 7224
                  = (b0 * 256 + b1) * 65536 / 7225 * 7225 + 7224)%N) by lia.
    exists [33 + d0; 33 + d1; 33 + d2]%N. split.
    + apply check_part3; lia.
    + rewrite loop_part3 by lia. rewrite EP. unfold be4. cbn [firstn].
      set (P := ((b0 * 256 + b1) * 65536 / 7225 * 7225 + 7224)%N) in *.
      assert (P / 16777216 = b0)%N by lia. assert ((P / 65536) mod 256 = b1)%N by lia. congruence.
  - inversion Hp as [|? ? B0 Hp1]; subst. inversion Hp1 as [|? ? B1 Hp2]; subst. inversion Hp2 as [|? ? B2 _]; subst.
    pose proof (word_lt b0 b1 b2 0 B0 B1 B2 ltac:(lia)) as Hw.
    destruct (group5_form _ Hw) as [d0 [d1 [d2 [d3 [d4 [-> [[D0 [D1 [D2 [D3 D4]]]] [E [E0 [E1 [E2 E3]]]]]]]]]]].
    destruct (pad3 (b0 * 65536 + b1 * 256 + b2)%N ltac:(lia)) as [PB PV]. cbv zeta in PB, PV. unfold word in *.
    cbn [firstn].
    assert (EP : (d0 * 52200625 + d1 * 614125 + d2 * 7225 + d3 * 85 + 84
                  = (b0 * 65536 + b1 * 256 + b2) * 256 / 85 * 85 + 84)%N) by lia.
    exists [33 + d0; 33 + d1; 33 + d2; 33 + d3]%N. split.
    + apply check_part4; lia.
    + rewrite loop_part4 by lia. rewrite EP. unfold be4. cbn [firstn].
      set (P := ((b0 * 65536 + b1 * 256 + b2) * 256 / 85 * 85 + 84)%N) in *.
      assert (P / 16777216 = b0)%N by lia. assert ((P / 65536) mod 256 = b1)%N by lia.
      assert ((P / 256) mod 256 = b2)%N by lia. congruence.
Qed.
