(* Proofs/TypeCheckSound.v — C08, layer (ii): the recursive memoising checker [eval_pair] decides
   the declarative reading [conforms_skip] (Spec/Conforms.v: [conforms_gen true], the reading in
   which dictionary / stream entries of type Any are not checked — known finding C08-any-entry),
   and with layer (i) (Proofs/TypeCheckRec.v) so does check_type's work loop. *)
From PV Require Import Spec.Conforms Proofs.TypeCheckEq Proofs.TypeCheckLoop Proofs.TypeCheckTerm
  Proofs.TypeCheckSim Proofs.TypeCheckRec.
From Coq Require Import Lia Arith.

Section Sound.
Variable opq : N -> obj -> bool.
Variable oc : octx.
Variable tc : tctx.

(* ---------- the value of a reference: the model's loop with a seen-set and the fuel-bounded
   reading of the specification agree ---------- *)
Inductive reaches : N * N -> nat -> obj -> Prop :=
| reach_val id o : octx_get oc id = Some o -> (forall n g, o <> ORef n g) -> reaches id 0 o
| reach_hop id n g j o : octx_get oc id = Some (ORef n g) -> reaches (n, g) j o -> reaches id (S j) o.

Fixpoint chain (id : N * N) (j : nat) : list (N * N) :=
  match j with
  | O => [id]
  | S j' => id :: match octx_get oc id with Some (ORef n g) => chain (n, g) j' | _ => [] end
  end.

Lemma reaches_det id j o : reaches id j o -> forall j' o', reaches id j' o' -> j = j' /\ o = o'.
Proof.
  induction 1 as [id o H Hn | id n g j o H _ IH]; intros j' o' R'; inversion R'; subst.
  - rewrite H in H0. inversion H0. auto.
  - rewrite H in H0. inversion H0. subst. exfalso. eapply Hn. reflexivity.
  - rewrite H in H0. inversion H0. subst. exfalso. eapply H1. reflexivity.
  - rewrite H in H0. inversion H0. subst. destruct (IH _ _ H1). auto.
Qed.

Lemma deref_nonref f o : (forall n g, o <> ORef n g) -> deref oc f o = o.
Proof. intros H. destruct f; destruct o; try reflexivity; exfalso; eapply H; reflexivity. Qed.

Lemma deref_reaches : forall f id j o, reaches id j o -> j < f -> deref oc f (ORef (fst id) (snd id)) = o.
Proof.
  induction f as [|f IH]; intros id j o R L; [lia|]. destruct id as [n g]. simpl.
  inversion R; subst.
  - rewrite H. apply deref_nonref. exact H0.
  - rewrite H. apply (IH (n0, g0) j0 o H0). lia.
Qed.

(* what the fuel-bounded reading returns: null, or the value reached *)
Lemma deref_result : forall f id, deref oc f (ORef (fst id) (snd id)) = ONull \/ exists j o, reaches id j o /\ deref oc f (ORef (fst id) (snd id)) = o.
Proof.
  induction f as [|f IH]; intros [n g]; simpl; [left; reflexivity|].
  destruct (octx_get oc (n, g)) as [o|] eqn:G; [|left; reflexivity].
  destruct o as [ | | | | | | | n' g' | | | ];
    try (right; eexists 0, _; split; [apply reach_val; [exact G | intros ? ?; discriminate] | apply deref_nonref; intros ? ?; discriminate]).
  destruct (IH (n', g')) as [H|(j & o & R & H)]; simpl in H.
  - left. exact H.
  - right. exists (S j), o. split; [eapply reach_hop; eauto | exact H].
Qed.

Lemma lookup_value_reaches : forall f seen id o, lookup_value oc f seen id = Some o -> exists j, reaches id j o.
Proof.
  induction f as [|f IH]; intros seen id o E; simpl in E; [discriminate|].
  destruct (existsb (id_eqb id) seen); [discriminate|].
  destruct (octx_get oc id) as [x|] eqn:G; [|discriminate].
  destruct x as [ | | | | | | | n' g' | | | ];
    try (inversion E; subst; exists 0; apply reach_val; [exact G | intros ? ?; discriminate]).
  destruct (IH _ _ _ E) as (j & R). exists (S j). eapply reach_hop; eauto.
Qed.

(* the identifiers along a chain that reaches a value are pairwise different keys of the context *)
Fixpoint ids_of (id : N * N) (j : nat) : list (N * N) :=
  id :: match j with
        | O => []
        | S j' => match octx_get oc id with Some (ORef n g) => ids_of (n, g) j' | _ => [] end
        end.

Lemma id_eqb_eq a b : id_eqb a b = true <-> a = b.
Proof.
  unfold id_eqb. destruct a as [a1 a2], b as [b1 b2]. simpl. rewrite andb_true_iff, !N.eqb_eq.
  split; [intros [-> ->]; reflexivity | intros H; inversion H; auto].
Qed.

Lemma reaches_suffix id j o : reaches id j o -> forall x, In x (ids_of id j) -> exists j', j' <= j /\ reaches x j' o.
Proof.
  induction 1 as [id o H Hn | id n g j o H R IH]; intros x Hx; simpl in Hx.
  - destruct Hx as [<-|[]]. exists 0. split; [lia|]. apply reach_val; assumption.
  - rewrite H in Hx. destruct Hx as [<-|Hx].
    + exists (S j). split; [lia|]. eapply reach_hop; eauto.
    + destruct (IH x Hx) as (j' & L & R'). exists j'. split; [lia|exact R'].
Qed.

Lemma reaches_nodup id j o : reaches id j o -> NoDup (ids_of id j).
Proof.
  induction 1 as [id o H Hn | id n g j o H R IH]; simpl.
  - constructor; [intros []|constructor].
  - rewrite H. constructor; [|exact IH].
    intros Hin. destruct (reaches_suffix _ _ _ R id Hin) as (j' & L & R').
    assert (R2 : reaches id (S j) o) by (eapply reach_hop; eauto).
    destruct (reaches_det _ _ _ R2 _ _ R'). lia.
Qed.

Lemma octx_get_key id o : octx_get oc id = Some o -> In id (List.map fst oc).
Proof.
  induction oc as [|[[n g] x] r IH]; simpl; [discriminate|].
  destruct (N.eqb n (fst id) && N.eqb g (snd id))%bool eqn:E.
  - intros _. left. apply andb_true_iff in E. destruct E as [E1 E2]. apply N.eqb_eq in E1, E2.
    destruct id. simpl in *. subst. reflexivity.
  - intros H. right. apply IH. exact H.
Qed.

Lemma reaches_keys id j o : reaches id j o -> forall x, In x (ids_of id j) -> In x (List.map fst oc).
Proof.
  induction 1 as [id o H Hn | id n g j o H R IH]; intros x Hx; simpl in Hx.
  - destruct Hx as [<-|[]]. eapply octx_get_key; eauto.
  - rewrite H in Hx. destruct Hx as [<-|Hx]; [eapply octx_get_key; eauto | apply IH; exact Hx].
Qed.

Lemma ids_of_len id j o : reaches id j o -> len (ids_of id j) = S j.
Proof.
  induction 1 as [id o H Hn | id n g j o H R IH]; simpl; [reflexivity|]. rewrite H. unfold len in *. simpl. rewrite IH. reflexivity.
Qed.

Lemma reaches_short id j o : reaches id j o -> S j <= len oc.
Proof.
  intros R. rewrite <- (ids_of_len _ _ _ R). unfold len.
  rewrite <- (map_length fst oc). apply NoDup_incl_length; [eapply reaches_nodup; eauto|].
  intros x Hx. eapply reaches_keys; eauto.
Qed.

Lemma lookup_value_of_reaches : forall f seen id j o, reaches id j o -> j < f ->
  (forall x, In x (ids_of id j) -> ~ In x seen) -> lookup_value oc f seen id = Some o.
Proof.
  induction f as [|f IH]; intros seen id j o R L Hs; [lia|]. simpl.
  assert (Hid : existsb (id_eqb id) seen = false).
  { destruct (existsb (id_eqb id) seen) eqn:E; [|reflexivity]. apply existsb_exists in E.
    destruct E as (x & Hx & E). apply id_eqb_eq in E. subst x. exfalso. apply (Hs id); [|exact Hx].
    destruct j; simpl; left; reflexivity. }
  rewrite Hid. pose proof (reaches_nodup _ _ _ R) as ND.
  inversion R; subst.
  - rewrite H. destruct o; try reflexivity. exfalso. eapply H0. reflexivity.
  - rewrite H. apply (IH _ _ j0 o H0); [lia|].
    intros x Hx [Hin|Hin].
    + subst x. simpl in ND. rewrite H in ND. inversion ND. contradiction.
    + apply (Hs x); [|exact Hin]. simpl. rewrite H. right. exact Hx.
Qed.

Theorem ref_value_eq n g : ref_value oc n g = value_of oc (ORef n g).
Proof.
  unfold ref_value, value_of.
  destruct (lookup_value oc (S (S (len oc))) [] (n, g)) as [o|] eqn:E.
  - destruct (lookup_value_reaches _ _ _ _ E) as (j & R). pose proof (reaches_short _ _ _ R).
    symmetry. apply (deref_reaches (S (len oc)) (n, g) j o R). lia.
  - destruct (deref_result (S (len oc)) (n, g)) as [H|(j & o & R & H)]; simpl in H; [symmetry; exact H|].
    pose proof (reaches_short _ _ _ R).
    rewrite (lookup_value_of_reaches (S (S (len oc))) [] (n, g) j o R ltac:(lia)) in E; [discriminate|].
    intros x _ [].
Qed.
End Sound.

(* ---------- the arms of the checker against one layer of the declarative reading ---------- *)
Section Arms.
Variable opq : N -> obj -> bool.
Variable oc : octx.
Variable tc : tctx.

Notation A1 := (approx1g opq oc tc true).
Notation expand := (expand opq oc tc).

Definition recp (rec : obj -> chk -> bool) (q : pend) : bool := rec (fst q) (snd q).

Lemma is_any_resolve c rc : resolve tc c = Some rc -> is_any tc c = match r_ty rc with TAny => true | _ => false end.
Proof. intros H. unfold is_any. rewrite H. reflexivity. Qed.

Lemma ents_okg_cons sk rec d e r :
  ents_okg tc sk rec d (e :: r) =
  (match dict_get d (ent_key e), ent_opt e with
   | None, KReq => false
   | None, _ => true
   | Some _, KForb => false
   | Some v, _ => if sk && is_any tc (ent_chk e) then true else rec v (ent_chk e)
   end && ents_okg tc sk rec d r)%bool.
Proof. reflexivity. Qed.

Lemma dict_ents_ok rec d : forall ents e cs, dict_ents tc d ents = Some (e, cs) ->
  ents_okg tc true rec d ents = match e with None => forallb (recp rec) cs | Some _ => false end.
Proof.
  induction ents as [|[k c opt] r IH]; intros e cs E; simpl in E.
  - inversion E. reflexivity.
  - destruct (resolve tc c) as [rc|] eqn:R; [|discriminate].
    rewrite ents_okg_cons. cbn [ent_key ent_opt ent_chk].
    rewrite (is_any_resolve c rc R). cbn [andb].
    destruct (dict_get d k) as [v|] eqn:G; destruct opt;
      try (inversion E; subst; reflexivity);
      try (simpl; apply IH; exact E).
    all: destruct (r_ty rc); try (simpl; apply IH; exact E);
         (destruct (dict_ents tc d r) as [[e' cs']|] eqn:E'; [|discriminate]; inversion E; subst;
          rewrite (IH _ _ eq_refl); destruct e; [rewrite andb_false_r; reflexivity | reflexivity]).
Qed.

Lemma stream_ents_ok rec d : forall ents e cs, stream_ents tc d ents = Some (e, cs) ->
  ents_okg tc true rec d ents = match e with None => forallb (recp rec) cs | Some _ => false end.
Proof.
  induction ents as [|[k c opt] r IH]; intros e cs E; simpl in E.
  - inversion E. reflexivity.
  - destruct (resolve tc c) as [rc|] eqn:R; [|discriminate].
    destruct (stream_ents tc d r) as [[e' cs']|] eqn:E'; [|discriminate].
    rewrite ents_okg_cons. cbn [ent_key ent_opt ent_chk].
    rewrite (is_any_resolve c rc R). cbn [andb]. rewrite (IH _ _ eq_refl).
    destruct (dict_get d k) as [v|] eqn:G; destruct opt;
      try (inversion E; subst; destruct e'; reflexivity).
    all: destruct (r_ty rc); inversion E; subst; simpl; destruct e; try reflexivity; rewrite andb_false_r; reflexivity.
Qed.

Lemma star_ents_ok rec ents sc sopt rs : resolve tc sc = Some rs ->
  forall d e cs, star_ents d (List.map ent_key ents) sc sopt (r_ty rs) = (e, cs) ->
  forallb (fun kv =>
      if existsb (bytes_eqb (fst kv)) (List.map ent_key ents) then true
      else match sopt with KForb => false | _ => if true && is_any tc sc then true else rec (snd kv) sc end) d
  = match e with None => forallb (recp rec) cs | Some _ => false end.
Proof.
  intros R. rewrite (is_any_resolve sc rs R). simpl andb.
  induction d as [|[k v] r IH]; intros e cs E; simpl in E.
  - inversion E. reflexivity.
  - simpl forallb. simpl fst. simpl snd.
    destruct (existsb (bytes_eqb k) (List.map ent_key ents)); [simpl; apply IH; exact E|].
    destruct sopt.
    + destruct (r_ty rs); try (simpl; apply IH; exact E);
        (destruct (star_ents r (List.map ent_key ents) sc KReq _) as [e' cs'] eqn:E'; inversion E; subst;
         rewrite (IH _ _ eq_refl); destruct e; [rewrite andb_false_r; reflexivity | reflexivity]).
    + destruct (r_ty rs); try (simpl; apply IH; exact E);
        (destruct (star_ents r (List.map ent_key ents) sc KOpt _) as [e' cs'] eqn:E'; inversion E; subst;
         rewrite (IH _ _ eq_refl); destruct e; [rewrite andb_false_r; reflexivity | reflexivity]).
    + inversion E. reflexivity.
Qed.

Lemma check_pred_ok o p : check_pred opq o p = None <-> pred_ok opq p o = true.
Proof. unfold check_pred, pred_ok. destruct p as [f|]; [|tauto]. destruct (pred_eval opq f o); split; intros H; try reflexivity; discriminate. Qed.

Lemma forallb_map' {X Y} (f : Y -> bool) (g : X -> Y) l : forallb f (List.map g l) = forallb (fun x => f (g x)) l.
Proof. induction l as [|x l IH]; simpl; [reflexivity|]. rewrite IH. reflexivity. Qed.

Lemma forallb2_combine {X Y} (f : X -> Y -> bool) : forall l m, List.length l = List.length m ->
  forallb2 f l m = forallb (fun q => f (fst q) (snd q)) (combine l m).
Proof.
  induction l as [|x l IH]; intros [|y m] H; simpl in *; try reflexivity; try discriminate.
  rewrite IH by lia. reflexivity.
Qed.
Lemma forallb2_len {X Y} (f : X -> Y -> bool) : forall l m, List.length l <> List.length m -> forallb2 f l m = false.
Proof.
  induction l as [|x l IH]; intros [|y m] H; simpl in *; try reflexivity; try congruence.
  rewrite IH by lia. apply andb_false_r.
Qed.

(* checks that resolve to plain Any are satisfied by everything: the checker may skip them *)
Definition plain_any_ok (rec : obj -> chk -> bool) : Prop :=
  forall x e re, resolve tc e = Some re -> r_ty re = TAny -> no_attrs re = true -> rec x e = true.

Lemma expand_spec rec o tcx c : resolve tc tcx = Some c -> (forall alts, r_ty c <> TDisj alts) ->
  plain_any_ok rec ->
  match expand o c with
  | XFail _ => A1 rec o tcx = false
  | XRef q => A1 rec o tcx = recp rec q
  | XKids cs => A1 rec o tcx = forallb (recp rec) cs
  | XStop _ => True
  end.
Proof.
  intros R Hnd HA. unfold approx1g. rewrite R. unfold TypeCheckSim.expand, of_pred.
  destruct c as [[t p] i]. cbn [r_ty r_pred r_ind fst snd] in *.
  assert (HP : forall ob (k : xres) (b : bool),
            (match k with XFail _ => b = false | XRef q => b = recp rec q | XKids cs => b = forallb (recp rec) cs | XStop _ => True end) ->
            match (match check_pred opq ob p with Some e => XFail e | None => k end) with
            | XFail _ => pred_ok opq p ob && b = false
            | XRef q => pred_ok opq p ob && b = recp rec q
            | XKids cs => pred_ok opq p ob && b = forallb (recp rec) cs
            | XStop _ => True
            end).
  { intros ob k b Hk. destruct (check_pred opq ob p) as [e|] eqn:CP.
    - assert (pred_ok opq p ob = false).
      { destruct (pred_ok opq p ob) eqn:PO; [|reflexivity]. apply check_pred_ok in PO. congruence. }
      rewrite H. reflexivity.
    - apply check_pred_ok in CP. rewrite CP. simpl. exact Hk. }
  destruct o as [ | b | z | n d | s | s | s | n g | l | d | d content].
  (* references *)
  8:{ destruct t; try (exfalso; eapply Hnd; reflexivity); destruct i; cbn [ispec_eqb negb andb];
      try reflexivity; unfold recp; cbn [fst snd]; rewrite ref_value_eq; reflexivity. }
  (* direct objects: Required fails *)
  all: destruct i; cbn [ispec_eqb negb andb]; try (destruct t; try reflexivity; exfalso; eapply Hnd; reflexivity).
  all: destruct t as [ | p' | e sz | es | ents star | ents | alts]; try (exfalso; eapply Hnd; reflexivity);
       cbn [type_okg];
       try (apply (HP _ (XKids []) true); reflexivity);
       try (destruct (prim_match _ p'); [apply (HP _ (XKids []) true); reflexivity | apply andb_false_r]);
       try apply andb_false_r.
  (* Array *)
  1,3: (destruct sz as [nn|];
        [ destruct (Nat.eqb (len l) nn); cbn [negb andb]; [|apply andb_false_r] | cbn [andb] ];
        (destruct (resolve tc e) as [re|] eqn:RE; [|exact I];
         destruct (match r_ty re with TAny => no_attrs re | _ => false end) eqn:EA;
         [ apply (HP _ (XKids []));
           simpl; apply forallb_forall; intros x _; destruct (r_ty re) eqn:ET; try discriminate EA; eapply HA; eauto
         | apply (HP _ (XKids (List.map (fun x => (x, e)) l)));
           rewrite forallb_map'; reflexivity ])).
  (* HetArray *)
  1,2: (destruct (Nat.eqb (len l) (len es)) eqn:EL; cbn [negb];
        [ apply Nat.eqb_eq in EL; apply (HP _ (XKids (combine l es))); apply forallb2_combine; exact EL
        | apply Nat.eqb_neq in EL; rewrite forallb2_len by exact EL; apply andb_false_r ]).
  (* Dict *)
  1,2: (apply (HP (ODict d));
        destruct (dict_ents tc d ents) as [[[e|] cs]|] eqn:DE; [| |exact I];
        rewrite (dict_ents_ok rec d ents _ _ DE); [reflexivity|];
        destruct star as [[sc sopt]|]; cbn [star_okg]; [|apply andb_true_r];
        destruct (resolve tc sc) as [rs|] eqn:RS; [|exact I];
        destruct (star_ents d (List.map ent_key ents) sc sopt (r_ty rs)) as [[e|] cs2] eqn:SE;
        rewrite (star_ents_ok rec ents sc sopt rs RS d _ _ SE);
        [apply andb_false_r | rewrite forallb_app; reflexivity]).
  (* Stream *)
  1,2: (apply (HP (OStream d content));
        destruct (stream_ents tc d ents) as [[[e|] cs]|] eqn:DE; [| |exact I];
        rewrite (stream_ents_ok rec d ents _ _ DE); reflexivity).
Qed.
End Arms.

(* ---------- basic facts about the approximants ---------- *)
Section Approx.
Variable opq : N -> obj -> bool.
Variable oc : octx.
Variable tc : tctx.
Variable sk : bool.

Notation A := (approxg opq oc tc sk).
Notation A1 := (approx1g opq oc tc sk).

Lemma forallb_mono {X} (f g : X -> bool) l : (forall x, f x = true -> g x = true) -> forallb f l = true -> forallb g l = true.
Proof. intros H. induction l as [|x l IH]; simpl; [auto|]. rewrite !andb_true_iff. intros [A1 A2]. auto. Qed.
Lemma existsb_mono {X} (f g : X -> bool) l : (forall x, f x = true -> g x = true) -> existsb f l = true -> existsb g l = true.
Proof. intros H. induction l as [|x l IH]; simpl; [auto|]. rewrite !orb_true_iff. intros [A1|A2]; auto. Qed.
Lemma forallb2_mono {X Y} (f g : X -> Y -> bool) : (forall x y, f x y = true -> g x y = true) ->
  forall l m, forallb2 f l m = true -> forallb2 g l m = true.
Proof. intros H. induction l as [|x l IH]; intros [|y m]; simpl; auto. rewrite !andb_true_iff. intros [A1 A2]. auto. Qed.

Lemma forallb2_mono_in {X Y} (f g : X -> Y -> bool) : forall l m,
  (forall x y, In y m -> f x y = true -> g x y = true) -> forallb2 f l m = true -> forallb2 g l m = true.
Proof.
  induction l as [|x l IH]; intros [|y m] H; simpl; auto. rewrite !andb_true_iff. intros [A1 A2]. split.
  - apply H; [left; reflexivity|exact A1].
  - apply IH; [|exact A2]. intros x' y' Hy'. apply H. right. exact Hy'.
Qed.

Lemma approx1g_mono (rec rec' : obj -> chk -> bool) : (forall o c, rec o c = true -> rec' o c = true) ->
  forall o c, A1 rec o c = true -> A1 rec' o c = true.
Proof.
  intros H o c. unfold approx1g. destruct (resolve tc c) as [r|]; [|auto].
  assert (HE : forall d ents, ents_okg tc sk rec d ents = true -> ents_okg tc sk rec' d ents = true).
  { intros d ents. unfold ents_okg. apply forallb_mono. intros e.
    destruct (dict_get d (ent_key e)); destruct (ent_opt e); auto; destruct (sk && is_any tc (ent_chk e))%bool; auto. }
  assert (HS : forall d ents star, star_okg tc sk rec d ents star = true -> star_okg tc sk rec' d ents star = true).
  { intros d ents [[sc so]|]; [|auto]. unfold star_okg. apply forallb_mono. intros kv.
    destruct (existsb (bytes_eqb (fst kv)) (List.map ent_key ents)); [auto|].
    destruct so; auto; destruct (sk && is_any tc sc)%bool; auto. }
  assert (HT : forall t, type_okg tc sk rec o t = true -> type_okg tc sk rec' o t = true).
  { intros t. destruct t; destruct o; simpl; auto; rewrite ?andb_true_iff;
      try (intros [B1 B2]; split;
           [ first [exact B1 | apply HE; exact B1]
           | first [eapply forallb_mono; [|exact B2]; intros x; apply H | apply HS; exact B2] ]);
      try (apply forallb2_mono; exact H); try (apply HE). }
  destruct (r_ty r) eqn:ET;
    try (destruct o; rewrite ?andb_true_iff; try (intros [[B1 B2] B3]; repeat split; auto);
         try (intros [B1 B2]; split; auto)).
  all: try (rewrite <- ET; apply HT; rewrite ET; assumption).
  all: try (eapply existsb_mono; [|eassumption]; intros x; apply H).
Qed.

Lemma A_mono : forall n o c, A (S n) o c = true -> A n o c = true.
Proof.
  induction n as [|n IH]; intros o c H; [reflexivity|].
  simpl in *. eapply approx1g_mono; [|exact H]. intros o' c'. apply IH.
Qed.

Lemma A_le n m o c : n <= m -> A m o c = true -> A n o c = true.
Proof. induction 1 as [|m L IH]; [auto|]. intros H. apply IH. apply A_mono. exact H. Qed.

Lemma A_false_le n m o c : n <= m -> A n o c = false -> A m o c = false.
Proof. intros L H. destruct (A m o c) eqn:E; [|reflexivity]. rewrite (A_le n m o c L E) in H. discriminate. Qed.

(* a check and the representation it resolves to are the same check *)
Lemma A_resolve n o c r : resolve tc c = Some r -> A n o c = A n o (rep_chk r).
Proof.
  intros R. destruct n; [reflexivity|]. simpl. unfold approx1g. rewrite R.
  destruct r as [[t p] i]. reflexivity.
Qed.

(* everything conforms to a check that resolves to plain Any *)
Lemma A_plain_any : forall n x e re, resolve tc e = Some re -> r_ty re = TAny -> no_attrs re = true -> A n x e = true.
Proof.
  induction n as [|n IH]; intros x e re R T NA; [reflexivity|].
  simpl. unfold approx1g. rewrite R, T.
  destruct re as [[t p] i]. unfold no_attrs in NA. cbn [r_ty r_pred r_ind fst snd] in *. subst t.
  destruct p; [discriminate|]. destruct i; try discriminate.
  assert (HR : forall y, A n y (allow_indirect (TAny, None, IAllowed)) = true).
  { intros y. apply (IH y _ (TAny, None, IAllowed)); reflexivity. }
  destruct x; simpl; try reflexivity. apply HR.
Qed.

Lemma plain_any_A n : plain_any_ok tc (A n).
Proof. intros x e re R T NA. eapply A_plain_any; eauto. Qed.
End Approx.

(* ---------- the recursive checker decides the reading ---------- *)
Section Decide.
Variable opq : N -> obj -> bool.
Variable oc : octx.
Variable tc : tctx.

Notation A := (approxg opq oc tc true).
Notation A1 := (approx1g opq oc tc true).
Notation expand := (expand opq oc tc).
Notation ep := (eval_pair opq oc tc).

Definition conf (p : pend) : Prop := forall n, A n (fst p) (snd p) = true.
Lemma A_S n o c : A (S n) o c = A1 (A n) o c.
Proof. reflexivity. Qed.

(* --- one-step facts --- *)
Lemma conf_fail o tcx c xe : resolve tc tcx = Some c -> (forall alts, r_ty c <> TDisj alts) ->
  expand o c = XFail xe -> ~ conf (o, tcx).
Proof.
  intros R Hnd E H. specialize (H 1). simpl fst in H. simpl snd in H. rewrite A_S in H.
  pose proof (expand_spec opq oc tc (A 0) o tcx c R Hnd (plain_any_A opq oc tc true 0)) as S. rewrite E in S. congruence.
Qed.

Lemma conf_ref o tcx c q : resolve tc tcx = Some c -> (forall alts, r_ty c <> TDisj alts) ->
  expand o c = XRef q -> (conf (o, tcx) <-> conf q).
Proof.
  intros R Hnd E.
  assert (HS : forall n, A (S n) o tcx = A n (fst q) (snd q)).
  { intros n. rewrite A_S.
    pose proof (expand_spec opq oc tc (A n) o tcx c R Hnd (plain_any_A opq oc tc true n)) as S. rewrite E in S. exact S. }
  split; intros H n.
  - rewrite <- HS. apply (H (S n)).
  - destruct n; [reflexivity|]. simpl fst. simpl snd. rewrite HS. apply H.
Qed.

Lemma conf_kids o tcx c cs : resolve tc tcx = Some c -> (forall alts, r_ty c <> TDisj alts) ->
  expand o c = XKids cs -> (conf (o, tcx) <-> forall q, In q cs -> conf q).
Proof.
  intros R Hnd E.
  assert (HS : forall n, A (S n) o tcx = forallb (recp (A n)) cs).
  { intros n. rewrite A_S.
    pose proof (expand_spec opq oc tc (A n) o tcx c R Hnd (plain_any_A opq oc tc true n)) as S. rewrite E in S. exact S. }
  split.
  - intros H q Hq n. specialize (H (S n)). simpl fst in H. simpl snd in H. rewrite HS in H.
    rewrite forallb_forall in H. apply (H q Hq).
  - intros H n. destruct n; [reflexivity|]. simpl fst. simpl snd. rewrite HS. apply forallb_forall.
    intros q Hq. apply (H q Hq).
Qed.

Lemma A_disj n o tcx c alts : resolve tc tcx = Some c -> r_ty c = TDisj alts ->
  A (S n) o tcx = (A n o (CRep TAny (r_pred c) (r_ind c)) && existsb (A n o) alts)%bool.
Proof. intros R T. rewrite A_S. unfold approx1g. rewrite R, T. reflexivity. Qed.

(* the own-attribute check of a disjunct, as the list of checks the machine makes *)
Lemma conf_own o p i : (forall q, In q (own_check o p i) -> conf q) -> conf (o, CRep TAny p i).
Proof.
  unfold own_check. destruct p as [f|].
  - intros H. apply H. destruct i; left; reflexivity.
  - destruct i; try (intros H; apply H; left; reflexivity).
    intros _ n. apply (A_plain_any opq oc tc true n o _ (TAny, None, IAllowed)); reflexivity.
Qed.

Lemma own_conf o p i q : conf (o, CRep TAny p i) -> In q (own_check o p i) -> conf q.
Proof. unfold own_check. destruct p, i; simpl; intros H Hq; try destruct Hq as [<-|[]]; try exact H; destruct Hq. Qed.

(* a constructive refutation: some finite unfolding exposes a mismatch *)
Definition nconf (p : pend) : Prop := exists n, A n (fst p) (snd p) = false.
Definition flsound (fl : list pend) : Prop := forall f, In f fl -> nconf f.

Lemma nconf_not_conf p : nconf p -> ~ conf p.
Proof. intros (n & H) C. rewrite (C n) in H. discriminate. Qed.

Lemma nconf_fail o tcx c xe : resolve tc tcx = Some c -> (forall alts, r_ty c <> TDisj alts) ->
  expand o c = XFail xe -> nconf (o, tcx).
Proof.
  intros R Hnd E. exists 1. simpl fst. simpl snd. rewrite A_S.
  pose proof (expand_spec opq oc tc (A 0) o tcx c R Hnd (plain_any_A opq oc tc true 0)) as S. rewrite E in S. exact S.
Qed.

Lemma nconf_ref o tcx c q : resolve tc tcx = Some c -> (forall alts, r_ty c <> TDisj alts) ->
  expand o c = XRef q -> nconf q -> nconf (o, tcx).
Proof.
  intros R Hnd E (n & H). exists (S n). simpl fst. simpl snd. rewrite A_S.
  pose proof (expand_spec opq oc tc (A n) o tcx c R Hnd (plain_any_A opq oc tc true n)) as S. rewrite E in S.
  rewrite S. exact H.
Qed.

Lemma nconf_kids o tcx c cs q : resolve tc tcx = Some c -> (forall alts, r_ty c <> TDisj alts) ->
  expand o c = XKids cs -> In q cs -> nconf q -> nconf (o, tcx).
Proof.
  intros R Hnd E Hq (n & H). exists (S n). simpl fst. simpl snd. rewrite A_S.
  pose proof (expand_spec opq oc tc (A n) o tcx c R Hnd (plain_any_A opq oc tc true n)) as S. rewrite E in S.
  rewrite S. destruct (forallb (recp (A n)) cs) eqn:F; [|reflexivity].
  rewrite forallb_forall in F. specialize (F q Hq). unfold recp in F. congruence.
Qed.

(* all alternatives refuted => the disjunct refuted *)
Lemma all_false_level o : forall alts, (forall a, In a alts -> nconf (o, a)) ->
  exists N, forall a, In a alts -> A N o a = false.
Proof.
  induction alts as [|a alts IH]; intros H; [exists 0; intros a []|].
  destruct IH as (N & HN); [intros a' Ha'; apply H; right; exact Ha'|].
  destruct (H a (or_introl eq_refl)) as (n & Hn). simpl in Hn.
  exists (Nat.max N n). intros a' [<-|Ha'].
  - eapply A_false_le; [|exact Hn]. lia.
  - eapply A_false_le; [|apply HN; exact Ha']. lia.
Qed.

Lemma nconf_disj_alts o tcx c alts : resolve tc tcx = Some c -> r_ty c = TDisj alts ->
  (forall a, In a alts -> nconf (o, a)) -> nconf (o, tcx).
Proof.
  intros R T H. destruct (all_false_level o alts H) as (N & HN). exists (S N). simpl fst. simpl snd.
  rewrite (A_disj N o tcx c alts R T).
  assert (existsb (A N o) alts = false).
  { destruct (existsb (A N o) alts) eqn:E; [|reflexivity]. apply existsb_exists in E. destruct E as (a & Ha & Ea).
    rewrite (HN a Ha) in Ea. discriminate. }
  rewrite H0. apply andb_false_r.
Qed.

Lemma nconf_disj_own o tcx c alts q : resolve tc tcx = Some c -> r_ty c = TDisj alts ->
  In q (own_check o (r_pred c) (r_ind c)) -> nconf q -> nconf (o, tcx).
Proof.
  intros R T Hq (n & H). exists (S n). simpl fst. simpl snd. rewrite (A_disj n o tcx c alts R T).
  assert (q = (o, CRep TAny (r_pred c) (r_ind c))).
  { unfold own_check in Hq. destruct (r_pred c), (r_ind c); simpl in Hq; try destruct Hq as [<-|[]]; try reflexivity; destruct Hq. }
  subst q. simpl in H. rewrite H. reflexivity.
Qed.

(* --- failure answers are genuine --- *)
Definition fs_res (p_ref : Prop) (r : eres) : Prop :=
  match r with
  | EOk _ fl' => flsound fl'
  | EFail _ fl' => p_ref /\ flsound fl'
  | _ => True
  end.

Section FS.
Variable e0 : pend -> list pend -> list pend -> eres.
Hypothesis e0_fs : forall p ex fl, flsound fl -> fs_res (nconf p) (e0 p ex fl).

Lemma ev_plain_fs : forall l ex fl, flsound fl -> fs_res (exists q, In q l /\ nconf q) (ev_plain e0 l ex fl).
Proof.
  induction l as [|q r IH]; intros ex fl H; simpl; [exact H|].
  pose proof (e0_fs q ex fl H) as Hq. destruct (e0 q ex fl) as [ex' fl'|ex' fl'|x|]; simpl in *; try exact I.
  - specialize (IH ex' fl' Hq). destruct (ev_plain e0 r ex' fl') as [ex2 fl2|ex2 fl2|x|]; simpl in *; try exact I; try exact IH.
    destruct IH as ((q' & Hin & Hn) & F). split; [exists q'; split; [right; exact Hin|exact Hn]|exact F].
  - destruct Hq as [Hn F]. split; [exists q; split; [left; reflexivity|exact Hn]|exact F].
Qed.

Lemma ev_alts_fs o : forall rem base fl, flsound fl ->
  fs_res (forall a, In a rem -> nconf (o, a)) (ev_alts e0 o rem base fl).
Proof.
  induction rem as [|a r IH]; intros base fl H; simpl; [split; [intros a []|exact H]|].
  pose proof (e0_fs (o, a) base fl H) as Ha. destruct (e0 (o, a) base fl) as [ex' fl'|ex' fl'|x|]; simpl in *; try exact I.
  - exact Ha.
  - destruct Ha as [Hn F].
    assert (F' : flsound ((o, a) :: fl')) by (intros f [<-|Hf]; [exact Hn | apply F; exact Hf]).
    specialize (IH base _ F'). destruct (ev_alts e0 o r base ((o, a) :: fl')) as [ex2 fl2|ex2 fl2|x|]; simpl in *; try exact I; try exact IH.
    destruct IH as [Hr F2]. split; [|exact F2]. intros a' [<-|Ha']; [exact Hn | apply Hr; exact Ha'].
Qed.

Lemma ev_elem_fs q ex fl : flsound fl -> fs_res (nconf q) (ev_elem e0 q ex fl).
Proof.
  intros H. unfold ev_elem. destruct q as [o tcx]. simpl snd. simpl fst.
  destruct tcx as [t p i|nm]; [|apply e0_fs; exact H].
  destruct t as [ | p' | e sz | es | ents star | ents | alts]; try (apply e0_fs; exact H).
  destruct alts as [|a alts]; [apply e0_fs; exact H|].
  pose proof (ev_alts_fs o (a :: alts) ex fl H) as HA.
  destruct (ev_alts e0 o (a :: alts) ex fl) as [ex' fl'|ex' fl'|x|]; simpl in *; try exact I.
  - pose proof (ev_plain_fs (own_check o p i) ex' fl' HA) as HP.
    destruct (ev_plain e0 (own_check o p i) ex' fl') as [ex2 fl2|ex2 fl2|x|]; simpl in *; try exact I; try exact HP.
    destruct HP as ((q & Hin & Hn) & F). split; [|exact F].
    eapply (nconf_disj_own o (CRep (TDisj (a :: alts)) p i) (TDisj (a :: alts), p, i)); [reflexivity | reflexivity | exact Hin | exact Hn].
  - destruct HA as [Hr F]. split; [|exact F].
    eapply (nconf_disj_alts o (CRep (TDisj (a :: alts)) p i) (TDisj (a :: alts), p, i)); [reflexivity | reflexivity | exact Hr].
Qed.

Lemma ev_set_fs : forall l ex fl, flsound fl -> fs_res (exists q, In q l /\ nconf q) (ev_set e0 l ex fl).
Proof.
  induction l as [|q r IH]; intros ex fl H; simpl; [exact H|].
  pose proof (ev_elem_fs q ex fl H) as Hq. destruct (ev_elem e0 q ex fl) as [ex' fl'|ex' fl'|x|]; simpl in *; try exact I.
  - specialize (IH ex' fl' Hq). destruct (ev_set e0 r ex' fl') as [ex2 fl2|ex2 fl2|x|]; simpl in *; try exact I; try exact IH.
    destruct IH as ((q' & Hin & Hn) & F). split; [exists q'; split; [right; exact Hin|exact Hn]|exact F].
  - destruct Hq as [Hn F]. split; [exists q; split; [left; reflexivity|exact Hn]|exact F].
Qed.
End FS.

Lemma nconf_resolve o tcx c : resolve tc tcx = Some c -> nconf (o, rep_chk c) -> nconf (o, tcx).
Proof. intros R (n & H). exists n. simpl in *. rewrite (A_resolve opq oc tc true n o tcx c R). exact H. Qed.

Theorem eval_pair_fs : forall n p ex fl, flsound fl -> fs_res (nconf p) (ep n p ex fl).
Proof.
  induction n as [|n IH]; intros p ex fl H; [exact I|]. cbn [eval_pair]. destruct p as [o tcx]. cbn [fst snd].
  destruct (resolve tc tcx) as [c|] eqn:R; [|exact I].
  destruct (have_examined fl (o, tcx)) eqn:HF.
  { simpl. split; [|exact H]. apply H. apply have_examined_in. exact HF. }
  destruct (have_examined ex (o, tcx)); [exact H|]. cbv zeta.
  destruct (r_ty c) as [ | p' | e sz | es | ents star | ents | alts] eqn:Ety.
  7:{ destruct alts as [|a0 alts0].
      { simpl. split; [|exact H]. eapply (nconf_disj_alts o tcx c []); [exact R | exact Ety | intros a []]. }
      pose proof (ev_set_fs (ep n) IH [(o, rep_chk c)] ((o, tcx) :: ex) fl H) as HS.
      match goal with |- fs_res _ ?X => change X with (ev_set (ep n) [(o, rep_chk c)] ((o, tcx) :: ex) fl) end.
      destruct (ev_set (ep n) [(o, rep_chk c)] ((o, tcx) :: ex) fl) as [ex2 fl2|ex2 fl2|x|]; simpl in *; try exact I; try exact HS.
      destruct HS as ((q & [<-|[]] & Hn) & F). split; [eapply nconf_resolve; eauto | exact F]. }
  all: (assert (Hnd : forall alts, r_ty c <> TDisj alts) by (intros alts; rewrite Ety; discriminate);
        destruct (expand o c) as [xe|xx|xq|xcs] eqn:EX;
        [ simpl; split; [eapply nconf_fail; eauto | exact H]
        | exact I
        | match goal with |- fs_res _ ?X =>
            assert (HQ : fs_res (nconf xq) X) by (apply IH; exact H);
            destruct X as [ex2 fl2|ex2 fl2|x|]
          end; simpl in *; try exact I; try exact HQ;
          destruct HQ as [Hn F]; split; [eapply nconf_ref; eauto | exact F]
        | match goal with |- fs_res _ (ev_set _ ?L ?E _) =>
            pose proof (ev_set_fs (ep n) IH L E fl H) as HS;
            destruct (ev_set (ep n) L E fl) as [ex2 fl2|ex2 fl2|x|]
          end; simpl in *; try exact I; try exact HS;
          destruct HS as ((q & Hin & Hn) & F); split; [|exact F];
          apply filter_In in Hin; destruct Hin as [Hin _]; eapply nconf_kids; eauto ]).
Qed.

(* --- success answers are genuine --- *)
(* a disjunct on [o] is settled in the memo [E]: its own-attribute checks and one alternative are there *)
Definition dis_ok (E : list pend) (o : obj) (alts : list chk) (p : option pred) (i : ispec) : Prop :=
  (forall q, In q (own_check o p i) -> In q E) /\ exists a, In a alts /\ In (o, a) E.
(* an element of a pending set is settled *)
Definition elem_ok (E : list pend) (q : pend) : Prop :=
  match snd q with
  | CRep (TDisj (a :: alts)) p i => dis_ok E (fst q) (a :: alts) p i
  | _ => In q E                      (* a disjunct without options is handed to the work loop like a plain check *)
  end.
(* an examined pair is justified by the memo *)
Definition step_ok (E : list pend) (q : pend) : Prop :=
  exists c, resolve tc (snd q) = Some c /\
  match r_ty c with
  | TDisj alts => dis_ok E (fst q) alts (r_pred c) (r_ind c)
  | _ => match expand (fst q) c with
         | XFail _ => False
         | XStop _ => False
         | XRef x => In x E
         | XKids cs => forall x, In x cs -> elem_ok E x \/ In x E
         end
  end.
(* every examined pair is justified, except the ones still in progress *)
Definition closed (E H : list pend) : Prop := forall q, In q E -> In q H \/ step_ok E q.

Lemma dis_ok_mono E E' o alts p i : incl E E' -> dis_ok E o alts p i -> dis_ok E' o alts p i.
Proof. intros I [A (a & B & C)]. split; [intros q Hq; apply I; apply A; exact Hq | exists a; split; [exact B | apply I; exact C]]. Qed.
Lemma elem_ok_mono E E' q : incl E E' -> elem_ok E q -> elem_ok E' q.
Proof.
  intros I. unfold elem_ok. destruct (snd q) as [t p i|nm]; [|apply I].
  destruct t; try apply I. destruct alts; [apply I|]. apply dis_ok_mono. exact I.
Qed.
Lemma step_ok_mono E E' q : incl E E' -> step_ok E q -> step_ok E' q.
Proof.
  intros I (c & R & H). exists c. split; [exact R|].
  destruct (r_ty c); try (destruct (expand (fst q) c) as [xe|xx|xq|xcs]; auto;
                          intros x Hx; destruct (H x Hx); [left; eapply elem_ok_mono; eauto | right; apply I; assumption]).
  eapply dis_ok_mono; eauto.
Qed.
Lemma closed_mono E H H' : closed E H -> incl H H' -> closed E H'.
Proof. intros C I q Hq. destruct (C q Hq); [left; apply I; assumption | right; assumption]. Qed.

Definition ok_res (ex H : list pend) (P : list pend -> Prop) (r : eres) : Prop :=
  match r with
  | EOk ex' _ => closed ex' H /\ incl ex ex' /\ P ex'
  | _ => True
  end.

Section OK.
Variable e0 : pend -> list pend -> list pend -> eres.
Hypothesis e0_ok : forall p ex fl H, closed ex H -> ok_res ex H (fun E => In p E) (e0 p ex fl).

Lemma ev_plain_ok : forall l ex fl H, closed ex H ->
  ok_res ex H (fun E => forall q, In q l -> In q E) (ev_plain e0 l ex fl).
Proof.
  induction l as [|q r IH]; intros ex fl H C; simpl.
  - split; [exact C|]. split; [apply incl_refl | intros q []].
  - pose proof (e0_ok q ex fl H C) as Hq. destruct (e0 q ex fl) as [ex1 fl1|ex1 fl1|x|]; simpl in *; try exact I.
    destruct Hq as (C1 & I1 & P1). specialize (IH ex1 fl1 H C1).
    destruct (ev_plain e0 r ex1 fl1) as [ex2 fl2|ex2 fl2|x|]; simpl in *; try exact I.
    destruct IH as (C2 & I2 & P2). split; [exact C2|]. split; [eapply incl_tran; eauto|].
    intros q' [<-|Hq']; [apply I2; exact P1 | apply P2; exact Hq'].
Qed.

Lemma ev_alts_ok o : forall rem base fl H, closed base H ->
  ok_res base H (fun E => exists a, In a rem /\ In (o, a) E) (ev_alts e0 o rem base fl).
Proof.
  induction rem as [|a r IH]; intros base fl H C; simpl; [exact I|].
  pose proof (e0_ok (o, a) base fl H C) as Ha. destruct (e0 (o, a) base fl) as [ex1 fl1|ex1 fl1|x|]; simpl in *; try exact I.
  - destruct Ha as (C1 & I1 & P1). split; [exact C1|]. split; [exact I1|]. exists a. split; [left; reflexivity|exact P1].
  - specialize (IH base ((o, a) :: fl1) H C).
    destruct (ev_alts e0 o r base ((o, a) :: fl1)) as [ex2 fl2|ex2 fl2|x|]; simpl in *; try exact I.
    destruct IH as (C2 & I2 & (a' & Ha' & P2)). split; [exact C2|]. split; [exact I2|]. exists a'. split; [right; exact Ha'|exact P2].
Qed.

Lemma ev_elem_ok q ex fl H : closed ex H -> ok_res ex H (fun E => elem_ok E q) (ev_elem e0 q ex fl).
Proof.
  intros C. unfold ev_elem, elem_ok. destruct q as [o tcx]. simpl snd. simpl fst.
  destruct tcx as [t p i|nm]; [|apply e0_ok; exact C].
  destruct t as [ | p' | e sz | es | ents star | ents | alts]; try (apply e0_ok; exact C).
  destruct alts as [|a alts]; [apply e0_ok; exact C|].
  pose proof (ev_alts_ok o (a :: alts) ex fl H C) as HA.
  destruct (ev_alts e0 o (a :: alts) ex fl) as [ex1 fl1|ex1 fl1|x|]; simpl in *; try exact I.
  destruct HA as (C1 & I1 & (a' & Ha' & P1)).
  pose proof (ev_plain_ok (own_check o p i) ex1 fl1 H C1) as HP.
  destruct (ev_plain e0 (own_check o p i) ex1 fl1) as [ex2 fl2|ex2 fl2|x|]; simpl in *; try exact I.
  destruct HP as (C2 & I2 & P2). split; [exact C2|]. split; [eapply incl_tran; eauto|].
  split; [exact P2|]. exists a'. split; [exact Ha' | apply I2; exact P1].
Qed.

Lemma ev_set_ok : forall l ex fl H, closed ex H ->
  ok_res ex H (fun E => forall q, In q l -> elem_ok E q) (ev_set e0 l ex fl).
Proof.
  induction l as [|q r IH]; intros ex fl H C; simpl.
  - split; [exact C|]. split; [apply incl_refl | intros q []].
  - pose proof (ev_elem_ok q ex fl H C) as Hq. destruct (ev_elem e0 q ex fl) as [ex1 fl1|ex1 fl1|x|]; simpl in *; try exact I.
    destruct Hq as (C1 & I1 & P1). specialize (IH ex1 fl1 H C1).
    destruct (ev_set e0 r ex1 fl1) as [ex2 fl2|ex2 fl2|x|]; simpl in *; try exact I.
    destruct IH as (C2 & I2 & P2). split; [exact C2|]. split; [eapply incl_tran; eauto|].
    intros q' [<-|Hq']; [eapply elem_ok_mono; eauto | apply P2; exact Hq'].
Qed.
End OK.

(* the pair just put on the trail is in progress; once its obligations are settled it is justified *)
Lemma closed_open p ex H : closed ex H -> closed (p :: ex) (p :: H).
Proof.
  intros C q [<-|Hq]; [left; left; reflexivity|].
  destruct (C q Hq) as [A|A]; [left; right; exact A | right; eapply step_ok_mono; [|exact A]; intros x Hx; right; exact Hx].
Qed.
Lemma closed_close p E H : closed E (p :: H) -> step_ok E p -> closed E H.
Proof. intros C S q Hq. destruct (C q Hq) as [[<-|A]|A]; [right; exact S | left; exact A | right; exact A]. Qed.

Theorem eval_pair_ok : forall n p ex fl H, closed ex H -> ok_res ex H (fun E => In p E) (ep n p ex fl).
Proof.
  induction n as [|n IH]; intros p ex fl H C; [exact I|]. cbn [eval_pair]. destruct p as [o tcx]. cbn [fst snd].
  destruct (resolve tc tcx) as [c|] eqn:R; [|exact I].
  destruct (have_examined fl (o, tcx)); [exact I|].
  destruct (have_examined ex (o, tcx)) eqn:HX.
  { simpl. split; [exact C|]. split; [apply incl_refl|]. apply have_examined_in. exact HX. }
  cbv zeta. pose proof (closed_open (o, tcx) ex H C) as C1.
  assert (Hfin : forall E, closed E ((o, tcx) :: H) -> incl ((o, tcx) :: ex) E -> step_ok E (o, tcx) ->
            closed E H /\ incl ex E /\ In (o, tcx) E).
  { intros E CE IE SE. split; [eapply closed_close; eauto|]. split; [intros x Hx; apply IE; right; exact Hx | apply IE; left; reflexivity]. }
  destruct (r_ty c) as [ | p' | e sz | es | ents star | ents | alts] eqn:Ety.
  7:{ destruct alts as [|a0 alts0]; [exact I|].
      match goal with |- ok_res _ _ _ ?X => change X with (ev_set (ep n) [(o, rep_chk c)] ((o, tcx) :: ex) fl) end.
      pose proof (ev_set_ok (ep n) IH [(o, rep_chk c)] ((o, tcx) :: ex) fl _ C1) as HS.
      destruct (ev_set (ep n) [(o, rep_chk c)] ((o, tcx) :: ex) fl) as [ex2 fl2|ex2 fl2|x|]; simpl in *; try exact I.
      destruct HS as (C2 & I2 & P2). apply Hfin; [exact C2 | exact I2 |].
      exists c. split; [exact R|]. rewrite Ety. specialize (P2 _ (or_introl eq_refl)).
      unfold elem_ok, rep_chk in P2. cbn [fst snd] in P2. rewrite Ety in P2. exact P2. }
  all: (destruct (expand o c) as [xe|xx|xq|xcs] eqn:EX;
        [ exact I
        | exact I
        | match goal with |- ok_res _ _ _ ?X =>
            assert (HQ : ok_res ((o, tcx) :: ex) ((o, tcx) :: H) (fun E => In xq E) X) by (apply IH; exact C1);
            destruct X as [ex2 fl2|ex2 fl2|x|]
          end; simpl in *; try exact I;
          destruct HQ as (C2 & I2 & P2); apply Hfin; [exact C2 | exact I2 |];
          exists c; split; [exact R|]; rewrite Ety; simpl; rewrite EX; exact P2
        | match goal with |- ok_res _ _ _ (ev_set _ (filter ?f xcs) ?E _) =>
            pose proof (ev_set_ok (ep n) IH (filter f xcs) E fl _ C1) as HS;
            destruct (ev_set (ep n) (filter f xcs) E fl) as [ex2 fl2|ex2 fl2|x|]; simpl in HS |- *; try exact I;
            destruct HS as (C2 & I2 & P2); apply Hfin; [exact C2 | exact I2 |];
            exists c; split; [exact R|]; rewrite Ety; cbn [fst snd]; rewrite EX;
            intros x Hx; destruct (f x) eqn:HE;
            [ left; apply P2; apply filter_In; split; [exact Hx | exact HE]
            | right; apply I2; apply negb_false_iff in HE; apply have_examined_in in HE; exact HE ]
          end ]).
Qed.

(* a closed memo is a set of conforming pairs *)
Theorem closed_conf E : closed E [] -> forall n q, (In q E \/ elem_ok E q) -> A n (fst q) (snd q) = true.
Proof.
  intros C. induction n as [|n IH]; intros q Hq; [reflexivity|].
  assert (Hdis : forall o tcx c alts, resolve tc tcx = Some c -> r_ty c = TDisj alts ->
            dis_ok E o alts (r_pred c) (r_ind c) -> A (S n) o tcx = true).
  { intros o tcx c alts R T [D1 (a & D2 & D3)]. rewrite (A_disj n o tcx c alts R T). apply andb_true_intro. split.
    - destruct (r_pred c) as [f|] eqn:EP.
      + apply (IH (o, CRep TAny (Some f) (r_ind c))). left. apply D1. unfold own_check. destruct (r_ind c); left; reflexivity.
      + destruct (r_ind c) eqn:EI;
          try (apply (IH (o, CRep TAny None _)); left; apply D1; left; reflexivity).
        apply (A_plain_any opq oc tc true n o _ (TAny, None, IAllowed)); reflexivity.
    - apply existsb_exists. exists a. split; [exact D2|]. apply (IH (o, a)). left. exact D3. }
  assert (Hin : In q E -> A (S n) (fst q) (snd q) = true).
  { intros HqE. destruct (C q HqE) as [[]|(c & R & S)]. destruct q as [o tcx]. simpl fst in *. simpl snd in *.
    destruct (r_ty c) as [ | p' | e sz | es | ents star | ents | alts] eqn:Ety.
    7:{ eapply Hdis; eauto. }
    all: (assert (Hnd : forall alts, r_ty c <> TDisj alts) by (intros alts; rewrite Ety; discriminate);
          rewrite A_S;
          pose proof (expand_spec opq oc tc (A n) o tcx c R Hnd (plain_any_A opq oc tc true n)) as SP;
          destruct (expand o c) as [xe|xx|xq|xcs]; try contradiction;
          [ rewrite SP; apply (IH xq); left; exact S
          | rewrite SP; apply forallb_forall; intros x Hx; apply (IH x); destruct (S x Hx); [right|left]; assumption ]). }
  destruct Hq as [HqE|Hel]; [apply Hin; exact HqE|].
  destruct q as [o tcx]. unfold elem_ok in Hel. simpl fst in *. simpl snd in *.
  destruct tcx as [t p i|nm]; [|apply (Hin Hel)].
  destruct t; try apply (Hin Hel). destruct alts as [|a0 alts0]; [apply (Hin Hel)|].
  apply (Hdis o (CRep (TDisj (a0 :: alts0)) p i) (TDisj (a0 :: alts0), p, i) (a0 :: alts0) eq_refl eq_refl Hel).
Qed.
End Decide.

(* ---------- the recursive checker only stops for specification errors ---------- *)
Section Stops.
Variable opq : N -> obj -> bool.
Variable oc : octx.
Variable tc : tctx.

Definition stopish (x : outcome) : Prop :=
  match x with SpecErr _ | Panicked => True | _ => False end.
Definition stop_res (r : eres) : Prop := match r with EStop x => stopish x | _ => True end.

Lemma expand_stopish o c x : expand opq oc tc o c = XStop x -> stopish x.
Proof.
  unfold expand, of_pred. destruct c as [[t p] i]. cbn [r_ty r_pred r_ind fst snd].
  intros E.
  destruct o as [ | b | z | n d | s | s | s | n g | l | d | d content];
    destruct t as [ | p' | e sz | es | ents star | ents | alts]; destruct i; try discriminate E;
    try (inversion E; exact I);
    try (destruct (check_pred opq _ p); discriminate E);
    try (match type of E with context [prim_match ?o ?q] => destruct (prim_match o q) end;
         try discriminate E; destruct (check_pred opq _ p); discriminate E).
  all: try (destruct (match sz with Some n => negb (Nat.eqb (len l) n) | None => false end); [discriminate E|];
            destruct (resolve tc e) as [re|]; [|inversion E; exact I];
            destruct (match r_ty re with TAny => no_attrs re | _ => false end);
            destruct (check_pred opq (OArr l) p); discriminate E).
  all: try (destruct (negb (Nat.eqb (len l) (len es))); [discriminate E|];
            destruct (check_pred opq (OArr l) p); discriminate E).
  all: try (destruct (check_pred opq (ODict d) p); [discriminate E|];
            destruct (dict_ents tc d ents) as [[[e|] cs]|]; try discriminate E; try (inversion E; exact I);
            destruct star as [[sc sopt]|]; [|discriminate E];
            destruct (resolve tc sc) as [rs|]; [|inversion E; exact I];
            destruct (star_ents d (List.map ent_key ents) sc sopt (r_ty rs)) as [[e|] cs2]; discriminate E).
  all: try (destruct (check_pred opq (OStream d content) p); [discriminate E|];
            destruct (stream_ents tc d ents) as [[[e|] cs]|]; try discriminate E; inversion E; exact I).
Qed.

Section ST.
Variable e0 : pend -> list pend -> list pend -> eres.
Hypothesis e0_st : forall p ex fl, stop_res (e0 p ex fl).

Lemma ev_plain_st : forall l ex fl, stop_res (ev_plain e0 l ex fl).
Proof.
  induction l as [|q r IH]; intros ex fl; simpl; [exact I|].
  pose proof (e0_st q ex fl) as H. destruct (e0 q ex fl); try exact H. apply IH.
Qed.
Lemma ev_alts_st o : forall rem base fl, stop_res (ev_alts e0 o rem base fl).
Proof.
  induction rem as [|a r IH]; intros base fl; simpl; [exact I|].
  pose proof (e0_st (o, a) base fl) as H. destruct (e0 (o, a) base fl); try exact H. apply IH.
Qed.
Lemma ev_elem_st q ex fl : stop_res (ev_elem e0 q ex fl).
Proof.
  unfold ev_elem. destruct (snd q) as [t p i|nm]; [|apply e0_st]. destruct t; try apply e0_st.
  destruct alts as [|a alts]; [apply e0_st|].
  pose proof (ev_alts_st (fst q) (a :: alts) ex fl) as H. destruct (ev_alts e0 (fst q) (a :: alts) ex fl); try exact H.
  apply ev_plain_st.
Qed.
Lemma ev_set_st : forall l ex fl, stop_res (ev_set e0 l ex fl).
Proof.
  induction l as [|q r IH]; intros ex fl; simpl; [exact I|].
  pose proof (ev_elem_st q ex fl) as H. destruct (ev_elem e0 q ex fl); try exact H. apply IH.
Qed.
End ST.

Lemma eval_pair_st : forall n p ex fl, stop_res (eval_pair opq oc tc n p ex fl).
Proof.
  induction n as [|n IH]; intros p ex fl; [exact I|]. cbn [eval_pair].
  destruct (resolve tc (snd p)) as [c|]; [|exact I].
  destruct (have_examined fl p); [exact I|]. destruct (have_examined ex p); [exact I|]. cbv zeta.
  destruct (r_ty c) as [ | | | | | | alts]; try (destruct alts; [exact I | apply ev_set_st; exact IH]);
    (destruct (expand opq oc tc (fst p) c) as [xe|xx|xq|xcs] eqn:EX;
     [exact I | simpl; eapply expand_stopish; eauto | apply IH | apply ev_set_st; exact IH]).
Qed.

Lemma eval_root_no_accept n o c : eval_root opq oc tc n o c = EStop Accept -> False.
Proof.
  unfold eval_root. intros E.
  pose proof (ev_set_st (eval_pair opq oc tc n) (eval_pair_st n) [(o, c)] [] []) as H. rewrite E in H. exact H.
Qed.
End Stops.

(* ---------- the work loop against the declarative reading ---------- *)
Section Main.
Variable opq : N -> obj -> bool.
Variable oc : octx.
Variable tc : tctx.

Lemma conf_iff_conforms_skip o c : conf opq oc tc (o, c) <-> conforms_skip opq oc tc o c.
Proof. reflexivity. Qed.

Lemma closed_nil : closed opq oc tc [] [].
Proof. intros q []. Qed.

(* the recursive checker on the root pair *)
Theorem eval_root_ok n o c ex' fl' : eval_root opq oc tc n o c = EOk ex' fl' -> conforms_skip opq oc tc o c.
Proof.
  unfold eval_root. intros E.
  pose proof (ev_set_ok opq oc tc (eval_pair opq oc tc n) (eval_pair_ok opq oc tc n) [(o, c)] [] [] [] closed_nil) as H.
  rewrite E in H. simpl in H. destruct H as (C & _ & P). intros m.
  apply (closed_conf opq oc tc ex' C m (o, c)). right. apply P. left. reflexivity.
Qed.

Theorem eval_root_fail n o c ex' fl' : eval_root opq oc tc n o c = EFail ex' fl' -> ~ conforms_skip opq oc tc o c.
Proof.
  unfold eval_root. intros E.
  pose proof (ev_set_fs opq oc tc (eval_pair opq oc tc n) (eval_pair_fs opq oc tc n) [(o, c)] [] [] ltac:(intros f [])) as H.
  rewrite E in H. simpl in H. destruct H as ((q & [<-|[]] & Hn) & _).
  apply (nconf_not_conf opq oc tc (o, c) Hn).
Qed.

(* C08, soundness of acceptance and of rejection: for every specification and every object graph *)
Theorem check_accept_conforms o c r :
  resolve tc c = Some r -> fst (check opq oc tc o c) = Accept ->
  conforms_skip opq oc tc o (norm_chk (rep_chk r)).
Proof.
  intros R H. pose proof (check_eval opq oc tc o c r R) as V. cbv zeta in V. rewrite H in V.
  destruct (eval_root opq oc tc (step_bound oc tc o (norm_chk (rep_chk r))) o (norm_chk (rep_chk r))) as [ex' fl'|ex' fl'|x|] eqn:E;
    simpl in V.
  - eapply eval_root_ok; eauto.
  - destruct V as (e & V). discriminate.
  - subst x. exfalso.
    (* the recursive checker never stops with Accept *)
    revert E. generalize (step_bound oc tc o (norm_chk (rep_chk r))). intros n E.
    eapply (eval_root_no_accept opq oc tc n); eauto.
  - contradiction.
Qed.

Theorem check_reject_nonconforms o c r e :
  resolve tc c = Some r -> fst (check opq oc tc o c) = Reject e ->
  ~ conforms_skip opq oc tc o (norm_chk (rep_chk r)).
Proof.
  intros R H. pose proof (check_eval opq oc tc o c r R) as V. cbv zeta in V. rewrite H in V.
  destruct (eval_root opq oc tc (step_bound oc tc o (norm_chk (rep_chk r))) o (norm_chk (rep_chk r))) as [ex' fl'|ex' fl'|x|] eqn:E;
    simpl in V.
  - discriminate.
  - eapply eval_root_fail; eauto.
  - subst x. exfalso.
    pose proof (ev_set_st _ (eval_pair_st opq oc tc (step_bound oc tc o (norm_chk (rep_chk r))))
                  [(o, norm_chk (rep_chk r))] [] []) as S.
    unfold eval_root in E. rewrite E in S. exact S.
  - contradiction.
Qed.

(* the verdict is Accept, Reject, or a specification error / panic — and never a specification
   error for the wrong reason: a conforming object is never rejected *)
Theorem check_conforms_not_rejected o c r :
  resolve tc c = Some r -> conforms_skip opq oc tc o (norm_chk (rep_chk r)) ->
  fst (check opq oc tc o c) = Accept \/ stopish (fst (check opq oc tc o c)).
Proof.
  intros R H. pose proof (check_eval opq oc tc o c r R) as V. cbv zeta in V.
  destruct (eval_root opq oc tc (step_bound oc tc o (norm_chk (rep_chk r))) o (norm_chk (rep_chk r))) as [ex' fl'|ex' fl'|x|] eqn:E;
    simpl in V.
  - left. exact V.
  - exfalso. eapply eval_root_fail; eauto.
  - right. rewrite V.
    pose proof (ev_set_st _ (eval_pair_st opq oc tc (step_bound oc tc o (norm_chk (rep_chk r))))
                  [(o, norm_chk (rep_chk r))] [] []) as S.
    unfold eval_root in E. rewrite E in S. exact S.
  - contradiction.
Qed.
End Main.

(* ---------- the two readings ---------- *)
Section Readings.
Variable opq : N -> obj -> bool.
Variable oc : octx.
Variable tc : tctx.

(* skipping entries only removes requirements: the full reading implies the one the library implements *)
Lemma approxg_skip_weaker : forall n o c, approxg opq oc tc false n o c = true -> approxg opq oc tc true n o c = true.
Proof.
  induction n as [|n IH]; intros o c H; [reflexivity|]. simpl in *.
  eapply (approx1g_mono opq oc tc true (approxg opq oc tc false n)); [exact IH|].
  revert H. generalize (approxg opq oc tc false n) as rec. intros rec. unfold approx1g.
  destruct (resolve tc c) as [r|]; [|auto].
  assert (HE : forall d ents, ents_okg tc false rec d ents = true -> ents_okg tc true rec d ents = true).
  { intros d ents. unfold ents_okg. apply forallb_mono. intros e.
    destruct (dict_get d (ent_key e)); destruct (ent_opt e); auto; simpl; destruct (is_any tc (ent_chk e)); auto. }
  assert (HS : forall d ents star, star_okg tc false rec d ents star = true -> star_okg tc true rec d ents star = true).
  { intros d ents [[sc so]|]; [|auto]. unfold star_okg. apply forallb_mono. intros kv.
    destruct (existsb (bytes_eqb (fst kv)) (List.map ent_key ents)); [auto|].
    destruct so; auto; simpl; destruct (is_any tc sc); auto. }
  destruct (r_ty r) eqn:ET; auto;
    destruct o; auto; rewrite ?andb_true_iff; simpl;
    try (intros [[B1 B2] B3]; repeat split; auto; rewrite ?andb_true_iff in *; try (destruct B3; split; auto)).
Qed.

Theorem conforms_skip_weaker o c : conforms opq oc tc o c -> conforms_skip opq oc tc o c.
Proof.
  intros H n. apply approxg_skip_weaker. specialize (H n).
  (* [approx] is [approxg false] by computation *)
  revert o c H. induction n as [|n IH]; intros o c H; [reflexivity|]. simpl in *.
  apply (approx1g_mono opq oc tc false (approx opq oc tc n) _ IH). exact H.
Qed.
End Readings.

(* ---------- no specification error on well-formed specifications ---------- *)
(* every name mentioned anywhere in the (normalised) specification is defined: a direct, computable
   condition on the universe of checks.  (An empty disjunction is allowed: nothing conforms to it.) *)
Definition wf_chk1 (tc : tctx) (c : chk) : bool :=
  match c with
  | CNamed nm => match tctx_get tc nm with Some _ => true | None => false end
  | _ => true
  end.
Definition wf_univ (tc : tctx) (c0 : chk) : bool := forallb (wf_chk1 tc) (uni_chks tc c0).

Section NoStop.
Variable opq : N -> obj -> bool.
Variable oc : octx.
Variable tc : tctx.
Variable o0 : obj.
Variable c0 : chk.
Hypothesis WF : wf_univ tc c0 = true.

Let UC := uni_chks tc c0.

Lemma wf_in c : In c UC -> wf_chk1 tc c = true.
Proof. intros H. unfold wf_univ in WF. rewrite forallb_forall in WF. apply WF. exact H. Qed.

Lemma wf_resolve c : In c UC -> exists r, resolve tc c = Some r.
Proof.
  intros H. pose proof (wf_in c H) as W. destruct c as [t p i|nm]; simpl in *; [eexists; reflexivity|].
  destruct (tctx_get tc nm) as [r|]; [exists r; reflexivity|discriminate].
Qed.

Definition nostop (r : eres) : Prop := match r with EStop _ => False | _ => True end.

Lemma dict_ents_some d : forall ents, (forall x, In x ents -> exists r, resolve tc (ent_chk x) = Some r) ->
  dict_ents tc d ents <> None.
Proof.
  induction ents as [|[k c opt] r IH]; intros H; simpl; [discriminate|].
  destruct (H (DEnt k c opt) (or_introl eq_refl)) as (rc & R). simpl in R. rewrite R.
  assert (IH' : dict_ents tc d r <> None) by (apply IH; intros x Hx; apply H; right; exact Hx).
  destruct (dict_get d k); destruct opt; try discriminate; try exact IH';
    destruct (r_ty rc); try exact IH'; (destruct (dict_ents tc d r) as [[e0 cs0]|]; [discriminate|contradiction]).
Qed.

Lemma stream_ents_some d : forall ents, (forall x, In x ents -> exists r, resolve tc (ent_chk x) = Some r) ->
  stream_ents tc d ents <> None.
Proof.
  induction ents as [|[k c opt] r IH]; intros H; simpl; [discriminate|].
  destruct (H (DEnt k c opt) (or_introl eq_refl)) as (rc & R). simpl in R. rewrite R.
  assert (IH' : stream_ents tc d r <> None) by (apply IH; intros x Hx; apply H; right; exact Hx).
  destruct (stream_ents tc d r) as [[e0 cs0]|]; [|contradiction].
  destruct (dict_get d k); destruct opt; try discriminate; destruct (r_ty rc); discriminate.
Qed.

(* under resolvable sub-checks the arms never stop, and the checks they ask for are sub-checks *)
Lemma expand_wf o c : (forall alts, r_ty c <> TDisj alts) ->
  (forall k, In k (kids_ty (r_ty c)) -> exists r, resolve tc k = Some r) ->
  match expand opq oc tc o c with
  | XStop _ => False
  | XRef q => snd q = allow_indirect c
  | XKids cs => forall q, In q cs -> In (snd q) (kids_ty (r_ty c))
  | XFail _ => True
  end.
Proof.
  intros Hnd HK. unfold expand, of_pred. destruct c as [[t p] i]. cbn [r_ty r_pred r_ind fst snd] in *.
  assert (HP : forall ob (k : xres),
            match k with XStop _ => False | XRef q => snd q = allow_indirect (t, p, i)
                       | XKids cs => forall q, In q cs -> In (snd q) (kids_ty t) | XFail _ => True end ->
            match (match check_pred opq ob p with Some e => XFail e | None => k end) with
            | XStop _ => False | XRef q => snd q = allow_indirect (t, p, i)
            | XKids cs => forall q, In q cs -> In (snd q) (kids_ty t) | XFail _ => True end).
  { intros ob k Hk. destruct (check_pred opq ob p); [exact I|exact Hk]. }
  destruct o as [ | b | z | n d | s | s | s | n g | l | d | d content].
  8:{ destruct t; try (exfalso; eapply Hnd; reflexivity); destruct i; try exact I; reflexivity. }
  all: destruct i; try (destruct t; try exact I; exfalso; eapply Hnd; reflexivity).
  all: destruct t as [ | p' | e sz | es | ents star | ents | alts]; try (exfalso; eapply Hnd; reflexivity);
       try exact I;
       try (apply HP; intros q []);
       try (destruct (prim_match _ p'); [apply HP; intros q [] | exact I]).
  (* Array *)
  1,3: (destruct (match sz with Some n => negb (Nat.eqb (len l) n) | None => false end); [exact I|];
        destruct (HK e (or_introl eq_refl)) as (re & RE); rewrite RE;
        destruct (match r_ty re with TAny => no_attrs re | _ => false end);
        apply HP; [intros q [] | intros q Hq; apply in_map_iff in Hq; destruct Hq as (x & <- & _); left; reflexivity]).
  (* HetArray *)
  1,2: (destruct (negb (Nat.eqb (len l) (len es))); [exact I|];
        apply HP; intros [x y] Hq; simpl; eapply in_combine_r; eauto).
  (* Dict *)
  1,2: (apply HP;
        assert (HE : forall e, In e ents -> exists r, resolve tc (ent_chk e) = Some r)
          by (intros e He; apply HK; simpl; apply in_or_app; left; apply in_map; exact He);
        pose proof (dict_ents_some d ents HE) as DS;
        destruct (dict_ents tc d ents) as [[[e|] cs]|] eqn:DE; [exact I| |contradiction];
        destruct (dict_ents_spec oc tc o0 c0 d ents None cs DE) as [A _];
        destruct star as [[sc sopt]|];
        [ destruct (HK sc ltac:(simpl; apply in_or_app; right; left; reflexivity)) as (rs & RS); rewrite RS;
          destruct (star_ents d (List.map ent_key ents) sc sopt (r_ty rs)) as [[e|] cs2] eqn:SE; [exact I|];
          destruct (star_ents_spec oc tc o0 c0 d _ sc sopt (r_ty rs) None cs2 SE) as [A' _];
          intros q Hq; apply in_app_or in Hq; destruct Hq as [Hq|Hq];
          [ simpl; apply in_or_app; left; apply (A q Hq)
          | destruct (A' q Hq) as [_ E2]; rewrite E2; simpl; apply in_or_app; right; left; reflexivity ]
        | intros q Hq; simpl; rewrite app_nil_r; apply (A q Hq) ]).
  (* Stream *)
  1,2: (apply HP;
        assert (HE : forall e, In e ents -> exists r, resolve tc (ent_chk e) = Some r)
          by (intros e He; apply HK; simpl; apply in_map; exact He);
        pose proof (stream_ents_some d ents HE) as DS;
        destruct (stream_ents tc d ents) as [[[e|] cs]|] eqn:DE; [exact I| |contradiction];
        destruct (stream_ents_spec oc tc o0 c0 d ents None cs DE) as [A _];
        intros q Hq; simpl; apply (A q Hq)).
Qed.

Section NS.
Variable e0 : pend -> list pend -> list pend -> eres.
Hypothesis e0_ns : forall p ex fl, In (snd p) UC -> nostop (e0 p ex fl).

Lemma ev_plain_ns : forall l ex fl, (forall q, In q l -> In (snd q) UC) -> nostop (ev_plain e0 l ex fl).
Proof.
  induction l as [|q r IH]; intros ex fl H; simpl; [exact I|].
  pose proof (e0_ns q ex fl (H q (or_introl eq_refl))) as Hq. destruct (e0 q ex fl); try exact Hq; try exact I.
  apply IH. intros q' Hq'. apply H. right. exact Hq'.
Qed.
Lemma ev_alts_ns o : forall rem base fl, (forall a, In a rem -> In a UC) -> nostop (ev_alts e0 o rem base fl).
Proof.
  induction rem as [|a r IH]; intros base fl H; simpl; [exact I|].
  pose proof (e0_ns (o, a) base fl (H a (or_introl eq_refl))) as Ha. destruct (e0 (o, a) base fl); try exact Ha; try exact I.
  apply IH. intros a' Ha'. apply H. right. exact Ha'.
Qed.
Lemma ev_elem_ns q ex fl : In (snd q) UC -> nostop (ev_elem e0 q ex fl).
Proof.
  intros H. unfold ev_elem. destruct q as [o tcx]. simpl snd in *. simpl fst.
  destruct tcx as [t p i|nm]; [|apply e0_ns; exact H].
  destruct t as [ | p' | e sz | es | ents star | ents | alts]; try (apply e0_ns; exact H).
  destruct alts as [|a alts]; [apply e0_ns; exact H|].
  assert (HA : forall a', In a' (a :: alts) -> In a' UC).
  { intros a' Ha'. apply (UC_kids tc c0 _ a' H). exact Ha'. }
  pose proof (ev_alts_ns o (a :: alts) ex fl HA) as N1.
  destruct (ev_alts e0 o (a :: alts) ex fl); try exact N1; try exact I.
  apply ev_plain_ns. intros q Hq. apply own_check_in in Hq. subst q. simpl.
  apply (UC_own tc c0) in H. exact H.
Qed.
Lemma ev_set_ns : forall l ex fl, (forall q, In q l -> In (snd q) UC) -> nostop (ev_set e0 l ex fl).
Proof.
  induction l as [|q r IH]; intros ex fl H; simpl; [exact I|].
  pose proof (ev_elem_ns q ex fl (H q (or_introl eq_refl))) as Hq. destruct (ev_elem e0 q ex fl); try exact Hq; try exact I.
  apply IH. intros q' Hq'. apply H. right. exact Hq'.
Qed.
End NS.

Theorem eval_pair_ns : forall n p ex fl, In (snd p) UC -> nostop (eval_pair opq oc tc n p ex fl).
Proof.
  induction n as [|n IH]; intros p ex fl H; [exact I|]. cbn [eval_pair].
  destruct (wf_resolve _ H) as (c & R). rewrite R.
  destruct (have_examined fl p); [exact I|]. destruct (have_examined ex p); [exact I|]. cbv zeta.
  destruct (r_ty c) as [ | p' | e sz | es | ents star | ents | alts] eqn:Ety.
  7:{ destruct (resolve_in tc c0 (snd p) c H R) as (Hrc & Hal & Hkids).
      destruct alts as [|a0 alts0]; [exact I|].
      apply ev_set_ns; [exact IH|]. intros q [<-|[]]. exact Hrc. }
  all: (destruct (resolve_in tc c0 (snd p) c H R) as (Hrc & Hal & Hkids);
        assert (Hnd : forall alts, r_ty c <> TDisj alts) by (intros alts; rewrite Ety; discriminate);
        assert (HK : forall k, In k (kids_ty (r_ty c)) -> exists r, resolve tc k = Some r)
          by (intros k Hk; apply wf_resolve; apply Hkids; exact Hk);
        pose proof (expand_wf (fst p) c Hnd HK) as XW;
        destruct (expand opq oc tc (fst p) c) as [xe|xx|xq|xcs];
        [ exact I | contradiction
        | apply IH; rewrite XW; exact Hal
        | apply ev_set_ns; [exact IH|]; intros q Hq; apply filter_In in Hq; destruct Hq as [Hq _];
          apply Hkids; apply XW; exact Hq ]).
Qed.
End NoStop.

(* ---------- C08 / C09 / C01: the verdicts of the work loop ---------- *)
Section Verdicts.
Variable opq : N -> obj -> bool.
Variable oc : octx.
Variable tc : tctx.

(* on a well-formed specification the checker answers Accept or Reject: no specification error,
   no panic (the unreachable!() / index sites of the loop are dead), no fuel exhaustion *)
Theorem check_verdict_wf o c r :
  resolve tc c = Some r -> wf_univ tc (norm_chk (rep_chk r)) = true ->
  fst (check opq oc tc o c) = Accept \/ exists e, fst (check opq oc tc o c) = Reject e.
Proof.
  intros R WF. pose proof (check_eval opq oc tc o c r R) as V. cbv zeta in V.
  set (c' := norm_chk (rep_chk r)) in *. set (n := step_bound oc tc o c') in *.
  pose proof (ev_set_ns tc c' (eval_pair opq oc tc n) (eval_pair_ns opq oc tc o c' WF n)
                [(o, c')] [] []) as NS.
  unfold eval_root in V.
  destruct (ev_set (eval_pair opq oc tc n) [(o, c')] [] []) as [ex' fl'|ex' fl'|x|]; simpl in V.
  - left. exact V.
  - right. exact V.
  - exfalso. apply NS. intros q [<-|[]]. exact (UC_root tc c').
  - contradiction.
Qed.

Theorem check_never_panics_wf o c :
  (forall r, resolve tc c = Some r -> wf_univ tc (norm_chk (rep_chk r)) = true) ->
  fst (check opq oc tc o c) <> Panicked.
Proof.
  intros WF. destruct (resolve tc c) as [r|] eqn:R.
  - destruct (check_verdict_wf o c r R (WF r eq_refl)) as [H|(e & H)]; rewrite H; discriminate.
  - rewrite (check_unresolved opq oc tc o c R). discriminate.
Qed.

(* C08 on well-formed specifications: the checker reports no error exactly when the object
   conforms, in the reading the library implements *)
Theorem check_accept_iff_conforms_skip o c r :
  resolve tc c = Some r -> wf_univ tc (norm_chk (rep_chk r)) = true ->
  (fst (check opq oc tc o c) = Accept <-> conforms_skip opq oc tc o (norm_chk (rep_chk r))).
Proof.
  intros R WF. split.
  - apply check_accept_conforms. exact R.
  - intros H. destruct (check_verdict_wf o c r R WF) as [A|(e & Hr)]; [exact A|].
    exfalso. exact (check_reject_nonconforms opq oc tc o c r e R Hr H).
Qed.

(* corollary: an object that conforms in the full reading is accepted *)
Theorem conforms_check_accept o c r :
  resolve tc c = Some r -> wf_univ tc (norm_chk (rep_chk r)) = true ->
  conforms opq oc tc o (norm_chk (rep_chk r)) -> fst (check opq oc tc o c) = Accept.
Proof.
  intros R WF H. apply (check_accept_iff_conforms_skip o c r R WF). apply conforms_skip_weaker. exact H.
Qed.
End Verdicts.

(* ---------- outside the known finding the two readings coincide ---------- *)
(* no dictionary / stream / '*' entry check of the specification that resolves to type Any carries a
   predicate or a non-Allowed indirect specification *)
Definition plain_entry (tc : tctx) (e : chk) : bool :=
  match resolve tc e with
  | Some re => match r_ty re with TAny => no_attrs re | _ => true end
  | None => true
  end.
Definition plain_entries1 (tc : tctx) (c : chk) : bool :=
  match c with
  | CRep (TDict ents star) _ _ =>
    forallb (fun e => plain_entry tc (ent_chk e)) ents
    && match star with Some (sc, _) => plain_entry tc sc | None => true end
  | CRep (TStream ents) _ _ => forallb (fun e => plain_entry tc (ent_chk e)) ents
  | _ => true
  end.
Definition no_any_entry_attrs (tc : tctx) (c0 : chk) : bool := forallb (plain_entries1 tc) (uni_chks tc c0).

Section Coincide.
Variable opq : N -> obj -> bool.
Variable oc : octx.
Variable tc : tctx.
Variable c0 : chk.
Hypothesis NA : no_any_entry_attrs tc c0 = true.

Let UC := uni_chks tc c0.

Lemma na_in c : In c UC -> plain_entries1 tc c = true.
Proof. intros H. unfold no_any_entry_attrs in NA. rewrite forallb_forall in NA. apply NA. exact H. Qed.

Lemma plain_entry_ok rec e v : plain_any_ok tc rec -> plain_entry tc e = true ->
  (if true && is_any tc e then true else rec v e) = true -> rec v e = true.
Proof.
  intros PA PE H. unfold plain_entry, is_any in *. destruct (resolve tc e) as [re|] eqn:R; [|exact H].
  destruct (r_ty re) eqn:T; try exact H. eapply PA; eauto.
Qed.

Lemma skip_to_full : forall n o c, In c UC ->
  approxg opq oc tc true n o c = true -> approxg opq oc tc false n o c = true.
Proof.
  induction n as [|n IH]; intros o c Hc H; [reflexivity|]. simpl in *. unfold approx1g in *.
  destruct (resolve tc c) as [r|] eqn:R; [|exact H].
  destruct (resolve_in tc c0 c r Hc R) as (Hrc & Hal & Hkids).
  pose proof (na_in _ Hrc) as NP. pose proof (UC_own tc c0 _ Hrc) as Hown.
  destruct r as [[t p] i]. cbn [r_ty r_pred r_ind rep_chk allow_indirect fst snd ownc] in *.
  set (rec := approxg opq oc tc true n) in *. set (rec' := approxg opq oc tc false n) in *.
  assert (PA : plain_any_ok tc rec') by (apply plain_any_A).
  assert (HE : forall d ents, (forall e, In e ents -> In (ent_chk e) UC) ->
            forallb (fun e => plain_entry tc (ent_chk e)) ents = true ->
            ents_okg tc true rec d ents = true -> ents_okg tc false rec' d ents = true).
  { intros d ents HU HPl. unfold ents_okg. rewrite !forallb_forall. intros HH e He. specialize (HH e He).
    rewrite forallb_forall in HPl. specialize (HPl e He).
    destruct (dict_get d (ent_key e)) as [v|]; destruct (ent_opt e); auto; simpl;
      (apply (plain_entry_ok rec' (ent_chk e) v PA HPl);
       simpl; destruct (is_any tc (ent_chk e)); [reflexivity|]; apply IH; [apply HU; exact He|exact HH]). }
  destruct t as [ | p' | e sz | es | ents star | ents | alts].
  7:{ rewrite andb_true_iff in *. destruct H as [H1 H2]. split; [apply IH; [exact Hown|exact H1]|].
      rewrite existsb_exists in *. destruct H2 as (a & Ha & H2). exists a. split; [exact Ha|].
      apply IH; [apply Hkids; exact Ha | exact H2]. }
  all: destruct o; rewrite ?andb_true_iff in *;
       try (destruct H as [H1 H2]; split; [exact H1|]; apply IH; [exact Hal|exact H2]);
       try exact H;
       try (destruct H as [[H1 H2] H3]; repeat split; auto; cbn [type_okg] in *; try exact H3).
  - (* Array *)
    rewrite andb_true_iff in *. destruct H3 as [H3 H4]. split; [exact H3|].
    rewrite forallb_forall in *. intros x Hx. apply IH; [apply Hkids; left; reflexivity | apply H4; exact Hx].
  - (* HetArray *)
    eapply forallb2_mono_in; [|exact H3]. intros x y Hy Hxy. apply IH; [apply Hkids; exact Hy | exact Hxy].
  - (* Dict *)
    simpl in NP. rewrite andb_true_iff in *. destruct NP as [NP1 NP2]. destruct H3 as [H3 H4]. split.
    + apply HE; [intros e He; apply Hkids; simpl; apply in_or_app; left; apply in_map; exact He | exact NP1 | exact H3].
    + destruct star as [[sc so]|]; [|reflexivity]. unfold star_okg in *. rewrite forallb_forall in *.
      intros kv Hkv. specialize (H4 kv Hkv).
      destruct (existsb (bytes_eqb (fst kv)) (List.map ent_key ents)); [reflexivity|].
      destruct so; auto; simpl;
        (apply (plain_entry_ok rec' sc (snd kv) PA NP2); simpl; destruct (is_any tc sc); [reflexivity|];
         apply IH; [apply Hkids; simpl; apply in_or_app; right; left; reflexivity | exact H4]).
  - (* Stream *)
    simpl in NP. apply HE; [intros e He; apply Hkids; simpl; apply in_map; exact He | exact NP | exact H3].
Qed.
End Coincide.

Section Full.
Variable opq : N -> obj -> bool.
Variable oc : octx.
Variable tc : tctx.

Lemma bool_eq_iff (a b : bool) : (a = true -> b = true) -> (b = true -> a = true) -> a = b.
Proof. destruct a, b; intros H1 H2; try reflexivity; [symmetry; apply H1 | apply H2]; reflexivity. Qed.

Lemma approx_approxg : forall n o c, approx opq oc tc n o c = approxg opq oc tc false n o c.
Proof.
  induction n as [|n IH]; intros o c; [reflexivity|]. simpl. apply bool_eq_iff; intros H.
  - apply (approx1g_mono opq oc tc false (approx opq oc tc n)); [intros o' c' H'; rewrite <- IH; exact H' | exact H].
  - apply (approx1g_mono opq oc tc false (approxg opq oc tc false n) (approx opq oc tc n)); [intros o' c' H'; rewrite IH; exact H' | exact H].
Qed.

Theorem conforms_skip_iff_conforms o c0 : no_any_entry_attrs tc c0 = true ->
  (conforms_skip opq oc tc o c0 <-> conforms opq oc tc o c0).
Proof.
  intros NA. split.
  - intros H n. rewrite approx_approxg. apply (skip_to_full opq oc tc c0 NA n o c0 (UC_root tc c0)). apply H.
  - apply conforms_skip_weaker.
Qed.

(* C08 at full strength outside the known finding: well-formed specification without attributed
   Any-typed dictionary / stream entries *)
Theorem check_accept_iff_conforms o c r :
  resolve tc c = Some r -> wf_univ tc (norm_chk (rep_chk r)) = true ->
  no_any_entry_attrs tc (norm_chk (rep_chk r)) = true ->
  (fst (check opq oc tc o c) = Accept <-> conforms opq oc tc o (norm_chk (rep_chk r))).
Proof.
  intros R WF NA. rewrite <- (conforms_skip_iff_conforms o _ NA).
  apply check_accept_iff_conforms_skip; assumption.
Qed.
End Full.
