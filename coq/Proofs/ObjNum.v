(* Proofs/ObjNum.v — C02, numbers and references at the object level: RealP on a spelled number,
   the dispatcher arm [number_or_ref] (is_integer test, look-ahead  ws+ IntegerP ws+ "R", rewinds)
   on a spelled integer / real / reference. *)
From PV Require Import Model.Obj Spec.Spelling Proofs.PrimBase Proofs.PrimTok Proofs.PrimWs Proofs.ObjDepth Proofs.ObjStream Proofs.ObjTok.
From Coq Require Import Lia.

(* what may follow a number: nothing, or a byte that is neither a digit nor '.' *)
Definition num_stop (rest : bytes) : Prop :=
  match rest with [] => True | b :: _ => memb b digit_set = false /\ b <> 46%N end.

Lemma num_stop_digit rest : num_stop rest -> digit_stop rest.
Proof. destruct rest; [exact (fun _ => I)|]. intros [H _]. exact H. Qed.

Lemma i64_i128 : (i64_max <= i128_max)%Z. Proof. vm_compute. discriminate. Qed.

(* RealP on  [+-]? digit+  not followed by '.' *)
Theorem real_spec_int neg sg ds pre rest :
  sign neg sg -> ds <> [] -> all_digits ds -> (dec_val ds <= i128_max)%Z -> num_stop rest ->
  real (pre ++ (sg ++ ds) ++ rest) (len pre) =
  POk ((signed neg (dec_val ds), 1%Z), len pre, len pre + len (sg ++ ds)) (len pre + len (sg ++ ds)).
Proof.
  intros Hs Hn Hd Hm Hr.
  assert (Body : forall m pre', real_body m (pre' ++ ds ++ rest) (len pre) (len pre') =
                  POk (((if m then (dec_val ds * -1)%Z else dec_val ds), 1%Z), len pre, len pre' + len ds) (len pre' + len ds)).
  { intros m pre'. unfold real_body.
    rewrite (allowed_run digit_set pre' ds rest Hd (num_stop_digit _ Hr)).
    destruct ds as [|d0 ds0] eqn:Eds; [contradiction|]. rewrite <- Eds in *.
    replace (Nat.eqb (len ds) 0) with false by (subst ds; reflexivity). cbn [andb].
    rewrite sub_at. unfold dec_val in *. rewrite acc_digits_val; [|assumption|lia|assumption].
    replace (pre' ++ ds ++ rest) with ((pre' ++ ds) ++ rest) by (rewrite <- app_assoc; reflexivity).
    replace (len pre' + len ds) with (len (pre' ++ ds)) by (rewrite len_app; reflexivity).
    rewrite peek_is_at. destruct rest as [|x rest']; [reflexivity|].
    destruct Hr as [_ Hx]. destruct (N.eqb_spec x 46); [contradiction|reflexivity]. }
  unfold real.
  destruct (sign_cases _ _ Hs) as [[-> ->]|[[-> ->]|[-> ->]]]; cbn [app].
  - assert (P : peek_is (pre ++ ds ++ rest) (len pre) 45 = false /\ peek_is (pre ++ ds ++ rest) (len pre) 43 = false).
    { rewrite !peek_is_at. pose proof (hd_digit_not_sign ds rest Hn Hd) as Hh.
      destruct (ds ++ rest) as [|x t]; [contradiction|]. exact Hh. }
    destruct P as [-> ->]. rewrite Body. cbn [signed len length app]. reflexivity.
  - rewrite !peek_is_at. cbn [N.eqb Pos.eqb].
    rewrite incr_ok by (rewrite len_app; cbn; lia).
    replace (pre ++ 43%N :: ds ++ rest) with ((pre ++ [43%N]) ++ ds ++ rest) by (rewrite <- app_assoc; reflexivity).
    rewrite <- len_snoc with (x := 43%N). rewrite Body. cbn [signed].
    replace (len (pre ++ [43%N]) + len ds) with (len pre + len (43%N :: ds)) by (rewrite len_snoc; unfold len; cbn [length]; lia).
    reflexivity.
  - rewrite !peek_is_at. cbn [N.eqb Pos.eqb].
    rewrite incr_ok by (rewrite len_app; cbn; lia).
    replace (pre ++ 45%N :: ds ++ rest) with ((pre ++ [45%N]) ++ ds ++ rest) by (rewrite <- app_assoc; reflexivity).
    rewrite <- len_snoc with (x := 45%N). rewrite Body. cbn [signed].
    replace (len (pre ++ [45%N]) + len ds) with (len pre + len (45%N :: ds)) by (rewrite len_snoc; unfold len; cbn [length]; lia).
    replace (dec_val ds * -1)%Z with (- dec_val ds)%Z by lia. reflexivity.
Qed.

Lemma dot_not_digit : memb 46%N digit_set = false. Proof. reflexivity. Qed.

(* RealP on  [+-]? digit* . digit+ *)
Theorem real_spec_frac neg sg ds fs pre rest :
  sign neg sg -> all_digits ds -> fs <> [] -> all_digits fs ->
  (dec_val (ds ++ fs) <= i128_max)%Z -> (10 ^ Z.of_nat (len fs) <= i128_max)%Z -> digit_stop rest ->
  let sp := sg ++ ds ++ 46%N :: fs in
  real (pre ++ sp ++ rest) (len pre) =
  POk ((signed neg (dec_val (ds ++ fs)), (10 ^ Z.of_nat (len fs))%Z), len pre, len pre + len sp) (len pre + len sp).
Proof.
  intros Hs Hd Hn Hf Hm Hq Hr sp.
  assert (Body : forall m pre', real_body m (pre' ++ (ds ++ 46%N :: fs) ++ rest) (len pre) (len pre') =
                  POk (((if m then (dec_val (ds ++ fs) * -1)%Z else dec_val (ds ++ fs)), (10 ^ Z.of_nat (len fs))%Z), len pre,
                       len pre' + len (ds ++ 46%N :: fs)) (len pre' + len (ds ++ 46%N :: fs))).
  { intros m pre'. unfold real_body.
    replace (pre' ++ (ds ++ 46%N :: fs) ++ rest) with (pre' ++ ds ++ (46%N :: fs ++ rest))
      by (rewrite <- !app_assoc; reflexivity).
    rewrite (allowed_run digit_set pre' ds (46%N :: fs ++ rest) Hd dot_not_digit).
    assert (P46 : peek_is (pre' ++ ds ++ 46%N :: fs ++ rest) (len pre' + len ds) 46 = true).
    { replace (pre' ++ ds ++ 46%N :: fs ++ rest) with ((pre' ++ ds) ++ 46%N :: fs ++ rest) by (rewrite <- app_assoc; reflexivity).
      replace (len pre' + len ds) with (len (pre' ++ ds)) by (rewrite len_app; reflexivity).
      rewrite peek_is_at. reflexivity. }
    rewrite P46. cbn [negb]. rewrite andb_false_r.
    rewrite sub_at.
    pose proof (dec_val_nonneg ds Hd) as N0.
    assert (M1 : (dec_val ds <= i128_max)%Z).
    { rewrite dec_val_app in Hm. pose proof (dec_step fs (dec_val ds) Hf N0). lia. }
    unfold dec_val at 1. rewrite acc_digits_val; [|assumption|lia|exact M1]. fold (dec_val ds).
    rewrite incr_ok by (rewrite !len_app; cbn [len length]; unfold len; lia).
    replace (pre' ++ ds ++ 46%N :: fs ++ rest) with ((pre' ++ ds ++ [46%N]) ++ fs ++ rest)
      by (rewrite <- !app_assoc; reflexivity).
    replace (S (len pre' + len ds)) with (len (pre' ++ ds ++ [46%N]))
      by (rewrite !len_app; cbn [len length]; unfold len; lia).
    rewrite (allowed_run digit_set _ fs rest Hf Hr). rewrite sub_at.
    rewrite acc_frac_val; [|assumption|assumption|lia|rewrite <- dec_val_app; assumption|lia].
    rewrite <- dec_val_app, Z.mul_1_l.
    replace (len (pre' ++ ds ++ [46%N]) + len fs) with (len pre' + len (ds ++ 46%N :: fs))
      by (rewrite !len_app; cbn [len length]; unfold len; lia).
    reflexivity. }
  unfold real, sp.
  assert (Hh : forall t, match ds ++ 46%N :: t with x :: _ => N.eqb x 45 = false /\ N.eqb x 43 = false | [] => False end).
  { intros t. destruct ds as [|d ds0]; cbn [app]; [split; reflexivity|].
    inversion Hd; subst. match goal with H : digitb d = true |- _ => apply digit_range in H end.
    split; apply N.eqb_neq; lia. }
  destruct (sign_cases _ _ Hs) as [[-> ->]|[[-> ->]|[-> ->]]]; cbn [app].
  - assert (P : peek_is (pre ++ (ds ++ 46%N :: fs) ++ rest) (len pre) 45 = false /\
                peek_is (pre ++ (ds ++ 46%N :: fs) ++ rest) (len pre) 43 = false).
    { rewrite !peek_is_at. rewrite <- app_assoc. cbn [app]. specialize (Hh (fs ++ rest)).
      destruct (ds ++ 46%N :: fs ++ rest) as [|x t]; [contradiction|]. exact Hh. }
    destruct P as [-> ->]. rewrite Body. cbn [signed]. reflexivity.
  - rewrite !peek_is_at. cbn [N.eqb Pos.eqb].
    rewrite incr_ok by (rewrite len_app; cbn; lia).
    replace (pre ++ 43%N :: (ds ++ 46%N :: fs) ++ rest) with ((pre ++ [43%N]) ++ (ds ++ 46%N :: fs) ++ rest)
      by (rewrite <- app_assoc; reflexivity).
    rewrite <- len_snoc with (x := 43%N). rewrite Body. cbn [signed].
    replace (len (pre ++ [43%N]) + len (ds ++ 46%N :: fs)) with (len pre + len (43%N :: ds ++ 46%N :: fs))
      by (rewrite len_snoc; unfold len; cbn [length]; lia).
    reflexivity.
  - rewrite !peek_is_at. cbn [N.eqb Pos.eqb].
    rewrite incr_ok by (rewrite len_app; cbn; lia).
    replace (pre ++ 45%N :: (ds ++ 46%N :: fs) ++ rest) with ((pre ++ [45%N]) ++ (ds ++ 46%N :: fs) ++ rest)
      by (rewrite <- app_assoc; reflexivity).
    rewrite <- len_snoc with (x := 45%N). rewrite Body. cbn [signed].
    replace (len (pre ++ [45%N]) + len (ds ++ 46%N :: fs)) with (len pre + len (45%N :: ds ++ 46%N :: fs))
      by (rewrite len_snoc; unfold len; cbn [length]; lia).
    replace (dec_val (ds ++ fs) * -1)%Z with (- dec_val (ds ++ fs))%Z by lia. reflexivity.
Qed.

(* ------------------------------------------------------------------ the dispatcher arm *)
(* the reference reading of what follows an integer:  ws+ IntegerP ws+ "R" *)
Definition lookahead_ref (s : bytes) (c : nat) : Prop :=
  exists u c2 i c3 u' c4,
    ws_eol false s c = POk u c2 /\ integer s c2 = POk i c3 /\ ws_eol false s c3 = POk u' c4 /\
    check_prefix kw_R s c4 = true.

Lemma pow10_gt1 k : k <> 0 -> (1 < 10 ^ Z.of_nat k)%Z.
Proof.
  intros Hk. destruct k; [contradiction|]. rewrite Nat2Z.inj_succ, Z.pow_succ_r by lia.
  assert (0 < 10 ^ Z.of_nat k)%Z by (apply Z.pow_pos_nonneg; lia). lia.
Qed.

Lemma in_i64_dec z : in_i64 z <-> ((- i64_max - 1 <=? z) && (z <=? i64_max))%Z = true.
Proof.
  unfold in_i64, i64_maxZ, i64_max. split.
  - intros [A B]. apply andb_true_iff. split; apply Z.leb_le; assumption.
  - intros H. apply andb_true_iff in H as [A B]. apply Z.leb_le in A, B. split; assumption.
Qed.

(* C02 for numbers: any spelling of a number, anywhere, followed by a legal context *)
Theorem number_spec v sp pre rest :
  spells_num v sp -> num_stop rest ->
  (forall z, v = OInt z -> ~ lookahead_ref (pre ++ sp ++ rest) (len pre + len sp)) ->
  number_or_ref (pre ++ sp ++ rest) (len pre) = POk v (len pre + len sp).
Proof.
  intros Hsp Hr Hla. unfold number_or_ref.
  inversion Hsp as [neg sg ds Hs Hn Hd Hi|neg sg ds Hs Hn Hd Hi Hm|neg sg ds fs Hs Hd Hn Hf Hm Hq]; subst v sp.
  - (* integer within i64 *)
    assert (Hm : (dec_val ds <= i128_max)%Z).
    { pose proof (dec_val_nonneg ds Hd). unfold in_i64, i64_maxZ, signed in Hi. unfold i128_max.
      destruct neg; lia. }
    rewrite (real_spec_int neg sg ds pre rest) by assumption. cbn [bind lv_val fst snd].
    apply in_i64_dec in Hi as Hi'.
    unfold real_is_integer, real_numerator. rewrite Hi'. cbn [Z.eqb Pos.eqb negb].
    set (s := pre ++ (sg ++ ds) ++ rest). set (c1 := len pre + len (sg ++ ds)).
    assert (Lc1 : c1 <= len s) by (unfold s, c1; rewrite !len_app; lia).
    assert (Back : setc s c1 (fun c' => POk (OInt (signed neg (dec_val ds))) c') = POk (OInt (signed neg (dec_val ds))) c1)
      by (apply setc_ok; assumption).
    specialize (Hla _ eq_refl). fold s c1 in Hla.
    pose proof (ws_eol_np false s c1 Lc1) as F1.
    destruct (ws_eol false s c1) as [u c2| | |] eqn:E1; try contradiction; [|exact Back].
    destruct u as [[x a] b]. destruct (ws_eol_span false s c1 x a b c2 Lc1 E1) as (_ & _ & _ & Lc2 & _).
    assert (Lc2' : c2 <= len s) by (destruct (ws_eol_span false s c1 x a b c2 Lc1 E1) as (_ & <- & _ & L & _); exact L).
    pose proof (integer_np s c2 Lc2') as F2.
    destruct (integer s c2) as [i c3| | |] eqn:E2; try contradiction; [|exact Back].
    destruct i as [[iv ia] ib].
    assert (Lc3 : c3 <= len s) by (destruct (integer_span s c2 iv ia ib c3 Lc2' E2) as (_ & <- & _ & L & _); exact L).
    pose proof (ws_eol_np false s c3 Lc3) as F3.
    destruct (ws_eol false s c3) as [u' c4| | |] eqn:E3; try contradiction; [|exact Back].
    destruct (check_prefix kw_R s c4) eqn:E4; [|exact Back].
    exfalso. apply Hla. exists (x, a, b), c2, (iv, ia, ib), c3, u', c4. repeat split; assumption.
  - (* integer beyond i64: the real m/1 *)
    rewrite (real_spec_int neg sg ds pre rest) by assumption. cbn [bind lv_val fst snd].
    assert (Hi' : ((- i64_max - 1 <=? signed neg (dec_val ds)) && (signed neg (dec_val ds) <=? i64_max))%Z = false).
    { destruct (_ && _)%bool eqn:E; [|reflexivity]. exfalso. apply Hi, in_i64_dec, E. }
    unfold real_is_integer. rewrite Hi'. reflexivity.
  - (* real *)
    rewrite <- !app_assoc. cbn [app].
    pose proof (real_spec_frac neg sg ds fs pre rest Hs Hd Hn Hf Hm Hq (num_stop_digit _ Hr)) as E.
    cbv zeta in E. rewrite <- !app_assoc in E. cbn [app] in E. rewrite E. cbn [bind lv_val fst snd].
    assert (D : (10 ^ Z.of_nat (len fs) =? 1)%Z = false).
    { apply Z.eqb_neq. assert (len fs <> 0) by (destruct fs; [contradiction|discriminate]).
      pose proof (pow10_gt1 (len fs) H). lia. }
    unfold real_is_integer. rewrite D. destruct (_ && _)%bool; reflexivity.
Qed.
