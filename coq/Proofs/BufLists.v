(* Proofs/BufLists.v — C17: list facts used by the step lemmas (sub-lists of sub-lists, the
   windows()-based scan loops against the declarative find functions). *)
From PV Require Import Model.Buf Proofs.BufSpec.
From Coq Require Import ZifyBool ZifyNat ZifyN.
Local Open Scope N_scope.

Arguments W : simpl never.

(* ---------- checked arithmetic ---------- *)
Lemma W_gt : 4 < W.
Proof. reflexivity. Qed.

Lemma uadd_ok m a b : a + b < W -> uadd m a b = Ok (a + b).
Proof. intros H. unfold uadd. destruct (N.ltb_spec (a + b) W); [reflexivity | lia]. Qed.

Lemma usub_ok m a b : b <= a -> usub m a b = Ok (a - b).
Proof. intros H. unfold usub. destruct (N.leb_spec b a); [reflexivity | lia]. Qed.

Lemma lenN_app {A} (a b : list A) : lenN (a ++ b) = lenN a + lenN b.
Proof. unfold lenN. rewrite app_length. lia. Qed.

(* ---------- sub-lists (nat indices) ---------- *)
Lemma skipn_sub {A} (d : list A) s e o : (s <= o)%nat -> skipn (o - s) (sub d s e) = sub d o e.
Proof.
  intros H. unfold sub. rewrite skipn_firstn_comm, skipn_skipn'.
  f_equal; [lia | f_equal; lia].
Qed.

Lemma firstn_sub {A} (d : list A) s e o : (o <= e)%nat -> firstn (o - s) (sub d s e) = sub d s o.
Proof.
  intros H. unfold sub. rewrite firstn_firstn. f_equal. lia.
Qed.

Lemma sub_sub {A} (d : list A) s e a b : (s + b <= e)%nat -> sub (sub d s e) a b = sub d (s + a) (s + b).
Proof.
  intros H. unfold sub. rewrite skipn_firstn_comm, firstn_firstn, skipn_skipn'.
  f_equal; [lia | f_equal; lia].
Qed.

Lemma hd_error_firstn {A} (l : list A) k : hd_error (firstn (S k) l) = hd_error l.
Proof. destruct l; reflexivity. Qed.

Lemma nth_error_sub {A} (d : list A) s e i : (s + i < e)%nat -> nth_error (sub d s e) i = nth_error d (s + i).
Proof.
  intros H. rewrite !nth_error_skipn. replace i with ((s + i) - s)%nat at 1 by lia.
  rewrite skipn_sub by lia. unfold sub.
  replace (e - (s + i))%nat with (S (e - (s + i) - 1)) by lia. apply hd_error_firstn.
Qed.

Lemma nth_error_sub_none {A} (d : list A) s e : (s <= e)%nat -> (e <= List.length d)%nat -> nth_error (sub d s e) (e - s) = None.
Proof. intros H1 H2. apply nth_error_None. rewrite sub_length by lia. lia. Qed.

Lemma skipn_app_le {A} (a b : list A) n : (n <= List.length a)%nat -> skipn n (a ++ b) = skipn n a ++ b.
Proof. intros H. rewrite skipn_app. replace (n - List.length a)%nat with 0%nat by lia. reflexivity. Qed.

Lemma firstn_app_all {A} (a b : list A) n : n = (List.length a + List.length b)%nat -> firstn n (a ++ b) = a ++ b.
Proof. intros ->. rewrite <- app_length. apply firstn_all. Qed.

(* the window after an append that first truncates to the end of the view *)
Lemma sub_append {A} (d b : list A) s e :
  (s <= e)%nat -> (e <= List.length d)%nat ->
  sub (firstn e d ++ b) s (e + List.length b) = sub d s e ++ b.
Proof.
  intros H1 H2. unfold sub. rewrite skipn_app_le by (rewrite firstn_length; lia).
  rewrite firstn_app_all.
  - f_equal. rewrite firstn_skipn_comm. f_equal. f_equal. lia.
  - rewrite skipn_length, firstn_length. lia.
Qed.

(* the window after a drop *)
Lemma sub_drop {A} (d : list A) s e n : (s + n <= e)%nat ->
  sub (skipn (s + n) d) 0 (e - (s + n)) = skipn n (sub d s e).
Proof.
  intros H. unfold sub. rewrite skipn_firstn_comm, !skipn_skipn'.
  f_equal; [lia | f_equal; lia].
Qed.

(* ---------- prefixes ---------- *)
Lemma prefixb_firstn t l : prefixb t (firstn (List.length t) l) = prefixb t l.
Proof.
  revert l; induction t as [|x t IH]; intros l; [reflexivity|].
  destruct l as [|y l]; [reflexivity|]. cbn [List.length firstn prefixb]. rewrite IH. reflexivity.
Qed.

Lemma prefixb_long t l : (List.length l < List.length t)%nat -> prefixb t l = false.
Proof.
  revert l; induction t as [|x t IH]; intros l H; [cbn in H; lia|].
  destruct l as [|y l]; [reflexivity|]. cbn [prefixb]. rewrite IH by (cbn in H; lia). apply andb_false_r.
Qed.

Lemma prefixb_true_len t l : prefixb t l = true -> (List.length t <= List.length l)%nat.
Proof.
  intros H. destruct (Nat.le_gt_cases (List.length t) (List.length l)) as [|G]; [assumption|].
  rewrite prefixb_long in H by assumption. discriminate.
Qed.

(* ---------- forward scan ---------- *)
Lemma find_tag_long t l : (List.length l < List.length t)%nat -> find_tag t l = None.
Proof.
  revert t; induction l as [|x l IH]; intros t H; cbn [find_tag].
  - rewrite prefixb_long by assumption. reflexivity.
  - rewrite prefixb_long by assumption. rewrite IH by (cbn in H; lia). reflexivity.
Qed.

Lemma find_tag_bound t l j : find_tag t l = Some j -> j + lenN t <= lenN l.
Proof.
  revert j; induction l as [|x l IH]; intros j; cbn [find_tag].
  - destruct (prefixb t []) eqn:E; [|discriminate]. intros [= <-].
    apply prefixb_true_len in E. unfold lenN. lia.
  - destruct (prefixb t (x :: l)) eqn:E.
    + intros [= <-]. apply prefixb_true_len in E. unfold lenN. lia.
    + destruct (find_tag t l) as [k|]; [|discriminate]. cbn. intros [= <-].
      specialize (IH k eq_refl). unfold lenN in *. cbn [List.length]. lia.
Qed.

Lemma scan_loop_find t s k : t <> [] ->
  scan_loop t (windows (List.length t) s) k =
  match find_tag t s with Some j => Some (k + j) | None => None end.
Proof.
  intros Ht. revert k; induction s as [|x s IH]; intros k.
  - cbn [windows scan_loop find_tag]. destruct t; [congruence | reflexivity].
  - cbn [windows find_tag].
    destruct (Nat.leb_spec (List.length t) (List.length (x :: s))) as [L|L].
    + cbn [scan_loop]. rewrite prefixb_firstn.
      destruct (prefixb t (x :: s)); [f_equal; lia|].
      rewrite IH. destruct (find_tag t s); cbn; [f_equal; lia | reflexivity].
    + cbn [scan_loop]. rewrite prefixb_long by assumption.
      rewrite find_tag_long by (cbn in L; cbn; lia). reflexivity.
Qed.

(* ---------- backward scan ---------- *)
Lemma find_last_long t l : (List.length l < List.length t)%nat -> find_last t l = None.
Proof.
  revert t; induction l as [|x l IH]; intros t H; cbn [find_last].
  - rewrite prefixb_long by assumption. reflexivity.
  - rewrite IH by (cbn in H; lia). rewrite prefixb_long by assumption. reflexivity.
Qed.

Lemma find_last_nil l : find_last [] l = Some (lenN l).
Proof.
  induction l as [|x l IH]; [reflexivity|]. cbn [find_last]. rewrite IH. f_equal. unfold lenN. cbn [List.length]. lia.
Qed.

Lemma windows_length n s : (1 <= n)%nat ->
  List.length (windows n s) = if Nat.leb n (List.length s) then (List.length s + 1 - n)%nat else 0%nat.
Proof.
  intros Hn. induction s as [|x s IH].
  - cbn [windows List.length]. destruct (Nat.leb_spec n 0); [lia | reflexivity].
  - cbn [windows]. destruct (Nat.leb_spec n (List.length (x :: s))) as [L|L]; [|reflexivity].
    cbn [List.length] in *. rewrite IH. destruct (Nat.leb_spec n (List.length s)); lia.
Qed.

Lemma bscan_loop_app m t a b skip :
  bscan_loop m t (a ++ b) skip =
  match bscan_loop m t a skip with Some r => Some r | None => bscan_loop m t b (skip + lenN a) end.
Proof.
  revert skip; induction a as [|w a IH]; intros skip.
  - cbn. f_equal. unfold lenN; cbn. lia.
  - cbn [app bscan_loop]. destruct (prefixb t w); [reflexivity|].
    rewrite IH. destruct (bscan_loop m t a (skip + 1)); [reflexivity|].
    f_equal. unfold lenN. cbn [List.length]. lia.
Qed.

Definition bret (m : mode) (t : bytes) (x : N) : res N := (y <- uadd m x (lenN t);; usub m y 1).

Lemma bscan_loop_find m t s skip : t <> [] ->
  match find_last t s with
  | Some p => exists i, p + lenN t + i = lenN s /\
                        bscan_loop m t (rev (windows (List.length t) s)) skip = Some (bret m t (skip + i))
  | None => bscan_loop m t (rev (windows (List.length t) s)) skip = None
  end.
Proof.
  intros Ht. assert (Hn : (1 <= List.length t)%nat) by (destruct t; [congruence | cbn; lia]).
  induction s as [|x s IH].
  - cbn [find_last windows rev bscan_loop]. destruct t; [congruence | reflexivity].
  - cbn [find_last windows].
    destruct (Nat.leb_spec (List.length t) (List.length (x :: s))) as [L|L].
    + cbn [rev]. rewrite bscan_loop_app.
      destruct (find_last t s) as [p|].
      * destruct IH as (i & Hi & ->). exists i. split; [|reflexivity].
        unfold lenN in *. cbn [List.length]. lia.
      * rewrite IH. cbn [bscan_loop]. rewrite prefixb_firstn.
        destruct (prefixb t (x :: s)); [|reflexivity].
        exists (lenN (rev (windows (List.length t) s))). split; [|reflexivity].
        unfold lenN. rewrite rev_length, windows_length by assumption. cbn [List.length] in *.
        destruct (Nat.leb_spec (List.length t) (List.length s)); lia.
    + rewrite find_last_long by (cbn in L; lia). rewrite prefixb_long by assumption.
      reflexivity.
Qed.

(* ---------- take_while ---------- *)
Lemma take_while_len f s : lenN (take_while f s) <= lenN s.
Proof.
  induction s as [|b s IH]; cbn [take_while]; [lia|].
  destruct (f b); unfold lenN in *; cbn [List.length]; lia.
Qed.
