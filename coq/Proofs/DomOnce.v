(* Proofs/DomOnce.v — C11_once: on success the recorded ids are exactly the objects reachable from the
   root node through /Kids of page-tree nodes, each recorded once.  Work-queue invariant:
   examined = recorded ∪ queued (disjoint, duplicate-free), examined ⊆ reachable, and examined is closed
   under the kids of the root and of every recorded node. *)
From PV Require Import Model.Dom Spec.DomSpec Proofs.DomFollow Proofs.DomInv.

Lemma get_name_dget d k s : get_name d k = Some s -> dget d k = Some (OName s).
Proof. unfold get_name. destruct (dget d k) as [[]|]; try discriminate. intros H; inversion H; reflexivity. Qed.

Lemma NoDup_snoc {A} (l : list A) x : NoDup l -> ~ In x l -> NoDup (l ++ [x]).
Proof.
  induction l as [|y l IH]; intros Hd Hn; cbn.
  - constructor; [intros [] | constructor].
  - inversion Hd; subst. constructor.
    + rewrite in_app_iff. intros [H|[H|[]]]; [auto | subst; apply Hn; left; reflexivity].
    + apply IH; auto. intros H; apply Hn; right; exact H.
Qed.

Section Once.
  Variable c : octx.

  (* queue well-formedness relative to the recorded keys K *)
  Definition qinv (K : list Dom.oid) (q : cq) : Prop :=
    NoDup K /\ NoDup (List.map qid (q_nodes q)) /\
    (forall x, In x K -> ~ In x (List.map qid (q_nodes q))) /\
    (forall x, In x (q_examined q) <-> In x K \/ In x (List.map qid (q_nodes q))) /\
    (forall e, In e (q_nodes q) -> lookup c (qid e) = Some (snd e)).

  Lemma cq_add_qinv K q id r o :
    qinv K q -> lookup c id = Some o -> qinv K (cq_add q id r o).
  Proof.
    intros (HK & HN & HD & HE & HL) L. unfold cq_add.
    destruct (oid_mem id (q_examined q)) eqn:M; [repeat split; auto; apply HE|].
    apply oid_mem_false in M.
    assert (M1 : ~ In id K) by (intros H; apply M, HE; auto).
    assert (M2 : ~ In id (List.map qid (q_nodes q))) by (intros H; apply M, HE; auto).
    unfold qinv. cbn [q_nodes q_examined]. rewrite map_app. cbn [List.map qid fst].
    repeat split.
    - exact HK.
    - apply NoDup_snoc; auto.
    - intros x Hx. rewrite in_app_iff. intros [H|[H|[]]]; [eapply HD; eauto | subst; auto].
    - intros [H|H]; [subst; right; rewrite in_app_iff; right; left; reflexivity|].
      apply HE in H as [H|H]; [left; auto | right; rewrite in_app_iff; left; auto].
    - rewrite in_app_iff. intros [H|[H|[H|[]]]].
      + right. apply HE. auto.
      + right. apply HE. auto.
      + left. auto.
    - intros e. rewrite in_app_iff. intros [H|[H|[]]]; [auto | subst e; exact L].
  Qed.

  Lemma add_kids_qinv K r : forall ids q, qinv K q -> qinv K (add_kids c r ids q).
  Proof.
    induction ids as [|id ids IH]; intros q Q; [exact Q|].
    change (add_kids c r (id :: ids) q) with (add_kids c r ids (add_kid c r q id)).
    apply IH. unfold add_kid. destruct (lookup c id) eqn:L; [apply cq_add_qinv; auto | exact Q].
  Qed.

  Lemma cq_add_examined q id r o x :
    In x (q_examined (cq_add q id r o)) <-> In x (q_examined q) \/ x = id.
  Proof.
    unfold cq_add. destruct (oid_mem id (q_examined q)) eqn:M.
    - apply oid_mem_In in M. split; [auto | intros [H|H]; [auto | subst; auto]].
    - cbn [q_examined In]. split; intros [H|H]; auto.
  Qed.

  Lemma add_kids_examined r : forall ids q x,
    In x (q_examined (add_kids c r ids q)) <-> In x (q_examined q) \/ (In x ids /\ defined c x).
  Proof.
    induction ids as [|id ids IH]; intros q x.
    - cbn. intuition.
    - change (add_kids c r (id :: ids) q) with (add_kids c r ids (add_kid c r q id)).
      rewrite IH. unfold add_kid, defined. fold (lookup c x). cbn [In].
      destruct (lookup c id) as [o|] eqn:L.
      + rewrite cq_add_examined. split.
        * intros [[H|H]|[H1 H2]]; auto. subst. right. split; [auto|]. congruence.
        * intros [H|[[H|H] H2]]; auto.
      + split.
        * intros [H|[H1 H2]]; auto.
        * intros [H|[[H|H] H2]]; auto. subst. congruence.
  Qed.

  (* taking the head entry off the queue and recording it *)
  Lemma qinv_pop K K' e rest ex :
    qinv K (mkq (e :: rest) ex) -> NoDup K' -> (forall x, In x K' <-> x = qid e \/ In x K) ->
    qinv K' (mkq rest ex).
  Proof.
    intros (HK & HN & HD & HE & HL) HK' HI. cbn [q_nodes q_examined List.map] in *.
    inversion HN; subst. repeat split; auto.
    - intros x Hx. apply HI in Hx as [Hx|Hx]; [subst; auto|].
      intros H. eapply HD; [exact Hx | right; exact H].
    - intros H. apply HE in H as [H|[H|H]]; [left; apply HI; auto | left; apply HI; auto | auto].
    - intros [H|H]; apply HE; [apply HI in H as [H|H]; [right; left; auto | auto] | right; right; auto].
    - intros e' He'. apply HL. right. exact He'.
  Qed.

  Variable root : obj.

  Definition once_inv (q : cq) (pg : pages) : Prop :=
    qinv (List.map fst pg) q /\
    (forall x, In x (q_examined q) -> reachable c root x) /\
    (forall x, kid_of c root x -> In x (q_examined q)) /\
    (forall id o x, In id (List.map fst pg) -> lookup c id = Some o -> is_pages o -> kid_of c o x ->
                    In x (q_examined q)).

  Lemma kid_of_listed d v a x :
    dget d (B "Kids") = Some v -> resolves c v (OArr a) ->
    (kid_of c (ODict d) x <-> In x (refs_of a) /\ defined c x).
  Proof.
    intros K R. split.
    - intros (d' & v' & a' & E & K' & R' & HI & HD). inversion E; subst d'.
      unfold dget in K. rewrite K in K'. inversion K'; subst v'.
      assert (Ea : OArr a = OArr a') by (eapply resolves_det; eauto). inversion Ea; subst. auto.
    - intros [HI HD]. exists d, v, a. auto.
  Qed.

  Lemma once_step_node id r d rest ex n q' pg :
    once_inv (mkq ((id, r, ODict d) :: rest) ex) pg ->
    get_name d (B "Type") = Some (B "Pages") ->
    to_page_tree_node c (mkq rest ex) r (ODict d) = DOk (n, q') ->
    once_inv q' (pages_insert id n pg).
  Proof.
    intros (Q & HR & HC0 & HC) T TN.
    apply to_page_tree_node_ok in TN as (d0 & parent & res & count & v & a & E & NR & K & R & Hq & Hn).
    inversion E; subst d0. subst q'.
    assert (Qid : In id (q_examined (mkq ((id, r, ODict d) :: rest) ex))).
    { destruct Q as (_ & _ & _ & HE & _). apply HE. right. left. reflexivity. }
    assert (Lid : lookup c id = Some (ODict d)).
    { destruct Q as (_ & _ & _ & _ & HL). apply (HL (id, r, ODict d)). left. reflexivity. }
    assert (Nid : ~ In id (List.map fst pg)).
    { destruct Q as (_ & _ & HD & _). intros H. eapply HD; [exact H | left; reflexivity]. }
    assert (Pg : is_pages (ODict d)).
    { exists d. split; [reflexivity | apply get_name_dget in T; exact T]. }
    split; [|split; [|split]].
    - apply add_kids_qinv. eapply qinv_pop; [exact Q | |].
      + apply pages_insert_nodup; [exact Nid | apply Q].
      + intros x. apply pages_insert_keys.
    - intros x Hx. apply add_kids_examined in Hx as [Hx|[Hx Hd]]; [apply HR; exact Hx|].
      eapply reach_step; [apply HR; exact Qid | exact Lid | exact Pg |].
      eapply kid_of_listed; eauto.
    - intros x Hx. apply add_kids_examined. left. apply HC0. exact Hx.
    - intros id0 o x Hin L P Kx. apply add_kids_examined.
      apply pages_insert_keys in Hin as [->|Hin].
      + rewrite Lid in L. inversion L; subst o. right. eapply kid_of_listed; eauto.
      + left. eapply HC; eauto.
  Qed.

  Lemma once_step_page id r d rest ex p pg :
    once_inv (mkq ((id, r, ODict d) :: rest) ex) pg ->
    get_name d (B "Type") = Some (B "Page") ->
    to_page c r (ODict d) = DOk p ->
    once_inv (mkq rest ex) (pages_insert id p pg).
  Proof.
    intros (Q & HR & HC0 & HC) T TP.
    assert (Lid : lookup c id = Some (ODict d)).
    { destruct Q as (_ & _ & _ & _ & HL). apply (HL (id, r, ODict d)). left. reflexivity. }
    assert (Nid : ~ In id (List.map fst pg)).
    { destruct Q as (_ & _ & HD & _). intros H. eapply HD; [exact H | left; reflexivity]. }
    split; [|split; [|split]].
    - eapply qinv_pop; [exact Q | |].
      + apply pages_insert_nodup; [exact Nid | apply Q].
      + intros x. apply pages_insert_keys.
    - exact HR.
    - exact HC0.
    - intros id0 o x Hin L P Kx.
      apply pages_insert_keys in Hin as [->|Hin]; [|eapply HC; eauto].
      exfalso. rewrite Lid in L. inversion L; subst o.
      destruct P as (d' & E & T'). inversion E; subst d'.
      apply get_name_dget in T. unfold dget in T. rewrite T in T'. inversion T'.
  Qed.

  Lemma once_final ex pg :
    once_inv (mkq [] ex) pg ->
    (forall id, In id (List.map fst pg) <-> reachable c root id) /\ NoDup (List.map fst pg).
  Proof.
    intros ((HK & _ & _ & HE & _) & HR & HC0 & HC). cbn [q_nodes q_examined List.map] in *.
    assert (EX : forall x, In x ex <-> In x (List.map fst pg)).
    { intros x. rewrite HE. cbn [In]. intuition. }
    split; [|exact HK]. intros id. split.
    - intros H. apply HR, EX, H.
    - induction 1 as [id Hk | id o id' Hr IH L P Hk].
      + apply EX, HC0, Hk.
      + apply EX. eapply HC; eauto.
  Qed.
End Once.

(* the root page-tree node of a catalog object *)
Definition root_node (c : octx) (cat root : obj) : Prop :=
  exists d n g, cat = ODict d /\ dict_get d (B "Pages") = Some (ORef n g) /\ octx_get c (n, g) = Some root.

Lemma to_catalog_root c q cat res count kids q' root :
  to_catalog c q cat = DOk (res, count, kids, q') -> root_node c cat root ->
  to_root_page_tree_node c q root = DOk (res, count, kids, q').
Proof.
  intros TC (d & n & g & E & P & L).
  apply to_catalog_ok in TC as (d' & rid & root' & E' & G & L' & TR).
  rewrite E in E'. inversion E'; subst d'.
  unfold get_ref, dget in G. rewrite P in G. inversion G; subst rid.
  unfold lookup in L'. rewrite L in L'. inversion L'; subst root'. exact TR.
Qed.

Lemma once_init c root res count kids q :
  to_root_page_tree_node c cq_new root = DOk (res, count, kids, q) -> once_inv c root q [].
Proof.
  intros TR. apply to_root_ok in TR as (d & v & a & E & NR & K & R & Hq & Hk). subst.
  split; [|split; [|split]].
  - apply add_kids_qinv. repeat split; cbn; try constructor; intuition.
  - intros x Hx. apply add_kids_examined in Hx as [[]|[Hx Hd]].
    apply reach_root. eapply kid_of_listed; eauto.
  - intros x Hx. apply add_kids_examined. right. eapply kid_of_listed; eauto.
  - intros id o x [].
Qed.

Theorem to_page_dom_once n c cat res pg :
  to_page_dom n c cat = DOk (res, pg) ->
  forall root, root_node c cat root ->
    (forall id, In id (List.map fst pg) <-> reachable c root id) /\ NoDup (List.map fst pg).
Proof.
  unfold to_page_dom. intros H root RN.
  destruct (to_catalog c cq_new cat) as [[[[res0 count] kids] q]| |] eqn:TC; try discriminate.
  destruct (dom_loop n c q []) as [pg0| |] eqn:DL; try discriminate. inversion H; subst.
  eapply to_catalog_root in TC; [|exact RN]. apply once_init in TC.
  destruct (dom_loop_rule c (once_inv c root) (once_step_node c root) (once_step_page c root) _ _ _ _ TC DL)
    as [ex F].
  eapply once_final; eauto.
Qed.

(* a successful construction has a root node *)
Lemma to_page_dom_root n c cat res pg :
  to_page_dom n c cat = DOk (res, pg) -> exists root, root_node c cat root.
Proof.
  unfold to_page_dom. intros H.
  destruct (to_catalog c cq_new cat) as [[[[res0 count] kids] q]| |] eqn:TC; try discriminate.
  apply to_catalog_ok in TC as (d & rid & root & E & G & L & _).
  exists root, d, (fst rid), (snd rid). subst. split; [reflexivity|].
  unfold get_ref, dget in G. destruct (dict_get d (B "Pages")) as [[]|]; try discriminate.
  inversion G; subst. cbn [fst snd]. auto.
Qed.
