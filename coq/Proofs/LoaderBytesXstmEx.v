(* Proofs/LoaderBytesXstmEx.v — C03b: the hypotheses of the end-to-end theorem for the cross-reference stream layout
   are satisfiable: the two-object document of Proofs/LoaderBytesEx.v with a /W [1 1 1] cross-reference stream. *)
From PV Require Import Model.Obj Model.XrefTab Model.XrefStm Model.Loader Model.LoaderBytes Spec.Spelling Spec.XrefEnc Spec.RenderClassic Spec.RenderXrefStm.
From PV Require Import Proofs.XrefBase Proofs.XrefTab Proofs.XrefStm Proofs.ObjStream Proofs.ObjTok Proofs.ObjNum Proofs.ObjSpell Proofs.ObjC02
     Proofs.LoaderBytesBase Proofs.LoaderBytesObj Proofs.LoaderBytesSect Proofs.LoaderBytesMain Proofs.LoaderBytesEx
     Proofs.LoaderBytesHistEx Proofs.LoaderBytesXstm.
From Coq Require Import Lia.
Close Scope N_scope.

(* behind an integer: white space, another integer, then something that is not  ws+ R  — never read as a reference *)
Lemma int_follow_int w1 k n w2 x rest :
  ws w1 -> 1 <= k -> (n < 10 ^ N.of_nat k)%N -> (n < i64_lim)%N -> ws w2 ->
  memb x ws_eol_set = false -> x <> 37%N -> (w2 <> [] \/ is_digit x = false) -> x <> 82%N ->
  int_follow_sem (w1 ++ digits k n ++ w2 ++ x :: rest).
Proof.
  intros W1 K B1 B2 W2 X1 X2 X3 X4 s c Hc Hk (u & c2 & i & c3 & u' & c4 & E1 & E2 & E3 & E4).
  assert (H : at_cur s c (w1 ++ digits k n ++ w2 ++ x :: rest)) by (split; assumption).
  destruct w1 as [|y w1'] eqn:Ew1.
  - destruct (at_cur_pre _ _ _ H) as (pre & -> & ->). cbn [app] in E1.
    rewrite ws_eol_empty_rejected in E1 by (apply digits_ws_stop, K). discriminate.
  - rewrite <- Ew1 in *. rewrite (ws_eol_at false w1 s c _ H W1 (digits_ws_stop _ _ _ K)) in E1 by (right; subst; discriminate).
    injection E1 as _ <-. apply at_cur_app in H.
    assert (SD : stops_digit (w2 ++ x :: rest)).
    { destruct X3 as [X3|X3]; [apply ws_first_not_digit; assumption|apply ws_then_not_digit; assumption]. }
    rewrite (integer_ok k n s _ _ H K B1 B2 SD) in E2. injection E2 as _ <-.
    apply at_cur_app in H. rewrite digits_len in H.
    destruct w2 as [|z w2'] eqn:Ew2.
    + destruct (at_cur_pre _ _ _ H) as (pre & Es & Ec). rewrite Es, Ec in E3. cbn [app] in E3.
      rewrite ws_eol_empty_rejected in E3 by (split; assumption). discriminate.
    + rewrite <- Ew2 in *. rewrite (ws_eol_at false w2 s _ _ H W2 (conj X1 X2)) in E3 by (right; subst; discriminate).
      injection E3 as _ <-. apply at_cur_app in H. rewrite (check_prefix_cur _ _ _ _ H) in E4. cbn [kw_R prefixb] in E4.
      destruct (N.eqb_spec 82 x); [congruence|discriminate].
Qed.

Definition xx_dict : list (bytes * obj) :=
  [(B "Index", OArr [OInt 0; OInt 3]); (B "Length", OInt 9); (B "Root", ORef 1 0); (B "Size", OInt 3);
   (B "Type", OName (B "XRef")); (B "W", OArr [OInt 1; OInt 1; OInt 1])].

Definition xx_sp : bytes := B "<</Type/XRef/Size 3/W[1 1 1]/Index[0 3]/Root 1 0 R/Length 9>>".

Lemma xd1 d : (48 <= d <= 57)%N -> forall n, spells int_follow_sem (S n) (OInt (Z.of_N d - 48)) [d].
Proof.
  intros Hd n. apply sp_number.
  replace (OInt (Z.of_N d - 48)) with (OInt (signed false (dec_val [d]))) by (cbn; f_equal; lia).
  apply (sp_int false [] [d]); [constructor|discriminate| |].
  - repeat constructor. unfold digitb. apply Proofs.XrefTab.digit_in_set. unfold is_digit. apply andb_true_iff. split; apply N.leb_le; lia.
  - unfold in_i64, signed, dec_val, i64_maxZ. cbn. lia.
Qed.

Ltac ws1 := repeat (apply ws_byte; [reflexivity|]); apply ws_nil.
Ltac iflw := intros outer; split; [reflexivity|apply int_follow_ws_stop; split; [reflexivity|discriminate]].

Lemma xx_spells : spells' 50 (ODict xx_dict) xx_sp.
Proof.
  apply (sp_dict _ 49 [(B "Type", OName (B "XRef")); (B "Size", OInt 3); (B "W", OArr [OInt 1; OInt 1; OInt 1]);
                       (B "Index", OArr [OInt 0; OInt 3]); (B "Root", ORef 1 0); (B "Length", OInt 9)]
                 (B "/Type/XRef/Size 3/W[1 1 1]/Index[0 3]/Root 1 0 R/Length 9")); [|reflexivity].
  apply (entries_cons _ 49 [] (B "Type") (B "Type") [] (OName (B "XRef")) (B "/XRef") _ (B "/Size 3/W[1 1 1]/Index[0 3]/Root 1 0 R/Length 9")).
  { constructor. } { apply ex_name_raw. repeat constructor; discriminate. } { constructor. } { intros _. reflexivity. }
  { apply (sp_name _ 48 (B "XRef") (B "XRef")). apply ex_name_raw. repeat constructor; discriminate. }
  2:{ intros outer. reflexivity. }
  apply (entries_cons _ 49 [] (B "Size") (B "Size") (B " ") (OInt 3) (B "3") _ (B "/W[1 1 1]/Index[0 3]/Root 1 0 R/Length 9")).
  { constructor. } { apply ex_name_raw. repeat constructor; discriminate. } { ws1. } { discriminate. }
  { exact (xd1 51 ltac:(lia) 48). }
  2:{ iflw. }
  apply (entries_cons _ 49 [] (B "W") (B "W") [] (OArr [OInt 1; OInt 1; OInt 1]) (B "[1 1 1]") _ (B "/Index[0 3]/Root 1 0 R/Length 9")).
  { constructor. } { apply ex_name_raw. repeat constructor; discriminate. } { constructor. } { intros _. reflexivity. }
  { apply (sp_arr _ 48 _ (B "1 1 1")).
    apply (items_cons _ 48 [] (OInt 1) (B "1") _ (B " 1 1")); [constructor|exact (xd1 49 ltac:(lia) 47)| |].
    - apply (items_cons _ 48 (B " ") (OInt 1) (B "1") _ (B " 1")); [ws1|exact (xd1 49 ltac:(lia) 47)| |].
      + apply (items_cons _ 48 (B " ") (OInt 1) (B "1") [] []); [ws1|exact (xd1 49 ltac:(lia) 47)|repeat constructor|].
        intros outer. split; [reflexivity|]. apply int_follow_ws_stop. split; [reflexivity|discriminate].
      + intros outer. split; [reflexivity|].
        apply (int_follow_int (B " ") 1 1 [] 93%N outer); [ws1|lia|reflexivity|reflexivity|constructor|reflexivity|discriminate|right; reflexivity|discriminate].
    - intros outer. split; [reflexivity|].
      apply (int_follow_int (B " ") 1 1 (B " ") 49%N (93%N :: outer)); [ws1|lia|reflexivity|reflexivity|ws1|reflexivity|discriminate|left; discriminate|discriminate]. }
  2:{ intros outer. exact I. }
  apply (entries_cons _ 49 [] (B "Index") (B "Index") [] (OArr [OInt 0; OInt 3]) (B "[0 3]") _ (B "/Root 1 0 R/Length 9")).
  { constructor. } { apply ex_name_raw. repeat constructor; discriminate. } { constructor. } { intros _. reflexivity. }
  { apply (sp_arr _ 48 _ (B "0 3")).
    apply (items_cons _ 48 [] (OInt 0) (B "0") _ (B " 3")); [constructor|exact (xd1 48 ltac:(lia) 47)| |].
    - apply (items_cons _ 48 (B " ") (OInt 3) (B "3") [] []); [ws1|exact (xd1 51 ltac:(lia) 47)|repeat constructor|].
      intros outer. split; [reflexivity|]. apply int_follow_ws_stop. split; [reflexivity|discriminate].
    - intros outer. split; [reflexivity|].
      apply (int_follow_int (B " ") 1 3 [] 93%N outer); [ws1|lia|reflexivity|reflexivity|constructor|reflexivity|discriminate|right; reflexivity|discriminate]. }
  2:{ intros outer. exact I. }
  apply (entries_cons _ 49 [] (B "Root") (B "Root") (B " ") (ORef 1 0) (B "1 0 R") _ (B "/Length 9")).
  { constructor. } { apply ex_name_raw. repeat constructor; discriminate. } { ws1. } { discriminate. }
  { apply (sp_ref _ 48 1 0 (B "1") (B " ") (B "0") (B " ")); [exact ex_nat1|ws1|discriminate|exact ex_nat0|ws1|discriminate]. }
  2:{ intros outer. reflexivity. }
  apply (entries_cons _ 49 [] (B "Length") (B "Length") (B " ") (OInt 9) (B "9") [] []).
  { constructor. } { apply ex_name_raw. repeat constructor; discriminate. } { ws1. } { discriminate. }
  { exact (xd1 57 ltac:(lia) 48). } { repeat constructor. } { iflw. }
Qed.

Definition ex_xlayout : xlayout :=
  mk_xlayout [] (B "1.5" ++ [10%N]) (l_objs ex_layout)
    (3, 0)%N xx_dict
    (mk_lobj 1 1 (B " ") (B " ") [10%N] xx_sp [10%N] [13; 10]%N [10%N] [10%N] [10%N])
    (1, 1, 1)
    [(0%N, [RFree 0 0; RInUse 0 0; RInUse 0 0])]
    [10%N] 2 [10%N] [10%N].

Example ex_xstm_bytes :
  render_xrefstm (d_objs ex_doc) ex_xlayout =
  B "%PDF-1.5" ++ [10%N] ++ B "1 0 obj /Catalog" ++ [10%N] ++ B "endobj" ++ [10%N] ++
  B "02 0 obj" ++ [10%N] ++ B "<</Length 3>>" ++ [10%N] ++ B "stream" ++ [10%N] ++ B "abc" ++ [10%N] ++ B "endstream" ++ [10%N] ++
  B "endobj% anything" ++ [10%N] ++
  B "3 0 obj" ++ [10%N] ++ xx_sp ++ [10%N] ++ B "stream" ++ [13; 10]%N ++ [0; 0; 0; 1; 9; 0; 1; 33; 0]%N ++ [10%N] ++ B "endstream" ++ [10%N] ++
  B "endobj" ++ [10%N] ++ B "startxref" ++ [10%N] ++ B "94" ++ [10%N] ++ B "%%EOF" ++ [10%N].
Proof. vm_compute. reflexivity. Qed.

Lemma ex_wf_xlayout : wf_xlayout ex_doc ex_xlayout.
Proof.
  constructor.
  - constructor.
    + vm_compute. reflexivity.
    + unfold wide. cbn. lia.
    + repeat constructor; cbn; try lia; try reflexivity.
    + vm_compute. reflexivity.
    + unfold wf_obj_k. cbn [fst snd ex_xlayout xl_id xl_dict xl_lo xl_w0 xl_w1 xl_w2 xl_w xl_parts lo_nw lo_gw lo_w1 lo_w2 lo_w3 lo_w4 lo_w5 lo_sp lo_eol1 lo_eol2].
      repeat split; try exact xx_spells; try lia; try (vm_compute; reflexivity); try discriminate; try ex_ws.
      * right. reflexivity.
      * right. right. left. reflexivity.
    + exists 3%N. unfold xref_dict_ok. repeat split; try reflexivity.
    + reflexivity.
    + reflexivity.
    + split; [repeat constructor|discriminate].
    + split; [cbn; lia|]. split; vm_compute; reflexivity.
    + repeat constructor.
    + repeat constructor; discriminate.
  - reflexivity.
  - exact (wl_objs _ _ ex_wf_layout).
  - vm_compute. repeat constructor; cbn; intuition discriminate.
  - intros e Hin U. vm_compute in Hin. destruct Hin as [<-|[<-|[<-|[]]]]; vm_compute in U; try discriminate; cbn; tauto.
  - intros id Hin. cbn in Hin. destruct Hin as [<-|[<-|[]]].
    + exists (mk_xent 1 0 (XrefTab.XInUse 0)). split; [vm_compute; tauto|]. split; reflexivity.
    + exists (mk_xent 2 0 (XrefTab.XInUse 0)). split; [vm_compute; tauto|]. split; reflexivity.
  - intros e Hin a b. vm_compute in Hin. destruct Hin as [<-|[<-|[<-|[]]]]; discriminate.
Qed.

Example ex_xstm_loaded :
  exists c, load_bytes false (render_xrefstm (d_objs ex_doc) ex_xlayout) = Loaded c (1, 0)%N /\
            ctx_get c (1, 0)%N = Some (VObj (OName (B "Catalog"))) /\
            ctx_get c (2, 0)%N = Some (VObj (OStream [(B "Length", OInt 3)] (B "abc"))) /\
            ctx_get c (3, 0)%N = None.
Proof.
  destruct (load_bytes_xrefstm false ex_doc ex_xlayout ex_wf_doc ex_wf_xlayout) as (c & L & K).
  exists c. split; [exact L|]. rewrite !K. repeat split.
Qed.
