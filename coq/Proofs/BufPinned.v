(* Proofs/BufPinned.v — C17, historical record: the six operations as they were in the PINNED tree
   (before the fix: commits 2e27534 ffb8e84 c5df65a 91c2b73 d07c841), transcribed literally as
   Model/Buf.v then was, and the witnesses on which that faithful model refuted the refinement
   statement.  The same witnesses are in corpus/c17.txt and were replayed on the real pinned code
   (DESIGN.md section 7 rows 31-34).  Model/Buf.v now transcribes the repaired code. *)
From PV Require Import Model.Buf Proofs.BufSpec.
Local Open Scope N_scope.

(* if self.start + ofs <= self.end { self.ofs = self.start + ofs; Ok(()) } else { Err(EndOfBuffer) } *)
Definition set_cursor_p (m : mode) (v : pb) (o : N) : res (rv * pb) :=
  a <- uadd m (st v) o;;
  if a <=? en v then Ok (RUnit, with_ofs v a) else Ok (RErr EEndOfBuffer, v).
(* fn check_cursor(&self, ofs) -> bool { self.start + ofs < self.end } *)
Definition check_cursor_p (m : mode) (v : pb) (o : N) : res (rv * pb) :=
  a <- uadd m (st v) o;; Ok (RBool (a <? en v), v).
(* assert!(self.start + ofs <= self.end); self.ofs = self.start + ofs *)
Definition set_cursor_unsafe_p (m : mode) (v : pb) (o : N) : res (rv * pb) :=
  a <- uadd m (st v) o;;
  if a <=? en v then Ok (RUnit, with_ofs v a) else Panic.
(* windows(0) panics *)
Definition scan_p (m : mode) (v : pb) (tag : bytes) : res (rv * pb) :=
  match tag with [] => Panic | _ => scan m v tag end.
Definition backward_scan_p (m : mode) (v : pb) (tag : bytes) : res (rv * pb) :=
  match tag with [] => Panic | _ => backward_scan m v tag end.
(* if self.ofs < self.start + len { false } else { let mut tail = b.split_off(self.start + len); b.clear();
   b.append(&mut tail); self.start = 0; self.ofs -= len; self.end = b.len(); true } *)
Definition drop_p (m : mode) (v : pb) (n : N) : res (rv * pb) :=
  if shared v then Ok (RBool false, v)
  else
    a <- uadd m (st v) n;;
    if ofs v <? a then Ok (RBool false, v)
    else if lenN (data v) <? a then Panic
    else
      let d := skipn (N.to_nat a) (data v) in
      o <- usub m (ofs v) n;;
      Ok (RBool true, {| data := d; st := 0; en := lenN d; ofs := o; shared := false |}).
(* self.end += buf.len(); b.extend_from_slice(buf); true *)
Definition append_p (m : mode) (v : pb) (b : bytes) : res (rv * pb) :=
  if shared v then Ok (RBool false, v)
  else
    e <- uadd m (en v) (lenN b);;
    Ok (RBool true, {| data := data v ++ b; st := st v; en := e; ofs := ofs v; shared := false |}).
(* if self.start + self.size <= buf.size() { Ok(new_view(..)) } else { Err(BoundsError) } *)
Definition restrict_view_p (m : mode) (v : pb) (a n : N) : res (rv * pb) :=
  e <- uadd m a n;;
  sz <- size m v;;
  if e <=? sz then (w <- new_view m v a n;; Ok (RUnit, w)) else Ok (RErr EBounds, v).

Definition step_p (m : mode) (v : pb) (o : op) : res (rv * pb) :=
  match o with
  | OSetCursor o => set_cursor_p m v o
  | OCheckCursor o => check_cursor_p m v o
  | OSetCursorU o => set_cursor_unsafe_p m v o
  | OScan t => scan_p m v t
  | OBScan t => backward_scan_p m v t
  | ODrop n => drop_p m v n
  | OAppend t => append_p m v t
  | OView a n => restrict_view_p m v a n
  | _ => step m v o
  end.

Fixpoint run_p (m : mode) (ops : list op) (v : pb) : list obs :=
  match ops with
  | [] => []
  | o :: rest =>
    match step_p m v o with
    | Ok (r, v') => match observe m v' with Ok s => OStep r s :: run_p m rest v' | _ => [OPanic] end
    | _ => [OPanic]
    end
  end.

Definition digits : bytes := [48;49;50;51;52;53;54;55;56;57].
(* the view [2,7) of "0123456789", cursor 1 (absolute 3) *)
Definition wit (sh : bool) : pb := {| data := digits; st := 2; en := 7; ofs := 3; shared := sh |}.

Lemma wit_Inv sh : Inv (wit sh).
Proof. unfold Inv, wit, lenN, W; cbn. lia. Qed.

Definition refuted_p (m : mode) (v : pb) (ops : list op) : Prop := Inv v /\ run_p m ops v <> run_r ops (abs v).

(* row 31: drop(1) -> size 7, cursor 2, the bytes "789" outside the window become visible *)
Lemma pinned_drop_refuted : forall m, refuted_p m (wit false) [ODrop 1].
Proof. intros m; split; [apply wit_Inv|]. destruct m; vm_compute; discriminate. Qed.

(* row 32: the window grows over "78", the appended byte is not visible *)
Lemma pinned_append_refuted : forall m, refuted_p m (wit false) [OAppend [65]].
Proof. intros m; split; [apply wit_Inv|]. destruct m; vm_compute; discriminate. Qed.

(* row 33 *)
Lemma pinned_empty_tag_refuted : forall m sh, refuted_p m (wit sh) [OScan []] /\ refuted_p m (wit sh) [OBScan []].
Proof. intros m sh; split; (split; [apply wit_Inv|]); destruct m, sh; vm_compute; discriminate. Qed.

(* row 34 *)
Lemma pinned_set_cursor_overflow_refuted : forall m sh,
  refuted_p m (wit sh) [OSetCursor (W - 1)] /\ refuted_p m (wit sh) [OCheckCursor (W - 1)] /\
  refuted_p Release (wit sh) [OSetCursorU (W - 1)] /\ refuted_p m (wit false) [ODrop (W - 1)].
Proof. intros m sh; repeat split; try apply wit_Inv; destruct m, sh; vm_compute; discriminate. Qed.

Lemma pinned_restrict_view_overflow_refuted : forall m sh, refuted_p m (wit sh) [OView (W - 1) 2].
Proof. intros m sh; split; [apply wit_Inv|]. destruct m, sh; vm_compute; discriminate. Qed.
