(* Proofs/ShippedAccept.v — every well-formed document of Spec/PageTreeSpec.v conforms, in the
   declarative semantics of Spec/Conforms.v, to the hand-written specification [spec_catalog]
   (which Proofs/ShippedFacts.v shows to be the dumped one). *)
From PV Require Import Proofs.TypeCheckSound.
From PV Require Import Spec.PageTreeSpec Proofs.ShippedApprox Proofs.ShippedKinds.

(* ---------- induction over kids (a nested inductive type) ---------- *)
Section KidInd.
Variable P : kid -> Prop.
Hypothesis HPage : forall i a, P (KPage i a).
Hypothesis HTemplate : forall i a, P (KTemplate i a).
Hypothesis HNode : forall i c ks ex, Forall P ks -> P (KNode i c ks ex).
Fixpoint kid_ind' (k : kid) : P k :=
  match k with
  | KPage i a => HPage i a
  | KTemplate i a => HTemplate i a
  | KNode i c ks ex =>
    HNode i c ks ex ((fix go (l : list kid) : Forall P l :=
                        match l with
                        | [] => Forall_nil P
                        | x :: r => Forall_cons x (kid_ind' x) (go r)
                        end) ks)
  end.
End KidInd.

Lemma kid_defs_node p i c ks ex :
  kid_defs p (KNode i c ks ex) = (i, node_obj (Some p) c ks ex) :: flat_map (kid_defs i) ks.
Proof. reflexivity. Qed.
Lemma kid_all_node p i c ks ex :
  kid_all p (KNode i c ks ex) = (p, KNode i c ks ex) :: flat_map (kid_all i) ks.
Proof. reflexivity. Qed.
Lemma kid_ok_node oc i c ks ex :
  kid_ok oc (KNode i c ks ex) <-> node_extra_ok ex /\ Forall (kid_ok oc) ks.
Proof.
  change (kid_ok oc (KNode i c ks ex)) with
    (node_extra_ok ex /\ (fix go (l : list kid) : Prop :=
                            match l with [] => True | x :: r => kid_ok oc x /\ go r end) ks).
  split; intros [H1 H2]; split; auto.
  - induction ks as [|x r IH]; constructor; destruct H2; auto.
  - induction ks as [|x r IH]; [exact I|]. inversion H2; subst. split; [assumption|]. apply IH. assumption.
Qed.

(* everything below a kid *)
Lemma kid_all_facts oc p0 k0 :
  kid_ok oc k0 ->
  forall p k, In (p, k) (kid_all p0 k0) ->
    In (kid_id k, kid_obj p k) (kid_defs p0 k0) /\ kid_ok oc k
    /\ (forall a, (exists i, k = KPage i a \/ k = KTemplate i a) -> incl (attrs_defs a) (kid_defs p0 k0))
    /\ (forall i c ks ex, k = KNode i c ks ex -> forall x, In x ks -> In (i, x) (kid_all p0 k0)).
Proof.
  revert p0. induction k0 as [i a|i a|i c ks ex IH] using kid_ind'; intros p0 Hok p k Hin.
  - simpl in Hin. destruct Hin as [Hin|[]]. inversion Hin; subst.
    split; [left; reflexivity|]. split; [exact Hok|]. split.
    + intros a' [j [Hj|Hj]]; inversion Hj; subst. intros x Hx. right. exact Hx.
    + intros; discriminate.
  - simpl in Hin. destruct Hin as [Hin|[]]. inversion Hin; subst.
    split; [left; reflexivity|]. split; [exact Hok|]. split.
    + intros a' [j [Hj|Hj]]; inversion Hj; subst. intros x Hx. right. exact Hx.
    + intros; discriminate.
  - rewrite kid_all_node in Hin. rewrite kid_defs_node. rewrite kid_all_node.
    apply kid_ok_node in Hok as [Hex Hks].
    destruct Hin as [Hin|Hin].
    + inversion Hin; subst. split; [|split; [|split]].
      * left. reflexivity.
      * apply kid_ok_node. auto.
      * intros a [j [Hj|Hj]]; discriminate.
      * intros i' c' ks' ex' Heq x Hx. inversion Heq; subst. right.
        apply in_flat_map. exists x. split; auto.
        destruct x; [simpl; auto | simpl; auto | rewrite kid_all_node; left; reflexivity].
    + apply in_flat_map in Hin as [x [Hx Hin]].
      rewrite Forall_forall in IH, Hks.
      destruct (IH x Hx i (Hks x Hx) p k Hin) as [H1 [H2 [H3 H4]]]. split; [|split; [|split]]; auto.
      * right. apply in_flat_map. exists x. auto.
      * intros a Ha y Hy. right. apply in_flat_map. exists x. split; auto. apply (H3 a Ha). exact Hy.
      * intros i' c' ks' ex' Heq y Hy. right. apply in_flat_map. exists x. split; auto. eapply H4; eauto.
Qed.

Lemma NoDup_key_unique {A B} (t : list (A * B)) k a b :
  NoDup (List.map fst t) -> In (k, a) t -> In (k, b) t -> a = b.
Proof.
  induction t as [|[k' v] t IH]; simpl; [contradiction|].
  intros Hnd [H1|H1] [H2|H2]; inversion Hnd; subst.
  - congruence.
  - inversion H1; subst. exfalso. apply H3. apply (in_map fst) in H2. exact H2.
  - inversion H2; subst. exfalso. apply H3. apply (in_map fst) in H1. exact H1.
  - auto.
Qed.

(* the tables: keys pairwise distinct, none of them a structural key *)
Definition structural := [k_Type; k_Parent; k_Count; k_Kids; k_Pages].
Definition table_fine (t : list (bytes * vkind)) (res : list bytes) : bool :=
  forallb (fun k => negb (existsb (bytes_eqb k) res)) (List.map fst t).
Lemma tables_fine :
  table_fine page_table [k_Type; k_Parent; k_Count; k_Kids] = true
  /\ table_fine template_table [k_Type; k_Parent; k_Count; k_Kids] = true
  /\ table_fine catalog_table [k_Type; k_Pages] = true.
Proof. vm_compute. auto. Qed.
Lemma table_fine_neq t res k kd r :
  table_fine t res = true -> In (k, kd) t -> In r res -> k <> r.
Proof.
  unfold table_fine. rewrite forallb_forall. intros H Hk Hr ->.
  specialize (H r (in_map fst _ _ Hk)). apply negb_true_iff in H.
  assert (existsb (bytes_eqb r) res = true) by (apply existsb_exists; exists r; split; auto; apply bytes_eqb_refl).
  congruence.
Qed.
Fixpoint nodupb (l : list bytes) : bool :=
  match l with [] => true | x :: r => negb (existsb (bytes_eqb x) r) && nodupb r end.
Lemma nodupb_NoDup l : nodupb l = true -> NoDup l.
Proof.
  induction l as [|x r IH]; simpl; [constructor|]. intros H. apply andb_true_iff in H as [H1 H2].
  constructor; auto. intros Hin. apply negb_true_iff in H1.
  assert (existsb (bytes_eqb x) r = true) by (apply existsb_exists; exists x; split; auto; apply bytes_eqb_refl).
  congruence.
Qed.
Lemma tables_nodup :
  NoDup (List.map fst page_table) /\ NoDup (List.map fst template_table) /\ NoDup (List.map fst catalog_table).
Proof. repeat split; apply nodupb_NoDup; vm_compute; reflexivity. Qed.

Section Accept.
Variable nd : list (N * N).
Variable d : doc.
Hypothesis Hwf : wf_doc d.
Let oc := emit_ctx d.
Notation tc := spec_tctx.
Notation opq := (shipped_opq_with nd).
Notation A := (approxg opq oc tc false).

Let Hnd : NoDup (List.map fst oc) := proj1 Hwf.

Lemma lookup i o : In (i, o) oc -> is_refb o = false -> value_of oc (oref i) = o.
Proof.
  intros Hin Ho. destruct i as [a b]. apply value_of_ref; auto. apply octx_get_In; auto.
Qed.

(* ---------- the value of a declared entry ---------- *)
Lemma attrs_entries table reserved a :
  attrs_ok oc table reserved a -> incl (attrs_defs a) oc -> NoDup (List.map fst table) ->
  forall k kd v, In (k, kd) table -> dict_get (attrs_pairs a) k = Some v ->
  forall n, A n v (chk_of_kind kd) = true.
Proof.
  intros [Hk [Hres [Hex Hopt]]] Hincl Htab k kd v Hin Hget n.
  apply dict_get_In in Hget. unfold attrs_pairs in Hget. apply in_app_or in Hget as [Hget|Hget].
  - apply in_map_iff in Hget as [[[k' kd'] x] [Heq Hx]]. simpl in Heq. inversion Heq; subst.
    destruct (Hopt _ _ _ Hx) as [Ht [Hd [Hv Hi]]].
    assert (kd' = kd) by (eapply NoDup_key_unique; eauto). subst kd'.
    apply kind_sound.
    + destruct x as [v0|i v0]; simpl in *.
      * rewrite value_of_direct by auto. exact Hv.
      * rewrite (lookup i v0); auto. apply Hincl. unfold attrs_defs. apply in_flat_map.
        exists (k, kd, Indirect i v0). split; auto. simpl. auto.
    + intros Hki. destruct (Hi Hki) as [i [v0 ->]]. reflexivity.
  - exfalso. apply (Hex k v Hget). apply (in_map fst) in Hin. exact Hin.
Qed.

Lemma name_is_ok n s : A n (OName s) (c_name_is s) = true.
Proof.
  apply (kind_sound nd oc tc false (VNameIn [s])); [|discriminate].
  simpl. rewrite bytes_eqb_refl. reflexivity.
Qed.

(* ---------- pages and templates ---------- *)
Lemma page_accept p i a n :
  attrs_ok oc page_table [k_Type; k_Parent; k_Count] a -> incl (attrs_defs a) oc ->
  A n (kid_obj p (KPage i a)) spec_page = true.
Proof.
  intros Hok Hincl. destruct n; [reflexivity|]. unfold spec_page, c_plain. simpl kid_obj.
  rewrite A_dict_plain.
  apply ents_ok_forall. intros e He. unfold page_ents in He. destruct He as [<-|[<-|He]].
  - simpl. apply name_is_ok.
  - simpl. apply A_any_req_ref.
  - apply in_map_iff in He as [[k kd] [<- Hk]]. cbn [ent_key ent_opt ent_chk opt fst snd].
    destruct tables_fine as [Hf _]. destruct tables_nodup as [Hn _].
    assert (k <> k_Type) by (eapply table_fine_neq; eauto; simpl; auto).
    assert (k <> k_Parent) by (eapply table_fine_neq; eauto; simpl; auto).
    cbn [dict_get]. rewrite !bytes_eqb_neq by auto.
    destruct (dict_get (attrs_pairs a) k) eqn:E; auto.
    eapply attrs_entries; eauto.
Qed.

Lemma template_accept p i a n :
  attrs_ok oc template_table [k_Type; k_Parent; k_Count] a -> incl (attrs_defs a) oc ->
  A n (kid_obj p (KTemplate i a)) spec_template = true.
Proof.
  intros Hok Hincl. destruct n; [reflexivity|]. unfold spec_template, c_plain. simpl kid_obj.
  rewrite A_dict_plain.
  apply ents_ok_forall. intros e He. unfold template_ents in He. destruct He as [<-|[<-|He]].
  - simpl. apply name_is_ok.
  - cbn [ent_key ent_opt ent_chk]. cbn [dict_get].
    rewrite (bytes_eqb_neq k_Parent k_Type) by discriminate.
    rewrite dict_get_none; auto.
    destruct Hok as [_ [Hres _]]. intros Hin. apply (Hres _ Hin). simpl. auto.
  - apply in_map_iff in He as [[k kd] [<- Hk]]. cbn [ent_key ent_opt ent_chk opt fst snd].
    destruct tables_fine as [_ [Hf _]]. destruct tables_nodup as [_ [Hn _]].
    assert (k <> k_Type) by (eapply table_fine_neq; eauto; simpl; auto).
    cbn [dict_get]. rewrite !bytes_eqb_neq by auto.
    destruct (dict_get (attrs_pairs a) k) eqn:E; auto.
    eapply attrs_entries; eauto.
Qed.

(* ---------- the tree ---------- *)
Definition chk_of (k : kid) : chk :=
  match k with KPage _ _ => spec_page | KTemplate _ _ => spec_template | KNode _ _ _ _ => spec_nonroot end.

Lemma doc_kid_facts p k :
  In (p, k) (doc_kids d) ->
  In (kid_id k, kid_obj p k) oc /\ kid_ok oc k
  /\ (forall a, (exists i, k = KPage i a \/ k = KTemplate i a) -> incl (attrs_defs a) oc)
  /\ (forall i c ks ex, k = KNode i c ks ex -> forall x, In x ks -> In (i, x) (doc_kids d)).
Proof.
  intros Hin. unfold doc_kids in Hin. apply in_flat_map in Hin as [k0 [Hk0 Hin]].
  pose proof Hwf as Hw_; destruct Hw_ as [_ [_ [Hkids _]]]. rewrite Forall_forall in Hkids.
  destruct (kid_all_facts oc (d_root d) k0 (Hkids k0 Hk0) p k Hin) as [H1 [H2 [H3 H4]]].
  assert (Hsub : incl (kid_defs (d_root d) k0) oc).
  { intros x Hx. unfold oc, emit_ctx. right. apply in_or_app. left. unfold kids_defs.
    apply in_flat_map. exists k0. auto. }
  repeat split; auto.
  - intros a Ha x Hx. apply Hsub. apply (H3 a Ha). exact Hx.
  - intros i c ks ex Heq x Hx. unfold doc_kids. apply in_flat_map. exists k0. split; auto. eapply H4; eauto.
Qed.

Lemma kid_obj_direct p k : is_refb (kid_obj p k) = false.
Proof. destruct k; reflexivity. Qed.

(* a reference to a kid satisfies the kid check, provided the kid's object satisfies its own check below *)
Lemma kid_ref_accept n p k :
  In (p, k) (doc_kids d) ->
  (forall m, m < n -> A m (kid_obj p k) (chk_of k) = true) ->
  A n (oref (kid_id k)) kid_of_nonroot = true /\ A n (oref (kid_id k)) kid_of_root = true.
Proof.
  intros Hin IH. destruct (doc_kid_facts p k Hin) as [Hctx _].
  assert (Hval : value_of oc (oref (kid_id k)) = kid_obj p k) by (apply lookup; auto; apply kid_obj_direct).
  destruct n as [|n]; [split; reflexivity|].
  assert (Hr : A n (oref (kid_id k)) (CRep TAny None IReq) = true) by apply A_any_req_ref.
  assert (Halt : forall t, is_disj t = false -> chk_of k = CRep t None IAllowed ->
                           A n (oref (kid_id k)) (CRep t None IAllowed) = true).
  { intros t Ht Hc. destruct n as [|n]; [reflexivity|].
    unfold oref. rewrite A_ref_plain by auto.
    fold (oref (kid_id k)). rewrite Hval. rewrite <- Hc. apply IH. lia. }
  assert (Hnamed : forall i c ks ex, k = KNode i c ks ex -> A n (oref (kid_id k)) (CNamed n_nonroot) = true).
  { intros i c ks ex Hk. destruct n as [|n]; [reflexivity|].
    rewrite A_S. rewrite (A1_named opq oc tc _ _ _ n_nonroot spec_nonroot_rep) by reflexivity.
    rewrite <- A_S. unfold oref.
    change (rep_chk spec_nonroot_rep) with (CRep (TDict nonroot_ents None) None IAllowed).
    rewrite A_ref_plain by reflexivity. fold (oref (kid_id k)). rewrite Hval.
    replace (CRep (TDict nonroot_ents None) None IAllowed) with (chk_of k) by (subst k; reflexivity).
    apply IH. lia. }
  unfold kid_of_nonroot, kid_of_root. rewrite !A_S, !A1_disj. rewrite Hr. cbn [existsb andb].
  assert (Hp : forall i a, k = KPage i a -> A n (oref (kid_id k)) spec_page = true).
  { intros i a ->. apply (Halt (TDict page_ents None)); reflexivity. }
  assert (Ht : forall i a, k = KTemplate i a -> A n (oref (kid_id k)) spec_template = true).
  { intros i a ->. apply (Halt (TDict template_ents None)); reflexivity. }
  assert (Hn : forall i c ks ex, k = KNode i c ks ex -> A n (oref (kid_id k)) spec_nonroot = true).
  { intros i c ks ex ->. apply (Halt (TDict nonroot_ents None)); reflexivity. }
  destruct k as [i a|i a|i c ks ex].
  - rewrite (Hp i a eq_refl). split; rewrite ?orb_true_r; reflexivity.
  - rewrite (Ht i a eq_refl). split; rewrite ?orb_true_r; reflexivity.
  - rewrite (Hnamed i c ks ex eq_refl), (Hn i c ks ex eq_refl). split; rewrite ?orb_true_r; reflexivity.
Qed.

(* an array of references to kids *)
Lemma kids_array_accept n i ks (root : bool) :
  (forall x, In x ks -> In (i, x) (doc_kids d)) ->
  (forall m, m < n -> forall p k, In (p, k) (doc_kids d) -> A m (kid_obj p k) (chk_of k) = true) ->
  A n (OArr (List.map (fun k => oref (kid_id k)) ks))
    (c_plain (TArr (if root then kid_of_root else kid_of_nonroot) None)) = true.
Proof.
  intros Hks IH. destruct n as [|n]; [reflexivity|]. unfold c_plain.
  rewrite A_S, A1_direct by reflexivity. simpl negb. simpl pred_ok. simpl andb. simpl type_okg.
  apply forallb_forall. intros o Ho. apply in_map_iff in Ho as [x [<- Hx]].
  destruct (kid_ref_accept n i x (Hks x Hx)) as [H1 H2].
  - intros m Hm. apply IH; auto.
  - destruct root; auto.
Qed.

Lemma node_dict_get_extra parent (c : Z) ex k :
  node_extra_ok ex -> ~ In k [k_Type; k_Count; k_Kids; k_Parent] \/ (parent = None /\ k = k_Parent) ->
  forall rest, dict_get ((k_Type, OName (B "Pages")) :: (k_Count, OInt c) :: (k_Kids, rest)
                         :: match parent with Some p => [(k_Parent, oref p)] | None => [] end ++ ex) k
               = dict_get ex k.
Proof.
  intros Hex Hk rest. destruct Hk as [Hk|[-> ->]].
  - cbn [dict_get]. rewrite !bytes_eqb_neq by (intros ->; apply Hk; simpl; auto).
    destruct parent; simpl; auto. rewrite bytes_eqb_neq by (intros ->; apply Hk; simpl; auto). reflexivity.
  - reflexivity.
Qed.

Lemma node_accept n (parent : option oid) c ks ex i :
  node_extra_ok ex ->
  (forall x, In x ks -> In (i, x) (doc_kids d)) ->
  (forall m, m < n -> forall p k, In (p, k) (doc_kids d) -> A m (kid_obj p k) (chk_of k) = true) ->
  A n (node_obj parent c ks ex)
    (match parent with Some _ => spec_nonroot | None => spec_root_node end) = true.
Proof.
  intros Hex Hks IH. destruct n as [|n]; [reflexivity|].
  assert (Hkids : forall root : bool, A n (OArr (List.map (fun k => oref (kid_id k)) ks))
                                 (c_plain (TArr (if root then kid_of_root else kid_of_nonroot) None)) = true).
  { intros root. apply (kids_array_accept n i); auto. }
  unfold node_obj. destruct parent as [p|].
  - unfold spec_nonroot, spec_nonroot_rep, rep_chk. cbn [r_ty r_pred r_ind fst snd].
    rewrite A_dict_plain.
    apply ents_ok_forall. intros e He. unfold nonroot_ents, node_ents in He.
    destruct He as [<-|[<-|[<-|[<-|[]]]]]; cbn [ent_key ent_opt ent_chk req].
    + apply name_is_ok.
    + change (A n (OInt c) (chk_of_kind VInt) = true). apply kind_sound; [reflexivity|discriminate].
    + apply (Hkids false).
    + simpl. apply A_any_req_ref.
  - unfold spec_root_node, c_plain.
    rewrite A_dict_plain.
    apply ents_ok_forall. intros e He. unfold root_ents, node_ents in He.
    destruct He as [<-|[<-|[<-|[<-|[]]]]]; cbn [ent_key ent_opt ent_chk req].
    + apply name_is_ok.
    + change (A n (OInt c) (chk_of_kind VInt) = true). apply kind_sound; [reflexivity|discriminate].
    + apply (Hkids true).
    + rewrite (node_dict_get_extra None c ex k_Parent Hex); [|right; auto].
      rewrite dict_get_none; auto. destruct Hex as [_ Hex]. intros Hin. apply (Hex _ Hin). simpl. auto.
Qed.

(* every kid's object satisfies its check at every depth *)
Lemma kids_accept n : forall p k, In (p, k) (doc_kids d) -> A n (kid_obj p k) (chk_of k) = true.
Proof.
  induction n as [n IH] using lt_wf_ind. intros p k Hin.
  destruct (doc_kid_facts p k Hin) as [_ [Hok [Hdefs Hch]]].
  destruct k as [i a|i a|i c ks ex].
  - apply page_accept; auto. apply Hdefs. exists i. auto.
  - apply template_accept; auto. apply Hdefs. exists i. auto.
  - apply kid_ok_node in Hok as [Hex _]. simpl kid_obj. simpl chk_of.
    apply (node_accept n (Some p) c ks ex i); auto.
    intros x Hx. eapply Hch; eauto.
Qed.

Lemma root_accept n : A n (root_obj d) spec_root_node = true.
Proof.
  unfold root_obj. apply (node_accept n None (d_count d) (d_kids d) (d_root_extra d) (d_root d)).
  - pose proof Hwf as Hw_; destruct Hw_ as [_ [H _]]. exact H.
  - intros x Hx. unfold doc_kids. apply in_flat_map. exists x. split; auto.
    destruct x; [simpl; auto | simpl; auto | rewrite kid_all_node; left; reflexivity].
  - intros m _ p k. apply kids_accept.
Qed.

Lemma catalog_accept n : A n (emit_root d) spec_catalog = true.
Proof.
  destruct n as [|n]; [reflexivity|]. unfold spec_catalog, c_plain, emit_root.
  rewrite A_dict_plain.
  pose proof Hwf as Hw_; destruct Hw_ as [_ [_ [_ Hcat]]].
  assert (Hincl : incl (attrs_defs (d_cat d)) oc).
  { intros x Hx. unfold oc, emit_ctx. right. apply in_or_app. right. exact Hx. }
  destruct tables_fine as [_ [_ Hf]]. destruct tables_nodup as [_ [_ Hn]].
  assert (Hopt : forall k kd, In (k, kd) catalog_table ->
            match dict_get ((k_Type, OName (B "Catalog"))
                            :: (k_Pages, if d_pages_direct d then root_obj d else oref (d_root d))
                            :: attrs_pairs (d_cat d)) k with
            | Some v => A n v (chk_of_kind kd) = true
            | None => True
            end).
  { intros k kd Hk.
    assert (k <> k_Type) by (eapply table_fine_neq; eauto; simpl; auto).
    assert (k <> k_Pages) by (eapply table_fine_neq; eauto; simpl; auto).
    cbn [dict_get]. rewrite !bytes_eqb_neq by auto.
    destruct (dict_get (attrs_pairs (d_cat d)) k) eqn:E; auto.
    eapply attrs_entries; eauto. }
  apply ents_ok_forall. intros e He. unfold catalog_ents in He.
  destruct He as [<-|He].
  - simpl. apply name_is_ok.
  - apply in_app_or in He as [He|[<-|He]].
    + apply in_map_iff in He as [[k kd] [<- Hk]]. cbn [ent_key ent_opt ent_chk opt fst snd].
      apply In_firstn in Hk. specialize (Hopt k kd Hk). destruct (dict_get _ k); auto.
    + cbn [ent_key ent_opt ent_chk req]. cbn [dict_get].
      rewrite (bytes_eqb_neq k_Pages k_Type) by discriminate. rewrite bytes_eqb_refl.
      destruct (d_pages_direct d).
      * apply root_accept.
      * destruct n as [|n]; [reflexivity|]. unfold spec_root_node, c_plain, oref.
        rewrite A_S, A1_ref by reflexivity. simpl negb. simpl andb.
        fold (oref (d_root d)). rewrite (lookup (d_root d) (root_obj d)); [|left; reflexivity|reflexivity].
        apply root_accept.
    + apply in_map_iff in He as [[k kd] [<- Hk]]. cbn [ent_key ent_opt ent_chk opt fst snd].
      apply In_skipn in Hk. specialize (Hopt k kd Hk). destruct (dict_get _ k); auto.
Qed.

Theorem spec_accepts : conforms opq oc tc (emit_root d) spec_catalog.
Proof. intros n. rewrite approx_approxg. apply catalog_accept. Qed.
End Accept.
