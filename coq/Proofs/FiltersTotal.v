(* Proofs/FiltersTotal.v — decode_stream over the case-protocol transforms never panics, and is `Fuel`
   only for what the model deliberately does not cover (a Flate stage whose input has no oracle entry in
   the case line, or /DCTDecode).  Used by the C01 composition (Model/Pipeline.v).

   How a panic inside the vendored ascii85 crate is represented: [crate_decode] returns [APanic] for the
   debug-build overflow panic; ASCII85Decode::transform runs the crate under catch_unwind and turns a
   panic into Err(TransformError), which is [of_a85res APanic = Err ETransform].  So [a85_decode] itself
   is always Ok or Err (and after the C06 repairs the APanic case is unreachable:
   Proofs/FiltersA85Mode.v). *)
From PV Require Import Model.Filters Proofs.PredTotal.

Definition settled_res {A} (r : res A) : Prop := r <> Panic /\ r <> Fuel.

Lemma a85_decode_settled dbg data : settled_res (a85_decode dbg data).
Proof.
  unfold a85_decode, settled_res. destruct (strip_eod _); [|split; discriminate].
  destruct (a85_check _ _ _); [|split; discriminate].
  destruct (crate_decode dbg b0); cbn; split; discriminate.
Qed.

Lemma ahex_decode_settled data : settled_res (ahex_decode data).
Proof.
  unfold ahex_decode, settled_res. destruct (ahex_stage data) as [[st [|]]|]; try (split; discriminate).
  destruct (hex2bin _ _); split; discriminate.
Qed.

Lemma flate_decode_settled inflate o data : settled_res (flate_decode inflate o data).
Proof.
  unfold flate_decode, settled_res. destruct (inflate data) as [[out t]|]; [|split; discriminate].
  apply flate_post_no_panic.
Qed.

Section Run.
  Variables (dbg : bool) (toks : list bytes).

  Lemma transform_run_no_panic name t o data : transform_run dbg toks name = Some t -> t o data <> Panic.
  Proof.
    unfold transform_run, transform. intros H.
    destruct (bytes_eqb name n_Flate).
    { inversion H; subst. destruct (oracle_has "z" toks data); [apply flate_decode_settled | discriminate]. }
    destruct (bytes_eqb name n_A85); [inversion H; subst; apply a85_decode_settled|].
    destruct (bytes_eqb name n_AHex); [inversion H; subst; apply ahex_decode_settled|].
    destruct (bytes_eqb name n_DCT); [inversion H; subst; discriminate | discriminate].
  Qed.

  Lemma run_chain_no_panic fs : forall e, run_chain (transform_run dbg toks) fs e <> Panic.
  Proof.
    induction fs as [|[name o] fs IH]; intros e; cbn [run_chain]; [discriminate|].
    destruct (transform_run dbg toks name) as [t|] eqn:E; [|discriminate].
    pose proof (transform_run_no_panic name t o e E) as NP.
    destruct (t o e); try discriminate; [apply IH | contradiction].
  Qed.

  Lemma filters_of_settled d : settled_res (filters_of d).
  Proof.
    assert (Z : forall fa da, settled_res (zip_filters fa da)).
    { induction fa as [|f fa IH]; intros [|x da]; cbn [zip_filters]; try (split; discriminate).
      destruct f; try (split; discriminate); destruct x; try (split; discriminate);
        destruct (IH da) as [N1 N2]; destruct (zip_filters fa da); try contradiction; split; discriminate. }
    assert (A : forall fa, settled_res (all_names fa)).
    { induction fa as [|f fa IH]; cbn [all_names]; [split; discriminate|].
      destruct f; try (split; discriminate).
      destruct IH as [N1 N2]; destruct (all_names fa); try contradiction; split; discriminate. }
    unfold filters_of. destruct (dict_get d k_Filter) as [[]|]; try (split; discriminate).
    - destruct (dict_get d k_DecodeParms) as [[]|]; split; discriminate.
    - destruct (dict_get d k_DecodeParms) as [[]|]; try apply A.
      destruct (Nat.eqb _ _); [apply Z | split; discriminate].
  Qed.

  (* for ALL dictionaries and contents, both profiles *)
  Theorem decode_stream_no_panic d content : decode_stream (transform_run dbg toks) d content <> Panic.
  Proof.
    unfold decode_stream. destruct (filters_of_settled d) as [N1 _].
    destruct (filters_of d) as [fs|k| |]; try discriminate; [|contradiction].
    pose proof (run_chain_no_panic fs content) as NP.
    destruct (run_chain _ fs content); try discriminate. contradiction.
  Qed.

  (* Fuel = "not modelled" arises only at a /DCTDecode stage or at a /FlateDecode stage whose input has no
     inflate-oracle entry among the case tokens; everything before that stage decoded fine *)
  Lemma run_chain_fuel fs : forall e, run_chain (transform_run dbg toks) fs e = Fuel ->
    exists fs1 name o fs2 mid,
      fs = fs1 ++ (name, o) :: fs2 /\ run_chain (transform_run dbg toks) fs1 e = Ok mid /\
      (name = n_DCT \/ (name = n_Flate /\ oracle_has "z" toks mid = false)).
  Proof.
    induction fs as [|[name o] fs IH]; intros e H; cbn [run_chain] in H; [discriminate|].
    destruct (transform_run dbg toks name) as [t|] eqn:E; [|discriminate].
    destruct (t o e) as [out|k| |] eqn:R; try discriminate.
    - destruct (IH out H) as [fs1 [n' [o' [fs2 [mid [-> [H1 H2]]]]]]].
      exists ((name, o) :: fs1), n', o', fs2, mid. split; [reflexivity|]. split; [|exact H2].
      cbn [run_chain]. rewrite E, R. exact H1.
    - exists [], name, o, fs, e. split; [reflexivity|]. split; [reflexivity|].
      unfold transform_run, transform in E.
      destruct (bytes_eqb name n_Flate) eqn:F.
      { right. apply bytes_eqb_eq in F. split; [exact F|]. inversion E; subst.
        destruct (oracle_has "z" toks e); [|reflexivity].
        destruct (flate_decode_settled (inflate_of toks) o e) as [_ NF]. contradiction. }
      destruct (bytes_eqb name n_A85).
      { inversion E; subst. destruct (a85_decode_settled dbg e) as [_ NF]. contradiction. }
      destruct (bytes_eqb name n_AHex).
      { inversion E; subst. destruct (ahex_decode_settled e) as [_ NF]. contradiction. }
      destruct (bytes_eqb name n_DCT) eqn:D; [|discriminate].
      left. apply bytes_eqb_eq in D. exact D.
  Qed.

  Theorem decode_stream_fuel_only_unmodelled d content :
    decode_stream (transform_run dbg toks) d content = Fuel ->
    exists fs1 name o fs2 mid,
      filters_of d = Ok (fs1 ++ (name, o) :: fs2) /\ run_chain (transform_run dbg toks) fs1 content = Ok mid /\
      (name = n_DCT \/ (name = n_Flate /\ oracle_has "z" toks mid = false)).
  Proof.
    unfold decode_stream. destruct (filters_of_settled d) as [_ N2].
    destruct (filters_of d) as [fs|k| |]; try discriminate; [|contradiction].
    intros H. destruct (run_chain _ fs content) eqn:R; try discriminate.
    destruct (run_chain_fuel fs content R) as [fs1 [name [o [fs2 [mid [-> [H1 H2]]]]]]].
    exists fs1, name, o, fs2, mid. auto.
  Qed.
End Run.
