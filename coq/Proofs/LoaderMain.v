(* Proofs/LoaderMain.v — the loader on a well-formed abstract file: [load] answers [Loaded] with a
   context that binds every identifier to what [resolve] says (plus the xref-stream objects the
   walk registers), and the root of the newest section. *)
From PV Require Import Model.Loader Proofs.Loader Proofs.LoaderObjs.

(* ---------- the merged table as a lookup ---------- *)
Lemma In_merged_iff l e : In e (first_per_key l) <-> lookup_ent l (x_num e) = Some e.
Proof.
  rewrite <- lookup_first_per_key. split.
  - apply lookup_ent_NoDup, first_per_key_NoDup.
  - intros H. apply lookup_ent_In in H. tauto.
Qed.

Lemma files_info_iff E id ofs :
  In (id, ofs) (files (info_from_xref_entries E)) <-> exists e, In e E /\ x_id e = id /\ x_st e = XInUse ofs.
Proof.
  induction E as [|a E IH]; cbn [info_from_xref_entries files In].
  - split; [tauto | intros (e & [] & _)].
  - destruct (x_st a) eqn:St; cbn [files In]; rewrite ?IH.
    + split.
      * intros (e & He & H1 & H2). exists e. auto.
      * intros (e & [->|He] & H1 & H2); [congruence | exists e; auto].
    + split.
      * intros [H|(e & He & H1 & H2)]; [inversion H; subst; exists a; auto | exists e; auto].
      * intros (e & [->|He] & H1 & H2); [left; rewrite St in H2; inversion H2; subst; reflexivity | right; exists e; auto].
    + split.
      * intros (e & He & H1 & H2). exists e. auto.
      * intros (e & [->|He] & H1 & H2); [congruence | exists e; auto].
Qed.

Lemma files_info_NoDup E : NoDup (map x_num E) -> NoDup (map fst (files (info_from_xref_entries E))).
Proof.
  induction E as [|a E IH]; cbn [map info_from_xref_entries files]; [constructor|].
  intros ND. inversion ND as [|? ? Hn ND']; subst.
  destruct (x_st a) eqn:St; cbn [files map fst]; try (apply IH; assumption).
  constructor; [|apply IH; assumption].
  intros H. apply in_map_iff in H as ([id o] & E1 & Hin). cbn [fst] in E1. subst id.
  apply files_info_iff in Hin as (e & He & H1 & _). apply Hn. apply in_map_iff. exists e. split; [|exact He].
  unfold x_id in H1. inversion H1. reflexivity.
Qed.

(* ---------- the BTreeSet of object-stream ids ---------- *)
Definition lt_oid (a b : oid) : Prop := oid_ltb a b = true.

Lemma oid_ltb_spec a b : oid_ltb a b = true <-> (fst a < fst b \/ (fst a = fst b /\ snd a < snd b))%N.
Proof.
  unfold oid_ltb. rewrite orb_true_iff, andb_true_iff, !N.ltb_lt, N.eqb_eq. tauto.
Qed.

Lemma lt_oid_trans a b c : lt_oid a b -> lt_oid b c -> lt_oid a c.
Proof. unfold lt_oid. rewrite !oid_ltb_spec. lia. Qed.

Lemma lt_oid_irrefl a : ~ lt_oid a a.
Proof. unfold lt_oid. rewrite oid_ltb_spec. lia. Qed.

Lemma oid_tricho a b : oid_eqb a b = false -> oid_ltb a b = false -> lt_oid b a.
Proof.
  intros E L. apply oid_eqb_neq in E. unfold lt_oid. rewrite oid_ltb_spec.
  assert (~ (fst a < fst b \/ fst a = fst b /\ snd a < snd b)%N) by (rewrite <- oid_ltb_spec; congruence).
  destruct a, b; cbn [fst snd] in *.
  assert (~ (n = n1 /\ n0 = n2)) by (intros [-> ->]; apply E; reflexivity). lia.
Qed.

Fixpoint ssorted (l : list oid) : Prop :=
  match l with
  | [] => True
  | x :: r => (forall y, In y r -> lt_oid x y) /\ ssorted r
  end.

Lemma set_insert_In x l y : In y (set_insert x l) <-> y = x \/ In y l.
Proof.
  induction l as [|a l IH]; cbn [set_insert In]; [intuition|].
  destruct (oid_eqb x a) eqn:E.
  - apply oid_eqb_eq in E. subst. cbn [In]. intuition.
  - destruct (oid_ltb x a); cbn [In]; [intuition | rewrite IH; intuition].
Qed.

Lemma set_insert_sorted x l : ssorted l -> ssorted (set_insert x l).
Proof.
  induction l as [|a l IH]; cbn [set_insert ssorted]; [intros _; split; [intros ? []|exact I]|].
  intros [Ha Sl]. destruct (oid_eqb x a) eqn:E; [cbn [ssorted]; auto|].
  destruct (oid_ltb x a) eqn:L; cbn [ssorted].
  - split; [|split; assumption]. intros y [<-|Hy]; [exact L | eapply lt_oid_trans; [exact L | apply Ha, Hy]].
  - split; [|apply IH, Sl]. intros y Hy. apply set_insert_In in Hy as [->|Hy]; [apply oid_tricho; assumption | apply Ha, Hy].
Qed.

Lemma ssorted_NoDup l : ssorted l -> NoDup l.
Proof.
  induction l as [|a l IH]; cbn [ssorted]; [constructor|]. intros [Ha Sl].
  constructor; [intros H; apply (lt_oid_irrefl a), Ha, H | apply IH, Sl].
Qed.

Lemma ostms_of_sorted I acc : ssorted acc -> ssorted (ostms_of I acc).
Proof.
  revert acc. induction I as [|[id ofs|sid] I IH]; intros acc S; cbn [ostms_of]; auto.
  apply IH, set_insert_sorted, S.
Qed.

Lemma ostms_of_In I acc x : In x (ostms_of I acc) <-> In x acc \/ In (InStm x) I.
Proof.
  revert acc. induction I as [|[id ofs|sid] I IH]; intros acc; cbn [ostms_of In].
  - tauto.
  - rewrite IH. split; [intros [H|H]; auto | intros [H|[H|H]]; auto; discriminate].
  - rewrite IH, set_insert_In. split.
    + intros [[->|H]|H]; auto.
    + intros [H|[H|H]]; auto. inversion H; auto.
Qed.

Lemma InStm_info_iff E cid :
  In (InStm cid) (info_from_xref_entries E) <-> exists e stm idx, In e E /\ x_st e = XInStream stm idx /\ cid = (stm, 0%N).
Proof.
  induction E as [|a E IH]; cbn [info_from_xref_entries In].
  - split; [tauto | intros (e & ? & ? & [] & _)].
  - destruct (x_st a) eqn:St; cbn [In]; rewrite ?IH.
    + split.
      * intros (e & s & i & He & H). exists e, s, i. tauto.
      * intros (e & s & i & [->|He] & H1 & H2); [congruence | exists e, s, i; auto].
    + split.
      * intros [H|(e & s & i & He & H)]; [discriminate | exists e, s, i; tauto].
      * intros (e & s & i & [->|He] & H1 & H2); [congruence | right; exists e, s, i; auto].
    + split.
      * intros [H|(e & s & i & He & H)]; [inversion H; subst; exists a, stm, idx; auto | exists e, s, i; tauto].
      * intros (e & s & i & [->|He] & H1 & H2); [left; rewrite St in H1; inversion H1; subst; reflexivity | right; exists e, s, i; auto].
Qed.

(* ---------- specification: resolve ---------- *)
(* what IndirectP finds at an offset *)
Definition obj_at (f : file) (ofs : N) : option (oid * cval) :=
  match find f ofs with Some (it, _) => item_val it | None => None end.

(* the members of object stream number [stm], as the entries [E] lead to it *)
Definition container (f : file) (E : list xent) (stm : N) : option (list (N * obj)) :=
  match lookup_ent E stm with
  | Some ec =>
    match x_st ec with
    | XInUse ofc => if N.eqb (x_gen ec) 0 then match obj_at f ofc with Some (_, VObjStm ms) => Some ms | _ => None end else None
    | _ => None
    end
  | None => None
  end.

(* [E] = the entries of all sections, newest section first, so that [lookup_ent E n] is the entry for
   object number [n] in the MOST RECENT revision that mentions it.  An identifier resolves to the object
   that entry leads to; a free entry, an entry of another generation, or no entry: not defined. *)
Definition resolve (f : file) (E : list xent) (id : oid) : option cval :=
  match lookup_ent E (fst id) with
  | None => None
  | Some e =>
    match x_st e with
    | XFree _ => None
    | XInUse ofs =>
      if N.eqb (x_gen e) (snd id) then match obj_at f ofs with Some (_, v) => Some v | None => None end else None
    | XInStream stm _ =>
      if N.eqb (snd id) 0
      then match container f E stm with Some ms => option_map VObj (assocN ms (fst id)) | None => None end
      else None
    end
  end.

Lemma NoDup_app_intro {A} (a b : list A) : NoDup a -> NoDup b -> (forall x, In x a -> ~ In x b) -> NoDup (a ++ b).
Proof.
  induction a as [|x a IH]; cbn [app]; [auto|]. intros Na Nb D. inversion Na; subst. constructor.
  - intros H. apply in_app_iff in H as [H|H]; [contradiction | apply (D x); [left; reflexivity | exact H]].
  - apply IH; [assumption | assumption | intros y Hy; apply D; right; exact Hy].
Qed.

Lemma NoDup_concat_fst {A} (g : A -> list (N * obj)) (l : list A) :
  NoDup l -> (forall x, In x l -> NoDup (map fst (g x))) ->
  (forall x y n, In x l -> In y l -> In n (map fst (g x)) -> In n (map fst (g y)) -> x = y) ->
  NoDup (map fst (concat (map g l))).
Proof.
  induction l as [|a l IH]; cbn [map concat]; [constructor|].
  intros ND H1 H2. inversion ND as [|? ? Hn ND']; subst. rewrite map_app.
  assert (IHl : NoDup (map fst (concat (map g l)))).
  { apply IH; [exact ND' | intros; apply H1; right; assumption | intros x y n Hx Hy; apply H2; right; assumption]. }
  assert (Dis : forall n, In n (map fst (g a)) -> ~ In n (map fst (concat (map g l)))).
  { intros n Ha Hc. apply in_map_iff in Hc as ([n' v] & En & Hc). cbn [fst] in En. subst n'.
    apply in_concat in Hc as (L & HL & Hin). apply in_map_iff in HL as (y & <- & Hy).
    assert (a = y). { apply (H2 a y n); [left; reflexivity | right; exact Hy | exact Ha |]. change n with (fst (n, v)). apply in_map, Hin. }
    subst y. contradiction. }
  apply NoDup_app_intro; [apply H1; left; reflexivity | exact IHl | exact Dis].
Qed.

Section Main.
  Variables (p : pdf) (S : list sect) (c0 : ctx) (rn rg : N).
  Let f := p_file p.
  Let flen := p_flen p.
  Let E := all_ents S.
  Let E' := first_per_key E.
  Let I := info_from_xref_entries E'.

  Hypothesis H_magic : p_magic p = true.
  Hypothesis H_chain : exists sx, p_startxref p = Some sx /\ (sx <? flen)%N = true /\ chain f flen sx S.
  Hypothesis H_offs : NoDup (map s_off S).
  Hypothesis H_root : match S with s :: _ => s_root s = Some (ORef rn rg) | [] => False end.
  (* [c0]: what the context holds before parse_objects (empty since commit 4807949; kept general) *)
  Hypothesis H_c0 : forall id v, ctx_get c0 id = Some v -> v = VXStm.
  (* the number of an xref-stream object is mentioned, if at all, by an in-use entry for that very object *)
  Hypothesis H_private : forall id, ctx_get c0 id <> None ->
    lookup_ent E (fst id) = None \/
    exists e ofs nx ents rt pv, lookup_ent E (fst id) = Some e /\ x_id e = id /\ x_st e = XInUse ofs /\
                                find f ofs = Some (IXStm id ents rt pv, nx).
  (* every in-use entry of the merged table leads, inside the file, to an object carrying the entry's
     identifier, whose /Length (if a reference) names an in-file integer object of the right value *)
  Hypothesis H_inuse : forall e ofs, In e E' -> x_st e = XInUse ofs -> ctx_get c0 (x_id e) = None ->
    good f flen c0 I (x_id e) ofs.
  (* every member of an object stream that is in use is current, and members are distinct *)
  Hypothesis H_members : forall e stm idx ms n v, In e E' -> x_st e = XInStream stm idx -> container f E stm = Some ms ->
    In (n, v) ms -> exists idx', lookup_ent E n = Some (mkxent n 0 (XInStream stm idx')).
  Hypothesis H_members_nodup : forall e stm idx ms, In e E' -> x_st e = XInStream stm idx -> container f E stm = Some ms ->
    NoDup (map fst ms).

  Let FI := files I.
  Let ostms := ostms_of I [].

  Lemma FI_NoDup : NoDup (map fst FI).
  Proof. apply files_info_NoDup, first_per_key_NoDup. Qed.

  Lemma FI_iff id ofs : In (id, ofs) FI <-> exists e, lookup_ent E (x_num e) = Some e /\ x_id e = id /\ x_st e = XInUse ofs.
  Proof.
    unfold FI, I. rewrite files_info_iff. split; intros (e & H1 & H2); exists e; (split; [apply In_merged_iff, H1 | exact H2]).
  Qed.

  Lemma Good_all : forall id ofs, In (id, ofs) FI -> ctx_get c0 id = None -> good f flen c0 I id ofs.
  Proof.
    intros id ofs Hin G. apply files_info_iff in Hin as (e & He & <- & St). apply H_inuse; assumption.
  Qed.

  Lemma tgt_obj_at id v : tgt f I id v -> ctx_get c0 id = None ->
    exists e ofs, lookup_ent E (fst id) = Some e /\ x_id e = id /\ x_st e = XInUse ofs /\ obj_at f ofs = Some (id, v).
  Proof.
    intros (ofs & it & nx & Hin & F & V) G. apply FI_iff in Hin as (e & L & Eid & St).
    exists e, ofs. split; [rewrite <- Eid; exact L|]. split; [exact Eid|]. split; [exact St|].
    unfold obj_at. fold f. rewrite F. exact V.
  Qed.

  Lemma ostms_iff cid : In cid ostms <-> exists e stm idx, lookup_ent E (x_num e) = Some e /\ x_st e = XInStream stm idx /\ cid = (stm, 0%N).
  Proof.
    unfold ostms. rewrite ostms_of_In. cbn [In]. unfold I. rewrite InStm_info_iff. split.
    - intros [[]|(e & s & i & H1 & H2)]. exists e, s, i. split; [apply In_merged_iff, H1 | exact H2].
    - intros (e & s & i & H1 & H2). right. exists e, s, i. split; [apply In_merged_iff, H1 | exact H2].
  Qed.

  (* the contexts after the two passes over the in-file objects *)
  Variables (c2 : ctx).
  Hypothesis A2 : forall id v, ctx_get c0 id = Some v -> ctx_get c2 id = Some v.
  Hypothesis B2 : forall id v, ctx_get c0 id = None -> (ctx_get c2 id = Some v <-> tgt f I id v).

  Lemma members_c2 stm :
    members_of c2 (stm, 0%N) =
    match ctx_get c0 (stm, 0%N) with
    | Some _ => []
    | None => match container f E stm with Some ms => ms | None => [] end
    end.
  Proof.
    unfold members_of. destruct (ctx_get c0 (stm, 0%N)) as [w|] eqn:G0.
    - rewrite (A2 _ _ G0). rewrite (H_c0 _ _ G0). reflexivity.
    - destruct (container f E stm) as [ms|] eqn:C.
      + unfold container in C. destruct (lookup_ent E stm) as [ec|] eqn:L; [|discriminate].
        destruct (x_st ec) as [|ofc|] eqn:St; try discriminate.
        destruct (N.eqb (x_gen ec) 0) eqn:Eg; [|discriminate]. apply N.eqb_eq in Eg.
        pose proof (lookup_ent_In _ _ _ L) as [_ En].
        assert (Eid : x_id ec = (stm, 0%N)) by (unfold x_id; congruence).
        assert (Hin : In ec E') by (apply In_merged_iff; rewrite En; exact L).
        rewrite <- Eid in G0. destruct (H_inuse ec ofc Hin St G0) as (_ & it & nx & v & F & V & _).
        unfold obj_at in C. fold f in C. rewrite F, V in C. destruct v as [| |ms']; try discriminate. inversion C; subst ms'.
        assert (T : tgt f I (x_id ec) (VObjStm ms)).
        { exists ofc, it, nx. split; [|split; assumption]. apply files_info_iff. exists ec. auto. }
        apply B2 in T; [|exact G0]. rewrite Eid in T. rewrite T. reflexivity.
      + destruct (ctx_get c2 (stm, 0%N)) as [[| |ms]|] eqn:G2; try reflexivity. exfalso.
        apply B2 in G2; [|exact G0]. destruct (tgt_obj_at _ _ G2 G0) as (e & ofs & L & Eid & St & OA).
        cbn [fst] in L. unfold container in C. rewrite L, St in C. unfold x_id in Eid. inversion Eid as [[En Eg]].
        rewrite Eg in C. cbn in C. rewrite OA in C. discriminate.
  Qed.

  Let AM := all_members c2 ostms.

  Lemma AM_member n v : In (n, v) AM ->
    exists stm idx' ms, lookup_ent E n = Some (mkxent n 0 (XInStream stm idx')) /\ container f E stm = Some ms /\
                        In (n, v) ms /\ ctx_get c0 (stm, 0%N) = None /\ In (stm, 0%N) ostms.
  Proof.
    unfold AM, all_members. intros H. apply in_concat in H as (L & HL & Hin). apply in_map_iff in HL as (cid & <- & Hc).
    pose proof Hc as Hc'. apply ostms_iff in Hc' as (e & stm & idx & Le & St & ->).
    rewrite members_c2 in Hin. destruct (ctx_get c0 (stm, 0%N)) eqn:G0; [destruct Hin|].
    destruct (container f E stm) as [ms|] eqn:C; [|destruct Hin].
    assert (He : In e E') by (apply In_merged_iff, Le).
    destruct (H_members e stm idx ms n v He St C Hin) as (idx' & Ln).
    exists stm, idx', ms. auto.
  Qed.

  Lemma AM_NoDup : NoDup (map fst AM).
  Proof.
    unfold AM, all_members. apply NoDup_concat_fst.
    - apply ssorted_NoDup. unfold ostms. apply ostms_of_sorted. exact Logic.I.
    - intros cid Hc. pose proof Hc as Hc'. apply ostms_iff in Hc' as (e & stm & idx & Le & St & ->).
      rewrite members_c2. destruct (ctx_get c0 (stm, 0%N)); [constructor|].
      destruct (container f E stm) as [ms|] eqn:C; [|constructor].
      eapply H_members_nodup; [apply In_merged_iff, Le | exact St | exact C].
    - intros x y n Hx Hy Hnx Hny.
      assert (K : forall cid, In cid ostms -> In n (map fst (members_of c2 cid)) ->
                              exists stm idx', cid = (stm, 0%N) /\ lookup_ent E n = Some (mkxent n 0 (XInStream stm idx'))).
      { intros cid Hc Hn. apply in_map_iff in Hn as ([n' v] & En & Hin). cbn [fst] in En. subst n'.
        assert (HA : In (n, v) AM).
        { unfold AM, all_members. apply in_concat. exists (members_of c2 cid). split; [apply in_map, Hc | exact Hin]. }
        pose proof Hc as Hc'. apply ostms_iff in Hc' as (e & stm & idx & Le & St & ->).
        rewrite members_c2 in Hin. destruct (ctx_get c0 (stm, 0%N)) eqn:G0; [destruct Hin|].
        destruct (container f E stm) as [ms|] eqn:C; [|destruct Hin].
        destruct (H_members e stm idx ms n v (proj2 (In_merged_iff _ _) Le) St C Hin) as (idx' & Ln).
        exists stm, idx'. auto. }
      destruct (K x Hx Hnx) as (s1 & i1 & -> & L1). destruct (K y Hy Hny) as (s2 & i2 & -> & L2).
      rewrite L1 in L2. inversion L2. reflexivity.
  Qed.

  Lemma c0_none_of_instream id e stm idx : lookup_ent E (fst id) = Some e -> x_st e = XInStream stm idx -> ctx_get c0 id = None.
  Proof.
    intros L St. destruct (ctx_get c0 id) eqn:G; [|reflexivity]. exfalso.
    destruct (H_private id) as [H|(e' & ofs & nx & en & rt & pv & L' & _ & St' & _)]; [congruence | congruence|].
    rewrite L in L'. inversion L'; subst. congruence.
  Qed.

  Lemma no_tgt_unless_inuse id v e : lookup_ent E (fst id) = Some e -> tgt f I id v -> ctx_get c0 id = None ->
    exists ofs, x_st e = XInUse ofs /\ x_gen e = snd id /\ obj_at f ofs = Some (id, v).
  Proof.
    intros L T G. destruct (tgt_obj_at _ _ T G) as (e' & ofs & L' & Eid & St & OA). rewrite L in L'. inversion L'; subst e'.
    exists ofs. split; [exact St|]. split; [|exact OA]. unfold x_id in Eid. destruct id; inversion Eid; reflexivity.
  Qed.

  Lemma AM_fresh n v : In (n, v) AM -> ctx_get c2 (n, 0%N) = None.
  Proof.
    intros H. destruct (AM_member n v H) as (stm & idx' & ms & Ln & _).
    assert (G0 : ctx_get c0 (n, 0%N) = None) by (eapply c0_none_of_instream; [cbn [fst]; exact Ln | reflexivity]).
    destruct (ctx_get c2 (n, 0%N)) as [w|] eqn:G2; [|reflexivity]. exfalso.
    apply B2 in G2; [|exact G0]. destruct (no_tgt_unless_inuse (n, 0%N) w _ Ln G2 G0) as (ofs & St & _). cbn in St. discriminate.
  Qed.

  Variable c3 : ctx.
  Hypothesis P3 : forall id, ctx_get c3 id = match mget AM id with Some v => Some (VObj v) | None => ctx_get c2 id end.

  Lemma mget_AM_some id v : mget AM id = Some v ->
    exists stm idx' ms, snd id = 0%N /\ lookup_ent E (fst id) = Some (mkxent (fst id) 0 (XInStream stm idx')) /\
                        container f E stm = Some ms /\ assocN ms (fst id) = Some v.
  Proof.
    unfold mget. destruct (N.eqb (snd id) 0) eqn:Eg; [|discriminate]. apply N.eqb_eq in Eg. intros A.
    apply assocN_In in A. destruct (AM_member _ _ A) as (stm & idx' & ms & Ln & C & Hin & _ & Hc).
    exists stm, idx', ms. repeat split; auto. apply In_assocN; [|exact Hin].
    pose proof Hc as Hc'. apply ostms_iff in Hc' as (e & stm' & idx & Le & St & Ec). inversion Ec; subst stm'.
    eapply H_members_nodup; [apply In_merged_iff, Le | exact St | exact C].
  Qed.

  Lemma mget_AM_of_container id e stm idx ms v :
    snd id = 0%N -> lookup_ent E (fst id) = Some e -> x_st e = XInStream stm idx -> container f E stm = Some ms ->
    assocN ms (fst id) = Some v -> mget AM id = Some v.
  Proof.
    intros Eg L St C A. unfold mget. rewrite Eg. cbn. apply In_assocN; [apply AM_NoDup|].
    unfold AM, all_members. apply in_concat. exists (members_of c2 (stm, 0%N)). split.
    - apply in_map. apply ostms_iff. exists e, stm, idx. split; [|auto].
      pose proof (lookup_ent_In _ _ _ L) as [_ En]. rewrite En. exact L.
    - rewrite members_c2.
      assert (G0 : ctx_get c0 (stm, 0%N) = None).
      { destruct (ctx_get c0 (stm, 0%N)) eqn:G; [|reflexivity]. exfalso.
        destruct (H_private (stm, 0%N)) as [H|(e' & ofs & nx & en & rt & pv & L' & Eid & St' & F)]; [congruence | |].
        - cbn [fst] in H. unfold container in C. rewrite H in C. discriminate.
        - cbn [fst] in L'. unfold container in C. rewrite L', St' in C. unfold obj_at in C. fold f in C. rewrite F in C. cbn in C.
          destruct (N.eqb (x_gen e') 0); discriminate. }
      rewrite G0, C. apply assocN_In, A.
  Qed.

  (* the final context binds exactly what [resolve] says, plus the xref-stream objects *)
  Theorem final_ctx id : ctx_get c3 id = match resolve f E id with Some v => Some v | None => ctx_get c0 id end.
  Proof.
    rewrite P3. unfold resolve. destruct (lookup_ent E (fst id)) as [e|] eqn:L.
    2:{ (* no section mentions the number *)
      destruct (mget AM id) eqn:M; [destruct (mget_AM_some _ _ M) as (? & ? & ? & _ & L' & _); congruence|].
      destruct (ctx_get c0 id) as [w|] eqn:G0; [apply A2, G0|].
      destruct (ctx_get c2 id) as [w|] eqn:G2; [|reflexivity]. exfalso.
      apply B2 in G2; [|exact G0]. destruct (tgt_obj_at _ _ G2 G0) as (? & ? & L' & _). congruence. }
    destruct (x_st e) as [nxt|ofs|stm idx] eqn:St.
    - (* free *)
      destruct (mget AM id) eqn:M; [destruct (mget_AM_some _ _ M) as (? & ? & ? & _ & L' & _); rewrite L in L'; inversion L'; subst; discriminate|].
      assert (G0 : ctx_get c0 id = None).
      { destruct (ctx_get c0 id) eqn:G; [|reflexivity]. exfalso.
        destruct (H_private id) as [H|(e' & ? & ? & ? & ? & ? & L' & _ & St' & _)]; [congruence | congruence|].
        rewrite L in L'. inversion L'; subst. congruence. }
      rewrite G0. destruct (ctx_get c2 id) as [w|] eqn:G2; [|reflexivity]. exfalso.
      apply B2 in G2; [|exact G0]. destruct (no_tgt_unless_inuse _ _ _ L G2 G0) as (? & St' & _). congruence.
    - (* in use *)
      destruct (mget AM id) eqn:M; [destruct (mget_AM_some _ _ M) as (? & ? & ? & _ & L' & _); rewrite L in L'; inversion L'; subst; discriminate|].
      pose proof (lookup_ent_In _ _ _ L) as [_ En].
      destruct (N.eqb (x_gen e) (snd id)) eqn:Eg.
      + apply N.eqb_eq in Eg. assert (Eid : x_id e = id) by (unfold x_id; destruct id; cbn [fst snd] in *; congruence).
        destruct (ctx_get c0 id) as [w|] eqn:G0.
        * (* an xref stream that lists itself *)
          rewrite (A2 _ _ G0). rewrite (H_c0 _ _ G0).
          destruct (H_private id) as [H|(e' & ofs' & nx & en & rt & pv & L' & _ & St' & F)]; [congruence | congruence|].
          rewrite L in L'. inversion L'; subst e'. rewrite St in St'. inversion St'; subst ofs'.
          unfold obj_at. fold f. rewrite F. reflexivity.
        * assert (Hin : In e E') by (apply In_merged_iff; rewrite En; exact L).
          rewrite <- Eid in G0. destruct (H_inuse e ofs Hin St G0) as (_ & it & nx & v & F & V & _).
          unfold obj_at. fold f. rewrite F, V.
          assert (T : tgt f I (x_id e) v). { exists ofs, it, nx. split; [|split; assumption]. apply files_info_iff. exists e. auto. }
          apply B2 in T; [|exact G0]. rewrite <- Eid. exact T.
      + assert (G0 : ctx_get c0 id = None).
        { destruct (ctx_get c0 id) eqn:G; [|reflexivity]. exfalso.
          destruct (H_private id) as [H|(e' & ? & ? & ? & ? & ? & L' & Eid & _)]; [congruence | congruence|].
          rewrite L in L'. inversion L'; subst e'. unfold x_id in Eid. destruct id; inversion Eid; subst. cbn [snd] in Eg.
          rewrite N.eqb_refl in Eg. discriminate. }
        rewrite G0. destruct (ctx_get c2 id) as [w|] eqn:G2; [|reflexivity]. exfalso.
        apply B2 in G2; [|exact G0]. destruct (no_tgt_unless_inuse _ _ _ L G2 G0) as (? & _ & Eg' & _).
        rewrite Eg', N.eqb_refl in Eg. discriminate.
    - (* in an object stream *)
      pose proof (c0_none_of_instream id e stm idx L St) as G0. rewrite G0.
      assert (G2 : ctx_get c2 id = None).
      { destruct (ctx_get c2 id) as [w|] eqn:G2; [|reflexivity]. exfalso.
        apply B2 in G2; [|exact G0]. destruct (no_tgt_unless_inuse _ _ _ L G2 G0) as (? & St' & _). congruence. }
      rewrite G2. destruct (N.eqb (snd id) 0) eqn:Eg.
      + apply N.eqb_eq in Eg. destruct (container f E stm) as [ms|] eqn:C.
        * destruct (assocN ms (fst id)) as [v|] eqn:A; cbn [option_map].
          -- rewrite (mget_AM_of_container id e stm idx ms v Eg L St C A). reflexivity.
          -- destruct (mget AM id) eqn:M; [|reflexivity].
             destruct (mget_AM_some _ _ M) as (stm' & idx' & ms' & _ & L' & C' & A'). rewrite L in L'. inversion L'; subst e.
             cbn in St. inversion St; subst stm'. rewrite C in C'. inversion C'; subst ms'. congruence.
        * destruct (mget AM id) eqn:M; [|reflexivity].
          destruct (mget_AM_some _ _ M) as (stm' & idx' & ms' & _ & L' & C' & _). rewrite L in L'. inversion L'; subst e.
          cbn in St. inversion St; subst stm'. congruence.
      + unfold mget. rewrite Eg. reflexivity.
  Qed.
End Main.

(* ---------- the loader on a well-formed abstract file ---------- *)
Record wf_file (p : pdf) (S : list sect) (rn rg : N) : Prop := {
  wf_magic : p_magic p = true;
  wf_chain : exists sx, p_startxref p = Some sx /\ (sx <? p_flen p)%N = true /\ chain (p_file p) (p_flen p) sx S;
  wf_offs : NoDup (map s_off S);
  wf_root : match S with s :: _ => s_root s = Some (ORef rn rg) | [] => False end;
  wf_inuse : forall e ofs, In e (first_per_key (all_ents S)) -> x_st e = XInUse ofs ->
    good (p_file p) (p_flen p) [] (info_from_xref_entries (first_per_key (all_ents S))) (x_id e) ofs;
  wf_members : forall e stm idx ms n v, In e (first_per_key (all_ents S)) -> x_st e = XInStream stm idx ->
    container (p_file p) (all_ents S) stm = Some ms -> In (n, v) ms ->
    exists idx', lookup_ent (all_ents S) n = Some (mkxent n 0 (XInStream stm idx'));
  wf_members_nodup : forall e stm idx ms, In e (first_per_key (all_ents S)) -> x_st e = XInStream stm idx ->
    container (p_file p) (all_ents S) stm = Some ms -> NoDup (map fst ms) }.

Theorem load_wf p S rn rg :
  wf_file p S rn rg ->
  exists c, load p = Loaded c (rn, rg) /\ forall id, ctx_get c id = resolve (p_file p) (all_ents S) id.
Proof.
  intros [Hm (sx & Hs & Hb & Ch) Ho Hr Hi Hmem Hnd].
  set (f := p_file p) in *. set (flen := p_flen p) in *.
  set (I := info_from_xref_entries (first_per_key (all_ents S))) in *.
  set (c0 := ([] : ctx)).
  assert (Hc0 : forall id v, ctx_get c0 id = Some v -> v = VXStm) by (intros id v H; discriminate).
  assert (Hp : forall id, ctx_get c0 id <> None ->
     lookup_ent (all_ents S) (fst id) = None \/
     exists e ofs nx ents rt pv, lookup_ent (all_ents S) (fst id) = Some e /\ x_id e = id /\ x_st e = XInUse ofs /\
                                 find f ofs = Some (IXStm id ents rt pv, nx)) by (intros id H; exfalso; apply H; reflexivity).
  assert (Hi' : forall e ofs, In e (first_per_key (all_ents S)) -> x_st e = XInUse ofs -> ctx_get c0 (x_id e) = None ->
     good f flen c0 I (x_id e) ofs) by (intros; apply Hi; assumption).
  assert (ND : NoDup (map fst (files I))) by (apply files_info_NoDup, first_per_key_NoDup).
  assert (Good : forall id ofs, In (id, ofs) (files I) -> ctx_get c0 id = None -> good f flen c0 I id ofs).
  { intros id ofs Hin G. apply files_info_iff in Hin as (e & He & <- & St). apply Hi; assumption. }
  assert (Inv0 : Inv f c0 I c0) by (split; [auto | intros id v H; left; exact H]).
  destruct (passes12 f flen c0 I ND Good Inv0) as (c1 & second & c2 & E1 & E2 & A & B).
  assert (P3 : forall id, ctx_get (pass3 (ostms_of I []) c2 c2) id =
                          match mget (all_members c2 (ostms_of I [])) id with Some v => Some (VObj v) | None => ctx_get c2 id end).
  { apply pass3_spec.
    - intros n v H. eapply (AM_fresh p S c0); eauto.
    - eapply (AM_NoDup p S c0); eauto. }
  exists (pass3 (ostms_of I []) c2 c2). split.
  - unfold load, load_fuel. rewrite Hm, Hs. cbn [negb]. fold f flen. rewrite Hb. cbn [negb].
    assert (Hroot : match (None : option obj) with Some r0 => Some r0 | None => match S with s :: _ => s_root s | [] => None end end = Some (ORef rn rg)).
    { destruct S; [destruct Hr | exact Hr]. }
    rewrite (walk_chain f flen sx S Ch (Datatypes.S (Datatypes.S (len f))) [] [] [] None (ORef rn rg) Ho (fun _ _ H => H) Hroot).
    2:{ pose proof (chain_length _ _ _ _ Ch Ho). unfold len. lia. }
    cbn [app]. rewrite merge_newest_first. fold I. unfold parse_objects. fold c0. rewrite E1, E2. reflexivity.
  - intros id. rewrite (final_ctx p S c0 Hc0 Hp Hi' Hmem Hnd c2 A B _ P3 id).
    fold f. destruct (resolve f (all_ents S) id); reflexivity.
Qed.

(* ---------- sections described by the contents of the file ---------- *)
(* what lies at offset [o]: a classic table with its trailer, an xref stream, or a hybrid section
   (table whose trailer names an /XRefStm inside the file) *)
Inductive section_at (f : file) (flen : N) (o : N) : list xent -> option obj -> option N -> Prop :=
| SA_table ents rt pv nx :
    find f o = Some (IXSect ents (Some (mktrailer rt pv None)), nx) -> section_at f flen o ents rt pv
| SA_stream xid ents rt pv nx :
    find f o = Some (IXStm xid ents rt pv, nx) -> section_at f flen o ents rt pv
| SA_hybrid ents rt pv nx xs xid xents xrt xpv nx' :
    find f o = Some (IXSect ents (Some (mktrailer rt pv (Some xs))), nx) -> (xs <=? flen)%N = true ->
    find f xs = Some (IXStm xid xents xrt xpv, nx') ->
    section_at f flen o (ents ++ xents) rt pv.

Lemma section_step f flen o ents rt pv :
  section_at f flen o ents rt pv -> step f flen o = Some (ents, rt, pv).
Proof.
  intros [ents0 rt0 pv0 nx F | xid ents0 rt0 pv0 nx F | ents0 rt0 pv0 nx xs xid xents xrt xpv nx' F Hx Fx];
    unfold step, parse_xref_section; rewrite F.
  - reflexivity.
  - unfold parse_xref_stream. rewrite F. reflexivity.
  - cbn [t_xrefstm t_root t_prev]. rewrite Hx. unfold parse_xref_stream. rewrite Fx. reflexivity.
Qed.

(* the sections linked by /Prev from offset [o] on, newest first *)
Inductive sections (f : file) (flen : N) : N -> list sect -> Prop :=
| SS_last o ents rt :
    (o <? flen)%N = true -> section_at f flen o ents rt None -> sections f flen o [(o, ents, rt)]
| SS_cons o ents rt o' l :
    (o <? flen)%N = true -> section_at f flen o ents rt (Some o') ->
    sections f flen o' l -> sections f flen o ((o, ents, rt) :: l).

Lemma sections_chain f flen o S : sections f flen o S -> chain f flen o S.
Proof.
  induction 1 as [o ents rt Hb SA | o ents rt o' l Hb SA _ IH].
  - apply C_last; [exact Hb | apply section_step, SA].
  - eapply C_cons; [exact Hb | apply section_step, SA | exact IH].
Qed.

(* The main theorem, hypotheses stated on the contents of the file only.
   [S] : the sections of the history, newest first (each: offset, entries, /Root).
   Hypotheses (3) and (4) are exactly the complements of the two open classes of findings:
   (3) [good] asks, for a referenced /Length, an in-file integer object              (C03-length-in-objstm)
   (4) excludes a used object stream with a member superseded by a newer revision  (C04-stale-objstm-member) *)
Theorem load_history p S rn rg sx :
  p_magic p = true -> p_startxref p = Some sx -> (sx <? p_flen p)%N = true ->
  sections (p_file p) (p_flen p) sx S ->                                                   (* the /Prev chain *)
  NoDup (map s_off S) ->                                                                   (* … visits no offset twice *)
  match S with s :: _ => s_root s = Some (ORef rn rg) | [] => False end ->                (* newest /Root *)
  (forall e ofs, In e (first_per_key (all_ents S)) -> x_st e = XInUse ofs ->                                  (* (3) *)
     good (p_file p) (p_flen p) [] (info_from_xref_entries (first_per_key (all_ents S))) (x_id e) ofs) ->
  (forall e stm idx ms n v, In e (first_per_key (all_ents S)) -> x_st e = XInStream stm idx ->                (* (4) *)
     container (p_file p) (all_ents S) stm = Some ms -> In (n, v) ms ->
     exists idx', lookup_ent (all_ents S) n = Some (mkxent n 0 (XInStream stm idx'))) ->
  (forall e stm idx ms, In e (first_per_key (all_ents S)) -> x_st e = XInStream stm idx ->
     container (p_file p) (all_ents S) stm = Some ms -> NoDup (map fst ms)) ->
  exists c, load p = Loaded c (rn, rg) /\ forall id, ctx_get c id = resolve (p_file p) (all_ents S) id.
Proof.
  intros Hm Hs Hb Sec Ho Hr Hi Hmem Hnd. apply load_wf. constructor; auto.
  exists sx. split; [exact Hs|]. split; [exact Hb|]. apply sections_chain, Sec.
Qed.
