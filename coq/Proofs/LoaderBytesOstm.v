(* Proofs/LoaderBytesOstm.v — C03b with OBJECT STREAMS (no filter): IndirectP + ObjStreamP (Model/ObjStm.v, C14
   objstm_extract) on a written container give the loader an IObjStm item with exactly the members; with the
   cross-reference stream of Proofs/LoaderBytesXstm.v (in-use rows for the in-file objects and the containers, type-2
   rows for the members) the loader model run on the bytes defines the in-file objects, the members of every
   container, and the containers themselves as bookkeeping objects — nothing else. *)
From PV Require Import Model.Obj Model.XrefTab Model.XrefStm Model.ObjStm Model.Loader Model.LoaderBytes
     Spec.Spelling Spec.XrefEnc Spec.ObjStmEnc Spec.RenderClassic Spec.RenderXrefStm Spec.RenderObjStm.
From PV Require Import Proofs.XrefBase Proofs.XrefTab Proofs.XrefStm Proofs.ObjStm Proofs.ObjStream Proofs.ObjSpell
     Proofs.Loader Proofs.LoaderObjs Proofs.LoaderMain Proofs.LoaderDoc
     Proofs.LoaderBytesBase Proofs.LoaderBytesObj Proofs.LoaderBytesSect Proofs.LoaderBytesTab Proofs.LoaderBytesMain Proofs.LoaderBytesXstm.
From Coq Require Import Lia.
Close Scope N_scope.

(* ---------- a container as written ---------- *)
(* the hypotheses of C14_extract, in an empty context *)
Definition wf_ostm (rel : bool) (o : ostm) : Prop :=
  let l := os_pairs o in
  let head := render_pairs l ++ os_pad o in
  objstm_dict_ok (os_dict o) (N.of_nat (len l)) (N.of_nat (len head)) /\
  (N.of_nat (len l) < i64_lim)%N /\ (N.of_nat (len head) < i64_lim)%N /\
  l <> [] /\ wf_pairs true l /\ increasing l /\ pad_ok (os_pad o) /\ os_body o <> [] /\
  List.map member_meta (os_ms o) = pairs_meta l /\
  Forall (located rel 50 (os_body o)) (os_ms o) /\ ordered 0 (os_ms o) /\ NoDup (List.map m_id (os_ms o)).

Theorem obj_item_ostm rel o : wf_ostm rel o ->
  obj_item rel (os_id o) (OStream (os_dict o) (os_content o)) =
  IObjStm (os_id o) (N.of_nat (len (os_content o))) None (os_members o).
Proof.
  intros (D & B1 & B2 & Ln & Wp & Inc & Pd & Bn & Mt & Lc & Or & Nd).
  unfold obj_item, xstm_item, ostm_item.
  assert (G : XrefStm.get_dict_info (os_dict o) = Err EGuard).
  { unfold XrefStm.get_dict_info, XrefStm.get_name. destruct D as (DT & _). rewrite DT. reflexivity. }
  rewrite G. destruct (os_dict_info_ok _ _ _ D B1 B2) as (_ & SF). rewrite SF.
  unfold os_content.
  rewrite (objstm_extract rel 50 (os_dict o) (os_pairs o) (os_pad o) (os_body o) (os_ms o) [] [] D B1 B2 Ln Wp Inc Pd Bn Mt Lc Or).
  - unfold os_members. rewrite map_map. reflexivity.
  - split; [exact Nd|]. intros m _. reflexivity.
Qed.

Lemma parts_ents_instm_gen p e a b : In e (parts_ents p) -> xe_st e = XrefTab.XInStream a b -> xe_gen e = 0%N.
Proof.
  unfold parts_ents. intros H. apply in_flat_map in H as (x & _ & H). revert H. generalize (fst x).
  induction (snd x) as [|r l IH]; intros n H St; [destruct H|]. cbn [number In] in H. destruct H as [<-|H]; [|eapply IH; eauto].
  destruct r; cbn in St |- *; try discriminate. reflexivity.
Qed.

(* ---------- entries that lead to objects, containers and members (generic in where they stand) ---------- *)
Record mixed_ok (f : file) (flen : N) (objs : list (oid * obj)) (cs : list (oid * list (N * obj)))
                (ot : list (oid * N)) (T : list XrefTab.xent) : Prop := {
  mh_obj : forall x, In x objs ->
    exists o nx, off_get ot (fst x) = Some (N.of_nat o) /\ (N.of_nat o <? flen)%N = true /\
                 Loader.find f (N.of_nat o) = Some (IObj (fst x) (snd x), nx) /\ simple (IObj (fst x) (snd x));
  mh_con : forall c, In c cs ->
    exists o nx clen, off_get ot (fst c) = Some (N.of_nat o) /\ (N.of_nat o <? flen)%N = true /\
                      Loader.find f (N.of_nat o) = Some (IObjStm (fst c) clen None (snd c), nx);
  mh_c0 : forall c, In c cs -> snd (fst c) = 0%N /\ NoDup (List.map fst (snd c));
  mh_nums : NoDup (List.map xe_obj T);
  mh_inuse : forall e, In e T -> inuse e = true ->
    In (xe_obj e, xe_gen e) (List.map fst objs) \/ In (xe_obj e, xe_gen e) (List.map fst cs);
  mh_all_o : forall id, In id (List.map fst objs) -> exists e, In e T /\ inuse e = true /\ (xe_obj e, xe_gen e) = id;
  mh_all_c : forall id, In id (List.map fst cs) -> exists e, In e T /\ inuse e = true /\ (xe_obj e, xe_gen e) = id;
  mh_mem : forall c n v, In c cs -> In (n, v) (snd c) ->
    exists e idx, In e T /\ xe_obj e = n /\ xe_gen e = 0%N /\ xe_st e = XrefTab.XInStream (fst (fst c)) idx }.

Section Mixed.
  Variables (f : file) (flen : N) (objs : list (oid * obj)) (cs : list (oid * list (N * obj)))
            (ot : list (oid * N)) (T : list XrefTab.xent).
  Hypothesis HM : mixed_ok f flen objs cs ot T.
  Let Hobj := mh_obj _ _ _ _ _ _ HM.
  Let Hcon := mh_con _ _ _ _ _ _ HM.
  Let Hc0 := mh_c0 _ _ _ _ _ _ HM.
  Let Hnums := mh_nums _ _ _ _ _ _ HM.
  Let Hinuse := mh_inuse _ _ _ _ _ _ HM.
  Let Hall_o := mh_all_o _ _ _ _ _ _ HM.
  Let Hall_c := mh_all_c _ _ _ _ _ _ HM.
  Let Hmem := mh_mem _ _ _ _ _ _ HM.

  Let E : list Loader.xent := List.map (fun e => conv_ent (fillx ot e)) T.

  (* the document: the in-file objects and the members, under generation 0 *)
  Definition indoc (id : oid) (v : obj) : Prop :=
    In (id, v) objs \/ exists c n, In c cs /\ id = (n, 0%N) /\ In (n, v) (snd c).

  Lemma X_NoDup : NoDup (List.map x_num E).
  Proof.
    unfold E. rewrite map_map.
    replace (List.map (fun e => x_num (conv_ent (fillx ot e))) T) with (List.map xe_obj T) by (apply map_ext; intros e; symmetry; apply E_num).
    exact Hnums.
  Qed.

  Lemma X_inv e : In e E -> exists e0, In e0 T /\ e = conv_ent (fillx ot e0).
  Proof. unfold E. intros H. apply in_map_iff in H as (e0 & <- & H). eauto. Qed.

  Lemma X_in e0 : In e0 T -> In (conv_ent (fillx ot e0)) E.
  Proof. intros H. unfold E. apply in_map_iff. exists e0. split; [reflexivity|exact H]. Qed.

  Lemma X_lookup e0 : In e0 T -> lookup_ent E (xe_obj e0) = Some (conv_ent (fillx ot e0)).
  Proof. intros H. rewrite <- (E_num ot e0). apply lookup_ent_NoDup; [exact X_NoDup|apply X_in, H]. Qed.

  (* what an in-use entry leads to *)
  Lemma X_inuse e ofs : In e E -> x_st e = Loader.XInUse ofs ->
    (ofs <? flen)%N = true /\
    ((exists v nx, In (x_id e, v) objs /\ Loader.find f ofs = Some (IObj (x_id e) v, nx) /\ simple (IObj (x_id e) v)) \/
     (exists ms nx clen, In (x_id e, ms) cs /\ Loader.find f ofs = Some (IObjStm (x_id e) clen None ms, nx))).
  Proof.
    intros Hin St. destruct (X_inv e Hin) as (e0 & H0 & ->).
    unfold x_id. rewrite E_num, E_gen.
    unfold fillx in St. destruct (xe_st e0) as [nx0|o0|a c] eqn:S0; cbn in St; rewrite ?S0 in St; cbn in St; try discriminate.
    assert (U : inuse e0 = true) by (unfold inuse; rewrite S0; reflexivity).
    destruct (Hinuse e0 H0 U) as [Hid|Hid].
    - apply in_map_iff in Hid as ([id v] & Eid & Hx). cbn [fst] in Eid. subst id.
      destruct (Hobj _ Hx) as (o & nx & G & Lo & F & S). cbn [fst snd] in *.
      rewrite G in St. injection St as <-. split; [exact Lo|]. left. eauto.
    - apply in_map_iff in Hid as ([id ms] & Eid & Hx). cbn [fst] in Eid. subst id.
      destruct (Hcon _ Hx) as (o & nx & clen & G & Lo & F). cbn [fst snd] in *.
      rewrite G in St. injection St as <-. split; [exact Lo|]. right. eauto.
  Qed.

  Lemma X_good e ofs : In e E -> x_st e = Loader.XInUse ofs ->
    good f flen [] (info_from_xref_entries (first_per_key E)) (x_id e) ofs.
  Proof.
    intros Hin St. destruct (X_inuse e ofs Hin St) as (Lo & [(v & nx & _ & F & S)|(ms & nx & clen & _ & F)]); (split; [exact Lo|]).
    - exists (IObj (x_id e) v), nx, (VObj v). split; [exact F|]. split; [reflexivity|]. left. exact S.
    - exists (IObjStm (x_id e) clen None ms), nx, (VObjStm ms). split; [exact F|]. split; [reflexivity|]. left. exact I.
  Qed.

  (* the containers, as the entries lead to them *)
  Lemma X_container c : In c cs -> container f E (fst (fst c)) = Some (snd c).
  Proof.
    intros Hc. assert (Hid : In (fst c) (List.map fst cs)) by (apply in_map, Hc).
    destruct (Hall_c _ Hid) as (e0 & H0 & U0 & Eid).
    pose proof (X_lookup e0 H0) as Lk.
    destruct (Hcon c Hc) as (o & nx & clen & G & Lo & F). destruct (Hc0 c Hc) as (G0 & _).
    assert (En : xe_obj e0 = fst (fst c)) by (rewrite <- Eid; reflexivity).
    assert (Eg : xe_gen e0 = 0%N) by (rewrite <- G0, <- Eid; reflexivity).
    unfold container. rewrite <- En, Lk.
    assert (St : x_st (conv_ent (fillx ot e0)) = Loader.XInUse (N.of_nat o)).
    { unfold fillx. unfold inuse in U0. destruct (xe_st e0); try discriminate. cbn. rewrite Eid, G. reflexivity. }
    rewrite St, E_gen, Eg. cbn [N.eqb]. unfold obj_at. rewrite F. reflexivity.
  Qed.

  Lemma X_container_inv stm ms : container f E stm = Some ms -> In ((stm, 0%N), ms) cs.
  Proof.
    unfold container. destruct (lookup_ent E stm) as [ec|] eqn:Lk; [|discriminate].
    apply lookup_ent_In in Lk as (He & En).
    destruct (x_st ec) as [|ofc|] eqn:St; try discriminate.
    destruct (N.eqb (x_gen ec) 0) eqn:Eg; [|discriminate]. apply N.eqb_eq in Eg.
    assert (Eid : x_id ec = (stm, 0%N)) by (unfold x_id; congruence).
    destruct (X_inuse ec ofc He St) as (_ & [(v & nx & _ & F & _)|(ms' & nx & clen & Hc & F)]); unfold obj_at; rewrite F; cbn [item_val].
    - discriminate.
    - intros H. injection H as <-. rewrite <- Eid. exact Hc.
  Qed.

  Lemma X_status e : In e E ->
    (exists nx, x_st e = Loader.XFree nx) \/ (exists ofs, x_st e = Loader.XInUse ofs) \/ (exists a b, x_st e = Loader.XInStream a b).
  Proof.
    intros Hin. destruct (X_inv e Hin) as (e0 & H0 & ->). unfold fillx.
    destruct (xe_st e0) as [nx0|o0|a c] eqn:S0; cbn; rewrite ?S0; cbn; eauto.
  Qed.

  (* the three hypotheses of C03_load about members *)
  Lemma X_members e stm idx ms n v : In e E -> x_st e = Loader.XInStream stm idx -> container f E stm = Some ms -> In (n, v) ms ->
    exists idx', lookup_ent E n = Some (mkxent n 0 (Loader.XInStream stm idx')).
  Proof.
    intros _ _ C Hm. apply X_container_inv in C.
    destruct (Hmem _ n v C Hm) as (e0 & idx' & H0 & En & Eg & St). cbn [fst] in St.
    exists idx'. rewrite <- En at 1. rewrite (X_lookup e0 H0). unfold fillx, conv_ent. rewrite St. cbn. rewrite ?St, En, Eg. reflexivity.
  Qed.

  Lemma X_members_nodup stm ms : container f E stm = Some ms -> NoDup (List.map fst ms).
  Proof. intros C. apply X_container_inv in C. exact (proj2 (Hc0 _ C)). Qed.

  (* [resolve] restricted to the entries yields the document … *)
  Lemma X_resolve_doc id v : indoc id v -> resolve f E id = Some (VObj v).
  Proof.
    intros [Hx|(c & n & Hc & -> & Hm)].
    - assert (Hid : In id (List.map fst objs)) by (change id with (fst (id, v)); apply in_map, Hx).
      destruct (Hall_o id Hid) as (e0 & H0 & U0 & Eid).
      pose proof (X_lookup e0 H0) as Lk.
      destruct (Hobj _ Hx) as (o & nx & G & Lo & F & S). cbn [fst snd] in *.
      assert (St : x_st (conv_ent (fillx ot e0)) = Loader.XInUse (N.of_nat o)).
      { unfold fillx. unfold inuse in U0. destruct (xe_st e0); try discriminate. cbn. rewrite Eid, G. reflexivity. }
      unfold resolve. rewrite <- Eid. cbn [fst snd]. rewrite Lk, St, E_gen, N.eqb_refl. unfold obj_at. rewrite F. reflexivity.
    - destruct (Hmem c n v Hc Hm) as (e0 & idx & H0 & En & Eg & St).
      pose proof (X_lookup e0 H0) as Lk. rewrite En in Lk.
      unfold resolve. cbn [fst snd]. rewrite Lk.
      assert (St' : x_st (conv_ent (fillx ot e0)) = Loader.XInStream (fst (fst c)) idx) by (unfold fillx; rewrite St; cbn; rewrite St; reflexivity).
      rewrite St'. cbn [N.eqb]. rewrite (X_container c Hc).
      rewrite (In_assocN _ _ _ (proj2 (Hc0 c Hc)) Hm). reflexivity.
  Qed.

  (* … and, besides it, only the containers *)
  Lemma X_resolve_only id w : resolve f E id = Some w ->
    (exists v, w = VObj v /\ indoc id v) \/ (exists c, In c cs /\ id = fst c /\ w = VObjStm (snd c)).
  Proof.
    unfold resolve. destruct (lookup_ent E (fst id)) as [e|] eqn:Lk; [|discriminate].
    apply lookup_ent_In in Lk as (He & En).
    destruct (x_st e) as [nx|ofs|stm idx] eqn:St; [discriminate| |].
    - destruct (N.eqb (x_gen e) (snd id)) eqn:Eg; [|discriminate]. apply N.eqb_eq in Eg.
      assert (Eid : x_id e = id) by (unfold x_id; destruct id; cbn [fst snd] in *; congruence).
      destruct (X_inuse e ofs He St) as (_ & [(v & nx & Hx & F & _)|(ms & nx & clen & Hc & F)]); unfold obj_at; rewrite F; cbn [item_val];
        intros H; injection H as <-; rewrite Eid in *.
      + left. exists v. split; [reflexivity|]. left. exact Hx.
      + right. exists (id, ms). split; [exact Hc|]. split; reflexivity.
    - destruct (N.eqb (snd id) 0) eqn:Eg; [|discriminate]. apply N.eqb_eq in Eg.
      destruct (container f E stm) as [ms|] eqn:C; [|discriminate].
      destruct (assocN ms (fst id)) as [v|] eqn:A; [|discriminate]. cbn [option_map]. intros H. injection H as <-.
      left. exists v. split; [reflexivity|]. right. apply X_container_inv in C. apply assocN_In in A.
      exists ((stm, 0%N), ms), (fst id). split; [exact C|]. split; [destruct id; cbn [fst snd] in *; subst; reflexivity|exact A].
  Qed.
End Mixed.

(* ---------- side conditions ---------- *)
Record wf_olayout (rel : bool) (objs : list (oid * obj)) (stms : list ostm) (root : oid) (X : xlayout) : Prop := {
  wo_frame : wf_xframe (written objs stms) root X;
  (* one object layout per written object (the in-file objects, then the containers), each legal *)
  wo_len : len (xl_objs X) = len (written objs stms);
  wo_wf : Forall (fun p => wf_obj_k (fun _ => True) (fst p) (snd p)) (combine (written objs stms) (xl_objs X));
  wo_plain : Forall (fun x => match snd x with OStream dd _ => plain_stream dd | _ => True end) objs;
  wo_ids : NoDup (List.map fst (written objs stms));
  (* every container satisfies the hypotheses of C14_extract *)
  wo_stms : Forall (wf_ostm rel) stms;
  (* the rows: every number at most once; in-use rows = the written objects; every member has a type-2 row naming
     its container *)
  wo_nums : NoDup (List.map xe_obj (parts_ents (xl_parts X)));
  wo_inuse : forall e, In e (parts_ents (xl_parts X)) -> inuse e = true ->
                       In (xe_obj e, xe_gen e) (List.map fst (written objs stms));
  wo_all : forall id, In id (List.map fst (written objs stms)) ->
                      exists e, In e (parts_ents (xl_parts X)) /\ inuse e = true /\ (xe_obj e, xe_gen e) = id;
  wo_members : forall o m, In o stms -> In m (os_ms o) ->
                           exists e idx, In e (parts_ents (xl_parts X)) /\ xe_obj e = m_id m /\
                                         xe_st e = XrefTab.XInStream (os_num o) idx }.

Section ObjStreams.
  Variables (rel : bool) (objs : list (oid * obj)) (stms : list ostm) (root : oid) (X : xlayout).
  Hypothesis Wo : wf_olayout rel objs stms root X.

  Let F := written objs stms.
  Let V := render_xrefstm_view F X.
  Let ot := xot F X.
  Let f := file_of rel V.
  Let flen := N.of_nat (len V).
  Let T := parts_ents (xl_parts X).
  Let E : list Loader.xent := List.map (fun e => conv_ent (fillx ot e)) T.
  Let cs : list (oid * list (N * obj)) := List.map (fun o => (os_id o, os_members o)) stms.
  Let sx := N.of_nat (len (xbody F X)).

  Lemma o_obj_found x : In x objs ->
    exists o nx, off_get ot (fst x) = Some (N.of_nat o) /\ (N.of_nat o <? flen)%N = true /\
                 Loader.find f (N.of_nat o) = Some (IObj (fst x) (snd x), nx) /\ simple (IObj (fst x) (snd x)).
  Proof.
    intros Hin. assert (HF : In x F) by (apply in_or_app; left; exact Hin).
    destruct (fobj_found rel F X (wo_len _ _ _ _ _ Wo) (wo_wf _ _ _ _ _ Wo) (wo_ids _ _ _ _ _ Wo) x HF) as (o & nx & G & Lo & Fd & S).
    exists o, nx. split; [exact G|]. split; [exact Lo|]. split; [|exact S]. unfold f, V. rewrite Fd. f_equal. f_equal.
    pose proof (proj1 (Forall_forall _ _) (wo_plain _ _ _ _ _ Wo) x Hin) as Pl. destruct x as [id v]. cbn [fst snd] in *.
    destruct v; try reflexivity. apply obj_item_plain, Pl.
  Qed.

  Lemma o_con_found c : In c cs ->
    exists o nx clen, off_get ot (fst c) = Some (N.of_nat o) /\ (N.of_nat o <? flen)%N = true /\
                      Loader.find f (N.of_nat o) = Some (IObjStm (fst c) clen None (snd c), nx).
  Proof.
    intros Hc. unfold cs in Hc. apply in_map_iff in Hc as (o & <- & Ho). cbn [fst snd].
    assert (HF : In (os_obj o) F) by (apply in_or_app; right; apply in_map, Ho).
    destruct (fobj_found rel F X (wo_len _ _ _ _ _ Wo) (wo_wf _ _ _ _ _ Wo) (wo_ids _ _ _ _ _ Wo) _ HF) as (p & nx & G & Lo & Fd & _).
    exists p, nx, (N.of_nat (len (os_content o))). split; [exact G|]. split; [exact Lo|]. unfold f, V. rewrite Fd. f_equal. f_equal.
    apply obj_item_ostm. exact (proj1 (Forall_forall _ _) (wo_stms _ _ _ _ _ Wo) o Ho).
  Qed.

  Lemma o_c0 c : In c cs -> snd (fst c) = 0%N /\ NoDup (List.map fst (snd c)).
  Proof.
    intros Hc. unfold cs in Hc. apply in_map_iff in Hc as (o & <- & Ho). cbn [fst snd os_id]. split; [reflexivity|].
    unfold os_members. rewrite map_map. cbn [fst].
    destruct (proj1 (Forall_forall _ _) (wo_stms _ _ _ _ _ Wo) o Ho) as (_ & _ & _ & _ & _ & _ & _ & _ & _ & _ & _ & Nd). exact Nd.
  Qed.

  Lemma F_ids : List.map fst F = List.map fst objs ++ List.map fst cs.
  Proof. unfold F, written, cs. rewrite map_app, !map_map. reflexivity. Qed.

  Lemma o_inuse e : In e T -> inuse e = true ->
    In (xe_obj e, xe_gen e) (List.map fst objs) \/ In (xe_obj e, xe_gen e) (List.map fst cs).
  Proof. intros He U. pose proof (wo_inuse _ _ _ _ _ Wo e He U) as H. fold F in H. rewrite F_ids in H. apply in_app_or, H. Qed.

  Lemma o_all_o id : In id (List.map fst objs) -> exists e, In e T /\ inuse e = true /\ (xe_obj e, xe_gen e) = id.
  Proof. intros H. apply (wo_all _ _ _ _ _ Wo). fold F. rewrite F_ids. apply in_or_app. left. exact H. Qed.

  Lemma o_all_c id : In id (List.map fst cs) -> exists e, In e T /\ inuse e = true /\ (xe_obj e, xe_gen e) = id.
  Proof. intros H. apply (wo_all _ _ _ _ _ Wo). fold F. rewrite F_ids. apply in_or_app. right. exact H. Qed.

  Lemma o_mem c n v : In c cs -> In (n, v) (snd c) ->
    exists e idx, In e T /\ xe_obj e = n /\ xe_gen e = 0%N /\ xe_st e = XrefTab.XInStream (fst (fst c)) idx.
  Proof.
    intros Hc Hm. unfold cs in Hc. apply in_map_iff in Hc as (o & <- & Ho). cbn [fst snd os_id] in *.
    unfold os_members in Hm. apply in_map_iff in Hm as (m & Em & Hm). injection Em as <- <-.
    destruct (wo_members _ _ _ _ _ Wo o m Ho Hm) as (e & idx & He & En & St).
    exists e, idx. split; [exact He|]. split; [exact En|]. split; [|exact St]. exact (parts_ents_instm_gen _ _ _ _ He St).
  Qed.

  Lemma abstract_objstm : abstract_file rel (render_objstm objs stms X) = mkpdf true flen (Some sx) f.
  Proof. exact (abstract_xframe rel F root X (wo_frame _ _ _ _ _ Wo) (wo_len _ _ _ _ _ Wo)). Qed.

  (* document membership, in list form *)
  Lemma indoc_iff id v : indoc objs cs id v <-> In (id, v) (objs ++ compressed stms).
  Proof.
    unfold indoc. rewrite in_app_iff. split; (intros [H|H]; [left; exact H|right]).
    - destruct H as (c & n & Hc & -> & Hm). unfold cs in Hc. apply in_map_iff in Hc as (o & <- & Ho). cbn [snd] in Hm.
      unfold os_members in Hm. apply in_map_iff in Hm as (m & Em & Hm). injection Em as <- <-.
      unfold compressed. apply in_flat_map. exists o. split; [exact Ho|]. unfold os_docobjs. apply in_map_iff. exists m. split; [reflexivity|exact Hm].
    - unfold compressed in H. apply in_flat_map in H as (o & Ho & H). unfold os_docobjs in H. apply in_map_iff in H as (m & Em & Hm).
      injection Em as <- <-. exists (os_id o, os_members o), (m_id m). split; [unfold cs; apply in_map_iff; exists o; split; [reflexivity|exact Ho]|].
      split; [reflexivity|]. cbn [snd]. unfold os_members. apply in_map_iff. exists m. split; [reflexivity|exact Hm].
  Qed.

  (* THE END-TO-END THEOREM with object streams *)
  Theorem load_bytes_objstm :
    exists c, load_bytes rel (render_objstm objs stms X) = Loaded c root /\
              (forall id v, In (id, v) (objs ++ compressed stms) -> ctx_get c id = Some (VObj v)) /\
              (forall id w, ctx_get c id = Some w ->
                 (exists v, w = VObj v /\ In (id, v) (objs ++ compressed stms)) \/
                 (exists o, In o stms /\ id = os_id o /\ w = VObjStm (os_members o))).
  Proof.
    unfold load_bytes. set (p := abstract_file rel (render_objstm objs stms X)).
    assert (Ep : p = mkpdf true flen (Some sx) f) by apply abstract_objstm.
    destruct (xstm_found rel F root X (wo_frame _ _ _ _ _ Wo) (wo_len _ _ _ _ _ Wo)) as (nx & TF).
    set (rt := ORef (fst root) (snd root)).
    assert (AE : all_ents [(sx, E, Some rt)] = E) by (unfold all_ents; cbn; apply app_nil_r).
    assert (HMo : mixed_ok f flen objs cs ot T).
    { constructor; [exact o_obj_found|exact o_con_found|exact o_c0|exact (wo_nums _ _ _ _ _ Wo)|exact o_inuse|exact o_all_o|exact o_all_c|exact o_mem]. }
    pose proof (X_good f flen objs cs ot T HMo) as XG.
    pose proof (X_members f flen objs cs ot T HMo) as XM.
    pose proof (X_members_nodup f flen objs cs ot T HMo) as XN.
    destruct (load_history p [(sx, E, Some rt)] (fst root) (snd root) sx) as (c & L & K).
    - rewrite Ep. reflexivity.
    - rewrite Ep. reflexivity.
    - rewrite Ep. exact (sx_lt_flen F X (wo_len _ _ _ _ _ Wo)).
    - rewrite Ep. cbn [p_file p_flen]. apply SS_last; [exact (sx_lt_flen F X (wo_len _ _ _ _ _ Wo))|]. eapply SA_stream. exact TF.
    - repeat constructor. intros [].
    - reflexivity.
    - rewrite AE, Ep. cbn [p_file p_flen]. intros e ofs Hin St. apply first_per_key_incl in Hin. exact (XG e ofs Hin St).
    - rewrite AE, Ep. cbn [p_file]. intros e stm idx ms n v Hin St C Hm. apply first_per_key_incl in Hin. exact (XM e stm idx ms n v Hin St C Hm).
    - rewrite AE, Ep. cbn [p_file]. intros e stm idx ms Hin St C. exact (XN stm ms C).
    - exists c. split; [destruct root; exact L|]. rewrite AE, Ep in K. cbn [p_file] in K. split.
      + intros id v Hd. rewrite K. apply indoc_iff in Hd.
        exact (X_resolve_doc f flen objs cs ot T HMo id v Hd).
      + intros id w G. rewrite K in G.
        destruct (X_resolve_only f flen objs cs ot T HMo id w G) as [(v & -> & Hd)|(cc & Hc & -> & ->)].
        * left. exists v. split; [reflexivity|]. apply indoc_iff, Hd.
        * right. unfold cs in Hc. apply in_map_iff in Hc as (o & <- & Ho). exists o. repeat split. exact Ho.
  Qed.
End ObjStreams.
