(* Proofs/Loader.v — basic facts about the loader model: identifiers, contexts, the newest-first
   merge, termination of the /Prev walk (fuel never runs out), cycle / bounds rejection. *)
From PV Require Import Model.Loader.
From Coq Require Import ZifyBool ZifyNat ZifyN.

(* ---------- identifiers ---------- *)
Lemma oid_eqb_eq a b : oid_eqb a b = true <-> a = b.
Proof.
  destruct a as [a1 a2], b as [b1 b2]. unfold oid_eqb. cbn [fst snd].
  rewrite andb_true_iff, !N.eqb_eq. split; [intros [-> ->]; reflexivity | intros H; inversion H; auto].
Qed.

Lemma oid_eqb_refl a : oid_eqb a a = true.
Proof. apply oid_eqb_eq. reflexivity. Qed.

Lemma oid_eqb_neq a b : oid_eqb a b = false <-> a <> b.
Proof.
  split.
  - intros H E. apply oid_eqb_eq in E. congruence.
  - intros H. destruct (oid_eqb a b) eqn:E; [apply oid_eqb_eq in E; contradiction | reflexivity].
Qed.

Lemma oid_eqb_sym a b : oid_eqb a b = oid_eqb b a.
Proof.
  destruct (oid_eqb a b) eqn:E.
  - apply oid_eqb_eq in E. subst. symmetry. apply oid_eqb_refl.
  - symmetry. apply oid_eqb_neq. apply oid_eqb_neq in E. congruence.
Qed.

Lemma oid_dec (a b : oid) : {a = b} + {a <> b}.
Proof. destruct (oid_eqb a b) eqn:E; [left; apply oid_eqb_eq, E | right; apply oid_eqb_neq, E]. Qed.

Lemma mem_oid_In x l : mem_oid x l = true <-> In x l.
Proof.
  induction l as [|y l IH]; cbn [mem_oid In]; [split; [discriminate|tauto]|].
  rewrite orb_true_iff, IH, oid_eqb_eq. split; intros [H|H]; auto.
Qed.

Lemma mem_oid_false x l : mem_oid x l = false <-> ~ In x l.
Proof. rewrite <- mem_oid_In. destruct (mem_oid x l); split; congruence. Qed.

Lemma mem_N_In x l : mem_N x l = true <-> In x l.
Proof.
  induction l as [|y l IH]; cbn [mem_N In]; [split; [discriminate|tauto]|].
  rewrite orb_true_iff, IH, N.eqb_eq. split; intros [H|H]; auto.
Qed.

(* ---------- contexts ---------- *)
Lemma ctx_get_set_same c id v : ctx_get (ctx_set c id v) id = Some v.
Proof.
  induction c as [|[k w] c IH]; cbn [ctx_set ctx_get].
  - rewrite oid_eqb_refl. reflexivity.
  - destruct (oid_eqb k id) eqn:E; cbn [ctx_get]; rewrite E; [reflexivity | exact IH].
Qed.

Lemma ctx_get_set_other c id v id' : id' <> id -> ctx_get (ctx_set c id v) id' = ctx_get c id'.
Proof.
  intros N. induction c as [|[k w] c IH]; cbn [ctx_set ctx_get].
  - replace (oid_eqb id id') with false; [reflexivity|]. symmetry. apply oid_eqb_neq. congruence.
  - destruct (oid_eqb k id) eqn:E; cbn [ctx_get].
    + apply oid_eqb_eq in E. subst k. replace (oid_eqb id id') with false; [reflexivity|].
      symmetry. apply oid_eqb_neq. congruence.
    + destruct (oid_eqb k id'); [reflexivity | exact IH].
Qed.

Lemma register_fresh c id v : ctx_get c id = None -> register c id v = (ctx_set c id v, false).
Proof. intros H. unfold register. rewrite H. reflexivity. Qed.

Lemma reg_res_fresh c id v : ctx_get c id = None -> reg_res c id v = IR_ok (ctx_set c id v) id v.
Proof. intros H. unfold reg_res. rewrite register_fresh by exact H. reflexivity. Qed.

(* ---------- the newest-first merge ---------- *)
(* specification: keep, for every object number, the first entry that carries it *)
Fixpoint first_per_key (l : list xent) : list xent :=
  match l with
  | [] => []
  | e :: r => e :: filter (fun e' => negb (N.eqb (x_num e') (x_num e))) (first_per_key r)
  end.

(* first entry for a given object number *)
Fixpoint lookup_ent (l : list xent) (n : N) : option xent :=
  match l with
  | [] => None
  | e :: r => if N.eqb (x_num e) n then Some e else lookup_ent r n
  end.

Lemma filter_andb {A} (p q : A -> bool) l : filter p (filter q l) = filter (fun x => q x && p x) l.
Proof.
  induction l as [|x l IH]; cbn [filter]; [reflexivity|].
  destruct (q x); cbn [filter andb]; rewrite IH; reflexivity.
Qed.

Lemma filter_implied {A} (p q : A -> bool) l :
  (forall a, p a = true -> q a = true) -> filter p (filter q l) = filter p l.
Proof.
  intros H. induction l as [|x l IH]; cbn [filter]; [reflexivity|].
  destruct (q x) eqn:Q; cbn [filter].
  - rewrite IH. reflexivity.
  - destruct (p x) eqn:P; [apply H in P; congruence | exact IH].
Qed.

Lemma merge_ents_spec l s :
  merge_ents l s =
  (rev (map x_num (filter (fun e => negb (mem_N (x_num e) s)) (first_per_key l))) ++ s,
   filter (fun e => negb (mem_N (x_num e) s)) (first_per_key l)).
Proof.
  revert s. induction l as [|e l IH]; intros s; cbn [merge_ents first_per_key filter]; [reflexivity|].
  destruct (mem_N (x_num e) s) eqn:M; cbn [negb].
  - rewrite IH.
    assert (F : filter (fun e0 => negb (mem_N (x_num e0) s))
                       (filter (fun e' => negb (N.eqb (x_num e') (x_num e))) (first_per_key l)) =
                filter (fun e0 => negb (mem_N (x_num e0) s)) (first_per_key l)).
    { apply filter_implied. intros a Ha. destruct (N.eqb (x_num a) (x_num e)) eqn:E; [|reflexivity].
      apply N.eqb_eq in E. rewrite E, M in Ha. discriminate. }
    rewrite F. reflexivity.
  - rewrite IH. cbn [map rev].
    assert (F : filter (fun e0 => negb (mem_N (x_num e0) (x_num e :: s))) (first_per_key l) =
                filter (fun e0 => negb (mem_N (x_num e0) s))
                       (filter (fun e' => negb (N.eqb (x_num e') (x_num e))) (first_per_key l))).
    { rewrite filter_andb. apply filter_ext. intros a. cbn [mem_N]. rewrite negb_orb. reflexivity. }
    rewrite F. f_equal. rewrite <- app_assoc. reflexivity.
Qed.

(* merge_newest_first: the entries pushed by the loop over the concatenation of the sections
   (newest first) are exactly the first entry per object number *)
Theorem merge_newest_first l : snd (merge_ents l []) = first_per_key l.
Proof.
  rewrite merge_ents_spec. cbn [snd]. cbn [mem_N negb].
  induction (first_per_key l) as [|a L IH]; cbn [filter]; [reflexivity | rewrite IH; reflexivity].
Qed.

Lemma lookup_filter_ne l k n :
  lookup_ent (filter (fun e' => negb (N.eqb (x_num e') k)) l) n =
  if N.eqb k n then None else lookup_ent l n.
Proof.
  induction l as [|a l IH]; cbn [filter lookup_ent]; [destruct (N.eqb k n); reflexivity|].
  destruct (N.eqb (x_num a) k) eqn:E; cbn [negb lookup_ent].
  - rewrite IH. apply N.eqb_eq in E. rewrite E. destruct (N.eqb k n); reflexivity.
  - rewrite IH. destruct (N.eqb (x_num a) n) eqn:E2; [|reflexivity].
    apply N.eqb_eq in E2. rewrite <- E2. rewrite N.eqb_sym, E. reflexivity.
Qed.

(* ... and looking a number up in the merged list gives the first (= newest) entry that mentions it *)
Theorem lookup_first_per_key l n : lookup_ent (first_per_key l) n = lookup_ent l n.
Proof.
  induction l as [|e l IH]; cbn [first_per_key lookup_ent]; [reflexivity|].
  destruct (N.eqb (x_num e) n) eqn:E; [reflexivity|]. rewrite lookup_filter_ne, E. exact IH.
Qed.

Lemma first_per_key_incl l e : In e (first_per_key l) -> In e l.
Proof.
  revert e. induction l as [|a l IH]; intros e; cbn [first_per_key In]; [tauto|].
  intros [H|H]; [left; exact H|]. apply filter_In in H as [H _]. right. apply IH, H.
Qed.

Lemma first_per_key_NoDup l : NoDup (map x_num (first_per_key l)).
Proof.
  induction l as [|a l IH]; cbn [first_per_key map]; [constructor|].
  constructor.
  - intros H. apply in_map_iff in H as (e & He & Hin). apply filter_In in Hin as [_ Hn].
    rewrite He, N.eqb_refl in Hn. discriminate.
  - generalize dependent (first_per_key l). intros L HL. induction L as [|b L IHL]; cbn [filter map]; [constructor|].
    inversion HL; subst. destruct (N.eqb (x_num b) (x_num a)); cbn [negb map]; [apply IHL; assumption|].
    constructor; [|apply IHL; assumption].
    intros H. apply H1. apply in_map_iff in H as (e & He & Hin). apply filter_In in Hin as [Hin _].
    apply in_map_iff. exists e. auto.
Qed.

Lemma lookup_ent_In l n e : lookup_ent l n = Some e -> In e l /\ x_num e = n.
Proof.
  induction l as [|a l IH]; cbn [lookup_ent]; [discriminate|].
  destruct (N.eqb (x_num a) n) eqn:E.
  - intros H; inversion H; subst. split; [left; reflexivity | apply N.eqb_eq, E].
  - intros H. apply IH in H as [H1 H2]. split; [right; exact H1 | exact H2].
Qed.

Lemma lookup_ent_NoDup l e : NoDup (map x_num l) -> In e l -> lookup_ent l (x_num e) = Some e.
Proof.
  induction l as [|a l IH]; cbn [map lookup_ent In]; [tauto|].
  intros ND [H|H].
  - subst. rewrite N.eqb_refl. reflexivity.
  - inversion ND; subst. destruct (N.eqb (x_num a) (x_num e)) eqn:E.
    + apply N.eqb_eq in E. exfalso. apply H2. rewrite E. apply in_map, H.
    + apply IH; assumption.
Qed.

Lemma merge_ents_app a b s :
  merge_ents (a ++ b) s =
  (fst (merge_ents b (fst (merge_ents a s))), snd (merge_ents a s) ++ snd (merge_ents b (fst (merge_ents a s)))).
Proof.
  revert s. induction a as [|e a IH]; intros s; cbn [app merge_ents fst snd].
  - destruct (merge_ents b s); reflexivity.
  - destruct (mem_N (x_num e) s).
    + apply IH.
    + rewrite IH. destruct (merge_ents a (x_num e :: s)) as [s1 k1]. cbn [fst snd].
      destruct (merge_ents b s1); reflexivity.
Qed.

(* ---------- the /Prev walk: fuel never runs out ---------- *)
Definition keys (f : file) : list N := map fst f.

Lemma find_some_key f o v : find f o = Some v -> In o (keys f).
Proof.
  induction f as [|[k w] f IH]; cbn [find keys map In]; [discriminate|].
  destruct (N.eqb k o) eqn:E; [apply N.eqb_eq in E; auto | intros H; right; apply IH, H].
Qed.

Lemma step_key f flen o r : step f flen o = Some r -> In o (keys f).
Proof.
  unfold step, parse_xref_section. destruct (find f o) as [[it nx]|] eqn:F.
  - intros _. eapply find_some_key, F.
  - cbn [parse_xref_stream]. rewrite F. cbn. discriminate.
Qed.

Definition remaining (cs : list N) (f : file) : nat :=
  List.length (filter (fun k => negb (mem_N k cs)) (nodup N.eq_dec (keys f))).

Lemma filter_length_lt {A} (p q : A -> bool) l x :
  (forall a, q a = true -> p a = true) -> In x l -> p x = true -> q x = false ->
  List.length (filter q l) < List.length (filter p l).
Proof.
  intros H. induction l as [|a l IH]; cbn [In filter]; [tauto|].
  intros [->|Hin] Px Qx.
  - rewrite Px, Qx. cbn [List.length].
    assert (List.length (filter q l) <= List.length (filter p l)); [|lia].
    clear -H. induction l as [|b l IH]; cbn [filter]; [lia|].
    destruct (q b) eqn:Qb; [rewrite (H _ Qb); cbn [List.length]; lia|].
    destruct (p b); cbn [List.length]; lia.
  - specialize (IH Hin Px Qx). destruct (q a) eqn:Qa; [rewrite (H _ Qa); cbn [List.length]; lia|].
    destruct (p a); cbn [List.length]; lia.
Qed.

Lemma remaining_decr cs f o : In o (keys f) -> mem_N o cs = false -> remaining (o :: cs) f < remaining cs f.
Proof.
  intros Hin Hm. unfold remaining. apply filter_length_lt with (x := o).
  - intros a. cbn [mem_N]. destruct (N.eqb a o); cbn [orb negb]; [discriminate | auto].
  - apply nodup_In, Hin.
  - rewrite Hm. reflexivity.
  - cbn [mem_N]. rewrite N.eqb_refl. reflexivity.
Qed.

Lemma filter_len_le {A} (p : A -> bool) l : List.length (filter p l) <= List.length l.
Proof. induction l as [|a l IH]; cbn [filter List.length]; [lia|]. destruct (p a); cbn [List.length]; lia. Qed.

Lemma remaining_le cs f : remaining cs f <= List.length f.
Proof.
  unfold remaining. etransitivity; [apply filter_len_le|].
  etransitivity; [apply NoDup_incl_length; [apply NoDup_nodup | intros x Hx; apply nodup_In in Hx; exact Hx]|].
  unfold keys. rewrite map_length. lia.
Qed.

Theorem walk_no_fuel fuel f flen cs ids xs root next :
  remaining cs f < fuel -> walk fuel f flen cs ids xs root next <> WFuel.
Proof.
  revert cs ids xs root next. induction fuel as [|n IH]; intros cs ids xs root next H; [lia|].
  cbn [walk]. destruct (mem_N next cs) eqn:M; [discriminate|].
  destruct (negb (next <? flen)%N); [discriminate|].
  destruct (step f flen next) as [[[ents rt] prev]|] eqn:St; [|discriminate].
  destruct (match root with Some _ => root | None => rt end); [|discriminate].
  destruct (merge_ents ents ids) as [ids' kept].
  destruct prev as [p|]; [|discriminate].
  apply IH. pose proof (remaining_decr cs f next (step_key _ _ _ _ St) M). lia.
Qed.

(* once the walk has an answer, more fuel does not change it *)
Theorem walk_fuel_mono fuel k f flen cs ids xs root next :
  walk fuel f flen cs ids xs root next <> WFuel ->
  walk (fuel + k) f flen cs ids xs root next = walk fuel f flen cs ids xs root next.
Proof.
  revert cs ids xs root next. induction fuel as [|n IH]; intros cs ids xs root next; [cbn [walk]; congruence|].
  cbn [walk Nat.add]. destruct (mem_N next cs); [reflexivity|].
  destruct (negb (next <? flen)%N); [reflexivity|].
  destruct (step f flen next) as [[[ents rt] prev]|]; [|reflexivity].
  destruct (match root with Some _ => root | None => rt end); [|reflexivity].
  destruct (merge_ents ents ids) as [ids' kept].
  destruct prev as [p|]; [|reflexivity]. apply IH.
Qed.

Theorem load_no_fuel p : load p <> OutFuel.
Proof.
  unfold load, load_fuel. destruct (negb (p_magic p)); [discriminate|].
  destruct (p_startxref p) as [sx|]; [|discriminate].
  destruct (negb (sx <? p_flen p)%N); [discriminate|].
  destruct (walk _ _ _ _ _ _ _ _) eqn:W.
  - discriminate.
  - exfalso. revert W. apply walk_no_fuel. pose proof (remaining_le [] (p_file p)). unfold len. lia.
  - destruct (parse_objects _ _ _ _); [discriminate|]. destruct root; discriminate.
Qed.

(* totality, for ALL abstract files: the loader logic always answers, and the answer is a rejection
   or a loaded context ([outcome] has no panic constructor: see the audit of panic sites in Model/Loader.v) *)
Theorem load_total p : load p <> OutFuel /\ (load p = Rejected \/ exists c r, load p = Loaded c r).
Proof.
  split; [apply load_no_fuel|]. pose proof (load_no_fuel p) as NF.
  destruct (load p) as [| |c r]; [left; reflexivity | congruence | right; exists c, r; reflexivity].
Qed.

(* the number of loop iterations is bounded by the number of distinct offsets of the file (+1):
   any fuel above it yields the same answer as the fuel [load] uses *)
Theorem load_fuel_indep p k : load_fuel (S (S (len (p_file p))) + k) p = load p.
Proof.
  unfold load, load_fuel. destruct (negb (p_magic p)); [reflexivity|].
  destruct (p_startxref p) as [sx|]; [|reflexivity].
  destruct (negb (sx <? p_flen p)%N); [reflexivity|].
  rewrite walk_fuel_mono; [reflexivity|].
  apply walk_no_fuel. pose proof (remaining_le [] (p_file p)). unfold len. lia.
Qed.

(* ---------- cycle / bounds rejection ---------- *)
(* the offsets the loop visits when started at [o], and the /Prev it is left with *)
Inductive follows (f : file) (flen : N) : N -> list N -> option N -> Prop :=
| F_last o ents rt pv :
    (o <? flen)%N = true -> step f flen o = Some (ents, rt, pv) -> follows f flen o [o] pv
| F_cons o ents rt o' l pv :
    (o <? flen)%N = true -> step f flen o = Some (ents, rt, Some o') ->
    follows f flen o' l pv -> follows f flen o (o :: l) pv.

Lemma walk_dangling f flen o l t :
  follows f flen o l (Some t) ->
  forall fuel cs ids xs root, In t l \/ In t cs \/ (flen <= t)%N ->
  forall xr r, walk fuel f flen cs ids xs root o <> WOk xr r.
Proof.
  intros F. remember (Some t) as pv eqn:Epv. induction F as [o ents rt pv Hb St | o ents rt o' l pv Hb St F IH];
    intros fuel cs ids xs root Ht xr r; subst pv.
  - destruct fuel as [|n]; cbn [walk]; [discriminate|].
    destruct (mem_N o cs); [discriminate|]. rewrite Hb. cbn [negb]. rewrite St.
    destruct (match root with Some _ => root | None => rt end); [|discriminate].
    destruct (merge_ents ents ids) as [ids' kept].
    destruct n as [|n]; cbn [walk]; [discriminate|].
    destruct Ht as [Ht|[Ht|Ht]].
    + destruct Ht as [<-|[]]. cbn [mem_N]. rewrite N.eqb_refl. cbn [orb]. discriminate.
    + replace (mem_N t (o :: cs)) with true; [discriminate|]. symmetry. apply mem_N_In. right. exact Ht.
    + destruct (mem_N t (o :: cs)); [discriminate|].
      replace (t <? flen)%N with false by (symmetry; apply N.ltb_ge; exact Ht). cbn [negb]. discriminate.
  - destruct fuel as [|n]; cbn [walk]; [discriminate|].
    destruct (mem_N o cs); [discriminate|]. rewrite Hb. cbn [negb]. rewrite St.
    destruct (match root with Some _ => root | None => rt end); [|discriminate].
    destruct (merge_ents ents ids) as [ids' kept].
    apply IH; [reflexivity|]. cbn [In] in *. destruct Ht as [[Ht|Ht]|[Ht|Ht]]; auto.
Qed.

Definition prev_revisits (p : pdf) : Prop :=
  exists sx l t, p_startxref p = Some sx /\ follows (p_file p) (p_flen p) sx l (Some t) /\ In t l.
Definition prev_out_of_bounds (p : pdf) : Prop :=
  exists sx l t, p_startxref p = Some sx /\ follows (p_file p) (p_flen p) sx l (Some t) /\ (p_flen p <= t)%N.

Lemma load_dangling p sx l t :
  p_startxref p = Some sx -> follows (p_file p) (p_flen p) sx l (Some t) ->
  In t l \/ (p_flen p <= t)%N -> load p = Rejected.
Proof.
  intros Hs F Ht. pose proof (load_no_fuel p) as NF. unfold load, load_fuel in *. rewrite Hs in *.
  destruct (negb (p_magic p)); [reflexivity|].
  destruct (negb (sx <? p_flen p)%N); [reflexivity|].
  destruct (walk _ _ _ _ _ _ _ _) eqn:W; [reflexivity | congruence |].
  exfalso. revert W. eapply walk_dangling; [exact F|]. tauto.
Qed.

Theorem load_prev_cycle p : prev_revisits p -> load p = Rejected.
Proof. intros (sx & l & t & Hs & F & Ht). eapply load_dangling; eauto. Qed.

Theorem load_prev_oob p : prev_out_of_bounds p -> load p = Rejected.
Proof. intros (sx & l & t & Hs & F & Ht). eapply load_dangling; eauto. Qed.

(* ---------- the walk along a well-formed chain ---------- *)
Definition sect := (N * list xent * option obj)%type.      (* offset, entries, /Root *)
Definition s_off (s : sect) : N := fst (fst s).
Definition s_ents (s : sect) : list xent := snd (fst s).
Definition s_root (s : sect) : option obj := snd s.

(* the sections met from offset [o] on, newest first, ending in a section without /Prev *)
Inductive chain (f : file) (flen : N) : N -> list sect -> Prop :=
| C_last o ents rt :
    (o <? flen)%N = true -> step f flen o = Some (ents, rt, None) -> chain f flen o [(o, ents, rt)]
| C_cons o ents rt o' l :
    (o <? flen)%N = true -> step f flen o = Some (ents, rt, Some o') ->
    chain f flen o' l -> chain f flen o ((o, ents, rt) :: l).

Definition all_ents (S : list sect) : list xent := concat (map s_ents S).

Lemma walk_chain f flen o S :
  chain f flen o S ->
  forall fuel cs ids xs root r,
    NoDup (map s_off S) -> (forall x, In x (map s_off S) -> ~ In x cs) ->
    (match root with Some r0 => Some r0 | None => match S with s :: _ => s_root s | [] => None end end) = Some r ->
    List.length S <= fuel ->
    walk fuel f flen cs ids xs root o = WOk (xs ++ snd (merge_ents (all_ents S) ids)) r.
Proof.
  intros Ch. induction Ch as [o ents rt Hb St | o ents rt o' l Hb St Ch IH];
    intros fuel cs ids xs root r ND Dis Hr Hf.
  - destruct fuel as [|n]; [cbn in Hf; lia|]. cbn [walk].
    replace (mem_N o cs) with false.
    2:{ symmetry. destruct (mem_N o cs) eqn:M; [|reflexivity]. apply mem_N_In in M. exfalso.
        apply (Dis o); [left; reflexivity | exact M]. }
    rewrite Hb. cbn [negb]. rewrite St.
    cbn [s_root snd] in Hr.
    replace (match root with Some _ => root | None => rt end) with (Some r) by (destruct root; congruence).
    unfold all_ents. cbn [map concat s_ents fst snd]. rewrite app_nil_r.
    destruct (merge_ents ents ids) as [ids' kept]. reflexivity.
  - destruct fuel as [|n]; [cbn in Hf; lia|]. cbn [walk].
    replace (mem_N o cs) with false.
    2:{ symmetry. destruct (mem_N o cs) eqn:M; [|reflexivity]. apply mem_N_In in M. exfalso.
        apply (Dis o); [left; reflexivity | exact M]. }
    rewrite Hb. cbn [negb]. rewrite St.
    cbn [s_root snd] in Hr.
    replace (match root with Some _ => root | None => rt end) with (Some r) by (destruct root; congruence).
    unfold all_ents. cbn [map concat s_ents fst snd]. fold (all_ents l).
    rewrite merge_ents_app. destruct (merge_ents ents ids) as [ids' kept] eqn:ME. cbn [fst snd].
    cbn [map] in ND. inversion ND as [|? ? Hnin ND']; subst.
    rewrite (IH n (o :: cs) ids' (xs ++ kept) (Some r) r).
    + rewrite app_assoc. reflexivity.
    + exact ND'.
    + intros x Hx [E|Hc]; [subst; apply Hnin, Hx | apply (Dis x); [right; exact Hx | exact Hc]].
    + reflexivity.
    + cbn [List.length] in Hf. lia.
Qed.

Lemma chain_length f flen o S : chain f flen o S -> NoDup (map s_off S) -> List.length S <= List.length f.
Proof.
  intros Ch ND.
  assert (In_keys : forall x, In x (map s_off S) -> In x (keys f)).
  { clear ND. induction Ch as [o ents rt Hb St | o ents rt o' l Hb St Ch IH]; intros x; cbn [map In s_off fst].
    - intros [<-|[]]. eapply step_key, St.
    - intros [<-|H]; [eapply step_key, St | apply IH, H]. }
  rewrite <- (map_length s_off). etransitivity; [apply NoDup_incl_length; [exact ND | exact In_keys]|].
  unfold keys. rewrite map_length. lia.
Qed.
