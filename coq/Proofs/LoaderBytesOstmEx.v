(* Proofs/LoaderBytesOstmEx.v — C03b: the hypotheses of the end-to-end theorem with object streams are satisfiable:
   one in-file object, one container (the stream of C14_extract_satisfiable: members 5 and 6, a gap between them), a
   /W [1 1 1] cross-reference stream with two subsections and type-2 rows. *)
From PV Require Import Model.Obj Model.XrefTab Model.XrefStm Model.ObjStm Model.Loader Model.LoaderBytes
     Spec.Spelling Spec.XrefEnc Spec.ObjStmEnc Spec.RenderClassic Spec.RenderXrefStm Spec.RenderObjStm.
From PV Require Import Proofs.XrefBase Proofs.XrefTab Proofs.XrefStm Proofs.ObjStm Proofs.ObjStream Proofs.ObjTok Proofs.ObjNum Proofs.ObjSpell Proofs.ObjC02
     Proofs.LoaderBytesBase Proofs.LoaderBytesObj Proofs.LoaderBytesSect Proofs.LoaderBytesMain Proofs.LoaderBytesEx
     Proofs.LoaderBytesHistEx Proofs.LoaderBytesXstm Proofs.LoaderBytesXstmEx Proofs.LoaderBytesOstm.
From Coq Require Import Lia.
Close Scope N_scope.

Ltac nm := apply ex_name_raw; repeat constructor; discriminate.
Ltac ifi w1 k n w2 x rest :=
  apply (int_follow_int w1 k n w2 x rest);
  [ws1|lia|reflexivity|reflexivity|first [apply ws_nil|ws1]|reflexivity|discriminate|first [left; discriminate|right; reflexivity]|discriminate].

(* ---------- the container ---------- *)
Definition oo_dict : list (bytes * obj) :=
  [(B "First", OInt 8); (B "Length", OInt 16); (B "N", OInt 2); (B "Type", OName (B "ObjStm"))].
Definition oo_sp : bytes := B "<</Type/ObjStm/N 2/First 8/Length 16>>".

Lemma oo_spells : spells' 50 (ODict oo_dict) oo_sp.
Proof.
  apply (sp_dict _ 49 [(B "Type", OName (B "ObjStm")); (B "N", OInt 2); (B "First", OInt 8); (B "Length", OInt 16)]
                 (B "/Type/ObjStm/N 2/First 8/Length 16")); [|reflexivity].
  apply (entries_cons _ 49 [] (B "Type") (B "Type") [] (OName (B "ObjStm")) (B "/ObjStm") _ (B "/N 2/First 8/Length 16")).
  { constructor. } { nm. } { constructor. } { intros _. reflexivity. }
  { apply (sp_name _ 48 (B "ObjStm") (B "ObjStm")). nm. }
  2:{ intros outer. reflexivity. }
  apply (entries_cons _ 49 [] (B "N") (B "N") (B " ") (OInt 2) (B "2") _ (B "/First 8/Length 16")).
  { constructor. } { nm. } { ws1. } { discriminate. } { exact (xd1 50 ltac:(lia) 48). }
  2:{ iflw. }
  apply (entries_cons _ 49 [] (B "First") (B "First") (B " ") (OInt 8) (B "8") _ (B "/Length 16")).
  { constructor. } { nm. } { ws1. } { discriminate. } { exact (xd1 56 ltac:(lia) 48). }
  2:{ iflw. }
  apply (entries_cons _ 49 [] (B "Length") (B "Length") (B " ") (OInt 16) (B "16") [] []).
  { constructor. } { nm. } { ws1. } { discriminate. }
  { apply sp_number. apply (sp_int false [] (B "16")); [constructor|discriminate|repeat constructor|vm_compute; split; discriminate]. }
  { repeat constructor. } { iflw. }
Qed.

Definition ex_ostm : ostm :=
  mk_ostm 4 oo_dict [mk_hpair [] 5 1 [32%N] 0 1; mk_hpair [32%N] 6 1 [32%N] 6 1] [32%N] (B "11 22 33")
          [mk_member 5 0 (OInt 11) 0 2; mk_member 6 6 (OInt 33) 6 8].

Lemma ex_wf_ostm rel : wf_ostm rel ex_ostm.
Proof.
  unfold wf_ostm. cbn [ex_ostm os_pairs os_pad os_dict os_body os_ms].
  split; [unfold objstm_dict_ok; repeat split; reflexivity|].
  split; [vm_compute; reflexivity|]. split; [vm_compute; reflexivity|]. split; [discriminate|]. split.
  { unfold wf_pairs, wf_pair, all_in, i64_lim. cbn.
    repeat split; try lia; try discriminate; try (repeat constructor; fail); auto; right; discriminate. }
  split; [cbn; lia|]. split; [reflexivity|]. split; [discriminate|]. split; [reflexivity|]. split.
  { repeat constructor; cbn; try lia; destruct rel; vm_compute; reflexivity. }
  split; [cbn; lia|]. repeat constructor; cbn; intuition discriminate.
Qed.

(* ---------- the cross-reference stream ---------- *)
Definition ox_dict : list (bytes * obj) :=
  [(B "Index", OArr [OInt 0; OInt 2; OInt 4; OInt 3]); (B "Length", OInt 15); (B "Root", ORef 1 0); (B "Size", OInt 7);
   (B "Type", OName (B "XRef")); (B "W", OArr [OInt 1; OInt 1; OInt 1])].
Definition ox_sp : bytes := B "<</Type/XRef/Size 7/W[1 1 1]/Index[0 2 4 3]/Root 1 0 R/Length 15>>".

Lemma ox_spells : spells' 50 (ODict ox_dict) ox_sp.
Proof.
  apply (sp_dict _ 49 [(B "Type", OName (B "XRef")); (B "Size", OInt 7); (B "W", OArr [OInt 1; OInt 1; OInt 1]);
                       (B "Index", OArr [OInt 0; OInt 2; OInt 4; OInt 3]); (B "Root", ORef 1 0); (B "Length", OInt 15)]
                 (B "/Type/XRef/Size 7/W[1 1 1]/Index[0 2 4 3]/Root 1 0 R/Length 15")); [|reflexivity].
  apply (entries_cons _ 49 [] (B "Type") (B "Type") [] (OName (B "XRef")) (B "/XRef") _ (B "/Size 7/W[1 1 1]/Index[0 2 4 3]/Root 1 0 R/Length 15")).
  { constructor. } { nm. } { constructor. } { intros _. reflexivity. }
  { apply (sp_name _ 48 (B "XRef") (B "XRef")). nm. }
  2:{ intros outer. reflexivity. }
  apply (entries_cons _ 49 [] (B "Size") (B "Size") (B " ") (OInt 7) (B "7") _ (B "/W[1 1 1]/Index[0 2 4 3]/Root 1 0 R/Length 15")).
  { constructor. } { nm. } { ws1. } { discriminate. } { exact (xd1 55 ltac:(lia) 48). }
  2:{ iflw. }
  apply (entries_cons _ 49 [] (B "W") (B "W") [] (OArr [OInt 1; OInt 1; OInt 1]) (B "[1 1 1]") _ (B "/Index[0 2 4 3]/Root 1 0 R/Length 15")).
  { constructor. } { nm. } { constructor. } { intros _. reflexivity. }
  { apply (sp_arr _ 48 _ (B "1 1 1")).
    apply (items_cons _ 48 [] (OInt 1) (B "1") _ (B " 1 1")); [constructor|exact (xd1 49 ltac:(lia) 47)| |].
    - apply (items_cons _ 48 (B " ") (OInt 1) (B "1") _ (B " 1")); [ws1|exact (xd1 49 ltac:(lia) 47)| |].
      + apply (items_cons _ 48 (B " ") (OInt 1) (B "1") [] []); [ws1|exact (xd1 49 ltac:(lia) 47)|repeat constructor|].
        intros outer. split; [reflexivity|]. apply int_follow_ws_stop. split; [reflexivity|discriminate].
      + intros outer. split; [reflexivity|]. ifi (B " ") 1 1%N (@nil N) 93%N outer.
    - intros outer. split; [reflexivity|]. ifi (B " ") 1 1%N (B " ") 49%N (93%N :: outer). }
  2:{ intros outer. exact I. }
  apply (entries_cons _ 49 [] (B "Index") (B "Index") [] (OArr [OInt 0; OInt 2; OInt 4; OInt 3]) (B "[0 2 4 3]") _ (B "/Root 1 0 R/Length 15")).
  { constructor. } { nm. } { constructor. } { intros _. reflexivity. }
  { apply (sp_arr _ 48 _ (B "0 2 4 3")).
    apply (items_cons _ 48 [] (OInt 0) (B "0") _ (B " 2 4 3")); [constructor|exact (xd1 48 ltac:(lia) 47)| |].
    - apply (items_cons _ 48 (B " ") (OInt 2) (B "2") _ (B " 4 3")); [ws1|exact (xd1 50 ltac:(lia) 47)| |].
      + apply (items_cons _ 48 (B " ") (OInt 4) (B "4") _ (B " 3")); [ws1|exact (xd1 52 ltac:(lia) 47)| |].
        * apply (items_cons _ 48 (B " ") (OInt 3) (B "3") [] []); [ws1|exact (xd1 51 ltac:(lia) 47)|repeat constructor|].
          intros outer. split; [reflexivity|]. apply int_follow_ws_stop. split; [reflexivity|discriminate].
        * intros outer. split; [reflexivity|]. ifi (B " ") 1 3%N (@nil N) 93%N outer.
      + intros outer. split; [reflexivity|]. ifi (B " ") 1 4%N (B " ") 51%N (93%N :: outer).
    - intros outer. split; [reflexivity|]. ifi (B " ") 1 2%N (B " ") 52%N (B " 3" ++ 93%N :: outer). }
  2:{ intros outer. exact I. }
  apply (entries_cons _ 49 [] (B "Root") (B "Root") (B " ") (ORef 1 0) (B "1 0 R") _ (B "/Length 15")).
  { constructor. } { nm. } { ws1. } { discriminate. }
  { apply (sp_ref _ 48 1 0 (B "1") (B " ") (B "0") (B " ")); [exact ex_nat1|ws1|discriminate|exact ex_nat0|ws1|discriminate]. }
  2:{ intros outer. reflexivity. }
  apply (entries_cons _ 49 [] (B "Length") (B "Length") (B " ") (OInt 15) (B "15") [] []).
  { constructor. } { nm. } { ws1. } { discriminate. }
  { apply sp_number. apply (sp_int false [] (B "15")); [constructor|discriminate|repeat constructor|vm_compute; split; discriminate]. }
  { repeat constructor. } { iflw. }
Qed.

Definition ex_oobjs : list (oid * obj) := [((1, 0)%N, OName (B "Catalog"))].

Definition ex_olayout : xlayout :=
  mk_xlayout [] (B "1.5" ++ [10%N])
    [mk_lobj 1 1 (B " ") (B " ") (B " ") (B "/Catalog") [10%N] [] [] [] [10%N];
     mk_lobj 1 1 (B " ") (B " ") [10%N] oo_sp [10%N] [10%N] [10%N] [10%N] [10%N]]
    (7, 0)%N ox_dict
    (mk_lobj 1 1 (B " ") (B " ") [10%N] ox_sp [10%N] [10%N] [10%N] [10%N] [10%N])
    (1, 1, 1)
    [(0%N, [RFree 0 0; RInUse 0 0]); (4%N, [RInUse 0 0; RInStream 4 0; RInStream 4 1])]
    [10%N] 3 [10%N] [10%N].

Lemma ex_wf_olayout rel : wf_olayout rel ex_oobjs [ex_ostm] (1, 0)%N ex_olayout.
Proof.
  constructor.
  - constructor.
    + vm_compute. reflexivity.
    + unfold wide. cbn. lia.
    + repeat constructor; cbn; try lia; try reflexivity.
    + vm_compute. reflexivity.
    + unfold wf_obj_k. cbn [fst snd ex_olayout xl_id xl_dict xl_lo xl_w0 xl_w1 xl_w2 xl_w xl_parts lo_nw lo_gw lo_w1 lo_w2 lo_w3 lo_w4 lo_w5 lo_sp lo_eol1 lo_eol2].
      repeat split; try exact ox_spells; try lia; try (vm_compute; reflexivity); try discriminate; try ex_ws.
      * left. reflexivity.
      * right. right. left. reflexivity.
    + exists 7%N. unfold xref_dict_ok. repeat split; try reflexivity.
    + reflexivity.
    + reflexivity.
    + split; [repeat constructor|discriminate].
    + split; [cbn; lia|]. split; vm_compute; reflexivity.
    + repeat constructor.
    + repeat constructor; discriminate.
  - reflexivity.
  - cbn [written ex_oobjs List.map app ex_olayout xl_objs combine]. repeat apply Forall_cons; [| |apply Forall_nil].
    + unfold wf_obj_k. cbn [fst snd lo_nw lo_gw lo_w1 lo_w2 lo_w3 lo_w4 lo_sp].
      repeat split; try exact ex_sp_catalog; try lia; try (vm_compute; reflexivity); try discriminate; try ex_ws.
      left. discriminate.
    + unfold wf_obj_k, os_obj. cbn [fst snd os_id os_num ex_ostm os_dict lo_nw lo_gw lo_w1 lo_w2 lo_w3 lo_w4 lo_w5 lo_sp lo_eol1 lo_eol2].
      repeat split; try exact oo_spells; try lia; try (vm_compute; reflexivity); try discriminate; try ex_ws.
      * left. reflexivity.
      * right. right. left. reflexivity.
  - repeat constructor.
  - vm_compute. repeat constructor; cbn; intuition discriminate.
  - apply Forall_cons; [apply ex_wf_ostm|apply Forall_nil].
  - vm_compute. repeat constructor; cbn; intuition discriminate.
  - intros e Hin U. vm_compute in Hin. repeat (destruct Hin as [<-|Hin]); try destruct Hin; vm_compute in U; try discriminate; cbn; tauto.
  - intros id Hin. cbn in Hin. destruct Hin as [<-|[<-|[]]].
    + exists (mk_xent 1 0 (XrefTab.XInUse 0)). split; [vm_compute; tauto|]. split; reflexivity.
    + exists (mk_xent 4 0 (XrefTab.XInUse 0)). split; [vm_compute; tauto|]. split; reflexivity.
  - intros o m [<-|[]] Hm. cbn in Hm. destruct Hm as [<-|[<-|[]]].
    + exists (mk_xent 5 0 (XrefTab.XInStream 4 0)), 0%N. split; [vm_compute; tauto|]. split; reflexivity.
    + exists (mk_xent 6 0 (XrefTab.XInStream 4 1)), 1%N. split; [vm_compute; tauto|]. split; reflexivity.
Qed.

Example ex_ostm_loaded :
  exists c, load_bytes false (render_objstm ex_oobjs [ex_ostm] ex_olayout) = Loaded c (1, 0)%N /\
            ctx_get c (1, 0)%N = Some (VObj (OName (B "Catalog"))) /\
            ctx_get c (5, 0)%N = Some (VObj (OInt 11)) /\ ctx_get c (6, 0)%N = Some (VObj (OInt 33)).
Proof.
  destruct (load_bytes_objstm false ex_oobjs [ex_ostm] (1, 0)%N ex_olayout (ex_wf_olayout false)) as (c & L & K & _).
  exists c. split; [exact L|]. repeat split; apply K; cbn; tauto.
Qed.

Example ex_ostm_computed :
  load_bytes false (render_objstm ex_oobjs [ex_ostm] ex_olayout) =
  Loaded [((1, 0)%N, VObj (OName (B "Catalog"))); ((4, 0)%N, VObjStm [(5%N, OInt 11); (6%N, OInt 33)]);
          ((5, 0)%N, VObj (OInt 11)); ((6, 0)%N, VObj (OInt 33))] (1, 0)%N.
Proof. vm_compute. reflexivity. Qed.
