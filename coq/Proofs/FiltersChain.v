(* Proofs/FiltersChain.v — C06: FlateDecode relative to the inflate oracle, chains of any length,
   the /Filter x /DecodeParms pairing, dictionary pruning, shape errors, error propagation. *)
From PV Require Import Model.Filters Spec.A85Enc Proofs.FiltersHex Proofs.FiltersA85.

(* ---------- StreamT::filters ---------- *)
Definition parm_obj (o : option dict) : obj := match o with None => ONull | Some p => ODict p end.

Lemma zip_filters_ok names : forall parms, List.length names = List.length parms ->
  zip_filters (List.map OName names) (List.map parm_obj parms) = Ok (combine names parms).
Proof.
  induction names as [|n names IH]; intros [|o parms] H; try discriminate; [reflexivity|].
  cbn [List.map zip_filters combine]. injection H as H. destruct o as [p|]; cbn [parm_obj]; rewrite IH by exact H; reflexivity.
Qed.

Lemma all_names_ok names : all_names (List.map OName names) = Ok (List.map (fun n => (n, None)) names).
Proof. induction names as [|n names IH]; [reflexivity|]. cbn [List.map all_names]. rewrite IH. reflexivity. Qed.

(* results are Ok or Err EGuard, and Ok only for names paired with null / dictionaries *)
Lemma zip_filters_inv fa : forall da l, List.length fa = List.length da -> zip_filters fa da = Ok l ->
  fa = List.map OName (List.map fst l) /\ da = List.map parm_obj (List.map snd l).
Proof.
  induction fa as [|f fa IH]; intros [|d da] l Hl H; try discriminate.
  - cbn in H. inversion H. split; reflexivity.
  - cbn [zip_filters] in H. injection Hl as Hl.
    destruct f; try discriminate; destruct d; try discriminate;
      destruct (zip_filters fa da) as [l'| | |] eqn:E; try discriminate;
      inversion H; subst; destruct (IH da l' Hl E) as [-> ->]; split; reflexivity.
Qed.

Lemma zip_filters_guard fa : forall da k, zip_filters fa da = Err k -> k = EGuard.
Proof.
  induction fa as [|f fa IH]; intros [|d da] k H; try discriminate.
  cbn [zip_filters] in H.
  destruct f; try (inversion H; reflexivity); destruct d; try (inversion H; reflexivity);
    destruct (zip_filters fa da) eqn:E; try discriminate; inversion H; subst; eapply IH; exact E.
Qed.

Lemma all_names_inv fa l : all_names fa = Ok l -> fa = List.map OName (List.map fst l).
Proof.
  revert l; induction fa as [|f fa IH]; intros l H.
  - inversion H. reflexivity.
  - cbn [all_names] in H. destruct f; try discriminate.
    destruct (all_names fa) as [l'| | |] eqn:E; try discriminate. inversion H; subst.
    rewrite (IH l' eq_refl). reflexivity.
Qed.

Lemma all_names_guard fa k : all_names fa = Err k -> k = EGuard.
Proof.
  induction fa as [|f fa IH]; intros H; [discriminate|].
  cbn [all_names] in H. destruct f; try (inversion H; reflexivity).
  destruct (all_names fa) eqn:E; try discriminate. inversion H; subst. apply IH. reflexivity.
Qed.

(* the legal shapes *)
Lemma filters_of_array d names parms :
  dict_get d k_Filter = Some (OArr (List.map OName names)) ->
  dict_get d k_DecodeParms = Some (OArr (List.map parm_obj parms)) ->
  List.length names = List.length parms ->
  filters_of d = Ok (combine names parms).
Proof.
  intros Hf Hp Hl. unfold filters_of. rewrite Hf, Hp. unfold len. rewrite !map_length, <- Hl, Nat.eqb_refl.
  apply zip_filters_ok, Hl.
Qed.

Lemma filters_of_array_noparms d names :
  dict_get d k_Filter = Some (OArr (List.map OName names)) ->
  (forall l, dict_get d k_DecodeParms <> Some (OArr l)) ->
  filters_of d = Ok (List.map (fun n => (n, None)) names).
Proof.
  intros Hf Hp. unfold filters_of. rewrite Hf.
  destruct (dict_get d k_DecodeParms) as [[]|]; try apply all_names_ok. exfalso. eapply Hp. reflexivity.
Qed.

Lemma filters_of_name_parms d n p :
  dict_get d k_Filter = Some (OName n) -> dict_get d k_DecodeParms = Some (ODict p) ->
  filters_of d = Ok [(n, Some p)].
Proof. intros Hf Hp. unfold filters_of. rewrite Hf, Hp. reflexivity. Qed.

Lemma filters_of_name d n :
  dict_get d k_Filter = Some (OName n) ->
  (forall p, dict_get d k_DecodeParms <> Some (ODict p)) -> (forall l, dict_get d k_DecodeParms <> Some (OArr l)) ->
  filters_of d = Ok [(n, None)].
Proof.
  intros Hf H1 H2. unfold filters_of. rewrite Hf.
  destruct (dict_get d k_DecodeParms) as [[]|]; try reflexivity; exfalso; [eapply H2 | eapply H1]; reflexivity.
Qed.

Lemma filters_of_nofilter d : dict_get d k_Filter = None -> filters_of d = Ok [].
Proof. intros H. unfold filters_of. rewrite H. reflexivity. Qed.

(* ---------- shape errors ---------- *)
Lemma shape_name_with_array d n l :
  dict_get d k_Filter = Some (OName n) -> dict_get d k_DecodeParms = Some (OArr l) -> filters_of d = Err EGuard.
Proof. intros Hf Hp. unfold filters_of. rewrite Hf, Hp. reflexivity. Qed.

Lemma shape_unequal_lengths d fa da :
  dict_get d k_Filter = Some (OArr fa) -> dict_get d k_DecodeParms = Some (OArr da) ->
  List.length fa <> List.length da -> filters_of d = Err EGuard.
Proof.
  intros Hf Hp Hl. unfold filters_of. rewrite Hf, Hp. unfold len.
  destruct (Nat.eqb_spec (List.length da) (List.length fa)); [exfalso; auto | reflexivity].
Qed.

(* an element of /Filter that is not a name, or a parameter that is neither null nor a dictionary *)
Lemma shape_bad_pair d fa da :
  dict_get d k_Filter = Some (OArr fa) -> dict_get d k_DecodeParms = Some (OArr da) ->
  List.length fa = List.length da ->
  ((exists f, In f fa /\ forall n, f <> OName n) \/ (exists x, In x da /\ x <> ONull /\ forall p, x <> ODict p)) ->
  filters_of d = Err EGuard.
Proof.
  intros Hf Hp Hl Hbad. unfold filters_of. rewrite Hf, Hp. unfold len. rewrite <- Hl, Nat.eqb_refl.
  destruct (zip_filters fa da) as [l|k| |] eqn:E.
  - exfalso. destruct (zip_filters_inv fa da l Hl E) as [Ea Eb].
    destruct Hbad as [[f [Hin Hn]] | [x [Hin [Hn1 Hn2]]]].
    + rewrite Ea in Hin. apply in_map_iff in Hin as [n [<- _]]. exact (Hn n eq_refl).
    + rewrite Eb in Hin. apply in_map_iff in Hin as [[p|] [<- _]]; [exact (Hn2 p eq_refl) | exact (Hn1 eq_refl)].
  - rewrite (zip_filters_guard _ _ _ E). reflexivity.
  - exfalso. clear - E. revert da E. induction fa as [|f fa IH]; intros [|x da] E; try discriminate.
    cbn [zip_filters] in E. destruct f; try discriminate; destruct x; try discriminate;
      destruct (zip_filters fa da) eqn:E2; try discriminate; eapply IH; exact E2.
  - exfalso. clear - E. revert da E. induction fa as [|f fa IH]; intros [|x da] E; try discriminate.
    cbn [zip_filters] in E. destruct f; try discriminate; destruct x; try discriminate;
      destruct (zip_filters fa da) eqn:E2; try discriminate; eapply IH; exact E2.
Qed.

Lemma shape_non_name_no_parms d fa :
  dict_get d k_Filter = Some (OArr fa) -> (forall l, dict_get d k_DecodeParms <> Some (OArr l)) ->
  (exists f, In f fa /\ forall n, f <> OName n) -> filters_of d = Err EGuard.
Proof.
  intros Hf Hp [f [Hin Hn]]. unfold filters_of. rewrite Hf.
  assert (A : all_names fa = Err EGuard).
  { destruct (all_names fa) as [l|k| |] eqn:E.
    - exfalso. rewrite (all_names_inv fa l E) in Hin. apply in_map_iff in Hin as [n [<- _]]. exact (Hn n eq_refl).
    - rewrite (all_names_guard _ _ E). reflexivity.
    - exfalso. clear - E. induction fa as [|x fa IH]; [discriminate|]. cbn [all_names] in E.
      destruct x; try discriminate. destruct (all_names fa); try discriminate; auto.
    - exfalso. clear - E. induction fa as [|x fa IH]; [discriminate|]. cbn [all_names] in E.
      destruct x; try discriminate. destruct (all_names fa); try discriminate; auto. }
  destruct (dict_get d k_DecodeParms) as [[]|]; try exact A. exfalso. eapply Hp. reflexivity.
Qed.

(* ---------- pruning ---------- *)
Lemma dict_remove_filter {V} (d : list (bytes * V)) k :
  dict_remove d k = filter (fun kv => negb (bytes_eqb k (fst kv))) d.
Proof.
  induction d as [|[k' v] d IH]; [reflexivity|]. cbn [dict_remove filter fst].
  destruct (bytes_eqb k k'); cbn [negb]; rewrite IH; reflexivity.
Qed.

(* the decoded stream's dictionary is the original one, in the original order, without the filter entries *)
Lemma prune_spec d :
  prune d = filter (fun kv => negb (bytes_eqb k_Filter (fst kv)) && negb (bytes_eqb k_DecodeParms (fst kv))) d.
Proof.
  unfold prune. rewrite !dict_remove_filter. induction d as [|[k v] d IH]; [reflexivity|].
  cbn [filter fst]. destruct (bytes_eqb k_Filter k); cbn [negb andb].
  - exact IH.
  - cbn [filter fst]. destruct (bytes_eqb k_DecodeParms k); cbn [negb]; rewrite IH; reflexivity.
Qed.

(* ---------- chains ---------- *)
Section Chain.
  Variable tr : bytes -> option (option dict -> bytes -> res bytes).

  Lemma run_chain_app fs1 : forall fs2 e,
    run_chain tr (fs1 ++ fs2) e = match run_chain tr fs1 e with Ok mid => run_chain tr fs2 mid | r => r end.
  Proof.
    induction fs1 as [|[name o] fs1 IH]; intros fs2 e; [reflexivity|].
    cbn [app run_chain]. destruct (tr name) as [t|]; [|reflexivity].
    destruct (t o e); try reflexivity. apply IH.
  Qed.

  (* a failing stage fails the whole chain: partial output is never reported as success *)
  Lemma run_chain_stage_err fs1 name o fs2 e mid t k :
    run_chain tr fs1 e = Ok mid -> tr name = Some t -> t o mid = Err k ->
    run_chain tr (fs1 ++ (name, o) :: fs2) e = Err k.
  Proof. intros H1 H2 H3. rewrite run_chain_app, H1. cbn [run_chain]. rewrite H2, H3. reflexivity. Qed.

  Lemma run_chain_unknown fs1 name o fs2 e mid :
    run_chain tr fs1 e = Ok mid -> tr name = None -> run_chain tr (fs1 ++ (name, o) :: fs2) e = Err EGuard.
  Proof. intros H1 H2. rewrite run_chain_app, H1. cbn [run_chain]. rewrite H2. reflexivity. Qed.

  Lemma decode_stream_chain_err d c fs k :
    filters_of d = Ok fs -> run_chain tr fs c = Err k -> decode_stream tr d c = Err k.
  Proof. intros H1 H2. unfold decode_stream. rewrite H1, H2. reflexivity. Qed.

  Lemma decode_stream_shape_err d c k : filters_of d = Err k -> decode_stream tr d c = Err k.
  Proof. intros H. unfold decode_stream. rewrite H. reflexivity. Qed.
End Chain.

(* ---------- relative to the inflate oracle ---------- *)
Section WithOracle.
  Variable inflate : bytes -> option (bytes * bytes).
  (* zlib_valid p e : [e] is a complete zlib (RFC 1950) encoding of [p] *)
  Variable zlib_valid : bytes -> bytes -> Prop.
  Hypothesis inflate_ok : forall p e t, zlib_valid p e -> inflate (e ++ t) = Some (p, t).

  Theorem flate_roundtrip_parms o p e t : zlib_valid p e -> flate_decode inflate o (e ++ t) = flate_post o p.
  Proof. intros H. unfold flate_decode. rewrite (inflate_ok p e t H). reflexivity. Qed.

  (* whatever follows the compressed data; without parameters (or with /Predictor 1) the payload itself *)
  Theorem flate_roundtrip p e t : zlib_valid p e -> flate_decode inflate None (e ++ t) = Ok p.
  Proof. intros H. rewrite (flate_roundtrip_parms None p e t H). reflexivity. Qed.

  Theorem flate_corrupt o data : inflate data = None -> flate_decode inflate o data = Err ETransform.
  Proof. intros H. unfold flate_decode. rewrite H. reflexivity. Qed.

  (* one stage: [e] is an encoding of [p] for the filter [name] with parameters [o] *)
  Inductive stage_enc : bytes -> option dict -> bytes -> bytes -> Prop :=
  | se_hex : forall o p e tail, bytes_lt256 p -> ahex_enc p e -> stage_enc n_AHex o p (e ++ tail)
  | se_a85 : forall o p e eol, bytes_lt256 p -> a85_enc p e -> ws_only eol -> stage_enc n_A85 o p (e ++ eol)
  | se_flate : forall o q p e t, zlib_valid q e -> flate_post o q = Ok p -> stage_enc n_Flate o p (e ++ t).

  (* a chain: the first filter of the list is the outermost encoding (it is decoded first) *)
  Inductive chain_enc : list (bytes * option dict) -> bytes -> bytes -> Prop :=
  | ce_nil : forall p, chain_enc [] p p
  | ce_cons : forall name o fs p mid e,
      stage_enc name o mid e -> chain_enc fs p mid -> chain_enc ((name, o) :: fs) p e.

  Lemma stage_dec dbg name o p e : stage_enc name o p e ->
    exists t, transform dbg inflate name = Some t /\ t o e = Ok p.
  Proof.
    intros H. destruct H as [o p e tail Hp He | o p e eol Hp He Hw | o q p e t Hz Hq].
    - eexists. split; [reflexivity|]. cbv beta. apply ahex_roundtrip; assumption.
    - eexists. split; [reflexivity|]. cbv beta. apply a85_roundtrip; assumption.
    - eexists. split; [reflexivity|]. rewrite (flate_roundtrip_parms o q e t Hz). exact Hq.
  Qed.

  Theorem chain_roundtrip dbg fs p e : chain_enc fs p e -> run_chain (transform dbg inflate) fs e = Ok p.
  Proof.
    induction 1 as [p | name o fs p mid e Hs _ IH]; [reflexivity|].
    cbn [run_chain]. destruct (stage_dec dbg name o mid e Hs) as [t [-> ->]]. exact IH.
  Qed.

  Theorem stream_roundtrip dbg d fs p e :
    filters_of d = Ok fs -> chain_enc fs p e ->
    decode_stream (transform dbg inflate) d e = Ok (prune d, p).
  Proof.
    intros Hf Hc. unfold decode_stream. rewrite Hf, (chain_roundtrip dbg fs p e Hc). reflexivity.
  Qed.
End WithOracle.

(* ---------- bundled statements for Properties/C06.v ---------- *)
Theorem shape_errors tr c :
  (forall d n l, dict_get d k_Filter = Some (OName n) -> dict_get d k_DecodeParms = Some (OArr l) ->
     decode_stream tr d c = Err EGuard) /\
  (forall d fa da, dict_get d k_Filter = Some (OArr fa) -> dict_get d k_DecodeParms = Some (OArr da) ->
     List.length fa <> List.length da -> decode_stream tr d c = Err EGuard) /\
  (forall d fa da, dict_get d k_Filter = Some (OArr fa) -> dict_get d k_DecodeParms = Some (OArr da) ->
     List.length fa = List.length da ->
     ((exists f, In f fa /\ forall n, f <> OName n) \/ (exists x, In x da /\ x <> ONull /\ forall p, x <> ODict p)) ->
     decode_stream tr d c = Err EGuard) /\
  (forall d fa, dict_get d k_Filter = Some (OArr fa) -> (forall l, dict_get d k_DecodeParms <> Some (OArr l)) ->
     (exists f, In f fa /\ forall n, f <> OName n) -> decode_stream tr d c = Err EGuard).
Proof.
  repeat split; intros; apply decode_stream_shape_err.
  - eapply shape_name_with_array; eassumption.
  - eapply shape_unequal_lengths; eassumption.
  - eapply shape_bad_pair; eassumption.
  - eapply shape_non_name_no_parms; eassumption.
Qed.

Theorem corrupt :
  (forall s, (forall c, In c s -> (c =? 62)%N = false) -> ahex_decode s = Err ETransform) /\
  (forall pre c post, (forall x, In x pre -> (x =? 62)%N = false) ->
     is_pdf_ws c = false -> (c =? 62)%N = false -> is_hex c = false ->
     ahex_decode (pre ++ c :: post) = Err ETransform) /\
  (forall dbg data, (forall body, a85_stage data <> body ++ [126; 62]%N) -> a85_decode dbg data = Err ETransform) /\
  (forall dbg data body c, a85_stage data = body ++ [126; 62]%N -> In c (strip_start_marker body) ->
     ~ (33 <= c <= 117)%N -> c <> 122%N -> a85_decode dbg data = Err ETransform) /\
  (forall dbg data body, a85_stage data = body ++ [126; 62]%N ->
     a85_check 0 0%N (strip_start_marker body) = None -> a85_decode dbg data = Err ETransform) /\
  (forall pre c, complete pre -> (33 <= c <= 117)%N -> a85_check 0 0%N (pre ++ [c]) = None) /\
  (forall pre n v post, a85_state 0 0%N pre = Some (n, v) -> n <> 0 -> a85_check 0 0%N (pre ++ 122%N :: post) = None) /\
  (forall pre c0 c1 c2 c3 c4 post, complete pre ->
     (33 <= c0 <= 117)%N -> (33 <= c1 <= 117)%N -> (33 <= c2 <= 117)%N -> (33 <= c3 <= 117)%N -> (33 <= c4 <= 117)%N ->
     (4294967295 < (c0 - 33) * 52200625 + (c1 - 33) * 614125 + (c2 - 33) * 7225 + (c3 - 33) * 85 + (c4 - 33))%N ->
     a85_check 0 0%N (pre ++ c0 :: c1 :: c2 :: c3 :: c4 :: post) = None) /\
  (forall d, whole_groups d -> complete d) /\
  (forall inflate o data, inflate data = None -> flate_decode inflate o data = Err ETransform) /\
  (forall tr d c fs1 name o fs2 mid t k,
     filters_of d = Ok (fs1 ++ (name, o) :: fs2) -> run_chain tr fs1 c = Ok mid -> tr name = Some t -> t o mid = Err k ->
     decode_stream tr d c = Err k) /\
  (forall tr d c fs1 name o fs2 mid,
     filters_of d = Ok (fs1 ++ (name, o) :: fs2) -> run_chain tr fs1 c = Ok mid -> tr name = None ->
     decode_stream tr d c = Err EGuard).
Proof.
  split; [exact ahex_no_eod|]. split; [exact ahex_illegal|]. split; [exact a85_no_eod|].
  split; [exact a85_illegal|]. split; [exact a85_check_fails|]. split; [exact check_lone|].
  split; [exact check_misaligned_z|]. split; [exact check_too_large|]. split; [exact whole_groups_complete|].
  split; [intros inflate o data H; unfold flate_decode; rewrite H; reflexivity|].
  split.
  - intros tr d c fs1 name o fs2 mid t k Hf H1 H2 H3. eapply decode_stream_chain_err; [exact Hf|].
    eapply run_chain_stage_err; eassumption.
  - intros tr d c fs1 name o fs2 mid Hf H1 H2. eapply decode_stream_chain_err; [exact Hf|].
    eapply run_chain_unknown; eassumption.
Qed.
