(* Proofs/ContentLex.v — C12 at the level of the observation  TextExtractor::new(ctxt, id).parse(buf) :
   whenever the lexer (CSObjP, modelled by cs_lex) reads the bytes as the token list of a stream of operator
   applications, the theorems of Proofs/Content.v hold for the bytes.  (That the lexer reads a rendered stream
   back as its tokens is covered by the correspondence run — every T case is lexed by the real CSObjP and by
   cs_lex and compared with the token list — not by a theorem.) *)
From PV Require Import Model.ContentLex Proofs.Content.

Lemma extract_bytes_lexed rel maxd s toks :
  cs_lex rel maxd s = Ok toks -> extract_bytes rel maxd s = Content.extract toks.
Proof. intros H. unfold extract_bytes. rewrite H. reflexivity. Qed.

Theorem extract_bytes_legal rel maxd s items :
  cs_lex rel maxd s = Ok (flatten items) ->
  wf_items items = true -> legal_walk items = true ->
  extract_bytes rel maxd s = Ok (tokens_spec items).
Proof. intros L WF LG. rewrite (extract_bytes_lexed _ _ _ _ L). apply extract_legal; assumption. Qed.

Theorem extract_bytes_illegal rel maxd s items :
  cs_lex rel maxd s = Ok (flatten items) ->
  wf_items items = true -> illegal items = true ->
  exists k, extract_bytes rel maxd s = Err k.
Proof. intros L WF IL. rewrite (extract_bytes_lexed _ _ _ _ L). apply extract_illegal; assumption. Qed.

(* a stream that does not lex is rejected (unless the lexer panics: 2^31 nested parentheses) *)
Lemma extract_bytes_lex_error rel maxd s k :
  cs_lex rel maxd s = Err k -> extract_bytes rel maxd s = Err EGuard.
Proof. intros H. unfold extract_bytes. rewrite H. reflexivity. Qed.

(* the lexer on a concrete stream (white space, comment, literal and hex strings, name, reals, array, dict) *)
Example lex_example :
  cs_lex false 50 (B "BT /F1 12 Tf%c" ++ [10%N] ++ B "(Hi)Tj[(a)-1.5<62>]TJ <</K 1>> x ET")
  = Ok [TOp (B "BT"); TObj (OName (B "F1")); TObj (OInt 12); TOp (B "Tf"); TObj (OStr (B "Hi")); TOp (B "Tj");
        TObj (OArr [OStr (B "a"); OReal (-15) 10; OStr (B "b")]); TOp (B "TJ");
        TObj (ODict [(B "K", OInt 1)]); TOp (B "x"); TOp (B "ET")].
Proof. vm_compute. reflexivity. Qed.
