(* Proofs/LoaderMismatch.v — C03, second half: a file in which the object found at a cross-reference
   offset carries another identifier than its entry is rejected. *)
From PV Require Import Model.Loader Proofs.Loader Proofs.LoaderObjs Proofs.LoaderMain.

Lemma reg_res_ok c id v c' i w : reg_res c id v = IR_ok c' i w -> i = id /\ c' = ctx_set c id v.
Proof. unfold reg_res, register. destruct (ctx_get c id); intros H; inversion H; auto. Qed.

Lemma indirect_ok c it c' i w : indirect c it = IR_ok c' i w -> exists v, item_val it = Some (i, v) /\ c' = ctx_set c i w.
Proof.
  destruct it as [| id ents rt pv | id o | id clen [r|] ms |]; cbn [indirect item_val]; try discriminate.
  - intros H. apply reg_res_ok in H as H'. destruct H' as [-> ->]. unfold reg_res, register in H. destruct (ctx_get c id); inversion H; subst. eauto.
  - destruct o; try (intros H; apply reg_res_ok in H as H'; destruct H' as [-> ->]; unfold reg_res, register in H; destruct (ctx_get c id); inversion H; subst; eauto).
    destruct (dict_get d Length_key) as [[]|]; try discriminate.
    + destruct (Z.eqb _ _); [|discriminate].
      intros H; apply reg_res_ok in H as H'; destruct H' as [-> ->]; unfold reg_res, register in H; destruct (ctx_get c id); inversion H; subst; eauto.
    + destruct (ctx_get c (num, gen)); [|discriminate]. destruct (length_ok _ _); [|discriminate].
      intros H; apply reg_res_ok in H as H'; destruct H' as [-> ->]; unfold reg_res, register in H; destruct (ctx_get c id); inversion H; subst; eauto.
  - destruct (ctx_get c r); [|discriminate]. destruct (length_ok _ _); [|discriminate].
    intros H; apply reg_res_ok in H as H'; destruct H' as [-> ->]; unfold reg_res, register in H; destruct (ctx_get c id); inversion H; subst; eauto.
  - intros H; apply reg_res_ok in H as H'; destruct H' as [-> ->]; unfold reg_res, register in H; destruct (ctx_get c id); inversion H; subst; eauto.
Qed.

Lemma load_one_ok f flen c id ofs c' : load_one f flen c id ofs = OneOk c' -> exists it nx v w, find f ofs = Some (it, nx) /\ item_val it = Some (id, v) /\ c' = ctx_set c id w.
Proof.
  unfold load_one. destruct (negb (ofs <? flen)%N); [discriminate|].
  destruct (find f ofs) as [[it nx]|] eqn:F; [|discriminate].
  destruct (indirect c it) as [c1 i w| | |] eqn:E; try discriminate.
  destruct (oid_eqb i id) eqn:Ei; [|discriminate]. apply oid_eqb_eq in Ei. subst i.
  intros H. inversion H; subst. apply indirect_ok in E as (v & V & ->). exists it, nx, v, w. auto.
Qed.

Section Bad.
  Variables (f : file) (flen : N) (FI : list (oid * N)) (bad : oid) (bofs : N).
  Hypothesis ND : NoDup (map fst FI).
  Hypothesis Hbad : In (bad, bofs) FI.
  (* the object at the entry's offset has another identifier *)
  Hypothesis Hmis : forall it nx v, find f bofs = Some (it, nx) -> item_val it = Some (bad, v) -> False.

  Lemma bad_never_ok c c' : load_one f flen c bad bofs <> OneOk c'.
  Proof. intros H. apply load_one_ok in H as (it & nx & v & w & F & V & _). eapply Hmis; eauto. Qed.

  Lemma ok_keeps_bad c id ofs c' : In (id, ofs) FI -> load_one f flen c id ofs = OneOk c' -> ctx_get c bad = None -> ctx_get c' bad = None.
  Proof.
    intros Hin H G. destruct (oid_dec id bad) as [->|Ne].
    - assert (ofs = bofs) by (eapply NoDup_fst_inj; eauto). subst. exfalso. eapply bad_never_ok, H.
    - apply load_one_ok in H as (_ & _ & _ & w & _ & _ & ->). rewrite ctx_get_set_other by congruence. exact G.
  Qed.

  Lemma pass1_bad todo : forall c ostms second,
    (forall id ofs, In (id, ofs) (files todo) -> In (id, ofs) FI) -> (forall x, In x second -> In x FI) ->
    In (bad, bofs) (files todo) \/ In (bad, bofs) second -> ctx_get c bad = None ->
    pass1 f flen todo c ostms second = None \/
    exists c1 os s1, pass1 f flen todo c ostms second = Some (c1, os, s1) /\ ctx_get c1 bad = None /\ In (bad, bofs) s1 /\
                     (forall x, In x s1 -> In x FI).
  Proof.
    induction todo as [|[id ofs|sid] todo IH]; intros c ostms second Sub SubS Hin G; cbn [pass1 files] in *.
    - right. exists c, ostms, second. destruct Hin as [[]|Hin]. auto.
    - assert (Sub' : forall id0 ofs0, In (id0, ofs0) (files todo) -> In (id0, ofs0) FI) by (intros; apply Sub; right; assumption).
      destruct (ctx_get c id) as [w|] eqn:Gi; cbn [is_some].
      + apply IH; auto. destruct Hin as [[H|H]|H]; auto. inversion H; subst. congruence.
      + destruct (load_one f flen c id ofs) as [| |c'] eqn:L.
        * left. reflexivity.
        * apply IH; auto.
          -- intros x Hx. apply in_app_iff in Hx as [Hx|[<-|[]]]; [apply SubS, Hx | apply Sub; left; reflexivity].
          -- destruct Hin as [[H|H]|H]; [right; apply in_app_iff; right; left; exact H | left; exact H | right; apply in_app_iff; left; exact H].
        * apply IH; auto.
          -- destruct Hin as [[H|H]|H]; auto. inversion H; subst. exfalso. eapply bad_never_ok, L.
          -- eapply ok_keeps_bad; [apply Sub; left; reflexivity | exact L | exact G].
    - apply IH; auto.
  Qed.

  Lemma pass2_bad second : forall c,
    (forall x, In x second -> In x FI) -> In (bad, bofs) second -> ctx_get c bad = None -> pass2 f flen second c = None.
  Proof.
    induction second as [|[id ofs] second IH]; intros c Sub Hin G; [destruct Hin|]. cbn [pass2].
    destruct (ctx_get c id) as [w|] eqn:Gi; cbn [is_some].
    - apply IH; auto; [intros; apply Sub; right; assumption|]. destruct Hin as [H|H]; [inversion H; subst; congruence | exact H].
    - destruct (load_one f flen c id ofs) as [| |c'] eqn:L; try reflexivity.
      apply IH; [intros; apply Sub; right; assumption | |].
      + destruct Hin as [H|H]; [inversion H; subst; exfalso; eapply bad_never_ok, L | exact H].
      + eapply ok_keeps_bad; [apply Sub; left; reflexivity | exact L | exact G].
  Qed.
End Bad.

Theorem load_identity_mismatch p S r sx e ofs :
  p_startxref p = Some sx -> chain (p_file p) (p_flen p) sx S -> NoDup (map s_off S) ->
  match S with s :: _ => s_root s = Some r | [] => False end ->
  In e (first_per_key (all_ents S)) -> x_st e = XInUse ofs ->
  (forall it nx v, find (p_file p) ofs = Some (it, nx) -> item_val it = Some (x_id e, v) -> False) ->
  load p = Rejected.
Proof.
  intros Hs Ch Ho Hr He St Hmis.
  unfold load, load_fuel. rewrite Hs. destruct (negb (p_magic p)); [reflexivity|].
  destruct (negb (sx <? p_flen p)%N); [reflexivity|].
  assert (Hroot : match (None : option obj) with Some r0 => Some r0 | None => match S with s :: _ => s_root s | [] => None end end = Some r).
  { destruct S; [destruct Hr | exact Hr]. }
  rewrite (walk_chain _ _ sx S Ch (Datatypes.S (Datatypes.S (len (p_file p)))) [] [] [] None r Ho (fun _ _ H => H) Hroot).
  2:{ pose proof (chain_length _ _ _ _ Ch Ho). unfold len. lia. }
  cbn [app]. rewrite merge_newest_first. unfold parse_objects.
  set (I := info_from_xref_entries (first_per_key (all_ents S))).
  assert (ND : NoDup (map fst (files I))) by (apply files_info_NoDup, first_per_key_NoDup).
  assert (Hin : In (x_id e, ofs) (files I)) by (apply files_info_iff; exists e; auto).
  destruct (pass1_bad (p_file p) (p_flen p) (files I) (x_id e) ofs ND Hin Hmis I [] [] [] (fun _ _ H => H)) as [E1|(c1 & os & s1 & E1 & G1 & Hs1 & Sub1)];
    [intros ? [] | left; exact Hin | reflexivity | rewrite E1; reflexivity |].
  rewrite E1. rewrite (pass2_bad (p_file p) (p_flen p) (files I) (x_id e) ofs ND Hin Hmis s1 c1 Sub1 Hs1 G1). reflexivity.
Qed.
