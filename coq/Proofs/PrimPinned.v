(* Proofs/PrimPinned.v — the three token parsers of the PINNED pdf_prim.rs (commit 08d0369) that
   refute C15, transcribed exactly as they were (these definitions agreed with the pinned
   implementation on the 8·10^5 cases of the quick correspondence run), with the refutation
   witnesses.  Model/Prim.v now transcribes the repaired code (see known_findings.d/C15.json);
   this file keeps the record of what failed. *)
From PV Require Import Model.Prim.

(* --- #29 IntegerP: `if num_str.is_empty() && (buf.peek() != Some(46))` let "." through *)
Definition integer_body_pinned (minus : bool) (s : bytes) (c c1 : nat) : pres (lv Z) :=
  let n := allowed digit_set s c1 in
  let c2 := c1 + n in
  if Nat.eqb n 0 && negb (peek_is s c2 46) then setc s c (fun c' => PErr EGuard c')
  else match acc_digits i64_max (sub s c1 c2) 0%Z with
       | None => setc s c (fun c' => PErr EGuard c')
       | Some num => POk ((if minus then (num * -1)%Z else num), c, c2) c2
       end.
Definition integer_pinned (s : bytes) (c : nat) : pres (lv Z) :=
  if peek_is s c 45 then incr s c (fun c1 => integer_body_pinned true s c c1)
  else if peek_is s c 43 then incr s c (fun c1 => integer_body_pinned false s c c1)
  else integer_body_pinned false s c c.

(* succeeds with a span (empty, or the sign alone) that is not the text of an integer *)
Theorem integer_pinned_span_refuted :
  exists s c v a b c', integer_pinned s c = POk (v, a, b) c' /\
                       forall v' c'', integer_pinned (sub s a b) 0 <> POk (v', 0, b - a) c''.
Proof.
  exists (B ".5"), 0, 0%Z, 0, 0, 0. split; [vm_compute; reflexivity|].
  intros v' c''. vm_compute. discriminate.
Qed.
Theorem integer_pinned_span_refuted_sign :
  exists s c v a b c', integer_pinned s c = POk (v, a, b) c' /\
                       forall v' c'', integer_pinned (sub s a b) 0 <> POk (v', 0, b - a) c''.
Proof.
  exists (B "-."), 0, 0%Z, 0, 1, 1. split; [vm_compute; reflexivity|].
  intros v' c''. vm_compute. discriminate.
Qed.

(* --- #30 StreamContentP::new(n, true): `buf.peek().unwrap()` when the payload ends the buffer *)
Definition stream_content_pinned (length : nat) (eol_after : bool) (s : bytes) (c : nat) : pres (lv streamT) :=
  match exact kw_stream s c with
  | None => PErr EGuard c
  | Some c1 =>
    (fun k => if peek_is s c1 13 then incr s c1 k else k c1) (fun c2 =>
    if negb (peek_is s c2 10) then setc s c (fun c' => PErr EGuard c')
    else incr s c2 (fun c3 =>
      match extract length s c3 with
      | PErr k _ => setc s c (fun c' => PErr k c')
      | PPanic => PPanic
      | PFuel => PFuel
      | POk v _ =>
        setc s (c3 + length) (fun c4 =>
        (fun k => if peek_is s c4 13 then incr s c4 k else k c4) (fun c5 =>
        (fun k => if peek_is s c5 10 then incr s c5 k else k c5) (fun c6 =>
        if eol_after && Nat.eqb c4 c6 then
          match peek s c6 with
          | None => PPanic                   (* buf.peek().unwrap() *)
          | Some _ => setc s c (fun c' => PErr EGuard c')
          end
        else match exact kw_endstream s c6 with
             | None => setc s c (fun c' => PErr EGuard c')
             | Some c7 => POk ((c3, length, v), c, c7) c7
             end)))
      end))
  end.

Theorem stream_content_pinned_panic_refuted :
  exists n s c, c <= len s /\ stream_content_pinned n true s c = PPanic.
Proof. exists 3, (B "stream" ++ [10%N] ++ B "abc"), 0. split; [cbn; lia|vm_compute; reflexivity]. Qed.

(* --- #35 WhitespaceNoEOL::new(false): the emptiness test precedes the CR-LF rewind *)
Definition ws_noeol_pinned (empty_ok : bool) (s : bytes) (c : nat) : pres (lv unit) :=
  let n := allowed ws_noeol_set s c in
  let c1 := c + n in
  if Nat.eqb n 0 && negb empty_ok then PErr EGuard c1
  else if last_is (sub s c c1) 13 && peek_is s c1 10
       then decr c1 (fun c2 => POk (tt, c, c2) c2)
       else POk (tt, c, c1) c1.

(* empty_ok = false, yet it succeeds on CR LF without consuming; the empty span re-parses to an error *)
Theorem ws_noeol_pinned_span_refuted :
  exists s c a b c', ws_noeol_pinned false s c = POk (tt, a, b) c' /\ a = b /\
                     forall c'', ws_noeol_pinned false (sub s a b) 0 <> POk (tt, 0, b - a) c''.
Proof.
  exists [13; 10]%N, 0, 0, 0, 0. split; [vm_compute; reflexivity|]. split; [reflexivity|].
  intros c''. vm_compute. discriminate.
Qed.
