(* Proofs/LoaderBytesHybrid.v — C03b for HYBRID files (classic table whose trailer names an unfiltered
   cross-reference stream through /XRefStm): the abstraction computed from the bytes is a C03 layout of the document,
   the section being SA_hybrid (table entries followed by the stream's entries). *)
From PV Require Import Model.Obj Model.XrefTab Model.XrefStm Model.Loader Model.LoaderBytes Spec.Spelling Spec.XrefEnc
     Spec.RenderClassic Spec.RenderXrefStm Spec.RenderHybrid.
From PV Require Import Proofs.XrefBase Proofs.XrefTab Proofs.XrefStm Proofs.ObjStream Proofs.ObjTok Proofs.ObjSpell Proofs.ObjC02
     Proofs.Loader Proofs.LoaderObjs Proofs.LoaderMain Proofs.LoaderDoc
     Proofs.LoaderBytesBase Proofs.LoaderBytesObj Proofs.LoaderBytesSect Proofs.LoaderBytesTab Proofs.LoaderBytesMain
     Proofs.LoaderBytesRev Proofs.LoaderBytesXstm.
From Coq Require Import Lia.
Close Scope N_scope.

(* ---------- a trailer with /Prev and /XRefStm ---------- *)
Definition wf_trailer_x (root : oid) (prev xstm : option N) (tw tsp : bytes) : Prop :=
  ws tw /\ (Z.of_nat (len tsp) < 2147483000)%Z /\
  exists td, spells' 51 (ODict td) tsp /\
             dict_get td key_Root = Some (ORef (fst root) (snd root)) /\
             dict_usize td key_Prev = prev /\ dict_usize td key_XRefStm = xstm.

Theorem trailer_found_x rel root prev xstm s c tw tsp r :
  at_cur s c (kw_trailer ++ tw ++ tsp ++ r) -> wf_trailer_x root prev xstm tw tsp ->
  exists nx, trailer_at rel s c = (Some (mktrailer (Some (ORef (fst root) (snd root))) prev xstm), nx).
Proof.
  intros H (Wt & L & td & Sp & Rt & Pv & Xs).
  unfold trailer_at. rewrite (scan_here kw_trailer s c _ ltac:(discriminate) H).
  rewrite (XrefBase.exact_at kw_trailer _ _ _ H). apply at_cur_app in H.
  destruct (spells_first _ _ _ Sp r) as (x & t & Ex & St).
  assert (Sts : ws_stop (tsp ++ r)) by (rewrite Ex; apply starter_ws_stop, St).
  rewrite (ws_eol_at true tw s _ _ H Wt Sts (or_introl eq_refl)).
  apply at_cur_app in H.
  pose proof (parse_obj_at rel 51 (ODict td) tsp s _ r H Sp I L) as E.
  destruct (spells_dict_shape _ _ _ Sp) as (body & Eb). rewrite Eb in H. cbn [app] in H. rewrite <- app_assoc in H.
  rewrite (dict_p_of_parse_obj rel 50 s _ body _ td _ H E). rewrite Rt, Pv, Xs. eauto.
Qed.

Theorem item_at_table_x rel root prev xstm junk pre eol t tw tsp r :
  wf_sect pre eol t (kw_trailer ++ tw ++ tsp ++ r) -> wf_trailer_x root prev xstm tw tsp ->
  exists nx, item_at rel (junk ++ render_sect pre eol t ++ kw_trailer ++ tw ++ tsp ++ r) (len junk) =
             (IXSect (List.map conv_ent (flat_map (fun x => number ent_of (ts_start x) (ts_ents x)) t))
                     (Some (mktrailer (Some (ORef (fst root) (snd root))) prev xstm)), nx).
Proof.
  intros Ws Wt. set (tl := kw_trailer ++ tw ++ tsp ++ r) in *.
  unfold item_at. rewrite (xsectp_ok junk pre eol t tl Ws).
  assert (H : at_cur (junk ++ render_sect pre eol t ++ tl) (len junk + len (render_sect pre eol t)) tl).
  { rewrite app_assoc, <- len_app. apply at_cur_mid. }
  destruct (trailer_found_x rel root prev xstm _ _ tw tsp r H Wt) as (nx & E). rewrite E, xsectp_ents. eauto.
Qed.

(* ---------- side conditions ---------- *)
Definition hyT (H : hylayout) : list XrefTab.xent := tents (hy_table H) ++ parts_ents (hy_parts H).

Record wf_hylayout (d : cdoc) (H : hylayout) : Prop := {
  wy_garbage : find_tag kw_pdf (hy_garbage H ++ kw_pdf) = Some (len (hy_garbage H));
  wy_len : len (hy_objs H) = len (d_objs d);
  wy_objs : Forall (fun p => wf_obj (fst p) (snd p)) (combine (d_objs d) (hy_objs H));
  (* the stream: legal widths, representable rows, offsets fit; legally written; its dictionary declares it *)
  wy_wide : wide (hy_w0 H) (hy_w1 H) (hy_w2 H);
  wy_parts : wf_parts (hy_w0 H) (hy_w1 H) (hy_w2 H) (hy_parts H);
  wy_small : (N.of_nat (len (hybody (d_objs d) H)) < 256 ^ N.of_nat (hy_w1 H))%N;
  wy_xobj : wf_obj_k (fun _ => True)
              (hy_id H, OStream (hy_dict H) (render_parts (hy_w0 H) (hy_w1 H) (hy_w2 H) (hy_parts H))) (hy_lo H);
  wy_dict : exists size, xref_dict_ok (hy_dict H) size (Some (parts_index (hy_parts H))) (hy_w0 H) (hy_w1 H) (hy_w2 H);
  wy_nostm : forall e, In e (parts_ents (hy_parts H)) -> forall a b, xe_st e <> XrefTab.XInStream a b;
  (* the table: a legal section in front of `trailer`; offsets fit the ten-digit field *)
  wy_sect : wf_sect (hy_xpre H) (hy_xeol H) (hy_table H) kw_trailer;
  wy_small10 : (N.of_nat (len (hybody (d_objs d) H)) < 10 ^ 10)%N;
  (* the trailer: /Root = the root, no /Prev, /XRefStm = the offset of the stream object *)
  wy_trailer : wf_trailer_x (d_root d) None (Some (N.of_nat (len (hybody (d_objs d) H)))) (hy_tw H) (hy_tsp H);
  (* table and stream together mention every number at most once; their in-use entries = the document's identifiers *)
  wy_nums : NoDup (List.map xe_obj (hyT H));
  wy_inuse : forall e, In e (hyT H) -> inuse e = true -> In (xe_obj e, xe_gen e) (List.map fst (d_objs d));
  wy_all : forall id, In id (List.map fst (d_objs d)) -> exists e, In e (hyT H) /\ inuse e = true /\ (xe_obj e, xe_gen e) = id;
  wy_seol : plain_ws (hy_seol H) /\ hy_seol H <> [];
  wy_sx : 1 <= hy_sxw H /\ (N.of_nat (hytoff (d_objs d) H) < 10 ^ N.of_nat (hy_sxw H))%N /\
          (N.of_nat (hytoff (d_objs d) H) < i64_lim)%N;
  wy_eeol : plain_ws (hy_eeol H);
  wy_tail : Forall (fun b => b <> 37%N) (hy_tail H) }.

Section Hybrid.
  Variables (rel : bool) (d : cdoc) (H : hylayout).
  Hypothesis Wd : wf_doc d.
  Hypothesis Wy : wf_hylayout d H.

  Let objs := d_objs d.
  Let Bd := hybody objs H.
  Let xo := hyxobj objs H.
  Let V := render_hybrid_view objs H.
  Let ot := hyot objs H.
  Let f := file_of rel V.
  Let flen := N.of_nat (len V).
  Let T := hyT H.
  Let E : list Loader.xent := List.map (fun e => conv_ent (fillx ot e)) T.
  Let toff := hytoff objs H.
  Let tl := kw_trailer ++ hy_tw H ++ hy_tsp H ++ hy_sw H ++
            kw_startxref ++ hy_seol H ++ digits (hy_sxw H) (N.of_nat toff) ++ hy_eeol H ++ kw_eof ++ hy_tail H.
  Let sect := render_sect (hy_xpre H) (hy_xeol H) (hytable objs H).

  Lemma Vy_shape : V = Bd ++ xo ++ sect ++ tl.
  Proof. reflexivity. Qed.

  Lemma xo_nonempty : 1 <= len xo.
  Proof. unfold xo, hyxobj, render_obj. rewrite !len_app. cbn [kw_obj len List.length]. lia. Qed.

  Lemma toff_lt : toff < len V.
  Proof. rewrite Vy_shape, !len_app. unfold tl. rewrite !len_app. cbn [kw_trailer len List.length]. unfold toff, hytoff. fold Bd xo. lia. Qed.

  Lemma Bd_le : len Bd <= len V.
  Proof. rewrite Vy_shape, !len_app. lia. Qed.

  Lemma y_obj_found x : In x objs ->
    exists o nx, off_get ot (fst x) = Some (N.of_nat o) /\ (N.of_nat o <? flen)%N = true /\
                 Loader.find f (N.of_nat o) = Some (IObj (fst x) (snd x), nx) /\ simple (IObj (fst x) (snd x)).
  Proof.
    intros Hin.
    destruct (chunks_located objs (hy_objs H) (hyhead H) (xo ++ sect ++ tl) (wy_len _ _ Wy) x Hin) as (lo & o & R & I1 & I2 & A).
    assert (W : wf_obj x lo) by exact (In_combine_Forall _ _ _ _ (wy_objs _ _ Wy) I1).
    assert (EV : hyhead H ++ concat (List.map (fun p => render_obj (fst p) (snd p)) (combine objs (hy_objs H))) ++ xo ++ sect ++ tl = V).
    { rewrite Vy_shape. unfold Bd, hybody, hychunks. rewrite <- app_assoc. reflexivity. }
    rewrite EV in A.
    destruct (item_at_object rel V o x lo R A W) as (nx & EI).
    assert (Lo : o < len V).
    { pose proof (at_cur_len _ _ _ A) as SL. rewrite len_app in SL.
      assert (1 <= len (render_obj x lo)).
      { unfold render_obj. rewrite !len_app. destruct W as (W1 & _). rewrite digits_len. lia. }
      lia. }
    exists o, nx. split; [|split; [apply N.ltb_lt; unfold flen; lia|split]].
    - apply off_get_In; [|exact I2]. apply NoDup_combine_fst. exact Wd.
    - unfold f. rewrite find_file_of by lia. rewrite EI. reflexivity.
    - exact (wf_obj_simple _ _ W).
  Qed.

  Lemma y_ot_fits : ot_fits (hy_w1 H) ot.
  Proof.
    intros id o Hg. apply off_get_in in Hg. unfold ot, hyot in Hg. apply in_combine_r in Hg.
    apply in_map_iff in Hg as (k & <- & Hg). apply offsets_bound in Hg.
    pose proof (wy_small _ _ Wy) as Hb. unfold hybody in Hb. rewrite len_app in Hb. fold objs in Hb. lia.
  Qed.

  Lemma y_ot_small : ot_small ot.
  Proof.
    intros id o Hg. apply off_get_in in Hg. unfold ot, hyot in Hg. apply in_combine_r in Hg.
    apply in_map_iff in Hg as (k & <- & Hg). apply offsets_bound in Hg.
    pose proof (wy_small10 _ _ Wy) as Hb. unfold hybody in Hb. rewrite len_app in Hb. fold objs in Hb. lia.
  Qed.

  (* the stream object, at the offset /XRefStm names *)
  Lemma y_xstm_found :
    exists nx rt pv, Loader.find f (N.of_nat (len Bd)) =
               Some (IXStm (hy_id H) (List.map (fun e => conv_ent (fillx ot e)) (parts_ents (hy_parts H))) rt pv, nx).
  Proof.
    unfold f. rewrite find_file_of by exact Bd_le.
    destruct (wy_dict _ _ Wy) as (size & D).
    assert (A : at_cur V (len Bd) (render_obj (hy_id H, OStream (hy_dict H) (render_parts (hy_w0 H) (hy_w1 H) (hy_w2 H) (hyparts objs H))) (hy_lo H) ++ sect ++ tl)).
    { rewrite Vy_shape. apply at_cur_mid. }
    assert (Wo : wf_obj_k (fun _ => True) (hy_id H, OStream (hy_dict H) (render_parts (hy_w0 H) (hy_w1 H) (hy_w2 H) (hyparts objs H))) (hy_lo H)).
    { eapply wf_obj_k_len; [|exact (wy_xobj _ _ Wy)]. rewrite !render_parts_len. unfold hyparts. rewrite parts_rows_fill. reflexivity. }
    assert (F : wf_parts (hy_w0 H) (hy_w1 H) (hy_w2 H) (hyparts objs H)).
    { apply wf_parts_fill; [exact y_ot_fits|exact (wy_wide _ _ Wy)|exact (wy_parts _ _ Wy)]. }
    assert (D' : xref_dict_ok (hy_dict H) size (Some (parts_index (hyparts objs H))) (hy_w0 H) (hy_w1 H) (hy_w2 H)).
    { unfold hyparts. rewrite parts_index_fill. exact D. }
    destruct (item_at_xstm rel V (len Bd) (hy_id H) (hy_dict H) (hyparts objs H) _ _ _ size (hy_lo H) (sect ++ tl) A Wo (wy_wide _ _ Wy) F D') as (nx & EI).
    exists nx, (dict_get (hy_dict H) key_Root), (dict_usize (hy_dict H) key_Prev). rewrite EI. f_equal. f_equal. f_equal.
    unfold hyparts. rewrite parts_ents_fill, map_map. reflexivity.
  Qed.

  (* the table, with the trailer that names the stream *)
  Lemma y_table_found :
    exists nx, Loader.find f (N.of_nat toff) =
               Some (IXSect (List.map (fun e => conv_ent (fillx ot e)) (tents (hy_table H)))
                            (Some (mktrailer (Some (ORef (fst (d_root d)) (snd (d_root d)))) None (Some (N.of_nat (len Bd))))), nx).
  Proof.
    unfold f. rewrite find_file_of by (pose proof toff_lt; lia).
    set (r := hy_sw H ++ kw_startxref ++ hy_seol H ++ digits (hy_sxw H) (N.of_nat toff) ++ hy_eeol H ++ kw_eof ++ hy_tail H).
    pose proof (wf_sect_fill ot _ _ _ kw_trailer (kw_trailer ++ hy_tw H ++ hy_tsp H ++ r) y_ot_small eq_refl (wy_sect _ _ Wy)) as Ws.
    destruct (item_at_table_x rel (d_root d) None (Some (N.of_nat (len Bd))) (Bd ++ xo) (hy_xpre H) (hy_xeol H) (hytable objs H)
                (hy_tw H) (hy_tsp H) r Ws (wy_trailer _ _ Wy)) as (nx & EI).
    exists nx.
    assert (EV : (Bd ++ xo) ++ render_sect (hy_xpre H) (hy_xeol H) (hytable objs H) ++ kw_trailer ++ hy_tw H ++ hy_tsp H ++ r = V).
    { rewrite Vy_shape. unfold sect, tl, r. rewrite <- !app_assoc. reflexivity. }
    rewrite EV in EI. assert (Es : len (Bd ++ xo) = toff) by (rewrite len_app; reflexivity).
    rewrite Es in EI. rewrite EI. f_equal. f_equal. f_equal.
    unfold hytable. rewrite table_ents. unfold tents. rewrite map_map. reflexivity.
  Qed.

  Lemma abstract_hybrid : abstract_file rel (render_hybrid objs H) = mkpdf true flen (Some (N.of_nat toff)) f.
  Proof.
    assert (EV : exists r, V = kw_pdf ++ r).
    { exists (hy_hdr H ++ concat (hychunks objs H) ++ xo ++ sect ++ tl). rewrite Vy_shape. unfold Bd, hybody, hyhead. rewrite <- !app_assoc. reflexivity. }
    destruct EV as (r & EV).
    unfold abstract_file, render_hybrid. fold V. rewrite EV.
    rewrite (magic_found _ r (wy_garbage _ _ Wy)).
    replace (skipn (len (hy_garbage H)) (hy_garbage H ++ kw_pdf ++ r)) with V
      by (rewrite EV; symmetry; replace (len (hy_garbage H)) with (len (hy_garbage H) + 0) by lia; apply skipn_app_len).
    destruct (header_found V r EV) as (c' & Eh). rewrite Eh.
    assert (Sx : find_startxref V = Some (N.of_nat toff)).
    { destruct (wy_seol _ _ Wy) as (S1 & S2). destruct (wy_sx _ _ Wy) as (X0 & X1 & X2).
      replace V with ((Bd ++ xo ++ sect ++ kw_trailer ++ hy_tw H ++ hy_tsp H ++ hy_sw H) ++
                      kw_startxref ++ hy_seol H ++ digits (hy_sxw H) (N.of_nat toff) ++ hy_eeol H ++ kw_eof ++ hy_tail H).
      - apply startxref_found; try assumption. exact (wy_eeol _ _ Wy). exact (wy_tail _ _ Wy).
      - rewrite Vy_shape. unfold tl. rewrite <- !app_assoc. reflexivity. }
    rewrite Sx. reflexivity.
  Qed.

  Lemma y_nostm e : In e T -> forall a b, xe_st e <> XrefTab.XInStream a b.
  Proof.
    unfold T, hyT. intros Hin. apply in_app_or in Hin as [Hin|Hin]; [|exact (wy_nostm _ _ Wy e Hin)].
    unfold tents in Hin. apply in_flat_map in Hin as (x & _ & Hin). eapply number_not_instream, Hin.
  Qed.

  (* the computed abstraction is a C03 layout of the document, the section being hybrid *)
  Theorem hybrid_layout_of : layout_of objs (d_root d) (abstract_file rel (render_hybrid objs H)) E.
  Proof.
    rewrite abstract_hybrid. destruct y_table_found as (nx & TF). destruct y_xstm_found as (nx' & xrt & xpv & XF).
    pose proof (G_inuse f flen objs ot T y_obj_found (wy_inuse _ _ Wy)) as GI.
    pose proof (G_status ot T y_nostm) as GS.
    constructor; cbn [p_magic p_startxref p_flen p_file].
    - reflexivity.
    - exists (N.of_nat toff). split; [reflexivity|]. split; [apply N.ltb_lt; unfold flen; pose proof toff_lt; lia|].
      unfold E, T, hyT. rewrite map_app.
      eapply SA_hybrid; [exact TF| |exact XF]. apply N.leb_le. unfold flen. pose proof Bd_le. lia.
    - intros e ofs Hin St. apply first_per_key_incl in Hin.
      destruct (GI e ofs Hin St) as (v & nx2 & _ & Lo & F & S).
      split; [exact Lo|]. exists (IObj (x_id e) v), nx2, (VObj v). split; [exact F|]. split; [reflexivity|]. left. exact S.
    - intros e stm idx ms n v Hin St. apply first_per_key_incl in Hin. destruct (GS e Hin) as [(? & K)|(? & K)]; congruence.
    - intros e stm idx ms Hin St. apply first_per_key_incl in Hin. destruct (GS e Hin) as [(? & K)|(? & K)]; congruence.
    - exact (G_resolve_objs f flen objs ot T y_obj_found (wy_nums _ _ Wy) (wy_all _ _ Wy)).
    - intros id w Hr. left. exact (G_resolve_only f flen objs ot T y_obj_found (wy_inuse _ _ Wy) y_nostm id w Hr).
  Qed.

  (* THE END-TO-END THEOREM for hybrid files *)
  Theorem load_bytes_hybrid :
    exists c, load_bytes rel (render_hybrid objs H) = Loaded c (d_root d) /\
              forall id, ctx_get c id = ctx_get (ctx_of objs) id.
  Proof.
    pose proof hybrid_layout_of as LO. unfold load_bytes.
    set (p := abstract_file rel (render_hybrid objs H)) in *.
    destruct LO as [Hm (sx0 & Hs & Hb & SA) Hi Hmem Hnd Hobjs Hex].
    set (rt := ORef (fst (d_root d)) (snd (d_root d))) in *.
    assert (AE : all_ents [(sx0, E, Some rt)] = E) by (unfold all_ents; cbn; apply app_nil_r).
    destruct (load_history p [(sx0, E, Some rt)] (fst (d_root d)) (snd (d_root d)) sx0 Hm Hs Hb) as (c & L & K).
    - apply SS_last; assumption.
    - repeat constructor. intros [].
    - reflexivity.
    - rewrite AE. exact Hi.
    - rewrite AE. exact Hmem.
    - rewrite AE. exact Hnd.
    - exists c. split; [destruct (d_root d); exact L|]. intros id. rewrite K, AE. symmetry.
      apply (ctx_of_resolve (p_file p) E objs Wd Hobjs).
      intros id' w Hr. destruct (Hex id' w Hr) as [Hv|[->|(ms & ->)]]; [exact Hv| |];
        exfalso; assert (Pf : p_file p = f) by (unfold p; rewrite abstract_hybrid; reflexivity); rewrite Pf in Hr;
        destruct (G_resolve_only f flen objs ot T y_obj_found (wy_inuse _ _ Wy) y_nostm id' _ Hr) as (v & Ev & _); discriminate.
  Qed.
End Hybrid.
