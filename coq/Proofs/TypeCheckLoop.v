(* Proofs/TypeCheckLoop.v — structural facts about the work loop of the type checker (C09):
   it is the iteration of one non-recursive step function on an explicit state; more fuel does not
   change a finished run; the binary-fuel loop of the executable entry is the same loop. *)
From PV Require Import Model.TypeCheck.
From Coq Require Import Lia.

(* more fuel does not change the answer of a finished run *)
Lemma run_mono opq oc tc : forall n m td ex fl err k, fst (run opq oc tc n td ex fl err k) <> Stuck -> n <= m ->
  run opq oc tc m td ex fl err k = run opq oc tc n td ex fl err k.
Proof.
  induction n as [|n IH]; intros m td ex fl err k H L; [simpl in H; congruence|].
  destruct m as [|m]; [lia|]. simpl in *.
  destruct (step opq oc tc td ex fl err k) as [[td' ex' fl' err'|x] k']; [|reflexivity].
  apply IH; [exact H|lia].
Qed.

Section RunPos.
Variable opq : N -> obj -> bool.
Variable oc : octx.
Variable tc : tctx.

Fixpoint run_rs (n : nat) (s : rs) : rs :=
  match n with O => s | S n' => run_rs n' (step_rs opq oc tc s) end.

Lemma run_rs_stop n o k : run_rs n (RStop o k) = RStop o k.
Proof. induction n; simpl; auto. Qed.

Lemma run_rs_add a b s : run_rs (a + b) s = run_rs b (run_rs a s).
Proof. revert s. induction a as [|a IH]; intros s; simpl; [reflexivity|apply IH]. Qed.

Lemma run_pos_rs : forall p s, run_pos opq oc tc p s = run_rs (Pos.to_nat p) s.
Proof.
  induction p as [p IH|p IH|]; intros s; destruct s as [td ex fl err k|o k]; try (rewrite run_rs_stop; reflexivity).
  - cbn [run_pos]. rewrite !IH. rewrite Pos2Nat.inj_xI.
    replace (S (2 * Pos.to_nat p)) with (1 + (Pos.to_nat p + Pos.to_nat p)) by lia.
    rewrite !run_rs_add. reflexivity.
  - cbn [run_pos]. rewrite !IH. rewrite Pos2Nat.inj_xO.
    replace (2 * Pos.to_nat p) with (Pos.to_nat p + Pos.to_nat p) by lia.
    rewrite run_rs_add. reflexivity.
  - reflexivity.
Qed.

Lemma run_rs_run : forall n td ex fl err k,
  rs_result (run_rs n (RCont td ex fl err k)) = run opq oc tc n td ex fl err k.
Proof.
  induction n as [|n IH]; intros td ex fl err k; [reflexivity|].
  simpl. destruct (step opq oc tc td ex fl err k) as [[td' ex' fl' err'|o] k'].
  - apply IH.
  - rewrite run_rs_stop. reflexivity.
Qed.

Lemma check_N_fuel n o c : check_N opq oc tc n o c = check_fuel opq oc tc (N.to_nat n) o c.
Proof.
  unfold check_N, check_fuel. destruct (resolve tc c) as [r|]; [|reflexivity].
  destruct n as [|p]; [reflexivity|]. simpl run_N. rewrite run_pos_rs. apply run_rs_run.
Qed.
End RunPos.

Lemma step_bound_N_nat oc tc o c : N.to_nat (step_bound_N oc tc o c) = step_bound oc tc o c.
Proof.
  unfold step_bound_N, step_bound, bound_push, bound_K.
  set (a := len (uni_objs oc o)). set (b := len (uni_chks tc c)).
  set (fo := fan_o (uni_objs oc o)). set (fc := fan_c (uni_chks tc c)). lia.
Qed.

(* with an undefined root name the answer is immediate *)
Lemma check_unresolved opq oc tc o c : resolve tc c = None -> check opq oc tc o c = (SpecErr EUnknown, 0).
Proof. intros R. unfold check. rewrite R. reflexivity. Qed.

(* a run that finished within some fuel gives the same answer with any larger fuel *)
Lemma check_fuel_mono opq oc tc o c n m :
  fst (check_fuel opq oc tc n o c) <> Stuck -> n <= m ->
  check_fuel opq oc tc m o c = check_fuel opq oc tc n o c.
Proof.
  unfold check_fuel. destruct (resolve tc c) as [r|]; [|reflexivity]. intros H L. apply run_mono; assumption.
Qed.
