(* Proofs/ShippedApprox.v — general facts about the declarative semantics of Spec/Conforms.v
   (unfolding equations, monotonicity, references) used by the C10 proofs.  Everything is stated for
   [approxg sk]: sk = false is the full reading ([approx], [conforms]); sk = true the reading in which
   dictionary entries whose check has type Any are not looked at ([conforms_skip], what check_type
   implements — known finding). *)
From PV Require Import Spec.PageTreeSpec.

Lemma forallb_mono {A} (f g : A -> bool) l :
  (forall x, In x l -> f x = true -> g x = true) -> forallb f l = true -> forallb g l = true.
Proof.
  intros H Hf. apply forallb_forall. intros x Hx. apply H; auto.
  rewrite forallb_forall in Hf. auto.
Qed.
Lemma existsb_mono {A} (f g : A -> bool) l :
  (forall x, f x = true -> g x = true) -> existsb f l = true -> existsb g l = true.
Proof.
  intros H Hf. apply existsb_exists in Hf as [x [Hx Hfx]]. apply existsb_exists. exists x. auto.
Qed.
Lemma forallb2_mono {A B} (f g : A -> B -> bool) l m :
  (forall x y, f x y = true -> g x y = true) -> forallb2 f l m = true -> forallb2 g l m = true.
Proof.
  intros H. revert m. induction l as [|x l IH]; intros [|y m]; simpl; auto.
  intros Hf. apply andb_true_iff in Hf as [H1 H2]. rewrite (H _ _ H1). simpl. auto.
Qed.

Definition is_disj (t : ty) : bool := match t with TDisj _ => true | _ => false end.

Section Approx.
Variable opq : N -> obj -> bool.
Variable oc : octx.
Variable tc : tctx.
Variable sk : bool.
Notation A := (approxg opq oc tc sk).
Notation A1 := (approx1g opq oc tc sk).

(* ---------- references ---------- *)
Lemma deref_nonref f o : is_refb (deref oc f o) = false.
Proof.
  revert o. induction f as [|f IH]; intros o; destruct o; simpl; auto.
  destruct (octx_get oc (num, gen)); auto.
Qed.
Lemma value_of_nonref o : is_refb (value_of oc o) = false.
Proof. apply deref_nonref. Qed.
Lemma deref_direct f o : is_refb o = false -> deref oc f o = o.
Proof. destruct f; destruct o; simpl; intros; try reflexivity; discriminate. Qed.
Lemma value_of_direct o : is_refb o = false -> value_of oc o = o.
Proof. apply deref_direct. Qed.
Lemma value_of_ref n g v : octx_get oc (n, g) = Some v -> is_refb v = false -> value_of oc (ORef n g) = v.
Proof.
  intros H Hv. unfold value_of. simpl. rewrite H. apply deref_direct. exact Hv.
Qed.

(* ---------- unfolding ---------- *)
Lemma A_S n o c : A (S n) o c = A1 (A n) o c.
Proof. reflexivity. Qed.

Lemma A1_disj rec o l p i :
  A1 rec o (CRep (TDisj l) p i) = rec o (CRep TAny p i) && existsb (rec o) l.
Proof. reflexivity. Qed.
Lemma A1_direct rec o t p i :
  is_disj t = false -> is_refb o = false ->
  A1 rec o (CRep t p i) = negb (ispec_eqb i IReq) && pred_ok opq p o && type_okg tc sk rec o t.
Proof.
  intros Ht Ho. unfold approx1g. simpl.
  destruct t; try discriminate; destruct o; try discriminate; reflexivity.
Qed.
Lemma A1_ref rec n g t p i :
  is_disj t = false ->
  A1 rec (ORef n g) (CRep t p i) = negb (ispec_eqb i IForb) && rec (value_of oc (ORef n g)) (CRep t p IAllowed).
Proof. intros Ht. unfold approx1g. simpl. destruct t; try discriminate; reflexivity. Qed.
Lemma A1_named rec o nm r :
  tctx_get tc nm = Some r -> A1 rec o (CNamed nm) = A1 rec o (rep_chk r).
Proof. intros H. unfold approx1g. simpl. rewrite H. destruct r as [[t p] i]. reflexivity. Qed.

(* ---------- monotonicity: a smaller unfolding accepts more ---------- *)
Lemma type_ok_mono (r1 r2 : obj -> chk -> bool) o t :
  (forall o c, r1 o c = true -> r2 o c = true) -> type_okg tc sk r1 o t = true -> type_okg tc sk r2 o t = true.
Proof.
  intros H. destruct t; destruct o; simpl; auto.
  - intros Hx. apply andb_true_iff in Hx as [H1 H2]. rewrite H1. simpl.
    eapply forallb_mono; [|exact H2]. intros x _. apply H.
  - apply forallb2_mono. exact H.
  - intros Hx. apply andb_true_iff in Hx as [H1 H2]. apply andb_true_iff. split.
    + unfold ents_okg in *. eapply forallb_mono; [|exact H1]. intros e _. cbv beta.
      destruct (dict_get l (ent_key e)); destruct (ent_opt e); auto; destruct (sk && is_any tc (ent_chk e)); auto.
    + unfold star_okg in *. destruct star as [[sc so]|]; auto.
      eapply forallb_mono; [|exact H2]. intros kv _. cbv beta.
      destruct (existsb _ _); auto. destruct so; auto; destruct (sk && is_any tc sc); auto.
  - unfold ents_okg. intros Hx. eapply forallb_mono; [|exact Hx]. intros e _. cbv beta.
    destruct (dict_get d (ent_key e)); destruct (ent_opt e); auto; destruct (sk && is_any tc (ent_chk e)); auto.
Qed.

Lemma A1_mono (r1 r2 : obj -> chk -> bool) o c :
  (forall o c, r1 o c = true -> r2 o c = true) -> A1 r1 o c = true -> A1 r2 o c = true.
Proof.
  intros H. unfold approx1g. destruct (resolve tc c) as [r|]; auto.
  destruct (r_ty r) eqn:Et.
  all: try (destruct o; intros Hx; rewrite ?andb_true_iff in *;
            repeat match goal with Hc : _ /\ _ |- _ => destruct Hc end; repeat split; auto;
            eapply type_ok_mono; eauto; fail).
  intros Hx. apply andb_true_iff in Hx as [H1 H2]. apply andb_true_iff. split; auto.
  eapply existsb_mono; [|exact H2]. intros x. apply H.
Qed.

Lemma A_anti n o c : A (S n) o c = true -> A n o c = true.
Proof.
  revert o c. induction n as [|n IH]; intros o c; [reflexivity|].
  rewrite (A_S (S n)), (A_S n). apply A1_mono. exact IH.
Qed.
Lemma A_le m n o c : m <= n -> A n o c = true -> A m o c = true.
Proof. induction 1; auto. intros. apply IHle. apply A_anti. assumption. Qed.
Lemma A_false_le m n o c : m <= n -> A m o c = false -> A n o c = false.
Proof.
  intros Hle Hm. destruct (A n o c) eqn:E; auto. rewrite (A_le _ _ _ _ Hle E) in Hm. discriminate.
Qed.

(* ---------- Any ---------- *)
Lemma A_any n o : A n o (CRep TAny None IAllowed) = true.
Proof.
  revert o. induction n as [|n IH]; intros o; [reflexivity|]. rewrite A_S.
  destruct (is_refb o) eqn:Eo.
  - destruct o; try discriminate. rewrite A1_ref by reflexivity. simpl. apply IH.
  - rewrite A1_direct by auto. reflexivity.
Qed.
(* a reference satisfies "any value, necessarily indirect" *)
Lemma A_any_req_ref n a b : A n (ORef a b) (CRep TAny None IReq) = true.
Proof. destruct n; [reflexivity|]. rewrite A_S, A1_ref by reflexivity. simpl. apply A_any. Qed.
Lemma A_any_req_direct n o : is_refb o = false -> A (S n) o (CRep TAny None IReq) = false.
Proof. intros H. rewrite A_S, A1_direct by auto. reflexivity. Qed.

(* ---------- a check applied through an optional reference ---------- *)
(* soundness form *)
Lemma via_sound (P : obj -> bool) t p :
  is_disj t = false ->
  (forall n v, is_refb v = false -> P v = true -> A n v (CRep t p IAllowed) = true) ->
  forall n o, P (value_of oc o) = true -> A n o (CRep t p IAllowed) = true.
Proof.
  intros Ht H n o Ho. destruct (is_refb o) eqn:Eo.
  - destruct o; try discriminate. destruct n; [reflexivity|].
    rewrite A_S, A1_ref by auto. simpl. apply H; auto. apply value_of_nonref.
  - rewrite value_of_direct in Ho by auto. apply H; auto.
Qed.
(* the same when the reference is required *)
Lemma via_sound_req (P : obj -> bool) t p :
  is_disj t = false ->
  (forall n v, is_refb v = false -> P v = true -> A n v (CRep t p IAllowed) = true) ->
  forall n o, is_refb o = true -> P (value_of oc o) = true -> A n o (CRep t p IReq) = true.
Proof.
  intros Ht H n o Eo Ho. destruct o; try discriminate. destruct n; [reflexivity|].
  rewrite A_S, A1_ref by auto. simpl. apply H; auto. apply value_of_nonref.
Qed.
(* completeness form: if the check fails on every direct value outside P at depth m, it fails through a reference at depth m+1 *)
Lemma via_complete (P : obj -> bool) t p m :
  is_disj t = false ->
  (forall v, is_refb v = false -> P v = false -> A m v (CRep t p IAllowed) = false) ->
  forall o, P (value_of oc o) = false -> A (S m) o (CRep t p IAllowed) = false.
Proof.
  intros Ht H o Ho. destruct (is_refb o) eqn:Eo.
  - destruct o; try discriminate. rewrite A_S, A1_ref by auto. simpl. apply H; auto. apply value_of_nonref.
  - rewrite value_of_direct in Ho by auto. apply (A_false_le m); auto.
Qed.

(* ---------- dictionaries ---------- *)
(* enough for an entry list to be satisfied (whatever [sk]) *)
Lemma ents_ok_forall rec d ents :
  (forall e, In e ents ->
    match dict_get d (ent_key e), ent_opt e with
    | None, KReq => False
    | None, _ => True
    | Some _, KForb => False
    | Some v, _ => rec v (ent_chk e) = true
    end) -> ents_okg tc sk rec d ents = true.
Proof.
  intros H. unfold ents_okg. apply forallb_forall. intros e He. specialize (H e He).
  destruct (dict_get d (ent_key e)); destruct (ent_opt e); auto; try contradiction;
    destruct (sk && is_any tc (ent_chk e)); auto.
Qed.
(* one entry that makes the list fail: the value check counts only if the entry is looked at *)
Lemma ents_ok_false rec d ents e :
  In e ents ->
  match dict_get d (ent_key e), ent_opt e with
  | None, KReq => True
  | None, _ => False
  | Some _, KForb => True
  | Some v, _ => sk && is_any tc (ent_chk e) = false /\ rec v (ent_chk e) = false
  end -> ents_okg tc sk rec d ents = false.
Proof.
  intros He H. destruct (ents_okg tc sk rec d ents) eqn:E; auto.
  unfold ents_okg in E. rewrite forallb_forall in E. specialize (E e He). cbv beta in E.
  destruct (dict_get d (ent_key e)); destruct (ent_opt e); try contradiction; try discriminate;
    destruct H as [H1 H2]; rewrite H1 in E; congruence.
Qed.
Lemma A_dict_direct n d ents p i :
  A (S n) (ODict d) (CRep (TDict ents None) p i)
  = negb (ispec_eqb i IReq) && pred_ok opq p (ODict d) && ents_okg tc sk (A n) d ents.
Proof. rewrite A_S, A1_direct by reflexivity. simpl. rewrite andb_true_r. reflexivity. Qed.
Lemma A_dict_plain n d ents :
  A (S n) (ODict d) (CRep (TDict ents None) None IAllowed) = ents_okg tc sk (A n) d ents.
Proof. rewrite A_dict_direct. reflexivity. Qed.
Lemma A_ref_plain n a b t :
  is_disj t = false ->
  A (S n) (ORef a b) (CRep t None IAllowed) = A n (value_of oc (ORef a b)) (CRep t None IAllowed).
Proof. intros Ht. rewrite A_S, A1_ref by auto. reflexivity. Qed.
End Approx.

(* ---------- association lists ---------- *)
Lemma dict_get_In {V} (d : list (bytes * V)) k v : dict_get d k = Some v -> In (k, v) d.
Proof.
  induction d as [|[k' v'] d IH]; simpl; [discriminate|].
  destruct (bytes_eqb k k') eqn:E.
  - intros H. inversion H; subst. apply bytes_eqb_eq in E. subst. auto.
  - auto.
Qed.
Lemma bytes_eqb_refl k : bytes_eqb k k = true.
Proof. apply bytes_eqb_eq. reflexivity. Qed.
Lemma bytes_eqb_neq a b : a <> b -> bytes_eqb a b = false.
Proof. intros H. destruct (bytes_eqb a b) eqn:E; auto. apply bytes_eqb_eq in E. contradiction. Qed.
Lemma In_dict_get {V} (d : list (bytes * V)) k v :
  NoDup (List.map fst d) -> In (k, v) d -> dict_get d k = Some v.
Proof.
  induction d as [|[k' v'] d IH]; simpl; [contradiction|].
  intros Hnd [H|H].
  - inversion H; subst. rewrite bytes_eqb_refl. reflexivity.
  - inversion Hnd; subst. destruct (bytes_eqb k k') eqn:E.
    + apply bytes_eqb_eq in E. subst. exfalso. apply H2. apply (in_map fst) in H. exact H.
    + auto.
Qed.
Lemma dict_get_none {V} (d : list (bytes * V)) k : ~ In k (List.map fst d) -> dict_get d k = None.
Proof.
  induction d as [|[k' v'] d IH]; simpl; auto. intros H.
  rewrite bytes_eqb_neq by (intros ->; apply H; auto). apply IH. intros Hx. apply H. auto.
Qed.
Lemma dict_get_remove_same {V} (d : list (bytes * V)) k : dict_get (dict_remove d k) k = None.
Proof.
  induction d as [|[k' v'] d IH]; simpl; auto.
  destruct (bytes_eqb k k') eqn:E; auto. simpl. rewrite E. auto.
Qed.
Lemma dict_get_remove_other {V} (d : list (bytes * V)) k k' :
  k <> k' -> dict_get (dict_remove d k) k' = dict_get d k'.
Proof.
  intros Hne. induction d as [|[k2 v2] d IH]; simpl; auto.
  destruct (bytes_eqb k k2) eqn:E.
  - apply bytes_eqb_eq in E. subst. rewrite (bytes_eqb_neq k' k2) by congruence. auto.
  - simpl. destruct (bytes_eqb k' k2); auto.
Qed.

(* object contexts *)
Lemma oid_eqb_eq a b : oid_eqb a b = true <-> a = b.
Proof.
  destruct a as [a1 a2], b as [b1 b2]. unfold oid_eqb. simpl. rewrite andb_true_iff, !N.eqb_eq.
  split; [intros [-> ->]; reflexivity | intros H; inversion H; auto].
Qed.
Lemma octx_get_In (c : octx) i o : NoDup (List.map fst c) -> In (i, o) c -> octx_get c i = Some o.
Proof.
  induction c as [|[[n g] o'] c IH]; simpl; [contradiction|].
  intros Hnd [H|H].
  - inversion H; subst. simpl. rewrite !N.eqb_refl. reflexivity.
  - inversion Hnd; subst. destruct (N.eqb n (fst i) && N.eqb g (snd i)) eqn:E.
    + apply andb_true_iff in E as [E1 E2]. apply N.eqb_eq in E1, E2. exfalso. apply H2.
      destruct i as [i1 i2]. simpl in *. subst. apply (in_map fst) in H. exact H.
    + auto.
Qed.

(* sorted name lists have the same members *)
Lemma existsb_insert_name s a l :
  existsb (bytes_eqb s) (insert_name a l) = bytes_eqb s a || existsb (bytes_eqb s) l.
Proof.
  induction l as [|b l IH]; simpl; auto.
  destruct (bytes_cmp a b); simpl; auto.
  rewrite IH. destruct (bytes_eqb s a), (bytes_eqb s b); reflexivity.
Qed.
Lemma existsb_sort_names s l : existsb (bytes_eqb s) (sort_names l) = existsb (bytes_eqb s) l.
Proof.
  induction l as [|a l IH]; simpl; auto. rewrite existsb_insert_name, IH. reflexivity.
Qed.
