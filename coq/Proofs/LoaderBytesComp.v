(* Proofs/LoaderBytesComp.v — C03b: moving objects into object streams is transparent.  A file that keeps part of its
   objects in (unfiltered) object streams and a classic file that writes ALL those objects directly load to contexts
   that agree on every identifier except the containers' own (which exist only in the first file). *)
From PV Require Import Model.Obj Model.XrefTab Model.XrefStm Model.ObjStm Model.Loader Model.LoaderBytes
     Spec.Spelling Spec.XrefEnc Spec.RenderClassic Spec.RenderXrefStm Spec.ObjStmEnc Spec.RenderObjStm.
From PV Require Import Proofs.XrefBase Proofs.Loader Proofs.ObjStream Proofs.ObjSpell Proofs.ObjC02
     Proofs.LoaderBytesBase Proofs.LoaderBytesObj Proofs.LoaderBytesSect Proofs.LoaderBytesMain Proofs.LoaderBytesEx
     Proofs.LoaderBytesHistEx Proofs.LoaderBytesXstm Proofs.LoaderBytesOstm Proofs.LoaderBytesOstmEx.
From Coq Require Import Lia.
Close Scope N_scope.

Lemma ctx_of_get_some D id w : ctx_get (ctx_of D) id = Some w -> exists v, w = VObj v /\ In (id, v) D.
Proof.
  induction D as [|[k v] D IH]; cbn [ctx_of List.map ctx_get fst snd]; [discriminate|].
  destruct (oid_eqb k id) eqn:E.
  - intros H. injection H as <-. apply oid_eqb_eq in E. subst k. exists v. split; [reflexivity|left; reflexivity].
  - intros H. destruct (IH H) as (v' & -> & Hin). exists v'. split; [reflexivity|right; exact Hin].
Qed.

Lemma ctx_of_get_in D id v : NoDup (List.map fst D) -> In (id, v) D -> ctx_get (ctx_of D) id = Some (VObj v).
Proof.
  induction D as [|[k v'] D IH]; cbn [ctx_of List.map ctx_get fst snd In]; [intros _ []|].
  intros ND [H|H].
  - injection H as -> ->. rewrite oid_eqb_refl. reflexivity.
  - inversion ND as [|? ? Nin ND']; subst. destruct (oid_eqb k id) eqn:E.
    + apply oid_eqb_eq in E. subst k. exfalso. apply Nin. apply (in_map fst) in H. exact H.
    + apply IH; assumption.
Qed.

Theorem load_bytes_compression_transparent rel1 rel2 objs stms root X l :
  wf_olayout rel1 objs stms root X ->
  wf_doc (mk_cdoc (objs ++ compressed stms) root) -> wf_layout (mk_cdoc (objs ++ compressed stms) root) l ->
  exists c1 c2,
    load_bytes rel1 (render_objstm objs stms X) = Loaded c1 root /\
    load_bytes rel2 (render_classic (objs ++ compressed stms) l) = Loaded c2 root /\
    forall id, (forall o, In o stms -> id <> os_id o) -> ctx_get c1 id = ctx_get c2 id.
Proof.
  intros Wo Wd Wl.
  destruct (load_bytes_objstm rel1 objs stms root X Wo) as (c1 & L1 & Ka & Kb).
  destruct (load_bytes_classic rel2 _ l Wd Wl) as (c2 & L2 & K2). cbn [d_objs d_root] in L2, K2.
  exists c1, c2. split; [exact L1|]. split; [exact L2|].
  intros id Hid. rewrite K2. destruct (ctx_get c1 id) as [w|] eqn:G.
  - destruct (Kb id w G) as [(v & -> & Hin)|(o & Ho & -> & _)].
    + symmetry. apply ctx_of_get_in; [exact Wd|exact Hin].
    + exfalso. exact (Hid o Ho eq_refl).
  - destruct (ctx_get (ctx_of (objs ++ compressed stms)) id) as [w|] eqn:G2; [|reflexivity].
    destruct (ctx_of_get_some _ _ _ G2) as (v & -> & Hin). rewrite (Ka id v Hin) in G. discriminate.
Qed.
