(* Proofs/LoaderWit.v — refutation witnesses of the full C04 / C03 statements on the pinned code,
   evaluated on the faithful model (the same cases are replayed on the real loader: corpus/c04.txt,
   known_findings.d).  Each abstract file below is the description of a rendered PDF. *)
From PV Require Import Model.Loader.
Open Scope N_scope.

Definition cat : obj := ODict [(B "Type", OName (B "Catalog"))].
Definition tr (root : obj) (prev : option N) : option trailer := Some (mktrailer (Some root) prev None).

(* (a) FIXED by commit f2e753d (merge key = object number).  On the pinned tree the key was
   (number, generation) and this history left 5 0 defined (= i42): the base revision defines 5 0, the
   update frees it with the spec-conformant incremented generation `0000000000 00001 f`.
   The case stays in corpus/c04.txt. *)
Definition w_free_gen : pdf := mkpdf true 285 (Some 192)
  [(15, (IObj (1, 0) cat, 50)); (50, (IObj (5, 0) (OInt 42), 68));
   (68, (IXSect [mkxent 0 65535 (XFree 0); mkxent 1 0 (XInUse 15); mkxent 5 0 (XInUse 50)] (tr (ORef 1 0) None), 172));
   (172, (IGarbage, 192));
   (192, (IXSect [mkxent 5 1 (XFree 0)] (tr (ORef 1 0) (Some 68)), 264));
   (264, (IGarbage, 285))].

(* (b) an update redefines 6 0 in the file while the base revision keeps 6 and 7 in object stream 10 *)
Definition w_stale_member : pdf := mkpdf true 409 (Some 316)
  [(15, (IObj (1, 0) cat, 50));
   (50, (IObjStm (10, 0) 11 None [(6, OInt 1); (7, OInt 2)], 138));
   (138, (IXStm (11, 0) [mkxent 0 65535 (XFree 0); mkxent 1 0 (XInUse 15); mkxent 6 0 (XInStream 10 0);
                          mkxent 7 0 (XInStream 10 1); mkxent 10 0 (XInUse 50); mkxent 11 0 (XInUse 138)]
                 (Some (ORef 1 0)) None, 277));
   (277, (IGarbage, 298));
   (298, (IObj (6, 0) (OInt 99), 316));
   (316, (IXSect [mkxent 6 0 (XInUse 298)] (tr (ORef 1 0) (Some 138)), 390));
   (390, (IGarbage, 409))].

(* (c1) FIXED by commit 4807949 (xref-stream objects are parsed in a context of their own).  On the pinned tree
   (11, 0) stayed bound to the old xref stream: the base revision's xref stream is object 11 0; an update
   defines 11 0 obj 777 *)
Definition w_xstm_shadow : pdf := mkpdf true 313 (Some 221)
  [(15, (IObj (1, 0) cat, 50));
   (50, (IXStm (11, 0) [mkxent 0 65535 (XFree 0); mkxent 1 0 (XInUse 15); mkxent 11 0 (XInUse 50)] (Some (ORef 1 0)) None, 181));
   (181, (IGarbage, 201));
   (201, (IObj (11, 0) (OInt 777), 221));
   (221, (IXSect [mkxent 11 0 (XInUse 201)] (tr (ORef 1 0) (Some 50)), 293));
   (293, (IGarbage, 313))].

(* (c2) FIXED by commit 4807949; rejected on the pinned tree: two revisions whose xref streams are both object 11 0 *)
Definition w_xstm_twice : pdf := mkpdf true 362 (Some 218)
  [(15, (IObj (1, 0) cat, 50));
   (50, (IXStm (11, 0) [mkxent 0 65535 (XFree 0); mkxent 1 0 (XInUse 15); mkxent 11 0 (XInUse 50)] (Some (ORef 1 0)) None, 181));
   (181, (IGarbage, 201));
   (201, (IObj (2, 0) (OInt 5), 218));
   (218, (IXStm (11, 0) [mkxent 2 0 (XInUse 201); mkxent 11 0 (XInUse 218)] (Some (ORef 1 0)) (Some 50), 343));
   (343, (IGarbage, 362))].

(* (d) one revision; stream 3 0 has /Length 9 0 R and 9 0 lives in object stream 10 *)
Definition w_len_in_objstm : pdf := mkpdf true 361 (Some 193)
  [(22, (IObj (1, 0) cat, 57));
   (57, (IObj (3, 0) (OStream [(B "Length", ORef 9 0)] (B "abc")), 111));
   (111, (IObjStm (10, 0) 5 None [(9, OInt 3)], 193));
   (193, (IXStm (11, 0) [mkxent 0 65535 (XFree 0); mkxent 1 0 (XInUse 22); mkxent 3 0 (XInUse 57); mkxent 9 0 (XInStream 10 0);
                          mkxent 10 0 (XInUse 111); mkxent 11 0 (XInUse 193)] (Some (ORef 1 0)) None, 342));
   (342, (IGarbage, 361))].

Definition get (o : outcome) (id : oid) : option cval :=
  match o with Loaded c _ => ctx_get c id | _ => None end.
Definition is_loaded (o : outcome) : bool := match o with Loaded _ _ => true | _ => false end.

Example w_free_gen_eval :
  is_loaded (load w_free_gen) = true /\ get (load w_free_gen) (5, 0) = None /\ get (load w_free_gen) (5, 1) = None.
Proof. vm_compute. repeat split; reflexivity. Qed.

(* since f218988 (register_obj keeps the existing binding) 6 0 has the new value; 7 0 is still lost.
   On the pinned tree 6 0 was bound to the stale value 1. *)
Example w_stale_member_eval :
  is_loaded (load w_stale_member) = true /\
  get (load w_stale_member) (6, 0) = Some (VObj (OInt 99)) /\ get (load w_stale_member) (7, 0) = None.
Proof. vm_compute. repeat split; reflexivity. Qed.

Example w_xstm_shadow_eval :
  is_loaded (load w_xstm_shadow) = true /\ get (load w_xstm_shadow) (11, 0) = Some (VObj (OInt 777)).
Proof. vm_compute. split; reflexivity. Qed.

Example w_xstm_twice_eval :
  is_loaded (load w_xstm_twice) = true /\ get (load w_xstm_twice) (2, 0) = Some (VObj (OInt 5)) /\
  get (load w_xstm_twice) (11, 0) = Some VXStm.
Proof. vm_compute. repeat split; reflexivity. Qed.

Example w_len_in_objstm_eval : load w_len_in_objstm = Rejected.
Proof. vm_compute. reflexivity. Qed.
