(* Proofs/LoaderBytesRev.v — C04b, one revision: wherever in a buffer a revision is written (Spec/RenderHistory.v
   render_rev at base offset b), the abstraction computed from the bytes finds its objects at the offsets its table
   gives, and finds at the table's offset a section with exactly its entries, its root and its /Prev. *)
From PV Require Import Model.Obj Model.XrefTab Model.Loader Model.LoaderBytes Spec.Spelling Spec.XrefEnc Spec.RenderClassic Spec.RenderHistory.
From PV Require Import Proofs.XrefBase Proofs.XrefTab Proofs.ObjStream Proofs.ObjTok Proofs.ObjSpell Proofs.ObjC02
     Proofs.Loader Proofs.LoaderObjs Proofs.LoaderMain
     Proofs.LoaderBytesBase Proofs.LoaderBytesObj Proofs.LoaderBytesSect Proofs.LoaderBytesTab Proofs.LoaderBytesMain.
From Coq Require Import Lia.
Close Scope N_scope.

(* ---------- a trailer with a /Prev ---------- *)
Definition wf_trailer_p (root : oid) (prev : option N) (tw tsp : bytes) : Prop :=
  ws tw /\ (Z.of_nat (len tsp) < 2147483000)%Z /\
  exists td, spells' 51 (ODict td) tsp /\
             dict_get td key_Root = Some (ORef (fst root) (snd root)) /\
             dict_usize td key_Prev = prev /\ dict_usize td key_XRefStm = None.

Theorem trailer_found_p rel root prev s c tw tsp r :
  at_cur s c (kw_trailer ++ tw ++ tsp ++ r) -> wf_trailer_p root prev tw tsp ->
  exists nx, trailer_at rel s c = (Some (mktrailer (Some (ORef (fst root) (snd root))) prev None), nx).
Proof.
  intros H (Wt & L & td & Sp & Rt & Pv & Xs).
  unfold trailer_at. rewrite (scan_here kw_trailer s c _ ltac:(discriminate) H).
  rewrite (XrefBase.exact_at kw_trailer _ _ _ H). apply at_cur_app in H.
  destruct (spells_first _ _ _ Sp r) as (x & t & Ex & St).
  assert (Sts : ws_stop (tsp ++ r)) by (rewrite Ex; apply starter_ws_stop, St).
  rewrite (ws_eol_at true tw s _ _ H Wt Sts (or_introl eq_refl)).
  apply at_cur_app in H.
  pose proof (parse_obj_at rel 51 (ODict td) tsp s _ r H Sp I L) as E.
  destruct (spells_dict_shape _ _ _ Sp) as (body & Eb). rewrite Eb in H. cbn [app] in H. rewrite <- app_assoc in H.
  rewrite (dict_p_of_parse_obj rel 50 s _ body _ td _ H E). rewrite Rt, Pv, Xs. eauto.
Qed.

Theorem item_at_table_p rel root prev junk pre eol t tw tsp r :
  wf_sect pre eol t (kw_trailer ++ tw ++ tsp ++ r) -> wf_trailer_p root prev tw tsp ->
  exists nx, item_at rel (junk ++ render_sect pre eol t ++ kw_trailer ++ tw ++ tsp ++ r) (len junk) =
             (IXSect (List.map conv_ent (flat_map (fun x => number ent_of (ts_start x) (ts_ents x)) t))
                     (Some (mktrailer (Some (ORef (fst root) (snd root))) prev None)), nx).
Proof.
  intros Ws Wt. set (tl := kw_trailer ++ tw ++ tsp ++ r) in *.
  unfold item_at. rewrite (xsectp_ok junk pre eol t tl Ws).
  assert (H : at_cur (junk ++ render_sect pre eol t ++ tl) (len junk + len (render_sect pre eol t)) tl).
  { rewrite app_assoc, <- len_app. apply at_cur_mid. }
  destruct (trailer_found_p rel root prev _ _ tw tsp r H Wt) as (nx & E). rewrite E, xsectp_ents. eauto.
Qed.

(* ---------- the legal ways of writing a revision at offset b, with /Prev = prev ---------- *)
Definition tents (t : list tsub) : list XrefTab.xent := flat_map (fun x => number ent_of (ts_start x) (ts_ents x)) t.

Record wf_rev (b : nat) (prev : option N) (r : revision) (rl : rlayout) : Prop := {
  wr_len : len (rl_objs rl) = len (r_objs r);
  wr_objs : Forall (fun p => wf_obj (fst p) (snd p)) (combine (r_objs r) (rl_objs rl));
  wr_sect : wf_sect (rl_xpre rl) (rl_xeol rl) (rl_table rl) kw_trailer;
  wr_small : (N.of_nat (sect_off b r rl) < 10 ^ 10)%N;
  (* the table mentions every number at most once; in-use entries = the objects defined, free entries = the numbers freed *)
  wr_nums : NoDup (List.map xe_obj (tents (rl_table rl)));
  wr_inuse : forall e, In e (tents (rl_table rl)) -> inuse e = true -> In (xe_obj e, xe_gen e) (List.map fst (r_objs r));
  wr_all : forall id, In id (List.map fst (r_objs r)) ->
                      exists e, In e (tents (rl_table rl)) /\ inuse e = true /\ (xe_obj e, xe_gen e) = id;
  wr_free : forall e, In e (tents (rl_table rl)) -> inuse e = false -> In (xe_obj e) (r_frees r);
  wr_frees : forall n, In n (r_frees r) -> exists e, In e (tents (rl_table rl)) /\ inuse e = false /\ xe_obj e = n;
  wr_trailer : wf_trailer_p (r_root r) prev (rl_tw rl) (rl_tsp rl) }.

(* the entries of the revision's table as the loader sees them *)
Definition E_rev (b : nat) (r : revision) (rl : rlayout) : list Loader.xent :=
  List.map (fun e => conv_ent (fillx (rot b r rl) e)) (tents (rl_table rl)).

Lemma rot_small b r rl : (N.of_nat (sect_off b r rl) < 10 ^ 10)%N -> ot_small (rot b r rl).
Proof.
  intros Hb id o H. apply off_get_in in H. unfold rot in H. apply in_combine_r in H.
  apply in_map_iff in H as (k & <- & H). apply offsets_bound in H. unfold sect_off in Hb. lia.
Qed.

Section Rev.
  Variables (rel : bool) (V : bytes) (b : nat) (prev : option N) (r : revision) (rl : rlayout) (rest : bytes).
  Hypothesis Hat : at_cur V b (render_rev b r rl ++ rest).
  Hypothesis W : wf_rev b prev r rl.
  Hypothesis ND : NoDup (List.map fst (r_objs r)).

  Let f := file_of rel V.
  Let ot := rot b r rl.
  Let E := E_rev b r rl.
  Let s := sect_off b r rl.

  Lemma rev_s_lt : s < len V.
  Proof.
    pose proof (at_cur_len _ _ _ Hat) as SL. unfold render_rev in SL. rewrite !len_app in SL.
    cbn [kw_trailer len List.length] in SL. unfold s, sect_off. unfold len in *. lia.
  Qed.

  Lemma rev_obj_found x : In x (r_objs r) ->
    exists o nx, off_get ot (fst x) = Some (N.of_nat o) /\ o < len V /\
                 Loader.find f (N.of_nat o) = Some (IObj (fst x) (snd x), nx) /\ simple (IObj (fst x) (snd x)).
  Proof.
    intros Hin. destruct (at_cur_pre _ _ _ Hat) as (pre & EV & Eb).
    set (post := render_sect (rl_xpre rl) (rl_xeol rl) (rtable b r rl) ++ kw_trailer ++ rl_tw rl ++ rl_tsp rl ++ rl_sw rl ++ rest).
    destruct (chunks_located (r_objs r) (rl_objs rl) pre post (wr_len _ _ _ _ W) x Hin) as (lo & o & R & I1 & I2 & A).
    assert (Wo : wf_obj x lo) by exact (In_combine_Forall _ _ _ _ (wr_objs _ _ _ _ W) I1).
    assert (EV' : pre ++ concat (List.map (fun p => render_obj (fst p) (snd p)) (combine (r_objs r) (rl_objs rl))) ++ post = V).
    { rewrite EV. unfold render_rev, rchunks, post. rewrite <- !app_assoc. reflexivity. }
    rewrite EV' in A. rewrite <- Eb in I2.
    destruct (item_at_object rel V o x lo R A Wo) as (nx & EI).
    assert (Lo : o < len V).
    { pose proof (at_cur_len _ _ _ A) as SL. rewrite len_app in SL.
      assert (1 <= len (render_obj x lo)).
      { unfold render_obj. rewrite !len_app. destruct Wo as (W1 & _). rewrite digits_len. lia. }
      lia. }
    exists o, nx. split; [|split; [exact Lo|split]].
    - apply off_get_In; [|exact I2]. apply NoDup_combine_fst. exact ND.
    - unfold f. rewrite find_file_of by lia. rewrite EI. reflexivity.
    - exact (wf_obj_simple _ _ Wo).
  Qed.

  Lemma rev_table_found :
    exists nx, Loader.find f (N.of_nat s) =
               Some (IXSect E (Some (mktrailer (Some (ORef (fst (r_root r)) (snd (r_root r)))) prev None)), nx).
  Proof.
    unfold f. rewrite find_file_of by (pose proof rev_s_lt; lia).
    destruct (at_cur_pre _ _ _ Hat) as (pre & EV & Eb).
    pose proof (wf_sect_fill ot _ _ _ kw_trailer (kw_trailer ++ rl_tw rl ++ rl_tsp rl ++ rl_sw rl ++ rest)
                  (rot_small _ _ _ (wr_small _ _ _ _ W)) eq_refl (wr_sect _ _ _ _ W)) as Ws.
    destruct (item_at_table_p rel (r_root r) prev (pre ++ concat (rchunks r rl)) (rl_xpre rl) (rl_xeol rl) (rtable b r rl)
                (rl_tw rl) (rl_tsp rl) (rl_sw rl ++ rest) Ws (wr_trailer _ _ _ _ W)) as (nx & EI).
    exists nx.
    assert (EV' : (pre ++ concat (rchunks r rl)) ++ render_sect (rl_xpre rl) (rl_xeol rl) (rtable b r rl) ++
                  kw_trailer ++ rl_tw rl ++ rl_tsp rl ++ rl_sw rl ++ rest = V).
    { rewrite EV. unfold render_rev. rewrite <- !app_assoc. reflexivity. }
    rewrite EV' in EI. assert (Es : len (pre ++ concat (rchunks r rl)) = s) by (rewrite len_app; unfold s, sect_off; lia).
    rewrite Es in EI. rewrite EI. f_equal. f_equal. f_equal.
    unfold rtable. rewrite table_ents. unfold E, E_rev, tents. rewrite map_map. reflexivity.
  Qed.

  Lemma Erev_NoDup : NoDup (List.map x_num E).
  Proof.
    unfold E, E_rev. rewrite map_map.
    replace (List.map (fun e => x_num (conv_ent (fillx (rot b r rl) e))) (tents (rl_table rl))) with (List.map xe_obj (tents (rl_table rl)))
      by (apply map_ext; intros e; symmetry; apply E_num).
    exact (wr_nums _ _ _ _ W).
  Qed.

  Lemma Erev_inv e : In e E -> exists e0, In e0 (tents (rl_table rl)) /\ e = conv_ent (fillx ot e0).
  Proof. unfold E, E_rev. intros H. apply in_map_iff in H as (e0 & <- & H). eauto. Qed.

  Lemma Erev_status e : In e E -> (exists nx, x_st e = Loader.XFree nx) \/ (exists ofs, x_st e = Loader.XInUse ofs).
  Proof.
    intros Hin. destruct (Erev_inv e Hin) as (e0 & H0 & ->). unfold fillx.
    destruct (xe_st e0) as [nx0|o0|a c] eqn:S0; cbn; rewrite ?S0; cbn; eauto.
    exfalso. unfold tents in H0. apply in_flat_map in H0 as (x & _ & H0). eapply number_not_instream; eauto.
  Qed.

  Lemma Erev_inuse e ofs : In e E -> x_st e = Loader.XInUse ofs ->
    exists v nx, In (x_id e, v) (r_objs r) /\ (ofs <? N.of_nat (len V))%N = true /\
                 Loader.find f ofs = Some (IObj (x_id e) v, nx) /\ simple (IObj (x_id e) v).
  Proof.
    intros Hin St. destruct (Erev_inv e Hin) as (e0 & H0 & ->).
    unfold x_id. rewrite E_num, E_gen.
    unfold fillx in St. destruct (xe_st e0) as [nx0|o0|a c] eqn:S0; cbn in St; rewrite ?S0 in St; cbn in St; try discriminate.
    assert (Hid : In (xe_obj e0, xe_gen e0) (List.map fst (r_objs r))).
    { apply (wr_inuse _ _ _ _ W e0 H0). unfold inuse. rewrite S0. reflexivity. }
    apply in_map_iff in Hid as ([id v] & Eid & Hx). cbn [fst] in Eid. subst id.
    destruct (rev_obj_found _ Hx) as (o & nx & G & Lo & F & S). cbn [fst snd] in *.
    fold ot in St. rewrite G in St. injection St as <-.
    exists v, nx. split; [exact Hx|]. split; [apply N.ltb_lt; lia|]. split; assumption.
  Qed.

  (* what the revision says about a number, read off its entries *)
  Lemma Erev_defined n g v : In ((n, g), v) (r_objs r) ->
    exists e o nx, lookup_ent E n = Some e /\ x_gen e = g /\ x_st e = Loader.XInUse (N.of_nat o) /\
                   Loader.find f (N.of_nat o) = Some (IObj (n, g) v, nx).
  Proof.
    intros Hx. assert (Hid : In (n, g) (List.map fst (r_objs r))) by (change (n, g) with (fst ((n, g), v)); apply in_map, Hx).
    destruct (wr_all _ _ _ _ W _ Hid) as (e0 & H0 & U0 & Eid).
    set (e := conv_ent (fillx ot e0)).
    assert (He : In e E) by (unfold E, E_rev; apply in_map_iff; exists e0; split; [reflexivity|exact H0]).
    injection Eid as En Eg.
    assert (En' : x_num e = n) by (unfold e; rewrite E_num; exact En).
    pose proof (lookup_ent_NoDup _ _ Erev_NoDup He) as Lk. rewrite En' in Lk.
    destruct (rev_obj_found _ Hx) as (o & nx & G & Lo & F & S). cbn [fst snd] in *.
    exists e, o, nx. split; [exact Lk|]. split; [unfold e; rewrite E_gen; exact Eg|]. split; [|exact F].
    unfold e, fillx. unfold inuse in U0. destruct (xe_st e0); try discriminate. cbn. rewrite En, Eg. fold ot. rewrite G. reflexivity.
  Qed.

  Lemma Erev_freed n : In n (r_frees r) -> exists e nx, lookup_ent E n = Some e /\ x_st e = Loader.XFree nx.
  Proof.
    intros Hn. destruct (wr_frees _ _ _ _ W n Hn) as (e0 & H0 & U0 & En).
    set (e := conv_ent (fillx ot e0)).
    assert (He : In e E) by (unfold E, E_rev; apply in_map_iff; exists e0; split; [reflexivity|exact H0]).
    assert (En' : x_num e = n) by (unfold e; rewrite E_num; exact En).
    pose proof (lookup_ent_NoDup _ _ Erev_NoDup He) as Lk. rewrite En' in Lk.
    destruct (Erev_status e He) as [(nx & St)|(ofs & St)]; [eauto|].
    exfalso. unfold e, fillx in St. unfold inuse in U0. destruct (xe_st e0) eqn:S0; try discriminate; cbn in St; rewrite ?S0 in St; discriminate.
  Qed.

  Lemma Erev_unmentioned n : rev_mention r n = None -> lookup_ent E n = None.
  Proof.
    intros M. destruct (lookup_ent E n) as [e|] eqn:Lk; [|reflexivity]. exfalso.
    apply lookup_ent_In in Lk as (He & En). destruct (Erev_inv e He) as (e0 & H0 & ->). rewrite E_num in En.
    unfold rev_mention in M. destruct (objs_mention (r_objs r) n) eqn:OM; [discriminate|].
    destruct (existsb (N.eqb n) (r_frees r)) eqn:Ex; [discriminate|].
    destruct (inuse e0) eqn:U0.
    - pose proof (wr_inuse _ _ _ _ W e0 H0 U0) as Hid. apply in_map_iff in Hid as ([[k g] v] & Eid & Hx). cbn [fst] in Eid.
      injection Eid as -> _. clear - OM Hx En.
      induction (r_objs r) as [|[[k' g'] v'] l IH]; [destruct Hx|]. cbn [objs_mention] in OM.
      destruct (N.eqb_spec k' n); [discriminate|]. destruct Hx as [Hx|Hx]; [injection Hx as -> _ _; contradiction|apply IH; assumption].
    - pose proof (wr_free _ _ _ _ W e0 H0 U0) as Hf. rewrite En in Hf.
      assert (existsb (N.eqb n) (r_frees r) = true) by (apply existsb_exists; exists n; split; [exact Hf|apply N.eqb_refl]). congruence.
  Qed.
End Rev.
