(* Proofs/TypeCheckRec.v — C08, layer (i), closed: the verdict of check_type's work loop is the
   answer of the recursive memoising checker [eval_pair] (Proofs/TypeCheckSim.v) on the root pair;
   the fuel of the recursive checker never runs out before the bound of C09. *)
From PV Require Import Model.TypeCheck Proofs.TypeCheckEq Proofs.TypeCheckLoop Proofs.TypeCheckTerm Proofs.TypeCheckSim.
From Coq Require Import Lia Arith.

Section Rec.
Variable opq : N -> obj -> bool.
Variable oc : octx.
Variable tc : tctx.

(* the recursive checker on the root pair *)
Definition eval_root (n : nat) (o : obj) (c : chk) : eres :=
  ev_set (eval_pair opq oc tc n) [(o, c)] [] [].

Definition verdict_of (r : eres) (x : outcome) : Prop :=
  match r with
  | EOk _ _ => x = Accept
  | EFail _ _ => exists e, x = Reject e
  | EStop y => x = y
  | EOOF => False
  end.

Lemma runv_settle n m s x : runv opq oc tc n s <> Stuck -> runv opq oc tc m s = x -> x <> Stuck -> runv opq oc tc n s = x.
Proof.
  intros Hn Hm Hx. destruct (Nat.le_ge_cases n m) as [L|L].
  - rewrite <- (runv_mono opq oc tc n m s Hn L). exact Hm.
  - subst x. apply runv_mono; assumption.
Qed.

Theorem run_eval o c n :
  step_bound oc tc o c <= n ->
  verdict_of (eval_root n o c) (fst (run opq oc tc n [([(o, c)], 0, 0)] [] [] None 0)).
Proof.
  intros Hn. destruct (run_root_terminates opq oc tc o c n Hn) as [HT _].
  rewrite run_runv in *. set (s0 := ([([(o, c)], 0, 0)], [], [], None) : mst) in *.
  pose proof (S_set opq oc tc n (sim_pair opq oc tc n) [(o, c)] [] 0 [] [] [] [] ltac:(constructor)) as H.
  simpl app in H. change (([([(o, c)], 0, 0)], [], [], None) : mst) with s0 in H. unfold eval_root.
  destruct (ev_set (eval_pair opq oc tc n) [(o, c)] [] []) as [ex' fl'|ex' fl'|x|]; simpl in H |- *.
  - destruct H as (j & emp & t & A & (m' & ->) & C).
    apply (runv_settle n (j + 1) s0 Accept HT); [|discriminate].
    rewrite C. simpl. change (emp ++ [([], 0, m')]) with (emp ++ [([], 0, m')]).
    replace (emp ++ [([], 0, m')]) with ((emp ++ [([], 0, m')]) ++ []) by apply app_nil_r.
    rewrite gnT_done; [reflexivity|]. apply all_emp_app; [exact A | constructor; [split; reflexivity|constructor]].
  - destruct H as (j & junk & e & A & C). exists e.
    apply (runv_settle n (j + 1) s0 (Reject e) HT); [|discriminate].
    rewrite C. simpl. rewrite gnT_fail_end by exact A. reflexivity.
  - destruct H as (j & C). destruct (outcome_eq_dec_stuck x) as [E|E].
    + subst x. exfalso. apply HT. specialize (C (n - j)).
      destruct (Nat.le_ge_cases j n) as [L|L].
      * replace (j + (n - j)) with n in C by lia. exact C.
      * destruct (outcome_eq_dec_stuck (runv opq oc tc n s0)) as [E'|E']; [exact E'|].
        pose proof (runv_mono opq oc tc n (j + (n - j)) s0 E' ltac:(lia)) as M. rewrite C in M. congruence.
    + apply (runv_settle n (j + 0) s0 x HT); [apply C | exact E].
  - apply HT. exact H.
Qed.

Theorem check_eval o c r :
  resolve tc c = Some r ->
  let c' := norm_chk (rep_chk r) in
  verdict_of (eval_root (step_bound oc tc o c') o c') (fst (check opq oc tc o c)).
Proof.
  intros R c'. unfold check. rewrite R. rewrite check_N_fuel, step_bound_N_nat.
  unfold check_fuel. rewrite R. apply run_eval. apply Nat.le_refl.
Qed.
End Rec.
