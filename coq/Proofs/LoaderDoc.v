(* Proofs/LoaderDoc.v — C03: a one-revision document in any layout; refutation witnesses as theorems. *)
From PV Require Import Model.Loader Proofs.Loader Proofs.LoaderObjs Proofs.LoaderMain Proofs.LoaderMismatch Proofs.LoaderWit.
Open Scope N_scope.

(* a document: its objects (the integer objects that hold referenced /Length values included) *)
Definition doc := list (oid * obj).

(* [p] stores document [d] with root [root]: one section of any of the three kinds at the startxref offset,
   with entries [E]; every entry leads where it should (table / xref stream / hybrid; in the file or in
   object streams; direct or referenced /Length: all inside [section_at], [good], [container]);
   the entries define the objects of [d] and, besides them, only xref-stream / object-stream containers. *)
Record layout_of (d : doc) (root : oid) (p : pdf) (E : list xent) : Prop := {
  lo_magic : p_magic p = true;
  lo_sect : exists sx, p_startxref p = Some sx /\ (sx <? p_flen p) = true /\
                       section_at (p_file p) (p_flen p) sx E (Some (ORef (fst root) (snd root))) None;
  lo_inuse : forall e ofs, In e (first_per_key E) -> x_st e = XInUse ofs ->
     good (p_file p) (p_flen p) [] (info_from_xref_entries (first_per_key E)) (x_id e) ofs;
  lo_members : forall e stm idx ms n v, In e (first_per_key E) -> x_st e = XInStream stm idx ->
     container (p_file p) E stm = Some ms -> In (n, v) ms -> exists idx', lookup_ent E n = Some (mkxent n 0 (XInStream stm idx'));
  lo_members_nodup : forall e stm idx ms, In e (first_per_key E) -> x_st e = XInStream stm idx ->
     container (p_file p) E stm = Some ms -> NoDup (map fst ms);
  lo_objs : forall id v, In (id, v) d -> resolve (p_file p) E id = Some (VObj v);
  lo_exact : forall id w, resolve (p_file p) E id = Some w ->
     (exists v, w = VObj v /\ In (id, v) d) \/ w = VXStm \/ (exists ms, w = VObjStm ms) }.

Theorem load_document d root p E :
  layout_of d root p E ->
  exists c, load p = Loaded c root /\
            (forall id v, In (id, v) d -> ctx_get c id = Some (VObj v)) /\
            (forall id w, ctx_get c id = Some w -> (exists v, w = VObj v /\ In (id, v) d) \/ w = VXStm \/ (exists ms, w = VObjStm ms)).
Proof.
  intros [Hm (sx & Hs & Hb & SA) Hi Hmem Hnd Hobjs Hex].
  assert (AE : all_ents [(sx, E, Some (ORef (fst root) (snd root)))] = E) by (unfold all_ents; cbn; apply app_nil_r).
  destruct (load_history p [(sx, E, Some (ORef (fst root) (snd root)))] (fst root) (snd root) sx Hm Hs Hb) as (c & L & K).
  - apply SS_last; assumption.
  - repeat constructor. intros [].
  - reflexivity.
  - rewrite AE. exact Hi.
  - rewrite AE. exact Hmem.
  - rewrite AE. exact Hnd.
  - rewrite AE in K. exists c. destruct root as [rn rg]. split; [exact L|]. split.
    + intros id v H. rewrite K, (Hobjs _ _ H). reflexivity.
    + intros id w H. rewrite K in H. eapply Hex, H.
Qed.

(* ---------- refutations of the unrestricted statements, as theorems ---------- *)
Definition S_stale : list sect :=
  [(316, [mkxent 6 0 (XInUse 298)], Some (ORef 1 0));
   (138, [mkxent 0 65535 (XFree 0); mkxent 1 0 (XInUse 15); mkxent 6 0 (XInStream 10 0); mkxent 7 0 (XInStream 10 1);
          mkxent 10 0 (XInUse 50); mkxent 11 0 (XInUse 138)], Some (ORef 1 0))].

(* a well-formed two-revision history (all hypotheses of load_history but (4)) on which the loader does not
   agree with [resolve]: 7 0, the member after the superseded one, is lost (the stale copy of 6 0 no longer
   overwrites the new value since commit f218988) *)
Theorem stale_member_refutes :
  p_magic w_stale_member = true /\ p_startxref w_stale_member = Some 316 /\
  sections (p_file w_stale_member) (p_flen w_stale_member) 316 S_stale /\
  NoDup (map s_off S_stale) /\
  resolve (p_file w_stale_member) (all_ents S_stale) (6, 0) = Some (VObj (OInt 99)) /\
  resolve (p_file w_stale_member) (all_ents S_stale) (7, 0) = Some (VObj (OInt 2)) /\
  get (load w_stale_member) (6, 0) = Some (VObj (OInt 99)) /\ get (load w_stale_member) (7, 0) = None.
Proof.
  split; [reflexivity|]. split; [reflexivity|]. split.
  { eapply SS_cons; [reflexivity | eapply SA_table; reflexivity |]. eapply SS_last; [reflexivity|]. eapply SA_stream; reflexivity. }
  split; [repeat constructor; cbn; intuition discriminate|].
  vm_compute. repeat split; reflexivity.
Qed.

Definition S_shadow : list sect :=
  [(221, [mkxent 11 0 (XInUse 201)], Some (ORef 1 0));
   (50, [mkxent 0 65535 (XFree 0); mkxent 1 0 (XInUse 15); mkxent 11 0 (XInUse 50)], Some (ORef 1 0))].

(* FIXED (commit 4807949): the base revision's xref stream is 11 0 and the update redefines 11 0: the newer
   definition wins; two revisions whose xref streams are both 11 0 are loaded.  (Pinned tree: 11 0 stayed
   bound to the old xref stream; the second file was rejected.) *)
Theorem xref_stream_id_fixed :
  sections (p_file w_xstm_shadow) (p_flen w_xstm_shadow) 221 S_shadow /\
  resolve (p_file w_xstm_shadow) (all_ents S_shadow) (11, 0) = Some (VObj (OInt 777)) /\
  get (load w_xstm_shadow) (11, 0) = Some (VObj (OInt 777)) /\
  is_loaded (load w_xstm_twice) = true.
Proof.
  split.
  { eapply SS_cons; [reflexivity | eapply SA_table; reflexivity |]. eapply SS_last; [reflexivity|]. eapply SA_stream; reflexivity. }
  vm_compute. repeat split; reflexivity.
Qed.

Definition E_len : list xent :=
  [mkxent 0 65535 (XFree 0); mkxent 1 0 (XInUse 22); mkxent 3 0 (XInUse 57); mkxent 9 0 (XInStream 10 0);
   mkxent 10 0 (XInUse 111); mkxent 11 0 (XInUse 193)].

(* a one-revision document whose entries all lead to objects carrying their identifiers, whose stream 3 0
   has /Length 9 0 R with 9 0 = 3 stored in object stream 10 0: rejected *)
Theorem length_in_objstm_refutes :
  p_magic w_len_in_objstm = true /\ p_startxref w_len_in_objstm = Some 193 /\
  section_at (p_file w_len_in_objstm) (p_flen w_len_in_objstm) 193 E_len (Some (ORef 1 0)) None /\
  resolve (p_file w_len_in_objstm) E_len (3, 0) = Some (VObj (OStream [(B "Length", ORef 9 0)] (B "abc"))) /\
  resolve (p_file w_len_in_objstm) E_len (9, 0) = Some (VObj (OInt 3)) /\
  load w_len_in_objstm = Rejected.
Proof.
  split; [reflexivity|]. split; [reflexivity|]. split.
  { eapply SA_stream; reflexivity. }
  vm_compute. repeat split; reflexivity.
Qed.
