(* Proofs/Comb.v — C18: the combinator model refines the PEG semantics of Spec/Peg.v. *)
From PV Require Import Model.Comb Spec.Peg.

(* ---------- small facts ---------- *)
Lemma set_cur_ok {A} (s : bytes) c (k : pres A) : c <= len s -> set_cur s c k = k.
Proof. intros H. unfold set_cur. destruct (Nat.leb_spec c (len s)); [reflexivity|lia]. Qed.

Lemma len_skipn (s : bytes) c : len (skipn c s) = len s - c.
Proof. unfold len. apply skipn_length. Qed.

Lemma skipn_len_nil (s : bytes) c : len s <= c -> skipn c s = [].
Proof. unfold len. apply skipn_all2. Qed.

Definition all_nested (l : list tree) : Prop :=
  (fix all (l : list tree) : Prop :=
     match l with [] => True | t :: r => spans_nested t /\ all r end) l.

Lemma all_nested_Forall l : all_nested l <-> Forall spans_nested l.
Proof.
  induction l as [|t l IH]; cbn.
  - split; [constructor|trivial].
  - split.
    + intros [H1 H2]. constructor; [exact H1|apply IH, H2].
    + intros H. inversion H; subst. split; [assumption|apply IH; assumption].
Qed.

(* ---------- the simulation invariant ----------
   whatever the implementation answers at (s, c) is the PEG outcome on the suffix [skipn c s]:
   success = PEG success with the same value (locations erased), the cursor at the PEG remainder,
   a tree whose spans tile and whose root span is the consumed segment; failure = PEG failure
   with the cursor back at c (for the bare dirty leaf: somewhere in [c, |s|]); no panic, no divergence. *)
(* every expression except the bare dirty leaf restores the cursor when it fails *)
Definition restores (e : expr) : Prop := match e with Dty _ => False | _ => True end.

Definition sound_at (fuel : nat) (e : expr) (s : bytes) (c : nat) : Prop :=
  match impl fuel e s c with
  | POk lv c' =>
    c <= c' /\ c' <= len s /\ peg e (skipn c s) (Some (erase lv, skipn c' s)) /\
    spans_nested lv /\ span lv = (c, c')
  | PErr _ c' => c <= c' /\ c' <= len s /\ (restores e -> c' = c) /\ peg e (skipn c s) None
  | PPanic => False
  | PFuel => False
  end.

Ltac err_goal := split; [lia|split; [lia|split; [reflexivity|]]].

Lemma chr_sound fuel g s c : c <= len s -> sound_at fuel (Chr g) s c.
Proof.
  intros Hc. unfold sound_at. cbn [impl]. unfold chr, ascii_prim.
  destruct (nth_error s c) as [b|] eqn:E.
  - assert (Hlt : c < len s) by (unfold len; apply nth_error_Some; congruence).
    rewrite (skipn_cons_nth _ _ _ E).
    destruct (N.leb_spec 128 b) as [Hb|Hb].
    + err_goal. apply PChrNo. unfold accepts.
      destruct (N.ltb_spec b 128); [lia|reflexivity].
    + destruct (guard_ok g b) eqn:G.
      * rewrite set_cur_ok by lia. replace (c + 1) with (S c) by lia.
        repeat split; try lia.
        -- apply PChrOk. unfold accepts. rewrite G.
           destruct (N.ltb_spec b 128); [reflexivity|lia].
        -- cbn. lia.
      * err_goal. apply PChrNo. unfold accepts. rewrite G. apply andb_false_r.
  - apply nth_error_None in E. rewrite skipn_len_nil by (unfold len; lia).
    err_goal. apply PChrEnd.
Qed.

Lemma dty_sound fuel g s c : c <= len s -> sound_at fuel (Dty g) s c.
Proof.
  intros Hc. unfold sound_at. cbn [impl]. unfold dty.
  destruct (nth_error s c) as [b|] eqn:E.
  - assert (Hlt : c < len s) by (unfold len; apply nth_error_Some; congruence).
    rewrite (skipn_cons_nth _ _ _ E).
    destruct (N.leb_spec 128 b) as [Hb|Hb].
    + split; [lia|split; [lia|split; [intros []|]]]. apply PDtyNo. unfold accepts.
      destruct (N.ltb_spec b 128); [lia|reflexivity].
    + destruct (guard_ok g b) eqn:G.
      * replace (c + 1) with (S c) by lia.
        repeat split; try lia.
        -- apply PDtyOk. unfold accepts. rewrite G.
           destruct (N.ltb_spec b 128); [reflexivity|lia].
        -- cbn. lia.
      * split; [lia|split; [lia|split; [intros []|]]]. apply PDtyNo. unfold accepts. rewrite G. apply andb_false_r.
  - apply nth_error_None in E. rewrite skipn_len_nil by (unfold len; lia).
    err_goal. apply PDtyEnd.
Qed.

(* the Star loop: [n] iterations of fuel suffice when every success of the operand consumes *)
Lemma star_loop_sound fuel a s start :
  nullable a = false ->
  (forall c, c <= len s -> sound_at fuel a s c) ->
  forall n cur v, cur <= len s -> len s - cur < n ->
  exists l c',
    star_loop (fun c' => impl fuel a s c') s start n cur v = POk (TStar (v ++ l) start c') c' /\
    cur <= c' /\ c' <= len s /\
    peg (Star a) (skipn cur s) (Some (VStar (map erase l), skipn c' s)) /\
    all_nested l /\ chain cur (map span l) c'.
Proof.
  intros Hn IH. induction n as [|n IHn]; intros cur v Hc Hf; [lia|].
  cbn [star_loop]. pose proof (IH cur Hc) as Hs. unfold sound_at in Hs.
  destruct (impl fuel a s cur) as [o c1|k c1| |]; try contradiction.
  - destruct Hs as (H1 & H2 & Hp & Hnest & Hspan).
    pose proof (peg_len _ _ _ Hp) as [_ Hlt]. specialize (Hlt Hn). rewrite !len_skipn in Hlt.
    destruct (IHn c1 (v ++ [o])) as (l & c' & E & G1 & G2 & Gp & Gn & Gc); [lia|lia|].
    exists (o :: l), c'. rewrite E, <- app_assoc. cbn [app].
    repeat split; try lia.
    + cbn [map]. eapply PStarStep; [exact Hp|exact Gp].
    + exact Hnest.
    + exact Gn.
    + cbn [map chain]. rewrite Hspan. repeat split; [lia|exact Gc].
  - destruct Hs as (_ & _ & _ & Hp). rewrite set_cur_ok by exact Hc.
    exists [], cur. rewrite app_nil_r.
    repeat split; try lia. cbn [map]. apply PStarEnd, Hp.
Qed.

Theorem impl_sound e : wf e -> forall fuel s c, len s < fuel -> c <= len s -> sound_at fuel e s c.
Proof.
  unfold wf.
  induction e as [g|g|a IHa b IHb|a IHa b IHb|a IHa|a IHa]; intros W fuel s c Hf Hc; cbn [wfe] in W.
  - apply chr_sound, Hc.
  - apply dty_sound, Hc.
  - apply andb_true_iff in W as [Wa Wb].
    pose proof (IHa Wa fuel s c Hf Hc) as Ha. unfold sound_at in *. cbn [impl].
    destruct (impl fuel a s c) as [o1 c1|k c1| |]; try contradiction.
    + destruct Ha as (A1 & A2 & Ap & An & As).
      pose proof (IHb Wb fuel s c1 Hf A2) as Hb.
      destruct (impl fuel b s c1) as [o2 c2|k c2| |]; try contradiction.
      * destruct Hb as (B1 & B2 & Bp & Bn & Bs).
        repeat split; try lia.
        -- cbn [erase]. eapply PSeqOk; eassumption.
        -- exact An.
        -- exact Bn.
        -- cbn [chain]. rewrite As, Bs. cbn. lia.
      * destruct Hb as (_ & _ & _ & Bp). rewrite set_cur_ok by exact Hc.
        err_goal. eapply PSeqNo2; eassumption.
    + destruct Ha as (_ & _ & _ & Ap). rewrite set_cur_ok by exact Hc.
      err_goal. apply PSeqNo1, Ap.
  - apply andb_true_iff in W as [Wa Wb].
    pose proof (IHa Wa fuel s c Hf Hc) as Ha. unfold sound_at in *. cbn [impl].
    destruct (impl fuel a s c) as [o1 c1|k c1| |]; try contradiction.
    + destruct Ha as (A1 & A2 & Ap & An & As).
      repeat split; try lia.
      * cbn [erase]. apply PAltL, Ap.
      * exact An.
      * cbn [chain]. rewrite As. lia.
    + destruct Ha as (_ & _ & _ & Ap). rewrite set_cur_ok by exact Hc.
      pose proof (IHb Wb fuel s c Hf Hc) as Hb.
      destruct (impl fuel b s c) as [o2 c2|k2 c2| |]; try contradiction.
      * destruct Hb as (B1 & B2 & Bp & Bn & Bs).
        repeat split; try lia.
        -- cbn [erase]. apply PAltR; assumption.
        -- exact Bn.
        -- cbn [chain]. rewrite Bs. lia.
      * destruct Hb as (_ & _ & _ & Bp). rewrite set_cur_ok by exact Hc.
        err_goal. apply PAltNo; assumption.
  - apply andb_true_iff in W as [Wa Wn]. apply negb_true_iff in Wn.
    unfold sound_at. cbn [impl].
    destruct (star_loop_sound fuel a s c Wn (fun c' Hc' => IHa Wa fuel s c' Hf Hc') fuel c [] Hc)
      as (l & c' & E & G1 & G2 & Gp & Gn & Gc); [lia|].
    rewrite E. cbn [app]. repeat split; try lia.
    + cbn [erase]. exact Gp.
    + exact Gn.
    + exact Gc.
  - pose proof (IHa W fuel s c Hf Hc) as Ha. unfold sound_at in *. cbn [impl].
    destruct (impl fuel a s c) as [o1 c1|k c1| |]; try contradiction.
    + destruct Ha as (A1 & A2 & Ap & An & As). rewrite set_cur_ok by exact Hc.
      err_goal. eapply PNotNo, Ap.
    + destruct Ha as (_ & _ & _ & Ap). rewrite set_cur_ok by exact Hc.
      repeat split; try lia. cbn [erase]. apply PNotOk, Ap.
Qed.

(* ---------- the property ---------- *)
Theorem impl_is_peg e fuel s c :
  wf e -> len s < fuel -> c <= len s ->
  (* success <-> PEG success, same value, same consumed length, spans tile, root span = consumed segment *)
  (forall v r, peg e (skipn c s) (Some (v, r)) <->
     exists lv, impl fuel e s c = POk lv (len s - len r) /\ erase lv = v /\ r = skipn (len s - len r) s /\
                spans_nested lv /\ span lv = (c, len s - len r) /\ c <= len s - len r) /\
  (* failure <-> PEG failure, and the cursor is restored (whatever the operands did to it) *)
  (peg e (skipn c s) None <-> exists k c', impl fuel e s c = PErr k c') /\
  (forall k c', impl fuel e s c = PErr k c' -> c <= c' /\ c' <= len s /\ (restores e -> c' = c)).
Proof.
  intros W Hf Hc. pose proof (impl_sound e W fuel s c Hf Hc) as Hs. unfold sound_at in Hs.
  destruct (impl fuel e s c) as [lv c1|k c1| |] eqn:E; try contradiction.
  - destruct Hs as (A1 & A2 & Ap & An & As).
    assert (Hc1 : len s - len (skipn c1 s) = c1) by (rewrite len_skipn; lia).
    split; [|split].
    + intros v r. split.
      * intros Hp. pose proof (peg_functional _ _ _ _ Ap Hp) as Eq. injection Eq as <- <-.
        exists lv. rewrite Hc1. repeat split; assumption.
      * intros (lv' & E' & <- & Er & _). injection E' as <- Ec. rewrite <- Ec in Er. rewrite Er. exact Ap.
    + split.
      * intros Hp. pose proof (peg_functional _ _ _ _ Ap Hp). discriminate.
      * intros (k & c' & Ek). discriminate.
    + intros k c' Ek. discriminate.
  - destruct Hs as (B1 & B2 & B3 & Ap).
    split; [|split].
    + intros v r. split.
      * intros Hp. pose proof (peg_functional _ _ _ _ Ap Hp). discriminate.
      * intros (lv' & E' & _). discriminate.
    + split; [intros _; exists k, c1; reflexivity|intros _; exact Ap].
    + intros k' c' Ek. injection Ek as _ <-. auto.
Qed.

Theorem impl_total e fuel s c :
  wf e -> len s < fuel -> c <= len s -> impl fuel e s c <> PPanic /\ impl fuel e s c <> PFuel.
Proof.
  intros W Hf Hc. pose proof (impl_sound e W fuel s c Hf Hc) as Hs. unfold sound_at in Hs.
  destruct (impl fuel e s c); try contradiction; split; discriminate.
Qed.

(* the answer does not depend on the amount of fuel once it exceeds the input length *)
Corollary impl_fuel_irrelevant e f1 f2 s c :
  wf e -> len s < f1 -> len s < f2 -> c <= len s ->
  match impl f1 e s c, impl f2 e s c with
  | POk t1 c1, POk t2 c2 => erase t1 = erase t2 /\ c1 = c2 /\ span t1 = span t2
  | PErr _ c1, PErr _ c2 => restores e -> c1 = c2
  | _, _ => False
  end.
Proof.
  intros W H1 H2 Hc.
  pose proof (impl_sound e W f1 s c H1 Hc) as S1. pose proof (impl_sound e W f2 s c H2 Hc) as S2.
  unfold sound_at in *.
  destruct (impl f1 e s c) as [t1 c1|k1 c1| |]; try contradiction;
    destruct (impl f2 e s c) as [t2 c2|k2 c2| |]; try contradiction.
  - destruct S1 as (A1 & A2 & Ap & _ & As), S2 as (B1 & B2 & Bp & _ & Bs).
    pose proof (peg_functional _ _ _ _ Ap Bp) as Eq. injection Eq as Ev Er.
    assert (c1 = c2).
    { apply (f_equal len) in Er. rewrite !len_skipn in Er. lia. }
    subst. rewrite As, Bs. auto.
  - destruct S1 as (_ & _ & Ap & _), S2 as (_ & _ & _ & Bp). pose proof (peg_functional _ _ _ _ Ap Bp). discriminate.
  - destruct S1 as (_ & _ & _ & Ap), S2 as (_ & _ & Bp & _). pose proof (peg_functional _ _ _ _ Ap Bp). discriminate.
  - destruct S1 as (_ & _ & R1 & _), S2 as (_ & _ & R2 & _). intros R. rewrite (R1 R), (R2 R). reflexivity.
Qed.

(* every span of a nested tree is well-formed: start <= end at the root (and, by the definition of
   [chain], at every child) *)
Lemma chain_le a l e : chain a l e -> a <= e.
Proof.
  revert a. induction l as [|[x y] l IH]; intros a H; cbn [chain] in H.
  - lia.
  - destruct H as (-> & Hxy & Hc). specialize (IH _ Hc). lia.
Qed.

Lemma spans_nested_le t : spans_nested t -> fst (span t) <= snd (span t).
Proof.
  destruct t; cbn [spans_nested span fst snd]; intros H.
  - lia.
  - destruct H as (_ & _ & H). apply chain_le in H. exact H.
  - destruct H as (_ & H). apply chain_le in H. exact H.
  - destruct H as (_ & H). apply chain_le in H. exact H.
  - destruct H as (_ & H). apply chain_le in H. exact H.
  - lia.
Qed.

(* ---------- outside the domain: the model of the Rust loop does not terminate ---------- *)
Lemma star_loop_stuck (p : nat -> pres tree) s start c o :
  p c = POk o c -> forall n v, star_loop p s start n c v = PFuel.
Proof.
  intros Hp. induction n as [|n IH]; intros v; cbn [star_loop]; [reflexivity|].
  rewrite Hp. apply IH.
Qed.

(* Star over an operand that succeeds without consuming: for every amount of fuel the answer is
   [PFuel] — e.g. ( !a )* on "b" *)
Theorem star_nullable_diverges fuel :
  impl fuel (Star (Not (Chr (GEq 97)))) [98%N] 0 = PFuel.
Proof. cbn [impl]. eapply star_loop_stuck. reflexivity. Qed.

(* ---------- the hypotheses are satisfiable and the statement has content ---------- *)
Definition ex_e : expr := Seq (Chr (GEq 97)) (Star (Alt (Chr (GEq 98)) (Seq (Not (Chr (GEq 99))) (Chr GAny)))).
Example ex_wf : wf ex_e. Proof. reflexivity. Qed.
Example ex_run :
  impl 5 ex_e [97; 98; 100; 99]%N 0 =
  POk (TSeq (TChr 97 0 1)
            (TStar [TL (TChr 98 1 2) 1 2; TR (TSeq (TNot 2 2) (TChr 100 2 3) 2 3) 2 3] 1 3) 0 3) 3.
Proof. reflexivity. Qed.
Example ex_peg :
  peg_eval 5 ex_e [97; 98; 100; 99]%N =
  Some (Some (VSeq (VChr 97) (VStar [VL (VChr 98); VR (VSeq VNot (VChr 100))]), [99%N])).
Proof. reflexivity. Qed.
Example ex_dirty :       (* the dirty leaf fails at cursor 1; Alternate rewinds before trying its right operand *)
  dty (GEq 97) [98%N] 0 = PErr EGuard 1 /\
  impl 2 (Alt (Dty (GEq 97)) (Chr (GEq 98))) [98%N] 0 = POk (TR (TChr 98 0 1) 0 1) 1.
Proof. split; reflexivity. Qed.
Example ex_backtrack :   (* "ab" then 'c' missing: the cursor returns to 0 although two bytes were consumed *)
  impl 4 (Seq (Seq (Chr (GEq 97)) (Chr (GEq 98))) (Chr (GEq 99))) [97; 98; 100]%N 0 = PErr EGuard 0.
Proof. reflexivity. Qed.
