(* Proofs/FiltersInflate0.v — non-vacuity of the inflate oracle hypothesis of C06: the Gallina
   [inflate0] (Model/Flate.v) returns payload and unused tail on every zlib stream of stored blocks. *)
From PV Require Import Model.Flate.
From Coq Require Import ZifyBool ZifyNat ZifyN.
Ltac Zify.zify_post_hook ::= Z.div_mod_to_equations.

(* RFC 1951 3.2.4: LEN, NLEN little-endian *)
Definition block_len (n : N) : bytes := [n mod 256; n / 256; (65535 - n) mod 256; (65535 - n) / 256]%N.
Definition be32 (v : N) : bytes := [v / 16777216; (v / 65536) mod 256; (v / 256) mod 256; v mod 256]%N.

(* the deflate data: one or more stored blocks, the last one flagged BFINAL; [h] is the header byte
   (bit 0 BFINAL, bits 1-2 BTYPE = 00, the other bits are padding) *)
Inductive stored_blocks : bytes -> bytes -> Prop :=
| sb_final : forall h c, (h mod 2 = 1)%N -> ((h / 2) mod 4 = 0)%N -> (N.of_nat (List.length c) <= 65535)%N ->
    stored_blocks c (h :: block_len (N.of_nat (List.length c)) ++ c)
| sb_more : forall h c p e, (h mod 2 = 0)%N -> ((h / 2) mod 4 = 0)%N -> (N.of_nat (List.length c) <= 65535)%N ->
    stored_blocks p e -> stored_blocks (c ++ p) (h :: block_len (N.of_nat (List.length c)) ++ c ++ e).

(* RFC 1950: CMF (CM = 8, CINFO <= 7), FLG (check bits, FDICT = 0), data, ADLER32 big-endian *)
Definition zlib_stored (p e : bytes) : Prop :=
  exists cmf flg body,
    (cmf mod 16 = 8 /\ cmf / 16 <= 7 /\ (cmf * 256 + flg) mod 31 = 0 /\ (flg / 32) mod 2 = 0)%N /\
    stored_blocks p body /\ e = cmf :: flg :: body ++ be32 (adler32 p).

Lemma firstn_app_len {A} (a b : list A) n : List.length a = n -> firstn n (a ++ b) = a.
Proof. intros <-. rewrite firstn_app, Nat.sub_diag, firstn_all. cbn. apply app_nil_r. Qed.
Lemma skipn_app_len {A} (a b : list A) n : List.length a = n -> skipn n (a ++ b) = b.
Proof. intros <-. rewrite skipn_app, Nat.sub_diag, skipn_all. reflexivity. Qed.

Lemma blocks0_ok p e : stored_blocks p e -> forall t fuel, List.length e <= fuel ->
  blocks0 fuel (e ++ t) = Some (p, t).
Proof.
  induction 1 as [h c Hf Hb Hl | h c p e Hf Hb Hl _ IH]; intros t fuel Hfuel.
  - destruct fuel as [|f]; [cbn in Hfuel; lia|].
    set (n := N.of_nat (List.length c)) in *. assert (Hn : (n <= 65535)%N) by lia.
    cbn [block_len app blocks0].
    replace (negb ((h / 2) mod 4 =? 0)%N) with false by lia.
    replace (negb (n mod 256 + 256 * (n / 256) + ((65535 - n) mod 256 + 256 * ((65535 - n) / 256)) =? 65535)%N)
      with false by lia.
    replace (N.to_nat (n mod 256 + 256 * (n / 256))) with (List.length c) by lia.
    unfold len. rewrite app_length.
    replace (Nat.ltb (List.length c + List.length t) (List.length c)) with false by lia.
    replace (h mod 2 =? 1)%N with true by lia.
    rewrite firstn_app_len, skipn_app_len by reflexivity. reflexivity.
  - destruct fuel as [|f]; [cbn in Hfuel; lia|].
    set (n := N.of_nat (List.length c)) in *. assert (Hn : (n <= 65535)%N) by lia.
    cbn [block_len app blocks0]. rewrite <- !app_assoc.
    replace (negb ((h / 2) mod 4 =? 0)%N) with false by lia.
    replace (negb (n mod 256 + 256 * (n / 256) + ((65535 - n) mod 256 + 256 * ((65535 - n) / 256)) =? 65535)%N)
      with false by lia.
    replace (N.to_nat (n mod 256 + 256 * (n / 256))) with (List.length c) by lia.
    unfold len. rewrite app_length.
    replace (Nat.ltb (List.length c + List.length (e ++ t)) (List.length c)) with false by lia.
    replace (h mod 2 =? 1)%N with false by lia.
    rewrite firstn_app_len, skipn_app_len by reflexivity.
    rewrite IH; [reflexivity|]. cbn [List.length block_len] in Hfuel. rewrite !app_length in Hfuel. cbn in Hfuel. lia.
Qed.

Lemma adler_fold_bound s : forall a b, (a < 65521)%N -> (b < 65521)%N ->
  let r := fold_left (fun ab x => let a' := ((fst ab + x) mod 65521)%N in (a', ((snd ab + a') mod 65521)%N)) s (a, b) in
  (fst r < 65521 /\ snd r < 65521)%N.
Proof.
  induction s as [|x s IH]; intros a b Ha Hb; cbn [fold_left].
  - split; assumption.
  - cbv zeta. cbn [fst snd]. apply IH; lia.
Qed.

Lemma adler32_bound s : (adler32 s < 4294967296)%N.
Proof.
  unfold adler32. pose proof (adler_fold_bound s 1 0 ltac:(lia) ltac:(lia)) as H. cbv zeta in H.
  destruct (fold_left _ s (1%N, 0%N)) as [a b]. cbn [fst snd] in H. lia.
Qed.

Theorem inflate0_ok p e t : zlib_stored p e -> inflate0 (e ++ t) = Some (p, t).
Proof.
  intros [cmf [flg [body [[H1 [H2 [H3 H4]]] [Hb ->]]]]].
  cbn [app inflate0].
  replace ((cmf mod 16 =? 8)%N && (cmf / 16 <=? 7)%N && ((cmf * 256 + flg) mod 31 =? 0)%N && ((flg / 32) mod 2 =? 0)%N)
    with true by lia.
  rewrite <- app_assoc.
  rewrite (blocks0_ok p body Hb); [|unfold len; rewrite !app_length; lia].
  pose proof (adler32_bound p) as HA. set (v := adler32 p) in *.
  cbn [be32 app]. replace (_ =? v)%N with true by lia. reflexivity.
Qed.

(* the hypothesis is satisfiable by non-trivial data: "hello" in two stored blocks, followed by an EOL *)
Example inflate0_instance :
  inflate0 ([120; 1; 0; 2; 0; 253; 255; 104; 101; 1; 3; 0; 252; 255; 108; 108; 111; 6; 44; 2; 21] ++ [10])%N
  = Some ([104; 101; 108; 108; 111]%N, [10]%N).
Proof. vm_compute. reflexivity. Qed.
