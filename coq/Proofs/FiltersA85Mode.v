(* Proofs/FiltersA85Mode.v — after Parsley's group check the vendored crate's u32 accumulation cannot
   overflow: ASCII85Decode behaves identically in debug and release builds on EVERY input. *)
From PV Require Import Model.A85 Spec.A85Enc Proofs.FiltersHex Proofs.FiltersA85.
From Coq Require Import ZifyBool ZifyNat ZifyN.
Ltac Zify.zify_post_hook ::= Z.div_mod_to_equations.

(* 85^(5-n) *)
Definition scale (n : nat) : N :=
  match n with O => 4437053125%N | 1%nat => 52200625%N | 2%nat => 614125%N | 3%nat => 7225%N | 4%nat => 85%N | _ => 1%N end.

Lemma pow85_scale n : n < 5 -> (pow85 n * 85 = scale n)%N.
Proof. intros H. do 5 (destruct n as [|n]; [reflexivity|]). lia. Qed.

(* a check that succeeds from inside a group bounds the value accumulated so far *)
Lemma check_bound s : forall n v d, 1 <= n < 5 -> a85_check n v s = Some d -> (v * scale n <= u32_max)%N.
Proof.
  induction s as [|c r IH]; intros n v d Hn H; cbn [a85_check] in H.
  - destruct n as [|[|[|[|[|n]]]]]; try lia; cbn [Nat.eqb Nat.ltb Nat.leb Nat.sub pad_value] in H; try discriminate;
      unfold u32_max in *; cbn [scale]; destruct (_ <? _)%N eqn:E; try discriminate; lia.
  - replace (Nat.eqb n 0) with false in H by (destruct n; [lia | reflexivity]).
    rewrite andb_false_r in H.
    destruct ((33 <=? c)%N && (c <=? 117)%N) eqn:R; [|discriminate]. cbv zeta in H.
    destruct n as [|[|[|[|[|n]]]]]; try lia.
    + change (Nat.modulo (1 + 1) 5) with 2 in H. cbn [Nat.eqb] in H.
      destruct (a85_check 2 _ r) eqn:E; [|discriminate]. apply IH in E; [|lia]. cbn [scale] in *. unfold u32_max in *. lia.
    + change (Nat.modulo (2 + 1) 5) with 3 in H. cbn [Nat.eqb] in H.
      destruct (a85_check 3 _ r) eqn:E; [|discriminate]. apply IH in E; [|lia]. cbn [scale] in *. unfold u32_max in *. lia.
    + change (Nat.modulo (3 + 1) 5) with 4 in H. cbn [Nat.eqb] in H.
      destruct (a85_check 4 _ r) eqn:E; [|discriminate]. apply IH in E; [|lia]. cbn [scale] in *. unfold u32_max in *. lia.
    + change (Nat.modulo (4 + 1) 5) with 0 in H. cbn [Nat.eqb] in H.
      destruct (_ <? _)%N eqn:E; [discriminate|]. cbn [scale]. unfold u32_max in *. lia.
Qed.

(* the crate's padding loop from a checked state *)
Lemma pad_indep n v chunk : 2 <= n < 5 -> chunk = (v * scale n)%N -> (pad_value (5 - n) v <= u32_max)%N ->
  a85_pad true (5 - n) n chunk = a85_pad false (5 - n) n chunk.
Proof.
  intros Hn -> HP. unfold u32_max in HP.
  destruct n as [|[|[|[|[|n]]]]]; try lia; cbn [Nat.sub pad_value scale] in *.
  all: repeat (rewrite pad_step by (unfold two32; cbn [pow85]; lia); cbn [pow85]); reflexivity.
Qed.

Lemma loop_indep s : forall n v d chunk,
  n < 5 -> (n = 0 -> chunk = 0%N /\ v = 0%N) -> (1 <= n -> chunk = (v * scale n)%N) ->
  a85_check n v s = Some d -> a85_loop true d n chunk = a85_loop false d n chunk.
Proof.
  induction s as [|c r IH]; intros n v d chunk Hn H0 H1 H; cbn [a85_check] in H.
  - (* end of input *)
    destruct n as [|[|n]].
    + cbn in H. inversion H. reflexivity.
    + cbn in H. discriminate.
    + cbn [Nat.eqb Nat.ltb Nat.leb] in H.
      destruct (_ <? _)%N eqn:E; [discriminate|]. inversion H; subst.
      cbn [a85_loop Nat.eqb].
      rewrite (pad_indep (S (S n)) v chunk); [reflexivity | lia | apply H1; lia | lia].
  - destruct ((c =? 122)%N && Nat.eqb n 0) eqn:Z.
    + (* aligned z: five `!` *)
      apply andb_true_iff in Z as [_ Zn]. apply Nat.eqb_eq in Zn. subst n. destruct (H0 eq_refl) as [-> ->].
      destruct (a85_check 0 0%N r) as [d'|] eqn:E; [|discriminate]. inversion H; subst.
      change (33 :: 33 :: 33 :: 33 :: 33 :: d')%N with ([33 + 0; 33 + 0; 33 + 0; 33 + 0; 33 + 0]%N ++ d').
      rewrite !loop_group by lia. f_equal. apply (IH 0 0%N d' 0%N); [lia | split; reflexivity | lia | exact E].
    + destruct ((33 <=? c)%N && (c <=? 117)%N) eqn:R; [|discriminate]. cbv zeta in H.
      assert (Hc : is_d85 c) by (unfold is_d85; lia).
      assert (Step : forall chunk', (chunk' = chunk + (c - 33) * pow85 n)%N -> (chunk' < two32)%N ->
                forall dbg r', a85_loop dbg (c :: r') n chunk =
                  if Nat.eqb n 4 then a85_cons (be4 chunk') (a85_loop dbg r' 0 0%N) else a85_loop dbg r' (S n) chunk').
      { intros chunk' -> Hlt dbg r'. apply loop_step; assumption. }
      destruct n as [|[|[|[|[|n]]]]]; try lia.
      * destruct (H0 eq_refl) as [-> ->]. change (Nat.modulo (0 + 1) 5) with 1 in H. cbn [Nat.eqb] in H.
        destruct (a85_check 1 _ r) as [d'|] eqn:E; [|discriminate]. inversion H; subst.
        pose proof (check_bound r 1 _ d' ltac:(lia) E) as B. cbn [scale] in B. unfold u32_max in B.
        rewrite !(Step ((c - 33) * 52200625)%N) by (unfold two32; cbn [pow85]; lia). cbn [Nat.eqb].
        refine (IH 1 _ d' _ _ _ _ E); [lia | lia | intros _; cbn [scale]; lia].
      * specialize (H1 ltac:(lia)). cbn [scale] in H1. change (Nat.modulo (1 + 1) 5) with 2 in H. cbn [Nat.eqb] in H.
        destruct (a85_check 2 _ r) as [d'|] eqn:E; [|discriminate]. inversion H; subst.
        pose proof (check_bound r 2 _ d' ltac:(lia) E) as B. cbn [scale] in B. unfold u32_max in B.
        rewrite !(Step (v * 52200625 + (c - 33) * 614125)%N) by (unfold two32; cbn [pow85]; lia). cbn [Nat.eqb].
        refine (IH 2 _ d' _ _ _ _ E); [lia | lia | intros _; cbn [scale]; lia].
      * specialize (H1 ltac:(lia)). cbn [scale] in H1. change (Nat.modulo (2 + 1) 5) with 3 in H. cbn [Nat.eqb] in H.
        destruct (a85_check 3 _ r) as [d'|] eqn:E; [|discriminate]. inversion H; subst.
        pose proof (check_bound r 3 _ d' ltac:(lia) E) as B. cbn [scale] in B. unfold u32_max in B.
        rewrite !(Step (v * 614125 + (c - 33) * 7225)%N) by (unfold two32; cbn [pow85]; lia). cbn [Nat.eqb].
        refine (IH 3 _ d' _ _ _ _ E); [lia | lia | intros _; cbn [scale]; lia].
      * specialize (H1 ltac:(lia)). cbn [scale] in H1. change (Nat.modulo (3 + 1) 5) with 4 in H. cbn [Nat.eqb] in H.
        destruct (a85_check 4 _ r) as [d'|] eqn:E; [|discriminate]. inversion H; subst.
        pose proof (check_bound r 4 _ d' ltac:(lia) E) as B. cbn [scale] in B. unfold u32_max in B.
        rewrite !(Step (v * 7225 + (c - 33) * 85)%N) by (unfold two32; cbn [pow85]; lia). cbn [Nat.eqb].
        refine (IH 4 _ d' _ _ _ _ E); [lia | lia | intros _; cbn [scale]; lia].
      * specialize (H1 ltac:(lia)). cbn [scale] in H1. change (Nat.modulo (4 + 1) 5) with 0 in H. cbn [Nat.eqb] in H.
        destruct (_ <? _)%N eqn:B; [discriminate|]. unfold u32_max in B.
        destruct (a85_check 0 0%N r) as [d'|] eqn:E; [|discriminate]. inversion H; subst.
        rewrite !(Step (v * 85 + (c - 33))%N) by (unfold two32; cbn [pow85]; lia). cbn [Nat.eqb].
        f_equal. apply (IH 0 0%N d'); [lia | split; reflexivity | lia | exact E].
Qed.

Theorem a85_profile_independent data : a85_decode true data = a85_decode false data.
Proof.
  unfold a85_decode. destruct (strip_eod (a85_stage data)) as [body|]; [|reflexivity].
  destruct (a85_check 0 0%N (strip_start_marker body)) as [d|] eqn:E; [|reflexivity].
  rewrite !(crate_decode_d85 _ d (check_d85 _ _ _ _ E)).
  rewrite (loop_indep (strip_start_marker body) 0 0%N d 0%N); [reflexivity | lia | split; reflexivity | lia | exact E].
Qed.

(* and the crate never panics or overflows there: the catch_unwind arm is dead after the check *)
