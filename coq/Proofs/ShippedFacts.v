(* Proofs/ShippedFacts.v — finite facts about the DUMPED specification gen/Shipped.v, all by
   computation; re-checked on every run against what catalog_type(&mut tctx) constructs now. *)
From PV Require Import Spec.PageTreeSpec gen.Shipped.

(* the dump, read back by the Coq readers of Model/TypeCheck.v, is the term the file defines
   (ties the python emitter of props/c10.py to the reader the C08/C09 cases go through) *)
Lemma shipped_root_read : read_chk_tok shipped_root_text = Some shipped_root.
Proof. vm_compute. reflexivity. Qed.
Lemma shipped_tctx_read : read_tctx shipped_tctx_text = Some shipped_tctx.
Proof. vm_compute. reflexivity. Qed.

(* the dumped specification IS the hand-written one of Spec/PageTreeSpec.v *)
Lemma shipped_root_is_spec : shipped_root = spec_catalog.
Proof. vm_compute. reflexivity. Qed.
Lemma shipped_tctx_is_spec : shipped_tctx = spec_tctx.
Proof. vm_compute. reflexivity. Qed.

Local Notation S_ := shipped_root.
Local Notation T_ := shipped_tctx.

(* ---- required / forbidden keys ---- *)
Lemma catalog_required : keys_with KReq (ents_at T_ [] S_) = [k_Type; k_Pages]
                         /\ keys_with KForb (ents_at T_ [] S_) = [].
Proof. vm_compute. auto. Qed.
Lemma root_node_keys : keys_with KReq (ents_at T_ p_root_node S_) = [k_Type; k_Count; k_Kids]
                       /\ keys_with KForb (ents_at T_ p_root_node S_) = [k_Parent]
                       /\ keys_with KOpt (ents_at T_ p_root_node S_) = [].
Proof. vm_compute. auto. Qed.
Lemma nonroot_node_keys : keys_with KReq (ents_at T_ p_nonroot S_) = [k_Type; k_Count; k_Kids; k_Parent]
                          /\ keys_with KForb (ents_at T_ p_nonroot S_) = [].
Proof. vm_compute. auto. Qed.
(* the recursion: inner nodes below an inner node are described by the same named check *)
Lemma nonroot_recursion :
  walk T_ (p_nonroot_kid ++ [SAlt 1]) S_ = Some (CNamed n_nonroot)
  /\ tctx_get T_ n_nonroot = rep_at T_ p_nonroot S_
  /\ List.map fst T_ = [n_nonroot].
Proof. vm_compute. auto. Qed.
Lemma page_keys : keys_with KReq (ents_at T_ p_page S_) = [k_Type; k_Parent]
                  /\ keys_with KForb (ents_at T_ p_page S_) = []
                  /\ keys_with KOpt (ents_at T_ p_page S_) = List.map fst page_table.
Proof. vm_compute. auto. Qed.
Lemma template_keys : keys_with KReq (ents_at T_ p_template S_) = [k_Type]
                      /\ keys_with KForb (ents_at T_ p_template S_) = [k_Parent]
                      /\ keys_with KOpt (ents_at T_ p_template S_) = List.map fst template_table.
Proof. vm_compute. auto. Qed.
(* below an inner node: page, inner node, template *)
Lemma nonroot_kid_alternatives :
  rep_at T_ (p_nonroot_kid ++ [SAlt 0]) S_ = rep_at T_ p_page S_
  /\ rep_at T_ (p_nonroot_kid ++ [SAlt 1]) S_ = rep_at T_ p_nonroot S_
  /\ rep_at T_ (p_nonroot_kid ++ [SAlt 2]) S_ = rep_at T_ p_template S_
  /\ walk T_ (p_nonroot_kid ++ [SAlt 3]) S_ = None /\ walk T_ (p_root_kid ++ [SAlt 3]) S_ = None.
Proof. vm_compute. auto 10. Qed.

(* ---- /Type names ---- *)
Lemma type_names :
  names_of (rep_at T_ [SKey k_Type] S_) = Some [B "Catalog"]
  /\ names_of (rep_at T_ (p_root_node ++ [SKey k_Type]) S_) = Some [B "Pages"]
  /\ names_of (rep_at T_ (p_nonroot ++ [SKey k_Type]) S_) = Some [B "Pages"]
  /\ names_of (rep_at T_ (p_page ++ [SKey k_Type]) S_) = Some [B "Page"]
  /\ names_of (rep_at T_ (p_template ++ [SKey k_Type]) S_) = Some [B "Template"].
Proof. vm_compute. auto 10. Qed.

(* ---- kids: an array of any length whose members must be indirect references ---- *)
Definition is_kid_array (r : option rep) : bool :=
  match r with
  | Some (TArr (CRep (TDisj _) None IReq) None, None, IAllowed) => true
  | _ => false
  end.
Lemma kids_indirect :
  is_kid_array (rep_at T_ (p_root_node ++ [SKey k_Kids]) S_) = true
  /\ is_kid_array (rep_at T_ (p_nonroot ++ [SKey k_Kids]) S_) = true.
Proof. vm_compute. auto. Qed.

(* ---- /Parent: any value, necessarily an indirect reference — wherever the key is mentioned ---- *)
Lemma parent_checks :
  forallb (fun p => match rep_at T_ (p ++ [SKey k_Parent]) S_ with
                    | Some (TAny, None, IReq) => true | _ => false end)
          [p_root_node; p_nonroot; p_page; p_template] = true.
Proof. vm_compute. reflexivity. Qed.

(* ---- rectangles: arrays of exactly four numbers (integer or real) ---- *)
Definition box_keys := [B "MediaBox"; B "CropBox"; B "BleedBox"; B "TrimBox"; B "ArtBox"].
Lemma rectangles :
  forallb (fun p => forallb (fun k => match walk T_ (p ++ [SKey k]) S_ with
                                      | Some c => chk_eqb c (chk_of_kind VRect) | None => false end) box_keys)
          [p_page; p_template] = true.
Proof. vm_compute. reflexivity. Qed.
Lemma rect_is_four_numbers :
  chk_of_kind VRect = CRep (TArr (CRep (TDisj [CRep (TPrim PInteger) None IAllowed; CRep (TPrim PReal) None IAllowed])
                                       None IAllowed) (Some 4)) None IAllowed.
Proof. reflexivity. Qed.

(* ---- the name lists are the ISO 32000 lists ---- *)
Definition same_names_at (p : list step) (l : list bytes) : bool :=
  match names_of (rep_at T_ p S_) with Some l' => same_names l' l | None => false end.
Lemma iso_name_lists :
  same_names_at [SKey (B "PageMode")] iso_pagemode = true
  /\ same_names_at [SKey (B "PageLayout")] iso_pagelayout = true
  /\ same_names_at (p_page ++ [SKey (B "Tabs")]) iso_tabs = true
  /\ same_names_at (p_template ++ [SKey (B "Tabs")]) iso_tabs = true.
Proof. vm_compute. auto. Qed.

(* ---- the opaque predicates: repaired date predicate (#0), name tree (#1), number tree on /Nums (#2) ---- *)
Definition pred_at (p : list step) : option (ty * option pred) :=
  match rep_at T_ p S_ with Some r => Some (r_ty r, r_pred r) | None => None end.
Lemma opaque_predicates :
  pred_at [SKey (B "PageLabels")] = Some (TAny, Some (PrOpaque 2))
  /\ forallb (fun k => match pred_at [SKey (B "Names"); SKey k] with
                       | Some (TAny, Some (PrOpaque 1%N)) => true | _ => false end) namedict_keys = true
  /\ pred_at (p_page ++ [SKey (B "LastModified")]) = Some (TPrim PString, Some (PrOpaque 0))
  /\ pred_at (p_template ++ [SKey (B "LastModified")]) = Some (TPrim PString, Some (PrOpaque 0)).
Proof. vm_compute. auto. Qed.
(* no predicate of the pinned (defective) kinds, and no other opaque number, occurs anywhere *)
Lemma no_pinned_predicates :
  forallb (fun c => match c with
                    | CRep _ (Some (PrOpaque i)) _ => N.leb i 2
                    | _ => true end) (spec_chks T_ S_) = true.
Proof. vm_compute. reflexivity. Qed.

(* ---- shape: no '*' entries, every name used is defined, the only recursion is through the name ---- *)
Lemma no_star_entries :
  forallb (fun c => match c with CRep (TDict _ (Some _)) _ _ => false | _ => true end) (spec_chks T_ S_) = true.
Proof. vm_compute. reflexivity. Qed.
Lemma names_defined :
  forallb (fun c => match c with
                    | CNamed n => match tctx_get T_ n with Some _ => true | None => false end
                    | _ => true end) (spec_chks T_ S_) = true.
Proof. vm_compute. reflexivity. Qed.

(* ---- every optional entry has the declared kind ---- *)
Definition table_matches (p : list step) (t : list (bytes * vkind)) : bool :=
  forallb (fun e => match walk T_ (p ++ [SKey (fst e)]) S_ with
                    | Some c => chk_eqb c (chk_of_kind (snd e)) | None => false end) t.
Lemma optional_entries :
  table_matches [] catalog_table = true /\ table_matches p_page page_table = true
  /\ table_matches p_template template_table = true.
Proof. vm_compute. auto. Qed.

(* [spec_chks] (depth 24) really lists every check of the dump: one more level adds nothing *)
Lemma spec_chks_saturated :
  len (all_chks 24 S_) = len (all_chks 25 S_)
  /\ forallb (fun e => Nat.eqb (len (all_chks 24 (rep_chk (snd e)))) (len (all_chks 25 (rep_chk (snd e))))) T_ = true.
Proof. vm_compute. auto. Qed.
