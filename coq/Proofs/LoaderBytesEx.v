(* Proofs/LoaderBytesEx.v — C03b: the hypotheses of the end-to-end theorem are satisfiable: a two-object
   document (a name; a stream with a direct /Length) in a classic layout, its rendering, and what the loader
   model computes from those bytes. *)
From PV Require Import Model.Obj Model.XrefTab Model.Loader Model.LoaderBytes Spec.Spelling Spec.XrefEnc Spec.RenderClassic.
From PV Require Import Proofs.XrefBase Proofs.ObjStream Proofs.ObjSpell Proofs.ObjC02
     Proofs.LoaderBytesBase Proofs.LoaderBytesObj Proofs.LoaderBytesSect Proofs.LoaderBytesMain.
From Coq Require Import Lia.
Close Scope N_scope.

Definition ex_doc : cdoc :=
  mk_cdoc [((1, 0)%N, OName (B "Catalog")); ((2, 0)%N, OStream [(B "Length", OInt 3)] (B "abc"))] (1, 0)%N.

Definition ex_layout : layout :=
  mk_layout [] (B "1.4" ++ [10%N])
    [mk_lobj 1 1 (B " ") (B " ") (B " ") (B "/Catalog") [10%N] [] [] [] [10%N];
     mk_lobj 2 1 (B " ") (B " ") [10%N] (B "<</Length 3>>") [10%N] [10%N] [10%N] [10%N] (B "% anything" ++ [10%N])]
    [] [10%N]
    [mk_tsub [] 0 1 1 [10%N] [mk_tent 0 65535 false [32; 10]%N; mk_tent 0 0 true [32; 10]%N];
     mk_tsub [] 2 1 1 [10%N] [mk_tent 0 0 true [13; 10]%N]]
    [10%N] (B "<</Root 1 0 R>>") [10%N]
    [10%N] 3 [10%N] [10%N].

(* the file:  %PDF-1.4 / 1 0 obj /Catalog endobj / 02 0 obj <</Length 3>> stream abc endstream endobj % anything /
   xref / 0 2 / 0000000000 65535 f / 0000000009 00000 n / 2 1 / 0000000033 00000 n / trailer <</Root 1 0 R>> /
   startxref 094 %%EOF *)
Example ex_bytes :
  render_classic (d_objs ex_doc) ex_layout =
  B "%PDF-1.4" ++ [10%N] ++ B "1 0 obj /Catalog" ++ [10%N] ++ B "endobj" ++ [10%N] ++
  B "02 0 obj" ++ [10%N] ++ B "<</Length 3>>" ++ [10%N] ++ B "stream" ++ [10%N] ++ B "abc" ++ [10%N] ++ B "endstream" ++ [10%N] ++
  B "endobj% anything" ++ [10%N] ++
  B "xref" ++ [10%N] ++ B "0 2" ++ [10%N] ++ B "0000000000 65535 f " ++ [10%N] ++ B "0000000009 00000 n " ++ [10%N] ++
  B "2 1" ++ [10%N] ++ B "0000000033 00000 n" ++ [13; 10]%N ++
  B "trailer" ++ [10%N] ++ B "<</Root 1 0 R>>" ++ [10%N] ++ B "startxref" ++ [10%N] ++ B "094" ++ [10%N] ++ B "%%EOF" ++ [10%N].
Proof. vm_compute. reflexivity. Qed.

Lemma ex_name_raw enc : Forall (fun b => memb b name_stops = false /\ b <> 35%N) enc -> name_enc enc enc.
Proof.
  induction 1 as [|b enc [H1 H2] _ IH]; [constructor|]. apply ne_raw; [exact H1|intros [E _]; contradiction|exact IH].
Qed.

Lemma ex_nat1 : spells_nat 1 (B "1").
Proof. apply (sp_nat false [] [49%N]); [constructor|discriminate|repeat constructor|vm_compute; discriminate|discriminate]. Qed.
Lemma ex_nat0 : spells_nat 0 (B "0").
Proof. apply (sp_nat false [] [48%N]); [constructor|discriminate|repeat constructor|vm_compute; discriminate|discriminate]. Qed.

Lemma ex_sp_catalog : spells' 50 (OName (B "Catalog")) (B "/Catalog").
Proof. apply (sp_name _ 49 (B "Catalog") (B "Catalog")). apply ex_name_raw. repeat constructor; discriminate. Qed.

Lemma ex_sp_length : spells' 50 (ODict [(B "Length", OInt 3)]) (B "<</Length 3>>").
Proof.
  apply (sp_dict _ 49 [(B "Length", OInt 3)] (B "/Length 3")); [|reflexivity].
  apply (entries_cons _ 49 [] (B "Length") (B "Length") (B " ") (OInt 3) (B "3") [] []).
  - constructor.
  - apply ex_name_raw. repeat constructor; discriminate.
  - repeat constructor.
  - discriminate.
  - apply sp_number. apply (sp_int false [] [51%N]); [constructor|discriminate|repeat constructor|vm_compute; split; discriminate].
  - repeat constructor.
  - intros outer. split; [reflexivity|]. apply int_follow_ws_stop. split; [reflexivity|discriminate].
Qed.

Lemma ex_sp_trailer : spells' 51 (ODict [(B "Root", ORef 1 0)]) (B "<</Root 1 0 R>>").
Proof.
  apply (sp_dict _ 50 [(B "Root", ORef 1 0)] (B "/Root 1 0 R")); [|reflexivity].
  apply (entries_cons _ 50 [] (B "Root") (B "Root") (B " ") (ORef 1 0) (B "1 0 R") [] []).
  - constructor.
  - apply ex_name_raw. repeat constructor; discriminate.
  - repeat constructor.
  - discriminate.
  - apply (sp_ref _ 49 1 0 (B "1") (B " ") (B "0") (B " ")); [exact ex_nat1|repeat constructor|discriminate|exact ex_nat0|repeat constructor|discriminate].
  - repeat constructor.
  - intros outer. reflexivity.
Qed.

Lemma ex_wf_doc : wf_doc ex_doc.
Proof. unfold wf_doc. cbn. repeat constructor; cbn; intuition discriminate. Qed.

Ltac ex_ws := repeat (apply ws_byte; [reflexivity|]); apply ws_nil.

Lemma ex_wf_layout : wf_layout ex_doc ex_layout.
Proof.
  constructor.
  - vm_compute. reflexivity.
  - reflexivity.
  - cbn [d_objs ex_doc l_objs ex_layout combine]. repeat apply Forall_cons; [| |apply Forall_nil].
    + unfold wf_obj, wf_obj_k. cbn [fst snd lo_nw lo_gw lo_w1 lo_w2 lo_w3 lo_w4 lo_sp].
      repeat split; try exact ex_sp_catalog; try lia; try (vm_compute; reflexivity); try discriminate; try ex_ws.
      left. discriminate.
    + unfold wf_obj, wf_obj_k. cbn [fst snd lo_nw lo_gw lo_w1 lo_w2 lo_w3 lo_w4 lo_w5 lo_sp lo_eol1 lo_eol2].
      repeat split; try exact ex_sp_length; try lia; try (vm_compute; reflexivity); try discriminate; try ex_ws.
      * left. reflexivity.
      * right. right. left. reflexivity.
  - assert (We : forall i g u t, (i < 100)%N -> (g <= 65535)%N -> In t xref_eols -> wf_ent (mk_tent i g u t)).
    { intros i g u t Hi Hg Ht. unfold wf_ent. cbn. split; [lia|]. split; [unfold xref_gen_max; lia|exact Ht]. }
    cbn [ex_layout l_xpre l_xeol l_table].
    unfold wf_sect, wf_subs, wf_sub, all_in. cbn -[wf_ent].
    repeat split; try discriminate; try lia; try (repeat constructor; fail); auto;
      repeat apply Forall_cons; try apply Forall_nil; apply We; try lia; cbn; tauto.
  - vm_compute. reflexivity.
  - vm_compute. repeat constructor; cbn; intuition discriminate.
  - intros e Hin U. vm_compute in Hin. destruct Hin as [<-|[<-|[<-|[]]]]; vm_compute in U; try discriminate; cbn; tauto.
  - intros id Hin. cbn in Hin. destruct Hin as [<-|[<-|[]]].
    + exists (mk_xent 1 0 (XrefTab.XInUse 0)). split; [vm_compute; tauto|]. split; reflexivity.
    + exists (mk_xent 2 0 (XrefTab.XInUse 0)). split; [vm_compute; tauto|]. split; reflexivity.
  - split; [repeat constructor|]. split; [vm_compute; reflexivity|].
    exists [(B "Root", ORef 1 0)]. split; [exact ex_sp_trailer|]. repeat split; reflexivity.
  - split; [repeat constructor|discriminate].
  - split; [cbn; lia|]. split; vm_compute; reflexivity.
  - repeat constructor.
  - repeat constructor; discriminate.
Qed.

(* what the end-to-end theorem says about this file, and the same computed *)
Example ex_loaded :
  exists c, load_bytes false (render_classic (d_objs ex_doc) ex_layout) = Loaded c (1, 0)%N /\
            ctx_get c (1, 0)%N = Some (VObj (OName (B "Catalog"))) /\
            ctx_get c (2, 0)%N = Some (VObj (OStream [(B "Length", OInt 3)] (B "abc"))) /\
            ctx_get c (3, 0)%N = None.
Proof.
  destruct (load_bytes_classic false ex_doc ex_layout ex_wf_doc ex_wf_layout) as (c & L & K).
  exists c. split; [exact L|]. rewrite !K. repeat split.
Qed.

Example ex_computed :
  load_bytes false (render_classic (d_objs ex_doc) ex_layout) =
  Loaded [((1, 0)%N, VObj (OName (B "Catalog"))); ((2, 0)%N, VObj (OStream [(B "Length", OInt 3)] (B "abc")))] (1, 0)%N.
Proof. vm_compute. reflexivity. Qed.
