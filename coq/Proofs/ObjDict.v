(* Proofs/ObjDict.v — C02, structure of the compound parsers (relative to the token parsers):
   - the element loops of ArrayP / DictP, as big-step chains of the verdicts of their parts
     (completeness: a chain gives the value; used by the spelling theorems);
   - a dictionary that is returned never has an entry whose value is null, at any depth;
   - a key that is already bound to a non-null value is rejected;
   - parse_pdf_obj never returns a Comment object (comments are whitespace). *)
From PV Require Import Model.Obj Proofs.PrimBase Proofs.PrimTok Proofs.PrimWs Proofs.ObjDepth.
From Coq Require Import Lia.

(* the number / reference arm returns an integer, a real or a reference *)
Definition is_num_or_ref (o : obj) : Prop := match o with OInt _ | OReal _ _ | ORef _ _ => True | _ => False end.

Lemma reference_kind s c o c' : reference s c = POk o c' -> is_num_or_ref o.
Proof.
  unfold reference. intros H.
  apply bind_ok in H as (num & c1 & _ & H).
  destruct (negb _); [unfold setc in H; destruct (Nat.leb c (len s)); discriminate|].
  apply bind_ok in H as (u & c2 & _ & H).
  apply bind_ok in H as (gen & c3 & _ & H).
  destruct (negb _); [unfold setc in H; destruct (Nat.leb c2 (len s)); discriminate|].
  apply bind_ok in H as (u' & c4 & _ & H).
  destruct (exact kw_R s c4); [|discriminate].
  destruct (usize_N (lv_val num)); [|discriminate].
  destruct (usize_N (lv_val gen)); [|discriminate].
  injection H as <- _. exact I.
Qed.

Lemma number_or_ref_kind s c o c' : number_or_ref s c = POk o c' -> is_num_or_ref o.
Proof.
  unfold number_or_ref. intros H.
  apply bind_ok in H as (r & c1 & _ & H).
  destruct (negb _); [injection H as <- _; exact I|].
  destruct (real_numerator (lv_val r)) as [n1|]; [|discriminate].
  assert (B : forall x, setc s c1 (fun c'0 => POk (OInt n1) c'0) = POk o x -> is_num_or_ref o).
  { unfold setc. intros x Hx. destruct (Nat.leb c1 (len s)); [|discriminate]. injection Hx as <- _. exact I. }
  destruct (ws_eol false s c1) as [u c2| | |]; try discriminate; [|eapply B, H].
  destruct (integer s c2) as [i c3| | |]; try discriminate; [|eapply B, H].
  destruct (ws_eol false s c3) as [u' c4| | |]; try discriminate; [|eapply B, H].
  destruct (check_prefix kw_R s c4); [|eapply B, H].
  unfold setc in H. destruct (Nat.leb c (len s)); [|discriminate].
  eapply reference_kind, H.
Qed.

(* ------------------------------------------------------------------ no null entries *)
Fixpoint no_null (o : obj) : Prop :=
  match o with
  | OArr l => fold_right (fun x P => no_null x /\ P) True l
  | ODict d => fold_right (fun kv P => (snd kv <> ONull /\ no_null (snd kv)) /\ P) True d
  | OStream d _ => fold_right (fun kv P => (snd kv <> ONull /\ no_null (snd kv)) /\ P) True d
  | _ => True
  end.

Definition entry_ok (kv : bytes * obj) : Prop := snd kv <> ONull /\ no_null (snd kv).

Lemma no_null_arr l : no_null (OArr l) <-> Forall no_null l.
Proof. cbn [no_null]. induction l; cbn; split; intros H; try constructor; try tauto; inversion H; subst; tauto. Qed.

Lemma no_null_dict d : no_null (ODict d) <-> Forall entry_ok d.
Proof.
  cbn [no_null]. induction d as [|kv d IH]; cbn [fold_right]; split; intros H.
  - constructor.
  - exact I.
  - destruct H as [H1 H2]. constructor; [exact H1|apply IH, H2].
  - inversion H; subst. split; [assumption|apply IH; assumption].
Qed.

Section NoNull.
  Variable rel : bool.
  Variable rec : bytes -> nat -> pres (lv obj).
  Hypothesis Hrec : forall s c o c', rec s c = POk o c' -> no_null (lv_val o).

  Lemma array_loop_no_null fuel : forall s c objs l c',
    Forall no_null objs -> array_loop rec fuel s c objs = POk l c' -> Forall no_null l.
  Proof.
    induction fuel as [|f IH]; intros s c objs l c' Ho H; cbn [array_loop] in H; [discriminate|].
    apply bind_ok in H as (u & c1 & _ & H).
    destruct (exact kw_rbrack s c1).
    - injection H as <- _. exact Ho.
    - apply bind_ok in H as (o & c2 & Er & H). eapply IH; [|exact H].
      apply Forall_app; split; [exact Ho|]. constructor; [eapply Hrec, Er|constructor].
  Qed.

  Lemma dict_loop_no_null fuel : forall s c map names l c',
    Forall entry_ok map -> dict_loop rec fuel s c map names = POk l c' -> Forall entry_ok l.
  Proof.
    induction fuel as [|f IH]; intros s c map names l c' Hm H; cbn [dict_loop] in H; [discriminate|].
    apply bind_ok in H as (u & c1 & _ & H).
    destruct (exact kw_rdict s c1).
    - injection H as <- _. exact Hm.
    - apply bind_ok in H as (nm & c2 & _ & H).
      destruct (existsb _ names); [discriminate|].
      apply bind_ok in H as (u' & c3 & _ & H).
      apply bind_ok in H as (o & c4 & Er & H).
      apply Hrec in Er.
      destruct (lv_val o) eqn:Eo;
        try (eapply IH; [|exact H]; apply dict_insert_Forall; [split; [discriminate|exact Er]|exact Hm]).
      eapply IH; [exact Hm|exact H].
  Qed.

  Lemma parse_internal_no_null s c o c' : parse_internal rel rec s c = POk o c' -> no_null o.
  Proof.
    unfold parse_internal. intros H.
    destruct (peek s c) as [b|]; [|discriminate].
    destruct (_ || _)%bool. { apply bind_ok in H as (? & ? & _ & H). injection H as <- _. exact I. }
    destruct (N.eqb b 110). { apply bind_ok in H as (? & ? & _ & H). injection H as <- _. exact I. }
    destruct (N.eqb b 40). { apply bind_ok in H as (? & ? & _ & H). injection H as <- _. exact I. }
    destruct (N.eqb b 37). { apply bind_ok in H as (? & ? & _ & H). injection H as <- _. exact I. }
    destruct (N.eqb b 47). { apply bind_ok in H as (? & ? & _ & H). injection H as <- _. exact I. }
    destruct (N.eqb b 91).
    { unfold array_p in H. destruct (exact kw_lbrack s c); [|discriminate].
      apply bind_ok in H as (l & c2 & El & H). injection H as <- _.
      apply no_null_arr. eapply array_loop_no_null; [constructor|exact El]. }
    destruct (N.eqb b 60).
    { unfold incr, setc in H. destruct (Nat.ltb c (len s)); [|discriminate].
      destruct (Nat.leb c (len s)); [|discriminate].
      assert (Hx : bind (hexstring s c) (fun v c2 => POk (OStr (lv_val v)) c2) = POk o c' -> no_null o).
      { intros Hh. apply bind_ok in Hh as (? & ? & _ & Hh). injection Hh as <- _. exact I. }
      destruct (peek s (S c)) as [x|]; [|exact (Hx H)].
      destruct x as [|p]; [exact (Hx H)|].
      do 6 (destruct p; try exact (Hx H)).
      unfold dict_p in H. destruct (exact kw_ldict s c); [|discriminate].
      apply bind_ok in H as (l & c2 & El & H). injection H as <- _.
      apply no_null_dict. eapply dict_loop_no_null; [constructor|exact El]. }
    destruct (_ && _)%bool; [discriminate|].
    apply number_or_ref_kind in H. destruct o; try exact I; contradiction.
  Qed.
End NoNull.

Theorem parse_obj_no_null rel : forall b s c o a e c', parse_obj rel b s c = POk (o, a, e) c' -> no_null o.
Proof.
  intros b. assert (G : forall s c o c', parse_obj rel b s c = POk o c' -> no_null (lv_val o)).
  { induction b as [|b IH]; intros s c o c' H; cbn [parse_obj] in H; [discriminate|].
    unfold pdfobj_p in H. apply bind_ok in H as (u & st & _ & H).
    apply bind_ok in H as (v & e & Ev & H). injection H as <- _.
    eapply parse_internal_no_null; [exact IH|exact Ev]. }
  intros s c o a e c' H. exact (G _ _ _ _ H).
Qed.

(* a dictionary returned by parse_pdf_obj has no null-valued entry (the statement of the property text) *)
Corollary dict_no_null rel b s c d a e c' :
  parse_obj rel b s c = POk (ODict d, a, e) c' -> Forall (fun kv => snd kv <> ONull) d.
Proof.
  intros H. apply parse_obj_no_null, no_null_dict in H.
  eapply Forall_impl; [|exact H]. intros kv [Hn _]. exact Hn.
Qed.

(* ------------------------------------------------------------------ no Comment objects *)
Lemma ws_eol_loop_not_comment f : forall s c e b c', ws_eol_loop f s c e = POk b c' -> peek_is s c' 37 = false.
Proof.
  induction f as [|f IH]; intros s c e b c' H; cbn [ws_eol_loop] in H; [discriminate|].
  destruct (peek_is s (c + allowed ws_eol_set s c) 37) eqn:E.
  - destruct (comment s _) as [v c2| | |]; try discriminate. eapply IH, H.
  - injection H as _ <-. exact E.
Qed.

Lemma ws_eol_not_comment e s c u c' : ws_eol e s c = POk u c' -> peek_is s c' 37 = false.
Proof.
  unfold ws_eol. intros H. destruct (ws_eol_loop _ s c true) as [b c1| | |] eqn:El; try discriminate.
  destruct (b && negb e)%bool; [discriminate|]. injection H as _ <-. eapply ws_eol_loop_not_comment, El.
Qed.

Theorem parse_obj_no_comment rel b s c x a e c' : parse_obj rel b s c = POk (OComment x, a, e) c' -> False.
Proof.
  destruct b as [|b]; cbn [parse_obj]; [discriminate|]. unfold pdfobj_p. intros H.
  apply bind_ok in H as (u & st & Ew & H). apply bind_ok in H as (v & e' & Ev & H). injection H as -> _ _ _.
  apply ws_eol_not_comment in Ew. unfold peek_is in Ew.
  unfold parse_internal in Ev. destruct (peek s st) as [y|]; [|discriminate].
  destruct (_ || _)%bool. { apply bind_ok in Ev as (? & ? & _ & Ev). discriminate. }
  destruct (N.eqb y 110). { apply bind_ok in Ev as (? & ? & _ & Ev). discriminate. }
  destruct (N.eqb y 40). { apply bind_ok in Ev as (? & ? & _ & Ev). discriminate. }
  destruct (N.eqb y 37); [discriminate|].
  destruct (N.eqb y 47). { apply bind_ok in Ev as (? & ? & _ & Ev). discriminate. }
  destruct (N.eqb y 91). { unfold array_p in Ev. destruct (exact _ _ _); [|discriminate]. apply bind_ok in Ev as (? & ? & _ & Ev). discriminate. }
  destruct (N.eqb y 60).
  { unfold incr, setc in Ev. destruct (Nat.ltb st (len s)); [|discriminate]. destruct (Nat.leb st (len s)); [|discriminate].
    assert (Hx : bind (hexstring s st) (fun v c2 => POk (OStr (lv_val v)) c2) = POk (OComment x) e' -> False).
    { intros Hh. apply bind_ok in Hh as (? & ? & _ & Hh). discriminate. }
    destruct (peek s (S st)) as [z|]; [|exact (Hx Ev)].
    destruct z as [|p]; [exact (Hx Ev)|]. do 6 (destruct p; try exact (Hx Ev)).
    unfold dict_p in Ev. destruct (exact _ _ _); [|discriminate]. apply bind_ok in Ev as (? & ? & _ & Ev). discriminate. }
  destruct (_ && _)%bool; [discriminate|].
  apply number_or_ref_kind in Ev. exact Ev.
Qed.

(* ------------------------------------------------------------------ the loops as chains *)
Lemma ws_eol_bounds e s c u c1 : c <= len s -> ws_eol e s c = POk u c1 -> c <= c1 /\ c1 <= len s.
Proof. intros Hc H. destruct u as [[x a] b]. destruct (ws_eol_span e s c x a b c1 Hc H) as (_ & <- & ? & ? & _). lia. Qed.

Lemma name_bounds s c k c2 : c <= len s -> name s c = POk k c2 -> c < c2 /\ c2 <= len s.
Proof.
  intros Hc H. destruct k as [[x a] b]. destruct (name_span s c x a b c2 Hc H) as (_ & <- & ? & ? & _).
  split; [|assumption]. unfold name in H. destruct (peek_is s c 47) eqn:E; cbn [negb] in H; [|discriminate].
  rewrite (incr_peek _ _ _ _ E) in H. destruct (name_decode _); [|unfold setc in H; destruct (Nat.leb c (len s)); discriminate].
  injection H as _ _ <- _. lia.
Qed.

Lemma exact_bounds tag s c e : tag <> [] -> c <= len s -> exact tag s c = Some e -> c < e /\ e <= len s.
Proof.
  intros Ht Hc H. destruct (exact_some _ _ _ _ H) as [-> L]. split; [|apply L, Hc].
  destruct tag; [contradiction|]. unfold len. cbn. lia.
Qed.

Lemma rbrack_ne : kw_rbrack <> []. Proof. intro X. discriminate X. Qed.
Lemma rdict_ne : kw_rdict <> []. Proof. intro X. discriminate X. Qed.

Section Chains.
  Variable rec : bytes -> nat -> pres (lv obj).

  (* [arr_chain s c l c']: from cursor c (just behind '[' or an element) the elements l follow,
     each after optional whitespace, then optional whitespace and ']' ending at c' *)
  Inductive arr_chain (s : bytes) : nat -> list obj -> nat -> Prop :=
  | arr_end c u c1 c' : ws_eol true s c = POk u c1 -> exact kw_rbrack s c1 = Some c' -> arr_chain s c [] c'
  | arr_elem c u c1 o c2 l c' :
      ws_eol true s c = POk u c1 -> exact kw_rbrack s c1 = None ->
      rec s c1 = POk o c2 -> c1 < c2 <= len s -> arr_chain s c2 l c' ->
      arr_chain s c (lv_val o :: l) c'.

  Lemma array_loop_chain s c l c' :
    arr_chain s c l c' -> c <= len s ->
    c < c' /\ c' <= len s /\ forall fuel objs, c' - c <= fuel -> array_loop rec fuel s c objs = POk (objs ++ l) c'.
  Proof.
    induction 1 as [c u c1 c' Hw He|c u c1 o c2 l c' Hw He Hr Hp _ IH]; intros Hc;
      destruct (ws_eol_bounds _ _ _ _ _ Hc Hw) as [L1 L2].
    - destruct (exact_bounds _ _ _ _ rbrack_ne L2 He) as [L3 L4].
      split; [lia|]. split; [assumption|]. intros [|f] objs Hf; [lia|]. cbn [array_loop].
      rewrite Hw. cbn [bind]. rewrite He, app_nil_r. reflexivity.
    - destruct (IH ltac:(lia)) as (L3 & L4 & IH').
      split; [lia|]. split; [assumption|]. intros [|f] objs Hf; [lia|]. cbn [array_loop].
      rewrite Hw. cbn [bind]. rewrite He, Hr. cbn [bind].
      rewrite IH' by lia. rewrite <- app_assoc. reflexivity.
  Qed.

  Theorem array_p_chain s c l c' :
    peek s c = Some 91%N -> arr_chain s (S c) l c' -> array_p rec s c = POk (OArr l) c'.
  Proof.
    intros Hp Hc. unfold array_p. rewrite (exact_peek1 _ _ _ Hp : exact kw_lbrack s c = Some (S c)).
    pose proof (peek_Some_lt _ _ _ Hp) as Lt.
    destruct (array_loop_chain _ _ _ _ Hc ltac:(lia)) as (_ & L & H).
    rewrite H by lia. reflexivity.
  Qed.

  (* dictionaries: [dict_chain s c map names map' c'] — starting in loop state (map, names) *)
  Inductive dict_chain (s : bytes) : nat -> list (bytes * obj) -> list bytes -> list (bytes * obj) -> nat -> Prop :=
  | dict_end c u c1 c' map names :
      ws_eol true s c = POk u c1 -> exact kw_rdict s c1 = Some c' -> dict_chain s c map names map c'
  | dict_entry c u c1 k c2 u' c3 o c4 map names map' c' :
      ws_eol true s c = POk u c1 -> exact kw_rdict s c1 = None ->
      name s c1 = POk k c2 -> existsb (bytes_eqb (lv_val k)) names = false ->
      ws_eol true s c2 = POk u' c3 -> rec s c3 = POk o c4 -> c3 <= c4 <= len s -> lv_val o <> ONull ->
      dict_chain s c4 (fst (dict_insert (lv_val k) (lv_val o) map)) (lv_val k :: names) map' c' ->
      dict_chain s c map names map' c'
  | dict_null_entry c u c1 k c2 u' c3 o c4 map names map' c' :
      ws_eol true s c = POk u c1 -> exact kw_rdict s c1 = None ->
      name s c1 = POk k c2 -> existsb (bytes_eqb (lv_val k)) names = false ->
      ws_eol true s c2 = POk u' c3 -> rec s c3 = POk o c4 -> c3 <= c4 <= len s -> lv_val o = ONull ->
      dict_chain s c4 map names map' c' ->
      dict_chain s c map names map' c'.

  Lemma dict_loop_chain s c map names map' c' :
    dict_chain s c map names map' c' -> c <= len s ->
    c < c' /\ c' <= len s /\ forall fuel, c' - c <= fuel -> dict_loop rec fuel s c map names = POk map' c'.
  Proof.
    induction 1 as [c u c1 c' map names Hw He
                   |c u c1 k c2 u' c3 o c4 map names map' c' Hw He Hn Hx Hw' Hr Hp Ho _ IH
                   |c u c1 k c2 u' c3 o c4 map names map' c' Hw He Hn Hx Hw' Hr Hp Ho _ IH]; intros Hc;
      destruct (ws_eol_bounds _ _ _ _ _ Hc Hw) as [L1 L2].
    - destruct (exact_bounds _ _ _ _ rdict_ne L2 He) as [L3 L4].
      split; [lia|]. split; [assumption|]. intros [|f] Hf; [lia|]. cbn [dict_loop].
      rewrite Hw. cbn [bind]. rewrite He. reflexivity.
    - destruct (name_bounds _ _ _ _ L2 Hn) as [L3 L4].
      destruct (ws_eol_bounds _ _ _ _ _ L4 Hw') as [L5 L6].
      destruct (IH ltac:(lia)) as (L7 & L8 & IH').
      split; [lia|]. split; [assumption|]. intros [|f] Hf; [lia|]. cbn [dict_loop].
      rewrite Hw. cbn [bind]. rewrite He, Hn. cbn [bind]. rewrite Hx, Hw'. cbn [bind]. rewrite Hr. cbn [bind].
      destruct (lv_val o) eqn:Eo; try (apply IH'; lia). contradiction.
    - destruct (name_bounds _ _ _ _ L2 Hn) as [L3 L4].
      destruct (ws_eol_bounds _ _ _ _ _ L4 Hw') as [L5 L6].
      destruct (IH ltac:(lia)) as (L7 & L8 & IH').
      split; [lia|]. split; [assumption|]. intros [|f] Hf; [lia|]. cbn [dict_loop].
      rewrite Hw. cbn [bind]. rewrite He, Hn. cbn [bind]. rewrite Hx, Hw'. cbn [bind]. rewrite Hr. cbn [bind].
      rewrite Ho. apply IH'. lia.
  Qed.

  Theorem dict_p_chain s c map c' :
    peek s c = Some 60%N -> peek s (S c) = Some 60%N -> dict_chain s (S (S c)) [] [] map c' ->
    dict_p rec s c = POk (ODict map) c'.
  Proof.
    intros Hp1 Hp2 Hc. unfold dict_p. rewrite (exact_peek2 _ _ _ _ Hp1 Hp2 : exact kw_ldict s c = Some (S (S c))).
    pose proof (peek_Some_lt _ _ _ Hp2) as Lt.
    destruct (dict_loop_chain _ _ _ _ _ _ Hc ltac:(lia)) as (_ & L & H).
    rewrite H by lia. reflexivity.
  Qed.

  (* the duplicate check: a key already bound to a non-null value is rejected, wherever it re-appears
     (whatever its spelling: the comparison is on the decoded name) *)
  Theorem dict_dup_rejected fuel s c map names u c1 k c2 :
    ws_eol true s c = POk u c1 -> exact kw_rdict s c1 = None ->
    name s c1 = POk k c2 -> In (lv_val k) names ->
    dict_loop rec (S fuel) s c map names = PErr EGuard c2.
  Proof.
    intros Hw He Hn Hin. cbn [dict_loop]. rewrite Hw. cbn [bind]. rewrite He, Hn. cbn [bind].
    replace (existsb (bytes_eqb (lv_val k)) names) with true; [reflexivity|].
    symmetry. apply existsb_exists. exists (lv_val k). split; [exact Hin|]. apply bytes_eqb_eq. reflexivity.
  Qed.
End Chains.

(* … and the error of the loop is the error of parse_pdf_obj on the dictionary, at any depth:
   "<<" /K v … /K  — the second /K (in any spelling of the same name) is rejected *)
Theorem dup_key_rejected rel b s c u0 c0 u1 c1 k1 c2 u2 c3 o c4 u3 c5 k2 c6 :
  ws_eol true s c = POk u0 c0 ->
  peek s c0 = Some 60%N -> peek s (S c0) = Some 60%N ->            (* "<<" *)
  ws_eol true s (S (S c0)) = POk u1 c1 -> exact kw_rdict s c1 = None ->
  name s c1 = POk k1 c2 ->                                          (* first key *)
  ws_eol true s c2 = POk u2 c3 ->
  parse_obj rel b s c3 = POk o c4 -> lv_val o <> ONull ->           (* its non-null value *)
  ws_eol true s c4 = POk u3 c5 -> exact kw_rdict s c5 = None ->
  name s c5 = POk k2 c6 -> lv_val k2 = lv_val k1 ->                 (* the same name again *)
  parse_obj rel (S b) s c = PErr EGuard c6.
Proof.
  intros Hw0 Hp1 Hp2 Hw1 He1 Hn1 Hw2 Hr Ho Hw3 He2 Hn2 Hk.
  cbn [parse_obj]. unfold pdfobj_p. rewrite Hw0. cbn [bind].
  unfold parse_internal. rewrite Hp1. cbn.
  pose proof (peek_Some_lt _ _ _ Hp1) as Lt.
  rewrite incr_ok, setc_ok by lia. rewrite Hp2.
  unfold dict_p. rewrite (exact_peek2 _ _ _ _ Hp1 Hp2 : exact kw_ldict s c0 = Some (S (S c0))).
  cbn [dict_loop]. rewrite Hw1. cbn [bind]. rewrite He1, Hn1. cbn [bind existsb]. rewrite Hw2. cbn [bind].
  rewrite Hr. cbn [bind].
  assert (Hl : exists f, len s = S f).
  { destruct (len s) eqn:E; [lia|eauto]. }
  destruct Hl as (f & ->).
  destruct (lv_val o) eqn:Eo; try contradiction;
    (erewrite dict_dup_rejected; [reflexivity|exact Hw3|exact He2|exact Hn2|rewrite Hk; left; reflexivity]).
Qed.
