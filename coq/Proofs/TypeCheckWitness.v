(* Proofs/TypeCheckWitness.v — concrete refutations of "check = Accept <-> conforms" on the
   faithful model, each by computation on a witness. *)
From PV Require Import Spec.Conforms.

Definition ck (oc : octx) (tc : tctx) (o : obj) (c : chk) : outcome := fst (check opq_default oc tc o c).
Definition cf (oc : octx) (tc : tctx) (o : obj) (c : chk) : Prop := conforms opq_default oc tc o c.

(* the full statement of C08 *)
Definition C08_statement : Prop :=
  forall oc tc o c, wf_spec tc c = true -> (ck oc tc o c = Accept <-> cf oc tc o c).

(* shape of a refutation: a well-formed specification and an object on which the checker and the
   declarative reading differ *)
Definition accepts_nonconforming (oc : octx) (tc : tctx) (o : obj) (c : chk) : Prop :=
  wf_spec tc c = true /\ ck oc tc o c = Accept /\ ~ cf oc tc o c.
Definition rejects_conforming (oc : octx) (tc : tctx) (o : obj) (c : chk) : Prop :=
  wf_spec tc c = true /\ ck oc tc o c <> Accept /\ cf oc tc o c.

Ltac refute_acc n :=
  split; [vm_compute; reflexivity | split; [vm_compute; reflexivity |
    let H := fresh in intro H; specialize (H n); vm_compute in H; discriminate H]].
Ltac refute_rej :=
  split; [vm_compute; reflexivity | split; [vm_compute; discriminate |
    let n := fresh "n" in intro n;
    do 6 (destruct n as [|n]; [vm_compute; reflexivity|]); cbn; reflexivity]].

Definition nameA : obj := OName [65%N].
Definition nameB : obj := OName [66%N].
Definition tName := CRep (TPrim PName) None IAllowed.
Definition tInt := CRep (TPrim PInteger) None IAllowed.
Definition tReal := CRep (TPrim PReal) None IAllowed.
Definition tStr := CRep (TPrim PString) None IAllowed.
Definition tNull := CRep (TPrim PNull) None IAllowed.
Definition inA := Some (PrNameIn [[65%N]]).
Definition inB := Some (PrNameIn [[66%N]]).

(* ---- the one class left open on the repaired tree ---- *)

(* dictionary and stream entries whose check has type Any are skipped entirely, predicate and
   indirection requirement included (a unit test of the library pins this behaviour:
   /Parent [4 0 R] is accepted although the parent check requires a reference) *)
Definition w5_c := CRep (TDict [DEnt [75%N] (CRep TAny (Some PrNever) IReq) KReq] None) None IAllowed.
Lemma refuted_any_entry : accepts_nonconforming [] [] (ODict [([75%N], OInt 5)]) w5_c.
Proof. refute_acc 2. Qed.
Definition w5s_c := CRep (TStream [DEnt [75%N] (CRep TAny None IReq) KOpt]) None IAllowed.
Lemma refuted_any_entry_stream : accepts_nonconforming [] [] (OStream [([75%N], OInt 5)] []) w5s_c.
Proof. refute_acc 2. Qed.
Definition w5x_c := CRep (TDict [] (Some (CRep TAny (Some PrNever) IAllowed, KOpt))) None IAllowed.
Lemma refuted_any_entry_star : accepts_nonconforming [] [] (ODict [([75%N], OInt 5)]) w5x_c.
Proof. refute_acc 2. Qed.

Lemma C08_statement_false : ~ C08_statement.
Proof.
  intro H. destruct refuted_any_entry as (W & A & N). apply N.
  apply (H [] [] (ODict [([75%N], OInt 5)]) w5_c W). exact A.
Qed.

(* ---- the classes repaired in pdf_type_check.rs: the old witnesses now get the verdict of the
   declarative reading (they stay in corpus/c08.txt) ---- *)
Definition agrees (oc : octx) (tc : tctx) (o : obj) (c : chk) (v : bool) : Prop :=
  wf_spec tc c = true /\ (ck oc tc o c = Accept <-> v = true) /\ conforms_dec opq_default oc tc o c = v.
Ltac agree := split; [vm_compute; reflexivity | split; [vm_compute; split; intros HH; try reflexivity; try discriminate HH | vm_compute; reflexivity]].

(* 1. memo leak across alternatives *)
Definition w1_c := CRep (TDisj [CRep (THet [tName; tInt]) None IAllowed; CRep (TArr tName None) None IAllowed]) None IAllowed.
Definition w1_o := OArr [OInt 5; OInt 5].
Lemma fixed_memo_leak : agrees [] [] w1_o w1_c false.
Proof. agree. Qed.
(* 2. a disjunct's own indirection requirement *)
Definition w2_c := CRep (TDisj [tName; tInt]) None IReq.
Lemma fixed_disjunct_attrs : agrees [] [] (OInt 5) w2_c false /\ agrees [((1%N, 0%N), OInt 5)] [] (ORef 1 0) w2_c true.
Proof. split; agree. Qed.
(* 3. the memo distinguishes predicates *)
Definition w3_c := CRep (THet [CRep (TPrim PName) inA IAllowed; CRep (TPrim PName) inB IAllowed]) None IAllowed.
Lemma fixed_memo_pred : agrees [] [] (OArr [nameA; nameA]) w3_c false /\ agrees [] [] (OArr [nameA; nameB]) w3_c true.
Proof. split; agree. Qed.
(* 4. predicates on compound types *)
Definition w4_c := CRep (TDict [] None) (Some PrNever) IAllowed.
Definition w4b_c := CRep (TArr tName None) (Some PrNever) IAllowed.
Lemma fixed_compound_pred : agrees [] [] (ODict []) w4_c false /\ agrees [] [] (OArr [nameA]) w4b_c false.
Proof. split; agree. Qed.
(* 5b. Any-typed array elements with attributes *)
Definition w5b_c := CRep (TArr (CRep TAny (Some PrNever) IAllowed) None) None IAllowed.
Lemma fixed_any_elem : agrees [] [] (OArr [OInt 5]) w5b_c false.
Proof. agree. Qed.
(* 6. a self-referential object is null *)
Lemma fixed_self_reference :
  agrees [((5%N, 0%N), ORef 5 0)] [] (ORef 5 0) tInt false /\ agrees [((5%N, 0%N), ORef 5 0)] [] (ORef 5 0) tNull true.
Proof. split; agree. Qed.
(* 7. order of alternatives *)
Definition w7_c := CRep (TDisj [CRep (TPrim PName) inB IAllowed; tName]) None IAllowed.
Definition w7r_c := CRep (TDisj [tName; CRep (TPrim PName) inB IAllowed]) None IAllowed.
Lemma fixed_examined_alternative : agrees [] [] nameA w7_c true /\ agrees [] [] nameA w7r_c true.
Proof. split; agree. Qed.
(* 8. named disjunct *)
Definition w8_tc : tctx := [([110%N; 100%N], (TDisj [tName; tReal], None, IAllowed))].
Definition w8_c := CRep (TArr (CNamed [110%N; 100%N]) None) None IAllowed.
Lemma fixed_named_disjunct : agrees [] w8_tc (OArr [nameA]) w8_c true /\ agrees [] w8_tc (OArr [OInt 5]) w8_c false.
Proof. split; agree. Qed.
(* 9. stale alternative index *)
Definition w9_c := CRep (THet [CRep (TDisj [tName; tReal]) None IAllowed; CRep (TDisj [tName; tReal; tStr]) None IAllowed]) None IAllowed.
Lemma fixed_stale_index : agrees [] [] (OArr [OBool true; OStr [115%N]]) w9_c false.
Proof. agree. Qed.
(* 10. undefined reference under a required indirection *)
Lemma fixed_undefined_required : agrees [] [] (ORef 9 0) (CRep (TPrim PNull) None IReq) true.
Proof. agree. Qed.
