(* Proofs/TypeCheckWitness.v — concrete refutations of "check = Accept <-> conforms" on the
   faithful model, each by computation on a witness. *)
From PV Require Import Spec.Conforms.

Definition ck (oc : octx) (tc : tctx) (o : obj) (c : chk) : outcome := fst (check opq_default oc tc o c).
Definition cf (oc : octx) (tc : tctx) (o : obj) (c : chk) : Prop := conforms opq_default oc tc o c.

(* the full statement of C08 *)
Definition C08_statement : Prop :=
  forall oc tc o c, wf_spec tc c = true -> (ck oc tc o c = Accept <-> cf oc tc o c).

(* shape of a refutation: a well-formed specification and an object on which the checker and the
   declarative reading differ *)
Definition accepts_nonconforming (oc : octx) (tc : tctx) (o : obj) (c : chk) : Prop :=
  wf_spec tc c = true /\ ck oc tc o c = Accept /\ ~ cf oc tc o c.
Definition rejects_conforming (oc : octx) (tc : tctx) (o : obj) (c : chk) : Prop :=
  wf_spec tc c = true /\ ck oc tc o c <> Accept /\ cf oc tc o c.

Ltac refute_acc n :=
  split; [vm_compute; reflexivity | split; [vm_compute; reflexivity |
    let H := fresh in intro H; specialize (H n); vm_compute in H; discriminate H]].
Ltac refute_rej :=
  split; [vm_compute; reflexivity | split; [vm_compute; discriminate |
    let n := fresh "n" in intro n;
    do 6 (destruct n as [|n]; [vm_compute; reflexivity|]); cbn; reflexivity]].

Definition nameA : obj := OName [65%N].
Definition nameB : obj := OName [66%N].
Definition tName := CRep (TPrim PName) None IAllowed.
Definition tInt := CRep (TPrim PInteger) None IAllowed.
Definition tReal := CRep (TPrim PReal) None IAllowed.
Definition tStr := CRep (TPrim PString) None IAllowed.
Definition tNull := CRep (TPrim PNull) None IAllowed.
Definition inA := Some (PrNameIn [[65%N]]).
Definition inB := Some (PrNameIn [[66%N]]).

(* 1. memo leak across alternatives: [5 5] is rejected by HetArray[Name,Int] and by Array(Name)
      but accepted by their disjunction *)
Definition w1_c := CRep (TDisj [CRep (THet [tName; tInt]) None IAllowed; CRep (TArr tName None) None IAllowed]) None IAllowed.
Definition w1_o := OArr [OInt 5; OInt 5].
Lemma refuted_memo_leak : accepts_nonconforming [] [] w1_o w1_c.
Proof. refute_acc 3. Qed.

(* 2. a disjunct's own indirection requirement is not applied *)
Definition w2_c := CRep (TDisj [tName; tInt]) None IReq.
Lemma refuted_disjunct_attrs : accepts_nonconforming [] [] (OInt 5) w2_c.
Proof. refute_acc 2. Qed.

(* 3. checks that differ only in their predicate are conflated by the memo *)
Definition w3_c := CRep (THet [CRep (TPrim PName) inA IAllowed; CRep (TPrim PName) inB IAllowed]) None IAllowed.
Lemma refuted_memo_ignores_pred : accepts_nonconforming [] [] (OArr [nameA; nameA]) w3_c.
Proof. refute_acc 2. Qed.

(* 4. predicates on Dict / HetArray / non-Any Array types are never evaluated *)
Definition w4_c := CRep (TDict [] None) (Some PrNever) IAllowed.
Lemma refuted_compound_pred : accepts_nonconforming [] [] (ODict []) w4_c.
Proof. refute_acc 1. Qed.
Definition w4b_c := CRep (TArr tName None) (Some PrNever) IAllowed.
Lemma refuted_compound_pred_array : accepts_nonconforming [] [] (OArr [nameA]) w4b_c.
Proof. refute_acc 1. Qed.

(* 5. dictionary entries (and array elements) whose check has type Any are skipped, predicate and
      indirection requirement included *)
Definition w5_c := CRep (TDict [DEnt [75%N] (CRep TAny (Some PrNever) IReq) KReq] None) None IAllowed.
Lemma refuted_any_entry : accepts_nonconforming [] [] (ODict [([75%N], OInt 5)]) w5_c.
Proof. refute_acc 2. Qed.
Definition w5b_c := CRep (TArr (CRep TAny (Some PrNever) IAllowed) None) None IAllowed.
Lemma refuted_any_elem : accepts_nonconforming [] [] (OArr [OInt 5]) w5b_c.
Proof. refute_acc 2. Qed.

(* 6. a self-referential object is accepted at any type instead of being null *)
Lemma refuted_self_reference : accepts_nonconforming [((5%N, 0%N), ORef 5 0)] [] (ORef 5 0) tInt.
Proof. refute_acc 2. Qed.

(* 7. an already examined alternative counts as failed when an error is pending: Name{B} | Name
      rejects /A, Name | Name{B} accepts it *)
Definition w7_c := CRep (TDisj [CRep (TPrim PName) inB IAllowed; tName]) None IAllowed.
Lemma refuted_examined_alternative : rejects_conforming [] [] nameA w7_c.
Proof. refute_rej. Qed.
Definition w7r_c := CRep (TDisj [tName; CRep (TPrim PName) inB IAllowed]) None IAllowed.
Lemma examined_alternative_order : ck [] [] nameA w7r_c = Accept /\ ck [] [] nameA w7_c = Reject EValue.
Proof. split; vm_compute; reflexivity. Qed.

(* 8. a named check that resolves to a disjunction is a specification error *)
Definition w8_tc : tctx := [([110%N; 100%N], (TDisj [tName; tReal], None, IAllowed))].
Definition w8_c := CRep (TArr (CNamed [110%N; 100%N]) None) None IAllowed.
Lemma refuted_named_disjunct : rejects_conforming [] w8_tc (OArr [nameA]) w8_c.
Proof. refute_rej. Qed.

(* 9. stale alternative index: [true (s)] is accepted by HetArray[Name|Real, Name|Real|String] *)
Definition w9_c := CRep (THet [CRep (TDisj [tName; tReal]) None IAllowed; CRep (TDisj [tName; tReal; tStr]) None IAllowed]) None IAllowed.
Lemma refuted_stale_index : accepts_nonconforming [] [] (OArr [OBool true; OStr [115%N]]) w9_c.
Proof. refute_acc 3. Qed.
Lemma stale_index_control : ck [] [] (OArr [OBool true; nameA]) w9_c = Reject EType.
Proof. vm_compute; reflexivity. Qed.

(* 10. an undefined reference under a required indirection is not read as null *)
Lemma refuted_undefined_required : rejects_conforming [] [] (ORef 9 0) (CRep (TPrim PNull) None IReq).
Proof. refute_rej. Qed.

Lemma C08_statement_false : ~ C08_statement.
Proof.
  intro H. destruct refuted_memo_leak as (W & A & N). apply N. apply (H [] [] w1_o w1_c W). exact A.
Qed.
