(* Proofs/PredTotal.v — C07, totality: for ALL parameter values and all data the predictor stage of
   Model/Pred.v ends in Ok or Err — no index out of bounds, no arithmetic panic. *)
From PV Require Import Model.Pred Spec.Png Proofs.PredLoop.
From Coq Require Import ZifyBool ZifyNat ZifyN.
Ltac Zify.zify_post_hook ::= Z.div_mod_to_equations.

Definition settled {A} (r : res A) : Prop := match r with Ok _ | Err _ => True | _ => False end.

Section Bodies.
  Variable rl : nat.
  Definition Plen (r : list N) : Prop := List.length r = rl.

  Lemma get_ok r i : Plen r -> i < rl -> exists x, get r i = Some x.
  Proof. intros H Hi. apply get_total. rewrite H. exact Hi. Qed.

  Lemma set_ok r i v : Plen r -> i < rl -> exists r', set r i v = Some r' /\ Plen r'.
  Proof.
    intros H Hi. destruct (set_total r i v) as [r' [E L]]; [rewrite H; exact Hi|].
    exists r'. split; [exact E|]. unfold Plen. rewrite L. exact H.
  Qed.

  Lemma body_sub_ok d j r : Plen r -> j < rl -> exists r', body_sub d j r = Some r' /\ Plen r'.
  Proof.
    intros H Hj. unfold body_sub.
    destruct (get_ok r j H Hj) as [x ->]. destruct (get_ok r (j - d) H) as [y ->]; [lia|].
    cbn [bind]. apply set_ok; assumption.
  Qed.

  Lemma body_up_ok prev j r : Plen prev -> Plen r -> j < rl -> exists r', body_up prev j r = Some r' /\ Plen r'.
  Proof.
    intros Hp H Hj. unfold body_up.
    destruct (get_ok r j H Hj) as [x ->]. destruct (get_ok prev j Hp Hj) as [y ->].
    cbn [bind]. apply set_ok; assumption.
  Qed.

  Lemma body_avg0_ok prev j r : Plen prev -> Plen r -> j < rl -> exists r', body_avg0 prev j r = Some r' /\ Plen r'.
  Proof.
    intros Hp H Hj. unfold body_avg0.
    destruct (get_ok r j H Hj) as [x ->]. destruct (get_ok prev j Hp Hj) as [y ->].
    cbn [bind]. apply set_ok; assumption.
  Qed.

  Lemma body_avg_ok bpp prev j r : Plen prev -> Plen r -> j < rl -> exists r', body_avg bpp prev j r = Some r' /\ Plen r'.
  Proof.
    intros Hp H Hj. unfold body_avg.
    destruct (get_ok r (j - bpp) H) as [l ->]; [lia|]. destruct (get_ok prev j Hp Hj) as [u ->].
    destruct (get_ok r j H Hj) as [x ->].
    cbn [bind]. apply set_ok; assumption.
  Qed.

  Definition Plen3 (st : list N * N * N) : Prop := Plen (fst (fst st)).

  Lemma body_paeth_ok bpp prev j st : Plen prev -> Plen3 st -> j < rl ->
    exists st', body_paeth bpp prev j st = Some st' /\ Plen3 st'.
  Proof.
    intros Hp H Hj. destruct st as [[r a0] c0]. unfold Plen3 in H. cbn [fst] in H. unfold body_paeth.
    destruct (get_ok prev j Hp Hj) as [b ->]. cbn [bind].
    assert (AC : exists ac, (if bpp <? j
                             then bind (get r (j - bpp)) (fun a => bind (get prev (j - bpp)) (fun c => Some (a, c)))
                             else Some (a0, c0)) = Some ac).
    { destruct (bpp <? j); [|eexists; reflexivity].
      destruct (get_ok r (j - bpp) H) as [a ->]; [lia|]. destruct (get_ok prev (j - bpp) Hp) as [c ->]; [lia|].
      eexists; reflexivity. }
    destruct AC as [ac ->]. cbn [bind].
    destruct (get_ok r j H Hj) as [x ->]. cbn [bind].
    destruct (set_ok r j (wadd x (paeth_i (fst ac) b (snd ac))) H Hj) as [r' [-> L]]. cbn [bind].
    eexists; split; [reflexivity|]. exact L.
  Qed.

  Lemma body_tiff16_ok colors s r : Plen r -> 2 * s + 1 < rl -> exists r', body_tiff16 colors s r = Some r' /\ Plen r'.
  Proof.
    intros H Hs. unfold body_tiff16.
    destruct (get_ok r (2 * (s - colors)) H) as [lh ->]; [lia|].
    destruct (get_ok r (2 * (s - colors) + 1) H) as [ll ->]; [lia|].
    destruct (get_ok r (2 * s) H) as [dh ->]; [lia|].
    destruct (get_ok r (2 * s + 1) H) as [dl ->]; [lia|]. cbn [bind].
    match goal with |- context [set r (2 * s) ?v] => destruct (set_ok r (2 * s) v H) as [r1 [-> L1]]; [lia|] end.
    cbn [bind]. apply set_ok; [exact L1 | lia].
  Qed.

  (* one PNG row never panics *)
  Lemma png_row_total pred bpp prev row :
    1 <= rl -> bpp < rl -> Plen prev -> Plen row ->
    (exists r, png_row pred rl bpp prev row = ROk r /\ Plen r) \/ png_row pred rl bpp prev row = RErr.
  Proof.
    intros H1 Hb Hp Hr. unfold png_row.
    destruct (get_ok row 0 Hr) as [tag ->]; [lia|].
    destruct (pred =? 10)%N.
    { destruct (tag =? 0)%N; [left; eexists; split; [reflexivity | exact Hr] | right; reflexivity]. }
    destruct (pred =? 11)%N.
    { destruct (negb (tag =? 1)%N); [right; reflexivity|]. left.
      destruct (for_total Plen (1 + bpp) rl (body_sub bpp) row Hr) as [r [-> L]].
      - intros j s Hj Hs. apply body_sub_ok; [exact Hs | lia].
      - eexists; split; [reflexivity | exact L]. }
    destruct (pred =? 12)%N.
    { destruct (negb (tag =? 2)%N); [right; reflexivity|]. left.
      destruct (for_total Plen 1 rl (body_up prev) row Hr) as [r [-> L]].
      - intros j s Hj Hs. apply body_up_ok; [exact Hp | exact Hs | lia].
      - eexists; split; [reflexivity | exact L]. }
    destruct (pred =? 13)%N.
    { destruct (negb (tag =? 3)%N); [right; reflexivity|]. left.
      destruct (for_total Plen 1 (1 + bpp) (body_avg0 prev) row Hr) as [r1 [-> L1]].
      - intros j s Hj Hs. apply body_avg0_ok; [exact Hp | exact Hs | lia].
      - cbn [bind]. destruct (for_total Plen (1 + bpp) rl (body_avg bpp prev) r1 L1) as [r [-> L]].
        + intros j s Hj Hs. apply body_avg_ok; [exact Hp | exact Hs | lia].
        + eexists; split; [reflexivity | exact L]. }
    destruct (pred =? 14)%N.
    { destruct (negb (tag =? 4)%N); [right; reflexivity|]. left.
      destruct (for_total Plen3 1 rl (body_paeth bpp prev) (row, 0%N, 0%N) Hr) as [[[r a] c] [-> L]].
      - intros j s Hj Hs. apply body_paeth_ok; [exact Hp | exact Hs | lia].
      - eexists; split; [reflexivity | exact L]. }
    right; reflexivity.
  Qed.

  Lemma tiff_row_total bits colors row : Plen row -> exists r, Pred.tiff_row bits rl colors row = Some r /\ Plen r.
  Proof.
    intros Hr. unfold Pred.tiff_row. destruct (bits =? 16)%N.
    - apply for_total; [exact Hr|]. intros j s Hj Hs. apply body_tiff16_ok; [exact Hs|].
      assert (2 * (rl / 2) <= rl) by (clear; lia). lia.
    - apply for_total; [exact Hr|]. intros j s Hj Hs. apply body_sub_ok; [exact Hs | lia].
  Qed.
End Bodies.

Lemma firstn_skipn_rows {A} (data : list A) k rl :
  List.length data = S k * rl -> List.length (firstn rl data) = rl /\ List.length (skipn rl data) = k * rl.
Proof. intros H. rewrite firstn_length, skipn_length. lia. Qed.

Lemma png_rows_total pred rl bpp : forall k prev data,
  (1 <= rl)%N -> (bpp < rl)%N -> List.length prev = N.to_nat rl -> List.length data = k * N.to_nat rl ->
  settled (png_rows k pred rl bpp prev data).
Proof.
  induction k as [|k IH]; intros prev data H1 Hb Hp Hd; [exact I|].
  cbn [png_rows]. destruct (firstn_skipn_rows data k (N.to_nat rl) Hd) as [Lf Ls].
  destruct (png_row_total (N.to_nat rl) pred (N.to_nat bpp) prev (firstn (N.to_nat rl) data)) as [[r [-> L]] | ->];
    try assumption; try lia; [|exact I].
  specialize (IH r (skipn (N.to_nat rl) data) H1 Hb L Ls).
  destruct (png_rows k pred rl bpp r (skipn (N.to_nat rl) data)); try contradiction; exact I.
Qed.

Lemma tiff_rows_total bits rl colors : forall k data,
  List.length data = k * N.to_nat rl -> settled (tiff_rows k bits rl colors data).
Proof.
  induction k as [|k IH]; intros data Hd; [exact I|].
  cbn [tiff_rows]. destruct (firstn_skipn_rows data k (N.to_nat rl) Hd) as [Lf Ls].
  destruct (tiff_row_total (N.to_nat rl) bits (N.to_nat colors) (firstn (N.to_nat rl) data) Lf) as [r [-> L]].
  specialize (IH (skipn (N.to_nat rl) data) Ls).
  destruct (tiff_rows k bits rl colors (skipn (N.to_nat rl) data)); try contradiction; exact I.
Qed.

Lemma row_layout_some colors columns bits bpp rb :
  row_layout colors columns bits = Some (bpp, rb) -> (bpp <= rb)%N.
Proof.
  unfold row_layout, checked_mul, checked_add.
  destruct (N.ltb_spec colors 1); [discriminate|]. destruct (N.ltb_spec columns 1); [discriminate|].
  cbn [orb]. destruct (negb _); [discriminate|].
  destruct (N.ltb_spec (colors * bits) two64); [|discriminate]. cbn [bind].
  destruct (N.ltb_spec (columns * (colors * bits)) two64); [|discriminate]. cbn [bind].
  destruct (N.ltb_spec (colors * bits + 7) two64); [|discriminate]. cbn [bind].
  destruct (N.ltb_spec (columns * (colors * bits) + 7) two64); [|discriminate]. cbn [bind].
  intros E. inversion E; subst.
  assert (M : (1 * (colors * bits) <= columns * (colors * bits))%N) by (apply N.mul_le_mono_r; lia).
  lia.
Qed.

Lemma rows_length (n rl : N) (data : list N) :
  n = N.of_nat (List.length data) -> (rl <> 0)%N -> (n mod rl =? 0)%N = true ->
  List.length data = N.to_nat (n / rl) * N.to_nat rl.
Proof.
  intros Hn Hr Hm. apply N.eqb_eq in Hm.
  assert (E : (n = rl * (n / rl))%N) by (rewrite (N.div_mod n rl Hr) at 1; lia).
  lia.
Qed.

(* ---------- C07: totality ---------- *)
Theorem filter_total (predictor colors columns bits : N) (data : bytes) :
  settled (flate_lzw_filter predictor colors columns bits data).
Proof.
  unfold flate_lzw_filter. set (n := N.of_nat (len data)).
  destruct (predictor =? 1)%N; [exact I|].
  destruct (predictor =? 2)%N.
  - destruct (negb (bits =? 8)%N && negb (bits =? 16)%N); [exact I|].
    destruct (row_layout colors columns bits) as [[bpp rl]|]; [|exact I].
    destruct (N.ltb_spec rl 1); [exact I|].
    destruct (n mod rl =? 0)%N eqn:Hm; cbn [negb]; [|exact I].
    apply tiff_rows_total. apply (rows_length n); [reflexivity | lia | exact Hm].
  - destruct ((10 <=? predictor)%N && (predictor <=? 15)%N); [|exact I].
    destruct (row_layout colors columns bits) as [[bpp rb]|] eqn:HL; [|exact I].
    apply row_layout_some in HL.
    destruct (n =? 0)%N; [exact I|].
    destruct (N.ltb_spec n (rb + 1)); [exact I|].
    destruct (n mod (rb + 1) =? 0)%N eqn:Hm; cbn [negb]; [|exact I].
    apply png_rows_total; try lia.
    + apply repeat_length.
    + apply (rows_length n); [reflexivity | lia | exact Hm].
Qed.

(* through the parameter extraction: every /DecodeParms dictionary (or none), every value of every entry *)
Theorem flate_post_total (o : option (list (bytes * obj))) (data : bytes) : settled (flate_post o data).
Proof. apply filter_total. Qed.

(* parameter extraction: an Integer entry is taken as is, anything else / a missing entry is the default;
   `as usize` is the identity on non-negative i64 values and 2^64 - |z| on negative ones *)
Lemma as_usize_nonneg z : (0 <= z < 2 ^ 63)%Z -> as_usize z = Z.to_N z.
Proof. intros H. unfold as_usize. f_equal. apply Z.mod_small. lia. Qed.

Lemma as_usize_neg z : (- 2 ^ 63 <= z < 0)%Z -> as_usize z = Z.to_N (2 ^ 64 + z).
Proof.
  intros H. unfold as_usize. f_equal.
  change 18446744073709551616%Z with (2 ^ 64)%Z. lia.
Qed.

Lemma settled_no_panic {A} (r : res A) : settled r -> r <> Panic /\ r <> Fuel.
Proof. destruct r; cbn; intros H; try contradiction; split; discriminate. Qed.

Theorem filter_no_panic (predictor colors columns bits : N) (data : bytes) :
  flate_lzw_filter predictor colors columns bits data <> Panic /\
  flate_lzw_filter predictor colors columns bits data <> Fuel.
Proof. apply settled_no_panic, filter_total. Qed.

Theorem flate_post_no_panic (o : option (list (bytes * obj))) (data : bytes) :
  flate_post o data <> Panic /\ flate_post o data <> Fuel.
Proof. apply settled_no_panic, flate_post_total. Qed.

Theorem params :
  (forall data, flate_post None data = Ok data) /\
  (forall z, (0 <= z < 2 ^ 63)%Z -> as_usize z = Z.to_N z) /\
  (forall z, (- 2 ^ 63 <= z < 0)%Z -> as_usize z = Z.to_N (2 ^ 64 + z)).
Proof. split; [reflexivity|]. split; [exact as_usize_nonneg | exact as_usize_neg]. Qed.
