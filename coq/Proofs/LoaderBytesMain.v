(* Proofs/LoaderBytesMain.v — C03b, the composition: for every document and every legal classic layout, the
   abstraction COMPUTED FROM THE BYTES by the parser models (Model/LoaderBytes.v abstract_file) is a layout of
   the document in the sense of C03 (Proofs/LoaderDoc.v layout_of); hence the loader model run on the bytes
   defines exactly the document's objects. *)
From PV Require Import Model.Obj Model.XrefTab Model.Loader Model.LoaderBytes Spec.Spelling Spec.XrefEnc Spec.RenderClassic.
From PV Require Import Proofs.XrefBase Proofs.XrefTab Proofs.ObjStream Proofs.ObjSpell
     Proofs.Loader Proofs.LoaderObjs Proofs.LoaderMain Proofs.LoaderDoc
     Proofs.LoaderBytesBase Proofs.LoaderBytesObj Proofs.LoaderBytesSect Proofs.LoaderBytesTab.
From Coq Require Import Lia.
Close Scope N_scope.

(* ---------- side conditions ---------- *)
Definition wf_doc (d : cdoc) : Prop := NoDup (List.map fst (d_objs d)).

(* the entries of the layout's table as they will be parsed (in-use offsets still to be filled in) *)
Definition tmpl_ents (l : layout) : list XrefTab.xent :=
  flat_map (fun x => number ent_of (ts_start x) (ts_ents x)) (l_table l).
Definition inuse (e : XrefTab.xent) : bool := match xe_st e with XrefTab.XInUse _ => true | _ => false end.

Record wf_layout (d : cdoc) (l : layout) : Prop := {
  (* the first `%PDF-` of the file is the header *)
  wl_garbage : find_tag kw_pdf (l_garbage l ++ kw_pdf) = Some (len (l_garbage l));
  (* one object layout per object, each legal (Proofs/LoaderBytesObj.v wf_obj) *)
  wl_len : len (l_objs l) = len (d_objs d);
  wl_objs : Forall (fun p => wf_obj (fst p) (snd p)) (combine (d_objs d) (l_objs l));
  (* the table is a legal section in front of `trailer` (Spec/XrefEnc.v wf_sect: C13; the offsets of its in-use
     entries are filled in by the renderer) and every offset fits the ten-digit field *)
  wl_sect : wf_sect (l_xpre l) (l_xeol l) (l_table l) kw_trailer;
  wl_small : (N.of_nat (len (body (d_objs d) l)) < 10 ^ 10)%N;
  (* it mentions every object number at most once; its in-use entries are exactly the document's identifiers *)
  wl_nums : NoDup (List.map xe_obj (tmpl_ents l));
  wl_inuse : forall e, In e (tmpl_ents l) -> inuse e = true -> In (xe_obj e, xe_gen e) (List.map fst (d_objs d));
  wl_all : forall id, In id (List.map fst (d_objs d)) ->
                      exists e, In e (tmpl_ents l) /\ inuse e = true /\ (xe_obj e, xe_gen e) = id;
  (* any spelling of a trailer dictionary with /Root = the root and no /Prev, /XRefStm *)
  wl_trailer : wf_trailer (d_root d) (l_tw l) (l_tsp l);
  (* `startxref` EOL digits [EOL] `%%EOF` and no '%' behind it *)
  wl_seol : plain_ws (l_seol l) /\ l_seol l <> [];
  wl_sx : 1 <= l_sxw l /\ (N.of_nat (len (body (d_objs d) l)) < 10 ^ N.of_nat (l_sxw l))%N /\
          (N.of_nat (len (body (d_objs d) l)) < i64_lim)%N;
  wl_eeol : plain_ws (l_eeol l);
  wl_tail : Forall (fun b => b <> 37%N) (l_tail l) }.

(* what the loader should define *)
Definition ctx_of (objs : list (oid * obj)) : ctx := List.map (fun p => (fst p, VObj (snd p))) objs.

(* ---------- the table after the offsets are filled in ---------- *)
Definition fillx (ot : list (oid * N)) (e : XrefTab.xent) : XrefTab.xent :=
  match xe_st e with
  | XrefTab.XInUse _ =>
    mk_xent (xe_obj e) (xe_gen e)
            (XrefTab.XInUse (match off_get ot (xe_obj e, xe_gen e) with Some o => o | None => 0%N end))
  | _ => e
  end.

Lemma ent_of_fill ot n e : ent_of n (fill_ent ot n e) = fillx ot (ent_of n e).
Proof.
  unfold fill_ent. destruct (te_inuse e) eqn:Ei; unfold ent_of, fillx; cbn; rewrite ?Ei; reflexivity.
Qed.

Lemma number_fill ot es : forall n, number ent_of n (fill_ents ot n es) = List.map (fillx ot) (number ent_of n es).
Proof.
  induction es as [|e es IH]; intros n; cbn [fill_ents number List.map]; [reflexivity|].
  rewrite ent_of_fill, IH. reflexivity.
Qed.

Lemma table_ents ot t :
  flat_map (fun x => number ent_of (ts_start x) (ts_ents x)) (List.map (fill_sub ot) t) =
  List.map (fillx ot) (flat_map (fun x => number ent_of (ts_start x) (ts_ents x)) t).
Proof.
  induction t as [|x t IH]; cbn [List.map flat_map]; [reflexivity|].
  rewrite map_app, IH. cbn [fill_sub ts_start ts_ents]. rewrite number_fill. reflexivity.
Qed.

Lemma number_not_instream es : forall n e, In e (number ent_of n es) -> forall a b, xe_st e <> XrefTab.XInStream a b.
Proof.
  induction es as [|x es IH]; intros n e; cbn [number In]; [tauto|].
  intros [<-|H] a b; [|eapply IH, H]. unfold ent_of. cbn. destruct (te_inuse x); discriminate.
Qed.

Lemma tmpl_not_instream l e : In e (tmpl_ents l) -> forall a b, xe_st e <> XrefTab.XInStream a b.
Proof. intros H. apply in_flat_map in H as (x & _ & H). eapply number_not_instream, H. Qed.

(* the entries as the loader sees them *)
Definition E_of (ot : list (oid * N)) (l : layout) : list Loader.xent := List.map (fun e => conv_ent (fillx ot e)) (tmpl_ents l).

Lemma E_num ot e : x_num (conv_ent (fillx ot e)) = xe_obj e.
Proof. unfold fillx. destruct (xe_st e); reflexivity. Qed.
Lemma E_gen ot e : x_gen (conv_ent (fillx ot e)) = xe_gen e.
Proof. unfold fillx. destruct (xe_st e); reflexivity. Qed.

Lemma E_nums ot l : List.map x_num (E_of ot l) = List.map xe_obj (tmpl_ents l).
Proof. unfold E_of. rewrite map_map. apply map_ext. intros e. apply E_num. Qed.

(* ---------- chunks and offsets ---------- *)
Lemma chunks_located : forall (ds : list (oid * obj)) (los : list lobj) (pre post : bytes),
  len los = len ds -> forall x, In x ds ->
  exists lo o R,
    In (x, lo) (combine ds los) /\
    In (fst x, N.of_nat o)
       (combine (List.map fst ds)
                (List.map N.of_nat (offsets (len pre) (List.map (fun p => render_obj (fst p) (snd p)) (combine ds los))))) /\
    at_cur (pre ++ concat (List.map (fun p => render_obj (fst p) (snd p)) (combine ds los)) ++ post) o (render_obj x lo ++ R).
Proof.
  induction ds as [|y ds IH]; intros los pre post L x Hin; [destruct Hin|].
  destruct los as [|lo0 los]; [discriminate|]. cbn [len List.length] in L.
  cbn [combine List.map offsets concat fst snd].
  destruct Hin as [->|Hin].
  - exists lo0, (len pre), (concat (List.map (fun p => render_obj (fst p) (snd p)) (combine ds los)) ++ post).
    split; [left; reflexivity|]. split; [left; reflexivity|]. rewrite <- app_assoc. apply at_cur_mid.
  - destruct (IH los (pre ++ render_obj y lo0) post ltac:(unfold len in *; lia) x Hin) as (lo & o & R & I1 & I2 & A).
    exists lo, o, R. split; [right; exact I1|]. split.
    + right. rewrite len_app in I2. exact I2.
    + rewrite <- !app_assoc in A. rewrite <- app_assoc. exact A.
Qed.

Lemma NoDup_combine_fst {A B} (a : list A) : forall (b : list B), NoDup a -> NoDup (List.map fst (combine a b)).
Proof.
  induction a as [|x a IH]; intros b ND; [constructor|]. destruct b as [|y b]; [constructor|].
  cbn [combine List.map fst]. inversion ND; subst. constructor; [|apply IH; assumption].
  intros H. apply in_map_iff in H as ([x' y'] & <- & H). apply in_combine_l in H. contradiction.
Qed.

Lemma off_get_In t id o : NoDup (List.map fst t) -> In (id, o) t -> off_get t id = Some o.
Proof.
  induction t as [|[k o'] t IH]; cbn [List.map fst off_get In]; [tauto|].
  intros ND [H|H].
  - inversion H; subst. rewrite oid_eqb_refl. reflexivity.
  - inversion ND; subst. destruct (oid_eqb k id) eqn:E; [|apply IH; assumption].
    apply oid_eqb_eq in E. subst. exfalso. apply H2. change id with (fst (id, o)). apply in_map, H.
Qed.

Lemma In_combine_Forall {A B} (P : A * B -> Prop) (a : list A) (b : list B) x :
  Forall P (combine a b) -> In x (combine a b) -> P x.
Proof. intros F H. exact (proj1 (Forall_forall _ _) F x H). Qed.

(* ---------- the composition ---------- *)
Section Classic.
  Variables (rel : bool) (d : cdoc) (l : layout).
  Hypothesis Wd : wf_doc d.
  Hypothesis Wl : wf_layout d l.

  Let objs := d_objs d.
  Let B := body objs l.
  Let V := render_view objs l.
  Let ot := off_table objs l.
  Let E := E_of ot l.
  Let f := file_of rel V.
  Let rt := ORef (fst (d_root d)) (snd (d_root d)).

  Lemma V_shape : V = B ++ render_sect (l_xpre l) (l_xeol l) (table objs l) ++ tail_part objs l.
  Proof. reflexivity. Qed.

  Lemma B_lt_V : len B < len V.
  Proof. rewrite V_shape, !len_app. unfold tail_part. rewrite len_app. cbn [kw_trailer len List.length]. lia. Qed.

  (* the object written for x is found at the offset the table gives for it *)
  Lemma obj_found x : In x objs ->
    exists o nx, off_get ot (fst x) = Some (N.of_nat o) /\ o < len V /\
                 Loader.find f (N.of_nat o) = Some (IObj (fst x) (snd x), nx) /\ simple (IObj (fst x) (snd x)).
  Proof.
    intros Hin.
    destruct (chunks_located objs (l_objs l) (head l)
                (render_sect (l_xpre l) (l_xeol l) (table objs l) ++ tail_part objs l) (wl_len _ _ Wl) x Hin)
      as (lo & o & R & I1 & I2 & A).
    assert (W : wf_obj x lo) by exact (In_combine_Forall _ _ _ _ (wl_objs _ _ Wl) I1).
    assert (EV : head l ++ concat (List.map (fun p => render_obj (fst p) (snd p)) (combine objs (l_objs l))) ++
                 render_sect (l_xpre l) (l_xeol l) (table objs l) ++ tail_part objs l = V).
    { unfold V, render_view, body, chunks. rewrite <- app_assoc. reflexivity. }
    rewrite EV in A.
    destruct (item_at_object rel V o x lo R A W) as (nx & EI).
    assert (Lo : o < len V).
    { pose proof (at_cur_len _ _ _ A) as SL. rewrite len_app in SL.
      assert (1 <= len (render_obj x lo)).
      { unfold render_obj. rewrite !len_app. destruct W as (W1 & _). rewrite digits_len. lia. }
      lia. }
    exists o, nx. split; [|split; [exact Lo|split]].
    - apply off_get_In; [|exact I2]. apply NoDup_combine_fst. exact Wd.
    - unfold f. rewrite find_file_of by lia. rewrite EI. reflexivity.
    - exact (wf_obj_simple _ _ W).
  Qed.

  Lemma E_NoDup : NoDup (List.map x_num E).
  Proof. unfold E. rewrite E_nums. exact (wl_nums _ _ Wl). Qed.

  Lemma E_inv e : In e E -> exists e0, In e0 (tmpl_ents l) /\ e = conv_ent (fillx ot e0).
  Proof. unfold E, E_of. intros H. apply in_map_iff in H as (e0 & <- & H). eauto. Qed.

  (* an in-use entry leads to the object of its identifier *)
  Lemma E_inuse e ofs : In e E -> x_st e = Loader.XInUse ofs ->
    exists v nx, In (x_id e, v) objs /\ (ofs <? N.of_nat (len V))%N = true /\
                 Loader.find f ofs = Some (IObj (x_id e) v, nx) /\ simple (IObj (x_id e) v).
  Proof.
    intros Hin St. destruct (E_inv e Hin) as (e0 & H0 & ->).
    unfold x_id. rewrite E_num, E_gen.
    unfold fillx in St. destruct (xe_st e0) as [nx0|o0|a b] eqn:S0; cbn in St; rewrite ?S0 in St; cbn in St; try discriminate.
    assert (Hid : In (xe_obj e0, xe_gen e0) (List.map fst objs)).
    { apply (wl_inuse _ _ Wl e0 H0). unfold inuse. rewrite S0. reflexivity. }
    apply in_map_iff in Hid as ([id v] & Eid & Hx). cbn [fst] in Eid. subst id.
    destruct (obj_found _ Hx) as (o & nx & G & Lo & F & S). cbn [fst snd] in *.
    rewrite G in St. injection St as <-.
    exists v, nx. split; [exact Hx|]. split; [apply N.ltb_lt; lia|]. split; assumption.
  Qed.

  Lemma E_status e : In e E -> (exists nx, x_st e = Loader.XFree nx) \/ (exists ofs, x_st e = Loader.XInUse ofs).
  Proof.
    intros Hin. destruct (E_inv e Hin) as (e0 & H0 & ->). unfold fillx.
    destruct (xe_st e0) as [nx0|o0|a b] eqn:S0; cbn; rewrite ?S0; cbn; eauto.
    exfalso. eapply tmpl_not_instream; eauto.
  Qed.

  (* the entries define exactly the document's objects *)
  Lemma resolve_objs id v : In (id, v) objs -> resolve f E id = Some (VObj v).
  Proof.
    intros Hx. assert (Hid : In id (List.map fst objs)) by (change id with (fst (id, v)); apply in_map, Hx).
    destruct (wl_all _ _ Wl id Hid) as (e0 & H0 & U0 & Eid).
    set (e := conv_ent (fillx ot e0)).
    assert (He : In e E) by (unfold E, E_of; apply in_map_iff; exists e0; split; [reflexivity|exact H0]).
    assert (En : x_num e = fst id) by (unfold e; rewrite E_num, <- Eid; reflexivity).
    assert (Eg : x_gen e = snd id) by (unfold e; rewrite E_gen, <- Eid; reflexivity).
    pose proof (lookup_ent_NoDup _ _ E_NoDup He) as Lk. rewrite En in Lk.
    destruct (obj_found _ Hx) as (o & nx & G & Lo & F & S). cbn [fst snd] in *.
    assert (St : x_st e = Loader.XInUse (N.of_nat o)).
    { unfold e, fillx. unfold inuse in U0. destruct (xe_st e0); try discriminate. cbn. rewrite Eid, G. reflexivity. }
    unfold resolve. rewrite Lk, St, Eg, N.eqb_refl. unfold obj_at. rewrite F. reflexivity.
  Qed.

  Lemma resolve_only id w : resolve f E id = Some w -> exists v, w = VObj v /\ In (id, v) objs.
  Proof.
    unfold resolve. destruct (lookup_ent E (fst id)) as [e|] eqn:Lk; [|discriminate].
    apply lookup_ent_In in Lk as (He & En).
    destruct (E_status e He) as [(nx & St)|(ofs & St)]; rewrite St; [discriminate|].
    destruct (N.eqb (x_gen e) (snd id)) eqn:Eg; [|discriminate]. apply N.eqb_eq in Eg.
    destruct (E_inuse e ofs He St) as (v & nx & Hx & _ & F & _).
    unfold obj_at. rewrite F. cbn [item_val]. intros H. injection H as <-.
    exists v. split; [reflexivity|]. unfold x_id in Hx. rewrite En, Eg in Hx. destruct id. exact Hx.
  Qed.

  (* ---------- the abstraction of the rendered file ---------- *)
  Lemma abstract_rendered :
    abstract_file rel (render_classic objs l) = mkpdf true (N.of_nat (len V)) (Some (N.of_nat (len B))) f.
  Proof.
    assert (EV : exists r, V = kw_pdf ++ r).
    { exists (l_hdr l ++ concat (chunks objs l) ++ render_sect (l_xpre l) (l_xeol l) (table objs l) ++ tail_part objs l).
      unfold V, render_view, body, head. rewrite <- !app_assoc. reflexivity. }
    destruct EV as (r & EV).
    unfold abstract_file, render_classic. fold V. rewrite EV.
    rewrite (magic_found _ r (wl_garbage _ _ Wl)).
    replace (skipn (len (l_garbage l)) (l_garbage l ++ kw_pdf ++ r)) with V
      by (rewrite EV; symmetry; replace (len (l_garbage l)) with (len (l_garbage l) + 0) by lia; apply skipn_app_len).
    destruct (header_found V r EV) as (c' & Eh). rewrite Eh.
    assert (Sx : find_startxref V = Some (N.of_nat (len B))).
    { destruct (wl_seol _ _ Wl) as (S1 & S2). destruct (wl_sx _ _ Wl) as (X0 & X1 & X2).
      replace V with ((B ++ render_sect (l_xpre l) (l_xeol l) (table objs l) ++ kw_trailer ++ l_tw l ++ l_tsp l ++ l_sw l) ++
                      kw_startxref ++ l_seol l ++ digits (l_sxw l) (N.of_nat (len B)) ++ l_eeol l ++ kw_eof ++ l_tail l).
      - apply startxref_found; try assumption. exact (wl_eeol _ _ Wl). exact (wl_tail _ _ Wl).
      - rewrite V_shape. unfold tail_part. fold B. rewrite <- !app_assoc. reflexivity. }
    rewrite Sx, <- EV. reflexivity.
  Qed.

  Lemma table_found :
    exists nx, Loader.find f (N.of_nat (len B)) = Some (IXSect E (Some (mktrailer (Some rt) None None)), nx).
  Proof.
    unfold f. rewrite find_file_of by (pose proof B_lt_V; lia).
    pose proof (wf_sect_fill ot _ _ _ kw_trailer (tail_part objs l) (off_table_small _ _ (wl_small _ _ Wl)) eq_refl (wl_sect _ _ Wl)) as Ws.
    unfold tail_part in Ws.
    destruct (item_at_table rel (d_root d) B (l_xpre l) (l_xeol l) (table objs l) (l_tw l) (l_tsp l) _ Ws (wl_trailer _ _ Wl)) as (nx & EI).
    exists nx.
    assert (EI' : item_at rel V (len B) =
                  (IXSect (List.map conv_ent (flat_map (fun x => number ent_of (ts_start x) (ts_ents x)) (table objs l)))
                          (Some (mktrailer (Some rt) None None)), nx)) by exact EI.
    rewrite EI'. f_equal. f_equal. f_equal.
    unfold table. rewrite table_ents. unfold E, E_of. rewrite map_map. reflexivity.
  Qed.

  (* the computed abstraction is a C03 layout of the document *)
  Theorem rendered_layout_of : layout_of objs (d_root d) (abstract_file rel (render_classic objs l)) E.
  Proof.
    rewrite abstract_rendered. destruct table_found as (nx & TF). constructor; cbn [p_magic p_startxref p_flen p_file].
    - reflexivity.
    - exists (N.of_nat (len B)). split; [reflexivity|]. split; [apply N.ltb_lt; pose proof B_lt_V; lia|].
      eapply SA_table. exact TF.
    - intros e ofs Hin St. apply first_per_key_incl in Hin.
      destruct (E_inuse e ofs Hin St) as (v & nx' & _ & Lo & F & S).
      split; [exact Lo|]. exists (IObj (x_id e) v), nx', (VObj v). split; [exact F|]. split; [reflexivity|]. left. exact S.
    - intros e stm idx ms n v Hin St. apply first_per_key_incl in Hin.
      destruct (E_status e Hin) as [(? & K)|(? & K)]; congruence.
    - intros e stm idx ms Hin St. apply first_per_key_incl in Hin.
      destruct (E_status e Hin) as [(? & K)|(? & K)]; congruence.
    - exact resolve_objs.
    - intros id w H. left. exact (resolve_only id w H).
  Qed.

  Lemma ctx_of_get id : ctx_get (ctx_of objs) id = match resolve f E id with Some w => Some w | None => None end.
  Proof.
    destruct (resolve f E id) as [w|] eqn:R.
    - destruct (resolve_only id w R) as (v & -> & Hx).
      assert (K : forall (ds : list (oid * obj)), NoDup (List.map fst ds) -> In (id, v) ds -> ctx_get (ctx_of ds) id = Some (VObj v)).
      { induction ds as [|[k u] ds IH]; cbn [List.map fst In ctx_of ctx_get snd]; [tauto|]. intros ND [H|H].
        - inversion H; subst. rewrite oid_eqb_refl. reflexivity.
        - inversion ND; subst. destruct (oid_eqb k id) eqn:Ek; [|apply IH; assumption].
          apply oid_eqb_eq in Ek. subst. exfalso. apply H2. change id with (fst (id, v)). apply in_map, H. }
      apply K; [exact Wd|exact Hx].
    - assert (K : forall (ds : list (oid * obj)), (forall v, ~ In (id, v) ds) -> ctx_get (ctx_of ds) id = None).
      { induction ds as [|[k u] ds IH]; cbn [ctx_of List.map ctx_get fst snd]; [reflexivity|]. intros N.
        destruct (oid_eqb k id) eqn:Ek.
        - apply oid_eqb_eq in Ek. subst. exfalso. apply (N u). left. reflexivity.
        - apply IH. intros v Hv. apply (N v). right. exact Hv. }
      apply K. intros v Hv. rewrite (resolve_objs id v Hv) in R. discriminate.
  Qed.

  (* THE END-TO-END THEOREM: the loader model on the BYTES of a classic-layout file defines exactly the
     document's objects, with the values written, and the trailer's root *)
  Theorem load_bytes_classic :
    exists c, load_bytes rel (render_classic objs l) = Loaded c (d_root d) /\
              forall id, ctx_get c id = ctx_get (ctx_of objs) id.
  Proof.
    pose proof rendered_layout_of as LO. unfold load_bytes.
    set (p := abstract_file rel (render_classic objs l)) in *.
    destruct LO as [Hm (sx & Hs & Hb & SA) Hi Hmem Hnd _ _].
    assert (AE : all_ents [(sx, E, Some rt)] = E) by (unfold all_ents; cbn; apply app_nil_r).
    destruct (load_history p [(sx, E, Some rt)] (fst (d_root d)) (snd (d_root d)) sx Hm Hs Hb) as (c & L & K).
    - apply SS_last; assumption.
    - repeat constructor. intros [].
    - reflexivity.
    - rewrite AE. exact Hi.
    - rewrite AE. exact Hmem.
    - rewrite AE. exact Hnd.
    - exists c. split; [destruct (d_root d); exact L|]. intros id. rewrite K, AE, ctx_of_get.
      assert (Pf : p_file p = f) by (unfold p; rewrite abstract_rendered; reflexivity).
      rewrite Pf. destruct (resolve f E id); reflexivity.
  Qed.
End Classic.

(* totality on ALL byte strings (no hypothesis): the walk never exhausts its fuel; the answer is Rejected or Loaded *)
Theorem load_bytes_total rel s :
  load_bytes rel s <> OutFuel /\ (load_bytes rel s = Rejected \/ exists c r, load_bytes rel s = Loaded c r).
Proof. exact (load_total (abstract_file rel s)). Qed.
