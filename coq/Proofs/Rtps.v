(* Proofs/Rtps.v — C20: the RTPS packet reader accepts exactly the well-formed encodings and returns
   the packet they encode; it never panics.  Specification first (encode, wf_packet), then proofs. *)
From PV Require Import Model.Rtps Proofs.Bin.
From Coq Require Import ZifyBool ZifyNat ZifyN.
Ltac Zify.zify_post_hook ::= Z.div_mod_to_equations.

(* ====================== specification ====================== *)
(* byte order of the length field: bit 0 of the flags (E flag): 1 = little endian *)
Definition spec_endian (flags : N) : endian := if N.odd flags then Little else Big.

Definition enc16 (e : endian) (v : N) : bytes :=
  match e with Big => [v / 256; v mod 256] | Little => [v mod 256; v / 256] end%N.

Definition enc_header (h : header) : bytes :=
  [82; 84; 80; 83]%N (* "RTPS" *) ++ enc16 Little (h_version h) ++ enc16 Little (h_vendor h) ++ h_prefix h.

Definition enc_smh (h : smheader) : bytes :=
  [smh_id h; smh_flags h] ++ enc16 (spec_endian (smh_flags h)) (smh_length h).

Definition enc_sm (m : submsg) : bytes := enc_smh (sm_hdr m) ++ sm_payload m.

Definition enc_msgs (l : list submsg) : bytes := flat_map enc_sm l.

Definition encode (p : packet) : bytes := enc_header (p_hdr p) ++ enc_msgs (p_msgs p).

(* well-formed packet values: fields in the range of their Rust types (u16, [u8; 12], u8, u8, u16, Vec<u8>);
   the length field is the payload length (which is then <= 65535), or it is 0 — and then the payload
   runs to the end of the datagram, so the sub-message is the last one.
   NB a last sub-message with length 0 and an empty payload is a packet different from the one without
   that sub-message, and so is its encoding (4 more bytes). *)
Definition wf_header (h : header) : Prop :=
  (h_version h < 65536)%N /\ (h_vendor h < 65536)%N /\ len (h_prefix h) = 12 /\ wfb (h_prefix h).

Definition wf_smh (h : smheader) : Prop :=
  (smh_id h < 256)%N /\ (smh_flags h < 256)%N /\ (smh_length h < 65536)%N.

Definition wf_sm (m : submsg) : Prop :=
  wf_smh (sm_hdr m) /\ wfb (sm_payload m) /\
  (smh_length (sm_hdr m) = 0%N \/ smh_length (sm_hdr m) = N.of_nat (len (sm_payload m))).

Fixpoint wf_msgs (l : list submsg) : Prop :=
  match l with
  | [] => True
  | m :: r => wf_sm m /\ (smh_length (sm_hdr m) = 0%N -> r = []) /\ wf_msgs r
  end.

Definition wf_packet (p : packet) : Prop := wf_header (p_hdr p) /\ wf_msgs (p_msgs p).

(* the RTPS submessageId table (OMG DDSI-RTPS 9.4.5.1.1), written by hand: the regenerated
   [kind_of_id] of gen/RtpsKinds.v is checked against it *)
Definition id_of_kind (k : smkind) : N :=
  match k with
  | KPad => 1 | KAckNack => 6 | KHeartbeat => 7 | KGap => 8 | KInfoTimestamp => 9
  | KInfoSource => 12 | KInfoReplyIp4 => 13 | KInfoDestination => 14 | KInfoReply => 15
  | KNackFrag => 18 | KHeartbeatFrag => 19 | KData => 21 | KDataFrag => 22
  | KOther id => id
  end%N.
Definition named_ids : list N := [1; 6; 7; 8; 9; 12; 13; 14; 15; 18; 19; 21; 22]%N.

(* ====================== kind table ====================== *)
Lemma kind_table id : id_of_kind (kind_of_id id) = id.
Proof.
  destruct id as [|p]; [reflexivity|].
  do 6 (try (destruct p as [p|p|]; try reflexivity)).
Qed.

Lemma kind_other id : kind_of_id id = KOther id <-> ~ In id named_ids.
Proof.
  destruct id as [|p].
  - split; [intros _ H; cbn in H; intuition discriminate | reflexivity].
  - do 6 (try (destruct p as [p|p|]));
      (split; [intros H; try discriminate H; intros Hin; cbn in Hin; intuition discriminate
              | intros H; try reflexivity; exfalso; apply H; cbn; tauto]).
Qed.

Lemma kind_injective a b : kind_of_id a = kind_of_id b -> a = b.
Proof. intros H. rewrite <- (kind_table a), <- (kind_table b), H. reflexivity. Qed.

Lemma kind_arms_ok : forall id k, In (id, k) kind_arms -> kind_of_id id = k /\ In id named_ids.
Proof.
  intros id k H. cbn in H.
  repeat (destruct H as [H|H]; [inversion H; subst; split; [reflexivity|cbn; tauto]|]). contradiction.
Qed.

(* ====================== list / cursor lemmas ====================== *)
Lemma skipn_len (s : bytes) c : len (skipn c s) = len s - c.
Proof. apply skipn_length. Qed.

Lemma skipn_add (s : bytes) c k : skipn (c + k) s = skipn k (skipn c s).
Proof. rewrite skipn_skipn'. f_equal. lia. Qed.

Lemma skipn_app_exact (x r : bytes) : skipn (len x) (x ++ r) = r.
Proof. induction x; [reflexivity|exact IHx]. Qed.

Lemma firstn_app_exact (x r : bytes) : firstn (len x) (x ++ r) = x.
Proof. induction x; [reflexivity|]. cbn. f_equal. exact IHx. Qed.

Lemma skipn_rest (s : bytes) c x r : skipn c s = x ++ r -> skipn (c + len x) s = r.
Proof. intros H. rewrite skipn_add, H. apply skipn_app_exact. Qed.

Lemma skipn_le (s : bytes) c x r : c <= len s -> skipn c s = x ++ r -> c + len x + len r = len s.
Proof.
  intros Hc H. pose proof (skipn_len s c) as L. rewrite H in L. unfold len in *. rewrite app_length in L. lia.
Qed.

Lemma wfb_skipn s c : wfb s -> wfb (skipn c s).
Proof.
  unfold wfb. rewrite !Forall_forall. intros H x Hx. apply H. eapply In_skipn, Hx.
Qed.

Lemma wfb_app a b : wfb (a ++ b) <-> wfb a /\ wfb b.
Proof. apply Forall_app. Qed.

Lemma wfb_firstn n s : wfb s -> wfb (firstn n s).
Proof.
  unfold wfb. rewrite !Forall_forall. intros H x Hx. apply H. eapply In_firstn, Hx.
Qed.

Lemma prefixb_app p l : prefixb p l = true -> l = p ++ skipn (len p) l.
Proof.
  revert l; induction p as [|x p IH]; intros l H; [reflexivity|].
  destruct l as [|y l]; [discriminate|]. cbn in H. apply andb_true_iff in H as [H1 H2].
  apply N.eqb_eq in H1. subst y. cbn. f_equal. apply IH, H2.
Qed.

Lemma prefixb_self p r : prefixb p (p ++ r) = true.
Proof. induction p; [reflexivity|]. cbn. rewrite N.eqb_refl. exact IHp. Qed.

(* ---------- primitives of Bin.v on the suffix at the cursor ---------- *)
Lemma u8_rest s c b r : skipn c s = b :: r -> u8 s c = POk (b, c, S c) (S c) /\ skipn (S c) s = r.
Proof.
  intros H. unfold u8. rewrite nth_error_skipn, H. split; [reflexivity|].
  replace (S c) with (c + len [b]) by (cbn; lia). apply skipn_rest. exact H.
Qed.

Lemma u8_nil s c : skipn c s = [] -> u8 s c = PErr EEndOfBuffer c.
Proof. intros H. unfold u8. rewrite nth_error_skipn, H. reflexivity. Qed.

Lemma u16_rest e s c a b r :
  wfb s -> skipn c s = a :: b :: r ->
  uN 1 e s c = POk (val e [a; b], c, c + 2) (c + 2) /\ skipn (c + 2) s = r.
Proof.
  intros W H. split.
  - pose proof (skipn_len s c) as L. rewrite H in L. cbn in L.
    rewrite uN_ok by (try assumption; change (width 1) with 2; unfold len in *; lia).
    change (width 1) with 2. unfold sub. replace (c + 2 - c) with 2 by lia. rewrite H. reflexivity.
  - apply (skipn_rest s c [a; b] r). exact H.
Qed.

Lemma u16_short e s c : wfb s -> len (skipn c s) < 2 -> uN 1 e s c = PErr EEndOfBuffer c.
Proof.
  intros W H. rewrite skipn_len in H. apply uN_short; [assumption|]. change (width 1) with 2. lia.
Qed.

Lemma bytevec_rest n s c :
  c <= len s -> n <= len (skipn c s) ->
  bytevec n s c = POk (firstn n (skipn c s), c, c + n) (c + n) /\ skipn (c + n) s = skipn n (skipn c s).
Proof.
  intros Hc H. rewrite skipn_len in H. split; [|apply skipn_add].
  rewrite bytevec_ok by lia. unfold sub. replace (c + n - c) with n by lia. reflexivity.
Qed.

Lemma bytevec_short' n s c : c <= len s -> len (skipn c s) < n -> bytevec n s c = PErr EEndOfBuffer c.
Proof. intros Hc H. rewrite skipn_len in H. apply bytevec_short; lia. Qed.

(* ---------- 16-bit fields ---------- *)
Lemma val_enc16 e v : (v < 65536)%N -> val e (enc16 e v) = v.
Proof. intros H. destruct e; cbn [val valBE enc16 rev app fold_left]; lia. Qed.

Lemma enc16_val e a b : (a < 256)%N -> (b < 256)%N -> enc16 e (val e [a; b]) = [a; b] /\ (val e [a; b] < 65536)%N.
Proof.
  intros Ha Hb. destruct e; cbn [val valBE enc16 rev app fold_left]; (split; [f_equal; [|f_equal]|]; lia).
Qed.

Lemma enc16_len e v : len (enc16 e v) = 2.
Proof. destruct e; reflexivity. Qed.

Lemma enc16_shape e v : exists a b, enc16 e v = [a; b].
Proof. destruct e; cbn; eauto. Qed.

Lemma enc16_wfb e v : (v < 65536)%N -> wfb (enc16 e v).
Proof. intros H. destruct e; cbn; repeat constructor; lia. Qed.

Lemma msg_endian_spec f : msg_endian f = spec_endian f.
Proof. destruct f as [|[p|p|]]; reflexivity. Qed.

Lemma wfb_2 (a b : N) r : wfb (a :: b :: r) -> (a < 256)%N /\ (b < 256)%N.
Proof. intros H. inversion H as [|? ? Ha H']; subst. inversion H' as [|? ? Hb _]; subst. auto. Qed.

Lemma wfb_1 (a : N) r : wfb (a :: r) -> (a < 256)%N.
Proof. intros H. inversion H; subst. assumption. Qed.

(* ====================== header ====================== *)
Lemma MAGIC_eq : MAGIC = [82; 84; 80; 83]%N.
Proof. reflexivity. Qed.

Lemma enc_header_len h : len (h_prefix h) = 12 -> len (enc_header h) = 20.
Proof.
  intros H. unfold enc_header, len in *. rewrite !app_length.
  change (List.length (enc16 Little (h_version h))) with 2. change (List.length (enc16 Little (h_vendor h))) with 2.
  rewrite H. reflexivity.
Qed.

(* what HeaderP does on every input *)
Lemma header_spec s c :
  wfb s -> c <= len s ->
  match header_p s c with
  | POk (h, a, b) c' => a = c /\ b = c' /\ c' = c + 20 /\ wf_header h /\ skipn c s = enc_header h ++ skipn c' s
  | PErr k c' => c' = c
  | PPanic | PFuel => False
  end.
Proof.
  intros W Hc. unfold header_p, exact. apply Nat.leb_le in Hc as Hc'. rewrite Hc'.
  destruct (prefixb MAGIC (skipn c s)) eqn:Em; [|reflexivity].
  apply prefixb_app in Em. rewrite MAGIC_eq in *. change (len [82; 84; 80; 83]%N) with 4 in *.
  assert (W4 : wfb (skipn (c + 4) s)) by apply wfb_skipn, W.
  rewrite <- skipn_add in Em.
  unfold protocol_version_p.
  destruct (skipn (c + 4) s) as [|v0 [|v1 r1]] eqn:E1.
  { rewrite u16_short by (try assumption; rewrite E1; cbn; lia). unfold restore. rewrite Hc'. reflexivity. }
  { rewrite u16_short by (try assumption; rewrite E1; cbn; lia). unfold restore. rewrite Hc'. reflexivity. }
  destruct (u16_rest Little s (c + 4) v0 v1 r1 W E1) as [-> E2].
  unfold vendor_id_p.
  assert (W6 : wfb r1) by (rewrite <- E2; apply wfb_skipn, W).
  destruct r1 as [|w0 [|w1 r2]].
  { rewrite u16_short by (try assumption; rewrite E2; cbn; lia). unfold restore. rewrite Hc'. reflexivity. }
  { rewrite u16_short by (try assumption; rewrite E2; cbn; lia). unfold restore. rewrite Hc'. reflexivity. }
  destruct (u16_rest Little s (c + 4 + 2) w0 w1 r2 W E2) as [-> E3].
  unfold guid_prefix_p.
  assert (Hc8 : c + 4 + 2 + 2 <= len s).
  { pose proof (skipn_len s (c + 4 + 2)) as L. rewrite E2 in L. cbn in L. unfold len in *. lia. }
  destruct (le_lt_dec 12 (len (skipn (c + 4 + 2 + 2) s))) as [H12|H12].
  - destruct (bytevec_rest 12 s _ Hc8 H12) as [-> E4].
    assert (L12 : len (firstn 12 (skipn (c + 4 + 2 + 2) s)) = 12).
    { unfold len in *. rewrite firstn_length. lia. }
    rewrite L12. cbn [Nat.eqb].
    destruct (wfb_2 _ _ _ W4) as [Hv0 Hv1]. destruct (wfb_2 _ _ _ W6) as [Hw0 Hw1].
    destruct (enc16_val Little v0 v1 Hv0 Hv1) as [Ev Bv]. destruct (enc16_val Little w0 w1 Hw0 Hw1) as [Ew Bw].
    repeat split; try lia; cbn [h_version h_vendor h_prefix]; try assumption.
    + apply wfb_firstn. rewrite E3. inversion W6 as [|? ? _ W7]; subst. inversion W7; subst. assumption.
    + rewrite Em. unfold enc_header. cbn [h_version h_vendor h_prefix]. rewrite Ev, Ew.
      cbn [app]. do 8 f_equal. rewrite <- E3. rewrite E4. symmetry. apply firstn_skipn.
  - rewrite bytevec_short' by assumption. unfold restore. rewrite Hc'. reflexivity.
Qed.

(* HeaderP reads back an encoded header *)
Lemma header_enc s c h r :
  wfb s -> c <= len s -> wf_header h -> skipn c s = enc_header h ++ r ->
  header_p s c = POk (h, c, c + 20) (c + 20) /\ skipn (c + 20) s = r.
Proof.
  intros W Hc (Hv & Hw & Lp & Wp) E.
  split; [|rewrite <- (enc_header_len h Lp); apply skipn_rest, E].
  pose proof (skipn_le s c _ _ Hc E) as Ltot. rewrite (enc_header_len h Lp) in Ltot.
  unfold header_p, exact. apply Nat.leb_le in Hc as Hc'. rewrite Hc'.
  unfold enc_header in E. rewrite <- app_assoc in E.
  rewrite E. rewrite MAGIC_eq. rewrite prefixb_self.
  change (len [82; 84; 80; 83]%N) with 4.
  apply skipn_rest in E. change (len [82; 84; 80; 83]%N) with 4 in E.
  destruct (enc16_shape Little (h_version h)) as (v0 & v1 & Ev).
  destruct (enc16_shape Little (h_vendor h)) as (w0 & w1 & Ew).
  rewrite Ev in E. cbn [app] in E.
  unfold protocol_version_p. destruct (u16_rest Little s (c + 4) v0 v1 _ W E) as [-> E2].
  rewrite <- Ev, val_enc16 by assumption.
  rewrite Ew in E2. cbn [app] in E2.
  unfold vendor_id_p. destruct (u16_rest Little s (c + 4 + 2) w0 w1 _ W E2) as [-> E3].
  rewrite <- Ew, val_enc16 by assumption.
  unfold guid_prefix_p.
  assert (H12 : 12 <= len (skipn (c + 4 + 2 + 2) s)).
  { rewrite E3. unfold len in *. rewrite app_length. lia. }
  destruct (bytevec_rest 12 s (c + 4 + 2 + 2) ltac:(lia) H12) as [-> _].
  rewrite E3. rewrite <- Lp. rewrite firstn_app_exact. rewrite Lp. cbn [Nat.eqb].
  replace (c + 4 + 2 + 2 + 12) with (c + 20) by lia.
  destruct h; reflexivity.
Qed.

(* ====================== sub-message header ====================== *)
Lemma enc_smh_len h : len (enc_smh h) = 4.
Proof. unfold enc_smh. destruct (spec_endian (smh_flags h)); reflexivity. Qed.

Lemma smheader_spec s c :
  wfb s -> c <= len s ->
  match smheader_p s c with
  | POk (h, a, b) c' => a = c /\ b = c' /\ c' = c + 4 /\ wf_smh h /\ skipn c s = enc_smh h ++ skipn c' s
  | PErr k c' => c' = c
  | PPanic | PFuel => False
  end.
Proof.
  intros W Hc. apply Nat.leb_le in Hc as Hc'. unfold smheader_p.
  assert (Wc : wfb (skipn c s)) by apply wfb_skipn, W.
  destruct (skipn c s) as [|id r] eqn:E.
  { rewrite (u8_nil s c E). reflexivity. }
  destruct (u8_rest s c id r E) as [-> E1].
  destruct r as [|fl r1].
  { rewrite (u8_nil s (S c) E1). unfold restore. rewrite Hc'. reflexivity. }
  destruct (u8_rest s (S c) fl r1 E1) as [-> E2].
  assert (W2 : wfb r1) by (inversion Wc as [|? ? _ W1]; subst; inversion W1; subst; assumption).
  destruct r1 as [|a [|b r2]].
  { rewrite u16_short by (try assumption; rewrite E2; cbn; lia). unfold restore. rewrite Hc'. reflexivity. }
  { rewrite u16_short by (try assumption; rewrite E2; cbn; lia). unfold restore. rewrite Hc'. reflexivity. }
  destruct (u16_rest (msg_endian fl) s (S (S c)) a b r2 W E2) as [-> E3].
  destruct (wfb_2 _ _ _ Wc) as [Hid Hfl]. destruct (wfb_2 _ _ _ W2) as [Ha Hb].
  destruct (enc16_val (msg_endian fl) a b Ha Hb) as [Ev Bv].
  repeat split; try lia; cbn [smh_id smh_flags smh_length]; try assumption.
  unfold enc_smh. cbn [smh_id smh_flags smh_length]. rewrite <- msg_endian_spec, Ev. cbn [app].
  rewrite E3. reflexivity.
Qed.

Lemma smheader_enc s c h r :
  wfb s -> wf_smh h -> skipn c s = enc_smh h ++ r ->
  smheader_p s c = POk (h, c, c + 4) (c + 4) /\ skipn (c + 4) s = r.
Proof.
  intros W (Hid & Hfl & Hl) E.
  split; [|rewrite <- (enc_smh_len h); apply skipn_rest, E].
  unfold smheader_p. unfold enc_smh in E. cbn [app] in E.
  destruct (u8_rest s c _ _ E) as [-> E1]. destruct (u8_rest s (S c) _ _ E1) as [-> E2].
  destruct (enc16_shape (spec_endian (smh_flags h)) (smh_length h)) as (a & b & Ev).
  rewrite Ev in E2. cbn [app] in E2. rewrite msg_endian_spec.
  destruct (u16_rest (spec_endian (smh_flags h)) s (S (S c)) a b r W E2) as [-> _].
  rewrite <- Ev, val_enc16 by assumption.
  replace (S (S c) + 2) with (c + 4) by lia. destruct h; reflexivity.
Qed.

(* ====================== sub-message ====================== *)
Lemma enc_sm_len m : len (enc_sm m) = 4 + len (sm_payload m).
Proof. unfold enc_sm, len. rewrite app_length. fold (len (enc_smh (sm_hdr m))). rewrite enc_smh_len. reflexivity. Qed.

Lemma submsg_spec s c :
  wfb s -> c <= len s ->
  match submsg_p s c with
  | POk (m, a, b) c' =>
      a = c /\ b = c' /\ c' = c + len (enc_sm m) /\ c' <= len s /\ wf_sm m /\
      skipn c s = enc_sm m ++ skipn c' s /\ (smh_length (sm_hdr m) = 0%N -> c' = len s)
  | PErr k c' => c' <= len s
  | PPanic | PFuel => False
  end.
Proof.
  intros W Hc. unfold submsg_p. pose proof (smheader_spec s c W Hc) as H.
  destruct (smheader_p s c) as [[[h a] b] c1|k c1| |]; [|lia|exact H|exact H].
  destruct H as (-> & -> & -> & Wh & E).
  pose proof (skipn_le s c _ _ Hc E) as Ltot. rewrite enc_smh_len in Ltot.
  assert (Hc4 : c + 4 <= len s) by lia.
  set (R := skipn (c + 4) s) in *.
  assert (WR : wfb R) by apply wfb_skipn, W.
  pose proof Wh as (Wh1 & Wh2 & Wh3).
  destruct (N.eqb_spec (smh_length h) 0) as [L0|L0].
  - unfold remaining. apply Nat.leb_le in Hc4 as Hc4'. rewrite Hc4'.
    assert (Ln : len s - (c + 4) = len R) by (unfold R; rewrite skipn_len; reflexivity).
    rewrite Ln.
    destruct (bytevec_rest (len R) s (c + 4) Hc4 (le_n _)) as [-> E2]. fold R in E2 |- *.
    unfold len at 1 3. rewrite firstn_all. fold (len R).
    rewrite enc_sm_len. cbn [sm_payload sm_hdr].
    repeat split; try lia; cbn [sm_payload sm_hdr]; try assumption.
    + left. exact L0.
    + rewrite E2. unfold len. rewrite skipn_all, app_nil_r. unfold enc_sm. cbn [sm_payload sm_hdr]. exact E.
  - set (n := N.to_nat (smh_length h)).
    destruct (le_lt_dec n (len R)) as [Hn|Hn].
    + destruct (bytevec_rest n s (c + 4) Hc4 Hn) as [-> E2]. fold R in E2 |- *.
      assert (Lf : len (firstn n R) = n) by (unfold len in *; rewrite firstn_length; lia).
      rewrite enc_sm_len. cbn [sm_payload sm_hdr]. rewrite Lf.
      repeat split; try lia; cbn [sm_payload sm_hdr]; try assumption.
      * apply wfb_firstn, WR.
      * right. rewrite Lf. unfold n. rewrite N2Nat.id. reflexivity.
      * unfold enc_sm. cbn [sm_payload sm_hdr]. rewrite <- app_assoc.
        replace (c + (4 + n)) with (c + 4 + n) by lia. rewrite E2, firstn_skipn. exact E.
    + rewrite bytevec_short' by assumption. exact Hc4.
Qed.

Lemma submsg_enc s c m r :
  wfb s -> c <= len s -> wf_sm m -> skipn c s = enc_sm m ++ r ->
  (smh_length (sm_hdr m) = 0%N -> r = []) ->
  submsg_p s c = POk (m, c, c + len (enc_sm m)) (c + len (enc_sm m)) /\ skipn (c + len (enc_sm m)) s = r.
Proof.
  intros W Hc (Wh & Wp & Hl) E Hlast.
  split; [|apply skipn_rest, E].
  pose proof (skipn_le s c _ _ Hc E) as Ltot. rewrite enc_sm_len in *.
  unfold enc_sm in E. rewrite <- app_assoc in E.
  unfold submsg_p. destruct (smheader_enc s c _ _ W Wh E) as [-> E1].
  assert (Hc4 : c + 4 <= len s) by lia.
  destruct (N.eqb_spec (smh_length (sm_hdr m)) 0) as [L0|L0].
  - rewrite (Hlast L0) in *. rewrite app_nil_r in E1. unfold remaining. apply Nat.leb_le in Hc4 as Hc4'. rewrite Hc4'.
    assert (Ln : len s - (c + 4) = len (sm_payload m)) by (cbn [len List.length] in Ltot; unfold len in *; lia).
    rewrite Ln.
    destruct (bytevec_rest (len (sm_payload m)) s (c + 4) Hc4 ltac:(rewrite E1; apply le_n)) as [-> _].
    rewrite E1. unfold len at 1. rewrite firstn_all.
    replace (c + 4 + len (sm_payload m)) with (c + (4 + len (sm_payload m))) by lia.
    destruct m; reflexivity.
  - destruct Hl as [Hl|Hl]; [contradiction|].
    rewrite Hl, Nat2N.id.
    destruct (bytevec_rest (len (sm_payload m)) s (c + 4) Hc4
                ltac:(rewrite E1; unfold len; rewrite app_length; lia)) as [-> _].
    rewrite E1, firstn_app_exact.
    replace (c + 4 + len (sm_payload m)) with (c + (4 + len (sm_payload m))) by lia.
    destruct m; reflexivity.
Qed.

(* ====================== the packet loop ====================== *)
Lemma enc_msgs_nil l : enc_msgs l = [] -> l = [].
Proof.
  destruct l as [|m l]; [reflexivity|]. intros H. exfalso.
  apply (f_equal len) in H. unfold enc_msgs in H. cbn [flat_map] in H. unfold len in H.
  rewrite app_length in H. fold (len (enc_sm m)) in H. rewrite enc_sm_len in H. cbn in H. lia.
Qed.

Lemma msgs_loop_spec fuel : forall s c,
  wfb s -> c <= len s -> len s - c < fuel ->
  match msgs_loop fuel s c with
  | POk l c' => c' = len s /\ wf_msgs l /\ skipn c s = enc_msgs l
  | PErr k c' => c' <= len s
  | PPanic | PFuel => False
  end.
Proof.
  induction fuel as [|f IH]; intros s c W Hc Hf; [lia|].
  cbn [msgs_loop]. unfold remaining. apply Nat.leb_le in Hc as Hc'. rewrite Hc'.
  destruct (len s - c) as [|d] eqn:D.
  - repeat split; [lia|]. unfold len in *. rewrite skipn_all2 by lia. reflexivity.
  - pose proof (submsg_spec s c W Hc) as H.
    destruct (submsg_p s c) as [[[m a] b] c1|k c1| |]; [|exact H|exact H|exact H].
    destruct H as (-> & -> & -> & Hc1 & Wm & E & Hz).
    rewrite enc_sm_len in *.
    specialize (IH s (c + (4 + len (sm_payload m))) W Hc1 ltac:(lia)).
    destruct (msgs_loop f s (c + (4 + len (sm_payload m)))) as [l c2|k c2| |]; try exact IH.
    destruct IH as (-> & Wl & El).
    split; [reflexivity|]. split.
    + cbn [wf_msgs]. split; [exact Wm|]. split; [|exact Wl].
      intros L0. apply enc_msgs_nil. rewrite <- El. rewrite (Hz L0). unfold len. apply skipn_all.
    + rewrite E, El. reflexivity.
Qed.

Lemma msgs_loop_enc l : forall fuel s c,
  wfb s -> c <= len s -> wf_msgs l -> skipn c s = enc_msgs l -> len s - c < fuel ->
  msgs_loop fuel s c = POk l (len s).
Proof.
  induction l as [|m l IH]; intros fuel s c W Hc Wl E Hf.
  - destruct fuel as [|f]; [lia|]. cbn [msgs_loop]. unfold remaining.
    apply Nat.leb_le in Hc as Hc'. rewrite Hc'.
    pose proof (skipn_len s c) as L. rewrite E in L. cbn in L. rewrite <- L.
    f_equal. unfold len in *. lia.
  - destruct fuel as [|f]; [lia|]. cbn [msgs_loop]. unfold remaining.
    apply Nat.leb_le in Hc as Hc'. rewrite Hc'.
    destruct Wl as (Wm & Hlast & Wl). unfold enc_msgs in E. cbn [flat_map] in E. fold (enc_msgs l) in E.
    pose proof (skipn_le s c _ _ Hc E) as Ltot. pose proof (enc_sm_len m) as Lm.
    destruct (len s - c) as [|d] eqn:D; [lia|].
    destruct (submsg_enc s c m (enc_msgs l) W Hc Wm E) as [-> E1].
    { intros L0. rewrite (Hlast L0). reflexivity. }
    rewrite (IH f s (c + len (enc_sm m)) W ltac:(lia) Wl E1 ltac:(lia)). reflexivity.
Qed.

(* ====================== the packet reader ====================== *)
Lemma packet_spec s :
  wfb s ->
  match packet_p s 0 with
  | POk (p, a, b) c' => a = 0 /\ b = len s /\ c' = len s /\ wf_packet p /\ encode p = s
  | PErr k c' => c' <= len s
  | PPanic | PFuel => False
  end.
Proof.
  intros W. unfold packet_p. pose proof (header_spec s 0 W ltac:(lia)) as H.
  destruct (header_p s 0) as [[[h a] b] c1|k c1| |]; [|lia|exact H|exact H].
  destruct H as (-> & -> & -> & Wh & E). cbn [Nat.add] in *.
  pose proof (skipn_le s 0 _ _ ltac:(lia) E) as Ltot. rewrite enc_header_len in Ltot by apply Wh.
  pose proof (msgs_loop_spec (S (len s)) s 20 W ltac:(lia) ltac:(lia)) as H.
  destruct (msgs_loop (S (len s)) s 20) as [l c2|k c2| |]; try exact H.
  destruct H as (-> & Wl & El).
  split; [reflexivity|]. split; [reflexivity|]. split; [reflexivity|]. split; [split; assumption|].
  unfold encode. cbn [p_hdr p_msgs]. rewrite <- El. symmetry. exact E.
Qed.

Lemma wfb_encode p : wf_packet p -> wfb (encode p).
Proof.
  intros [(Hv & Hw & _ & Wp) Wl]. unfold encode, enc_header.
  repeat (apply wfb_app; split); try assumption; try (apply enc16_wfb; assumption).
  - repeat constructor; lia.
  - clear -Wl. induction (p_msgs p) as [|m l IH]; [constructor|].
    destruct Wl as (((Hid & Hfl & Hl) & Wpl & _) & _ & Wl).
    unfold enc_msgs. cbn [flat_map]. apply wfb_app. split; [|apply IH, Wl].
    unfold enc_sm, enc_smh. repeat (apply wfb_app; split); try assumption.
    + repeat constructor; assumption.
    + apply enc16_wfb, Hl.
Qed.

Theorem decode_encode s p : wfb s -> decode s = Ok p -> encode p = s.
Proof.
  intros W H. unfold decode in H. pose proof (packet_spec s W) as S.
  destruct (packet_p s 0) as [[[q a] b] c| | |]; try discriminate.
  inversion H; subst. tauto.
Qed.

Theorem decode_wf s p : wfb s -> decode s = Ok p -> wf_packet p.
Proof.
  intros W H. unfold decode in H. pose proof (packet_spec s W) as S.
  destruct (packet_p s 0) as [[[q a] b] c| | |]; try discriminate.
  inversion H; subst. tauto.
Qed.

Theorem encode_decode p : wf_packet p -> decode (encode p) = Ok p.
Proof.
  intros Wp. pose proof (wfb_encode p Wp) as W. destruct Wp as [Wh Wl].
  unfold decode, packet_p.
  destruct (header_enc (encode p) 0 (p_hdr p) (enc_msgs (p_msgs p)) W ltac:(lia) Wh eq_refl) as [-> E].
  cbn [Nat.add] in *.
  assert (L20 : 20 <= len (encode p)).
  { unfold encode, len. rewrite app_length. fold (len (enc_header (p_hdr p))).
    rewrite enc_header_len by apply Wh. lia. }
  rewrite (msgs_loop_enc (p_msgs p) (S (len (encode p))) (encode p) 20 W L20 Wl E) by lia.
  destruct p; reflexivity.
Qed.

Theorem decode_total s : wfb s -> decode s <> Panic /\ decode s <> Fuel.
Proof.
  intros W. unfold decode. pose proof (packet_spec s W) as S.
  destruct (packet_p s 0) as [[[q a] b] c| | |]; try contradiction; split; discriminate.
Qed.

Theorem decode_ok_iff s p : wfb s -> (decode s = Ok p <-> wf_packet p /\ encode p = s).
Proof.
  intros W. split.
  - intros H. split; [eapply decode_wf|eapply decode_encode]; eassumption.
  - intros [Wp <-]. apply encode_decode, Wp.
Qed.

(* the cursor after every call stays inside the buffer (used by nothing else; documents the error path:
   a short payload leaves the cursor after the sub-message header) *)
Theorem packet_cursor s : wfb s ->
  match packet_p s 0 with POk _ c | PErr _ c => c <= len s | _ => False end.
Proof.
  intros W. pose proof (packet_spec s W) as S.
  destruct (packet_p s 0) as [[[q a] b] c| | |]; try exact S. lia.
Qed.

(* ====================== the hypotheses are satisfiable; examples ====================== *)
Definition ex_hdr : header := mkHeader 258 271 [0; 1; 2; 3; 4; 5; 6; 7; 8; 9; 10; 11]%N.
(* one big-endian Data sub-message of 2 bytes, then a little-endian one whose length 0 means "the rest" *)
Definition ex_packet : packet :=
  mkPacket ex_hdr [mkSm (mkSmh 21 0 2) [7; 8]%N; mkSm (mkSmh 9 1 0) [1; 2; 3]%N].
(* no sub-message vs. one sub-message with length 0 and an empty payload *)
Definition ex_none : packet := mkPacket ex_hdr [].
Definition ex_empty_last : packet := mkPacket ex_hdr [mkSm (mkSmh 1 0 0) []].

Example ex_packet_wf : wf_packet ex_packet.
Proof.
  unfold wf_packet, wf_header, wf_msgs, wf_sm, wf_smh, wfb; cbn.
  repeat split; try lia; try (repeat constructor; lia); try (intros; discriminate); auto.
Qed.
Example ex_none_wf : wf_packet ex_none.
Proof. unfold wf_packet, wf_header, wfb; cbn. repeat split; try lia. repeat constructor; lia. Qed.
Example ex_empty_last_wf : wf_packet ex_empty_last.
Proof.
  unfold wf_packet, wf_header, wf_msgs, wf_sm, wf_smh, wfb; cbn.
  repeat split; try lia; try (repeat constructor; lia); auto.
Qed.
Example ex_distinct : encode ex_none <> encode ex_empty_last /\
  decode (encode ex_none) = Ok ex_none /\ decode (encode ex_empty_last) = Ok ex_empty_last.
Proof. split; [discriminate|split; vm_compute; reflexivity]. Qed.
Example ex_packet_bytes : encode ex_packet =
  [82; 84; 80; 83; 2; 1; 15; 1; 0; 1; 2; 3; 4; 5; 6; 7; 8; 9; 10; 11; 21; 0; 0; 2; 7; 8; 9; 1; 0; 0; 1; 2; 3]%N.
Proof. reflexivity. Qed.
(* an inner sub-message with length 0 is not well-formed: its encoding decodes to another packet *)
Example ex_inner_zero :
  let p := mkPacket ex_hdr [mkSm (mkSmh 1 0 0) []; mkSm (mkSmh 6 0 1) [5]%N] in
  ~ wf_packet p /\ exists q, decode (encode p) = Ok q /\ q <> p.
Proof.
  split.
  - intros (_ & _ & H & _). specialize (H eq_refl). discriminate.
  - eexists. split; [vm_compute; reflexivity|discriminate].
Qed.
