(* Proofs/ObjTotal.v — the object parser is total: no panic site reachable, fuel never exhausted, and a
   successful parse consumes at least one byte and stays inside the buffer.  (From parse_obj_wbs, proved
   in Proofs/ContentLexTotal.v on top of the token parsers' no-panic lemmas of C15.) *)
From PV Require Import Model.Obj Proofs.ContentLexTotal.
From Coq Require Import Lia.

Theorem parse_obj_total rel s b c :
  (Z.of_nat (len s) < 2147483648)%Z -> c <= len s ->
  parse_obj rel b s c <> PPanic /\ parse_obj rel b s c <> PFuel /\
  (forall v c', parse_obj rel b s c = POk v c' -> c < c' /\ c' <= len s).
Proof.
  intros Hs Hc. pose proof (parse_obj_wbs rel s (lit_fine_small rel s Hs) b c Hc) as W.
  destruct (parse_obj rel b s c) as [v1 c1|k1 c1| |]; cbn in W; try contradiction.
  - split; [discriminate|]. split; [discriminate|]. intros v2 c2 E. inversion E; subst. exact W.
  - split; [discriminate|]. split; [discriminate|]. intros v2 c2 E. discriminate E.
Qed.

Theorem parse_obj_total_release s b c :
  c <= len s ->
  parse_obj true b s c <> PPanic /\ parse_obj true b s c <> PFuel.
Proof.
  intros Hc. pose proof (parse_obj_wbs true s (lit_fine_release s) b c Hc) as W.
  destruct (parse_obj true b s c); cbn in W; try contradiction; split; discriminate.
Qed.
