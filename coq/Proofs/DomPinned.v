(* Proofs/DomPinned.v — what the reference-following helpers did before the repairs
   (commits b59123f, 989a639 in /repo): findings C11-10 and C11-11.
   The full-model versions of these two statements (forall n, to_page_dom n W10 root = DFuel;
   to_page_dom on W11 gives page 3 the font F0 of its parent) were checked against the model of the
   pinned code before the repair was committed; the repaired model no longer contains that code, so
   what remains here is stated on the helpers themselves. *)
From PV Require Import Model.Dom.

Section SelfRef.
  (* a context in which object 5 0 is `5 0 R` *)
  Variable c : octx.
  Hypothesis self : lookup c (5, 0)%N = Some (ORef 5 0).

  Lemma pinned_kids_selfref : forall n q r, Pinned.to_page_kids n c q r (ORef 5 0) = OFuel.
  Proof. induction n; intros; simpl; auto. rewrite self. apply IHn. Qed.
  Lemma pinned_contents_selfref : forall n, Pinned.to_page_contents n c (ORef 5 0) = OFuel.
  Proof. induction n; intros; simpl; auto. rewrite self. apply IHn. Qed.
  Lemma pinned_content_selfref : forall n, Pinned.to_page_content n c (ORef 5 0) = OFuel.
  Proof. induction n; intros; simpl; auto. rewrite self. apply IHn. Qed.
  Lemma pinned_fontvalue_selfref : forall f n, Pinned.to_resource_font_value f n c (ORef 5 0) = DFuel.
  Proof. induction n; intros; simpl; auto. rewrite self. apply IHn. Qed.
  Lemma pinned_encoding_selfref : forall n, Pinned.to_encoding n c (ORef 5 0) = DFuel.
  Proof. induction n; intros; simpl; auto. rewrite self. apply IHn. Qed.

  (* the repaired helpers on the same context: an error, not fuel *)
  Lemma selfref_follow : follow c (ORef 5 0) = CELoop (5, 0)%N.
  Proof.
    unfold follow. destruct c as [|x c']; [discriminate self|].
    cbn [len List.length follow_references oid_mem existsb]. rewrite self.
    destruct (List.length c'); reflexivity.
  Qed.
  Lemma repaired_kids_selfref : forall q r, to_page_kids c q r (ORef 5 0) = ONone.
  Proof. intros. unfold to_page_kids. rewrite selfref_follow. reflexivity. Qed.
  Lemma repaired_contents_selfref : to_page_contents c (ORef 5 0) = ONone.
  Proof. unfold to_page_contents. rewrite selfref_follow. reflexivity. Qed.
  Lemma repaired_fontvalue_selfref : to_resource_font_value c (ORef 5 0) = DErr (ReferenceLoop (5, 0)%N).
  Proof. unfold to_resource_font_value. rewrite selfref_follow. reflexivity. Qed.
  Lemma repaired_encoding_selfref : to_encoding c (ORef 5 0) = DErr (ReferenceLoop (5, 0)%N).
  Proof. unfold to_encoding. rewrite selfref_follow. reflexivity. Qed.
End SelfRef.

(* the hypothesis is satisfiable *)
Example selfref_ctx : lookup [((5, 0)%N, ORef 5 0)] (5, 0)%N = Some (ORef 5 0).
Proof. reflexivity. Qed.

(* C11-11: /Resources 7 0 R, 7 0 obj 8 0 R, 8 0 obj << /Font … >> *)
Definition W11 : octx :=
  [((7, 0)%N, ORef 8 0); ((8, 0)%N, ODict [(B "Font", ODict [(B "F1", ORef 11 0)])])].
Definition W11_page : dict :=
  [(B "Contents", ORef 4 0); (B "Parent", ORef 2 0); (B "Resources", ORef 7 0); (B "Type", OName (B "Page"))].

Lemma pinned_resources_two_refs : Pinned.get_resolved_dict W11 W11_page (B "Resources") = None.
Proof. vm_compute. reflexivity. Qed.
Lemma repaired_resources_two_refs :
  get_resolved_dict W11 W11_page (B "Resources") = OSome [(B "Font", ODict [(B "F1", ORef 11 0)])].
Proof. vm_compute. reflexivity. Qed.
