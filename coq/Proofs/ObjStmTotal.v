(* Proofs/ObjStmTotal.v — C14 totality (for the C01 story): on ANY dictionary, content and
   context the object-stream parser neither panics nor runs out of model fuel.  The object
   parser's own totality is parse_obj_total / parse_obj_total_release (Proofs/ObjTotal.v). *)
From PV Require Import Model.Prim Model.Obj Model.ObjStm.
From PV Require Import Proofs.PrimBase Proofs.PrimTok Proofs.PrimWs Proofs.ContentLexTotal Proofs.ObjTotal Proofs.XrefStm.
From Coq Require Import Lia ZifyBool ZifyNat ZifyN.

Lemma os_meta_fine s : forall fuel n c last acc,
  c <= len s -> len s - c < fuel -> fine (os_meta fuel n s c last acc).
Proof.
  induction fuel as [|fuel IH]; intros n c last acc L Fu; [lia|]. cbn [os_meta]. unfold bind.
  pose proof (ws_wb true s c L) as W1. destruct (ws_eol true s c) as [u1 c1| | |]; cbn in W1; try tauto; try exact I.
  destruct W1 as [A1 L1].
  pose proof (integer_wbs s c1 L1) as W2. destruct (integer s c1) as [o c2| | |]; cbn in W2; try tauto; try exact I.
  destruct W2 as [A2 L2]. destruct (negb (int_is_usize (lv_val o))); [rewrite setc_ok by exact L1; exact I|].
  pose proof (ws_wb true s c2 L2) as W3. destruct (ws_eol true s c2) as [u3 c3| | |]; cbn in W3; try tauto; try exact I.
  destruct W3 as [A3 L3].
  pose proof (integer_wbs s c3 L3) as W4. destruct (integer s c3) as [f c4| | |]; cbn in W4; try tauto; try exact I.
  destruct W4 as [A4 L4]. destruct (negb (int_is_usize (lv_val f))); [rewrite setc_ok by exact L3; exact I|].
  destruct (_ && _); [rewrite setc_ok by exact L3; exact I|].
  destruct (N.eqb _ n); [exact I|]. apply IH; lia.
Qed.

Section Content.
  Variable rel : bool.
  Variable b : nat.
  Variable s : bytes.
  Hypothesis Hobj : forall c, c <= len s -> fine (parse_obj rel b s c).

  Lemma os_objs_fine meta : forall c ctx, fine (fst (os_objs rel b meta s c ctx)).
  Proof.
    induction meta as [|[onum ofs] r IH]; intros c ctx; cbn [os_objs]; [exact I|].
    destruct (ofs <? N.of_nat c)%N; [exact I|].
    destruct (N.ltb_spec (N.of_nat (len s)) ofs); [exact I|].
    unfold set_cursor. destruct (Nat.leb_spec (N.to_nat ofs) (len s)) as [L0|]; [|exact I].
    pose proof (ws_wb true s _ L0) as W1. destruct (ws_eol true s (N.to_nat ofs)) as [u1 c1| | |]; cbn in W1; try tauto; try exact I.
    destruct W1 as [A1 L1]. pose proof (Hobj c1 L1) as F. destruct (parse_obj rel b s c1) as [o c2| | |]; cbn in F; try tauto; try exact I.
    destruct (register_obj ctx (onum, 0%N) (lv_val o)) as [ctx' [old|]]; [exact I|].
    specialize (IH c2 ctx'). destruct (os_objs rel b r s c2 ctx') as [[] ctx'']; cbn in *; tauto.
  Qed.
End Content.

Lemma os_dict_info_fine d : match os_dict_info d with Ok _ | Err _ => True | _ => False end.
Proof.
  unfold os_dict_info. destruct (get_name d (B "Type")); [|exact I]. destruct (negb _); [exact I|].
  destruct (get_usize d (B "N")); [|exact I]. destruct (get_usize d (B "First")); exact I.
Qed.

Theorem objstm_total_gen rel b enc d content dec ctx :
  (forall s c, len s <= Nat.max (len content) (len dec) -> c <= len s -> fine (parse_obj rel b s c)) ->
  fst (objstm_parse rel b enc d content dec ctx) <> OSPanic /\ fst (objstm_parse rel b enc d content dec ctx) <> OSFuel.
Proof.
  intros Hobj. unfold objstm_parse.
  pose proof (os_dict_info_fine d) as F1. destruct (os_dict_info d) as [[n first]| | |]; try contradiction; [|cbn [fst]; split; discriminate].
  pose proof (stream_filters_guard d) as F2. destruct (stream_filters d) as [fl|[]| |]; try contradiction; [|cbn [fst]; split; discriminate].
  destruct enc; [cbn [fst]; split; discriminate|]. destruct (negb _); [cbn [fst]; split; discriminate|].
  cbv zeta. match goal with |- context [firstn (N.to_nat first) ?x] => set (buf := x) end.
  assert (LB : len buf <= Nat.max (len content) (len dec)) by (subst buf; destruct fl; lia).
  destruct (N.of_nat (len buf) <? first)%N; [cbn [fst]; split; discriminate|].
  pose proof (os_meta_fine (firstn (N.to_nat first) buf) (S (len (firstn (N.to_nat first) buf))) n 0 0%N [] ltac:(lia) ltac:(lia)) as FM.
  destruct (os_meta _ n _ 0 0%N []) as [meta cm| | |]; cbn in FM; try tauto; [|cbn [fst]; split; discriminate].
  destruct (N.of_nat (len buf) <=? first)%N; [cbn [fst]; split; discriminate|].
  pose proof (os_objs_fine rel b (skipn (N.to_nat first) buf)) as FO.
  specialize (FO ltac:(intros c Hc; apply Hobj; [rewrite len_skipn; lia|exact Hc]) meta 0 ctx).
  destruct (os_objs rel b meta _ 0 ctx) as [r ctx']. cbn [fst] in *. destruct r; cbn in *; try tauto; cbn [fst]; split; discriminate.
Qed.

(* C14_total: debug profile, buffers below 2^31 bytes (the i32 parenthesis counter of literal strings) *)
Theorem objstm_total rel b enc d content dec ctx :
  (Z.of_nat (len content) < 2147483648)%Z -> (Z.of_nat (len dec) < 2147483648)%Z ->
  fst (objstm_parse rel b enc d content dec ctx) <> OSPanic /\ fst (objstm_parse rel b enc d content dec ctx) <> OSFuel.
Proof.
  intros B1 B2. apply objstm_total_gen. intros s c Ls Lc. apply fine_iff.
  destruct (parse_obj_total rel s b c ltac:(lia) Lc) as (P1 & P2 & _). split; assumption.
Qed.

(* release profile: any size *)
Theorem objstm_total_release b enc d content dec ctx :
  fst (objstm_parse true b enc d content dec ctx) <> OSPanic /\ fst (objstm_parse true b enc d content dec ctx) <> OSFuel.
Proof.
  apply objstm_total_gen. intros s c _ Lc. apply fine_iff. apply (parse_obj_total_release s b c Lc).
Qed.
