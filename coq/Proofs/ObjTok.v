(* Proofs/ObjTok.v — C02, token level: a spelled token, placed anywhere in a text
   (pre ++ spelling ++ rest, cursor at len pre) and followed by a legal context, is read by its
   parser as exactly the value spelled, the cursor ending right behind the spelling.
   Whitespace/comments, numbers (through the dispatcher arm number_or_ref with its look-ahead),
   integers as read by IntegerP (for references), keywords. *)
From PV Require Import Model.Obj Spec.Spelling Proofs.PrimBase Proofs.PrimTok Proofs.PrimWs Proofs.ObjDepth Proofs.ObjStream.
From Coq Require Import Lia.

(* ------------------------------------------------------------------ scanning runs *)
(* what may follow a run scanned by parse_allowed_bytes(set): nothing, or a byte outside the set *)
Definition stops (set : bytes) (rest : bytes) : Prop :=
  match rest with [] => True | b :: _ => memb b set = false end.
(* what may follow a run scanned by parse_bytes_until(set): nothing, or a byte of the set *)
Definition stops_until (set : bytes) (rest : bytes) : Prop :=
  match rest with [] => True | b :: _ => memb b set = true end.

Lemma span_n_run p (run rest : bytes) :
  Forall (fun b => p b = true) run -> match rest with [] => True | b :: _ => p b = false end ->
  span_n p (run ++ rest) = len run.
Proof.
  intros Hr Hs. induction Hr as [|x r Hx _ IH]; cbn [app span_n].
  - destruct rest; [reflexivity|]. cbn [span_n]. rewrite Hs. reflexivity.
  - rewrite Hx. unfold len in *. cbn [length]. rewrite IH. reflexivity.
Qed.

Lemma allowed_run set pre run rest :
  Forall (fun b => memb b set = true) run -> stops set rest ->
  allowed set (pre ++ run ++ rest) (len pre) = len run.
Proof.
  intros Hr Hs. unfold allowed. replace (len pre) with (len pre + 0) by lia. rewrite skipn_app_len. cbn [skipn].
  apply span_n_run; [exact Hr|]. destruct rest; [exact I|exact Hs].
Qed.

Lemma until_run set pre run rest :
  Forall (fun b => memb b set = false) run -> stops_until set rest ->
  until set (pre ++ run ++ rest) (len pre) = len run.
Proof.
  intros Hr Hs. unfold until. replace (len pre) with (len pre + 0) by lia. rewrite skipn_app_len. cbn [skipn].
  apply span_n_run.
  - eapply Forall_impl; [|exact Hr]. cbn. intros a ->. reflexivity.
  - destruct rest; [exact I|]. cbn in Hs. rewrite Hs. reflexivity.
Qed.

Lemma peek_at pre rest : peek (pre ++ rest) (len pre) = hd_error rest.
Proof. replace (len pre) with (len pre + 0) by lia. rewrite peek_app. destruct rest; reflexivity. Qed.

Lemma peek_is_at pre rest b : peek_is (pre ++ rest) (len pre) b = match rest with x :: _ => N.eqb x b | [] => false end.
Proof. unfold peek_is. rewrite peek_at. destruct rest; reflexivity. Qed.

Lemma sub_at (pre mid rest : bytes) : sub (pre ++ mid ++ rest) (len pre) (len pre + len mid) = mid.
Proof.
  replace (len pre) with (len pre + 0) at 1 by lia. rewrite sub_app. unfold sub. cbn [skipn].
  rewrite Nat.sub_0_r. apply firstn_app_len.
Qed.

Lemma exact_at tag pre rest : exact tag (pre ++ tag ++ rest) (len pre) = Some (len pre + len tag).
Proof. replace (len pre) with (len pre + 0) at 1 by lia. rewrite exact_app, exact_self. reflexivity. Qed.

Lemma len_snoc (pre : bytes) x : len (pre ++ [x]) = S (len pre).
Proof. rewrite len_app. cbn. lia. Qed.

(* re-association helpers: move the cursor over a prefix of the remaining text *)
Lemma shift_pre (pre a rest : bytes) : pre ++ a ++ rest = (pre ++ a) ++ rest.
Proof. apply app_assoc. Qed.

(* ------------------------------------------------------------------ whitespace and comments *)
Definition ws_stop (rest : bytes) : Prop :=
  match rest with [] => True | b :: _ => memb b ws_eol_set = false /\ b <> 37%N end.

Lemma ws_loop_byte f pre b rest e :
  memb b ws_eol_set = true ->
  ws_eol_loop f (pre ++ b :: rest) (len pre) e = ws_eol_loop f ((pre ++ [b]) ++ rest) (len (pre ++ [b])) false.
Proof.
  intros Hb. rewrite <- app_assoc. cbn [app]. rewrite len_snoc.
  destruct f as [|f]; [reflexivity|]. cbn [ws_eol_loop].
  assert (A : allowed ws_eol_set (pre ++ b :: rest) (len pre) = S (allowed ws_eol_set (pre ++ b :: rest) (S (len pre)))).
  { unfold allowed. replace (len pre) with (len pre + 0) at 1 by lia. replace (S (len pre)) with (len pre + 1) by lia.
    rewrite !skipn_app_len. cbn [skipn span_n]. rewrite Hb. reflexivity. }
  rewrite A. replace (len pre + S (allowed ws_eol_set (pre ++ b :: rest) (S (len pre))))
    with (S (len pre) + allowed ws_eol_set (pre ++ b :: rest) (S (len pre))) by lia.
  cbn [Nat.eqb]. destruct (Nat.eqb (allowed ws_eol_set (pre ++ b :: rest) (S (len pre))) 0); reflexivity.
Qed.

Lemma comment_at pre body rest :
  Forall (fun b => b <> 10%N) body ->
  comment (pre ++ 37%N :: body ++ 10%N :: rest) (len pre) =
  POk (body, len pre, len pre + len body + 2) (len pre + len body + 2).
Proof.
  intros Hb. unfold comment. rewrite peek_is_at. cbn [N.eqb Pos.eqb negb].
  rewrite incr_ok by (rewrite len_app; cbn; lia).
  assert (U : until comment_stop (pre ++ 37%N :: body ++ 10%N :: rest) (S (len pre)) = len body).
  { replace (pre ++ 37%N :: body ++ 10%N :: rest) with ((pre ++ [37%N]) ++ body ++ 10%N :: rest)
      by (rewrite <- app_assoc; reflexivity).
    rewrite <- len_snoc with (x := 37%N). apply until_run; [|reflexivity].
    eapply Forall_impl; [|exact Hb]. intros a Ha. cbn. destruct (N.eqb_spec a 10); [contradiction|reflexivity]. }
  rewrite U.
  replace (pre ++ 37%N :: body ++ 10%N :: rest) with ((pre ++ [37%N]) ++ body ++ 10%N :: rest)
    by (rewrite <- app_assoc; reflexivity).
  rewrite <- len_snoc with (x := 37%N).
  rewrite sub_at.
  replace ((pre ++ [37%N]) ++ body ++ 10%N :: rest) with (((pre ++ [37%N]) ++ body) ++ 10%N :: rest)
    by (rewrite <- app_assoc; reflexivity).
  replace (len (pre ++ [37%N]) + len body) with (len ((pre ++ [37%N]) ++ body)) by (rewrite len_app; reflexivity).
  rewrite peek_is_at. cbn [N.eqb Pos.eqb].
  rewrite incr_ok by (rewrite !len_app; cbn; lia).
  rewrite !len_app. cbn [len length]. unfold len.
  replace (S (length pre + 1 + length body)) with (length pre + length body + 2) by lia. reflexivity.
Qed.

Lemma ws_loop_spec w : ws w -> forall pre rest e f,
  ws_stop rest -> len w < f ->
  ws_eol_loop f (pre ++ w ++ rest) (len pre) e = POk (e && match w with [] => true | _ => false end)%bool (len pre + len w).
Proof.
  induction 1 as [|b r Hb _ IH|body r Hbody _ IH]; intros pre rest e f Hs Hf.
  - cbn [app]. destruct f as [|f]; [cbn in Hf; lia|]. cbn [ws_eol_loop].
    assert (A : allowed ws_eol_set (pre ++ rest) (len pre) = 0).
    { change (pre ++ rest) with (pre ++ [] ++ rest). rewrite allowed_run; [reflexivity|constructor|].
      destruct rest; [exact I|apply Hs]. }
    rewrite A. cbn [Nat.eqb len length]. rewrite !Nat.add_0_r.
    rewrite peek_is_at. destruct rest as [|x rest]; [rewrite andb_true_r; reflexivity|].
    destruct Hs as [_ Hx]. destruct (N.eqb_spec x 37); [contradiction|]. rewrite andb_true_r. reflexivity.
  - cbn [app]. rewrite ws_loop_byte by assumption. rewrite <- app_assoc. cbn [app].
    replace (pre ++ b :: r ++ rest) with ((pre ++ [b]) ++ r ++ rest) by (rewrite <- app_assoc; reflexivity).
    rewrite IH; [|assumption|cbn [len length] in Hf; unfold len in *; lia].
    rewrite len_snoc, andb_false_r. cbn [andb len length]. unfold len. f_equal. lia.
  - cbn [app]. destruct f as [|f]; [cbn in Hf; lia|]. cbn [ws_eol_loop].
    assert (A : allowed ws_eol_set (pre ++ 37%N :: (body ++ 10%N :: r) ++ rest) (len pre) = 0).
    { change (pre ++ 37%N :: (body ++ 10%N :: r) ++ rest) with (pre ++ [] ++ 37%N :: (body ++ 10%N :: r) ++ rest).
      rewrite allowed_run; [reflexivity|constructor|reflexivity]. }
    rewrite A, Nat.add_0_r. rewrite peek_is_at. cbn [N.eqb Pos.eqb].
    rewrite <- app_assoc. cbn [app]. rewrite comment_at by assumption.
    replace (pre ++ 37%N :: body ++ 10%N :: r ++ rest) with ((pre ++ 37%N :: body ++ [10%N]) ++ r ++ rest).
    2:{ rewrite <- app_assoc. cbn [app]. rewrite <- app_assoc. reflexivity. }
    replace (len pre + len body + 2) with (len (pre ++ 37%N :: body ++ [10%N])).
    2:{ rewrite len_app. cbn [len length]. rewrite app_length. cbn. unfold len. lia. }
    rewrite IH; [|assumption|].
    2:{ unfold len in *. cbn [length] in Hf. rewrite app_length in Hf. cbn in Hf. lia. }
    rewrite andb_false_r. cbn [andb]. f_equal. unfold len. cbn [length]. rewrite !app_length. cbn [length]. rewrite !app_length. cbn [length]. lia.
Qed.

(* WhitespaceEOL on spelled whitespace: consumes exactly it (empty only if allowed) *)
Theorem ws_eol_spec e w pre rest :
  ws w -> ws_stop rest -> (e = true \/ w <> []) ->
  ws_eol e (pre ++ w ++ rest) (len pre) = POk (tt, len pre, len pre + len w) (len pre + len w).
Proof.
  intros Hw Hs He. unfold ws_eol.
  rewrite (ws_loop_spec w Hw pre rest true) by (assumption || (rewrite !len_app; lia)).
  destruct w; cbn [andb].
  - destruct He as [->|F]; [reflexivity|contradiction].
  - reflexivity.
Qed.

Theorem ws_eol_empty_rejected pre rest :
  ws_stop rest -> ws_eol false (pre ++ rest) (len pre) = PErr EGuard (len pre).
Proof.
  intros Hs. unfold ws_eol. change (pre ++ rest) with (pre ++ [] ++ rest).
  rewrite (ws_loop_spec [] ws_nil pre rest true) by (assumption || (rewrite !len_app; cbn; lia)).
  cbn. rewrite Nat.add_0_r. reflexivity.
Qed.

(* ------------------------------------------------------------------ digits *)
Lemma digit_range b : digitb b = true -> (48 <= b <= 57)%N.
Proof.
  unfold digitb. intros H. apply memb_In in H. vm_compute in H.
  repeat (destruct H as [<-|H]; [lia|]). contradiction.
Qed.

Lemma dec_step ds : forall x, all_digits ds -> (0 <= x)%Z ->
  (x <= fold_left (fun a d => (a * 10 + (Z.of_N d - 48))%Z) ds x)%Z.
Proof.
  induction ds as [|d ds IH]; intros x Hd Hx; cbn [fold_left]; [lia|].
  inversion Hd as [|? ? Hd1 Hd2]; subst. apply digit_range in Hd1.
  specialize (IH (x * 10 + (Z.of_N d - 48))%Z Hd2 ltac:(lia)). lia.
Qed.

Lemma dec_val_nonneg ds : all_digits ds -> (0 <= dec_val ds)%Z.
Proof. intros H. apply (dec_step ds 0%Z H). lia. Qed.

Lemma acc_digits_val mx ds : forall x, all_digits ds -> (0 <= x)%Z ->
  (fold_left (fun a d => (a * 10 + (Z.of_N d - 48))%Z) ds x <= mx)%Z ->
  acc_digits mx ds x = Some (fold_left (fun a d => (a * 10 + (Z.of_N d - 48))%Z) ds x).
Proof.
  induction ds as [|d ds IH]; intros x Hd Hx Hm; cbn [acc_digits fold_left] in *; [reflexivity|].
  inversion Hd as [|? ? Hd1 Hd2]; subst. pose proof (digit_range _ Hd1) as R.
  pose proof (dec_step ds (x * 10 + (Z.of_N d - 48))%Z Hd2 ltac:(lia)) as M.
  destruct (Z.ltb_spec mx (x * 10)); [lia|].
  destruct (Z.ltb_spec mx (x * 10 + (Z.of_N d - 48))); [lia|].
  apply IH; [assumption|lia|assumption].
Qed.

Lemma dec_val_app ds fs : dec_val (ds ++ fs) = fold_left (fun a d => (a * 10 + (Z.of_N d - 48))%Z) fs (dec_val ds).
Proof. unfold dec_val. apply fold_left_app. Qed.

Lemma acc_frac_val mx fs : forall x den, all_digits fs -> (0 <= x)%Z -> (0 < den)%Z ->
  (fold_left (fun a d => (a * 10 + (Z.of_N d - 48))%Z) fs x <= mx)%Z ->
  (den * 10 ^ Z.of_nat (len fs) <= mx)%Z ->
  acc_frac mx fs x den = Some (fold_left (fun a d => (a * 10 + (Z.of_N d - 48))%Z) fs x, (den * 10 ^ Z.of_nat (len fs))%Z).
Proof.
  induction fs as [|d fs IH]; intros x den Hd Hx Hden Hm Hq; cbn [acc_frac fold_left] in *.
  - cbn. rewrite Z.mul_1_r. reflexivity.
  - inversion Hd as [|? ? Hd1 Hd2]; subst. pose proof (digit_range _ Hd1) as R.
    pose proof (dec_step fs (x * 10 + (Z.of_N d - 48))%Z Hd2 ltac:(lia)) as M.
    assert (P : (10 ^ Z.of_nat (len (d :: fs)) = 10 * 10 ^ Z.of_nat (len fs))%Z).
    { unfold len. cbn [length]. rewrite Nat2Z.inj_succ, Z.pow_succ_r by lia. reflexivity. }
    rewrite P in *.
    assert (0 < 10 ^ Z.of_nat (len fs))%Z by (apply Z.pow_pos_nonneg; lia).
    destruct (Z.ltb_spec mx (x * 10)); [lia|].
    destruct (Z.ltb_spec mx (x * 10 + (Z.of_N d - 48))); [lia|].
    destruct (Z.ltb_spec mx (den * 10)); [nia|].
    rewrite IH; [|assumption|lia|lia|assumption|nia]. f_equal. f_equal. ring.
Qed.

Definition digit_stop (rest : bytes) : Prop := stops digit_set rest.

Lemma all_digits_memb ds : all_digits ds -> Forall (fun b => memb b digit_set = true) ds.
Proof. exact (fun H => H). Qed.

(* ------------------------------------------------------------------ IntegerP on a spelled integer *)
Lemma sign_cases neg sg : sign neg sg ->
  (sg = [] /\ neg = false) \/ (sg = [43%N] /\ neg = false) \/ (sg = [45%N] /\ neg = true).
Proof. destruct 1; tauto. Qed.

Lemma hd_digit_not_sign ds rest : ds <> [] -> all_digits ds ->
  match ds ++ rest with x :: _ => N.eqb x 45 = false /\ N.eqb x 43 = false | [] => False end.
Proof.
  intros Hn Hd. destruct ds as [|d ds]; [contradiction|]. cbn [app].
  inversion Hd; subst. match goal with H : digitb d = true |- _ => apply digit_range in H end.
  split; apply N.eqb_neq; lia.
Qed.

Theorem integer_spec neg sg ds pre rest :
  sign neg sg -> ds <> [] -> all_digits ds -> (dec_val ds <= i64_max)%Z -> digit_stop rest ->
  integer (pre ++ (sg ++ ds) ++ rest) (len pre) =
  POk (signed neg (dec_val ds), len pre, len pre + len (sg ++ ds)) (len pre + len (sg ++ ds)).
Proof.
  intros Hs Hn Hd Hm Hr.
  assert (Body : forall m pre', integer_body m (pre' ++ ds ++ rest) (len pre) (len pre') =
                  POk ((if m then (dec_val ds * -1)%Z else dec_val ds), len pre, len pre' + len ds) (len pre' + len ds)).
  { intros m pre'. unfold integer_body.
    rewrite (allowed_run digit_set pre' ds rest Hd Hr).
    destruct ds as [|d0 ds0] eqn:Eds; [contradiction|]. rewrite <- Eds in *.
    replace (Nat.eqb (len ds) 0) with false by (subst ds; reflexivity).
    rewrite sub_at. unfold dec_val in *. rewrite acc_digits_val; [reflexivity|assumption|lia|assumption]. }
  unfold integer.
  destruct (sign_cases _ _ Hs) as [[-> ->]|[[-> ->]|[-> ->]]]; cbn [app].
  - assert (P : peek_is (pre ++ ds ++ rest) (len pre) 45 = false /\ peek_is (pre ++ ds ++ rest) (len pre) 43 = false).
    { rewrite !peek_is_at. pose proof (hd_digit_not_sign ds rest Hn Hd) as Hh.
      destruct (ds ++ rest) as [|x t]; [contradiction|]. exact Hh. }
    destruct P as [-> ->]. rewrite Body. cbn [signed len length app]. reflexivity.
  - rewrite !peek_is_at. cbn [N.eqb Pos.eqb].
    rewrite incr_ok by (rewrite len_app; cbn; lia).
    replace (pre ++ 43%N :: ds ++ rest) with ((pre ++ [43%N]) ++ ds ++ rest) by (rewrite <- app_assoc; reflexivity).
    rewrite <- len_snoc with (x := 43%N). rewrite Body. cbn [signed].
    replace (len (pre ++ [43%N]) + len ds) with (len pre + len (43%N :: ds)) by (rewrite len_snoc; unfold len; cbn [length]; lia).
    reflexivity.
  - rewrite !peek_is_at. cbn [N.eqb Pos.eqb].
    rewrite incr_ok by (rewrite len_app; cbn; lia).
    replace (pre ++ 45%N :: ds ++ rest) with ((pre ++ [45%N]) ++ ds ++ rest) by (rewrite <- app_assoc; reflexivity).
    rewrite <- len_snoc with (x := 45%N). rewrite Body. cbn [signed].
    replace (len (pre ++ [45%N]) + len ds) with (len pre + len (45%N :: ds)) by (rewrite len_snoc; unfold len; cbn [length]; lia).
    replace (dec_val ds * -1)%Z with (- dec_val ds)%Z by lia. reflexivity.
Qed.
