(* Proofs/LoaderBytesObj.v — C03b: IndirectP (Model/Obj.v indirect_p) on an object as written by
   Spec/RenderClassic.v render_obj: any digits, any white space / comments, ANY spelling of the value
   (C02 spelling_sound), streams framed by a direct /Length (C05 indirect_framing). *)
From PV Require Import Model.Obj Model.XrefTab Model.Loader Model.LoaderBytes Spec.Spelling Spec.XrefEnc Spec.RenderClassic.
From PV Require Import Proofs.XrefBase Proofs.XrefTab Proofs.ObjStream Proofs.ObjTok Proofs.PrimTok Proofs.ObjSpell Proofs.ObjC02
     Proofs.LoaderObjs Proofs.LoaderBytesBase.
From Coq Require Import Lia.

(* values whose spelling ends in a delimiter: `endobj` may follow at once *)
Definition self_delim (v : obj) : Prop := match v with OStr _ | OArr _ | ODict _ => True | _ => False end.

(* a stream that is neither a cross-reference stream nor an object stream (those are bookkeeping containers of the
   loader — Model/Loader.v: "only IXStm items have /Type /XRef and only IObjStm items have /Type /ObjStm") *)
Definition plain_stream (d : list (bytes * obj)) : Prop :=
  XrefStm.get_name d (B "Type") <> Some (B "XRef") /\ XrefStm.get_name d (B "Type") <> Some (B "ObjStm").

(* the legal ways of writing object [x] (side conditions of render_obj); [K] = what is asked of a stream's dictionary *)
Definition wf_obj_k (K : list (bytes * obj) -> Prop) (x : oid * obj) (lo : lobj) : Prop :=
  1 <= lo_nw lo /\ (fst (fst x) < 10 ^ N.of_nat (lo_nw lo))%N /\ (fst (fst x) < i64_lim)%N /\
  1 <= lo_gw lo /\ (snd (fst x) < 10 ^ N.of_nat (lo_gw lo))%N /\ (snd (fst x) < i64_lim)%N /\
  ws (lo_w1 lo) /\ lo_w1 lo <> [] /\ ws (lo_w2 lo) /\ ws (lo_w3 lo) /\ ws (lo_w4 lo) /\
  (Z.of_nat (len (lo_sp lo)) < 2147483000)%Z /\
  match snd x with
  | OStream d payload =>
    spells' 50 (ODict d) (lo_sp lo) /\ dict_get d key_Length = Some (OInt (Z.of_nat (len payload))) /\
    eol1_ok (lo_eol1 lo) /\ eol2_ok (lo_eol2 lo) /\ ws (lo_w5 lo) /\ K d
  | v => spells' 50 v (lo_sp lo) /\ (lo_w4 lo <> [] \/ self_delim v)
  end.

(* a document object: a stream is an ordinary stream *)
Definition wf_obj : oid * obj -> lobj -> Prop := wf_obj_k plain_stream.

(* ---------- small facts on first bytes ---------- *)
Lemma ws_first_not_digit w r : ws w -> w <> [] -> stops_digit (w ++ r).
Proof.
  intros Hw Hn. destruct (ws_head w Hw Hn) as (x & t & -> & [Hx| ->]); cbn [app stops_digit]; [|reflexivity].
  apply ws_set_values in Hx. destruct Hx as [->|[->|[->|[->|[->| ->]]]]]; reflexivity.
Qed.

Lemma ws_then_not_digit w x r : ws w -> is_digit x = false -> stops_digit (w ++ x :: r).
Proof.
  intros Hw Hx. destruct w as [|y w'] eqn:E; [exact Hx|]. rewrite <- E in *. apply ws_first_not_digit; [exact Hw|subst; discriminate].
Qed.

Lemma digits_ws_stop w n r : 1 <= w -> ws_stop (digits w n ++ r).
Proof.
  intros W. destruct w as [|w]; [lia|]. destruct (digits_head w n) as (d & dr & -> & Hd). cbn [app].
  apply starter_ws_stop, digit_starter. unfold digitb. apply digit_in_set, Hd.
Qed.

Lemma digits_no_xref w n r : 1 <= w -> prefixb xref_kw (digits w n ++ r) = false.
Proof.
  intros W. destruct w as [|w]; [lia|]. destruct (digits_head w n) as (d & dr & -> & Hd). cbn [app].
  unfold is_digit in Hd. apply andb_true_iff in Hd as [H1 H2]. apply N.leb_le in H1, H2.
  change xref_kw with [120; 114; 101; 102]%N. cbn [prefixb]. destruct (N.eqb_spec 120 d); [lia|reflexivity].
Qed.

Lemma kw_ws_stop (x : N) r : memb x ws_eol_set = false -> x <> 37%N -> ws_stop (x :: r).
Proof. intros A B. split; assumption. Qed.

(* behind an integer value, white space and `endobj` is never the rest of a reference *)
Lemma int_follow_endobj w rest : ws w -> int_follow_sem (w ++ kw_endobj ++ rest).
Proof.
  intros Hw s c Hc Hk (u & c2 & i & c3 & u' & c4 & E1 & E2 & _).
  assert (H : at_cur s c (w ++ kw_endobj ++ rest)) by (split; assumption).
  assert (St : ws_stop (kw_endobj ++ rest)) by (apply kw_ws_stop; [reflexivity|discriminate]).
  destruct w as [|x w'] eqn:Ew.
  - destruct (at_cur_pre _ _ _ H) as (pre & -> & ->). cbn [app] in E1.
    rewrite ws_eol_empty_rejected in E1 by exact St. discriminate.
  - rewrite <- Ew in *. rewrite (ws_eol_at false w s c _ H Hw St) in E1 by (right; subst; discriminate).
    injection E1 as _ <-. apply at_cur_app in H.
    rewrite (integer_fail s _ _ H) in E2; [discriminate|]. cbn. repeat split; discriminate.
Qed.

Lemma follow_endobj v w rest : ws w -> (w <> [] \/ self_delim v) -> follow' v (w ++ kw_endobj ++ rest).
Proof.
  intros Hw Hc. destruct v; cbn [follow self_delim] in *; try exact I;
    try (destruct Hc as [Hc|[]]; apply ws_head_term_stop; assumption).
  destruct Hc as [Hc|[]]. split; [apply ws_head_term_stop; assumption|apply int_follow_endobj, Hw].
Qed.

(* a spelling at the cursor *)
Lemma parse_obj_at rel n v sp s c rest :
  at_cur s c (sp ++ rest) -> spells' n v sp -> follow' v rest -> (Z.of_nat (len sp) < 2147483000)%Z ->
  parse_obj rel n s c = POk (v, c, c + len sp) (c + len sp).
Proof.
  intros H Hs Hf Hl. destruct (at_cur_pre _ _ _ H) as (pre & -> & ->).
  pose proof (spelling_sound rel n v sp pre [] rest Hs ws_nil Hf Hl) as E. cbn [app len List.length] in E.
  rewrite !Nat.add_0_r in E. exact E.
Qed.

Lemma usize_N_of_N n : usize_N (Z.of_N n) = Some n.
Proof. unfold usize_N. destruct (Z.leb_spec 0 (Z.of_N n)); [rewrite N2Z.id; reflexivity|lia]. Qed.

Lemma is_usize_of_N n : int_is_usize (Z.of_N n) = true.
Proof. unfold int_is_usize. apply Z.leb_le. lia. Qed.

(* ---------- `num gen obj value` ---------- *)
Section Head.
  Variables (rel : bool) (s : bytes) (c : nat) (n g : N) (v : obj) (lo : lobj) (T : bytes).
  Let nw := lo_nw lo.
  Let gw := lo_gw lo.
  Let c6 := c + nw + len (lo_w1 lo) + gw + len (lo_w2 lo) + 3 + len (lo_w3 lo).

  Hypothesis Hat : at_cur s c (digits nw n ++ lo_w1 lo ++ digits gw g ++ lo_w2 lo ++ kw_obj ++ lo_w3 lo ++ lo_sp lo ++ T).
  Hypothesis Hn : 1 <= nw /\ (n < 10 ^ N.of_nat nw)%N /\ (n < i64_lim)%N.
  Hypothesis Hg : 1 <= gw /\ (g < 10 ^ N.of_nat gw)%N /\ (g < i64_lim)%N.
  Hypothesis Hw1 : ws (lo_w1 lo) /\ lo_w1 lo <> [].
  Hypothesis Hw2 : ws (lo_w2 lo).
  Hypothesis Hw3 : ws (lo_w3 lo).
  Hypothesis Hsp : spells' 50 v (lo_sp lo).
  Hypothesis Hf : follow' v T.
  Hypothesis Hl : (Z.of_nat (len (lo_sp lo)) < 2147483000)%Z.

  Lemma head_at_value : at_cur s c6 (lo_sp lo ++ T).
  Proof.
    pose proof Hat as H.
    apply at_cur_app in H. rewrite digits_len in H.
    apply at_cur_app in H. apply at_cur_app in H. rewrite digits_len in H.
    apply at_cur_app in H. apply at_cur_app in H. apply at_cur_app in H.
    exact H.
  Qed.

  Lemma indirect_head_ok :
    indirect_head rel 50 s c = POk (Z.of_N n, Z.of_N g, (v, c6, c6 + len (lo_sp lo))) (c6 + len (lo_sp lo)).
  Proof.
    destruct Hn as (N1 & N2 & N3). destruct Hg as (G1 & G2 & G3). destruct Hw1 as (W1 & W1n).
    pose proof Hat as H0.
    assert (E1 : integer s c = POk (Z.of_N n, c, c + nw) (c + nw)).
    { apply (integer_ok nw n s c _ H0 N1 N2 N3). apply ws_first_not_digit; assumption. }
    apply at_cur_app in H0. rewrite digits_len in H0. fold nw in H0.
    assert (E2 : ws_eol true s (c + nw) = POk (tt, c + nw, c + nw + len (lo_w1 lo)) (c + nw + len (lo_w1 lo))).
    { apply (ws_eol_at true _ _ _ _ H0 W1); [apply digits_ws_stop, G1|left; reflexivity]. }
    apply at_cur_app in H0.
    assert (E3 : integer s (c + nw + len (lo_w1 lo)) =
                 POk (Z.of_N g, c + nw + len (lo_w1 lo), c + nw + len (lo_w1 lo) + gw) (c + nw + len (lo_w1 lo) + gw)).
    { apply (integer_ok gw g s _ _ H0 G1 G2 G3).
      apply (ws_then_not_digit (lo_w2 lo) 111%N); [exact Hw2|reflexivity]. }
    apply at_cur_app in H0. rewrite digits_len in H0. fold gw in H0.
    assert (E4 : ws_eol true s (c + nw + len (lo_w1 lo) + gw) =
                 POk (tt, c + nw + len (lo_w1 lo) + gw, c + nw + len (lo_w1 lo) + gw + len (lo_w2 lo)) (c + nw + len (lo_w1 lo) + gw + len (lo_w2 lo))).
    { apply (ws_eol_at true _ _ _ _ H0 Hw2); [apply kw_ws_stop; [reflexivity|discriminate]|left; reflexivity]. }
    apply at_cur_app in H0.
    assert (E5 : exact kw_obj s (c + nw + len (lo_w1 lo) + gw + len (lo_w2 lo)) = Some (c + nw + len (lo_w1 lo) + gw + len (lo_w2 lo) + 3)).
    { apply (XrefBase.exact_at kw_obj _ _ _ H0). }
    apply at_cur_app in H0. change (len kw_obj) with 3 in H0.
    destruct (spells_first _ _ _ Hsp T) as (x & r & Ex & St).
    assert (E6 : ws_eol true s (c + nw + len (lo_w1 lo) + gw + len (lo_w2 lo) + 3) = POk (tt, c + nw + len (lo_w1 lo) + gw + len (lo_w2 lo) + 3, c6) c6).
    { apply (ws_eol_at true _ _ _ _ H0 Hw3); [rewrite Ex; apply starter_ws_stop, St|left; reflexivity]. }
    assert (E7 : parse_obj rel 50 s c6 = POk (v, c6, c6 + len (lo_sp lo)) (c6 + len (lo_sp lo))).
    { apply (parse_obj_at rel 50 v _ s c6 T head_at_value Hsp Hf Hl). }
    unfold indirect_head. rewrite E1. cbn [bind lv_val fst]. rewrite is_usize_of_N. cbn [negb].
    rewrite E2. cbn [bind]. rewrite E3. cbn [bind lv_val fst]. rewrite is_usize_of_N, orb_true_r. cbn [negb].
    rewrite E4. cbn [bind]. rewrite E5. rewrite E6. cbn [bind]. rewrite E7. reflexivity.
  Qed.
End Head.

(* ---------- a non-stream object ---------- *)
Lemma render_obj_plain n g v lo : (forall d p, v <> OStream d p) ->
  render_obj ((n, g), v) lo =
  digits (lo_nw lo) n ++ lo_w1 lo ++ digits (lo_gw lo) g ++ lo_w2 lo ++ kw_obj ++ lo_w3 lo ++ lo_sp lo ++ lo_w4 lo ++
  kw_endobj ++ lo_post lo.
Proof. intros Hv. unfold render_obj. cbn [fst snd]. destruct v; try reflexivity. exfalso. eapply Hv. reflexivity. Qed.

Lemma no_stream_kw r : prefixb kw_stream (kw_endobj ++ r) = false.
Proof. reflexivity. Qed.

Theorem indirect_plain K rel s c n g v lo rest :
  at_cur s c (render_obj ((n, g), v) lo ++ rest) -> wf_obj_k K ((n, g), v) lo -> (forall d p, v <> OStream d p) ->
  exists os oe e, indirect_p rel 50 [] s c = POk (mkInd n g v os oe None, c, e) e.
Proof.
  intros H W Hv. rewrite render_obj_plain in H by exact Hv. repeat rewrite <- app_assoc in H.
  destruct W as (N1 & N2 & N3 & G1 & G2 & G3 & W1 & W1n & W2 & W3 & W4 & L & Wv). cbn [fst snd] in *.
  assert (Wv' : spells' 50 v (lo_sp lo) /\ (lo_w4 lo <> [] \/ self_delim v)).
  { destruct v; try exact Wv. exfalso. eapply Hv. reflexivity. }
  clear Wv. destruct Wv' as (Sp & Cl).
  set (T := lo_w4 lo ++ kw_endobj ++ lo_post lo ++ rest) in *.
  assert (Hf : follow' v T) by (apply follow_endobj; assumption).
  pose proof (indirect_head_ok rel s c n g v lo T H (conj N1 (conj N2 N3)) (conj G1 (conj G2 G3)) (conj W1 W1n) W2 W3 Sp Hf L) as Eh.
  pose proof (head_at_value s c n g lo T H) as H7. apply at_cur_app in H7.
  set (c6 := c + lo_nw lo + len (lo_w1 lo) + lo_gw lo + len (lo_w2 lo) + 3 + len (lo_w3 lo)) in *.
  set (c7 := c6 + len (lo_sp lo)) in *.
  assert (St : ws_stop (kw_endobj ++ lo_post lo ++ rest)) by (apply kw_ws_stop; [reflexivity|discriminate]).
  assert (E8 : ws_eol true s c7 = POk (tt, c7, c7 + len (lo_w4 lo)) (c7 + len (lo_w4 lo))).
  { apply (ws_eol_at true _ _ _ _ H7 W4 St). left; reflexivity. }
  pose proof (at_cur_app _ _ _ _ H7) as H8.
  assert (E9 : ws_eol true s (c7 + len (lo_w4 lo)) = POk (tt, c7 + len (lo_w4 lo), c7 + len (lo_w4 lo)) (c7 + len (lo_w4 lo))).
  { apply (ws_eol_none _ _ _ H8 St). }
  assert (E10 : exact kw_endobj s (c7 + len (lo_w4 lo)) = Some (c7 + len (lo_w4 lo) + 6)).
  { apply (XrefBase.exact_at kw_endobj _ _ _ H8). }
  exists c6, c7, (c7 + len (lo_w4 lo) + 6).
  unfold indirect_p. rewrite (ws_eol_none s c _ H (digits_ws_stop _ _ _ N1)). cbn [bind].
  rewrite (indirect_internal_split _ _ _ _ _ _ _ _ _ Eh). unfold indirect_tail.
  assert (M : (exists d, v = ODict d) \/ maybe_stream [] (v, c6, c7) s c7 = POk (v, c6, c7, None) c7).
  { destruct v; try (right; reflexivity). left. eexists. reflexivity. }
  destruct M as [(d & ->)|M].
  - unfold maybe_stream. rewrite E8. cbn [bind]. rewrite (check_prefix_cur _ _ _ _ H8), no_stream_kw. cbn [bind].
    rewrite E9. cbn [bind]. rewrite E10, !usize_N_of_N. reflexivity.
  - rewrite M. cbn [bind]. rewrite E8. cbn [bind]. rewrite E10, !usize_N_of_N. reflexivity.
Qed.

Lemma declared_direct d k : dict_get d key_Length = Some (OInt (Z.of_nat k)) -> declared [] d = Some (Z.of_nat k).
Proof.
  intros H. unfold declared, stream_length. rewrite H. unfold convert_stream_length, int_is_usize.
  destruct (Z.leb_spec 0 (Z.of_nat k)); [reflexivity|lia].
Qed.

Theorem indirect_stream K rel s c n g d payload lo rest :
  at_cur s c (render_obj ((n, g), OStream d payload) lo ++ rest) -> wf_obj_k K ((n, g), OStream d payload) lo ->
  exists os oe st e, indirect_p rel 50 [] s c = POk (mkInd n g (OStream d payload) os oe (Some st), c, e) e.
Proof.
  intros H W. unfold render_obj in H. cbn [fst snd] in H. repeat rewrite <- app_assoc in H.
  destruct W as (N1 & N2 & N3 & G1 & G2 & G3 & W1 & W1n & W2 & W3 & W4 & L & Sp & Dl & E1 & E2 & W5 & Pl). cbn [fst snd] in *.
  set (R := lo_w5 lo ++ kw_endobj ++ lo_post lo ++ rest) in *.
  set (T := lo_w4 lo ++ kw_stream ++ lo_eol1 lo ++ payload ++ lo_eol2 lo ++ kw_endstream ++ R) in *.
  pose proof (indirect_head_ok rel s c n g (ODict d) lo T H (conj N1 (conj N2 N3)) (conj G1 (conj G2 G3)) (conj W1 W1n) W2 W3 Sp I L) as Eh.
  pose proof (head_at_value s c n g lo T H) as H7. apply at_cur_app in H7.
  set (c6 := c + lo_nw lo + len (lo_w1 lo) + lo_gw lo + len (lo_w2 lo) + 3 + len (lo_w3 lo)) in *.
  set (c7 := c6 + len (lo_sp lo)) in *.
  assert (E8 : ws_eol true s c7 = POk (tt, c7, c7 + len (lo_w4 lo)) (c7 + len (lo_w4 lo))).
  { apply (ws_eol_at true _ _ _ _ H7 W4); [apply kw_ws_stop; [reflexivity|discriminate]|left; reflexivity]. }
  pose proof (at_cur_app _ _ _ _ H7) as H8.
  destruct (at_cur_pre _ _ _ H8) as (s0 & Es & Ec8).
  pose proof H8 as H9. do 5 apply at_cur_app in H9.
  change (len kw_stream) with 6 in H9. change (len kw_endstream) with 9 in H9.
  rewrite Ec8 in E8, H9.
  assert (St : ws_stop (kw_endobj ++ lo_post lo ++ rest)) by (apply kw_ws_stop; [reflexivity|discriminate]).
  set (e := len s0 + 6 + len (lo_eol1 lo) + len payload + len (lo_eol2 lo) + 9) in *.
  assert (Ew : ws_eol true s e = POk (tt, e, e + len (lo_w5 lo)) (e + len (lo_w5 lo))).
  { apply (ws_eol_at true _ _ _ _ H9 W5 St). left; reflexivity. }
  apply at_cur_app in H9.
  assert (Ee : exact kw_endobj s (e + len (lo_w5 lo)) = Some (e + len (lo_w5 lo) + 6)).
  { apply (XrefBase.exact_at kw_endobj _ _ _ H9). }
  exists c6, e, (len s0 + 6 + len (lo_eol1 lo), len payload), (e + len (lo_w5 lo) + 6).
  unfold indirect_p. rewrite (ws_eol_none s c _ H (digits_ws_stop _ _ _ N1)). cbn [bind].
  exact (indirect_framing rel 50 [] s c (Z.of_N n) (Z.of_N g) d c6 c7 c7 _ s0 (lo_eol1 lo) payload (lo_eol2 lo) R _ _ _ n g
           Eh E8 Es (declared_direct _ _ Dl) E1 E2 Ew Ee (usize_N_of_N n) (usize_N_of_N g) eq_refl).
Qed.

(* ---------- what the abstraction finds at the offset of a written object ---------- *)
Lemma xsectp_at_digits s c w n r : at_cur s c (digits w n ++ r) -> 1 <= w -> xsectp s c = PErr EGuard c.
Proof.
  intros H W. unfold xsectp. rewrite (ws_eol_none s c _ H (digits_ws_stop _ _ _ W)).
  rewrite (exact_none xref_kw s c _ H (digits_no_xref _ _ _ W)). reflexivity.
Qed.

Lemma bytes_eqb_neq a b : a <> b -> bytes_eqb a b = false.
Proof. intros H. destruct (bytes_eqb a b) eqn:E; [|reflexivity]. apply bytes_eqb_eq in E. contradiction. Qed.

(* a stream that is not typed /XRef or /ObjStm is an ordinary object for the abstraction *)
Lemma obj_item_plain rel id d content : plain_stream d -> obj_item rel id (OStream d content) = IObj id (OStream d content).
Proof.
  intros (P1 & P2). unfold obj_item, xstm_item, ostm_item.
  assert (G : XrefStm.get_dict_info d = Err EGuard).
  { unfold XrefStm.get_dict_info. destruct (XrefStm.get_name d (B "Type")) as [t|]; [|reflexivity].
    rewrite bytes_eqb_neq by (intros ->; apply P1; reflexivity). reflexivity. }
  rewrite G.
  assert (O : ObjStm.os_dict_info d = Err EGuard).
  { unfold ObjStm.os_dict_info. destruct (XrefStm.get_name d (B "Type")) as [t|]; [|reflexivity].
    rewrite bytes_eqb_neq by (intros ->; apply P2; reflexivity). reflexivity. }
  destruct (XrefStm.stream_filters d) as [[|? ?]| | |]; try reflexivity.
  unfold ObjStm.objstm_parse. rewrite O. reflexivity.
Qed.

Lemma obj_item_nostream rel id v : (forall d p, v <> OStream d p) -> obj_item rel id v = IObj id v.
Proof. intros H. destruct v; try reflexivity. exfalso. eapply H. reflexivity. Qed.

(* any written object, whatever its dictionary says: what IndirectP yields, classified by [obj_item] *)
Theorem item_at_fileobj K rel s c x lo rest :
  at_cur s c (render_obj x lo ++ rest) -> wf_obj_k K x lo ->
  exists nx, item_at rel s c = (obj_item rel (fst x) (snd x), nx).
Proof.
  intros H W. destruct x as [[n g] v]. cbn [fst snd].
  assert (X : xsectp s c = PErr EGuard c).
  { pose proof H as H'. unfold render_obj in H'. cbn [fst snd] in H'. rewrite <- app_assoc in H'.
    apply (xsectp_at_digits s c _ _ _ H'). apply W. }
  unfold item_at. rewrite X.
  assert (D : (exists d p, v = OStream d p) \/ (forall d p, v <> OStream d p)).
  { destruct v; try (right; intros; discriminate). left. eauto. }
  destruct D as [(d & p & ->)|D].
  - destruct (indirect_stream _ rel s c n g d p lo rest H W) as (os & oe & st & e & E). rewrite E. cbn [i_num i_gen i_obj]. eauto.
  - destruct (indirect_plain _ rel s c n g v lo rest H W D) as (os & oe & e & E). rewrite E. cbn [i_num i_gen i_obj]. eauto.
Qed.

Theorem item_at_object rel s c x lo rest :
  at_cur s c (render_obj x lo ++ rest) -> wf_obj x lo ->
  exists nx, item_at rel s c = (IObj (fst x) (snd x), nx).
Proof.
  intros H W. destruct x as [[n g] v]. cbn [fst snd].
  assert (X : xsectp s c = PErr EGuard c).
  { pose proof H as H'. unfold render_obj in H'. cbn [fst snd] in H'. rewrite <- app_assoc in H'.
    apply (xsectp_at_digits s c _ _ _ H'). apply W. }
  unfold item_at. rewrite X.
  assert (D : (exists d p, v = OStream d p) \/ (forall d p, v <> OStream d p)).
  { destruct v; try (right; intros; discriminate). left. eauto. }
  destruct D as [(d & p & ->)|D].
  - destruct (indirect_stream _ rel s c n g d p lo rest H W) as (os & oe & st & e & E). rewrite E. cbn [i_num i_gen i_obj].
    rewrite obj_item_plain; [eauto|]. apply W.
  - destruct (indirect_plain _ rel s c n g v lo rest H W D) as (os & oe & e & E). rewrite E. cbn [i_num i_gen i_obj].
    rewrite obj_item_nostream by exact D. eauto.
Qed.

(* the item is one that IndirectP accepts without looking anything up (Proofs/LoaderObjs.v [simple]) *)
Lemma wf_obj_k_simple K x lo : wf_obj_k K x lo -> LoaderObjs.simple (IObj (fst x) (snd x)).
Proof.
  intros W. destruct x as [id v]. cbn [fst snd LoaderObjs.simple]. destruct v; try exact I.
  destruct W as (_ & _ & _ & _ & _ & _ & _ & _ & _ & _ & _ & _ & _ & Dl & _). cbn [snd] in Dl. exact Dl.
Qed.

Lemma wf_obj_simple x lo : wf_obj x lo -> LoaderObjs.simple (IObj (fst x) (snd x)).
Proof.
  intros W. destruct x as [id v]. cbn [fst snd LoaderObjs.simple]. destruct v; try exact I.
  destruct W as (_ & _ & _ & _ & _ & _ & _ & _ & _ & _ & _ & _ & _ & Dl & _). cbn [snd] in Dl. exact Dl.
Qed.
