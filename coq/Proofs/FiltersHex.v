(* Proofs/FiltersHex.v — C06 for ASCIIHexDecode: every legal encoding decodes to the payload; corrupt
   encodings are errors. *)
From PV Require Import Model.AHex Model.A85 Spec.A85Enc.
From Coq Require Import ZifyBool ZifyNat ZifyN.
Ltac Zify.zify_post_hook ::= Z.div_mod_to_equations.

Definition bytes_lt256 (l : bytes) : Prop := Forall (fun b => (b < 256)%N) l.

Lemma pdf_ws_is (w : N) : pdf_ws w -> is_pdf_ws w = true.
Proof. unfold pdf_ws. cbn. intros [<-|[<-|[<-|[<-|[<-|[<-|[]]]]]]]; reflexivity. Qed.

Lemma is_pdf_ws_pdf_ws (w : N) : is_pdf_ws w = true -> pdf_ws w.
Proof.
  unfold is_pdf_ws, memb, pdf_ws. cbn [existsb In]. rewrite !orb_true_iff, !N.eqb_eq. intuition.
Qed.

(* a character that denotes a nibble is a hex digit with that value, and is neither white space nor `>` *)
Lemma hex_char_facts v c : hex_char v c ->
  is_pdf_ws c = false /\ (c =? 62)%N = false /\ is_hex c = true /\ hexval c = Some v.
Proof.
  unfold hex_char, is_pdf_ws, memb, is_hex, hexval. cbn [existsb].
  intros [[Hv ->] | [Hv [-> | ->]]]; repeat split; try lia;
    repeat match goal with
           | |- context [if ?b then _ else _] => let E := fresh in destruct b eqn:E; try lia
           end; f_equal; lia.
Qed.

Definition hexish (d : bytes) : Prop :=
  Forall (fun c => is_pdf_ws c = false /\ (c =? 62)%N = false /\ is_hex c = true) d.

Lemma hex_digits_hexish p d : hex_digits p d -> hexish d.
Proof.
  induction 1 as [|b p hi lo d Hh Hl _ IH|b hi Hz Hh]; unfold hexish in *.
  - constructor.
  - apply hex_char_facts in Hh, Hl. constructor; [tauto|]. constructor; [tauto | exact IH].
  - apply hex_char_facts in Hh. constructor; [tauto | constructor].
Qed.

(* staging: white space anywhere is skipped, the digits are kept, `>` ends — whatever follows *)
Lemma ahex_stage_interleave digits text tail :
  hexish digits -> interleave digits text -> ahex_stage (text ++ 62%N :: tail) = Some (digits, true).
Proof.
  intros Hd Hi. induction Hi as [|w body text Hw _ IH|x body text _ IH].
  - reflexivity.
  - cbn [app ahex_stage]. rewrite (pdf_ws_is w Hw). apply IH, Hd.
  - inversion Hd as [|? ? [H1 [H2 H3]] Hd']; subst.
    cbn [app ahex_stage]. rewrite H1, H2, H3, (IH Hd'). reflexivity.
Qed.

Lemma hex_pairs_digits p d : bytes_lt256 p -> hex_digits p d ->
  (Nat.odd (len d) = false /\ hex_pairs d = Some p) \/
  (Nat.odd (len d) = true /\ hex_pairs (d ++ [48%N]) = Some p).
Proof.
  intros Hp H. induction H as [|b p hi lo d Hh Hl _ IH|b hi Hz Hh].
  - left. split; reflexivity.
  - inversion Hp as [|? ? Hb Hp']; subst.
    apply hex_char_facts in Hh, Hl. destruct Hh as [_ [_ [_ Eh]]], Hl as [_ [_ [_ El]]].
    assert (Eb : (b / 16 * 16 + b mod 16 = b)%N) by lia.
    destruct (IH Hp') as [[Po Pp] | [Po Pp]]; [left | right]; split.
    + unfold len in *. cbn [List.length]. rewrite Nat.odd_succ, Nat.even_succ. exact Po.
    + cbn [hex_pairs]. rewrite Eh, El, Pp, Eb. reflexivity.
    + unfold len in *. cbn [List.length]. rewrite Nat.odd_succ, Nat.even_succ. exact Po.
    + cbn [app hex_pairs]. rewrite Eh, El, Pp, Eb. reflexivity.
  - right. split; [reflexivity|]. apply hex_char_facts in Hh. destruct Hh as [_ [_ [_ Eh]]].
    cbn [app hex_pairs]. rewrite Eh. cbn [hexval N.leb N.compare Pos.compare Pos.compare_cont andb].
    change (hexval 48) with (Some 0%N). cbn [hex_pairs].
    repeat f_equal. lia.
Qed.

Lemma odd_app1 (d : bytes) : Nat.odd (len (d ++ [48%N])) = negb (Nat.odd (len d)).
Proof.
  unfold len. rewrite app_length. cbn [List.length]. rewrite Nat.add_1_r, Nat.odd_succ.
  rewrite <- Nat.negb_odd. reflexivity.
Qed.

(* ---------- C06_ahex ---------- *)
Theorem ahex_roundtrip p e tail :
  bytes_lt256 p -> ahex_enc p e -> ahex_decode (e ++ tail) = Ok p.
Proof.
  intros Hp [digits [text [Hd [Hi ->]]]].
  unfold ahex_decode. rewrite <- app_assoc. cbn [app].
  rewrite (ahex_stage_interleave digits text tail (hex_digits_hexish _ _ Hd) Hi).
  unfold hex2bin.
  destruct (hex_pairs_digits p digits Hp Hd) as [[Po Pp] | [Po Pp]]; rewrite Po.
  - rewrite Po, Nat.ltb_irrefl, Pp. reflexivity.
  - rewrite odd_app1, Po. cbn [negb]. rewrite Nat.ltb_irrefl, Pp. reflexivity.
Qed.

(* ---------- corrupt ---------- *)
(* no EOD marker: nothing but white space and hex digits *)
Lemma ahex_stage_no_eod s : (forall c, In c s -> (c =? 62)%N = false) ->
  match ahex_stage s with Some (_, true) => False | _ => True end.
Proof.
  induction s as [|b r IH]; intros H; [exact I|].
  cbn [ahex_stage]. destruct (is_pdf_ws b); [apply IH; intros c Hc; apply H; right; exact Hc|].
  rewrite (H b (or_introl eq_refl)).
  destruct (is_hex b); [|exact I].
  specialize (IH (fun c Hc => H c (or_intror Hc))).
  destruct (ahex_stage r) as [[st [|]]|]; try exact I. contradiction.
Qed.

Theorem ahex_no_eod s : (forall c, In c s -> (c =? 62)%N = false) -> ahex_decode s = Err ETransform.
Proof.
  intros H. pose proof (ahex_stage_no_eod s H) as N. unfold ahex_decode.
  destruct (ahex_stage s) as [[st [|]]|]; [contradiction | reflexivity | reflexivity].
Qed.

(* an illegal character before the EOD marker *)
Lemma ahex_stage_illegal pre c post :
  (forall x, In x pre -> (x =? 62)%N = false) ->
  is_pdf_ws c = false -> (c =? 62)%N = false -> is_hex c = false ->
  ahex_stage (pre ++ c :: post) = None.
Proof.
  intros Hpre H1 H2 H3. induction pre as [|b r IH].
  - cbn [app ahex_stage]. rewrite H1, H2, H3. reflexivity.
  - cbn [app ahex_stage]. destruct (is_pdf_ws b); [apply IH; intros x Hx; apply Hpre; right; exact Hx|].
    rewrite (Hpre b (or_introl eq_refl)). destruct (is_hex b); [|reflexivity].
    rewrite IH; [reflexivity|]. intros x Hx. apply Hpre. right. exact Hx.
Qed.

Theorem ahex_illegal pre c post :
  (forall x, In x pre -> (x =? 62)%N = false) ->
  is_pdf_ws c = false -> (c =? 62)%N = false -> is_hex c = false ->
  ahex_decode (pre ++ c :: post) = Err ETransform.
Proof. intros. unfold ahex_decode. rewrite ahex_stage_illegal by assumption. reflexivity. Qed.
