(* Proofs/LoaderBytesBase.v — C03b, generic part: the buffer at a cursor, forward and backward scans,
   lookups in the abstract file computed from bytes, offsets of concatenated chunks. *)
From PV Require Import Model.Obj Model.XrefTab Model.Loader Model.LoaderBytes Spec.Spelling Spec.XrefEnc Spec.RenderClassic.
From PV Require Import Proofs.XrefBase Proofs.XrefTab Proofs.ObjStream Proofs.ObjTok Proofs.PrimTok.
From Coq Require Import Lia.

(* ---------- the buffer at the cursor ---------- *)
Lemma at_cur_pre s c p : at_cur s c p -> exists pre, s = pre ++ p /\ c = len pre.
Proof.
  intros [L E]. exists (firstn c s). split.
  - rewrite <- E. symmetry. apply firstn_skipn.
  - unfold len in *. rewrite firstn_length. lia.
Qed.

Lemma at_cur_mid (a p : bytes) : at_cur (a ++ p) (len a) p.
Proof. apply at_cur_start. Qed.

Lemma at_cur_0 (s : bytes) : at_cur s 0 s.
Proof. split; [lia|reflexivity]. Qed.

Lemma at_cur_le s c p : at_cur s c p -> c <= len s.
Proof. intros [L _]. exact L. Qed.

Lemma at_cur_lt s c b r : at_cur s c (b :: r) -> c < len s.
Proof. intros H. apply at_cur_len in H. cbn [len List.length] in H. unfold len in *. lia. Qed.

(* white space with comments (Spec/Spelling.v [ws]) at the cursor *)
Lemma ws_eol_at e w s c r :
  at_cur s c (w ++ r) -> ws w -> ws_stop r -> (e = true \/ w <> []) ->
  ws_eol e s c = POk (tt, c, c + len w) (c + len w).
Proof.
  intros H Hw Hs He. destruct (at_cur_pre _ _ _ H) as (pre & -> & ->). apply ws_eol_spec; assumption.
Qed.

Lemma ws_eol_none s c r : at_cur s c r -> ws_stop r -> ws_eol true s c = POk (tt, c, c) c.
Proof.
  intros H Hs. rewrite (ws_eol_at true [] s c r); [rewrite Nat.add_0_r; reflexivity|exact H|constructor|exact Hs|left; reflexivity].
Qed.

Lemma check_prefix_cur tag s c r : at_cur s c r -> check_prefix tag s c = prefixb tag r.
Proof. intros [_ E]. unfold check_prefix. rewrite E. reflexivity. Qed.

Lemma exact_none tag s c r : at_cur s c r -> prefixb tag r = false -> exact tag s c = None.
Proof. intros [_ E] P. unfold exact. rewrite E, P. reflexivity. Qed.

(* ---------- forward scan ---------- *)
Lemma find_tag_here tag r : find_tag tag (tag ++ r) = Some 0.
Proof.
  destruct (tag ++ r) eqn:E; cbn [find_tag]; rewrite <- E, prefixb_app; reflexivity.
Qed.

Lemma scan_here tag s c r : tag <> [] -> at_cur s c (tag ++ r) -> scan tag s c = POk 0 c.
Proof.
  intros Hn [_ E]. unfold scan. destruct tag as [|x t]; [contradiction|]. rewrite E, find_tag_here, Nat.add_0_r. reflexivity.
Qed.

Lemma prefixb_app_false p : forall l r, prefixb p l = false -> len p <= len l -> prefixb p (l ++ r) = false.
Proof.
  induction p as [|x p IH]; intros l r H L; cbn in H; [discriminate|].
  destruct l as [|y l]; cbn [len List.length] in L; [lia|]. cbn [app prefixb] in *.
  destruct (N.eqb x y); [|reflexivity]. apply IH; [exact H|unfold len in *; lia].
Qed.

Lemma find_tag_app tag : forall g rest,
  find_tag tag (g ++ tag) = Some (len g) -> find_tag tag (g ++ tag ++ rest) = Some (len g).
Proof.
  induction g as [|x g IH]; intros rest H; cbn [app].
  - apply find_tag_here.
  - cbn [app find_tag len List.length] in *.
    destruct (prefixb tag (x :: g ++ tag)) eqn:P; [discriminate|].
    replace (x :: g ++ tag ++ rest) with ((x :: g ++ tag) ++ rest) by (cbn [app]; rewrite <- app_assoc; reflexivity).
    rewrite (prefixb_app_false tag (x :: g ++ tag) rest P) by (cbn [len List.length]; rewrite app_length; unfold len; lia).
    destruct (find_tag tag (g ++ tag)) as [k|] eqn:F; [|discriminate]. injection H as ->.
    rewrite (IH rest eq_refl). reflexivity.
Qed.

(* ---------- backward scan ---------- *)
Lemma bscan_down_found tag s p : forall i, p <= i -> prefixb tag (skipn p s) = true ->
  (forall q, p < q -> q <= i -> prefixb tag (skipn q s) = false) -> bscan_down tag s i = Some p.
Proof.
  induction i as [|i IH]; intros L P N.
  - assert (p = 0) by lia. subst p. cbn [bscan_down]. rewrite P. reflexivity.
  - destruct (Nat.eq_dec p (S i)) as [->|Hne].
    + cbn [bscan_down]. rewrite P. reflexivity.
    + cbn [bscan_down]. rewrite (N (S i)) by lia. apply IH; [lia|exact P|intros q H1 H2; apply N; lia].
Qed.

(* the last occurrence: no match at any later position inside [tag ++ m] *)
Lemma bscan_found tag a m r : tag <> [] ->
  (forall k, 0 < k -> k <= len m -> prefixb tag (skipn k (tag ++ m)) = false) ->
  bscan tag (a ++ tag ++ m ++ r) (len a + len tag + len m) = Some (len a).
Proof.
  intros Hn N. unfold bscan. destruct tag as [|x t] eqn:Et; [contradiction|]. rewrite <- Et in *.
  destruct (Nat.ltb_spec (len a + len tag + len m) (len tag)); [lia|].
  assert (F : firstn (len a + len tag + len m) (a ++ tag ++ m ++ r) = a ++ tag ++ m).
  { rewrite !app_assoc. rewrite <- (app_assoc a tag m).
    replace (len a + len tag + len m) with (len (a ++ tag ++ m)) by (rewrite !len_app; lia).
    apply firstn_app_len. }
  rewrite F. apply bscan_down_found.
  - lia.
  - replace (len a) with (len a + 0) by lia. rewrite skipn_app_len. cbn [skipn]. apply prefixb_app.
  - intros q H1 H2. replace q with (len a + (q - len a)) by lia. rewrite skipn_app_len. apply N; lia.
Qed.

Lemma no_match_first x t L : Forall (fun b => b <> x) L -> forall j, prefixb (x :: t) (skipn j L) = false.
Proof.
  intros F j. assert (F' : Forall (fun b => b <> x) (skipn j L)).
  { apply Forall_forall. intros b Hb. apply (proj1 (Forall_forall _ _) F). eapply In_skipn, Hb. }
  destruct (skipn j L) as [|y l]; [reflexivity|]. cbn [prefixb]. inversion F'; subst.
  destruct (N.eqb_spec x y); [congruence|reflexivity].
Qed.

(* ---------- lookups in the abstract file ---------- *)
Lemma find_map_seq (g : nat -> item * N) o : forall n a, a <= o -> o < a + n ->
  Loader.find (List.map (fun o => (N.of_nat o, g o)) (seq a n)) (N.of_nat o) = Some (g o).
Proof.
  induction n as [|n IH]; intros a L U; [lia|]. cbn [seq List.map Loader.find].
  destruct (N.eqb_spec (N.of_nat a) (N.of_nat o)) as [E|E].
  - apply Nat2N.inj in E. subst. reflexivity.
  - apply IH; [|lia]. assert (a <> o) by (intros ->; apply E; reflexivity). lia.
Qed.

Lemma find_file_of rel v o : o <= len v -> Loader.find (file_of rel v) (N.of_nat o) = Some (item_at rel v o).
Proof. intros L. unfold file_of. apply find_map_seq; lia. Qed.

(* ---------- chunks and their offsets ---------- *)
Lemma offsets_len cs : forall base, len (offsets base cs) = len cs.
Proof. induction cs as [|c cs IH]; intros base; cbn [offsets len List.length]; [reflexivity|]. f_equal. apply IH. Qed.
