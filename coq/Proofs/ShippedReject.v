(* Proofs/ShippedReject.v — every single-rule violation ([mutation], Spec/PageTreeSpec.v) of a
   well-formed document fails the hand-written specification [spec_catalog] at some finite depth of
   the declarative semantics, hence does not conform. *)
From PV Require Import Proofs.TypeCheckSound.
From PV Require Import Spec.PageTreeSpec Proofs.ShippedApprox Proofs.ShippedKinds Proofs.ShippedAccept.

(* [sk] = false, [full] = true: the full reading and every violation; [sk] = true, [full] = false: the
   reading check_type implements and the violations it can see *)

(* ---------- edits ---------- *)
Definition edit_key (e : edit) : bytes := match e with EDrop k | ESet k _ => k end.
Lemma edit_get e d k :
  dict_get (edit_dict e d) k =
  match e with
  | EDrop k0 => if bytes_eqb k k0 then None else dict_get d k
  | ESet k0 v => if bytes_eqb k k0 then Some v else dict_get d k
  end.
Proof.
  destruct e as [k0|k0 v]; simpl; destruct (bytes_eqb k k0) eqn:E; auto.
  - apply bytes_eqb_eq in E. subst. apply dict_get_remove_same.
  - apply dict_get_remove_other. intros ->. rewrite bytes_eqb_refl in E. discriminate.
  - apply dict_get_remove_other. intros ->. rewrite bytes_eqb_refl in E. discriminate.
Qed.

Lemma ctx_edit_keys i e c : List.map fst (ctx_edit i e c) = List.map fst c.
Proof. induction c as [|[j o] c IH]; simpl; [reflexivity|]. rewrite IH. reflexivity. Qed.
Lemma ctx_edit_get i e c j :
  octx_get (ctx_edit i e c) j
  = option_map (fun o => if oid_eqb j i then apply_edit e o else o) (octx_get c j).
Proof.
  induction c as [|[[n g] o] c IH]; simpl; [reflexivity|].
  destruct (N.eqb n (fst j) && N.eqb g (snd j)) eqn:E; auto.
  apply andb_true_iff in E as [E1 E2]. apply N.eqb_eq in E1, E2. destruct j as [j1 j2]. simpl in *. subst.
  reflexivity.
Qed.

Lemma NoDup_app_l {A} (l1 l2 : list A) : NoDup (l1 ++ l2) -> NoDup l1.
Proof. induction l1; simpl; intros H; [constructor|]. inversion H; subst. constructor; auto. intros Hin. apply H2. apply in_or_app. auto. Qed.
Lemma NoDup_app_r {A} (l1 l2 : list A) : NoDup (l1 ++ l2) -> NoDup l2.
Proof. induction l1; simpl; auto. intros H. inversion H; auto. Qed.
Lemma NoDup_flat_map_member {A B C} (f : A -> list (B * C)) l x :
  In x l -> NoDup (List.map fst (flat_map f l)) -> NoDup (List.map fst (f x)).
Proof.
  induction l as [|a l IH]; simpl; [contradiction|]. rewrite map_app. intros [->|Hin] H.
  - eapply NoDup_app_l; eauto.
  - apply IH; auto. eapply NoDup_app_r; eauto.
Qed.

(* the objects below a kid: a proper descendant has another object number *)
Lemma kid_all_ids p0 k0 p k :
  In (p, k) (kid_all p0 k0) -> In (kid_id k) (List.map fst (kid_defs p0 k0)).
Proof.
  revert p0. induction k0 as [i a|i a|i c ks ex IH] using kid_ind'; intros p0 Hin.
  - destruct Hin as [Hin|[]]. inversion Hin; subst. left. reflexivity.
  - destruct Hin as [Hin|[]]. inversion Hin; subst. left. reflexivity.
  - rewrite kid_all_node in Hin. rewrite kid_defs_node. destruct Hin as [Hin|Hin].
    + inversion Hin; subst. left. reflexivity.
    + right. apply in_flat_map in Hin as [x [Hx Hin]]. rewrite Forall_forall in IH.
      specialize (IH x Hx i Hin). apply in_map_iff in IH as [y [Hy1 Hy2]]. apply in_map_iff.
      exists y. split; auto. apply in_flat_map. exists x. auto.
Qed.

Section Reject.
Variable nd : list (N * N).
Variable d : doc.
Hypothesis Hwf : wf_doc d.
Variable im : oid.          (* the object edited *)
Variable e : edit.
Variable sk full : bool.
Hypothesis Hsf : sk = false \/ full = false.
Let oc := emit_ctx d.
Let oc' := ctx_edit im e oc.
Notation tc := spec_tctx.
Notation opq := (shipped_opq_with nd).
Notation A' := (approxg opq oc' tc sk).

Let Hnd : NoDup (List.map fst oc) := proj1 Hwf.

Lemma lookup_other j o : In (j, o) oc -> is_refb o = false -> j <> im -> value_of oc' (oref j) = o.
Proof.
  intros Hin Ho Hne. destruct j as [a b]. apply value_of_ref; auto.
  assert (Hg : octx_get oc (a, b) = Some o) by (apply octx_get_In; auto).
  cbn [fst snd]. unfold oc'. rewrite ctx_edit_get, Hg. simpl.
  destruct (oid_eqb (a, b) im) eqn:E; auto. apply oid_eqb_eq in E. contradiction.
Qed.
Lemma lookup_edited dd : In (im, ODict dd) oc -> value_of oc' (oref im) = ODict (edit_dict e dd).
Proof.
  intros Hin.
  assert (Hg : octx_get oc im = Some (ODict dd)) by (apply octx_get_In; auto).
  unfold oref. apply value_of_ref; auto.
  replace (fst im, snd im) with im by (destruct im; reflexivity).
  unfold oc'. rewrite ctx_edit_get, Hg. simpl.
  replace (oid_eqb im im) with true by (symmetry; apply oid_eqb_eq; reflexivity). reflexivity.
Qed.

(* ---------- names ---------- *)
Lemma name_mismatch m v s allowed :
  bad_type allowed v -> In s allowed -> A' (S m) v (c_name_is s) = false.
Proof.
  intros [Hd Hn] Hs. apply (A_false_le _ _ _ _ 1); [lia|].
  unfold c_name_is, c_name_in. rewrite A_S, A1_direct by auto. simpl.
  destruct v; try reflexivity. rewrite orb_false_r.
  rewrite bytes_eqb_neq; [reflexivity|]. intros ->. apply (Hn s eq_refl). exact Hs.
Qed.
Lemma names_differ m s s' : s <> s' -> A' (S m) (OName s') (c_name_is s) = false.
Proof.
  intros Hne. apply (name_mismatch m _ s [s]); [|simpl; auto]. split; [reflexivity|].
  intros s0 Heq [<-|[]]. inversion Heq. congruence.
Qed.

(* ---------- why a dictionary fails a list of entries ---------- *)
Lemma fail_missing rec dd ents k c : In (DEnt k c KReq) ents -> dict_get dd k = None -> ents_okg tc sk rec dd ents = false.
Proof. intros Hin Hg. eapply ents_ok_false; eauto. simpl. rewrite Hg. exact I. Qed.
Lemma fail_forbidden rec dd ents k c v :
  In (DEnt k c KForb) ents -> dict_get dd k = Some v -> ents_okg tc sk rec dd ents = false.
Proof. intros Hin Hg. eapply ents_ok_false; eauto. simpl. rewrite Hg. exact I. Qed.
Lemma fail_value (rec : obj -> chk -> bool) dd ents k c o v :
  In (DEnt k c o) ents -> dict_get dd k = Some v -> sk && is_any tc c = false -> rec v c = false ->
  ents_okg tc sk rec dd ents = false.
Proof. intros Hin Hg Hna Hr. eapply ents_ok_false; eauto. simpl. rewrite Hg. destruct o; auto. Qed.

(* the entry is looked at: always in the full reading; in the skipping reading unless its check has type Any *)
Lemma na_full (c : chk) : full = true -> sk && is_any tc c = false.
Proof. intros Hf. destruct Hsf as [->|Hx]; [reflexivity|congruence]. Qed.
Lemma na_kind kd : full = true \/ kind_checked kd = true -> sk && is_any tc (chk_of_kind kd) = false.
Proof. intros [Hf|Hk]; [apply na_full; exact Hf|]. rewrite (kind_not_any tc kd Hk). apply andb_false_r. Qed.
Lemma sk_or_checked kd : full = true \/ kind_checked kd = true -> sk = false \/ kind_checked kd = true.
Proof. intros [Hf|Hk]; auto. destruct Hsf as [Hs|Hx]; [auto|congruence]. Qed.

(* ---------- a kid all of whose alternatives fail ---------- *)
Definition fail_kid (m : nat) (j : oid) : Prop :=
  A' m (oref j) kid_of_nonroot = false /\ A' m (oref j) kid_of_root = false.

Lemma ref_dict_fails m j dd ents :
  value_of oc' (oref j) = ODict dd -> ents_okg tc sk (A' m) dd ents = false ->
  A' (S (S m)) (oref j) (CRep (TDict ents None) None IAllowed) = false.
Proof.
  intros Hv Hf. unfold oref. rewrite A_ref_plain by reflexivity. fold (oref j). rewrite Hv.
  rewrite A_dict_plain. exact Hf.
Qed.

Lemma kid_fails m j dd :
  value_of oc' (oref j) = ODict dd ->
  ents_okg tc sk (A' m) dd page_ents = false -> ents_okg tc sk (A' m) dd template_ents = false ->
  ents_okg tc sk (A' m) dd nonroot_ents = false ->
  fail_kid (S (S (S m))) j.
Proof.
  intros Hv Hp Ht Hn.
  assert (H1 : A' (S (S m)) (oref j) spec_page = false) by (apply (ref_dict_fails m j dd); auto).
  assert (H2 : A' (S (S m)) (oref j) spec_template = false) by (apply (ref_dict_fails m j dd); auto).
  assert (H3 : A' (S (S m)) (oref j) spec_nonroot = false) by (apply (ref_dict_fails m j dd); auto).
  assert (H4 : A' (S (S m)) (oref j) (CNamed n_nonroot) = false).
  { rewrite A_S. rewrite (A1_named opq oc' tc _ _ _ n_nonroot spec_nonroot_rep) by reflexivity.
    rewrite <- A_S. exact H3. }
  unfold fail_kid, kid_of_nonroot, kid_of_root. rewrite !A_S, !A1_disj. cbn [existsb].
  rewrite H1, H2, H3, H4. simpl. rewrite !andb_false_r. auto.
Qed.

(* an array with a failing member *)
Lemma kids_array_fails m l x c :
  In x l -> A' m x c = false -> A' (S m) (OArr l) (c_plain (TArr c None)) = false.
Proof. intros. eapply c_arr_member; eauto. Qed.

(* ---------- the shape of the emitted objects ---------- *)
Definition type_name (k : kid) : bytes :=
  match k with KPage _ _ => B "Page" | KTemplate _ _ => B "Template" | KNode _ _ _ _ => B "Pages" end.
Definition kid_pairs (p : oid) (k : kid) : list (bytes * obj) :=
  match kid_obj p k with ODict dd => dd | _ => [] end.
Lemma kid_obj_pairs p k : kid_obj p k = ODict (kid_pairs p k).
Proof. destruct k; reflexivity. Qed.
Lemma kid_get_type p k : dict_get (kid_pairs p k) k_Type = Some (OName (type_name k)).
Proof. destruct k; reflexivity. Qed.

Lemma attrs_get_reserved table reserved a k :
  attrs_ok oc table reserved a -> In k reserved -> dict_get (attrs_pairs a) k = None.
Proof. intros [_ [Hres _]] Hk. apply dict_get_none. intros Hin. apply (Hres _ Hin). exact Hk. Qed.

Lemma leaf_get_count p k :
  kid_ok oc k -> (forall i c ks ex, k <> KNode i c ks ex) -> dict_get (kid_pairs p k) k_Count = None.
Proof.
  intros Hok Hleaf. destruct k as [i a|i a|i c ks ex]; [| |exfalso; eapply Hleaf; eauto];
    unfold kid_pairs; simpl kid_obj; cbn [dict_get];
    rewrite ?(bytes_eqb_neq k_Count k_Type), ?(bytes_eqb_neq k_Count k_Parent) by discriminate;
    eapply attrs_get_reserved; eauto; simpl; auto.
Qed.
Lemma page_get_parent p i a : dict_get (kid_pairs p (KPage i a)) k_Parent = Some (oref p).
Proof. reflexivity. Qed.
Lemma template_get_parent p i a : kid_ok oc (KTemplate i a) -> dict_get (kid_pairs p (KTemplate i a)) k_Parent = None.
Proof.
  intros Hok. unfold kid_pairs. simpl kid_obj. cbn [dict_get].
  rewrite (bytes_eqb_neq k_Parent k_Type) by discriminate. eapply attrs_get_reserved; eauto. simpl. auto.
Qed.
Lemma node_get p i c ks ex :
  dict_get (kid_pairs p (KNode i c ks ex)) k_Parent = Some (oref p)
  /\ dict_get (kid_pairs p (KNode i c ks ex)) k_Count = Some (OInt c)
  /\ dict_get (kid_pairs p (KNode i c ks ex)) k_Kids = Some (OArr (List.map (fun k => oref (kid_id k)) ks)).
Proof. repeat split; reflexivity. Qed.

(* membership of the structural entries *)
Lemma in_page_type : In (req k_Type (c_name_is (B "Page"))) page_ents. Proof. left. reflexivity. Qed.
Lemma in_page_parent : In (req k_Parent c_parent) page_ents. Proof. right. left. reflexivity. Qed.
Lemma in_template_type : In (req k_Type (c_name_is (B "Template"))) template_ents. Proof. left. reflexivity. Qed.
Lemma in_template_parent : In (DEnt k_Parent c_parent KForb) template_ents. Proof. right. left. reflexivity. Qed.
Lemma in_nonroot_type : In (req k_Type (c_name_is (B "Pages"))) nonroot_ents. Proof. left. reflexivity. Qed.
Lemma in_nonroot_count : In (req k_Count c_int) nonroot_ents. Proof. right. left. reflexivity. Qed.
Lemma in_nonroot_kids : In (req k_Kids (c_plain (TArr kid_of_nonroot None))) nonroot_ents.
Proof. right. right. left. reflexivity. Qed.
Lemma in_nonroot_parent : In (req k_Parent c_parent) nonroot_ents. Proof. right. right. right. left. reflexivity. Qed.
Lemma in_page_opt k kd : In (k, kd) page_table -> In (opt k (chk_of_kind kd)) page_ents.
Proof. intros H. right. right. apply in_map_iff. exists (k, kd). auto. Qed.
Lemma in_template_opt k kd : In (k, kd) template_table -> In (opt k (chk_of_kind kd)) template_ents.
Proof. intros H. right. right. apply in_map_iff. exists (k, kd). auto. Qed.

Lemma neqb a b : a <> b -> bytes_eqb a b = false. Proof. apply bytes_eqb_neq. Qed.

(* the three alternatives fail on a mutated page / template / inner node: depth 6 covers every entry kind *)
Notation M := 6.

(* the value the edit writes / what it does to the other keys *)
Lemma edit_set_get k v dd : ESet k v = e -> dict_get (edit_dict e dd) k = Some v.
Proof. intros <-. rewrite edit_get, bytes_eqb_refl. reflexivity. Qed.
Lemma edit_drop_get k dd : EDrop k = e -> dict_get (edit_dict e dd) k = None.
Proof. intros <-. rewrite edit_get, bytes_eqb_refl. reflexivity. Qed.
Lemma edit_other k dd : k <> edit_key e -> dict_get (edit_dict e dd) k = dict_get dd k.
Proof. intros Hne. rewrite edit_get. destruct e; simpl in Hne; rewrite neqb by auto; reflexivity. Qed.

Lemma type_value_fails (dd : list (bytes * obj)) v ents s :
  ESet k_Type v = e ->
  bad_type [B "Pages"; B "Page"; B "Template"] v -> In s [B "Pages"; B "Page"; B "Template"] ->
  In (req k_Type (c_name_is s)) ents ->
  ents_okg tc sk (A' M) (edit_dict e dd) ents = false.
Proof.
  intros He Hb Hs Hin. eapply fail_value; eauto; try apply andb_false_r.
  - apply edit_set_get. exact He.
  - eapply name_mismatch; eauto.
Qed.
Lemma type_dropped_fails (dd : list (bytes * obj)) ents c :
  EDrop k_Type = e -> In (req k_Type c) ents -> ents_okg tc sk (A' M) (edit_dict e dd) ents = false.
Proof. intros He Hin. eapply fail_missing; eauto. apply edit_drop_get. exact He. Qed.

(* a kid of another type: its /Type name is not the one the alternative wants *)
Lemma wrong_type_fails dd ents s s' :
  edit_key e <> k_Type ->
  dict_get dd k_Type = Some (OName s') -> s <> s' -> In (req k_Type (c_name_is s)) ents ->
  ents_okg tc sk (A' M) (edit_dict e dd) ents = false.
Proof.
  intros Hk Hg Hne Hin. eapply fail_value; eauto; try apply andb_false_r.
  - rewrite edit_other; eauto.
  - apply names_differ. exact Hne.
Qed.
Lemma count_missing_fails dd :
  edit_key e <> k_Count -> dict_get dd k_Count = None -> ents_okg tc sk (A' M) (edit_dict e dd) nonroot_ents = false.
Proof.
  intros Hk Hg. eapply fail_missing; [apply in_nonroot_count|]. rewrite edit_other; auto.
Qed.

Lemma table_key_neq t res k kd r : table_fine t res = true -> In (k, kd) t -> In r res -> k <> r.
Proof. apply table_fine_neq. Qed.

Lemma leaf_fails p k is_page :
  In (p, k) (doc_kids d) -> kid_id k = im ->
  (is_page = true -> exists i a, k = KPage i a) -> (is_page = false -> exists i a, k = KTemplate i a) ->
  leaf_violation full oc' is_page e ->
  fail_kid (S (S (S M))) im.
Proof.
  intros Hin Hid Hpg Htp Hv.
  destruct (doc_kid_facts d Hwf p k Hin) as [Hctx [Hok _]].
  rewrite kid_obj_pairs, Hid in Hctx. pose proof (lookup_edited _ Hctx) as Hval. clear Hid Hctx.
  assert (Hleaf : forall i c ks ex, k <> KNode i c ks ex).
  { intros i c ks ex ->. destruct is_page; [destruct (Hpg eq_refl) as [? [? ?]] | destruct (Htp eq_refl) as [? [? ?]]]; discriminate. }
  pose proof (kid_get_type p k) as Hty. pose proof (leaf_get_count p k Hok Hleaf) as Hcnt.
  destruct tables_fine as [Hf1 [Hf2 _]].
  remember e as e0 eqn:He in Hv.
  apply (kid_fails M im _ Hval); destruct Hv as [|v Hb|Hp|v Hfull Hp Hd|v Hp|k0 kd v Hck Hk Hd Hbad].
  (* --- page alternative --- *)
  - eapply type_dropped_fails; eauto using in_page_type.
  - eapply type_value_fails; eauto using in_page_type. simpl; auto.
  - eapply fail_missing; [apply in_page_parent|]. apply edit_drop_get. exact He.
  - eapply fail_value; [apply in_page_parent|apply edit_set_get; exact He|apply na_full; assumption|].
    apply (A_false_le _ _ _ _ 1); [lia|]. apply A_any_req_direct. exact Hd.
  - (* template with /Parent: as a page its /Type is wrong *)
    destruct (Htp Hp) as [i [a ->]].
    eapply (wrong_type_fails _ page_ents (B "Page") (B "Template")); eauto using in_page_type; try discriminate.
    rewrite <- He. discriminate.
  - destruct is_page; [change (In (k0, kd) page_table) in Hk | change (In (k0, kd) template_table) in Hk].
    + eapply fail_value; [apply in_page_opt; eassumption|apply edit_set_get; exact He|apply na_kind; assumption|].
      apply kind_complete; auto using sk_or_checked.
    + destruct (Htp eq_refl) as [i [a ->]].
      eapply (wrong_type_fails _ page_ents (B "Page") (B "Template")); eauto using in_page_type; try discriminate.
      rewrite <- He. simpl. eapply (table_key_neq template_table); eauto. simpl; auto.
  (* --- template alternative --- *)
  - eapply type_dropped_fails; eauto using in_template_type.
  - eapply type_value_fails; eauto using in_template_type. simpl; auto.
  - (* page without /Parent: as a template its /Type is wrong *)
    destruct (Hpg Hp) as [i [a ->]].
    eapply (wrong_type_fails _ template_ents (B "Template") (B "Page")); eauto using in_template_type; try discriminate.
    rewrite <- He. discriminate.
  - eapply fail_forbidden; [apply in_template_parent|]. apply edit_set_get. exact He.
  - eapply fail_forbidden; [apply in_template_parent|]. apply edit_set_get. exact He.
  - destruct is_page; [change (In (k0, kd) page_table) in Hk | change (In (k0, kd) template_table) in Hk].
    + destruct (Hpg eq_refl) as [i [a ->]].
      eapply fail_forbidden; [apply in_template_parent|].
      rewrite edit_other; [apply page_get_parent|]. rewrite <- He. simpl.
      intros Heq. symmetry in Heq. revert Heq. eapply (table_key_neq page_table); eauto. simpl; auto.
    + eapply fail_value; [apply in_template_opt; eassumption|apply edit_set_get; exact He|apply na_kind; assumption|].
      apply kind_complete; auto using sk_or_checked.
  (* --- inner-node alternative: a page or template has no /Count (or no /Type) --- *)
  - eapply type_dropped_fails; eauto using in_nonroot_type.
  - eapply type_value_fails; eauto using in_nonroot_type. simpl; auto.
  - apply count_missing_fails; auto. rewrite <- He. discriminate.
  - apply count_missing_fails; auto. rewrite <- He. discriminate.
  - apply count_missing_fails; auto. rewrite <- He. discriminate.
  - apply count_missing_fails; auto. rewrite <- He. simpl.
    destruct is_page; [change (In (k0, kd) page_table) in Hk; eapply (table_key_neq page_table)
                      | change (In (k0, kd) template_table) in Hk; eapply (table_key_neq template_table)]; eauto; simpl; auto.
Qed.

(* ---------- nodes ---------- *)
Lemma direct_fails_kid x l : is_refb x = false -> A' 2 x (CRep (TDisj l) None IReq) = false.
Proof. intros Hx. rewrite A_S, A1_disj. rewrite (A_any_req_direct opq oc' tc sk 0 x Hx). reflexivity. Qed.

(* a reference to no object denotes null, which is no kid *)
Lemma dangling_value j : octx_get oc' j = None -> value_of oc' (oref j) = ONull.
Proof. intros H. destruct j as [a b]. unfold oref, value_of. cbn [fst snd deref]. rewrite H. reflexivity. Qed.
Lemma null_fails_dict ents : A' 1 ONull (CRep (TDict ents None) None IAllowed) = false.
Proof. rewrite A_S, A1_direct by reflexivity. reflexivity. Qed.
Lemma dangling_fails_kid j :
  octx_get oc' j = None ->
  A' 3 (oref j) kid_of_nonroot = false /\ A' 3 (oref j) kid_of_root = false.
Proof.
  intros H. pose proof (dangling_value j H) as Hv.
  assert (Hd : forall ents, A' 2 (oref j) (CRep (TDict ents None) None IAllowed) = false).
  { intros ents. unfold oref. rewrite A_ref_plain by reflexivity. fold (oref j). rewrite Hv. apply null_fails_dict. }
  assert (Hn : A' 2 (oref j) (CNamed n_nonroot) = false).
  { rewrite A_S. rewrite (A1_named opq oc' tc _ _ _ n_nonroot spec_nonroot_rep) by reflexivity.
    rewrite <- A_S. apply Hd. }
  assert (H1 : A' 2 (oref j) spec_page = false) by apply Hd.
  assert (H2 : A' 2 (oref j) spec_template = false) by apply Hd.
  assert (H3 : A' 2 (oref j) spec_nonroot = false) by apply Hd.
  split.
  - unfold kid_of_nonroot. rewrite A_S, A1_disj. cbn [existsb]. rewrite H1, H2, Hn. simpl. apply andb_false_r.
  - unfold kid_of_root. rewrite A_S, A1_disj. cbn [existsb]. rewrite H1, H2, H3. simpl. apply andb_false_r.
Qed.

Lemma node_ents_fail (is_root : bool) l dd ks :
  (forall j, octx_get oc' j = None -> A' 3 (oref j) (CRep (TDisj l) None IReq) = false) ->
  node_violation full oc' is_root ks e ->
  ents_okg tc sk (A' M) (edit_dict e dd) (node_ents (CRep (TDisj l) None IReq) (if is_root then KForb else KReq)) = false.
Proof.
  intros Hdang Hv. remember e as e0 eqn:He in Hv. unfold node_ents.
  destruct Hv as [| | |v Hb|v Hd Hi|v Hd Ha|v [pre [x [post [Hx [-> _]]]]]|v [pre [j [post [Hj ->]]]]|v Hr|Hr|v Hfull Hr Hd].
  - eapply fail_missing; [left; reflexivity|]. apply edit_drop_get. exact He.
  - eapply fail_missing; [right; left; reflexivity|]. apply edit_drop_get. exact He.
  - eapply fail_missing; [right; right; left; reflexivity|]. apply edit_drop_get. exact He.
  - eapply fail_value; [left; reflexivity|apply edit_set_get; exact He|apply andb_false_r|].
    eapply name_mismatch; eauto. destruct is_root; simpl; auto.
  - eapply fail_value; [right; left; reflexivity|apply edit_set_get; exact He|apply andb_false_r|].
    apply (A_false_le _ _ _ _ 1); [lia|]. apply c_prim_direct; auto; destruct v; try reflexivity; discriminate.
  - eapply fail_value; [right; right; left; reflexivity|apply edit_set_get; exact He|apply andb_false_r|].
    apply c_not_array; auto.
  - eapply fail_value; [right; right; left; reflexivity|apply edit_set_get; exact He|apply andb_false_r|].
    apply (A_false_le _ _ _ _ 3); [lia|]. apply (kids_array_fails 2 _ x).
    + apply in_or_app. right. left. reflexivity.
    + apply direct_fails_kid. exact Hx.
  - eapply fail_value; [right; right; left; reflexivity|apply edit_set_get; exact He|apply andb_false_r|].
    apply (A_false_le _ _ _ _ 4); [lia|]. apply (kids_array_fails 3 _ (oref j)).
    + apply in_or_app. right. left. reflexivity.
    + apply Hdang. exact Hj.
  - subst is_root. eapply fail_forbidden; [right; right; right; left; reflexivity|]. apply edit_set_get. exact He.
  - subst is_root. eapply fail_missing; [right; right; right; left; reflexivity|]. apply edit_drop_get. exact He.
  - subst is_root. eapply fail_value; [right; right; right; left; reflexivity|apply edit_set_get; exact He|apply na_full; assumption|].
    apply (A_false_le _ _ _ _ 1); [lia|]. apply A_any_req_direct. exact Hd.
Qed.

Lemma node_fails p i c ks ex :
  In (p, KNode i c ks ex) (doc_kids d) -> i = im -> node_violation full oc' false ks e -> fail_kid (S (S (S M))) im.
Proof.
  intros Hin Hid Hv.
  destruct (doc_kid_facts d Hwf p _ Hin) as [Hctx _].
  rewrite kid_obj_pairs in Hctx. simpl kid_id in Hctx. rewrite Hid in Hctx.
  pose proof (lookup_edited _ Hctx) as Hval. clear Hctx.
  pose proof (kid_get_type p (KNode i c ks ex)) as Hty.
  destruct (node_get p i c ks ex) as [Hpar _].
  set (dd := kid_pairs p (KNode i c ks ex)) in *.
  apply (kid_fails M im _ Hval).
  - (* as a page *)
    remember e as e0 eqn:He in Hv.
    destruct Hv as [| | |v Hb|v Hd Hi|v Hd Ha|v Hk|v Hk|v Hr|Hr|v Hfull Hr Hd];
      try (eapply (wrong_type_fails dd page_ents (B "Page") (B "Pages"));
           eauto using in_page_type; try discriminate; rewrite <- He; discriminate).
    + eapply type_dropped_fails; eauto using in_page_type.
    + eapply type_value_fails; eauto using in_page_type. simpl; auto.
  - (* as a template *)
    remember e as e0 eqn:He in Hv.
    destruct Hv as [| | |v Hb|v Hd Hi|v Hd Ha|v Hk|v Hk|v Hr|Hr|v Hfull Hr Hd].
    + eapply type_dropped_fails; eauto using in_template_type.
    + eapply fail_forbidden; [apply in_template_parent|]. rewrite edit_other; [exact Hpar|]. rewrite <- He. discriminate.
    + eapply fail_forbidden; [apply in_template_parent|]. rewrite edit_other; [exact Hpar|]. rewrite <- He. discriminate.
    + eapply type_value_fails; eauto using in_template_type. simpl; auto.
    + eapply fail_forbidden; [apply in_template_parent|]. rewrite edit_other; [exact Hpar|]. rewrite <- He. discriminate.
    + eapply fail_forbidden; [apply in_template_parent|]. rewrite edit_other; [exact Hpar|]. rewrite <- He. discriminate.
    + eapply fail_forbidden; [apply in_template_parent|]. rewrite edit_other; [exact Hpar|]. rewrite <- He. discriminate.
    + eapply fail_forbidden; [apply in_template_parent|]. rewrite edit_other; [exact Hpar|]. rewrite <- He. discriminate.
    + discriminate.
    + eapply (wrong_type_fails dd template_ents (B "Template") (B "Pages"));
        eauto using in_template_type; try discriminate. rewrite <- He. discriminate.
    + eapply fail_forbidden; [apply in_template_parent|]. apply edit_set_get. exact He.
  - (* as an inner node *)
    apply (node_ents_fail false _ dd ks); [|exact Hv]. intros j Hj. apply dangling_fails_kid. exact Hj.
Qed.

(* an unedited inner node one of whose kids fails *)
Lemma ancestor_fails m p i c ks ex x :
  In (p, KNode i c ks ex) (doc_kids d) -> i <> im -> In x ks -> fail_kid m (kid_id x) ->
  fail_kid (S (S (S (S m)))) i.
Proof.
  intros Hin Hne Hx [Hf _].
  destruct (doc_kid_facts d Hwf p _ Hin) as [Hctx _]. simpl kid_id in Hctx.
  pose proof (lookup_other i _ Hctx (kid_obj_direct _ _) Hne) as Hval.
  rewrite kid_obj_pairs in Hval.
  destruct (node_get p i c ks ex) as [Hpar [_ Hkids]].
  apply (kid_fails (S m) i _ Hval).
  - eapply fail_value; [apply in_page_type|apply kid_get_type|apply andb_false_r|]. apply names_differ. discriminate.
  - eapply fail_forbidden; [apply in_template_parent|exact Hpar].
  - eapply fail_value; [apply in_nonroot_kids|exact Hkids|apply andb_false_r|].
    apply (kids_array_fails m _ (oref (kid_id x))); auto.
    apply in_map_iff. exists x. auto.
Qed.

(* the failure travels up to the top of the subtree that holds the edited object *)
Lemma subtree_fails p0 k0 :
  NoDup (List.map fst (kid_defs p0 k0)) ->
  (forall p k, In (p, k) (kid_all p0 k0) -> In (p, k) (doc_kids d)) ->
  forall p k, In (p, k) (kid_all p0 k0) -> kid_id k = im ->
  (exists m, fail_kid m im) -> exists m, fail_kid m (kid_id k0).
Proof.
  revert p0. induction k0 as [i a|i a|i c ks ex IH] using kid_ind'; intros p0 Hnd0 Hsub p k Hin Hid Hm.
  - destruct Hin as [Hin|[]]. inversion Hin; subst. rewrite Hid. exact Hm.
  - destruct Hin as [Hin|[]]. inversion Hin; subst. rewrite Hid. exact Hm.
  - rewrite kid_all_node in Hin. destruct Hin as [Hin|Hin].
    + inversion Hin; subst. rewrite Hid. exact Hm.
    + apply in_flat_map in Hin as [x [Hx Hin]]. rewrite Forall_forall in IH.
      rewrite kid_defs_node in Hnd0. simpl in Hnd0. inversion Hnd0 as [|? ? Hnotin Hnd1]; subst.
      assert (Hsubx : forall p' k', In (p', k') (kid_all i x) -> In (p', k') (doc_kids d)).
      { intros p' k' H'. apply Hsub. rewrite kid_all_node. right. apply in_flat_map. exists x. auto. }
      destruct (IH x Hx i (NoDup_flat_map_member _ _ _ Hx Hnd1) Hsubx p k Hin Hid Hm) as [m Hf].
      exists (S (S (S (S m)))). simpl kid_id.
      apply (ancestor_fails m p0 i c ks ex x); auto.
      * apply Hsub. rewrite kid_all_node. left. reflexivity.
      * intros Heq.
        assert (Hk : In (kid_id k) (List.map fst (flat_map (kid_defs i) ks))).
        { pose proof (kid_all_ids i x p k Hin) as Hi. apply in_map_iff in Hi as [y [Hy1 Hy2]].
          apply in_map_iff. exists y. split; auto. apply in_flat_map. exists x. auto. }
        rewrite Hid in Hk. rewrite <- Heq in Hk. exact (Hnotin Hk).
Qed.

(* ---------- the root node and the catalog ---------- *)
Lemma in_catalog_pages : In (req k_Pages spec_root_node) catalog_ents.
Proof. unfold catalog_ents. right. apply in_or_app. right. left. reflexivity. Qed.

Lemma catalog_fails_by_pages m :
  (forall v, dict_get (match emit_root d with ODict dd => dd | _ => [] end) k_Pages = Some v -> A' m v spec_root_node = false) ->
  A' (S m) (emit_root d) spec_catalog = false.
Proof.
  intros H. unfold emit_root in *. unfold spec_catalog, c_plain. rewrite A_dict_plain.
  eapply fail_value; [apply in_catalog_pages|reflexivity|apply andb_false_r|]. apply H. reflexivity.
Qed.

Definition root_pairs : list (bytes * obj) := match root_obj d with ODict dd => dd | _ => [] end.
Lemma root_obj_pairs : root_obj d = ODict root_pairs. Proof. reflexivity. Qed.
Lemma root_in_ctx : In (d_root d, root_obj d) oc. Proof. left. reflexivity. Qed.

(* a kid of the root node fails: the (unedited) root node fails, directly or behind its reference *)
Lemma root_fails_by_kid m x :
  d_root d <> im -> In x (d_kids d) -> fail_kid m (kid_id x) ->
  A' (S (S (S (S m)))) (emit_root d) spec_catalog = false.
Proof.
  intros Hne Hx [_ Hf].
  assert (Hents : ents_okg tc sk (A' (S m)) root_pairs root_ents = false).
  { eapply fail_value; [right; right; left; reflexivity|reflexivity|apply andb_false_r|].
    apply (kids_array_fails m _ (oref (kid_id x))); auto. apply in_map_iff. exists x. auto. }
  apply catalog_fails_by_pages. intros v Hv. simpl in Hv. inversion Hv; subst v. clear Hv.
  destruct (d_pages_direct d).
  - apply (A_false_le _ _ _ _ (S (S m))); [lia|]. rewrite root_obj_pairs. unfold spec_root_node, c_plain.
    rewrite A_dict_plain. exact Hents.
  - unfold spec_root_node, c_plain. apply (ref_dict_fails (S m) (d_root d) root_pairs); auto.
    rewrite <- root_obj_pairs. apply lookup_other; auto. apply root_in_ctx.
Qed.

Lemma root_id_fresh p k : In (p, k) (doc_kids d) -> d_root d <> kid_id k.
Proof.
  intros Hin Heq. unfold doc_kids in Hin. apply in_flat_map in Hin as [k0 [Hk0 Hin]].
  assert (Hk : In (kid_id k) (List.map fst (kids_defs (d_root d) (d_kids d)))).
  { pose proof (kid_all_ids _ _ _ _ Hin) as Hi. apply in_map_iff in Hi as [y [Hy1 Hy2]].
    apply in_map_iff. exists y. split; auto. unfold kids_defs. apply in_flat_map. exists k0. auto. }
  rewrite <- Heq in Hk.
  pose proof Hnd as Hn. unfold oc, emit_ctx in Hn. simpl in Hn. inversion Hn as [|? ? Hnotin _]; subst.
  apply Hnotin. rewrite map_app. apply in_or_app. left. exact Hk.
Qed.

(* an edited kid that fails all its alternatives makes the catalog fail *)
Lemma kid_failure_reaches_catalog p k m0 :
  In (p, k) (doc_kids d) -> kid_id k = im -> fail_kid m0 im ->
  exists n, A' n (emit_root d) spec_catalog = false.
Proof.
  intros Hin Hid Hf. pose proof Hin as Hin0.
  unfold doc_kids in Hin. apply in_flat_map in Hin as [k0 [Hk0 Hin]].
  assert (Hnd0 : NoDup (List.map fst (kid_defs (d_root d) k0))).
  { pose proof Hnd as Hn. unfold oc, emit_ctx in Hn. simpl in Hn. inversion Hn as [|? ? _ Hn1]; subst.
    rewrite map_app in Hn1. apply NoDup_app_l in Hn1. unfold kids_defs in Hn1.
    eapply NoDup_flat_map_member; eauto. }
  assert (Hsub : forall p' k', In (p', k') (kid_all (d_root d) k0) -> In (p', k') (doc_kids d)).
  { intros p' k' H'. unfold doc_kids. apply in_flat_map. exists k0. auto. }
  destruct (subtree_fails (d_root d) k0 Hnd0 Hsub p k Hin Hid (ex_intro _ m0 Hf)) as [m Hm].
  exists (S (S (S (S m)))). apply (root_fails_by_kid m k0); auto.
  rewrite <- Hid. apply (root_id_fresh p k Hin0).
Qed.

(* the root node itself is edited *)
Lemma root_edit_fails :
  d_root d = im -> d_pages_direct d = false -> node_violation full oc' true (d_kids d) e ->
  exists n, A' n (emit_root d) spec_catalog = false.
Proof.
  intros Hid Hdir Hv. exists (S (S (S M))). apply catalog_fails_by_pages.
  intros v Hg. simpl in Hg. rewrite Hdir in Hg. inversion Hg; subst v. clear Hg.
  unfold spec_root_node, c_plain. rewrite Hid.
  apply (ref_dict_fails M im (edit_dict e root_pairs)).
  - apply lookup_edited. rewrite <- Hid, <- root_obj_pairs. apply root_in_ctx.
  - apply (node_ents_fail true _ root_pairs (d_kids d)); [|exact Hv]. intros j Hj. apply dangling_fails_kid. exact Hj.
Qed.
End Reject.

(* ---------- the catalog itself is edited ---------- *)
Section CatReject.
Variable nd : list (N * N).
Variable d : doc.
Variable sk full : bool.
Hypothesis Hsf : sk = false \/ full = false.
Let oc := emit_ctx d.
Notation tc := spec_tctx.
Notation opq := (shipped_opq_with nd).
Notation A := (approxg opq oc tc sk).

Lemma in_catalog_type : In (req k_Type (c_name_is (B "Catalog"))) catalog_ents.
Proof. left. reflexivity. Qed.
Lemma in_catalog_opt k kd : In (k, kd) catalog_table -> In (opt k (chk_of_kind kd)) catalog_ents.
Proof.
  intros H. unfold catalog_ents. right. apply in_or_app.
  rewrite <- (firstn_skipn 2 catalog_table) in H. apply in_app_or in H as [H|H].
  - left. apply in_map_iff. exists (k, kd). auto.
  - right. right. apply in_map_iff. exists (k, kd). auto.
Qed.

Lemma cat_edit_fails e : cat_violation full oc e -> exists n, A n (apply_edit e (emit_root d)) spec_catalog = false.
Proof.
  intros Hv. exists 7. unfold emit_root, apply_edit, spec_catalog, c_plain. rewrite A_dict_plain.
  destruct Hv as [| |v Hb|v Hd Hdict|k kd v Hck Hk Hd Hbad|k kd v Hk Hi Hd].
  - eapply (ents_ok_false _ _ _ _ _ _ in_catalog_type). cbn [ent_key req opt]. rewrite edit_get, bytes_eqb_refl. exact I.
  - eapply (ents_ok_false _ _ _ _ _ _ in_catalog_pages). cbn [ent_key req opt]. rewrite edit_get, bytes_eqb_refl. exact I.
  - eapply (ents_ok_false _ _ _ _ _ _ in_catalog_type). cbn [ent_key req opt]. rewrite edit_get, bytes_eqb_refl.
    cbn [ent_opt ent_chk req opt]. split; [apply andb_false_r|].
    destruct Hb as [Hd Hn]. apply (A_false_le _ _ _ _ 1); [lia|].
    unfold c_name_is, c_name_in. rewrite A_S, A1_direct by auto. simpl.
    destruct v; try reflexivity. rewrite orb_false_r.
    rewrite bytes_eqb_neq; [reflexivity|]. intros ->. apply (Hn _ eq_refl). simpl. auto.
  - eapply (ents_ok_false _ _ _ _ _ _ in_catalog_pages). cbn [ent_key req opt]. rewrite edit_get, bytes_eqb_refl.
    cbn [ent_opt ent_chk req opt]. split; [apply andb_false_r|].
    apply (A_false_le _ _ _ _ 1); [lia|]. unfold spec_root_node, c_plain. rewrite A_S, A1_direct by auto. simpl.
    destruct v; try discriminate; reflexivity.
  - eapply (ents_ok_false _ _ _ _ _ _ (in_catalog_opt k kd Hk)). cbn [ent_key req opt]. rewrite edit_get, bytes_eqb_refl.
    cbn [ent_opt ent_chk req opt]. split.
    + destruct Hck as [Hf|Hc].
      * destruct Hsf as [->|Hx]; [reflexivity|congruence].
      * rewrite (kind_not_any tc kd Hc). apply andb_false_r.
    + apply kind_complete; auto. destruct Hck as [Hf|Hc]; auto. destruct Hsf as [Hs|Hx]; [auto|congruence].
  - eapply (ents_ok_false _ _ _ _ _ _ (in_catalog_opt k kd Hk)). cbn [ent_key req opt]. rewrite edit_get, bytes_eqb_refl.
    cbn [ent_opt ent_chk req opt]. split.
    + destruct kd; try discriminate; apply andb_false_r.
    + apply (A_false_le _ _ _ _ 1); [lia|]. apply kind_indirect_direct; assumption.
Qed.
End CatReject.

(* ---------- every mutation is rejected ---------- *)
Lemma spec_rejects_gen nd sk full d m :
  sk = false \/ full = false -> wf_doc d -> mutation full d m ->
  exists n, approxg (shipped_opq_with nd) (fst m) spec_tctx sk n (snd m) spec_catalog = false.
Proof.
  intros Hsf Hwf Hm.
  destruct Hm as [e Hv|e Hdir Hv|p i c ks ex e Hin Hv|p i a e Hin Hv|p i a e Hin Hv]; simpl fst; simpl snd.
  - apply (cat_edit_fails nd d sk full Hsf). exact Hv.
  - apply (root_edit_fails nd d Hwf (d_root d) e sk full Hsf); auto.
  - eapply (kid_failure_reaches_catalog nd d Hwf i e sk p (KNode i c ks ex)); [exact Hin|reflexivity|].
    apply (node_fails nd d Hwf i e sk full Hsf p i c ks ex Hin eq_refl Hv).
  - eapply (kid_failure_reaches_catalog nd d Hwf i e sk p (KPage i a)); [exact Hin|reflexivity|].
    apply (leaf_fails nd d Hwf i e sk full Hsf p (KPage i a) true Hin eq_refl); auto.
    + intros _. exists i, a. reflexivity.
    + discriminate.
  - eapply (kid_failure_reaches_catalog nd d Hwf i e sk p (KTemplate i a)); [exact Hin|reflexivity|].
    apply (leaf_fails nd d Hwf i e sk full Hsf p (KTemplate i a) false Hin eq_refl); auto.
    + discriminate.
    + intros _. exists i, a. reflexivity.
Qed.

(* the full reading: every violation *)
Theorem spec_rejects nd d m :
  wf_doc d -> mutation true d m -> ~ conforms (shipped_opq_with nd) (fst m) spec_tctx (snd m) spec_catalog.
Proof.
  intros Hwf Hm Hc. destruct (spec_rejects_gen nd false true d m (or_introl eq_refl) Hwf Hm) as [n Hn].
  rewrite <- approx_approxg in Hn. rewrite (Hc n) in Hn. discriminate.
Qed.
(* the reading check_type implements: every violation not located in an Any-typed entry *)
Theorem spec_rejects_skip nd d m :
  wf_doc d -> mutation false d m -> ~ conforms_skip (shipped_opq_with nd) (fst m) spec_tctx (snd m) spec_catalog.
Proof.
  intros Hwf Hm Hc. destruct (spec_rejects_gen nd true false d m (or_intror eq_refl) Hwf Hm) as [n Hn].
  rewrite (Hc n) in Hn. discriminate.
Qed.
