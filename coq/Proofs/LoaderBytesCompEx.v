(* Proofs/LoaderBytesCompEx.v — C03b: the hypotheses of the compression-transparency theorem are jointly satisfiable:
   the object-stream example of Proofs/LoaderBytesOstmEx.v (1 0 in the file; 5 0 and 6 0 inside the container 4 0) and a
   classic file that writes 1 0, 5 0 and 6 0 directly. *)
From PV Require Import Model.Obj Model.XrefTab Model.XrefStm Model.ObjStm Model.Loader Model.LoaderBytes
     Spec.Spelling Spec.XrefEnc Spec.RenderClassic Spec.RenderXrefStm Spec.ObjStmEnc Spec.RenderObjStm.
From PV Require Import Proofs.XrefBase Proofs.Loader Proofs.ObjStream Proofs.ObjSpell Proofs.ObjC02
     Proofs.LoaderBytesBase Proofs.LoaderBytesObj Proofs.LoaderBytesSect Proofs.LoaderBytesMain Proofs.LoaderBytesEx
     Proofs.LoaderBytesHistEx Proofs.LoaderBytesXstm Proofs.LoaderBytesOstm Proofs.LoaderBytesOstmEx Proofs.LoaderBytesComp.
From Coq Require Import Lia.
Close Scope N_scope.

Definition ex_cdoc : cdoc := mk_cdoc (ex_oobjs ++ compressed [ex_ostm]) (1, 0)%N.

Definition ex_clayout : layout :=
  mk_layout [] (B "1.4" ++ xnl)
    [xlo 1 (B "/Catalog"); xlo 1 (B "11"); xlo 1 (B "33")] [] xnl
    [mk_tsub [] 0 1 1 xnl [mk_tent 0 65535 false [32; 10]%N; mk_tent 0 0 true [32; 10]%N];
     mk_tsub [] 5 1 1 xnl [mk_tent 0 0 true [32; 10]%N; mk_tent 0 0 true [32; 10]%N]]
    xnl (B "<</Root 1 0 R>>") xnl xnl 2 xnl xnl.

Lemma ex_cdoc_objs : d_objs ex_cdoc = [((1, 0)%N, OName (B "Catalog")); ((5, 0)%N, OInt 11); ((6, 0)%N, OInt 33)].
Proof. vm_compute. reflexivity. Qed.

Lemma xsp_11 : spells' 50 (OInt 11) (B "11").
Proof. apply sp_number. apply (sp_int false [] (B "11")); [constructor|discriminate|repeat constructor|vm_compute; split; discriminate]. Qed.
Lemma xsp_33 : spells' 50 (OInt 33) (B "33").
Proof. apply sp_number. apply (sp_int false [] (B "33")); [constructor|discriminate|repeat constructor|vm_compute; split; discriminate]. Qed.

Lemma ex_wf_cdoc : wf_doc ex_cdoc.
Proof. unfold wf_doc. rewrite ex_cdoc_objs. cbn. repeat constructor; cbn; intuition discriminate. Qed.

Lemma ex_wf_clayout : wf_layout ex_cdoc ex_clayout.
Proof.
  constructor.
  - vm_compute. reflexivity.
  - reflexivity.
  - rewrite ex_cdoc_objs. cbn [l_objs ex_clayout combine]. repeat apply Forall_cons; [| | |apply Forall_nil]; cbn [fst snd].
    + x_obj. exact ex_sp_catalog.
    + x_obj. exact xsp_11.
    + x_obj. exact xsp_33.
  - cbn [ex_clayout l_xpre l_xeol l_table]. x_sect.
  - vm_compute. reflexivity.
  - vm_compute. repeat constructor; cbn; intuition discriminate.
  - intros e Hin U. vm_compute in Hin. repeat (destruct Hin as [<-|Hin]); try destruct Hin; vm_compute in U; try discriminate; cbn; tauto.
  - intros id Hin. rewrite ex_cdoc_objs in Hin. cbn in Hin. destruct Hin as [<-|[<-|[<-|[]]]].
    + exists (mk_xent 1 0 (XrefTab.XInUse 0)). split; [vm_compute; tauto|]. split; reflexivity.
    + exists (mk_xent 5 0 (XrefTab.XInUse 0)). split; [vm_compute; tauto|]. split; reflexivity.
    + exists (mk_xent 6 0 (XrefTab.XInUse 0)). split; [vm_compute; tauto|]. split; reflexivity.
  - split; [repeat constructor|]. split; [vm_compute; reflexivity|].
    exists [(B "Root", ORef 1 0)]. split; [exact ex_sp_trailer|]. repeat split; reflexivity.
  - split; [repeat constructor|discriminate].
  - split; [cbn; lia|]. split; vm_compute; reflexivity.
  - repeat constructor.
  - repeat constructor; discriminate.
Qed.

Lemma ex_compression_hyps rel :
  wf_olayout rel ex_oobjs [ex_ostm] (1, 0)%N ex_olayout /\ wf_doc ex_cdoc /\ wf_layout ex_cdoc ex_clayout.
Proof. exact (conj (ex_wf_olayout rel) (conj ex_wf_cdoc ex_wf_clayout)). Qed.

(* both files computed: they agree on 1 0, 5 0, 6 0 (and on every identifier but the container's 4 0) *)
Example ex_compression_computed :
  load_bytes false (render_classic (ex_oobjs ++ compressed [ex_ostm]) ex_clayout) =
  Loaded [((1, 0)%N, VObj (OName (B "Catalog"))); ((5, 0)%N, VObj (OInt 11)); ((6, 0)%N, VObj (OInt 33))] (1, 0)%N.
Proof. vm_compute. reflexivity. Qed.
