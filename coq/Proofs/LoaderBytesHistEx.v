(* Proofs/LoaderBytesHistEx.v — C04b: the hypotheses of the end-to-end theorem for incremental updates are
   satisfiable: a base revision (three objects) and an update that redefines one object, adds one and frees one. *)
From PV Require Import Model.Obj Model.XrefTab Model.Loader Model.LoaderBytes Spec.Spelling Spec.XrefEnc Spec.RenderClassic Spec.RenderHistory.
From PV Require Import Proofs.XrefBase Proofs.ObjStream Proofs.ObjSpell Proofs.ObjC02
     Proofs.LoaderBytesBase Proofs.LoaderBytesObj Proofs.LoaderBytesSect Proofs.LoaderBytesMain Proofs.LoaderBytesEx
     Proofs.LoaderBytesRev Proofs.LoaderBytesHist.
From Coq Require Import Lia.
Close Scope N_scope.

Definition xsp : bytes := [32%N].
Definition xnl : bytes := [10%N].
(* `n g obj value LF endobj LF` with [nw] digits for the number *)
Definition xlo (nw : nat) (spv : bytes) : lobj := mk_lobj nw 1 xsp xsp xsp spv xnl [] [] [] xnl.

Definition xr0 : revision := mk_rev [((1, 0)%N, OName (B "Catalog")); ((2, 0)%N, OInt 5); ((4, 0)%N, OBool true)] [0%N] (1, 0)%N.
Definition xr1 : revision := mk_rev [((2, 0)%N, OInt 7); ((3, 0)%N, OStr (B "abc"))] [4%N] (1, 0)%N.
Definition ex_hist : history := [xr0; xr1].

Definition xrl0_with (tsp : bytes) : rlayout :=
  mk_rlayout [xlo 1 (B "/Catalog"); xlo 1 (B "5"); xlo 1 (B "true")] [] xnl
    [mk_tsub [] 0 1 1 xnl [mk_tent 0 65535 false [32; 10]%N; mk_tent 0 0 true [32; 10]%N; mk_tent 0 0 true [32; 10]%N];
     mk_tsub [] 4 1 1 xnl [mk_tent 0 0 true [32; 10]%N]]
    xnl tsp (xnl ++ B "startxref" ++ xnl ++ B "70" ++ xnl ++ B "%%EOF" ++ xnl).
Definition xrl0 : rlayout := xrl0_with (B "<</Root 1 0 R>>").
Definition xrl1 : rlayout :=
  mk_rlayout [xlo 2 (B "7"); xlo 1 (B "(abc)")] [] xnl
    [mk_tsub [] 2 1 1 xnl [mk_tent 0 0 true [32; 10]%N; mk_tent 0 0 true [32; 10]%N; mk_tent 0 1 false [32; 10]%N]]
    xnl (B "<</Root 1 0 R/Prev 70>>") xnl.
Definition ex_hlayout : hlayout := mk_hlayout [] (B "1.4" ++ xnl) [xrl0; xrl1] xnl 3 xnl xnl.

Example ex_hist_bytes :
  render_history_classic ex_hist ex_hlayout =
  B "%PDF-1.4" ++ xnl ++ B "1 0 obj /Catalog" ++ xnl ++ B "endobj" ++ xnl ++ B "2 0 obj 5" ++ xnl ++ B "endobj" ++ xnl ++
  B "4 0 obj true" ++ xnl ++ B "endobj" ++ xnl ++
  B "xref" ++ xnl ++ B "0 3" ++ xnl ++ B "0000000000 65535 f " ++ xnl ++ B "0000000009 00000 n " ++ xnl ++ B "0000000033 00000 n " ++ xnl ++
  B "4 1" ++ xnl ++ B "0000000050 00000 n " ++ xnl ++
  B "trailer" ++ xnl ++ B "<</Root 1 0 R>>" ++ xnl ++ B "startxref" ++ xnl ++ B "70" ++ xnl ++ B "%%EOF" ++ xnl ++
  B "02 0 obj 7" ++ xnl ++ B "endobj" ++ xnl ++ B "3 0 obj (abc)" ++ xnl ++ B "endobj" ++ xnl ++
  B "xref" ++ xnl ++ B "2 3" ++ xnl ++ B "0000000206 00000 n " ++ xnl ++ B "0000000224 00000 n " ++ xnl ++ B "0000000000 00001 f " ++ xnl ++
  B "trailer" ++ xnl ++ B "<</Root 1 0 R/Prev 70>>" ++ xnl ++ B "startxref" ++ xnl ++ B "245" ++ xnl ++ B "%%EOF" ++ xnl.
Proof. vm_compute. reflexivity. Qed.

(* ---------- spellings ---------- *)
Lemma xsp_digit d : (48 <= d <= 57)%N -> spells' 50 (OInt (Z.of_N d - 48)) [d].
Proof.
  intros Hd. apply sp_number.
  replace (OInt (Z.of_N d - 48)) with (OInt (signed false (dec_val [d]))) by (cbn; f_equal; lia).
  apply (sp_int false [] [d]); [constructor|discriminate| |].
  - repeat constructor. unfold digitb. apply Proofs.XrefTab.digit_in_set. unfold is_digit. apply andb_true_iff. split; apply N.leb_le; lia.
  - unfold in_i64, signed, dec_val, i64_maxZ. cbn. lia.
Qed.

Lemma xsp_true : spells' 50 (OBool true) (B "true").
Proof. apply (sp_true _ 49). Qed.

Lemma xsp_abc : spells' 50 (OStr (B "abc")) (B "(abc)").
Proof. apply (sp_lit _ 49 (B "abc")). reflexivity. Qed.

Lemma xsp_trailer1 : spells' 51 (ODict [(B "Prev", OInt 70); (B "Root", ORef 1 0)]) (B "<</Root 1 0 R/Prev 70>>").
Proof.
  apply (sp_dict _ 50 [(B "Root", ORef 1 0); (B "Prev", OInt 70)] (B "/Root 1 0 R/Prev 70")); [|reflexivity].
  apply (entries_cons _ 50 [] (B "Root") (B "Root") (B " ") (ORef 1 0) (B "1 0 R") [(B "Prev", OInt 70)] (B "/Prev 70")).
  - constructor.
  - apply ex_name_raw. repeat constructor; discriminate.
  - repeat constructor.
  - discriminate.
  - apply (sp_ref _ 49 1 0 (B "1") (B " ") (B "0") (B " ")); [exact ex_nat1|repeat constructor|discriminate|exact ex_nat0|repeat constructor|discriminate].
  - apply (entries_cons _ 50 [] (B "Prev") (B "Prev") (B " ") (OInt 70) (B "70") [] []).
    + constructor.
    + apply ex_name_raw. repeat constructor; discriminate.
    + repeat constructor.
    + discriminate.
    + apply sp_number. apply (sp_int false [] (B "70")); [constructor|discriminate|repeat constructor|vm_compute; split; discriminate].
    + repeat constructor.
    + intros outer. split; [reflexivity|]. apply int_follow_ws_stop. split; [reflexivity|discriminate].
  - intros outer. reflexivity.
Qed.

(* ---------- the layouts are legal ---------- *)
Lemma xlo_wf n g v nw spv :
  1 <= nw -> (n < 10 ^ N.of_nat nw)%N -> (n < i64_lim)%N -> (g < 10)%N ->
  spells' 50 v spv -> (Z.of_nat (len spv) < 2147483000)%Z -> (forall d p, v <> OStream d p) ->
  wf_obj ((n, g), v) (xlo nw spv).
Proof.
  intros H1 H2 H3 H4 Sp Sz Ns. unfold wf_obj, wf_obj_k, xlo. cbn [fst snd lo_nw lo_gw lo_w1 lo_w2 lo_w3 lo_w4 lo_sp].
  repeat split; try assumption; try lia; try discriminate; try ex_ws.
  - cbn. lia.
  - destruct v; try (split; [exact Sp|left; discriminate]). exfalso. eapply Ns. reflexivity.
Qed.

Ltac x_obj := apply xlo_wf; [lia|vm_compute; reflexivity|vm_compute; reflexivity|vm_compute; reflexivity| |vm_compute; reflexivity|intros; discriminate].

Lemma x_went i g u t : (i < 1000)%N -> (g <= 65535)%N -> In t xref_eols -> wf_ent (mk_tent i g u t).
Proof. intros Hi Hg Ht. unfold wf_ent. cbn. split; [lia|]. split; [unfold xref_gen_max; lia|exact Ht]. Qed.

Ltac x_sect :=
  unfold wf_sect, wf_subs, wf_sub, all_in; cbn -[wf_ent];
  repeat split; try discriminate; try lia; try (repeat constructor; fail); auto;
  repeat apply Forall_cons; try apply Forall_nil; apply x_went; try lia; cbn; tauto.

Lemma xwf0_gen prev tsp : wf_trailer_p (1, 0)%N prev xnl tsp -> wf_rev 9 prev xr0 (xrl0_with tsp).
Proof.
  intros Wt. constructor.
  - reflexivity.
  - cbn [r_objs xr0 rl_objs xrl0 combine]. repeat apply Forall_cons; [| | |apply Forall_nil]; cbn [fst snd].
    + x_obj. exact ex_sp_catalog.
    + x_obj. exact (xsp_digit 53 ltac:(lia)).
    + x_obj. exact xsp_true.
  - cbn [xrl0_with rl_xpre rl_xeol rl_table]. x_sect.
  - vm_compute. reflexivity.
  - vm_compute. repeat constructor; cbn; intuition discriminate.
  - intros e Hin U. vm_compute in Hin. repeat (destruct Hin as [<-|Hin]); try destruct Hin; vm_compute in U; try discriminate; cbn; tauto.
  - intros id Hin. cbn in Hin. destruct Hin as [<-|[<-|[<-|[]]]].
    + exists (mk_xent 1 0 (XrefTab.XInUse 0)). split; [vm_compute; tauto|]. split; reflexivity.
    + exists (mk_xent 2 0 (XrefTab.XInUse 0)). split; [vm_compute; tauto|]. split; reflexivity.
    + exists (mk_xent 4 0 (XrefTab.XInUse 0)). split; [vm_compute; tauto|]. split; reflexivity.
  - intros e Hin U. vm_compute in Hin. repeat (destruct Hin as [<-|Hin]); try destruct Hin; vm_compute in U; try discriminate; cbn; tauto.
  - intros n Hn. cbn in Hn. destruct Hn as [<-|[]]. exists (mk_xent 0 65535 (XrefTab.XFree 0)). split; [vm_compute; tauto|]. split; reflexivity.
  - exact Wt.
Qed.

Lemma xwf0 : wf_rev 9 None xr0 xrl0.
Proof.
  apply xwf0_gen. split; [repeat constructor|]. split; [vm_compute; reflexivity|].
  exists [(B "Root", ORef 1 0)]. split; [exact ex_sp_trailer|]. repeat split; reflexivity.
Qed.

Lemma xwf1 : wf_rev 206 (Some 70%N) xr1 xrl1.
Proof.
  constructor.
  - reflexivity.
  - cbn [r_objs xr1 rl_objs xrl1 combine]. repeat apply Forall_cons; [| |apply Forall_nil]; cbn [fst snd].
    + x_obj. exact (xsp_digit 55 ltac:(lia)).
    + x_obj. exact xsp_abc.
  - cbn [xrl1 rl_xpre rl_xeol rl_table]. x_sect.
  - vm_compute. reflexivity.
  - vm_compute. repeat constructor; cbn; intuition discriminate.
  - intros e Hin U. vm_compute in Hin. repeat (destruct Hin as [<-|Hin]); try destruct Hin; vm_compute in U; try discriminate; cbn; tauto.
  - intros id Hin. cbn in Hin. destruct Hin as [<-|[<-|[]]].
    + exists (mk_xent 2 0 (XrefTab.XInUse 0)). split; [vm_compute; tauto|]. split; reflexivity.
    + exists (mk_xent 3 0 (XrefTab.XInUse 0)). split; [vm_compute; tauto|]. split; reflexivity.
  - intros e Hin U. vm_compute in Hin. repeat (destruct Hin as [<-|Hin]); try destruct Hin; vm_compute in U; try discriminate; cbn; tauto.
  - intros n Hn. cbn in Hn. destruct Hn as [<-|[]]. exists (mk_xent 4 1 (XrefTab.XFree 0)). split; [vm_compute; tauto|]. split; reflexivity.
  - split; [repeat constructor|]. split; [vm_compute; reflexivity|].
    exists [(B "Prev", OInt 70); (B "Root", ORef 1 0)]. split; [exact xsp_trailer1|]. repeat split; reflexivity.
Qed.

Lemma ex_wf_history : wf_history ex_hist.
Proof.
  split; [discriminate|]. repeat constructor; cbn; intuition discriminate.
Qed.

Lemma ex_wf_layouts : wf_layouts ex_hist ex_hlayout.
Proof.
  constructor.
  - vm_compute. reflexivity.
  - reflexivity.
  - replace (place (len (hhead ex_hlayout)) None ex_hist (hl_revs ex_hlayout)) with [(9, None, xr0, xrl0); (206, Some 70%N, xr1, xrl1)]
      by (vm_compute; reflexivity).
    apply Forall_cons; [exact xwf0|apply Forall_cons; [exact xwf1|apply Forall_nil]].
  - split; [repeat constructor|discriminate].
  - split; [cbn; lia|]. split; vm_compute; reflexivity.
  - repeat constructor.
  - repeat constructor; discriminate.
Qed.

(* what the theorem says about this history: 2 0 redefined, 3 0 added, 4 0 freed (entry of generation 1), 1 0 kept *)
Example ex_hist_loaded :
  exists c, load_bytes false (render_history_classic ex_hist ex_hlayout) = Loaded c (1, 0)%N /\
            ctx_get c (1, 0)%N = Some (VObj (OName (B "Catalog"))) /\ ctx_get c (2, 0)%N = Some (VObj (OInt 7)) /\
            ctx_get c (3, 0)%N = Some (VObj (OStr (B "abc"))) /\ ctx_get c (4, 0)%N = None /\ ctx_get c (4, 1)%N = None.
Proof.
  destruct (load_bytes_history_classic false ex_hist ex_hlayout ex_wf_history ex_wf_layouts) as (c & L & K).
  exists c. split; [exact L|]. rewrite !K. repeat split.
Qed.

(* a base revision whose trailer says /Prev 70 — the offset of its own table: rejected *)
Definition ex_cycle_layout : hlayout := mk_hlayout [] (B "1.4" ++ xnl) [xrl0_with (B "<</Root 1 0 R/Prev 70>>")] xnl 2 xnl xnl.

Lemma ex_cycle_wf : wf_layouts_p (Some 70%N) [xr0] ex_cycle_layout.
Proof.
  constructor.
  - vm_compute. reflexivity.
  - reflexivity.
  - replace (place (len (hhead ex_cycle_layout)) (Some 70%N) [xr0] (hl_revs ex_cycle_layout))
      with [(9, Some 70%N, xr0, xrl0_with (B "<</Root 1 0 R/Prev 70>>"))] by (vm_compute; reflexivity).
    apply Forall_cons; [|apply Forall_nil]. apply xwf0_gen.
    split; [repeat constructor|]. split; [vm_compute; reflexivity|].
    exists [(B "Prev", OInt 70); (B "Root", ORef 1 0)]. split; [exact xsp_trailer1|]. repeat split; reflexivity.
  - split; [repeat constructor|discriminate].
  - split; [cbn; lia|]. split; vm_compute; reflexivity.
  - repeat constructor.
  - repeat constructor; discriminate.
Qed.

Example ex_cycle_rejected : load_bytes false (render_history_classic [xr0] ex_cycle_layout) = Rejected.
Proof.
  apply (load_bytes_prev_dangling false [xr0] ex_cycle_layout (Some 70%N)) with (t := 70%N).
  - split; [discriminate|]. repeat constructor; cbn; intuition discriminate.
  - exact ex_cycle_wf.
  - reflexivity.
  - left. vm_compute. tauto.
Qed.

(* ---------- the update theorem is not vacuous: the base revision alone (another file, its own layout) and
   the base revision followed by the update ---------- *)
Definition ex_base_layout : hlayout := mk_hlayout [] (B "1.4" ++ xnl) [xrl0] xnl 2 xnl xnl.

Lemma ex_base_wf_history : wf_history [xr0].
Proof. split; [discriminate|]. repeat constructor; cbn; intuition discriminate. Qed.

Lemma ex_base_wf : wf_layouts [xr0] ex_base_layout.
Proof.
  constructor.
  - vm_compute. reflexivity.
  - reflexivity.
  - replace (place (len (hhead ex_base_layout)) None [xr0] (hl_revs ex_base_layout)) with [(9, @None N, xr0, xrl0)] by (vm_compute; reflexivity).
    apply Forall_cons; [exact xwf0|apply Forall_nil].
  - split; [repeat constructor|discriminate].
  - split; [cbn; lia|]. split; vm_compute; reflexivity.
  - repeat constructor.
  - repeat constructor; discriminate.
Qed.

Example ex_update_related :
  exists c c',
    load_bytes false (render_history_classic [xr0] ex_base_layout) = Loaded c' (1, 0)%N /\
    load_bytes false (render_history_classic ([xr0] ++ [xr1]) ex_hlayout) = Loaded c (1, 0)%N /\
    ctx_get c' (2, 0)%N = Some (VObj (OInt 5)) /\ ctx_get c (2, 0)%N = Some (VObj (OInt 7)) /\
    ctx_get c' (4, 0)%N = Some (VObj (OBool true)) /\ ctx_get c (4, 0)%N = None /\
    ctx_get c (1, 0)%N = ctx_get c' (1, 0)%N /\ ctx_get c' (3, 0)%N = None /\ ctx_get c (3, 0)%N = Some (VObj (OStr (B "abc"))).
Proof.
  destruct (load_bytes_update_classic false [xr0] xr1 ex_hlayout ex_base_layout ex_base_wf_history ex_base_wf ex_wf_history ex_wf_layouts)
    as (c & c' & L' & L & K).
  destruct (load_bytes_history_classic false [xr0] ex_base_layout ex_base_wf_history ex_base_wf) as (c2 & L2 & K2).
  rewrite L' in L2. injection L2 as <-.
  exists c, c'. split; [exact L'|]. split; [exact L|].
  rewrite !K, !K2. repeat split.
Qed.
