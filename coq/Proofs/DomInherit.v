(* Proofs/DomInherit.v — C11_inherit and C11_contents_order.  Invariant: every queued entry carries the
   resources of the nearest declaration on a path from the root to it; every recorded page has the fonts of
   the nearest declaration on such a path (its own first) and its contents in document order. *)
From PV Require Import Model.Dom Spec.DomSpec Proofs.DomFollow Proofs.DomInv Proofs.DomOnce.

(* ---------- contents ---------- *)
Lemma page_content_obj_ok o s : page_content_obj o = OSome s -> o = s /\ is_stream s.
Proof. destruct o; try discriminate. cbn. intros H; inversion H; subst. split; [reflexivity | eexists; eexists; reflexivity]. Qed.

Lemma to_page_content_ok c x s : to_page_content c x = OSome s -> resolves c x s /\ is_stream s.
Proof.
  unfold to_page_content. destruct x;
    try (intros H; apply page_content_obj_ok in H as [E S]; subst; split; [apply res_here; intros; discriminate | exact S]).
  destruct (follow c (ORef num gen)) eqn:F; try discriminate.
  intros H. apply page_content_obj_ok in H as [E S]. subst. split; [apply follow_sound; exact F | exact S].
Qed.

Lemma contents_loop_ok c : forall a v0 l,
  contents_loop c a v0 = OSome l ->
  exists l', l = v0 ++ l' /\ Forall2 (fun x s => resolves c x s /\ is_stream s) a l'.
Proof.
  induction a as [|x a IH]; intros v0 l; cbn [contents_loop].
  - intros H; inversion H; subst. exists []. rewrite app_nil_r. split; [reflexivity | constructor].
  - destruct (to_page_content c x) as [s| |] eqn:E; try discriminate.
    intros H. apply IH in H as (l' & El & F). apply to_page_content_ok in E.
    exists (s :: l'). split; [rewrite El, <- app_assoc; reflexivity | constructor; auto].
Qed.

Lemma page_contents_obj_ok c o l :
  page_contents_obj c o = OSome l ->
  (is_stream o /\ l = [o]) \/
  (exists a, o = OArr a /\ Forall2 (fun x s => resolves c x s /\ is_stream s) a l).
Proof.
  destruct o; try discriminate; cbn [page_contents_obj].
  - intros H. apply contents_loop_ok in H as (l' & El & F). cbn in El. subst. right. eauto.
  - intros H; inversion H; subst. left. split; [eexists; eexists; reflexivity | reflexivity].
Qed.

Lemma to_page_contents_ok c v l : to_page_contents c v = OSome l -> contents_in_order c v l.
Proof.
  unfold to_page_contents.
  assert (G : forall o, resolves c v o -> page_contents_obj c o = OSome l -> contents_in_order c v l).
  { intros o R H. apply page_contents_obj_ok in H as [[S E]|(a & E & F)]; subst.
    - apply cont_stream; auto.
    - eapply cont_array; eauto. }
  destruct v; try (apply G; apply res_here; intros; discriminate).
  destruct (follow c (ORef num gen)) eqn:F; try discriminate.
  apply G. apply follow_sound. exact F.
Qed.

(* ---------- entries added to the queue ---------- *)
Lemma add_kids_nodes c r : forall ids q e,
  In e (q_nodes (add_kids c r ids q)) ->
  In e (q_nodes q) \/ exists id o, e = (id, r, o) /\ In id ids /\ lookup c id = Some o.
Proof.
  induction ids as [|id ids IH]; intros q e H; [left; exact H|].
  change (add_kids c r (id :: ids) q) with (add_kids c r ids (add_kid c r q id)) in H.
  apply IH in H as [H|(id' & o & E & Hin & L)].
  - unfold add_kid in H. destruct (lookup c id) as [o|] eqn:L; [|left; exact H].
    unfold cq_add in H. destruct (oid_mem id (q_examined q)); [left; exact H|].
    cbn [q_nodes] in H. apply in_app_iff in H as [H|[H|[]]]; [left; exact H|].
    right. exists id, o. split; [symmetry; exact H | split; [left; reflexivity | exact L]].
  - right. exists id', o. split; [exact E | split; [right; exact Hin | exact L]].
Qed.

Section Inherit.
  Variable c : octx.
  Variable root : obj.

  (* r is what the nearest declaration on the list of objects l converts to *)
  Definition scope_ok (l : list obj) (r : option resources) : Prop :=
    exists x, nearest_resources c l x /\
      match x with
      | None => r = None
      | Some rd => exists F, to_resources c rd = DOk F /\ r = Some F
      end.
  Definition page_fonts (l : list obj) (fonts : resources) : Prop :=
    exists x, nearest_resources c l x /\
      match x with
      | None => fonts = []
      | Some rd => to_resources c rd = DOk fonts
      end.

  Definition page_inv (q : cq) (pg : pages) : Prop :=
    (forall id r o, In (id, r, o) (q_nodes q) ->
       lookup c id = Some o /\ exists p, path_to c root p id /\ scope_ok p r) /\
    (forall id par fonts cs, In (id, PLeaf par fonts cs) pg ->
       exists o p, lookup c id = Some o /\ path_to c root p id /\ page_fonts (o :: p) fonts /\
                   exists d v, o = ODict d /\ dict_get d (B "Contents") = Some v /\ contents_in_order c v cs).

  (* the scope below a node whose node_resources is res *)
  Lemma scope_below d r res p :
    node_resources c d r = DOk res -> scope_ok p r -> scope_ok (ODict d :: p) res.
  Proof.
    intros NR (x & Nx & Hx). apply node_resources_ok in NR as [(rd & F & D & T & E)|[ND E]]; subst.
    - exists (Some rd). split; [apply near_here; exact D | eauto].
    - exists x. split; [apply near_up; auto | exact Hx].
  Qed.

  Lemma page_step_node id r d rest ex n q' pg :
    page_inv (mkq ((id, r, ODict d) :: rest) ex) pg ->
    get_name d (B "Type") = Some (B "Pages") ->
    to_page_tree_node c (mkq rest ex) r (ODict d) = DOk (n, q') ->
    page_inv q' (pages_insert id n pg).
  Proof.
    intros [HQ HP] T TN.
    apply to_page_tree_node_ok in TN as (d0 & parent & res & count & v & a & E & NR & K & R & Hq & Hn).
    inversion E; subst d0. subst q' n.
    destruct (HQ id r (ODict d)) as [Lid (p & Pp & Sp)]; [left; reflexivity|].
    split.
    - intros id' r' o' H. apply add_kids_nodes in H as [H|(k & ok & Ek & Hin & Lk)].
      + apply HQ. right. exact H.
      + inversion Ek; subst. split; [exact Lk|].
        exists (ODict d :: p). split.
        * eapply path_step; [exact Pp | exact Lid | | ].
          -- exists d. split; [reflexivity | apply get_name_dget in T; exact T].
          -- eapply kid_of_listed; eauto. split; [exact Hin|]. unfold defined. unfold lookup in Lk. congruence.
        * eapply scope_below; eauto.
    - intros id' par fonts cs H. apply pages_insert_in in H as [H|H]; [inversion H|]. eapply HP; eauto.
  Qed.

  Lemma page_step_page id r d rest ex pk pg :
    page_inv (mkq ((id, r, ODict d) :: rest) ex) pg ->
    get_name d (B "Type") = Some (B "Page") ->
    to_page c r (ODict d) = DOk pk ->
    page_inv (mkq rest ex) (pages_insert id pk pg).
  Proof.
    intros [HQ HP] T TP.
    apply to_page_ok in TP as (d0 & parent & res & v & cs & E & NR & K & TC & Hp).
    inversion E; subst d0. subst pk.
    destruct (HQ id r (ODict d)) as [Lid (p & Pp & Sp)]; [left; reflexivity|].
    split.
    - intros id' r' o' H. apply HQ. right. exact H.
    - intros id' par fonts cs' H. apply pages_insert_in in H as [H|H]; [|eapply HP; eauto].
      inversion H; subst. exists (ODict d), p. split; [exact Lid|]. split; [exact Pp|]. split.
      + destruct (scope_below _ _ _ _ NR Sp) as (x & Nx & Hx). exists x. split; [exact Nx|].
        destruct x as [rd|]; [destruct Hx as (F & TF & EF); subst; exact TF | subst; reflexivity].
      + exists d, v. split; [reflexivity|]. split; [exact K | apply to_page_contents_ok; exact TC].
  Qed.

  Lemma page_init res count kids q :
    to_root_page_tree_node c cq_new root = DOk (res, count, kids, q) -> page_inv q [].
  Proof.
    intros TR. apply to_root_ok in TR as (d & v & a & E & NR & K & R & Hq & Hk). subst.
    split; [|intros id par fonts cs []].
    intros id r o H. apply add_kids_nodes in H as [[]|(k & ok & Ek & Hin & Lk)].
    inversion Ek; subst. split; [exact Lk|].
    exists [ODict d]. split.
    - apply path_root. eapply kid_of_listed; eauto. split; [exact Hin|]. unfold defined. unfold lookup in Lk. congruence.
    - eapply scope_below; [exact NR|]. exists None. split; [constructor | reflexivity].
  Qed.
End Inherit.

Theorem to_page_dom_pages n c cat res pg :
  to_page_dom n c cat = DOk (res, pg) ->
  forall root, root_node c cat root ->
  forall id par fonts cs, In (id, PLeaf par fonts cs) pg ->
    exists o p, octx_get c id = Some o /\ path_to c root p id /\ page_fonts c (o :: p) fonts /\
                exists d v, o = ODict d /\ dict_get d (B "Contents") = Some v /\ contents_in_order c v cs.
Proof.
  unfold to_page_dom. intros H root RN.
  destruct (to_catalog c cq_new cat) as [[[[res0 count] kids] q]| |] eqn:TC; try discriminate.
  destruct (dom_loop n c q []) as [pg0| |] eqn:DL; try discriminate. inversion H; subst.
  eapply to_catalog_root in TC; [|exact RN]. apply page_init in TC.
  destruct (dom_loop_rule c (page_inv c root) (page_step_node c root) (page_step_page c root) _ _ _ _ TC DL)
    as [ex [_ F]].
  exact F.
Qed.
