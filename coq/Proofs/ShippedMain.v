(* Proofs/ShippedMain.v — the declarative theorems transported to the DUMPED specification, the
   example document showing the hypotheses are satisfiable, and the refutation witnesses. *)
From PV Require Import Spec.PageTreeSpec gen.Shipped Model.ShippedEntry
  Proofs.ShippedFacts Proofs.ShippedApprox Proofs.ShippedKinds Proofs.ShippedAccept Proofs.ShippedReject.

Theorem shipped_accepts d :
  wf_doc d -> conforms shipped_opq (emit_ctx d) shipped_tctx (emit_root d) shipped_root.
Proof.
  intros Hwf. rewrite shipped_root_is_spec, shipped_tctx_is_spec. unfold shipped_opq.
  apply spec_accepts. exact Hwf.
Qed.

Theorem shipped_rejects d m :
  wf_doc d -> mutation d m -> ~ conforms shipped_opq (fst m) shipped_tctx (snd m) shipped_root.
Proof.
  intros Hwf Hm. rewrite shipped_root_is_spec, shipped_tctx_is_spec. unfold shipped_opq.
  apply (spec_rejects shipped_nd d m); assumption.
Qed.

(* ---------- an example: a catalog with a two-level page tree ---------- *)
Definition ex_page : kid :=
  KPage (2, 0)%N {| a_opts := [(B "MediaBox", VRect, Direct (OArr [OInt 0; OInt 0; OInt 612; OReal 7920 10]));
                              (B "LastModified", VDate, Direct (OStr (B "D:19921223195200-08'00'")));
                              (B "Contents", VContents, Indirect (6, 0)%N (OStream [] []))];
                   a_extra := [(B "XUnlisted", OInt 1)] |}.
Definition ex_template : kid := KTemplate (4, 0)%N {| a_opts := [(B "Tabs", VNameIn iso_tabs, Direct (OName (B "S")))]; a_extra := [] |}.
Definition ex_node : kid := KNode (3, 0)%N 1 [ex_template] [(B "MediaBox", OArr [])].
Definition ex_doc : doc :=
  {| d_root := (1, 0)%N; d_count := 2; d_kids := [ex_page; ex_node]; d_root_extra := [];
     d_pages_direct := false;
     d_cat := {| a_opts := [(B "PageMode", VNameIn iso_pagemode, Direct (OName (B "UseOutlines")));
                            (B "Outlines", VIDict, Indirect (5, 0)%N (ODict []));
                            (B "PageLabels", VNumTree, Direct (ODict [(B "Nums", OArr [OInt 0; ORef 7 0])]))];
                 a_extra := [] |} |}.

Ltac nodup := repeat (constructor; [simpl; intuition discriminate|]); constructor.
Ltac in_cases H := simpl in H; repeat (destruct H as [H|H]; [try (inversion H; subst; clear H)|]); try contradiction.

Lemma ex_wf : wf_doc ex_doc.
Proof.
  split; [|split; [|split]].
  - vm_compute. nodup.
  - split; [constructor|]. intros k [].
  - repeat constructor.
    + (* the page *)
      nodup.
    + intros k Hk. in_cases Hk; simpl; intuition discriminate.
    + intros k v Hk. in_cases Hk. vm_compute. intuition discriminate.
    + intros k kd x Hx. in_cases Hx; (split; [vm_compute; tauto|split; [reflexivity|split; [vm_compute; reflexivity|]]]);
        try discriminate.
    + (* the inner node *)
      nodup.
    + intros k Hk. in_cases Hk. simpl. intuition discriminate.
    + nodup.
    + intros k Hk. in_cases Hk; simpl; intuition discriminate.
    + intros k v [].
    + intros k kd x Hx. in_cases Hx. split; [vm_compute; tauto|split; [reflexivity|split; [vm_compute; reflexivity|]]].
      discriminate.
  - split; [|split; [|split]].
    + nodup.
    + intros k Hk. in_cases Hk; simpl; intuition discriminate.
    + intros k v [].
    + intros k kd x Hx. in_cases Hx; (split; [vm_compute; tauto|split; [reflexivity|split; [vm_compute; reflexivity|]]]);
        try discriminate.
      intros _. eexists. eexists. reflexivity.
Qed.

(* the page with a three-number /MediaBox: a mutation in the sense of the Spec *)
Definition ex_edit : edit := ESet (B "MediaBox") (OArr [OInt 0; OInt 0; OInt 612]).
Lemma ex_mutation : mutation ex_doc (ctx_edit (2, 0)%N ex_edit (emit_ctx ex_doc), emit_root ex_doc).
Proof.
  apply (M_page ex_doc (1, 0)%N (2, 0)%N _ ex_edit).
  - left. reflexivity.
  - apply (LV_value _ true (B "MediaBox") VRect); [vm_compute; tauto|reflexivity|vm_compute; reflexivity].
Qed.

(* the checker model on the example, by computation: accepted; the mutated one, an embedded kid and a
   page with /Type /Catalog rejected *)
Definition ex_direct_kid : edit :=
  ESet k_Kids (OArr [kid_obj (1, 0)%N ex_page; oref (3, 0)%N]).
Lemma ex_checked :
  shipped_check (emit_ctx ex_doc) (emit_root ex_doc) = Accept
  /\ shipped_check (ctx_edit (2, 0)%N ex_edit (emit_ctx ex_doc)) (emit_root ex_doc) = Reject ESize
  /\ (exists e, shipped_check (ctx_edit (1, 0)%N ex_direct_kid (emit_ctx ex_doc)) (emit_root ex_doc) = Reject e)
  /\ (exists e, shipped_check (ctx_edit (2, 0)%N (ESet k_Type (OName (B "Catalog"))) (emit_ctx ex_doc))
                              (emit_root ex_doc) = Reject e).
Proof. vm_compute. repeat split; eexists; reflexivity. Qed.

(* ---------- refutation witnesses ---------- *)
(* (a) still open — DESIGN 7 row 22: a dictionary entry whose check has type Any is skipped by the
   checker, required indirection and predicate included.  /Parent [1 0 R] on the page, and a number
   tree whose key is a string under /PageLabels: both are mutations (violations), the declarative
   semantics rejects them, the checker model accepts them. *)
Definition ex_parent_array : edit := ESet k_Parent (OArr [oref (1, 0)%N]).
Lemma any_typed_entries_unchecked :
  mutation ex_doc (ctx_edit (2, 0)%N ex_parent_array (emit_ctx ex_doc), emit_root ex_doc)
  /\ shipped_check (ctx_edit (2, 0)%N ex_parent_array (emit_ctx ex_doc)) (emit_root ex_doc) = Accept
  /\ shipped_spec (ctx_edit (2, 0)%N ex_parent_array (emit_ctx ex_doc)) (emit_root ex_doc) = false.
Proof.
  split; [|vm_compute; auto].
  apply (M_page ex_doc (1, 0)%N (2, 0)%N _ ex_parent_array).
  - left. reflexivity.
  - apply LV_parent_direct; reflexivity.
Qed.
Definition ex_bad_numtree : edit := ESet (B "PageLabels") (ODict [(B "Nums", OArr [OStr (B "a"); ORef 7 0])]).
Lemma any_typed_predicates_unchecked :
  mutation ex_doc (emit_ctx ex_doc, apply_edit ex_bad_numtree (emit_root ex_doc))
  /\ shipped_check (emit_ctx ex_doc) (apply_edit ex_bad_numtree (emit_root ex_doc)) = Accept
  /\ shipped_spec (emit_ctx ex_doc) (apply_edit ex_bad_numtree (emit_root ex_doc)) = false.
Proof.
  split; [|vm_compute; auto].
  apply M_cat. apply (CV_value _ (B "PageLabels") VNumTree); [vm_compute; tauto|reflexivity|vm_compute; reflexivity].
Qed.

(* (b) repaired in number_tree.rs (f94edb9): the pinned predicate read the pairs from /Names *)
Lemma numtree_pinned_refuted :
  exists o, number_tree_pred_pinned o = true /\ number_tree_pred o = false.
Proof. exists (ODict [(B "Nums", OArr [OStr (B "a"); ORef 7 0])]). vm_compute. auto. Qed.
(* (c) repaired in common_data_structures.rs (b2e4a95): \d{4} matched any Unicode decimal digits; the
   witness is "D:" followed by four Arabic-Indic digits (U+0660..U+0669), in UTF-8 *)
Lemma date_pinned_refuted :
  exists s, date_pred_pinned [(48, 57); (1632, 1641)]%N (OStr s) = true /\ date_pred (OStr s) = false.
Proof. exists ([68; 58; 217; 162; 217; 160; 217; 162; 217; 160]%N). vm_compute. auto. Qed.
