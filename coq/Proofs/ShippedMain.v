(* Proofs/ShippedMain.v — the declarative theorems transported to the DUMPED specification, the
   example document showing the hypotheses are satisfiable, and the refutation witnesses. *)
From PV Require Import Proofs.TypeCheckSound.
From PV Require Import Spec.PageTreeSpec gen.Shipped Model.ShippedEntry
  Proofs.ShippedFacts Proofs.ShippedApprox Proofs.ShippedKinds Proofs.ShippedAccept Proofs.ShippedReject.

Theorem shipped_accepts d :
  wf_doc d -> conforms shipped_opq (emit_ctx d) shipped_tctx (emit_root d) shipped_root.
Proof.
  intros Hwf. rewrite shipped_root_is_spec, shipped_tctx_is_spec. unfold shipped_opq.
  apply spec_accepts. exact Hwf.
Qed.

Theorem shipped_rejects d m :
  wf_doc d -> mutation true d m -> ~ conforms shipped_opq (fst m) shipped_tctx (snd m) shipped_root.
Proof.
  intros Hwf Hm. rewrite shipped_root_is_spec, shipped_tctx_is_spec. unfold shipped_opq.
  apply (spec_rejects shipped_nd d m); assumption.
Qed.

(* the violations the library can see are among all violations *)
Lemma node_violation_weaken oc r ks e : node_violation false oc r ks e -> node_violation true oc r ks e.
Proof.
  intros H. destruct H; try discriminate;
    [apply NV_drop_type|apply NV_drop_count|apply NV_drop_kids|apply NV_type|apply NV_count|apply NV_kids_type
    |apply NV_kid_direct|apply NV_kid_dangling|apply NV_root_parent|apply NV_drop_parent]; assumption.
Qed.
Lemma leaf_violation_weaken oc b e : leaf_violation false oc b e -> leaf_violation true oc b e.
Proof.
  intros H. destruct H; try discriminate;
    [apply LV_drop_type|apply LV_type; assumption|apply LV_drop_parent; assumption|apply LV_template_parent; assumption
    |eapply LV_value; eauto].
Qed.
Lemma cat_violation_weaken oc e : cat_violation false oc e -> cat_violation true oc e.
Proof.
  intros H. destruct H;
    [apply CV_drop_type|apply CV_drop_pages|apply CV_type; assumption|apply CV_pages; assumption
    |eapply CV_value; eauto|eapply CV_indirect; eauto].
Qed.
Lemma mutation_weaken d m : mutation false d m -> mutation true d m.
Proof.
  intros H. destruct H;
    [apply M_cat|apply M_root|eapply M_node|eapply M_page|eapply M_template];
    eauto using node_violation_weaken, leaf_violation_weaken, cat_violation_weaken.
Qed.

(* ---------- transfer to the checker (C08: Proofs/TypeCheckSound.v) ---------- *)
Definition spec_rep : rep := (TDict catalog_ents None, None, IAllowed).
Lemma spec_resolve : resolve spec_tctx spec_catalog = Some spec_rep. Proof. reflexivity. Qed.
Lemma spec_norm : norm_chk (rep_chk spec_rep) = spec_catalog. Proof. vm_compute. reflexivity. Qed.
Lemma spec_wf_univ : wf_univ spec_tctx spec_catalog = true. Proof. vm_compute. reflexivity. Qed.

Theorem shipped_check_accepts d : wf_doc d -> shipped_check (emit_ctx d) (emit_root d) = Accept.
Proof.
  intros Hwf. unfold shipped_check. rewrite shipped_root_is_spec, shipped_tctx_is_spec.
  apply (conforms_check_accept _ _ _ _ _ spec_rep spec_resolve); rewrite spec_norm.
  - exact spec_wf_univ.
  - apply spec_accepts. exact Hwf.
Qed.

Theorem shipped_check_rejects d m :
  wf_doc d -> mutation false d m -> exists e, shipped_check (fst m) (snd m) = Reject e.
Proof.
  intros Hwf Hm. unfold shipped_check. rewrite shipped_root_is_spec, shipped_tctx_is_spec.
  assert (WF : wf_univ spec_tctx (norm_chk (rep_chk spec_rep)) = true) by (rewrite spec_norm; exact spec_wf_univ).
  destruct (check_verdict_wf shipped_opq (fst m) spec_tctx (snd m) spec_catalog spec_rep spec_resolve WF) as [Ha|Hr];
    [|exact Hr].
  exfalso. apply (check_accept_iff_conforms_skip _ _ _ _ _ spec_rep spec_resolve WF) in Ha.
  rewrite spec_norm in Ha. exact (spec_rejects_skip shipped_nd d m Hwf Hm Ha).
Qed.

Corollary shipped_check_not_accepted d m :
  wf_doc d -> mutation false d m -> shipped_check (fst m) (snd m) <> Accept.
Proof. intros Hwf Hm. destruct (shipped_check_rejects d m Hwf Hm) as [e He]. rewrite He. discriminate. Qed.

(* ---------- an example: a catalog with a two-level page tree ---------- *)
Definition ex_page : kid :=
  KPage (2, 0)%N {| a_opts := [(B "MediaBox", VRect, Direct (OArr [OInt 0; OInt 0; OInt 612; OReal 7920 10]));
                              (B "LastModified", VDate, Direct (OStr (B "D:19921223195200-08'00'")));
                              (B "Contents", VContents, Indirect (6, 0)%N (OStream [] []))];
                   a_extra := [(B "XUnlisted", OInt 1)] |}.
Definition ex_template : kid := KTemplate (4, 0)%N {| a_opts := [(B "Tabs", VNameIn iso_tabs, Direct (OName (B "S")))]; a_extra := [] |}.
Definition ex_node : kid := KNode (3, 0)%N 1 [ex_template] [(B "MediaBox", OArr [])].
Definition ex_doc : doc :=
  {| d_root := (1, 0)%N; d_count := 2; d_kids := [ex_page; ex_node]; d_root_extra := [];
     d_pages_direct := false;
     d_cat := {| a_opts := [(B "PageMode", VNameIn iso_pagemode, Direct (OName (B "UseOutlines")));
                            (B "Outlines", VIDict, Indirect (5, 0)%N (ODict []));
                            (B "PageLabels", VNumTree, Direct (ODict [(B "Nums", OArr [OInt 0; ORef 7 0])]))];
                 a_extra := [] |} |}.

Ltac nodup := repeat (constructor; [simpl; intuition discriminate|]); constructor.
Ltac in_cases H := simpl in H; repeat (destruct H as [H|H]; [try subst; try (inversion H; subst; clear H)|]); try contradiction.
Ltac in_tac := vm_compute; repeat (first [left; reflexivity | right]).
Ltac attrs_ok_tac :=
  unfold attrs_ok; split;
  [ apply nodupb_NoDup; vm_compute; reflexivity
  | split;
    [ let k := fresh "k" in let Hk := fresh "Hk" in
      intros k Hk; in_cases Hk; vm_compute; intuition discriminate
    | split;
      [ let k := fresh "k" in let v := fresh "v" in let Hk := fresh "Hk" in
        intros k v Hk; in_cases Hk; vm_compute; intuition discriminate
      | let k := fresh "k" in let kd := fresh "kd" in let x := fresh "x" in let Hx := fresh "Hx" in
        intros k kd x Hx; in_cases Hx;
        (split; [in_tac | split; [reflexivity | split; [vm_compute; reflexivity |
           first [ let H := fresh "H" in intros H; vm_compute in H; discriminate H
                 | intros _; eexists; eexists; reflexivity ]]]]) ]]].

Lemma ex_wf : wf_doc ex_doc.
Proof.
  unfold wf_doc. split; [|split; [|split]].
  - vm_compute. nodup.
  - split; [constructor|]. intros k [].
  - constructor; [|constructor; [|constructor]].
    + change (attrs_ok (emit_ctx ex_doc) page_table [k_Type; k_Parent; k_Count]
                (match ex_page with KPage _ a => a | _ => {| a_opts := []; a_extra := [] |} end)).
      cbn [ex_page]. attrs_ok_tac.
    + apply kid_ok_node. split.
      * split; [apply nodupb_NoDup; vm_compute; reflexivity|].
        intros k Hk. in_cases Hk. vm_compute. intuition discriminate.
      * constructor; [|constructor].
        change (attrs_ok (emit_ctx ex_doc) template_table [k_Type; k_Parent; k_Count]
                  (match ex_template with KTemplate _ a => a | _ => {| a_opts := []; a_extra := [] |} end)).
        cbn [ex_template]. attrs_ok_tac.
  - cbn [d_cat ex_doc]. attrs_ok_tac.
Qed.

(* the page with a three-number /MediaBox: a mutation in the sense of the Spec *)
Definition ex_edit : edit := ESet (B "MediaBox") (OArr [OInt 0; OInt 0; OInt 612]).
Lemma ex_mutation : mutation false ex_doc (ctx_edit (2, 0)%N ex_edit (emit_ctx ex_doc), emit_root ex_doc).
Proof.
  eapply (M_page false ex_doc (1, 0)%N (2, 0)%N).
  - left. reflexivity.
  - apply (LV_value false _ true (B "MediaBox") VRect); [right; reflexivity|in_tac|reflexivity|vm_compute; reflexivity].
Qed.

(* the checker model on the example, by computation: accepted; the mutated one, an embedded kid and a
   page with /Type /Catalog rejected *)
Definition ex_direct_kid : edit :=
  ESet k_Kids (OArr [kid_obj (1, 0)%N ex_page; oref (3, 0)%N]).
Lemma ex_checked :
  shipped_check (emit_ctx ex_doc) (emit_root ex_doc) = Accept
  /\ (exists e, shipped_check (ctx_edit (2, 0)%N ex_edit (emit_ctx ex_doc)) (emit_root ex_doc) = Reject e)
  /\ (exists e, shipped_check (ctx_edit (1, 0)%N ex_direct_kid (emit_ctx ex_doc)) (emit_root ex_doc) = Reject e)
  /\ (exists e, shipped_check (ctx_edit (2, 0)%N (ESet k_Type (OName (B "Catalog"))) (emit_ctx ex_doc))
                              (emit_root ex_doc) = Reject e).
Proof. vm_compute. repeat split; eexists; reflexivity. Qed.

(* ---------- refutation witnesses ---------- *)
(* (a) still open — DESIGN 7 row 22: a dictionary entry whose check has type Any is skipped by the
   checker, required indirection and predicate included.  /Parent [1 0 R] on the page, and a number
   tree whose key is a string under /PageLabels: both are mutations (violations), the declarative
   semantics rejects them, the checker model accepts them. *)
Definition ex_parent_array : edit := ESet k_Parent (OArr [oref (1, 0)%N]).
Lemma any_typed_entries_unchecked :
  mutation true ex_doc (ctx_edit (2, 0)%N ex_parent_array (emit_ctx ex_doc), emit_root ex_doc)
  /\ shipped_check (ctx_edit (2, 0)%N ex_parent_array (emit_ctx ex_doc)) (emit_root ex_doc) = Accept
  /\ shipped_spec (ctx_edit (2, 0)%N ex_parent_array (emit_ctx ex_doc)) (emit_root ex_doc) = false.
Proof.
  split; [|vm_compute; auto].
  eapply (M_page true ex_doc (1, 0)%N (2, 0)%N).
  - left. reflexivity.
  - apply LV_parent_direct; reflexivity.
Qed.
Definition ex_bad_numtree : edit := ESet (B "PageLabels") (ODict [(B "Nums", OArr [OStr (B "a"); ORef 7 0])]).
Lemma any_typed_predicates_unchecked :
  mutation true ex_doc (emit_ctx ex_doc, apply_edit ex_bad_numtree (emit_root ex_doc))
  /\ shipped_check (emit_ctx ex_doc) (apply_edit ex_bad_numtree (emit_root ex_doc)) = Accept
  /\ shipped_spec (emit_ctx ex_doc) (apply_edit ex_bad_numtree (emit_root ex_doc)) = false.
Proof.
  split; [|vm_compute; auto].
  apply M_cat. apply (CV_value true _ (B "PageLabels") VNumTree); [left; reflexivity|in_tac|reflexivity|vm_compute; reflexivity].
Qed.

(* (b) repaired in number_tree.rs (f94edb9): the pinned predicate read the pairs from /Names *)
Lemma numtree_pinned_refuted :
  exists o, number_tree_pred_pinned o = true /\ number_tree_pred o = false.
Proof. exists (ODict [(B "Nums", OArr [OStr (B "a"); ORef 7 0])]). vm_compute. auto. Qed.
(* (c) repaired in common_data_structures.rs (b2e4a95): \d{4} matched any Unicode decimal digits; the
   witness is "D:" followed by four Arabic-Indic digits (U+0660..U+0669), in UTF-8 *)
Lemma date_pinned_refuted :
  exists s, date_pred_pinned [(48, 57); (1632, 1641)]%N (OStr s) = true /\ date_pred (OStr s) = false.
Proof. exists ([68; 58; 217; 162; 217; 160; 217; 162; 217; 160]%N). vm_compute. auto. Qed.
