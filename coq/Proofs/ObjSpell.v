(* Proofs/ObjSpell.v — C02: every spelling parses to exactly the value spelled, by induction on the
   spelling derivation (Spec/Spelling.v), for any text before it and any legal text behind it. *)
From PV Require Import Model.Obj Spec.Spelling Proofs.PrimBase Proofs.PrimTok Proofs.PrimWs Proofs.PrimExtra
     Proofs.ObjDepth Proofs.ObjStream Proofs.ObjTok Proofs.ObjNum Proofs.ObjTok2.
From Coq Require Import Lia.

(* the parser's own reading of "what follows an integer is the rest of a reference", as a property
   of the bytes that follow (whatever precedes them) *)
Definition int_follow_sem (rest : bytes) : Prop :=
  forall s c, c <= len s -> skipn c s = rest -> ~ lookahead_ref s c.

Notation follow' := (follow int_follow_sem).
Notation spells' := (spells int_follow_sem).
Notation items' := (items int_follow_sem).
Notation entries' := (entries int_follow_sem).

Ltac app_norm := repeat first [rewrite <- app_assoc | progress cbn [app]]; reflexivity.

Scheme spells_mind := Minimality for spells Sort Prop
  with items_mind := Minimality for items Sort Prop
  with entries_mind := Minimality for entries Sort Prop.
Combined Scheme spells_items_entries_mind from spells_mind, items_mind, entries_mind.

(* ------------------------------------------------------------------ first bytes *)
Lemma ws_set_values b : memb b ws_eol_set = true -> b = 32%N \/ b = 0%N \/ b = 9%N \/ b = 13%N \/ b = 10%N \/ b = 12%N.
Proof. intros H. apply memb_In in H. vm_compute in H. intuition. Qed.

(* first byte of non-empty whitespace: a whitespace byte or '%' *)
Lemma ws_head w : ws w -> w <> [] -> exists x t, w = x :: t /\ (memb x ws_eol_set = true \/ x = 37%N).
Proof. destruct 1; intros Hn; [contradiction|eauto|eauto]. Qed.

Lemma ws_head_num_stop w rest : ws w -> w <> [] -> num_stop (w ++ rest).
Proof.
  intros Hw Hn. destruct (ws_head w Hw Hn) as (x & t & -> & [Hx| ->]); cbn [app num_stop].
  - apply ws_set_values in Hx. destruct Hx as [->|[->|[->|[->|[->| ->]]]]]; (split; [reflexivity|discriminate]).
  - split; [reflexivity|discriminate].
Qed.

Lemma ws_head_term_stop w rest : ws w -> w <> [] -> term_stop (w ++ rest).
Proof.
  intros Hw Hn. destruct (ws_head w Hw Hn) as (x & t & -> & [Hx| ->]); cbn [app term_stop]; [|reflexivity].
  apply ws_set_values in Hx. destruct Hx as [->|[->|[->|[->|[->| ->]]]]]; reflexivity.
Qed.

(* a byte that can start an object: never whitespace, '%', ']' or '>' *)
Definition starter (x : N) : Prop :=
  memb x ws_eol_set = false /\ x <> 37%N /\ x <> 93%N /\ x <> 62%N.

Lemma digit_starter x : digitb x = true -> starter x.
Proof. intros H. apply digit_range in H. unfold starter. repeat split; try lia. destruct (memb x ws_eol_set) eqn:E; [|reflexivity]. apply ws_set_values in E. lia. Qed.

Lemma sign_digits_first neg sg ds t : sign neg sg -> ds <> [] -> all_digits ds ->
  exists x r, sg ++ ds ++ t = x :: r /\ starter x /\ (is_digit_b x = true \/ x = 45%N \/ x = 43%N).
Proof.
  intros Hs Hn Hd. destruct Hs; cbn [app].
  - destruct ds as [|d ds]; [contradiction|]. inversion Hd; subst. exists d, (ds ++ t). split; [reflexivity|].
    split; [apply digit_starter; assumption|]. left. match goal with H : digitb d = true |- _ => apply digit_range in H end.
    unfold is_digit_b. apply andb_true_iff. split; apply N.leb_le; lia.
  - eexists _, _. split; [reflexivity|]. split; [repeat split; discriminate|]. right. right. reflexivity.
  - eexists _, _. split; [reflexivity|]. split; [repeat split; discriminate|]. right. left. reflexivity.
Qed.

Lemma spells_num_first v sp t : spells_num v sp ->
  exists x r, sp ++ t = x :: r /\ starter x /\ (is_digit_b x = true \/ x = 45%N \/ x = 43%N \/ x = 46%N).
Proof.
  destruct 1 as [neg sg ds Hs Hn Hd _|neg sg ds Hs Hn Hd _ _|neg sg ds fs Hs Hd Hn Hf _ _].
  - rewrite <- app_assoc. destruct (sign_digits_first neg sg ds t Hs Hn Hd) as (x & r & E & S & K). exists x, r. intuition.
  - rewrite <- app_assoc. destruct (sign_digits_first neg sg ds t Hs Hn Hd) as (x & r & E & S & K). exists x, r. intuition.
  - destruct ds as [|d ds].
    + destruct Hs; cbn [app]; eexists _, _; (split; [reflexivity|]); (split; [repeat split; discriminate|]); tauto.
    + rewrite <- !app_assoc.
      destruct (sign_digits_first neg sg (d :: ds) ((46%N :: fs) ++ t) Hs ltac:(discriminate) Hd) as (x & r & E & S & K).
      exists x, r. intuition.
Qed.

Lemma spells_first n v sp : spells' n v sp -> forall t, exists x r, sp ++ t = x :: r /\ starter x.
Proof.
  destruct 1; intros t; try (eexists _, _; split; [reflexivity|repeat split; discriminate]).
  - destruct (spells_num_first _ _ t H) as (x & r & E & S & _). eauto.
  - match goal with H : spells_nat _ sn |- _ => destruct H as [neg sg0 ds Hs Hn Hd _ _] end.
    rewrite <- !app_assoc.
    destruct (sign_digits_first neg sg0 ds (w1 ++ sg ++ w2 ++ [82%N] ++ t) Hs Hn Hd) as (x & r & E & S & _).
    exists x, r. split; assumption.
Qed.

Lemma starter_ws_stop x r : starter x -> ws_stop (x :: r).
Proof. intros (A & B & _). split; assumption. Qed.

(* ------------------------------------------------------------------ references *)
Lemma spells_nat_inv n sn : spells_nat n sn ->
  exists neg sg ds, sn = sg ++ ds /\ sign neg sg /\ ds <> [] /\ all_digits ds /\ (dec_val ds <= i64_max)%Z /\
                    (0 <= signed neg (dec_val ds))%Z /\ n = Z.to_N (signed neg (dec_val ds)).
Proof.
  destruct 1 as [neg sg ds Hs Hn Hd Hm Hz]. exists neg, sg, ds. repeat split; try assumption.
  - pose proof (dec_val_nonneg ds Hd). unfold signed. destruct neg; [rewrite Hz by reflexivity|]; lia.
  - unfold signed. destruct neg; [rewrite Hz by reflexivity; reflexivity|reflexivity].
Qed.

Lemma check_prefix_at tag pre rest : check_prefix tag (pre ++ tag ++ rest) (len pre) = true.
Proof. unfold check_prefix. replace (len pre) with (len pre + 0) by lia. rewrite skipn_app_len. apply prefixb_app_self. Qed.

Theorem reference_spec n g sn w1 sg w2 pre rest :
  spells_nat n sn -> ws w1 -> w1 <> [] -> spells_nat g sg -> ws w2 -> w2 <> [] ->
  let sp := sn ++ w1 ++ sg ++ w2 ++ [82%N] in
  number_or_ref (pre ++ sp ++ rest) (len pre) = POk (ORef n g) (len pre + len sp).
Proof.
  intros Hn Hw1 Hn1 Hg Hw2 Hn2 sp.
  destruct (spells_nat_inv _ _ Hn) as (neg1 & s1 & d1 & -> & Hs1 & Hd1n & Hd1 & Hm1 & Hp1 & ->).
  destruct (spells_nat_inv _ _ Hg) as (neg2 & s2 & d2 & -> & Hs2 & Hd2n & Hd2 & Hm2 & Hp2 & ->).
  set (T := pre ++ sp ++ rest).
  set (R4 := 82%N :: rest). set (R3 := w2 ++ R4). set (R2 := (s2 ++ d2) ++ R3). set (R1 := w1 ++ R2).
  assert (ET : T = pre ++ (s1 ++ d1) ++ R1).
  { unfold T, sp, R1, R2, R3, R4. rewrite <- !app_assoc. reflexivity. }
  set (P1 := pre ++ (s1 ++ d1)). set (P2 := P1 ++ w1). set (P3 := P2 ++ (s2 ++ d2)). set (P4 := P3 ++ w2).
  assert (E1 : T = P1 ++ w1 ++ R2) by (rewrite ET; unfold P1, R1; rewrite <- !app_assoc; reflexivity).
  assert (E2 : T = P2 ++ (s2 ++ d2) ++ R3) by (rewrite E1; unfold P2, R2; rewrite <- !app_assoc; reflexivity).
  assert (E3 : T = P3 ++ w2 ++ R4) by (rewrite E2; unfold P3, R3; rewrite <- !app_assoc; reflexivity).
  assert (E4 : T = P4 ++ kw_R ++ rest) by (rewrite E3; unfold P4, R4; rewrite <- !app_assoc; reflexivity).
  assert (L1 : len P1 = len pre + len (s1 ++ d1)) by (unfold P1; apply len_app).
  assert (L2 : len P2 = len P1 + len w1) by (unfold P2; apply len_app).
  assert (L3 : len P3 = len P2 + len (s2 ++ d2)) by (unfold P3; apply len_app).
  assert (L4 : len P4 = len P3 + len w2) by (unfold P4; apply len_app).
  assert (Lsp : len pre + len sp = S (len P4)).
  { unfold sp. rewrite L4, L3, L2, L1, !len_app. cbn [len length]. unfold len. lia. }
  (* the verdicts of the parts *)
  assert (S2 : ws_stop R2).
  { unfold R2. destruct (sign_digits_first neg2 s2 d2 R3 Hs2 Hd2n Hd2) as (x & r & E & St & _).
    rewrite <- app_assoc, E. apply starter_ws_stop, St. }
  assert (S4 : ws_stop R4) by (split; [reflexivity|discriminate]).
  assert (V1 : forall e, ws_eol e T (len P1) = POk (tt, len P1, len P2) (len P2)).
  { intros e. rewrite E1, L2. apply ws_eol_spec; [assumption|assumption|right; assumption]. }
  assert (V3 : forall e, ws_eol e T (len P3) = POk (tt, len P3, len P4) (len P4)).
  { intros e. rewrite E3, L4. apply ws_eol_spec; [assumption|assumption|right; assumption]. }
  assert (I1 : integer T (len pre) = POk (signed neg1 (dec_val d1), len pre, len P1) (len P1)).
  { rewrite ET, L1. apply integer_spec; try assumption. unfold R1. apply num_stop_digit, ws_head_num_stop; assumption. }
  assert (I2 : integer T (len P2) = POk (signed neg2 (dec_val d2), len P2, len P3) (len P3)).
  { rewrite E2, L3. apply integer_spec; try assumption. unfold R3. apply num_stop_digit, ws_head_num_stop; assumption. }
  assert (Rl : real T (len pre) = POk ((signed neg1 (dec_val d1), 1%Z), len pre, len P1) (len P1)).
  { rewrite ET, L1. apply real_spec_int; try assumption.
    - pose proof i64_i128. lia.
    - unfold R1. apply ws_head_num_stop; assumption. }
  assert (CP : check_prefix kw_R T (len P4) = true) by (rewrite E4; apply check_prefix_at).
  assert (EX : exact kw_R T (len P4) = Some (S (len P4))).
  { rewrite E4, exact_at. f_equal. cbn. lia. }
  assert (I64 : forall neg d, (dec_val d <= i64_max)%Z -> (0 <= signed neg (dec_val d))%Z -> all_digits d ->
                ((- i64_max - 1 <=? signed neg (dec_val d)) && (signed neg (dec_val d) <=? i64_max))%Z = true).
  { intros neg d Hm Hp Hd. pose proof (dec_val_nonneg d Hd). apply andb_true_iff. unfold i64_max in *.
    split; apply Z.leb_le; unfold signed in *; destruct neg; lia. }
  assert (LT : len pre <= len T) by (unfold T; rewrite len_app; lia).
  (* the dispatcher arm *)
  unfold number_or_ref. fold T. rewrite Rl. cbn [bind lv_val fst snd].
  unfold real_is_integer, real_numerator. rewrite (I64 neg1 d1) by assumption. cbn [Z.eqb Pos.eqb negb].
  rewrite V1, I2, V3, CP. rewrite setc_ok by assumption.
  (* ReferenceP *)
  unfold reference. rewrite I1. cbn [bind lv_val fst snd].
  assert (U : forall z, (0 <= z)%Z -> negb ((z =? 0)%Z || int_is_usize z) = false).
  { intros z Hz. unfold int_is_usize. replace (0 <=? z)%Z with true by (symmetry; apply Z.leb_le; assumption).
    rewrite orb_true_r. reflexivity. }
  rewrite (U _ Hp1), V1. cbn [bind]. rewrite I2. cbn [bind lv_val fst snd]. rewrite (U _ Hp2), V3. cbn [bind].
  rewrite EX. unfold usize_N.
  replace (0 <=? signed neg1 (dec_val d1))%Z with true by (symmetry; apply Z.leb_le; assumption).
  replace (0 <=? signed neg2 (dec_val d2))%Z with true by (symmetry; apply Z.leb_le; assumption).
  rewrite Lsp. reflexivity.
Qed.

(* ------------------------------------------------------------------ dictionary bookkeeping *)
Lemma bytes_cmp_eq a : forall b, bytes_cmp a b = Eq -> a = b.
Proof.
  induction a as [|x a IH]; intros [|y b] E; cbn in E; try discriminate; [reflexivity|].
  destruct (N.compare_spec x y); try discriminate. subst. f_equal. apply IH, E.
Qed.

Lemma bytes_cmp_refl a : bytes_cmp a a = Eq.
Proof. induction a; cbn; [reflexivity|]. rewrite N.compare_refl. assumption. Qed.

Lemma bytes_eqb_refl a : bytes_eqb a a = true.
Proof. apply bytes_eqb_eq. reflexivity. Qed.

Lemma bytes_eqb_sym a b : bytes_eqb a b = bytes_eqb b a.
Proof.
  destruct (bytes_eqb a b) eqn:E1, (bytes_eqb b a) eqn:E2; try reflexivity.
  - apply bytes_eqb_eq in E1. subst. rewrite bytes_eqb_refl in E2. discriminate.
  - apply bytes_eqb_eq in E2. subst. rewrite bytes_eqb_refl in E1. discriminate.
Qed.

Definition has_key (k : bytes) (d : list (bytes * obj)) : bool := existsb (fun kv => bytes_eqb k (fst kv)) d.

Lemma has_key_insert k k0 v d : has_key k (fst (dict_insert k0 v d)) = (bytes_eqb k k0 || has_key k d)%bool.
Proof.
  induction d as [|[k1 v1] d IH]; cbn [dict_insert fst has_key existsb].
  - reflexivity.
  - destruct (bytes_cmp k0 k1) eqn:E; cbn [fst has_key existsb].
    + apply bytes_cmp_eq in E. subst k1. destruct (bytes_eqb k k0); reflexivity.
    + reflexivity.
    + destruct (dict_insert k0 v d) as [r' b]. cbn [fst has_key existsb] in *. unfold has_key in IH. rewrite IH.
      destruct (bytes_eqb k k1), (bytes_eqb k k0); reflexivity.
Qed.

Definition names_ok (names : list bytes) (map : list (bytes * obj)) : Prop :=
  forall k, existsb (bytes_eqb k) names = has_key k map.

(* ------------------------------------------------------------------ the induction *)
Section Spelling.
  Variable rel : bool.
  (* literal strings: discharged in Proofs/ObjLit.v *)
  Hypothesis lit_ok : forall body pre rest, balanced body -> (Z.of_nat (len body) < 2147483000)%Z ->
    lit_string rel (pre ++ (40%N :: body ++ [41%N]) ++ rest) (len pre) =
    POk (body, len pre, len pre + len body + 2) (len pre + len body + 2).

  (* all literal strings inside a spelling are shorter than 2^31 (the i32 depth counter of RawLiteralString) *)
  Definition P_obj (n : nat) (v : obj) (sp : bytes) : Prop :=
    forall pre rest, follow' v rest -> (Z.of_nat (len sp) < 2147483000)%Z ->
      parse_obj rel n (pre ++ sp ++ rest) (len pre) = POk (v, len pre, len pre + len sp) (len pre + len sp).
  Definition P_items (n : nat) (l : list obj) (body : bytes) : Prop :=
    forall pre rest objs fuel, len body < fuel -> (Z.of_nat (len body) < 2147483000)%Z ->
      array_loop (parse_obj rel n) fuel (pre ++ body ++ 93%N :: rest) (len pre) objs = POk (objs ++ l) (len pre + len body + 1).
  Definition P_entries (n : nat) (ents : list (bytes * obj)) (body : bytes) : Prop :=
    forall pre rest map names d fuel, len body < fuel -> (Z.of_nat (len body) < 2147483000)%Z ->
      names_ok names map -> dict_of ents map = Some d ->
      dict_loop (parse_obj rel n) fuel (pre ++ body ++ 62%N :: 62%N :: rest) (len pre) map names = POk d (len pre + len body + 2).

  (* PDFObjP::parse + dispatch on a spelling whose first byte is [x] *)
  Lemma parse_obj_at n pre sp rest x r :
    sp ++ rest = x :: r -> starter x ->
    parse_obj rel (S n) (pre ++ sp ++ rest) (len pre) =
    bind (parse_internal rel (parse_obj rel n) (pre ++ sp ++ rest) (len pre)) (fun v e => POk (v, len pre, e) e).
  Proof.
    intros E St. cbn [parse_obj]. unfold pdfobj_p.
    change (pre ++ sp ++ rest) with (pre ++ [] ++ sp ++ rest) at 1.
    rewrite (ws_eol_spec true [] pre (sp ++ rest)); [|constructor|rewrite E; apply starter_ws_stop, St|left; reflexivity].
    cbn [bind len length]. rewrite Nat.add_0_r. reflexivity.
  Qed.

  Lemma peek_sp pre sp rest x r : sp ++ rest = x :: r -> peek (pre ++ sp ++ rest) (len pre) = Some x.
  Proof. intros E. rewrite peek_at, E. reflexivity. Qed.

  Lemma spelling_all :
    (forall n v sp, spells' n v sp -> P_obj n v sp) /\
    (forall n l body, items' n l body -> P_items n l body) /\
    (forall n ents body, entries' n ents body -> P_entries n ents body).
  Proof.
    apply (spells_items_entries_mind int_follow_sem); unfold P_obj, P_items, P_entries.
    - (* null *)
      intros n pre rest _ _. rewrite (parse_obj_at n pre kw_null rest 110%N (skipn 1 kw_null ++ rest)); [|reflexivity|repeat split; discriminate].
      unfold parse_internal. rewrite (peek_sp pre kw_null rest 110%N (skipn 1 kw_null ++ rest) eq_refl). cbn [N.eqb Pos.eqb orb].
      rewrite null_spec. reflexivity.
    - (* true *)
      intros n pre rest _ _. rewrite (parse_obj_at n pre kw_true rest 116%N (skipn 1 kw_true ++ rest)); [|reflexivity|repeat split; discriminate].
      unfold parse_internal. rewrite (peek_sp pre kw_true rest 116%N (skipn 1 kw_true ++ rest) eq_refl). cbn [N.eqb Pos.eqb orb].
      rewrite boolean_spec_true. reflexivity.
    - (* false *)
      intros n pre rest _ _. rewrite (parse_obj_at n pre kw_false rest 102%N (skipn 1 kw_false ++ rest)); [|reflexivity|repeat split; discriminate].
      unfold parse_internal. rewrite (peek_sp pre kw_false rest 102%N (skipn 1 kw_false ++ rest) eq_refl). cbn [N.eqb Pos.eqb orb].
      rewrite boolean_spec_false. reflexivity.
    - (* numbers *)
      intros n v sp Hsp pre rest Hf _.
      destruct (spells_num_first v sp rest Hsp) as (x & r & E & St & K).
      rewrite (parse_obj_at n pre sp rest x r E St).
      unfold parse_internal. rewrite (peek_sp pre sp rest x r E).
      assert (D : (N.eqb x 116 || N.eqb x 102)%bool = false /\ N.eqb x 110 = false /\ N.eqb x 40 = false /\ N.eqb x 37 = false /\
                  N.eqb x 47 = false /\ N.eqb x 91 = false /\ N.eqb x 60 = false /\
                  (negb (is_digit_b x) && negb (N.eqb x 45) && negb (N.eqb x 43) && negb (N.eqb x 46))%bool = false).
      { destruct K as [K|[->|[->| ->]]]; [|repeat split; reflexivity..].
        unfold is_digit_b in *. apply andb_true_iff in K as [K1 K2]. apply N.leb_le in K1, K2.
        rewrite !orb_false_iff. repeat split; try (apply N.eqb_neq; lia).
        replace ((48 <=? x) && (x <=? 57))%N with true by (symmetry; apply andb_true_iff; split; apply N.leb_le; lia).
        reflexivity. }
      destruct D as (D1 & D2 & D3 & D4 & D5 & D6 & D7 & D8).
      rewrite D1, D2, D3, D4, D5, D6, D7, D8.
      assert (Hr : num_stop rest /\ (forall z, v = OInt z -> ~ lookahead_ref (pre ++ sp ++ rest) (len pre + len sp))).
      { assert (TS : term_stop rest -> num_stop rest).
        { destruct rest as [|b t]; [exact (fun _ => I)|]. cbn [term_stop num_stop]. intros Hb. apply memb_In in Hb. vm_compute in Hb.
          repeat (destruct Hb as [<-|Hb]; [split; [reflexivity|discriminate]|]). contradiction. }
        inversion Hsp; subst; cbn [follow] in Hf.
        - destruct Hf as [Ht Hi]. split; [apply TS, Ht|]. intros z _. apply Hi.
          + rewrite !len_app. lia.
          + rewrite app_assoc. rewrite <- len_app. replace (len (pre ++ sg ++ ds)) with (len (pre ++ sg ++ ds) + 0) by lia.
            rewrite skipn_app_len. reflexivity.
        - split; [apply TS, Hf|]. intros z Hz. discriminate.
        - split; [apply TS, Hf|]. intros z Hz. discriminate. }
      destruct Hr as [Hr1 Hr2]. rewrite (number_spec v sp pre rest Hsp Hr1 Hr2). reflexivity.
    - (* names *)
      intros n bs enc He pre rest Hf _. cbn [follow] in Hf.
      rewrite (parse_obj_at n pre (47%N :: enc) rest 47%N (enc ++ rest)); [|reflexivity|repeat split; discriminate].
      unfold parse_internal. rewrite (peek_sp pre (47%N :: enc) rest 47%N (enc ++ rest) eq_refl). cbn [N.eqb Pos.eqb orb].
      rewrite (name_spec bs enc pre rest He Hf). cbn [bind lv_val fst]. cbn [len length]. reflexivity.
    - (* literal strings *)
      intros n body Hb pre rest _ Hl.
      rewrite (parse_obj_at n pre (40%N :: body ++ [41%N]) rest 40%N ((body ++ [41%N]) ++ rest)); [|reflexivity|repeat split; discriminate].
      unfold parse_internal. rewrite (peek_sp pre (40%N :: body ++ [41%N]) rest 40%N ((body ++ [41%N]) ++ rest) eq_refl). cbn [N.eqb Pos.eqb orb].
      rewrite lit_ok; [|assumption|unfold len in *; cbn [length] in Hl; rewrite app_length in Hl; lia].
      cbn [bind lv_val fst]. unfold len. cbn [length]. rewrite app_length. cbn [length].
      replace (length pre + S (length body + 1)) with (length pre + length body + 2) by lia. reflexivity.
    - (* hex strings *)
      intros n bs body He pre rest _ _.
      rewrite (parse_obj_at n pre (60%N :: body ++ [62%N]) rest 60%N ((body ++ [62%N]) ++ rest)); [|reflexivity|repeat split; discriminate].
      unfold parse_internal. rewrite (peek_sp pre (60%N :: body ++ [62%N]) rest 60%N ((body ++ [62%N]) ++ rest) eq_refl). cbn [N.eqb Pos.eqb orb].
      assert (Lt : len pre < len (pre ++ (60%N :: body ++ [62%N]) ++ rest)) by (rewrite len_app; cbn; lia).
      rewrite incr_ok, setc_ok by lia.
      assert (Nx : forall y, peek (pre ++ (60%N :: body ++ [62%N]) ++ rest) (S (len pre)) = Some y -> y <> 60%N).
      { intros y. replace (pre ++ (60%N :: body ++ [62%N]) ++ rest) with ((pre ++ [60%N]) ++ (body ++ [62%N]) ++ rest) by app_norm.
        rewrite <- len_snoc with (x := 60%N). rewrite peek_at.
        destruct (hex_enc_value _ _ He) as [Hfa _].
        destruct body as [|z body']; cbn [app hd_error].
        - intros [= <-]. discriminate.
        - intros [= <-]. inversion Hfa as [|? ? Hz _]; subst. intros ->. vm_compute in Hz. discriminate. }
      assert (HX : bind (bind (hexstring (pre ++ (60%N :: body ++ [62%N]) ++ rest) (len pre))
                          (fun (v : lv bytes) (c2 : nat) => POk (OStr (lv_val v)) c2))
                        (fun (v : obj) (e : nat) => POk (v, len pre, e) e) =
                   POk (OStr bs, len pre, len pre + len (60%N :: body ++ [62%N])) (len pre + len (60%N :: body ++ [62%N]))).
      { rewrite (hexstring_spec bs body pre rest He). cbn [bind lv_val fst]. unfold len. cbn [length]. rewrite app_length. cbn [length].
        replace (length pre + S (length body + 1)) with (length pre + length body + 2) by lia. reflexivity. }
      destruct (peek _ (S (len pre))) as [y|] eqn:Ey; [|exact HX].
      specialize (Nx y eq_refl).
      destruct y as [|p]; [exact HX|]. do 6 (destruct p; try exact HX). exfalso. apply Nx. reflexivity.
    - (* references *)
      intros n' n g sn w1 sg w2 Hn Hw1 Hn1 Hg Hw2 Hn2 pre rest _ _.
      set (sp := sn ++ w1 ++ sg ++ w2 ++ [82%N]).
      destruct (spells_first (S n') (ORef n g) sp (sp_ref _ n' n g sn w1 sg w2 Hn Hw1 Hn1 Hg Hw2 Hn2) rest) as (x & r & E & St).
      destruct Hn as [neg sg0 ds Hs Hdn Hd Hm Hz].
      assert (K : is_digit_b x = true \/ x = 45%N \/ x = 43%N).
      { unfold sp in E. rewrite <- !app_assoc in E.
        destruct (sign_digits_first neg sg0 ds (w1 ++ sg ++ w2 ++ [82%N] ++ rest) Hs Hdn Hd) as (x' & r' & E' & _ & K).
        rewrite E' in E. injection E as <- _. exact K. }
      rewrite (parse_obj_at n' pre sp rest x r E St).
      unfold parse_internal. rewrite (peek_sp pre sp rest x r E).
      assert (D : (N.eqb x 116 || N.eqb x 102)%bool = false /\ N.eqb x 110 = false /\ N.eqb x 40 = false /\ N.eqb x 37 = false /\
                  N.eqb x 47 = false /\ N.eqb x 91 = false /\ N.eqb x 60 = false /\
                  (negb (is_digit_b x) && negb (N.eqb x 45) && negb (N.eqb x 43) && negb (N.eqb x 46))%bool = false).
      { destruct K as [K|[->| ->]]; [|repeat split; reflexivity..].
        unfold is_digit_b in *. apply andb_true_iff in K as [K1 K2]. apply N.leb_le in K1, K2.
        rewrite !orb_false_iff. repeat split; try (apply N.eqb_neq; lia).
        replace ((48 <=? x) && (x <=? 57))%N with true by (symmetry; apply andb_true_iff; split; apply N.leb_le; lia).
        reflexivity. }
      destruct D as (D1 & D2 & D3 & D4 & D5 & D6 & D7 & D8).
      rewrite D1, D2, D3, D4, D5, D6, D7, D8.
      pose proof (reference_spec _ g (sg0 ++ ds) w1 sg w2 pre rest (sp_nat neg sg0 ds Hs Hdn Hd Hm Hz) Hw1 Hn1 Hg Hw2 Hn2) as R.
      cbv zeta in R. fold sp in R. rewrite R. reflexivity.
    - (* arrays *)
      intros n l body Hit IH pre rest _ Hl.
      rewrite (parse_obj_at n pre (91%N :: body ++ [93%N]) rest 91%N ((body ++ [93%N]) ++ rest)); [|reflexivity|repeat split; discriminate].
      unfold parse_internal. rewrite (peek_sp pre (91%N :: body ++ [93%N]) rest 91%N ((body ++ [93%N]) ++ rest) eq_refl). cbn [N.eqb Pos.eqb orb].
      unfold array_p.
      rewrite (exact_peek1 91%N _ _ (peek_sp pre (91%N :: body ++ [93%N]) rest 91%N ((body ++ [93%N]) ++ rest) eq_refl) : exact kw_lbrack _ _ = _).
      replace (pre ++ (91%N :: body ++ [93%N]) ++ rest) with ((pre ++ [91%N]) ++ body ++ 93%N :: rest) by app_norm.
      replace (S (len pre)) with (len (pre ++ [91%N])) by (rewrite len_snoc; reflexivity).
      unfold len in Hl. cbn [length] in Hl. rewrite app_length in Hl. cbn [length] in Hl.
      rewrite IH; [|rewrite !len_app; cbn [len length]; unfold len; lia|unfold len; lia].
      cbn [bind app]. rewrite len_snoc. unfold len. cbn [length]. rewrite app_length. cbn [length].
      replace (S (length pre) + length body + 1) with (length pre + S (length body + 1)) by lia. reflexivity.
    - (* dictionaries *)
      intros n ents body d Hen IH Hd pre rest _ Hl.
      rewrite (parse_obj_at n pre (60%N :: 60%N :: body ++ [62%N; 62%N]) rest 60%N ((60%N :: body ++ [62%N; 62%N]) ++ rest)); [|reflexivity|repeat split; discriminate].
      unfold parse_internal. rewrite (peek_sp pre (60%N :: 60%N :: body ++ [62%N; 62%N]) rest 60%N ((60%N :: body ++ [62%N; 62%N]) ++ rest) eq_refl). cbn [N.eqb Pos.eqb orb].
      set (T := pre ++ (60%N :: 60%N :: body ++ [62%N; 62%N]) ++ rest).
      assert (P1 : peek T (len pre) = Some 60%N) by (unfold T; rewrite peek_at; reflexivity).
      assert (P2 : peek T (S (len pre)) = Some 60%N).
      { unfold T. replace (pre ++ (60%N :: 60%N :: body ++ [62%N; 62%N]) ++ rest) with ((pre ++ [60%N]) ++ 60%N :: (body ++ [62%N; 62%N]) ++ rest)
          by app_norm.
        rewrite <- len_snoc with (x := 60%N). rewrite peek_at. reflexivity. }
      pose proof (peek_Some_lt _ _ _ P1) as Lt.
      rewrite incr_ok, setc_ok by lia. rewrite P2.
      unfold dict_p. rewrite (exact_peek2 _ _ _ _ P1 P2 : exact kw_ldict T (len pre) = _).
      assert (ET : T = (pre ++ [60%N; 60%N]) ++ body ++ 62%N :: 62%N :: rest) by (unfold T; app_norm).
      assert (L2 : S (S (len pre)) = len (pre ++ [60%N; 60%N])) by (rewrite len_app; cbn; lia).
      rewrite L2. rewrite ET at 2.
      unfold len in Hl. cbn [length] in Hl. rewrite app_length in Hl. cbn [length] in Hl.
      rewrite (IH (pre ++ [60%N; 60%N]) rest [] [] d); [| |unfold len; lia|intros k; reflexivity|exact Hd].
      2:{ rewrite ET, !len_app. cbn [len length]. unfold len. lia. }
      cbn [bind]. rewrite <- L2. unfold len. cbn [length]. rewrite app_length. cbn [length].
      replace (S (S (length pre)) + length body + 2) with (length pre + S (S (length body + 2))) by lia. reflexivity.
    - (* no more elements *)
      intros n w Hw pre rest objs fuel Hf _. destruct fuel as [|f]; [lia|]. cbn [array_loop].
      rewrite (ws_eol_spec true w pre (93%N :: rest) Hw); [|split; [reflexivity|discriminate]|left; reflexivity].
      cbn [bind].
      replace (pre ++ w ++ 93%N :: rest) with ((pre ++ w) ++ kw_rbrack ++ rest) by app_norm.
      rewrite <- len_app, exact_at, app_nil_r. cbn [len length]. rewrite len_app. f_equal.
    - (* an element *)
      intros n w v sp l body Hw Hsp IHv Hit IHl Hfo pre rest objs fuel Hf Hl.
      destruct fuel as [|f]; [lia|]. cbn [array_loop].
      destruct (spells_first n v sp Hsp (body ++ 93%N :: rest)) as (x & r & E & St).
      replace (pre ++ (w ++ sp ++ body) ++ 93%N :: rest) with (pre ++ w ++ sp ++ body ++ 93%N :: rest) by app_norm.
      rewrite (ws_eol_spec true w pre (sp ++ body ++ 93%N :: rest) Hw); [|rewrite E; apply starter_ws_stop, St|left; reflexivity].
      cbn [bind].
      assert (X : exact kw_rbrack (pre ++ w ++ sp ++ body ++ 93%N :: rest) (len pre + len w) = None).
      { rewrite app_assoc, <- len_app. unfold exact. replace (len (pre ++ w)) with (len (pre ++ w) + 0) by lia.
        rewrite skipn_app_len. cbn [skipn]. rewrite E. cbn [prefixb kw_rbrack].
        destruct St as (_ & _ & S3 & _). destruct (N.eqb_spec 93 x); [subst; contradiction|reflexivity]. }
      rewrite X.
      rewrite !len_app in Hl, Hf.
      assert (Lsp : 1 <= len sp).
      { destruct (spells_first n v sp Hsp []) as (x0 & r0 & E0 & _). rewrite app_nil_r in E0. rewrite E0. cbn. lia. }
      replace (pre ++ w ++ sp ++ body ++ 93%N :: rest) with ((pre ++ w) ++ sp ++ body ++ 93%N :: rest) by app_norm.
      rewrite <- len_app. rewrite (IHv (pre ++ w) (body ++ 93%N :: rest)); [|apply Hfo|lia].
      cbn [bind lv_val fst].
      replace ((pre ++ w) ++ sp ++ body ++ 93%N :: rest) with (((pre ++ w) ++ sp) ++ body ++ 93%N :: rest) by app_norm.
      rewrite <- len_app. rewrite IHl; [|lia|lia].
      rewrite <- app_assoc. cbn [app]. f_equal. rewrite !len_app. lia.
    - (* no more entries *)
      intros n w Hw pre rest map names d fuel Hf _ Hok Hd. destruct fuel as [|f]; [lia|]. cbn [dict_loop dict_of] in *.
      injection Hd as <-.
      rewrite (ws_eol_spec true w pre (62%N :: 62%N :: rest) Hw); [|split; [reflexivity|discriminate]|left; reflexivity].
      cbn [bind].
      replace (pre ++ w ++ 62%N :: 62%N :: rest) with ((pre ++ w) ++ kw_rdict ++ rest) by app_norm.
      rewrite <- len_app, exact_at. cbn [len length]. rewrite len_app. reflexivity.
    - (* an entry *)
      intros n w k enc w' v sp ents body Hw Hk Hw' Hkey Hsp IHv Hen IHe Hfo pre rest map names d fuel Hf Hl Hok Hd.
      destruct fuel as [|f]; [lia|]. cbn [dict_loop].
      destruct (spells_first n v sp Hsp (body ++ 62%N :: 62%N :: rest)) as (x & r & E & St).
      set (R := body ++ 62%N :: 62%N :: rest).
      replace (pre ++ (w ++ 47%N :: enc ++ w' ++ sp ++ body) ++ 62%N :: 62%N :: rest)
        with (pre ++ w ++ (47%N :: enc) ++ w' ++ sp ++ R) by (unfold R; app_norm).
      set (T := pre ++ w ++ (47%N :: enc) ++ w' ++ sp ++ R).
      assert (W1 : ws_eol true T (len pre) = POk (tt, len pre, len pre + len w) (len pre + len w)).
      { unfold T. apply ws_eol_spec; [assumption|split; [reflexivity|discriminate]|left; reflexivity]. }
      rewrite W1. cbn [bind].
      assert (X : exact kw_rdict T (len pre + len w) = None).
      { unfold T. rewrite app_assoc, <- len_app. unfold exact. replace (len (pre ++ w)) with (len (pre ++ w) + 0) by lia.
        rewrite skipn_app_len. reflexivity. }
      rewrite X.
      assert (TS : term_stop (w' ++ sp ++ R)).
      { destruct w' as [|y w'']; [|apply ws_head_term_stop; [assumption|discriminate]].
        cbn [app]. specialize (Hkey eq_refl). destruct sp as [|y sp']; [contradiction|]. exact Hkey. }
      assert (NM : name T (len pre + len w) = POk (k, len pre + len w, len pre + len w + S (len enc)) (len pre + len w + S (len enc))).
      { unfold T. rewrite app_assoc, <- len_app. apply name_spec; assumption. }
      rewrite NM. cbn [bind lv_val fst].
      rewrite (Hok k).
      unfold has_key in *. cbn [dict_of] in Hd. fold (has_key k map) in *.
      destruct (has_key k map) eqn:Ek; [discriminate|].
      assert (W2 : ws_eol true T (len pre + len w + S (len enc)) =
                   POk (tt, len pre + len w + S (len enc), len pre + len w + S (len enc) + len w') (len pre + len w + S (len enc) + len w')).
      { unfold T. replace (pre ++ w ++ (47%N :: enc) ++ w' ++ sp ++ R) with ((pre ++ w ++ 47%N :: enc) ++ w' ++ sp ++ R)
          by app_norm.
        replace (len pre + len w + S (len enc)) with (len (pre ++ w ++ 47%N :: enc)) by (rewrite !len_app; cbn [len length]; unfold len; lia).
        apply ws_eol_spec; [assumption|unfold R; rewrite E; apply starter_ws_stop, St|left; reflexivity]. }
      rewrite W2. cbn [bind].
      assert (Lb : len (w ++ 47%N :: enc ++ w' ++ sp ++ body) = len w + S (len enc) + len w' + len sp + len body).
      { rewrite !len_app. cbn [len length]. rewrite !app_length. unfold len. lia. }
      rewrite Lb in Hl, Hf.
      assert (PV : parse_obj rel n T (len pre + len w + S (len enc) + len w') =
                   POk (v, len pre + len w + S (len enc) + len w', len pre + len w + S (len enc) + len w' + len sp)
                       (len pre + len w + S (len enc) + len w' + len sp)).
      { unfold T. replace (pre ++ w ++ (47%N :: enc) ++ w' ++ sp ++ R) with ((pre ++ w ++ (47%N :: enc) ++ w') ++ sp ++ R)
          by app_norm.
        replace (len pre + len w + S (len enc) + len w') with (len (pre ++ w ++ (47%N :: enc) ++ w'))
          by (rewrite !len_app; cbn [len length]; unfold len; lia).
        apply IHv; [apply Hfo|lia]. }
      rewrite PV. cbn [bind lv_val fst].
      assert (TE : T = (pre ++ w ++ (47%N :: enc) ++ w' ++ sp) ++ body ++ 62%N :: 62%N :: rest)
        by (unfold T, R; app_norm).
      assert (LE : len pre + len w + S (len enc) + len w' + len sp = len (pre ++ w ++ (47%N :: enc) ++ w' ++ sp))
        by (rewrite !len_app; cbn [len length]; unfold len; lia).
      rewrite LE, TE.
      destruct v; try (rewrite (IHe _ rest _ (k :: names) d f); [f_equal; rewrite <- LE, Lb; lia|lia|lia| |exact Hd];
                       intros k'; cbn [existsb]; rewrite has_key_insert, (Hok k'); reflexivity).
      rewrite (IHe _ rest map names d f); [f_equal; rewrite <- LE, Lb; lia|lia|lia|exact Hok|exact Hd].
  Qed.
End Spelling.
