(* Proofs/PipelineTop.v — C01: the composition instantiated with the component theorems:
   stream decoders (C06/C07: Proofs/FiltersTotal.v), type checker on the dumped shipped specification
   (C09/C08: Proofs/TypeCheckSound.v, TypeCheckTerm.v), page DOM (C11: Proofs/DomTop.v), content-stream
   lexer + extractor (C12/C15/C02: Proofs/ContentLexTotal.v), and dump_root's own walk (Proofs/Pipeline.v). *)
From PV Require Import Base.PdfObj.
From PV Require Import Model.Flate Model.Filters Model.TypeCheck Model.ShippedEntry Model.Dom Model.ContentLex Model.Pipeline.
From PV Require Import Proofs.Pipeline Proofs.FiltersTotal Proofs.TypeCheckSound Proofs.TypeCheckTerm Proofs.DomTop Proofs.ContentLexTotal.
From Coq Require Import Lia.

(* the dumped specification is well formed: every named check is defined, no disjunction is empty *)
Lemma shipped_wf_compute :
  match resolve shipped_tctx shipped_root with
  | Some r => wf_univ shipped_tctx (norm_chk (rep_chk r))
  | None => false
  end = true.
Proof. vm_compute. reflexivity. Qed.

Lemma shipped_resolves : exists r, resolve shipped_tctx shipped_root = Some r /\
  wf_univ shipped_tctx (norm_chk (rep_chk r)) = true.
Proof.
  pose proof shipped_wf_compute as H.
  destruct (resolve shipped_tctx shipped_root) as [r|]; [|discriminate H].
  exists r. split; [reflexivity | exact H].
Qed.

Lemma shipped_check_not_panicked ctx root : shipped_check ctx root <> Panicked.
Proof.
  unfold shipped_check. apply check_never_panics_wf. intros r R.
  destruct shipped_resolves as (r0 & R0 & W). rewrite R0 in R. inversion R. subst r. exact W.
Qed.

Lemma shipped_check_not_stuck ctx root : shipped_check ctx root <> Stuck.
Proof.
  unfold shipped_check. destruct shipped_resolves as (r0 & R0 & _).
  exact (proj1 (check_terminates shipped_opq ctx shipped_tctx root shipped_root r0 R0)).
Qed.

Lemma dec_no_panic rel toks d c : dec rel toks d c <> Panic.
Proof. unfold dec. apply decode_stream_no_panic. Qed.

(* every page's concatenated, decoded content stays below 2 GiB (the only unchecked arithmetic left in the
   pipeline is RawLiteralString's i32 nesting counter, reachable with 2^31 open parentheses, debug builds only) *)
Definition small_pages (rel : bool) (toks : list bytes) (ctx : octx) (rootid : N * N) : Prop :=
  forall root r pg buf, octx_get ctx rootid = Some root -> dom_run ctx root = DOk (r, pg) ->
                        page_buffer (dec rel toks) pg buf -> (Z.of_nat (len buf) < 2147483648)%Z.

(* ---- the pipeline never panics ---- *)
Theorem pipeline_no_panic rel toks ctx rootid :
  small_pages rel toks ctx rootid -> pipeline rel toks ctx rootid <> PPanicked.
Proof.
  intros Hs H. unfold pipeline in H.
  destruct (pipeline_gen_panic_sources _ _ _ _ _ _ _ H) as [(d & c & Hd)|[(root & Hc)|(root & r & pg & buf & Hrt & Hdom & Hb & Hx)]].
  - exact (dec_no_panic _ _ _ _ Hd).
  - exact (shipped_check_not_panicked _ _ Hc).
  - exact (proj1 (extract_bytes_total rel 50 buf (Hs root r pg buf Hrt Hdom Hb)) Hx).
Qed.

Theorem pipeline_no_panic_release toks ctx rootid : pipeline true toks ctx rootid <> PPanicked.
Proof.
  intros H. unfold pipeline in H.
  destruct (pipeline_gen_panic_sources _ _ _ _ _ _ _ H) as [(d & c & Hd)|[(root & Hc)|(root & r & pg & buf & _ & _ & _ & Hx)]].
  - exact (dec_no_panic _ _ _ _ Hd).
  - exact (shipped_check_not_panicked _ _ Hc).
  - exact (proj1 (extract_bytes_total_release 50 buf) Hx).
Qed.

(* ---- the pipeline terminates: it leaves the model only when a stream decoder needs something the model does
        not have (a zlib answer missing from the case's oracle table, or DCTDecode) ---- *)
Theorem pipeline_terminates rel toks ctx rootid :
  small_pages rel toks ctx rootid -> pipeline rel toks ctx rootid = PUnmodelled -> exists d c, dec rel toks d c = Fuel.
Proof.
  intros Hs H. unfold pipeline in H.
  destruct (pipeline_gen_unmodelled_sources _ _ _ _ _ _ _ H) as [Hd|[(root & Hc)|[(root & Hm)|(root & r & pg & buf & Hrt & Hdom & Hb & Hx)]]].
  - exact Hd.
  - exfalso. exact (shipped_check_not_stuck _ _ Hc).
  - exfalso. exact (to_page_dom_enough_fuel ctx root Hm).
  - exfalso. exact (proj2 (extract_bytes_total rel 50 buf (Hs root r pg buf Hrt Hdom Hb)) Hx).
Qed.

(* together: accepted or rejected *)
Theorem pipeline_two_outcomes rel toks ctx rootid :
  small_pages rel toks ctx rootid -> (forall d c, dec rel toks d c <> Fuel) ->
  pipeline rel toks ctx rootid = PAccepted \/ pipeline rel toks ctx rootid = PRejected.
Proof.
  intros Hs Ho. destruct (pipeline rel toks ctx rootid) eqn:E; [left; reflexivity | right; reflexivity | |].
  - exfalso. exact (pipeline_no_panic rel toks ctx rootid Hs E).
  - exfalso. destruct (pipeline_terminates rel toks ctx rootid Hs E) as (d & c & Hd). exact (Ho d c Hd).
Qed.

(* ---- loader ; pipeline ---- *)
From PV Require Import Model.Full.
From PV Require Model.Loader Proofs.Loader.

Theorem full_no_panic rel toks p :
  (forall c root, Loader.load p = Loader.Loaded c root -> small_pages rel toks (objs_of c) root) ->
  full rel toks p <> PPanicked.
Proof.
  intros Hs. unfold full. destruct (Loader.load p) as [| |c root] eqn:E; try discriminate.
  apply pipeline_no_panic. apply Hs. reflexivity.
Qed.

Theorem full_two_outcomes rel toks p :
  (forall c root, Loader.load p = Loader.Loaded c root -> small_pages rel toks (objs_of c) root) ->
  (forall d c, dec rel toks d c <> Fuel) ->
  full rel toks p = PAccepted \/ full rel toks p = PRejected.
Proof.
  intros Hs Ho. unfold full. pose proof (Proofs.Loader.load_total p) as (NF & _).
  destruct (Loader.load p) as [| |c root] eqn:E.
  - right. reflexivity.
  - contradiction.
  - apply pipeline_two_outcomes; [apply Hs; reflexivity | exact Ho].
Qed.

(* ---- from bytes: the same, with the abstraction computed from the file's bytes by the parser models ---- *)
From PV Require Model.LoaderBytes.

Theorem full_bytes_two_outcomes rel toks s :
  (forall c root, Loader.load (LoaderBytes.abstract_file rel s) = Loader.Loaded c root -> small_pages rel toks (objs_of c) root) ->
  (forall d c, dec rel toks d c <> Fuel) ->
  full_bytes rel toks s = PAccepted \/ full_bytes rel toks s = PRejected.
Proof. intros Hs Ho. unfold full_bytes. apply full_two_outcomes; assumption. Qed.

Theorem full_bytes_no_panic_release toks s : full_bytes true toks s <> PPanicked.
Proof.
  unfold full_bytes, full. destruct (Loader.load (LoaderBytes.abstract_file true s)); try discriminate.
  apply pipeline_no_panic_release.
Qed.
