(* Proofs/ContentLexTotal.v — totality of the byte-level extractor:  extract_bytes never panics and never runs
   out of model fuel, for every buffer below 2^31 bytes (any buffer in the release profile).

   Ingredients: aprim's C15 theorems for the token parsers (no_panic + ok_span, Proofs/Prim*.v).  For Model/Obj.v
   (ArrayP, DictP, ReferenceP, the number/reference look-ahead, PDFObjP, parse_pdf_obj) no object-level no-panic
   statement was exported, so it is proved here ([parse_obj_wbs]): no panic, no fuel exhaustion, and on success
   the cursor advances by at least one byte and stays inside the buffer — which is also what makes the fuel
   [S (len s)] of the element loops and of [lex_loop] sufficient. *)
From PV Require Import Model.ContentLex Proofs.PrimBase Proofs.PrimTok Proofs.PrimWs Proofs.PrimLit.
From Coq Require Import Lia ZifyBool.

(* outcome of a parser called at cursor c of buffer s: neither panic nor fuel; on success the cursor does not move
   back ([wb]) / advances ([wbs]) and stays inside the buffer *)
Definition wb {A} (s : bytes) (c : nat) (r : pres A) : Prop :=
  match r with POk _ c' => c <= c' /\ c' <= len s | PErr _ _ => True | _ => False end.
Definition wbs {A} (s : bytes) (c : nat) (r : pres A) : Prop :=
  match r with POk _ c' => c < c' /\ c' <= len s | PErr _ _ => True | _ => False end.

Lemma wbs_wb {A} s c (r : pres A) : wbs s c r -> wb s c r.
Proof. destruct r; cbn; try tauto. lia. Qed.

Lemma bind_wb {A B} s c (r : pres A) (k : A -> nat -> pres B) :
  wb s c r -> (forall a c1, c <= c1 -> c1 <= len s -> wb s c1 (k a c1)) -> wb s c (bind r k).
Proof.
  destruct r as [a c1| | |]; cbn; try tauto. intros [H1 H2] K. specialize (K a c1 H1 H2).
  destruct (k a c1); cbn in *; try tauto. lia.
Qed.

Lemma bind_wbs {A B} s c (r : pres A) (k : A -> nat -> pres B) :
  wb s c r -> (forall a c1, c <= c1 -> c1 <= len s -> wbs s c1 (k a c1)) -> wbs s c (bind r k).
Proof.
  destruct r as [a c1| | |]; cbn; try tauto. intros [H1 H2] K. specialize (K a c1 H1 H2).
  destruct (k a c1); cbn in *; try tauto. lia.
Qed.

Lemma bind_wbs' {A B} s c (r : pres A) (k : A -> nat -> pres B) :
  wbs s c r -> (forall a c1, c < c1 -> c1 <= len s -> wb s c1 (k a c1)) -> wbs s c (bind r k).
Proof.
  destruct r as [a c1| | |]; cbn; try tauto. intros [H1 H2] K. specialize (K a c1 H1 H2).
  destruct (k a c1); cbn in *; try tauto. lia.
Qed.

(* ------------------------------------------------------------------ token parsers (from C15) *)
Lemma tok_wbs {A} (P : bytes -> nat -> pres (lv A)) s c :
  ok_span P -> (forall x c', P [] 0 <> POk x c') -> c <= len s -> fine (P s c) -> wbs s c (P s c).
Proof.
  intros SP NE Hc F. destruct (P s c) as [[[v a] b] c'| | |] eqn:E; cbn in *; try tauto.
  destruct (SP s c v a b c' Hc E) as (Ha & Hb & Hle & Hlen & v' & Hw & _). subst a b.
  split; [|lia]. destruct (Nat.eq_dec c c') as [->|]; [|lia]. exfalso.
  rewrite sub_nil_len in Hw by lia. exact (NE _ _ Hw).
Qed.

Lemma ws_wb e s c : c <= len s -> wb s c (ws_eol e s c).
Proof.
  intros Hc. pose proof (ws_eol_np e s c Hc) as F.
  destruct (ws_eol e s c) as [[[v a] b] c'| | |] eqn:E; cbn in *; try tauto.
  destruct (ws_eol_span e s c v a b c' Hc E) as (Ha & Hb & Hle & Hlen & _). subst. lia.
Qed.

Ltac empty_fails := let x := fresh in let c := fresh in let H := fresh in intros x c H; vm_compute in H; discriminate.

Lemma boolean_wbs s c : c <= len s -> wbs s c (boolean s c).
Proof. intros H. apply tok_wbs; [apply boolean_span|empty_fails|exact H|apply boolean_np, H]. Qed.
Lemma null_wbs s c : c <= len s -> wbs s c (null s c).
Proof. intros H. apply tok_wbs; [apply null_span|empty_fails|exact H|apply null_np, H]. Qed.
Lemma comment_wbs s c : c <= len s -> wbs s c (comment s c).
Proof. intros H. apply tok_wbs; [apply comment_span|empty_fails|exact H|apply comment_np, H]. Qed.
Lemma integer_wbs s c : c <= len s -> wbs s c (integer s c).
Proof. intros H. apply tok_wbs; [apply integer_span|empty_fails|exact H|apply integer_np, H]. Qed.
Lemma real_wbs s c : c <= len s -> wbs s c (real s c).
Proof. intros H. apply tok_wbs; [apply real_span|empty_fails|exact H|apply real_np, H]. Qed.
Lemma hexstring_wbs s c : c <= len s -> wbs s c (hexstring s c).
Proof. intros H. apply tok_wbs; [apply hexstring_span|empty_fails|exact H|apply hexstring_np, H]. Qed.
Lemma name_wbs s c : c <= len s -> wbs s c (name s c).
Proof. intros H. apply tok_wbs; [apply name_span|empty_fails|exact H|apply name_np, H]. Qed.
Lemma operator_wbs s c : c <= len s -> wbs s c (operator s c).
Proof. intros H. apply tok_wbs; [apply operator_span|empty_fails|exact H|apply operator_np, H]. Qed.
Lemma lit_string_wbs rel s c : c <= len s -> fine (lit_string rel s c) -> wbs s c (lit_string rel s c).
Proof.
  intros H F. apply tok_wbs; [apply lit_string_span| |exact H|exact F].
  intros x c' E. destruct rel; vm_compute in E; discriminate.
Qed.

(* the only unchecked arithmetic of the token parsers: the i32 parenthesis depth of RawLiteralString *)
Definition lit_fine (rel : bool) (s : bytes) : Prop := forall c, c <= len s -> fine (lit_string rel s c).

Lemma lit_fine_small rel s : (Z.of_nat (len s) < 2147483648)%Z -> lit_fine rel s.
Proof. intros H c Hc. apply lit_string_np; assumption. Qed.

Lemma lit_fine_release s : lit_fine true s.
Proof. intros c Hc. apply lit_string_np_rel, Hc. Qed.

(* ------------------------------------------------------------------ Model/Obj.v *)
Lemma reference_wbs s c : c <= len s -> wbs s c (reference s c).
Proof.
  intros Hc. unfold reference.
  apply bind_wbs'; [apply integer_wbs, Hc|]. intros num c1 L1 L2. cbv beta.
  destruct (negb ((lv_val num =? 0)%Z || int_is_usize (lv_val num))) eqn:G1; [rewrite setc_ok by lia; exact I|].
  apply bind_wb; [apply ws_wb; lia|]. intros _ c2 L3 L4.
  apply bind_wb; [apply wbs_wb, integer_wbs; lia|]. intros gen c3 L5 L6. cbv beta.
  destruct (negb ((lv_val gen =? 0)%Z || int_is_usize (lv_val gen))) eqn:G2; [rewrite setc_ok by lia; exact I|].
  apply bind_wb; [apply ws_wb; lia|]. intros _ c4 L7 L8.
  destruct (exact kw_R s c4) as [c5|] eqn:EX; [|exact I].
  apply exact_some in EX as [-> Hb].
  apply negb_false_iff in G1, G2. unfold int_is_usize in G1, G2. unfold usize_N.
  assert (A1 : (0 <=? lv_val num)%Z = true) by lia. assert (A2 : (0 <=? lv_val gen)%Z = true) by lia.
  rewrite A1, A2. specialize (Hb L8). change (len kw_R) with 1 in *. cbn. lia.
Qed.

Lemma number_or_ref_wbs s c : c <= len s -> wbs s c (number_or_ref s c).
Proof.
  intros Hc. unfold number_or_ref.
  pose proof (real_wbs s c Hc) as R.
  destruct (real s c) as [[[r a] b] c1| | |]; cbn [bind wbs] in *; try tauto.
  destruct R as [R1 R2]. cbn [lv_val fst snd].
  destruct (negb (real_is_integer r)) eqn:G; [cbn; lia|].
  apply negb_false_iff in G.
  assert (N1 : exists n1, real_numerator r = Some n1).
  { destruct r as [n d]. unfold real_is_integer in G. unfold real_numerator.
    destruct ((- i64_max - 1 <=? n)%Z && (n <=? i64_max)%Z); [eauto|discriminate]. }
  destruct N1 as [n1 ->].
  rewrite !setc_ok by lia.
  pose proof (ws_wb false s c1 R2) as W1.
  destruct (ws_eol false s c1) as [u c2| | |]; cbn in W1; try tauto; [|cbn; lia].
  pose proof (integer_wbs s c2 ltac:(lia)) as I2.
  destruct (integer s c2) as [i c3| | |]; cbn in I2; try tauto; [|cbn; lia].
  pose proof (ws_wb false s c3 ltac:(lia)) as W3.
  destruct (ws_eol false s c3) as [u' c4| | |]; cbn in W3; try tauto; [|cbn; lia].
  destruct (check_prefix kw_R s c4); [|cbn; lia].
  apply reference_wbs, Hc.
Qed.

Lemma match60 {T} (o : option N) (a b : T) :
  match o with Some 60%N => a | _ => b end = a \/ match o with Some 60%N => a | _ => b end = b.
Proof.
  destruct o as [[|p]|]; auto.
  do 6 (destruct p as [p|p|]; auto).
Qed.

Section Obj.
  Variable rel : bool.
  Variable s : bytes.
  Hypothesis LF : lit_fine rel s.
  Variable rec : bytes -> nat -> pres (lv obj).
  Hypothesis REC : forall c, c <= len s -> wbs s c (rec s c).

  Lemma array_loop_wb : forall f c objs, c <= len s -> len s - c < f -> wb s c (array_loop rec f s c objs).
  Proof.
    induction f as [|f IH]; intros c objs Hc Hf; [lia|]. cbn [array_loop].
    apply bind_wb; [apply ws_wb, Hc|]. intros _ c1 L1 L2.
    destruct (exact kw_rbrack s c1) as [c2|] eqn:EX.
    - apply exact_some in EX as [-> Hb]. specialize (Hb L2). change (len kw_rbrack) with 1 in *. cbn. lia.
    - apply wbs_wb, bind_wbs'; [apply REC, L2|]. intros o c2 L3 L4. apply IH; lia.
  Qed.

  Lemma array_p_wbs c : c <= len s -> wbs s c (array_p rec s c).
  Proof.
    intros Hc. unfold array_p. destruct (exact kw_lbrack s c) as [c1|] eqn:EX; [|exact I].
    apply exact_some in EX as [-> Hb]. specialize (Hb Hc). change (len kw_lbrack) with 1 in *.
    pose proof (array_loop_wb (S (len s)) (c + 1) [] Hb ltac:(lia)) as W.
    destruct (array_loop rec (S (len s)) s (c + 1) []); cbn in *; try tauto. lia.
  Qed.

  Lemma dict_loop_wb : forall f c map names, c <= len s -> len s - c < f -> wb s c (dict_loop rec f s c map names).
  Proof.
    induction f as [|f IH]; intros c map names Hc Hf; [lia|]. cbn [dict_loop].
    apply bind_wb; [apply ws_wb, Hc|]. intros _ c1 L1 L2.
    destruct (exact kw_rdict s c1) as [c2|] eqn:EX.
    - apply exact_some in EX as [-> Hb]. specialize (Hb L2). change (len kw_rdict) with 2 in *. cbn. lia.
    - apply wbs_wb, bind_wbs'; [apply name_wbs, L2|]. intros n c2 L3 L4. cbv beta zeta.
      destruct (existsb (bytes_eqb (lv_val n)) names); [exact I|].
      apply bind_wb; [apply ws_wb, L4|]. intros _ c3 L5 L6.
      apply bind_wb; [apply wbs_wb, REC, L6|]. intros o c4 L7 L8.
      destruct (lv_val o); apply IH; lia.
  Qed.

  Lemma dict_p_wbs c : c <= len s -> wbs s c (dict_p rec s c).
  Proof.
    intros Hc. unfold dict_p. destruct (exact kw_ldict s c) as [c1|] eqn:EX; [|exact I].
    apply exact_some in EX as [-> Hb]. specialize (Hb Hc). change (len kw_ldict) with 2 in *.
    pose proof (dict_loop_wb (S (len s)) (c + 2) [] [] Hb ltac:(lia)) as W.
    destruct (dict_loop rec (S (len s)) s (c + 2) [] []); cbn in *; try tauto. lia.
  Qed.

  Lemma ok_wbs {A B} (r : pres (lv A)) (f : A -> B) c :
    wbs s c r -> wbs s c (bind r (fun v c1 => POk (f (lv_val v)) c1)).
  Proof. destruct r; cbn; tauto. Qed.

  Lemma parse_internal_wbs c : c <= len s -> wbs s c (parse_internal rel rec s c).
  Proof.
    intros Hc. unfold parse_internal. destruct (peek s c) as [b|] eqn:P; [|exact I].
    pose proof (peek_Some_lt _ _ _ P) as Lt.
    destruct (N.eqb b 116 || N.eqb b 102)%bool; [apply (ok_wbs _ OBool), boolean_wbs, Hc|].
    destruct (N.eqb b 110).
    { pose proof (null_wbs s c Hc) as W. destruct (null s c); cbn in *; tauto. }
    destruct (N.eqb b 40); [apply (ok_wbs _ OStr), lit_string_wbs; [exact Hc|apply LF, Hc]|].
    destruct (N.eqb b 37); [apply (ok_wbs _ OComment), comment_wbs, Hc|].
    destruct (N.eqb b 47); [apply (ok_wbs _ OName), name_wbs, Hc|].
    destruct (N.eqb b 91); [apply array_p_wbs, Hc|].
    destruct (N.eqb b 60).
    { rewrite incr_ok by exact Lt. rewrite setc_ok by exact Hc.
      destruct (match60 (peek s (S c)) (dict_p rec s c)
                        (bind (hexstring s c) (fun v c2 => POk (OStr (lv_val v)) c2))) as [-> | ->].
      - apply dict_p_wbs, Hc.
      - apply (ok_wbs _ OStr), hexstring_wbs, Hc. }
    match goal with |- context [if ?x then PErr EGuard c else _] => destruct x end; [exact I|].
    apply number_or_ref_wbs, Hc.
  Qed.

  Lemma pdfobj_p_wbs c : c <= len s -> wbs s c (pdfobj_p rel rec s c).
  Proof.
    intros Hc. unfold pdfobj_p.
    apply bind_wbs; [apply ws_wb, Hc|]. intros _ st L1 L2.
    pose proof (parse_internal_wbs st L2) as W.
    destruct (parse_internal rel rec s st); cbn in *; tauto.
  Qed.
End Obj.

(* parse_pdf_obj: total, and a successful parse consumes at least one byte *)
Theorem parse_obj_wbs rel s : lit_fine rel s -> forall b c, c <= len s -> wbs s c (parse_obj rel b s c).
Proof.
  intros LF. induction b as [|b IH]; intros c Hc; [exact I|].
  cbn [parse_obj]. apply pdfobj_p_wbs; assumption.
Qed.

(* ------------------------------------------------------------------ CSObjP *)
Lemma csobj_internal_wbs rel maxd s c :
  lit_fine rel s -> c <= len s -> wbs s c (csobj_internal rel maxd s c).
Proof.
  intros LF Hc. unfold csobj_internal. destruct (peek s c) as [b|] eqn:P; [|exact I].
  pose proof (peek_Some_lt _ _ _ P) as Lt.
  pose proof (parse_obj_wbs rel s LF maxd) as REC.
  assert (OKW : forall {A} (r : pres (lv A)) (f : A -> cstoken),
             wbs s c r -> wbs s c (bind r (fun v c1 => POk (f (lv_val v)) c1))).
  { intros A r f. destruct r; cbn; tauto. }
  assert (OKP : forall (r : pres obj), wbs s c r -> wbs s c (bind r (fun a c1 => POk (TObj a) c1))).
  { intros r. destruct r; cbn; tauto. }
  destruct (N.eqb b 40); [apply (OKW _ _ (fun v => TObj (OStr v))), lit_string_wbs; [exact Hc|apply LF, Hc]|].
  destruct (N.eqb b 37); [apply (OKW _ _ (fun v => TObj (OComment v))), comment_wbs, Hc|].
  destruct (N.eqb b 47); [apply (OKW _ _ (fun v => TObj (OName v))), name_wbs, Hc|].
  destruct (N.eqb b 91); [apply OKP, array_p_wbs; assumption|].
  destruct (N.eqb b 60).
  { rewrite incr_ok by exact Lt. rewrite setc_ok by exact Hc.
    destruct (match60 (peek s (S c)) (bind (dict_p (parse_obj rel maxd) s c) (fun d c2 => POk (TObj d) c2))
                      (bind (hexstring s c) (fun v c2 => POk (TObj (OStr (lv_val v))) c2))) as [-> | ->].
    - apply OKP, dict_p_wbs; assumption.
    - apply (OKW _ _ (fun v => TObj (OStr v))), hexstring_wbs, Hc. }
  destruct (is_digit_b b || N.eqb b 45 || N.eqb b 46)%bool.
  - pose proof (real_wbs s c Hc) as R.
    destruct (real s c) as [[[r a] e] c1| | |]; cbn [bind wbs] in *; try tauto.
    cbn [lv_val fst snd]. destruct (negb (real_is_integer r)) eqn:G; [exact R|].
    apply negb_false_iff in G. destruct r as [n d]. unfold real_is_integer in G. unfold real_numerator.
    destruct ((- i64_max - 1 <=? n)%Z && (n <=? i64_max)%Z); [exact R|discriminate].
  - pose proof (operator_wbs s c Hc) as O.
    destruct (operator s c) as [[[nm a] e] c1| | |]; cbn [bind wbs] in *; try tauto.
    cbn [lv_val fst]. destruct (bytes_eqb nm kw_true_b); [exact O|].
    destruct (bytes_eqb nm kw_false_b); [exact O|]. destruct (bytes_eqb nm kw_null_b); exact O.
Qed.

Lemma csobj_wbs rel maxd s c : lit_fine rel s -> c <= len s -> wbs s c (csobj rel maxd s c).
Proof.
  intros LF Hc. unfold csobj.
  apply bind_wbs; [apply ws_wb, Hc|]. intros _ st L1 L2.
  pose proof (csobj_internal_wbs rel maxd s st LF L2) as W.
  destruct (csobj_internal rel maxd s st); cbn in *; tauto.
Qed.

(* the fuel of the token loop suffices: every token consumes at least one byte *)
Lemma lex_loop_total rel maxd s : lit_fine rel s ->
  forall f c acc, c <= len s -> len s - c < f ->
  snd (lex_loop f rel maxd s c acc) <> LexPanic /\ snd (lex_loop f rel maxd s c acc) <> LexFuel.
Proof.
  intros LF. induction f as [|f IH]; intros c acc Hc Hf; [lia|]. cbn [lex_loop].
  pose proof (ws_wb true s c Hc) as W.
  destruct (ws_eol true s c) as [u c1| | |]; cbn in W; try tauto; [|cbn; split; discriminate].
  destruct (Nat.leb (len s) c1) eqn:E; [cbn; split; discriminate|].
  apply Nat.leb_gt in E.
  pose proof (csobj_wbs rel maxd s c1 LF ltac:(lia)) as T.
  destruct (csobj rel maxd s c1) as [t c2| | |]; cbn in T; try tauto; [|cbn; split; discriminate].
  apply IH; lia.
Qed.

Lemma cs_lex_total rel maxd s : lit_fine rel s -> cs_lex rel maxd s <> Panic /\ cs_lex rel maxd s <> Fuel.
Proof.
  intros LF. unfold cs_lex, cs_lex_full.
  pose proof (lex_loop_total rel maxd s LF (S (len s)) 0 [] ltac:(lia) ltac:(lia)) as [H1 H2].
  destruct (lex_loop (S (len s)) rel maxd s 0 []) as [l e]. cbn in H1, H2.
  destruct e; try congruence; split; discriminate.
Qed.

(* ------------------------------------------------------------------ the token-level extractor is structural *)
Lemma show3_args_total n total : forall args i texts,
  show3_args n total i args texts <> Panic /\ show3_args n total i args texts <> Fuel.
Proof.
  induction args as [|a r IH]; intros i texts; cbn [show3_args]; [split; discriminate|].
  destruct a as [nm|o]; [split; discriminate|].
  destruct o; try (split; discriminate).
  - destruct (bytes_eqb n nm_dquote && Nat.ltb (i + 1) total); [apply IH|split; discriminate].
  - destruct (bytes_eqb n nm_dquote && Nat.ltb (i + 1) total); [apply IH|split; discriminate].
  - destruct (Nat.eqb (i + 1) total); [apply IH|split; discriminate].
Qed.

Lemma tj_elems_total : forall l texts, tj_elems l texts <> Panic /\ tj_elems l texts <> Fuel.
Proof.
  induction l as [|o r IH]; intros texts; cbn [tj_elems]; [split; discriminate|].
  destruct o; try (split; discriminate); apply IH.
Qed.

Lemma handle_total ty n oargs args nc texts :
  handle ty n oargs args nc texts <> Panic /\ handle ty n oargs args nc texts <> Fuel.
Proof.
  unfold handle. destruct (handle_arm ty n); try (split; discriminate).
  - destruct (negb _); [split; discriminate|].
    pose proof (show3_args_total n (len args) args 0 texts) as [H1 H2].
    destruct (show3_args n (len args) 0 args texts); try congruence; split; discriminate.
  - destruct (negb _); [split; discriminate|].
    destruct (last_opt args) as [[nm|o]|]; try (split; discriminate).
    destruct o; try (split; discriminate).
    pose proof (tj_elems_total l texts) as [H1 H2].
    destruct (tj_elems l texts); try congruence; split; discriminate.
Qed.

Lemma loop_total : forall toks st nc args texts,
  loop toks st nc args texts <> Panic /\ loop toks st nc args texts <> Fuel.
Proof.
  induction toks as [|t rest IH]; intros st nc args texts; cbn [loop]; [split; discriminate|].
  destruct t as [n|o].
  - destruct (op_lookup n) as [[ty oargs]|].
    + destruct (trans st ty n); [|split; discriminate].
      pose proof (handle_total ty n oargs args nc texts) as [H1 H2].
      destruct (handle ty n oargs args nc texts) as [[nc' texts']| | |]; try congruence; [|split; discriminate].
      destruct rest; [split; discriminate|apply IH].
    + destruct (Nat.ltb 0 nc); [|split; discriminate].
      destruct rest; [split; discriminate|apply IH].
  - destruct o; apply IH.
Qed.

Theorem extract_total toks : Content.extract toks <> Panic /\ Content.extract toks <> Fuel.
Proof. unfold Content.extract. destruct toks; [split; discriminate|apply loop_total]. Qed.

(* ------------------------------------------------------------------ the byte-level extractor *)
Theorem extract_bytes_total_gen rel maxd s :
  lit_fine rel s -> extract_bytes rel maxd s <> Panic /\ extract_bytes rel maxd s <> Fuel.
Proof.
  intros LF. unfold extract_bytes.
  pose proof (cs_lex_total rel maxd s LF) as [H1 H2].
  destruct (cs_lex rel maxd s) as [toks| | |]; try congruence; [apply extract_total|split; discriminate].
Qed.

Theorem extract_bytes_total rel maxd s :
  (Z.of_nat (len s) < 2147483648)%Z ->
  extract_bytes rel maxd s <> Panic /\ extract_bytes rel maxd s <> Fuel.
Proof. intros H. apply extract_bytes_total_gen, lit_fine_small, H. Qed.

(* release profile: the depth counter wraps; no side condition *)
Theorem extract_bytes_total_release maxd s :
  extract_bytes true maxd s <> Panic /\ extract_bytes true maxd s <> Fuel.
Proof. apply extract_bytes_total_gen, lit_fine_release. Qed.
