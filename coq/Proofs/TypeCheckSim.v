(* Proofs/TypeCheckSim.v — C08, layer (i): the work-list machine of Model/TypeCheck.v computes what
   a recursive, memoising checker [eval_pair] computes.

   1. the machine without its iteration counter and with fuel-independent get_next ([gnT], [stepv], [runv]);
   2. the recursive checker [eval_pair] (memo threaded, memo restored when an alternative fails,
      failed alternatives remembered);
   3. simulation: from a state whose next step processes the pair p over the stack td1, the machine
      reaches (empty sets ++ td1) with the memo of [eval_pair] when it answers EOk, an error state
      over td1 when it answers EFail, stops when it answers EStop, and is still running after n
      steps when the fuel n of [eval_pair] runs out. *)
From PV Require Import Model.TypeCheck Proofs.TypeCheckEq Proofs.TypeCheckLoop.
From Coq Require Import Lia Arith.

(* ---------- 1. the machine without the counter ---------- *)
Fixpoint unw (td : todo) : option todo :=
  match td with
  | [] => None
  | (pending, idx, mark) :: rest =>
    match pending with
    | (_, CRep (TDisj _) _ _) :: _ => if Nat.ltb 0 idx then Some td else unw rest
    | _ => unw rest
    end
  end.

Lemma unwind_unw td : forall k, fst (unwind td k) = unw td.
Proof.
  induction td as [|[[pending idx] mark] rest IH]; intros k; simpl; [reflexivity|].
  destruct pending as [|[o [t p i|n]] pend']; try apply IH.
  destruct t; try apply IH. destruct (Nat.ltb 0 idx); [reflexivity|apply IH].
Qed.

Inductive gres := RNext (p : pend) (td : todo) (ex fl : list pend) | RDone | RFail | RPanic.

Fixpoint gn (fuel : nat) (err : bool) (td : todo) (ex fl : list pend) : option gres :=
  match fuel with
  | O => None
  | S f =>
    match td with
    | [] => Some (if err then RFail else RDone)
    | (pending, idx, mark) :: rest =>
      match pending with
      | [] =>
        if err then match unw td with Some td' => gn f err td' ex fl | None => Some RFail end
        else gn f err rest ex fl
      | (o, tc) :: pend' =>
        let do_unwind (td2 : todo) (ex2 fl2 : list pend) :=
          match unw td2 with Some td' => gn f err td' ex2 fl2 | None => Some RFail end in
        match tc with
        | CRep (TDisj set) p i =>
          if Nat.ltb 0 idx then
            if negb err then gn f err ((pend', 0, mark) :: rest) ex fl
            else
              match nth_error set (idx - 1) with
              | None => Some RPanic
              | Some a =>
                let fl' := (o, a) :: fl in
                let ex' := rollback ex mark in
                if Nat.ltb idx (len set) then
                  match nth_error set idx with
                  | Some c => Some (RNext (o, c) (((o, tc) :: pend', S idx, mark) :: rest) ex' fl')
                  | None => None
                  end
                else do_unwind ((pend', 0, mark) :: rest) ex' fl'
              end
          else if err then do_unwind ((pend', idx, mark) :: rest) ex fl
          else match set with
               | [] => Some (RNext (o, tc) ((pend', idx, mark) :: rest) ex fl)
               | c :: _ =>
                 Some (RNext (o, c) (((o, tc) :: own_check o p i ++ pend', 1, len ex) :: rest) ex fl)
               end
        | _ => if err then do_unwind ((pend', idx, mark) :: rest) ex fl
               else Some (RNext (o, tc) ((pend', idx, mark) :: rest) ex fl)
        end
      end
    end
  end.

Definition gres_of (r : getres) : gres :=
  match r with GNext p td ex fl => RNext p td ex fl | GDone => RDone | GFail => RFail | GPanic => RPanic end.

Lemma get_next_gn err : forall f td ex fl k,
  option_map (fun x => gres_of (fst x)) (get_next f err td ex fl k) = gn f err td ex fl.
Proof.
  induction f as [|f IH]; intros td ex fl k; [reflexivity|].
  destruct td as [|[[pending idx] mark] rest]; [destruct err; reflexivity|].
  assert (HU : forall td2 ex2 fl2 k2,
            option_map (fun x => gres_of (fst x))
              (match unwind td2 k2 with
               | (Some td', k') => get_next f err td' ex2 fl2 k'
               | (None, k') => Some (GFail, k')
               end) = match unw td2 with Some td' => gn f err td' ex2 fl2 | None => Some RFail end).
  { intros td2 ex2 fl2 k2. rewrite <- (unwind_unw td2 k2). destruct (unwind td2 k2) as [[td'|] k']; simpl; [apply IH|reflexivity]. }
  destruct pending as [|[o tc] pend'].
  - cbn [get_next gn]. destruct err; [apply HU | apply IH].
  - cbn [get_next gn]. destruct tc as [t p i|n]; [|destruct err; [apply HU|reflexivity]].
    destruct t; try (destruct err; [apply HU|reflexivity]).
    destruct (Nat.ltb 0 idx).
    + destruct err; cbn [negb]; [|apply IH].
      destruct (nth_error alts (idx - 1)); [|reflexivity].
      destruct (Nat.ltb idx (len alts)); [|apply HU].
      destruct (nth_error alts idx); reflexivity.
    + destruct err; [apply HU|]. destruct alts; reflexivity.
Qed.

Lemma todo_size_cons l i m td : todo_size ((l, i, m) :: td) = S (List.length l + todo_size td).
Proof. reflexivity. Qed.

(* unwinding returns a suffix, never larger *)
Lemma unw_size : forall td td', unw td = Some td' -> todo_size td' <= todo_size td.
Proof.
  induction td as [|[[pending idx] mark] rest IH]; intros td' E; simpl in E; [discriminate|].
  assert (Hpop : unw rest = Some td' -> todo_size td' <= todo_size ((pending, idx, mark) :: rest)).
  { intros E'. specialize (IH _ E'). simpl. lia. }
  destruct pending as [|[o [t p i|n]] pend']; try (apply Hpop; exact E).
  destruct t; try (apply Hpop; exact E).
  destruct (Nat.ltb 0 idx); [inversion E; subst; apply Nat.le_refl | apply Hpop; exact E].
Qed.

(* with enough fuel the answer does not depend on the fuel *)
Lemma gn_fuel err : forall f f' td ex fl, todo_size td < f -> todo_size td < f' ->
  gn f err td ex fl = gn f' err td ex fl.
Proof.
  induction f as [|f IH]; intros f' td ex fl H H'; [lia|]. destruct f' as [|f']; [lia|].
  destruct td as [|[[pending idx] mark] rest]; [reflexivity|].
  assert (HU : forall td2 ex2 fl2, todo_size td2 < f -> todo_size td2 < f' ->
            match unw td2 with Some td' => gn f err td' ex2 fl2 | None => Some RFail end =
            match unw td2 with Some td' => gn f' err td' ex2 fl2 | None => Some RFail end).
  { intros td2 ex2 fl2 A B. destruct (unw td2) as [td'|] eqn:E; [|reflexivity].
    pose proof (unw_size _ _ E). apply IH; lia. }
  rewrite todo_size_cons in H, H'.
  destruct pending as [|[o tc] pend'].
  - cbn [gn]. destruct err.
    + change (unw (([], idx, mark) :: rest)) with (unw rest). simpl in H, H'. apply HU; lia.
    + simpl in H, H'. apply IH; lia.
  - assert (Hp : forall j m, todo_size ((pend', j, m) :: rest) < f /\ todo_size ((pend', j, m) :: rest) < f').
    { intros j m. rewrite todo_size_cons. simpl in H, H'. lia. }
    cbn [gn]. destruct tc as [t p i|n]; [|destruct err; [apply HU; apply Hp|reflexivity]].
    destruct t; try (destruct err; [apply HU; apply Hp|reflexivity]).
    destruct (Nat.ltb 0 idx).
    + destruct err; cbn [negb]; [|apply IH; apply Hp].
      destruct (nth_error alts (idx - 1)); [|reflexivity].
      destruct (Nat.ltb idx (len alts)); [|apply HU; apply Hp].
      destruct (nth_error alts idx) eqn:En; [reflexivity|].
      reflexivity.
    + destruct err; [apply HU; apply Hp|]. destruct alts; reflexivity.
Qed.

Definition gnT (err : bool) (td : todo) (ex fl : list pend) : option gres :=
  gn (S (todo_size td)) err td ex fl.

Lemma gn_gnT err f td ex fl : todo_size td < f -> gn f err td ex fl = gnT err td ex fl.
Proof. intros H. apply gn_fuel; [exact H|lia]. Qed.

(* ---------- the arms of the work loop, abstractly ---------- *)
Inductive xres :=
| XFail (e : tcerr)                (* the check fails on the object itself *)
| XStop (o : outcome)              (* a specification error ends the run *)
| XRef (q : pend)                  (* a reference: its value is checked next, in the same pending set *)
| XKids (cs : list pend).          (* the members are checked (those not examined yet), as a new pending set *)

Section Mach.
Variable opq : N -> obj -> bool.
Variable oc : octx.
Variable tc : tctx.

Definition of_pred (o : obj) (p : option pred) (k : xres) : xres :=
  match check_pred opq o p with Some e => XFail e | None => k end.

Definition expand (o : obj) (c : rep) : xres :=
  match o, r_ty c, r_ind c with
  | ORef _ _, _, IForb => XFail EValue
  | ORef n g, _, _ => XRef (ref_value oc n g, allow_indirect c)
  | _, _, IReq => XFail EValue
  | _, TDisj _, _ => XStop (SpecErr EPredErr)
  | _, TAny, _ => of_pred o (r_pred c) (XKids [])
  | _, TPrim p, _ => if prim_match o p then of_pred o (r_pred c) (XKids []) else XFail EType
  | OArr l, TArr e sz, _ =>
    if match sz with Some n => negb (Nat.eqb (len l) n) | None => false end then XFail ESize
    else match resolve tc e with
         | None => XStop (SpecErr EUnknown)
         | Some re =>
           if match r_ty re with TAny => no_attrs re | _ => false end
           then of_pred o (r_pred c) (XKids [])
           else of_pred o (r_pred c) (XKids (List.map (fun x => (x, e)) l))
         end
  | OArr l, THet es, _ =>
    if negb (Nat.eqb (len l) (len es)) then XFail ESize
    else of_pred o (r_pred c) (XKids (combine l es))
  | ODict d, TDict ents star, _ =>
    of_pred o (r_pred c)
      (match dict_ents tc d ents with
       | None => XStop (SpecErr EUnknown)
       | Some (Some e, _) => XFail e
       | Some (None, cs) =>
         match star with
         | None => XKids cs
         | Some (sc, sopt) =>
           match resolve tc sc with
           | None => XStop (SpecErr EUnknown)
           | Some rs =>
             match star_ents d (List.map ent_key ents) sc sopt (r_ty rs) with
             | (Some e, _) => XFail e
             | (None, cs2) => XKids (cs ++ cs2)
             end
           end
         end
       end)
  | OStream d _, TStream ents, _ =>
    of_pred o (r_pred c)
      (match stream_ents tc d ents with
       | None => XStop (SpecErr EUnknown)
       | Some (Some e, _) => XFail e
       | Some (None, cs) => XKids cs
       end)
  | _, _, _ => XFail EType
  end.

Definition arm_of (td : todo) (ex1 fl : list pend) (k : nat) (x : xres) : stepres * nat :=
  match x with
  | XFail e => (SCont td ex1 fl (Some e), k)
  | XStop o => (SStop o, k)
  | XRef q => match return_check td q with
              | Some td' => (SCont td' ex1 fl None, k)
              | None => (SStop Panicked, k)
              end
  | XKids cs => (SCont (push_checks ex1 td cs) ex1 fl None, k)
  end.

Lemma push_checks_nil ex td : push_checks ex td [] = td.
Proof. reflexivity. Qed.

Lemma step_arm_expand td ex1 fl k o tcx c :
  step_arm opq oc tc td ex1 fl k o tcx c = arm_of td ex1 fl k (expand o c).
Proof.
  unfold step_arm, expand, of_pred. destruct c as [[t p] i]. cbn [r_ty r_pred r_ind fst snd].
  destruct o as [ | b | z | n d | s | s | s | n g | l | d | d content];
    destruct t as [ | p' | e sz | es | ents star | ents | alts]; destruct i; cbn [arm_of];
    try reflexivity;
    try (destruct (check_pred opq _ p); reflexivity);
    try (match goal with |- context [prim_match ?o ?q] => destruct (prim_match o q) end;
         try reflexivity; destruct (check_pred opq _ p); reflexivity).
  all: try (destruct (match sz with Some n => negb (Nat.eqb (len l) n) | None => false end); [reflexivity|];
            destruct (resolve tc e) as [re|]; [|reflexivity];
            destruct (match r_ty re with TAny => no_attrs re | _ => false end);
            destruct (check_pred opq (OArr l) p); reflexivity).
  all: try (destruct (negb (Nat.eqb (len l) (len es))); [reflexivity|];
            destruct (check_pred opq (OArr l) p); reflexivity).
  all: try (destruct (check_pred opq (ODict d) p); [reflexivity|];
            destruct (dict_ents tc d ents) as [[[e|] cs]|]; try reflexivity;
            destruct star as [[sc sopt]|]; [|reflexivity];
            destruct (resolve tc sc) as [rs|]; [|reflexivity];
            destruct (star_ents d (List.map ent_key ents) sc sopt (r_ty rs)) as [[e|] cs2]; reflexivity).
  all: try (destruct (check_pred opq (OStream d content) p); [reflexivity|];
            destruct (stream_ents tc d ents) as [[[e|] cs]|]; reflexivity).
Qed.
End Mach.

Lemma outcome_eq_dec_stuck (x : outcome) : x = Stuck \/ x <> Stuck.
Proof. destruct x; [right|right|right|right|left]; try discriminate; reflexivity. Qed.

(* ---------- the machine without the counter ---------- *)
Section MachV.
Variable opq : N -> obj -> bool.
Variable oc : octx.
Variable tc : tctx.

Definition mst := (todo * list pend * list pend * option tcerr)%type.

Definition arm_ofv (td : todo) (ex1 fl : list pend) (x : xres) : stepres :=
  match x with
  | XFail e => SCont td ex1 fl (Some e)
  | XStop o => SStop o
  | XRef q => match return_check td q with Some td' => SCont td' ex1 fl None | None => SStop Panicked end
  | XKids cs => SCont (push_checks ex1 td cs) ex1 fl None
  end.

Definition procv (o : obj) (tcx : chk) (td : todo) (ex fl : list pend) : stepres :=
  match resolve tc tcx with
  | None => SStop (SpecErr EUnknown)
  | Some c =>
    if have_examined fl (o, tcx) then SCont td ex fl (Some EValue)
    else if have_examined ex (o, tcx) then SCont td ex fl None
    else
      let ex1 := (o, tcx) :: ex in
      match r_ty c with
      | TDisj [] => SCont td ex1 fl (Some EValue)
      | TDisj _ => SCont (push_disjunct td (o, rep_chk c)) ex1 fl None
      | _ => arm_ofv td ex1 fl (expand opq oc tc o c)
      end
  end.

Lemma process_procv o tcx td ex fl k : fst (process opq oc tc o tcx td ex fl k) = procv o tcx td ex fl.
Proof.
  unfold process, procv. destruct (resolve tc tcx) as [c|]; [|reflexivity].
  destruct (have_examined fl (o, tcx)); [reflexivity|]. destruct (have_examined ex (o, tcx)); [reflexivity|].
  cbv zeta.
  assert (H : fst (step_arm opq oc tc td ((o, tcx) :: ex) fl k o tcx c) = arm_ofv td ((o, tcx) :: ex) fl (expand opq oc tc o c)).
  { rewrite step_arm_expand. destruct (expand opq oc tc o c) as [e|x|q|cs]; simpl; try reflexivity.
    destruct (return_check td q); reflexivity. }
  destruct (r_ty c) as [ | | | | | | alts]; try exact H. destruct alts; reflexivity.
Qed.

Definition stepv (s : mst) : stepres :=
  let '(td, ex, fl, err) := s in
  match gnT (is_some err) td ex fl with
  | None => SStop Stuck
  | Some RPanic => SStop Panicked
  | Some RFail => SStop (match err with Some e => Reject e | None => Panicked end)
  | Some RDone => SStop (match err with None => Accept | Some _ => Panicked end)
  | Some (RNext (o, tcx) td1 ex1 fl1) => procv o tcx td1 ex1 fl1
  end.

Lemma step_stepv td ex fl err k : fst (step opq oc tc td ex fl err k) = stepv (td, ex, fl, err).
Proof.
  unfold step, stepv, gnT. rewrite <- (get_next_gn (is_some err) (S (todo_size td)) td ex fl (S k)).
  destruct (get_next (S (todo_size td)) (is_some err) td ex fl (S k)) as [[[[o tcx] td1 ex1 fl1| | | ] k']|]; simpl; try reflexivity.
  apply process_procv.
Qed.

Fixpoint runv (n : nat) (s : mst) : outcome :=
  match n with
  | O => Stuck
  | S f => match stepv s with SStop o => o | SCont td' ex' fl' err' => runv f (td', ex', fl', err') end
  end.

Lemma run_runv : forall n td ex fl err k, fst (run opq oc tc n td ex fl err k) = runv n (td, ex, fl, err).
Proof.
  induction n as [|n IH]; intros td ex fl err k; [reflexivity|].
  simpl run. cbn [runv]. rewrite <- (step_stepv td ex fl err k).
  destruct (step opq oc tc td ex fl err k) as [[td' ex' fl' err'|o] k']; simpl; [apply IH|reflexivity].
Qed.

(* reaching a state / stopping / still running *)
Definition reach (j : nat) (a b : mst) : Prop := forall m, runv (j + m) a = runv m b.
Definition stops (j : nat) (a : mst) (x : outcome) : Prop := forall m, runv (j + m) a = x.
Definition busy (j : nat) (a : mst) : Prop := runv j a = Stuck.

Lemma reach_refl a : reach 0 a a.
Proof. intros m. reflexivity. Qed.
Lemma reach_trans i j a b c : reach i a b -> reach j b c -> reach (i + j) a c.
Proof. intros H1 H2 m. rewrite <- Nat.add_assoc. rewrite H1. apply H2. Qed.
Lemma reach_step a td ex fl err : stepv a = SCont td ex fl err -> reach 1 a (td, ex, fl, err).
Proof. intros H m. simpl. rewrite H. reflexivity. Qed.
Lemma stops_step a x : stepv a = SStop x -> stops 1 a x.
Proof. intros H m. simpl. rewrite H. reflexivity. Qed.
Lemma reach_stops i j a b x : reach i a b -> stops j b x -> stops (i + j) a x.
Proof. intros H1 H2 m. rewrite <- Nat.add_assoc. rewrite H1. apply H2. Qed.
Lemma reach_busy i j a b : reach i a b -> busy j b -> busy (i + j) a.
Proof. intros H1 H2. unfold busy. rewrite H1. exact H2. Qed.
Lemma busy_0 a : busy 0 a.
Proof. reflexivity. Qed.

(* states with the same next step are interchangeable *)
Definition eqv (a b : mst) : Prop := stepv a = stepv b.
Lemma eqv_runv a b : eqv a b -> forall m, runv m a = runv m b.
Proof. intros H [|m]; [reflexivity|]. simpl. rewrite H. reflexivity. Qed.
Lemma reach_eqv j a b c : reach j a b -> eqv b c -> reach j a c.
Proof. intros H E m. rewrite H. apply eqv_runv. exact E. Qed.
Lemma eqv_reach j a b c : eqv a b -> reach j b c -> reach j a c.
Proof. intros E H m. rewrite (eqv_runv a b E). apply H. Qed.
Lemma eqv_stops j a b x : eqv a b -> stops j b x -> stops j a x.
Proof. intros E H m. rewrite (eqv_runv a b E). apply H. Qed.
Lemma eqv_busy j a b : eqv a b -> busy j b -> busy j a.
Proof. intros E H. unfold busy. rewrite (eqv_runv a b E). exact H. Qed.

Lemma runv_mono : forall n m a, runv n a <> Stuck -> n <= m -> runv m a = runv n a.
Proof.
  induction n as [|n IH]; intros m a H L; [simpl in H; congruence|].
  destruct m as [|m]; [lia|]. simpl in *.
  destruct (stepv a) as [td' ex' fl' err'|x]; [|reflexivity]. apply IH; [exact H|lia].
Qed.
Lemma busy_le i j a : busy j a -> i <= j -> busy i a.
Proof.
  intros H L. unfold busy in *. destruct (outcome_eq_dec_stuck (runv i a)) as [E|E]; [exact E|].
  rewrite (runv_mono i j a E L) in H. contradiction.
Qed.
End MachV.

(* ---------- what get_next_check does on the shapes of stack the simulation meets ---------- *)
Definition all_emp (l : todo) : Prop := Forall (fun s => fst (fst s) = [] /\ snd (fst s) = 0) l.
Definition all_idx0 (l : todo) : Prop := Forall (fun s => snd (fst s) = 0) l.

Lemma all_emp_idx0 l : all_emp l -> all_idx0 l.
Proof. intros H. eapply Forall_impl; [|exact H]. intros s [_ A]. exact A. Qed.
Lemma all_emp_app a b : all_emp a -> all_emp b -> all_emp (a ++ b).
Proof. intros A B. apply Forall_app. split; assumption. Qed.
Lemma all_idx0_app a b : all_idx0 a -> all_idx0 b -> all_idx0 (a ++ b).
Proof. intros A B. apply Forall_app. split; assumption. Qed.

Lemma todo_size_app a b : todo_size (a ++ b) = todo_size a + todo_size b.
Proof. induction a as [|[[l i] m] a IH]; [reflexivity|]. simpl app. rewrite !todo_size_cons, IH. lia. Qed.

(* one-step unfoldings *)
Lemma gn_emp f i m rest ex fl : gn (S f) false (([], i, m) :: rest) ex fl = gn f false rest ex fl.
Proof. reflexivity. Qed.

(* empty sets are skipped when no error is pending *)
Lemma gnT_skip_emp emp td ex fl : all_emp emp -> gnT false (emp ++ td) ex fl = gnT false td ex fl.
Proof.
  induction emp as [|[[l i] m] emp IH]; intros H; [reflexivity|].
  inversion H as [|? ? [H1 H2] H3]. subst. simpl in H1, H2. subst l i.
  rewrite <- (IH H3). unfold gnT at 1. simpl app. rewrite todo_size_cons. rewrite gn_emp.
  apply gn_gnT. simpl. lia.
Qed.

Lemma unw_junk junk td : all_idx0 junk -> unw (junk ++ td) = unw td.
Proof.
  induction junk as [|[[l i] m] junk IH]; intros H; [reflexivity|].
  inversion H as [|? ? H1 H2]. subst. simpl in H1. subst i. simpl.
  destruct l as [|[o [t p i'|n]] l']; try apply IH; try exact H2.
  destruct t; apply IH; exact H2.
Qed.

Lemma unw_suffix : forall td td', unw td = Some td' -> exists pre, td = pre ++ td'.
Proof.
  induction td as [|[[pending idx] mark] rest IH]; intros td' E; simpl in E; [discriminate|].
  assert (Hpop : unw rest = Some td' -> exists pre, (pending, idx, mark) :: rest = pre ++ td').
  { intros E'. destruct (IH _ E') as (pre & Hp). exists ((pending, idx, mark) :: pre). rewrite Hp. reflexivity. }
  destruct pending as [|[o [t p i|n]] pend']; try (apply Hpop; exact E).
  destruct t; try (apply Hpop; exact E).
  destruct (Nat.ltb 0 idx); [inversion E; exists []; reflexivity | apply Hpop; exact E].
Qed.

Lemma unw_idx0 l m td : unw ((l, 0, m) :: td) = unw td.
Proof. simpl. destruct l as [|[o [t p i|n]] l']; try reflexivity. destruct t; reflexivity. Qed.

Lemma gn_err_emp f i m rest ex fl :
  gn (S f) true (([], i, m) :: rest) ex fl =
  match unw rest with Some td' => gn f true td' ex fl | None => Some RFail end.
Proof. reflexivity. Qed.

Lemma gn_err_idx0 f q l' m rest ex fl :
  gn (S f) true ((q :: l', 0, m) :: rest) ex fl =
  match unw rest with Some td' => gn f true td' ex fl | None => Some RFail end.
Proof.
  destruct q as [o tcx]. pose proof (unw_idx0 l' m rest) as Hu.
  destruct tcx as [t p i|n]; [destruct t|]; cbn [gn Nat.ltb Nat.leb]; rewrite Hu; reflexivity.
Qed.

(* an error over a stack whose top set is not in progress: everything up to the nearest disjunct
   in progress is dropped *)
Lemma gnT_err_unw l m td ex fl :
  gnT true ((l, 0, m) :: td) ex fl =
  match unw td with Some td' => gnT true td' ex fl | None => Some RFail end.
Proof.
  unfold gnT at 1. rewrite todo_size_cons.
  assert (HU : forall f, todo_size td < f ->
            match unw td with Some td' => gn f true td' ex fl | None => Some RFail end =
            match unw td with Some td' => gnT true td' ex fl | None => Some RFail end).
  { intros f Hf. destruct (unw td) as [td'|] eqn:E; [|reflexivity]. pose proof (unw_size _ _ E).
    apply gn_gnT. lia. }
  destruct l as [|q l']; [rewrite gn_err_emp | rewrite gn_err_idx0]; apply HU; simpl; lia.
Qed.

Definition is_disj (p : pend) : bool :=
  match snd p with CRep (TDisj _) _ _ => true | _ => false end.

Lemma gn_pop f q r i m rest ex fl : is_disj q = false ->
  gn (S f) false ((q :: r, i, m) :: rest) ex fl = Some (RNext q ((r, i, m) :: rest) ex fl).
Proof.
  destruct q as [o tcx]. unfold is_disj. simpl snd. intros H.
  destruct tcx as [t p j|n]; [destruct t; try discriminate H|]; reflexivity.
Qed.

Lemma gnT_pop q r i m rest ex fl : is_disj q = false ->
  gnT false ((q :: r, i, m) :: rest) ex fl = Some (RNext q ((r, i, m) :: rest) ex fl).
Proof. intros H. unfold gnT. apply gn_pop. exact H. Qed.

Lemma gnT_open o a alts p i r m rest ex fl :
  gnT false (((o, CRep (TDisj (a :: alts)) p i) :: r, 0, m) :: rest) ex fl =
  Some (RNext (o, a) (((o, CRep (TDisj (a :: alts)) p i) :: own_check o p i ++ r, 1, len ex) :: rest) ex fl).
Proof. reflexivity. Qed.

Lemma gn_matched f o alts p i l idx m rest ex fl : 1 <= idx ->
  gn (S f) false (((o, CRep (TDisj alts) p i) :: l, idx, m) :: rest) ex fl = gn f false ((l, 0, m) :: rest) ex fl.
Proof. intros H. cbn [gn]. destruct (Nat.ltb_spec 0 idx); [reflexivity|lia]. Qed.

Lemma gnT_matched o alts p i l idx m rest ex fl : 1 <= idx ->
  gnT false (((o, CRep (TDisj alts) p i) :: l, idx, m) :: rest) ex fl = gnT false ((l, 0, m) :: rest) ex fl.
Proof.
  intros H. unfold gnT at 1. rewrite gn_matched by exact H. apply gn_gnT. rewrite !todo_size_cons. simpl. lia.
Qed.

Lemma unw_inprogress o alts p i l idx m rest : 1 <= idx ->
  unw (((o, CRep (TDisj alts) p i) :: l, idx, m) :: rest) = Some (((o, CRep (TDisj alts) p i) :: l, idx, m) :: rest).
Proof. intros H. simpl. destruct (Nat.ltb_spec 0 idx); [reflexivity|lia]. Qed.

Lemma gnT_skip_junk junk o alts p i l idx m rest ex fl : all_idx0 junk -> 1 <= idx ->
  gnT true (junk ++ ((o, CRep (TDisj alts) p i) :: l, idx, m) :: rest) ex fl =
  gnT true (((o, CRep (TDisj alts) p i) :: l, idx, m) :: rest) ex fl.
Proof.
  intros HJ Hi. destruct junk as [|[[l0 i0] m0] junk']; [reflexivity|].
  inversion HJ as [|? ? H1 H2]. subst. simpl in H1. subst i0. simpl app.
  rewrite gnT_err_unw. rewrite (unw_junk junk' _ H2). rewrite unw_inprogress by exact Hi. reflexivity.
Qed.

Lemma gn_next_alt f o alts p i l idx m rest ex fl a c : 1 <= idx ->
  nth_error alts (idx - 1) = Some a -> nth_error alts idx = Some c ->
  gn (S f) true (((o, CRep (TDisj alts) p i) :: l, idx, m) :: rest) ex fl =
  Some (RNext (o, c) (((o, CRep (TDisj alts) p i) :: l, S idx, m) :: rest) (rollback ex m) ((o, a) :: fl)).
Proof.
  intros Hi Ha Hc. cbn [gn]. destruct (Nat.ltb_spec 0 idx); [|lia]. cbn [negb].
  rewrite Ha. assert (idx < len alts) by (apply nth_error_Some; congruence).
  destruct (Nat.ltb_spec idx (len alts)); [|lia]. rewrite Hc. reflexivity.
Qed.

Lemma gnT_next_alt o alts p i l idx m rest ex fl a c : 1 <= idx ->
  nth_error alts (idx - 1) = Some a -> nth_error alts idx = Some c ->
  gnT true (((o, CRep (TDisj alts) p i) :: l, idx, m) :: rest) ex fl =
  Some (RNext (o, c) (((o, CRep (TDisj alts) p i) :: l, S idx, m) :: rest) (rollback ex m) ((o, a) :: fl)).
Proof. intros. unfold gnT. apply gn_next_alt; assumption. Qed.

Lemma gn_exhausted f o alts p i l idx m rest ex fl a : 1 <= idx ->
  nth_error alts (idx - 1) = Some a -> len alts <= idx ->
  gn (S f) true (((o, CRep (TDisj alts) p i) :: l, idx, m) :: rest) ex fl =
  match unw rest with Some td' => gn f true td' (rollback ex m) ((o, a) :: fl) | None => Some RFail end.
Proof.
  intros Hi Ha Hl. cbn [gn]. destruct (Nat.ltb_spec 0 idx); [|lia]. cbn [negb]. rewrite Ha.
  destruct (Nat.ltb_spec idx (len alts)); [lia|]. rewrite unw_idx0. reflexivity.
Qed.

Lemma gnT_exhausted o alts p i l idx m rest ex fl a : 1 <= idx ->
  nth_error alts (idx - 1) = Some a -> len alts <= idx ->
  gnT true (((o, CRep (TDisj alts) p i) :: l, idx, m) :: rest) ex fl =
  gnT true ((l, 0, m) :: rest) (rollback ex m) ((o, a) :: fl).
Proof.
  intros Hi Ha Hl. rewrite gnT_err_unw. unfold gnT at 1. rewrite (gn_exhausted _ o alts p i l idx m rest ex fl a Hi Ha Hl).
  destruct (unw rest) as [td'|] eqn:E; [|reflexivity]. pose proof (unw_size _ _ E).
  apply gn_gnT. rewrite todo_size_cons. lia.
Qed.

Lemma gnT_fail_end junk ex fl : all_idx0 junk -> gnT true (junk ++ []) ex fl = Some RFail.
Proof.
  intros HJ. destruct junk as [|[[l0 i0] m0] junk']; [reflexivity|].
  inversion HJ as [|? ? H1 H2]. subst. simpl in H1. subst i0. simpl app.
  rewrite gnT_err_unw. rewrite (unw_junk junk' [] H2). reflexivity.
Qed.

Lemma gnT_done emp ex fl : all_emp emp -> gnT false (emp ++ []) ex fl = Some RDone.
Proof. intros H. rewrite gnT_skip_emp by exact H. reflexivity. Qed.

(* ---------- 2. the recursive, memoising checker ---------- *)
Inductive eres :=
| EOk (ex fl : list pend)       (* the check holds under the assumptions made; the memo afterwards *)
| EFail (ex fl : list pend)     (* the check fails; [fl] has grown, [ex] is as the machine leaves it *)
| EStop (x : outcome)           (* a specification error / panic ends the run *)
| EOOF.                         (* out of fuel *)

Section Ev.
Variable ep : pend -> list pend -> list pend -> eres.   (* checking one pair, with less fuel *)

(* non-disjunct checks one after the other *)
Fixpoint ev_plain (l : list pend) (ex fl : list pend) : eres :=
  match l with
  | [] => EOk ex fl
  | q :: r => match ep q ex fl with EOk ex' fl' => ev_plain r ex' fl' | x => x end
  end.

(* the alternatives of a disjunct on [o], each from the memo [base] the disjunct was taken up with *)
Fixpoint ev_alts (o : obj) (rem : list chk) (base fl : list pend) : eres :=
  match rem with
  | [] => EFail base fl
  | a :: r =>
    match ep (o, a) base fl with
    | EOk ex' fl' => EOk ex' fl'
    | EFail _ fl' => ev_alts o r base ((o, a) :: fl')
    | x => x
    end
  end.

Definition ev_elem (q : pend) (ex fl : list pend) : eres :=
  match snd q with
  | CRep (TDisj alts) p i =>
    match alts with
    | [] => ep q ex fl                  (* no options: the work loop reports the mismatch *)
    | _ => match ev_alts (fst q) alts ex fl with
           | EOk ex' fl' => ev_plain (own_check (fst q) p i) ex' fl'
           | x => x
           end
    end
  | _ => ep q ex fl
  end.

Fixpoint ev_set (l : list pend) (ex fl : list pend) : eres :=
  match l with
  | [] => EOk ex fl
  | q :: r => match ev_elem q ex fl with EOk ex' fl' => ev_set r ex' fl' | x => x end
  end.
End Ev.

Section Eval.
Variable opq : N -> obj -> bool.
Variable oc : octx.
Variable tc : tctx.

Fixpoint eval_pair (n : nat) (p : pend) (ex fl : list pend) : eres :=
  match n with
  | O => EOOF
  | S n' =>
    match resolve tc (snd p) with
    | None => EStop (SpecErr EUnknown)
    | Some c =>
      if have_examined fl p then EFail ex fl
      else if have_examined ex p then EOk ex fl
      else
        let ex1 := p :: ex in
        match r_ty c with
        | TDisj [] => EFail ex1 fl
        | TDisj _ => ev_set (eval_pair n') [(fst p, rep_chk c)] ex1 fl
        | _ =>
          match expand opq oc tc (fst p) c with
          | XFail _ => EFail ex1 fl
          | XStop x => EStop x
          | XRef q => eval_pair n' q ex1 fl
          | XKids cs => ev_set (eval_pair n') (filter (fun q => negb (have_examined ex1 q)) cs) ex1 fl
          end
        end
    end
  end.

(* the memo only grows along a successful or failed check (up to the rollbacks inside) *)
Definition ext_ok (ex fl : list pend) (r : eres) : Prop :=
  match r with
  | EOk ex' fl' | EFail ex' fl' => (exists pre, ex' = pre ++ ex) /\ (exists pre, fl' = pre ++ fl)
  | _ => True
  end.

Lemma ext_refl (ex fl : list pend) : (exists pre, ex = pre ++ ex) /\ (exists pre, fl = pre ++ fl).
Proof. split; exists []; reflexivity. Qed.

Lemma ext_trans {A} (a b c : list A) : (exists p : list A, b = p ++ a) -> (exists p : list A, c = p ++ b) -> exists p : list A, c = p ++ a.
Proof. intros (p & ->) (q & ->). exists (q ++ p). rewrite app_assoc. reflexivity. Qed.

Section ExtEv.
Variable ep : pend -> list pend -> list pend -> eres.
Hypothesis ep_ext : forall p ex fl, ext_ok ex fl (ep p ex fl).

Lemma ev_plain_ext : forall l ex fl, ext_ok ex fl (ev_plain ep l ex fl).
Proof.
  induction l as [|q r IH]; intros ex fl; simpl; [apply ext_refl|].
  pose proof (ep_ext q ex fl) as H. destruct (ep q ex fl) as [ex' fl'| | |]; try exact H.
  specialize (IH ex' fl'). destruct (ev_plain ep r ex' fl') as [ex2 fl2|ex2 fl2| |]; simpl in *; try exact I;
    destruct H as [H1 H2]; destruct IH as [I1 I2]; split; eapply ext_trans; eauto.
Qed.

Lemma ev_alts_ext o : forall rem base fl, ext_ok base fl (ev_alts ep o rem base fl).
Proof.
  induction rem as [|a r IH]; intros base fl; simpl; [apply ext_refl|].
  pose proof (ep_ext (o, a) base fl) as H. destruct (ep (o, a) base fl) as [ex' fl'|ex' fl'| |]; try exact H.
  specialize (IH base ((o, a) :: fl')).
  destruct (ev_alts ep o r base ((o, a) :: fl')) as [ex2 fl2|ex2 fl2| |]; simpl in *; try exact I;
    destruct H as [H1 (pf & H2)]; destruct IH as [I1 (pf2 & I2)]; (split; [exact I1|]);
    subst; exists (pf2 ++ (o, a) :: pf); rewrite <- app_assoc; reflexivity.
Qed.

Lemma ev_elem_ext q ex fl : ext_ok ex fl (ev_elem ep q ex fl).
Proof.
  unfold ev_elem. destruct (snd q) as [t p i|n]; [|apply ep_ext].
  destruct t; try apply ep_ext. destruct alts as [|a alts]; [apply ep_ext|].
  pose proof (ev_alts_ext (fst q) (a :: alts) ex fl) as H.
  destruct (ev_alts ep (fst q) (a :: alts) ex fl) as [ex' fl'| | |]; try exact H.
  pose proof (ev_plain_ext (own_check (fst q) p i) ex' fl') as H2.
  destruct (ev_plain ep (own_check (fst q) p i) ex' fl') as [ex2 fl2|ex2 fl2| |]; simpl in *; try exact I;
    destruct H as [H1 H1']; destruct H2 as [I1 I2]; split; eapply ext_trans; eauto.
Qed.

Lemma ev_set_ext : forall l ex fl, ext_ok ex fl (ev_set ep l ex fl).
Proof.
  induction l as [|q r IH]; intros ex fl; simpl; [apply ext_refl|].
  pose proof (ev_elem_ext q ex fl) as H. destruct (ev_elem ep q ex fl) as [ex' fl'| | |]; try exact H.
  specialize (IH ex' fl'). destruct (ev_set ep r ex' fl') as [ex2 fl2|ex2 fl2| |]; simpl in *; try exact I;
    destruct H as [H1 H2]; destruct IH as [I1 I2]; split; eapply ext_trans; eauto.
Qed.
End ExtEv.

Lemma ext_cons p ex fl r : ext_ok (p :: ex) fl r -> ext_ok ex fl r.
Proof.
  destruct r as [ex' fl'|ex' fl'| |]; simpl; try (intros; exact I);
    intros [(pre & H1) H2]; (split; [exists (pre ++ [p]); rewrite <- app_assoc; exact H1 | exact H2]).
Qed.

Lemma eval_pair_ext : forall n p ex fl, ext_ok ex fl (eval_pair n p ex fl).
Proof.
  induction n as [|n IH]; intros p ex fl; [exact I|]. cbn [eval_pair].
  destruct (resolve tc (snd p)) as [c|]; [|exact I].
  destruct (have_examined fl p); [apply ext_refl|]. destruct (have_examined ex p); [apply ext_refl|].
  cbv zeta.
  assert (HS : forall l, ext_ok ex fl (ev_set (eval_pair n) l (p :: ex) fl)).
  { intros l. apply (ext_cons p). apply ev_set_ext. exact IH. }
  destruct (r_ty c) as [ | | | | | | alts].
  7:{ destruct alts; [split; [exists [p]; reflexivity | exists []; reflexivity] | apply HS]. }
  all: (destruct (expand opq oc tc (fst p) c) as [xe|xx|xq|xcs];
        [ split; [exists [p]; reflexivity | exists []; reflexivity] | exact I | apply (ext_cons p); apply IH | apply HS ]).
Qed.
End Eval.

(* ---------- 3. simulation ---------- *)
Section Sim.
Variable opq : N -> obj -> bool.
Variable oc : octx.
Variable tc : tctx.

Notation stepv := (stepv opq oc tc).
Notation runv := (runv opq oc tc).
Notation reach := (reach opq oc tc).
Notation stops := (stops opq oc tc).
Notation busy := (busy opq oc tc).
Notation eqv := (eqv opq oc tc).
Notation procv := (procv opq oc tc).
Notation ep := (eval_pair opq oc tc).

(* what an answer of the recursive checker means for the machine started in [s]:
   success ends in a stack satisfying [Tok] below empty sets, failure in an error state over [tdf] *)
Definition res_ok (n : nat) (s : mst) (Tok : todo -> Prop) (tdf : todo) (r : eres) : Prop :=
  match r with
  | EOk ex' fl' => exists j emp t, all_emp emp /\ Tok t /\ reach j s (emp ++ t, ex', fl', None)
  | EFail ex' fl' => exists j junk e, all_idx0 junk /\ reach j s (junk ++ tdf, ex', fl', Some e)
  | EStop x => exists j, stops j s x
  | EOOF => busy n s
  end.

Lemma res_ok_pre n j a b Tok tdf r : reach j a b -> res_ok n b Tok tdf r -> res_ok n a Tok tdf r.
Proof.
  intros R H. destruct r as [ex' fl'|ex' fl'|x|]; simpl in *.
  - destruct H as (j' & emp & t & A & B & C). exists (j + j'), emp, t. split; [exact A|]. split; [exact B|].
    eapply reach_trans; eauto.
  - destruct H as (j' & junk & e & A & C). exists (j + j'), junk, e. split; [exact A|]. eapply reach_trans; eauto.
  - destruct H as (j' & C). exists (j + j'). eapply reach_stops; eauto.
  - eapply busy_le; [eapply reach_busy; eauto|lia].
Qed.

Lemma res_ok_S n j a b Tok tdf r : reach j a b -> 1 <= j -> res_ok n b Tok tdf r -> res_ok (S n) a Tok tdf r.
Proof.
  intros R L H. destruct r as [ex' fl'|ex' fl'|x|].
  - exact (res_ok_pre n j a b Tok tdf (EOk ex' fl') R H).
  - exact (res_ok_pre n j a b Tok tdf (EFail ex' fl') R H).
  - exact (res_ok_pre n j a b Tok tdf (EStop x) R H).
  - simpl in *. eapply busy_le; [eapply reach_busy; eauto|lia].
Qed.

Lemma res_ok_eqv n a b Tok tdf r : eqv a b -> res_ok n b Tok tdf r -> res_ok n a Tok tdf r.
Proof.
  intros E H. destruct r as [ex' fl'|ex' fl'|x|]; simpl in *.
  - destruct H as (j' & emp & t & A & B & C). exists j', emp, t. split; [exact A|]. split; [exact B|].
    eapply eqv_reach; eauto.
  - destruct H as (j' & junk & e & A & C). exists j', junk, e. split; [exact A|]. eapply eqv_reach; eauto.
  - destruct H as (j' & C). exists j'. eapply eqv_stops; eauto.
  - eapply eqv_busy; eauto.
Qed.

Lemma res_ok_weaken n s (Tok Tok' : todo -> Prop) tdf tdf' junk2 r :
  (forall t, Tok t -> Tok' t) -> tdf = junk2 ++ tdf' -> all_idx0 junk2 ->
  res_ok n s Tok tdf r -> res_ok n s Tok' tdf' r.
Proof.
  intros HT HF HJ H. destruct r as [ex' fl'|ex' fl'|x|]; simpl in *; try exact H.
  - destruct H as (j' & emp & t & A & B & C). exists j', emp, t. split; [exact A|]. split; [apply HT; exact B|exact C].
  - destruct H as (j' & junk & e & A & C). exists j', (junk ++ junk2), e. split; [apply all_idx0_app; assumption|].
    subst tdf. rewrite <- app_assoc. exact C.
Qed.

Definition P_pair (n : nat) : Prop := forall p td1 ex fl s,
  td1 <> [] -> stepv s = procv (fst p) (snd p) td1 ex fl ->
  res_ok n s (eq td1) td1 (ep n p ex fl).

Lemma eqv_skip_emp emp td ex fl : all_emp emp -> eqv (emp ++ td, ex, fl, None) (td, ex, fl, None).
Proof. intros H. unfold eqv, TypeCheckSim.stepv. simpl is_some. rewrite gnT_skip_emp by exact H. reflexivity. Qed.

Lemma stepv_pop q r i m K ex fl : is_disj q = false ->
  stepv ((q :: r, i, m) :: K, ex, fl, None) = procv (fst q) (snd q) ((r, i, m) :: K) ex fl.
Proof. intros H. unfold TypeCheckSim.stepv. simpl is_some. rewrite gnT_pop by exact H. destruct q. reflexivity. Qed.

Section WithN.
Variable n : nat.
Hypothesis HP : P_pair n.

Lemma S_plain : forall l r m K ex fl emp0, all_emp emp0 -> (forall q, In q l -> is_disj q = false) ->
  res_ok n (emp0 ++ (l ++ r, 0, m) :: K, ex, fl, None) (eq ((r, 0, m) :: K)) K (ev_plain (ep n) l ex fl).
Proof.
  induction l as [|q l IH]; intros r m K ex fl emp0 HE Hnd.
  - simpl. exists 0, emp0, ((r, 0, m) :: K). split; [exact HE|]. split; [reflexivity|apply reach_refl].
  - simpl ev_plain. simpl app.
    apply (res_ok_eqv n _ ((q :: l ++ r, 0, m) :: K, ex, fl, None)); [apply eqv_skip_emp; exact HE|].
    pose proof (HP q ((l ++ r, 0, m) :: K) ex fl _ ltac:(discriminate)
                  (stepv_pop q (l ++ r) 0 m K ex fl (Hnd q (or_introl eq_refl)))) as H.
    destruct (ep n q ex fl) as [ex1 fl1|ex1 fl1|x|]; simpl in H.
    + destruct H as (j & emp & t & A & <- & C).
      eapply res_ok_pre; [exact C|]. apply IH; [exact A | intros q' Hq'; apply Hnd; right; exact Hq'].
    + destruct H as (j & junk & e & A & C). simpl. exists j, (junk ++ [(l ++ r, 0, m)]), e.
      split; [apply all_idx0_app; [exact A | constructor; [reflexivity|constructor]]|].
      rewrite <- app_assoc. exact C.
    + exact H.
    + exact H.
Qed.

Lemma own_check_plain o p i q : In q (own_check o p i) -> is_disj q = false.
Proof. unfold own_check. destruct p, i; simpl; intros H; try destruct H as [H|[]]; try (subst q; reflexivity); destruct H. Qed.

Lemma rollback_ext (pre base : list pend) : rollback (pre ++ base) (len base) = base.
Proof.
  unfold rollback, len. rewrite app_length. replace (List.length pre + List.length base - List.length base) with (List.length pre) by lia.
  rewrite skipn_app, skipn_all, Nat.sub_diag. reflexivity.
Qed.

(* the alternatives of the disjunct D = CRep (TDisj alts) p i on o, in progress at the front of the
   set (o, D) :: l over K, taken up with the memo [base] *)
Lemma S_alts o alts p i l K base : forall rem done fl s,
  alts = done ++ rem ->
  match rem with
  | [] => True
  | a :: _ => stepv s = procv o a (((o, CRep (TDisj alts) p i) :: l, S (len done), len base) :: K) base fl
  end ->
  rem <> [] ->
  res_ok n s (fun t => exists k, t = ((o, CRep (TDisj alts) p i) :: l, S k, len base) :: K) K
         (ev_alts (ep n) o rem base fl).
Proof.
  induction rem as [|a rem IH]; intros done fl s Halts Hs Hne; [congruence|].
  simpl ev_alts.
  pose proof (HP (o, a) (((o, CRep (TDisj alts) p i) :: l, S (len done), len base) :: K) base fl s
                ltac:(discriminate) Hs) as H.
  pose proof (eval_pair_ext opq oc tc n (o, a) base fl) as HX.
  destruct (ep n (o, a) base fl) as [ex1 fl1|ex1 fl1|x|]; simpl in H.
  - destruct H as (j & emp & t & A & <- & C).
    exists j, emp, (((o, CRep (TDisj alts) p i) :: l, S (len done), len base) :: K).
    split; [exact A|]. split; [exists (len done); reflexivity|exact C].
  - destruct H as (j & junk & e & A & C). destruct HX as [(pre & Hpre) _]. subst ex1.
    assert (Hk : nth_error alts (S (len done) - 1) = Some a).
    { subst alts. simpl. rewrite Nat.sub_0_r. rewrite nth_error_app2 by (unfold len; lia).
      unfold len. rewrite Nat.sub_diag. reflexivity. }
    destruct rem as [|a' rem'].
    + (* exhausted *)
      simpl ev_alts. simpl. exists j, [(l, 0, len base)], e. split; [constructor; [reflexivity|constructor]|].
      eapply reach_eqv; [exact C|].
      unfold eqv, TypeCheckSim.stepv. simpl is_some.
      rewrite gnT_skip_junk by (try exact A; lia).
      rewrite (gnT_exhausted o alts p i l (S (len done)) (len base) K _ fl1 a ltac:(lia) Hk).
      2:{ subst alts. unfold len. rewrite app_length. simpl. lia. }
      rewrite rollback_ext. reflexivity.
    + eapply res_ok_pre; [exact C|].
      apply (IH (done ++ [a]) ((o, a) :: fl1)).
      * subst alts. rewrite <- app_assoc. reflexivity.
      * unfold TypeCheckSim.stepv. simpl is_some.
        rewrite gnT_skip_junk by (try exact A; lia).
        rewrite (gnT_next_alt o alts p i l (S (len done)) (len base) K _ fl1 a a' ltac:(lia) Hk).
        2:{ subst alts. rewrite nth_error_app2 by (unfold len; lia). unfold len.
            replace (S (List.length done) - List.length done) with 1 by lia. reflexivity. }
        rewrite rollback_ext. unfold len. rewrite app_length. simpl.
        replace (List.length done + 1) with (S (List.length done)) by lia. reflexivity.
      * discriminate.
  - exact H.
  - exact H.
Qed.

Lemma S_elem q r m K ex fl emp0 : all_emp emp0 ->
  res_ok n (emp0 ++ (q :: r, 0, m) :: K, ex, fl, None) (fun t => exists m', t = (r, 0, m') :: K) K
         (ev_elem (ep n) q ex fl).
Proof.
  intros HE.
  apply (res_ok_eqv n _ ((q :: r, 0, m) :: K, ex, fl, None)); [apply eqv_skip_emp; exact HE|].
  assert (Hstep : stepv ((q :: r, 0, m) :: K, ex, fl, None) = procv (fst q) (snd q) ((r, 0, m) :: K) ex fl ->
            res_ok n ((q :: r, 0, m) :: K, ex, fl, None) (fun t => exists m', t = (r, 0, m') :: K) K (ep n q ex fl)).
  { intros Hd.
    pose proof (HP q ((r, 0, m) :: K) ex fl _ ltac:(discriminate) Hd) as H.
    eapply (res_ok_weaken n _ (eq ((r, 0, m) :: K)) _ ((r, 0, m) :: K) K [(r, 0, m)]); [| reflexivity | constructor; [reflexivity|constructor] | exact H].
    intros t <-. exists m. reflexivity. }
  assert (Hplain : is_disj q = false ->
            res_ok n ((q :: r, 0, m) :: K, ex, fl, None) (fun t => exists m', t = (r, 0, m') :: K) K (ep n q ex fl)).
  { intros Hd. apply Hstep. apply stepv_pop. exact Hd. }
  unfold ev_elem. destruct q as [o tcx]. simpl snd. simpl fst.
  destruct tcx as [t p i|nm]; [|apply Hplain; reflexivity].
  destruct t as [ | p' | e sz | es | ents star | ents | alts]; try (apply Hplain; reflexivity).
  destruct alts as [|a alts].
  - (* Disjunct([]): handed to the work loop like a plain check *)
    apply Hstep. reflexivity.
  - assert (Hs : stepv ((((o, CRep (TDisj (a :: alts)) p i) :: r, 0, m) :: K), ex, fl, None) =
                 procv o a (((o, CRep (TDisj (a :: alts)) p i) :: own_check o p i ++ r, S (len (@nil chk)), len ex) :: K) ex fl).
    { unfold TypeCheckSim.stepv. simpl is_some. rewrite gnT_open. reflexivity. }
    pose proof (S_alts o (a :: alts) p i (own_check o p i ++ r) K ex (a :: alts) [] fl
                  ((((o, CRep (TDisj (a :: alts)) p i) :: r, 0, m) :: K), ex, fl, None) eq_refl Hs ltac:(discriminate)) as H.
    destruct (ev_alts (ep n) o (a :: alts) ex fl) as [ex1 fl1|ex1 fl1|x|]; simpl in H.
    + destruct H as (j & emp & t & A & (k & ->) & C).
      eapply res_ok_pre; [exact C|].
      apply (res_ok_eqv n _ ((own_check o p i ++ r, 0, len ex) :: K, ex1, fl1, None)).
      { unfold eqv, TypeCheckSim.stepv. simpl is_some. rewrite gnT_skip_emp by exact A.
        rewrite gnT_matched by lia. reflexivity. }
      pose proof (S_plain (own_check o p i) r (len ex) K ex1 fl1 [] ltac:(constructor) (own_check_plain o p i)) as H2.
      simpl app in H2.
      eapply (res_ok_weaken n _ _ _ K K []); [| reflexivity | constructor | exact H2].
      intros t <-. exists (len ex). reflexivity.
    + exact H.
    + exact H.
    + exact H.
Qed.

Lemma S_set : forall l r m K ex fl emp0, all_emp emp0 ->
  res_ok n (emp0 ++ (l ++ r, 0, m) :: K, ex, fl, None) (fun t => exists m', t = (r, 0, m') :: K) K
         (ev_set (ep n) l ex fl).
Proof.
  induction l as [|q l IH]; intros r m K ex fl emp0 HE.
  - simpl. exists 0, emp0, ((r, 0, m) :: K). split; [exact HE|]. split; [exists m; reflexivity|apply reach_refl].
  - simpl ev_set. simpl app.
    pose proof (S_elem q (l ++ r) m K ex fl emp0 HE) as H.
    destruct (ev_elem (ep n) q ex fl) as [ex1 fl1|ex1 fl1|x|]; simpl in H; try exact H.
    destruct H as (j & emp & t & A & (m' & ->) & C).
    eapply res_ok_pre; [exact C|]. apply IH. exact A.
Qed.
End WithN.

Lemma is_disj_allow (c : rep) o : (forall alts, r_ty c <> TDisj alts) -> is_disj (o, allow_indirect c) = false.
Proof.
  intros H. unfold is_disj, allow_indirect. simpl. destruct (r_ty c) eqn:E; try reflexivity. exfalso. eapply H. reflexivity.
Qed.

(* the expansion of a reference is never a disjunct *)
Lemma expand_ref_plain o c q : (forall alts, r_ty c <> TDisj alts) -> expand opq oc tc o c = XRef q -> is_disj q = false.
Proof.
  intros Hnd E. unfold expand, of_pred in E. destruct c as [[t p] i]. cbn [r_ty r_pred r_ind fst snd] in *.
  assert (Href : forall n g, XRef (ref_value oc n g, allow_indirect (t, p, i)) = XRef q -> is_disj q = false).
  { intros n g H. inversion H. apply is_disj_allow. exact Hnd. }
  destruct o as [ | b | z | n d | s | s | s | n g | l | d | d content].
  8:{ destruct t; destruct i; try discriminate E; eapply Href; exact E. }
  all: destruct t as [ | p' | e sz | es | ents star | ents | alts]; destruct i; try discriminate E;
       try (destruct (check_pred opq _ p); discriminate E);
       try (match type of E with context [prim_match ?o ?q] => destruct (prim_match o q) end;
            try discriminate E; destruct (check_pred opq _ p); discriminate E).
  all: try (destruct (match sz with Some n => negb (Nat.eqb (len l) n) | None => false end); [discriminate E|];
            destruct (resolve tc e) as [re|]; [|discriminate E];
            destruct (match r_ty re with TAny => no_attrs re | _ => false end);
            destruct (check_pred opq (OArr l) p); discriminate E).
  all: try (destruct (negb (Nat.eqb (len l) (len es))); [discriminate E|];
            destruct (check_pred opq (OArr l) p); discriminate E).
  all: try (destruct (check_pred opq (ODict d) p); [discriminate E|];
            destruct (dict_ents tc d ents) as [[[e|] cs]|]; try discriminate E;
            destruct star as [[sc sopt]|]; [|discriminate E];
            destruct (resolve tc sc) as [rs|]; [|discriminate E];
            destruct (star_ents d (List.map ent_key ents) sc sopt (r_ty rs)) as [[e|] cs2]; discriminate E).
  all: try (destruct (check_pred opq (OStream d content) p); [discriminate E|];
            destruct (stream_ents tc d ents) as [[[e|] cs]|]; discriminate E).
Qed.

Lemma push_checks_filter (ex1 : list pend) (td : todo) (cs : list pend) :
  push_checks ex1 td cs =
  match filter (fun q => negb (have_examined ex1 q)) cs with [] => td | L => (L, 0, 0) :: td end.
Proof. reflexivity. Qed.

Theorem sim_pair : forall n, P_pair n.
Proof.
  induction n as [|n IH]; intros p td1 ex fl s Hne Hs; [apply busy_0|].
  destruct p as [o tcx]. cbn [fst snd] in Hs. cbn [eval_pair snd fst].
  unfold TypeCheckSim.procv in Hs.
  destruct (resolve tc tcx) as [c|] eqn:R.
  2:{ simpl. exists 1. apply stops_step. exact Hs. }
  destruct (have_examined fl (o, tcx)).
  { simpl. exists 1, [], EValue. split; [apply Forall_nil|]. apply reach_step. exact Hs. }
  destruct (have_examined ex (o, tcx)).
  { simpl. exists 1, [], td1. split; [apply Forall_nil|]. split; [reflexivity|]. apply reach_step. exact Hs. }
  cbv zeta in *.
  (* a set pushed on top of td1 *)
  assert (Hset : forall l, stepv s = SCont ((l, 0, 0) :: td1) ((o, tcx) :: ex) fl None ->
            res_ok (S n) s (eq td1) td1 (ev_set (ep n) l ((o, tcx) :: ex) fl)).
  { intros l Hs'. eapply (res_ok_S n 1); [apply reach_step; exact Hs' | lia |].
    pose proof (S_set n IH l [] 0 td1 ((o, tcx) :: ex) fl [] ltac:(constructor)) as H. rewrite app_nil_r in H. simpl app in H.
    destruct (ev_set (ep n) l ((o, tcx) :: ex) fl) as [ex2 fl2|ex2 fl2|x|]; simpl in *; try exact H.
    destruct H as (j & emp & t & A & (m' & ->) & C).
    exists j, (emp ++ [([], 0, m')]), td1. split; [apply all_emp_app; [exact A | constructor; [split; reflexivity|constructor]]|].
    split; [reflexivity|]. rewrite <- app_assoc. exact C. }
  destruct (r_ty c) as [ | p' | e sz | es | ents star | ents | alts] eqn:Ety.
  7:{ destruct alts as [|a0 alts0].
      - simpl. exists 1, [], EValue. split; [apply Forall_nil|]. apply reach_step. exact Hs.
      - apply Hset. exact Hs. }
  all: (assert (Hnd : forall alts, r_ty c <> TDisj alts) by (intros alts; rewrite Ety; discriminate);
        destruct (expand opq oc tc o c) as [xe|xx|xq|xcs] eqn:EX; unfold arm_ofv in Hs;
        [ simpl; exists 1, [], xe; split; [apply Forall_nil|]; apply reach_step; exact Hs
        | simpl; exists 1; apply stops_step; exact Hs
        | destruct td1 as [|[[l0 i0] m0] K]; [congruence|]; simpl return_check in Hs;
          eapply (res_ok_S n 1); [apply reach_step; exact Hs | lia |];
          apply (IH xq ((l0, i0, m0) :: K) ((o, tcx) :: ex) fl); [discriminate|];
          apply stepv_pop; eapply expand_ref_plain; eauto
        | rewrite push_checks_filter in Hs;
          match goal with |- context [ev_set _ ?F _ _] =>
            match type of Hs with context [match ?G with [] => _ | _ => _ end] =>
              replace G with F in Hs by reflexivity
            end;
            destruct F as [|q0 l0]
          end;
          [ simpl; exists 1, [], td1; split; [apply Forall_nil|]; split; [reflexivity|]; apply reach_step; exact Hs
          | apply Hset; exact Hs ] ]).
Qed.
End Sim.
