(* Proofs/FiltersPinned.v — refutation witnesses of C06 on the filter transforms AS PINNED
   (Model/FiltersPinned.v, Model/A85.v a85_decode_pinned, Model/AHex.v ahex_decode_pinned); each was
   reproduced on the real pinned code in both build profiles (corpus/c06.txt) and has since been
   repaired by a `fix:` commit (known_findings.d/C06.json).  Every proof is a computation. *)
From PV Require Import Model.FiltersPinned Spec.A85Enc.

Local Open Scope N_scope.

(* §7 row 1: ASCIIHexDecode failed on every non-empty input: hex2bin was given an empty output slice *)
Lemma pinned_ahex_refuted : exists p e, ahex_enc p e /\ ahex_decode_pinned e <> Ok p.
Proof.
  exists [72], (B "48>"). split.
  - exists (B "48"), (B "48"). split; [|split; [|reflexivity]].
    + apply (hd_byte 72 [] 52 56 []); [left; vm_compute; auto | left; vm_compute; auto | constructor].
    + repeat apply il_keep. apply il_nil.
  - vm_compute. discriminate.
Qed.

(* … and took the parity for the odd final digit from the raw index of `>` (here 2, after a space) *)
Lemma pinned_ahex_parity_refuted : exists p e, ahex_enc p e /\ ahex_decode_pinned e <> Ok p.
Proof.
  exists [64], (B " 4>"). split.
  - exists (B "4"), (B " 4"). split; [|split; [|reflexivity]].
    + apply hd_odd; [reflexivity | left; vm_compute; auto].
    + apply il_ws; [vm_compute; auto 10 | repeat apply il_keep; apply il_nil].
  - vm_compute. discriminate.
Qed.

(* row 3: every `z` group rejected *)
Lemma pinned_a85_z_refuted : forall dbg, exists p e, a85_enc p e /\ a85_decode_pinned dbg e <> Ok p.
Proof.
  intros dbg. exists [0; 0; 0; 0], (B "z~>"). split.
  - exists (B "z"). split; [apply ad_z; constructor | repeat apply il_keep; apply il_nil].
  - destruct dbg; vm_compute; discriminate.
Qed.

(* row 4: a group >= 2^32 wraps silently in release builds (debug: overflow panic, caught => Err) *)
Lemma pinned_a85_wrap_refuted :
  a85_decode_pinned false (B "s8W-""~>") = Ok [0; 0; 0; 0] /\ a85_decode_pinned true (B "s8W-""~>") = Err ETransform /\
  a85_decode_pinned false (B "uuuuu~>") = Ok [8; 120; 14; 196].
Proof. vm_compute. repeat split. Qed.

(* row 4: a lone final digit is dropped, a missing `~>` is accepted *)
Lemma pinned_a85_lone_digit_refuted : forall dbg, a85_decode_pinned dbg (B "87cUR+~>") = Ok [72; 101; 108; 108].
Proof. intros dbg. destruct dbg; vm_compute; reflexivity. Qed.

Lemma pinned_a85_no_eod_refuted : forall dbg, a85_decode_pinned dbg (B "87cUR") = Ok [72; 101; 108; 108].
Proof. intros dbg. destruct dbg; vm_compute; reflexivity. Qed.

(* row 2: FlateDecode returned what one `write` + `finish` delivers ([window], observed on the real code:
   32 768 .. 33 800 bytes of longer payloads, and the partial output of truncated streams): whenever that
   is shorter than the payload, the result is Ok of something else *)
Lemma pinned_flate_refuted : forall (window : bytes -> option bytes) e p w,
  window e = Some w -> (List.length w < List.length p)%nat -> flate_decode_pinned window None e <> Ok p.
Proof.
  intros window e p w Hw Hl. unfold flate_decode_pinned. rewrite Hw.
  change (flate_post None w) with (Ok (A := bytes) w). intros E. inversion E; subst. lia.
Qed.
