(* Proofs/XrefStm.v — C13, cross-reference streams: big-endian fields of width <= 4 decode to the
   value written (arithmetic shared with C19: valBE of Proofs/Bin.v), rows and /Index
   subsections decode to the entries written, malformed dictionaries and rows are rejected. *)
From PV Require Import Model.Prim Model.XrefTab Model.XrefStm Spec.XrefEnc Proofs.XrefBase Proofs.Bin.
From Coq Require Import ZifyBool ZifyNat ZifyN.
Ltac Zify.zify_post_hook ::= Z.div_mod_to_equations.

(* ---------- big-endian arithmetic ---------- *)
(* C13_be_roundtrip: val Big (be_bytes w x) = x *)
Theorem valBE_be_bytes w x : (x < 256 ^ N.of_nat w)%N -> val Big (be_bytes w x) = x.
Proof.
  cbn [val]. revert x. induction w as [|w IH]; intros x H.
  - cbn in *. lia.
  - cbn [be_bytes]. rewrite valBE_app. cbn [len List.length]. rewrite IH.
    + change (valBE [(x mod 256)%N]) with (0 * 256 + x mod 256)%N. change (N.of_nat 1) with 1%N. rewrite N.pow_1_r. lia.
    + rewrite Nat2N.inj_succ, N.pow_succ_r' in H. lia.
Qed.

Lemma lor_low a b : (b < 256)%N -> N.lor (a * 256) b = (a * 256 + b)%N.
Proof.
  intros H. assert (L : N.land (a * 256) b = 0%N).
  { apply N.bits_inj. intros n. rewrite N.land_spec, N.bits_0.
    destruct (N.lt_ge_cases n 8) as [Hn|Hn].
    - change 256%N with (2 ^ 8)%N. rewrite N.mul_pow2_bits_low by exact Hn. reflexivity.
    - replace b with (b mod 2 ^ 8)%N by (apply N.mod_small; exact H).
      rewrite N.mod_pow2_bits_high by exact Hn. apply andb_false_r. }
  rewrite <- N.lxor_lor by exact L. symmetry. apply N.add_nocarry_lxor. exact L.
Qed.

Lemma pow256_mono a b : a <= b -> (256 ^ N.of_nat a <= 256 ^ N.of_nat b)%N.
Proof. intros H. apply N.pow_le_mono_r; lia. Qed.

Lemma usize_w_ok l : forall k acc s c r,
  at_cur s c (l ++ r) -> wfb l -> (acc < 256 ^ N.of_nat k)%N -> k + len l <= 8 ->
  usize_w (len l) acc s c = POk (fold_left (fun a b => (a * 256 + b)%N) l acc) (c + len l).
Proof.
  induction l as [|b l IH]; intros k acc s c r H W A K.
  - cbn. f_equal. lia.
  - inversion W as [|? ? Hb Wl]; subst. cbn [len List.length usize_w].
    cbn [app] in H. rewrite (peek_at _ _ _ _ H), (incr_at _ _ _ _ _ H).
    assert (P : (acc * 256 < usize_lim)%N).
    { pose proof (pow256_mono (S k) 8 ltac:(cbn [len List.length] in K; lia)) as Q.
      rewrite Nat2N.inj_succ, N.pow_succ_r' in Q. change (256 ^ N.of_nat 8)%N with usize_lim in Q. lia. }
    rewrite N.mod_small by exact P. rewrite lor_low by exact Hb.
    apply at_cur_cons in H. change (List.length l) with (len l).
    rewrite (IH (S k) (acc * 256 + b)%N s (S c) r H Wl).
    + cbn [fold_left]. f_equal. lia.
    + rewrite Nat2N.inj_succ, N.pow_succ_r'. lia.
    + cbn [len List.length] in K. unfold len. lia.
Qed.

Lemma usize_w_be w x s c r :
  at_cur s c (be_bytes w x ++ r) -> (x < 256 ^ N.of_nat w)%N -> w <= 8 ->
  usize_w w 0 s c = POk x (c + w).
Proof.
  intros H B W. pose proof (usize_w_ok (be_bytes w x) 0 0%N s c r H (be_bytes_wf w x)) as Q.
  rewrite be_bytes_len in Q. rewrite Q; [|cbn; lia|lia].
  change (fold_left (fun a b => (a * 256 + b)%N) (be_bytes w x) 0%N) with (val Big (be_bytes w x)).
  rewrite valBE_be_bytes by exact B. reflexivity.
Qed.

(* every success consumes exactly [w] bytes *)
Lemma usize_w_inv w : forall acc s c v c1, c <= len s -> usize_w w acc s c = POk v c1 -> c1 = c + w /\ c1 <= len s.
Proof.
  induction w as [|w IH]; intros acc s c v c1 L H.
  - cbn in H. inversion H; subst. split; lia.
  - cbn [usize_w] in H. unfold peek in H. destruct (nth_error s c) as [b|] eqn:E; [|discriminate].
    assert (c < len s) by (unfold len; apply nth_error_Some; congruence).
    unfold incr in H. destruct (Nat.ltb_spec c (len s)); [|lia].
    destruct (IH _ s (S c) v c1 ltac:(lia) H) as [-> Q]. split; lia.
Qed.

Lemma usize_w_short w : forall acc s c, c <= len s -> len s < c + w -> exists c', usize_w w acc s c = PErr EEndOfBuffer c'.
Proof.
  induction w as [|w IH]; intros acc s c L H; [lia|].
  cbn [usize_w]. unfold peek. destruct (nth_error s c) as [b|] eqn:E.
  - assert (c < len s) by (unfold len; apply nth_error_Some; congruence).
    unfold incr. destruct (Nat.ltb_spec c (len s)); [|lia]. apply IH; lia.
  - exists c. reflexivity.
Qed.

(* ---------- one row ---------- *)
Definition wide (w0 w1 w2 : nat) : Prop := w0 <= 4 /\ 1 <= w1 <= 4 /\ w2 <= 4.

Lemma pow256_0 x : (x < 256 ^ N.of_nat 0)%N -> x = 0%N.
Proof. cbn. lia. Qed.

Theorem xrow_ok w0 w1 w2 obj r0 s c r :
  wide w0 w1 w2 -> fits w0 w1 w2 r0 -> at_cur s c (render_row w0 w1 w2 r0 ++ r) ->
  xrow (N.of_nat w0, N.of_nat w1, N.of_nat w2) obj s c = POk (row_ent obj r0) (c + (w0 + w1 + w2)).
Proof.
  intros (W0 & W1 & W2) (F0 & F1 & F2) H. unfold render_row in H. rewrite <- !app_assoc in H.
  unfold xrow. rewrite !Nat2N.id.
  assert (T : (row_type r0 <= 2)%N) by (destruct r0; cbn; lia).
  assert (K : forall c1, at_cur s c1 (be_bytes w1 (row_f2 r0) ++ be_bytes w2 (row_f3 r0) ++ r) ->
              forall typ, typ = row_type r0 ->
              match usize_w w1 0 s c1 with
              | POk f2 c2 =>
                if (0 <? N.of_nat w2)%N
                then match usize_w w2 0 s c2 with
                     | POk f3 c3 =>
                       if (typ =? 0)%N then POk (mk_xent obj f3 (XFree f2)) c3
                       else if (typ =? 1)%N then POk (mk_xent obj f3 (XInUse f2)) c3
                       else if (typ =? 2)%N then POk (mk_xent obj 0 (XInStream f2 f3)) c3 else PPanic
                     | PErr e c' => PErr e c'
                     | PPanic => PPanic
                     | PFuel => PFuel
                     end
                else if (typ =? 0)%N then POk (mk_xent obj 0 (XFree f2)) c2
                     else if (typ =? 1)%N then POk (mk_xent obj 0 (XInUse f2)) c2
                     else if (typ =? 2)%N then POk (mk_xent obj 0 (XInStream f2 0)) c2 else PPanic
              | PErr e c' => PErr e c'
              | PPanic => PPanic
              | PFuel => PFuel
              end = POk (row_ent obj r0) (c1 + (w1 + w2))).
  { intros c1 H1 typ ->. rewrite (usize_w_be w1 _ s c1 _ H1 F1) by lia. apply at_cur_app in H1. rewrite be_bytes_len in H1.
    destruct (N.ltb_spec 0 (N.of_nat w2)).
    - rewrite (usize_w_be w2 _ s _ _ H1 F2) by lia. replace (c1 + w1 + w2) with (c1 + (w1 + w2)) by lia.
      destruct r0; reflexivity.
    - assert (w2 = 0) by lia. subst w2. apply pow256_0 in F2. replace (c1 + (w1 + 0)) with (c1 + w1) by lia.
      destruct r0; cbn in F2 |- *; subst; reflexivity. }
  destruct (N.eqb_spec (N.of_nat w0) 0) as [Z|NZ].
  - assert (w0 = 0) by lia. subst w0. cbn [Nat.eqb] in F0. cbn [be_bytes app] in H.
    rewrite (K c H xrefstm_default_type) by (rewrite F0; reflexivity). f_equal.
  - destruct w0 as [|w0]; [lia|].
    assert (P0 : (0 < 256 ^ N.of_nat w0)%N) by (apply N.neq_0_lt_0, N.pow_nonzero; lia).
    rewrite (usize_w_be (S w0) (row_type r0) s c _ H) by (try lia; rewrite Nat2N.inj_succ, N.pow_succ_r'; lia).
    unfold xrefstm_type_max. destruct (N.ltb_spec 2 (row_type r0)); [lia|].
    apply at_cur_app in H. rewrite be_bytes_len in H.
    rewrite (K _ H (row_type r0) eq_refl). f_equal. lia.
Qed.

Lemma render_row_len w0 w1 w2 r0 : len (render_row w0 w1 w2 r0) = w0 + w1 + w2.
Proof.
  unfold render_row, len. rewrite !app_length.
  change (List.length (be_bytes w0 (row_type r0))) with (len (be_bytes w0 (row_type r0))).
  change (List.length (be_bytes w1 (row_f2 r0))) with (len (be_bytes w1 (row_f2 r0))).
  change (List.length (be_bytes w2 (row_f3 r0))) with (len (be_bytes w2 (row_f3 r0))).
  rewrite !be_bytes_len. lia.
Qed.

Lemma render_rows_len w0 w1 w2 l : len (render_rows w0 w1 w2 l) = (w0 + w1 + w2) * len l.
Proof.
  induction l as [|x l IH]; [cbn; lia|]. unfold render_rows in *. cbn [List.map concat]. unfold len in *.
  rewrite app_length, IH. pose proof (render_row_len w0 w1 w2 x) as Q. unfold len in Q. rewrite Q. cbn [List.length]. lia.
Qed.

(* ---------- rows of a subsection, subsections ---------- *)
Lemma xrows_ok w0 w1 w2 l : forall fuel obj s c r,
  wide w0 w1 w2 -> Forall (fits w0 w1 w2) l -> at_cur s c (render_rows w0 w1 w2 l ++ r) ->
  (obj + N.of_nat (len l) <= usize_lim)%N -> len l <= fuel ->
  xrows fuel (N.of_nat w0, N.of_nat w1, N.of_nat w2) obj (N.of_nat (len l)) s c
  = POk (number row_ent obj l) (c + (w0 + w1 + w2) * len l).
Proof.
  induction l as [|x l IH]; intros fuel obj s c r W F H B Fu.
  - destruct fuel; cbn; f_equal; lia.
  - inversion F as [|? ? Fx Fl]; subst. unfold render_rows in H. cbn [List.map concat] in H. rewrite <- app_assoc in H.
    destruct fuel as [|fuel]; [cbn in Fu; lia|]. cbn [len List.length] in *.
    cbn [xrows]. destruct (N.eqb_spec (N.of_nat (S (List.length l))) 0); [lia|].
    destruct (N.leb_spec usize_lim obj); [lia|].
    rewrite (xrow_ok w0 w1 w2 obj x s c _ W Fx H). apply at_cur_app in H. rewrite render_row_len in H.
    replace (N.of_nat (S (List.length l)) - 1)%N with (N.of_nat (len l)) by (unfold len; lia).
    rewrite (IH fuel (obj + 1)%N s _ r W Fl H) by (unfold len; lia).
    cbn [number]. f_equal. unfold len. lia.
Qed.

Lemma render_parts_cons w0 w1 w2 x p :
  render_parts w0 w1 w2 (x :: p) = render_rows w0 w1 w2 (snd x) ++ render_parts w0 w1 w2 p.
Proof. reflexivity. Qed.

Definition parts_pairs (p : list spart) : list (N * N) := List.map (fun x => (fst x, N.of_nat (len (snd x)))) p.
Definition parts_rows (p : list spart) : nat := fold_right (fun x a => len (snd x) + a) 0 p.

Lemma xsections_ok w0 w1 w2 p : forall s c r,
  wide w0 w1 w2 -> wf_parts w0 w1 w2 p -> at_cur s c (render_parts w0 w1 w2 p ++ r) ->
  xsections (N.of_nat w0, N.of_nat w1, N.of_nat w2) (parts_pairs p) s c
  = POk (parts_ents p) (c + (w0 + w1 + w2) * parts_rows p).
Proof.
  induction p as [|x p IH]; intros s c r W F H.
  - cbn. f_equal. lia.
  - inversion F as [|? ? (B1 & B2 & Fx) Fp]; subst. rewrite render_parts_cons, <- app_assoc in H.
    cbn [parts_pairs List.map xsections].
    pose proof (at_cur_len _ _ _ H) as SL. unfold len in SL. rewrite app_length in SL.
    pose proof (render_rows_len w0 w1 w2 (snd x)) as RL. unfold len in RL. rewrite RL in SL.
    destruct W as (W0 & W1 & W2).
    rewrite (xrows_ok w0 w1 w2 (snd x) (S (len s)) (fst x) s c _ (conj W0 (conj W1 W2)) Fx H).
    + apply at_cur_app in H. rewrite render_rows_len in H.
      change (List.map (fun x0 => (fst x0, N.of_nat (len (snd x0)))) p) with (parts_pairs p).
      rewrite (IH s _ r (conj W0 (conj W1 W2)) Fp H). cbn [parts_ents flat_map parts_rows fold_right]. f_equal. rewrite Nat.mul_add_distr_l. unfold parts_rows. lia.
    + unfold usize_lim, i64_lim in *. lia.
    + unfold len. nia.
Qed.

(* ---------- the dictionary ---------- *)
Lemma index_pairs_parts p :
  Forall (fun x => (fst x < i64_lim)%N /\ (N.of_nat (len (snd x)) < i64_lim)%N) p ->
  index_pairs (parts_index p) = Ok (parts_pairs p).
Proof.
  intros F. induction F as [|x p (B1 & B2) _ IH]; [reflexivity|].
  cbn [parts_index flat_map app index_pairs]. unfold int_is_usize.
  destruct (Z.leb_spec 0 (Z.of_N (fst x))); [|lia]. destruct (Z.leb_spec 0 (Z.of_N (N.of_nat (len (snd x))))); [|lia].
  cbn [negb]. change (flat_map _ p) with (parts_index p). rewrite IH. rewrite !N2Z.id. reflexivity.
Qed.

Lemma parts_index_even p : Nat.modulo (len (parts_index p)) 2 = 0.
Proof.
  induction p as [|x p IH]; [reflexivity|]. cbn [parts_index flat_map app len List.length].
  change (List.length (flat_map _ p)) with (len (parts_index p)).
  replace (S (S (len (parts_index p)))) with (len (parts_index p) + 1 * 2) by lia.
  rewrite Nat.mod_add by lia. exact IH.
Qed.

Lemma get_dict_info_ok d size index w0 w1 w2 :
  wide w0 w1 w2 ->
  xref_dict_ok d size (match index with Some p => Some (parts_index p) | None => None end) w0 w1 w2 ->
  match index with
  | Some p => Forall (fun x => (fst x < i64_lim)%N /\ (N.of_nat (len (snd x)) < i64_lim)%N) p
  | None => True
  end ->
  get_dict_info d = Ok (mk_xinfo size (match index with Some p => Some (parts_pairs p) | None => None end)
                                 (N.of_nat w0, N.of_nat w1, N.of_nat w2) []).
Proof.
  intros (W0 & W1 & W2) (DT & DS & BS & DW & DI & DF) FI. unfold get_dict_info.
  unfold get_name at 1. rewrite DT. change (bytes_eqb (B "XRef") (B "XRef")) with true. cbn [negb].
  unfold get_usize. rewrite DS. unfold int_is_usize. destruct (Z.leb_spec 0 (Z.of_N size)); [|lia].
  assert (EI : match get_array d (B "Index") with
               | Some i => if negb (Nat.eqb (Nat.modulo (len i) 2) 0) then Err EGuard
                           else match index_pairs i with Ok l => Ok (Some l) | Err k => Err k | Panic => Panic | Fuel => Fuel end
               | None => Ok None
               end = Ok (match index with Some p => Some (parts_pairs p) | None => None end)).
  { unfold get_array. destruct index as [p|].
    - rewrite DI. rewrite parts_index_even. cbn [Nat.eqb negb].
      rewrite (index_pairs_parts p FI). reflexivity.
    - destruct (dict_get d (B "Index")) as [[]|]; try reflexivity. contradiction. }
  rewrite EI. unfold get_array at 1. rewrite DW. cbn [len List.length Nat.eqb negb w_fields].
  unfold int_is_usize, xrefstm_width_max.
  destruct (Z.leb_spec 0 (Z.of_nat w0)); [|lia]. destruct (Z.leb_spec 0 (Z.of_nat w1)); [|lia].
  destruct (Z.leb_spec 0 (Z.of_nat w2)); [|lia]. cbn [negb].
  destruct (N.ltb_spec 4 (Z.to_N (Z.of_nat w0))); [lia|]. destruct (N.ltb_spec 4 (Z.to_N (Z.of_nat w1))); [lia|].
  destruct (N.ltb_spec 4 (Z.to_N (Z.of_nat w2))); [lia|].
  destruct (N.eqb_spec (Z.to_N (Z.of_nat w1)) 0); [lia|].
  unfold stream_filters, get_name, get_array. rewrite DF.
  rewrite N2Z.id. replace (Z.to_N (Z.of_nat w0)) with (N.of_nat w0) by lia.
  replace (Z.to_N (Z.of_nat w1)) with (N.of_nat w1) by lia. replace (Z.to_N (Z.of_nat w2)) with (N.of_nat w2) by lia.
  reflexivity.
Qed.

(* ---------- the stream ---------- *)
(* C13_stream_rt: explicit /Index partition; any bytes may follow the rows *)
Theorem xrefstm_rt d size w0 w1 w2 p junk trailing dec :
  wide w0 w1 w2 -> wf_parts w0 w1 w2 p ->
  xref_dict_ok d size (Some (parts_index p)) w0 w1 w2 ->
  let content := junk ++ render_parts w0 w1 w2 p ++ trailing in
  let e := len junk + (w0 + w1 + w2) * parts_rows p in
  xrefstm_parse false d content dec (len junk) = XSOk (parts_ents p) (len junk) e e.
Proof.
  intros W F D content e. unfold xrefstm_parse.
  rewrite (get_dict_info_ok d size (Some p) w0 w1 w2 W D).
  2:{ eapply Forall_impl; [|exact F]. intros x (B1 & B2 & _). split; assumption. }
  cbn [xi_filters forallb negb xi_index xi_w]. unfold parse_xstream. cbn [xi_index xi_w].
  rewrite (xsections_ok w0 w1 w2 p content (len junk) trailing W F) by apply at_cur_start. reflexivity.
Qed.

(* implicit subsection [0 Size] *)
Theorem xrefstm_rt_implicit d w0 w1 w2 rows junk trailing dec :
  wide w0 w1 w2 -> Forall (fits w0 w1 w2) rows -> (N.of_nat (len rows) < i64_lim)%N ->
  xref_dict_ok d (N.of_nat (len rows)) None w0 w1 w2 ->
  let content := junk ++ render_rows w0 w1 w2 rows ++ trailing in
  let e := len junk + (w0 + w1 + w2) * len rows in
  xrefstm_parse false d content dec (len junk) = XSOk (number row_ent 0 rows) (len junk) e e.
Proof.
  intros W F B D content e. unfold xrefstm_parse.
  rewrite (get_dict_info_ok d _ None w0 w1 w2 W D I).
  cbn [xi_filters forallb negb xi_index xi_w]. unfold parse_xstream. cbn [xi_index xi_w xi_size].
  assert (Fp : wf_parts w0 w1 w2 [(0%N, rows)]).
  { constructor; [|constructor]. cbn [fst snd]. unfold i64_lim in *. repeat split; try lia. exact F. }
  pose proof (xsections_ok w0 w1 w2 [(0%N, rows)] content (len junk) trailing W Fp) as Q.
  cbn [parts_pairs List.map fst snd parts_ents flat_map parts_rows fold_right] in Q.
  rewrite Q.
  - rewrite app_nil_r, Nat.add_0_r. reflexivity.
  - unfold render_parts. cbn [List.map concat snd]. rewrite app_nil_r. apply at_cur_start.
Qed.

(* ---------- rejections: dictionary ---------- *)
Lemma w_fields_len l l' : w_fields l = Ok l' -> len l' = len l.
Proof.
  revert l'. induction l as [|o l IH]; intros l' H; cbn in H.
  - inversion H. reflexivity.
  - destruct o; try discriminate. destruct (negb (int_is_usize z)); [discriminate|].
    destruct (xrefstm_width_max <? Z.to_N z)%N; [discriminate|].
    destruct (w_fields l) as [l0| | |]; try discriminate. inversion H; subst. cbn [len List.length].
    f_equal. apply IH. reflexivity.
Qed.

Lemma w_fields_guard l : match w_fields l with Ok _ | Err EGuard => True | _ => False end.
Proof.
  induction l as [|o l IH]; cbn; [exact I|]. destruct o; try exact I.
  destruct (negb (int_is_usize z)); [exact I|]. destruct (xrefstm_width_max <? Z.to_N z)%N; [exact I|].
  destruct (w_fields l) as [|[]| |]; try exact I; contradiction.
Qed.

Lemma index_pairs_guard l : forall n, len l <= n -> match index_pairs l with Ok _ | Err EGuard => True | _ => False end.
Proof.
  intros n. revert l. induction n as [|n IH]; intros l L.
  - destruct l; [exact I|cbn in L; lia].
  - destruct l as [|a [|b l]]; try exact I. cbn [index_pairs]. destruct a; try exact I. destruct b; try exact I.
    destruct (negb (int_is_usize z)); [exact I|]. destruct (negb (int_is_usize z0)); [exact I|].
    specialize (IH l ltac:(cbn in L; unfold len in *; lia)).
    destruct (index_pairs l) as [|[]| |]; try exact I; contradiction.
Qed.

Lemma filters_zip_guard fa : forall da, match filters_zip fa da with Ok _ | Err EGuard => True | _ => False end.
Proof.
  induction fa as [|f fa IH]; intros da; [exact I|]. destruct da as [|p da]; [exact I|]. cbn [filters_zip].
  destruct f; try exact I; destruct p; try exact I; specialize (IH da); destruct (filters_zip fa da) as [|[]| |]; try exact I; contradiction.
Qed.

Lemma filters_names_guard fa : match filters_names fa with Ok _ | Err EGuard => True | _ => False end.
Proof.
  induction fa as [|f fa IH]; [exact I|]. cbn [filters_names]. destruct f; try exact I.
  destruct (filters_names fa) as [|[]| |]; try exact I; contradiction.
Qed.

Lemma stream_filters_guard d : match stream_filters d with Ok _ | Err EGuard => True | _ => False end.
Proof.
  unfold stream_filters. destruct (get_name d (B "Filter")).
  - destruct (get_dict d (B "DecodeParms")); [exact I|]. destruct (get_array d (B "DecodeParms")); exact I.
  - destruct (get_array d (B "Filter")) as [fa|]; [|exact I].
    destruct (get_array d (B "DecodeParms")) as [da|]; [|apply filters_names_guard].
    destruct (negb (Nat.eqb (len da) (len fa))); [exact I|apply filters_zip_guard].
Qed.

(* what an accepted dictionary looks like *)
Theorem get_dict_info_inv d m : get_dict_info d = Ok m ->
  get_name d (B "Type") = Some (B "XRef") /\
  get_usize d (B "Size") = Some (xi_size m) /\
  (forall i, get_array d (B "Index") = Some i -> Nat.modulo (len i) 2 = 0 /\ exists l, index_pairs i = Ok l /\ xi_index m = Some l) /\
  (exists a b c, get_array d (B "W") = Some [OInt a; OInt b; OInt c] /\
     (0 <= a <= 4)%Z /\ (1 <= b <= 4)%Z /\ (0 <= c <= 4)%Z /\ xi_w m = (Z.to_N a, Z.to_N b, Z.to_N c)) /\
  stream_filters d = Ok (xi_filters m).
Proof.
  unfold get_dict_info. intros H.
  destruct (get_name d (B "Type")) as [t|]; [|discriminate].
  destruct (bytes_eqb t (B "XRef")) eqn:ET; cbn [negb] in H; [|discriminate].
  apply bytes_eqb_eq in ET. subst t.
  destruct (get_usize d (B "Size")) as [size|]; [|discriminate].
  destruct (get_array d (B "Index")) as [i|] eqn:EI.
  - destruct (Nat.eqb_spec (Nat.modulo (len i) 2) 0) as [Ev|]; cbn [negb] in H; [|discriminate].
    destruct (index_pairs i) as [l| | |] eqn:EP; try discriminate.
    destruct (get_array d (B "W")) as [w|]; [|discriminate].
    destruct (Nat.eqb_spec (len w) 3) as [L3|]; cbn [negb] in H; [|discriminate].
    destruct w as [|a [|b [|c [|]]]]; try discriminate L3.
    cbn [w_fields] in H. destruct a; try discriminate. destruct (Z.leb_spec 0 z); cbn [negb int_is_usize] in H.
    2:{ unfold int_is_usize in H. destruct (Z.leb_spec 0 z); [lia|discriminate]. }
    unfold int_is_usize in H. destruct (Z.leb_spec 0 z); [|lia]. cbn [negb] in H.
    unfold xrefstm_width_max in H. destruct (N.ltb_spec 4 (Z.to_N z)); [discriminate|].
    destruct b; try discriminate. destruct (Z.leb_spec 0 z0); cbn [negb] in H; [|discriminate].
    destruct (N.ltb_spec 4 (Z.to_N z0)); [discriminate|].
    destruct c; try discriminate. destruct (Z.leb_spec 0 z1); cbn [negb] in H; [|discriminate].
    destruct (N.ltb_spec 4 (Z.to_N z1)); [discriminate|].
    destruct (N.eqb_spec (Z.to_N z0) 0); [discriminate|].
    destruct (stream_filters d) as [fl| | |]; try discriminate. inversion H; subst m. cbn.
    split; [reflexivity|]. split; [reflexivity|]. split; [|split; [|reflexivity]].
    + intros i0 Hi. inversion Hi; subst. split; [exact Ev|]. exists l. split; [exact EP|reflexivity].
    + exists z, z0, z1. repeat split; lia.
  - destruct (get_array d (B "W")) as [w|]; [|discriminate].
    destruct (Nat.eqb_spec (len w) 3) as [L3|]; cbn [negb] in H; [|discriminate].
    destruct w as [|a [|b [|c [|]]]]; try discriminate L3.
    cbn [w_fields] in H. destruct a; try discriminate.
    unfold int_is_usize in H. destruct (Z.leb_spec 0 z); cbn [negb] in H; [|discriminate].
    unfold xrefstm_width_max in H. destruct (N.ltb_spec 4 (Z.to_N z)); [discriminate|].
    destruct b; try discriminate. destruct (Z.leb_spec 0 z0); cbn [negb] in H; [|discriminate].
    destruct (N.ltb_spec 4 (Z.to_N z0)); [discriminate|].
    destruct c; try discriminate. destruct (Z.leb_spec 0 z1); cbn [negb] in H; [|discriminate].
    destruct (N.ltb_spec 4 (Z.to_N z1)); [discriminate|].
    destruct (N.eqb_spec (Z.to_N z0) 0); [discriminate|].
    destruct (stream_filters d) as [fl| | |]; try discriminate. inversion H; subst m. cbn.
    split; [reflexivity|]. split; [reflexivity|]. split; [|split; [|reflexivity]].
    + intros i0 Hi. discriminate.
    + exists z, z0, z1. repeat split; lia.
Qed.

(* the validation never panics and its only error kind is GuardError *)
Theorem get_dict_info_guard d : (exists m, get_dict_info d = Ok m) \/ get_dict_info d = Err EGuard.
Proof.
  unfold get_dict_info.
  destruct (get_name d (B "Type")) as [t|]; [|right; reflexivity].
  destruct (negb (bytes_eqb t (B "XRef"))); [right; reflexivity|].
  destruct (get_usize d (B "Size")) as [size|]; [|right; reflexivity].
  assert (K : forall (ix : option (list (N * N))),
    (exists m, match get_array d (B "W") with
      | Some w => if negb (len w =? 3) then Err EGuard
                  else match w_fields w with
                       | Ok [w0; w1; w2] => if (w1 =? 0)%N then Err EGuard
                            else match stream_filters d with
                                 | Ok fl => Ok (mk_xinfo size ix (w0, w1, w2) fl)
                                 | Err k => Err k | Panic => Panic | Fuel => Fuel end
                       | Ok _ => Panic | Err k => Err k | Panic => Panic | Fuel => Fuel end
      | None => Err EGuard end = Ok m) \/
    match get_array d (B "W") with
      | Some w => if negb (len w =? 3) then Err EGuard
                  else match w_fields w with
                       | Ok [w0; w1; w2] => if (w1 =? 0)%N then Err EGuard
                            else match stream_filters d with
                                 | Ok fl => Ok (mk_xinfo size ix (w0, w1, w2) fl)
                                 | Err k => Err k | Panic => Panic | Fuel => Fuel end
                       | Ok _ => Panic | Err k => Err k | Panic => Panic | Fuel => Fuel end
      | None => Err EGuard end = Err EGuard).
  { intros ix. destruct (get_array d (B "W")) as [w|]; [|right; reflexivity].
    destruct (Nat.eqb_spec (len w) 3) as [L3|]; cbn [negb]; [|right; reflexivity].
    pose proof (w_fields_guard w) as G. pose proof (w_fields_len w) as WL.
    destruct (w_fields w) as [l|[]| |]; try contradiction; [|right; reflexivity].
    specialize (WL l eq_refl). rewrite L3 in WL. destruct l as [|w0 [|w1 [|w2 [|]]]]; try discriminate WL.
    destruct (N.eqb w1 0); [right; reflexivity|].
    pose proof (stream_filters_guard d) as SG. destruct (stream_filters d) as [fl|[]| |]; try contradiction.
    - left. eexists. reflexivity.
    - right. reflexivity. }
  destruct (get_array d (B "Index")) as [i|]; [|apply K].
  destruct (negb (Nat.eqb (Nat.modulo (len i) 2) 0)); [right; reflexivity|].
  pose proof (index_pairs_guard i (len i) (le_n _)) as G.
  destruct (index_pairs i) as [l|[]| |]; try contradiction; [apply K|right; reflexivity].
Qed.

(* C13_stream_rejects, dictionary part: missing /W, missing or invalid /Size, odd-length /Index,
   a width above 4, second width zero: GuardError before any byte of the stream is read *)
Theorem xrefstm_rejects_dict enc d content dec c :
  ( get_array d (B "W") = None
    \/ get_usize d (B "Size") = None
    \/ (exists i, get_array d (B "Index") = Some i /\ Nat.modulo (len i) 2 <> 0)
    \/ (exists a b cc, get_array d (B "W") = Some [OInt a; OInt b; OInt cc] /\ (4 < a \/ 4 < b \/ 4 < cc \/ b = 0)%Z)
    \/ (exists w, get_array d (B "W") = Some w /\ len w <> 3) ) ->
  xrefstm_parse enc d content dec c = XSErr EGuard c.
Proof.
  intros Bad. unfold xrefstm_parse. destruct (get_dict_info_guard d) as [[m E]|E]; rewrite E; [|reflexivity].
  exfalso. destruct (get_dict_info_inv d m E) as (_ & ES & EI & (a & b & cc & EW & Ba & Bb & Bc & _) & _).
  destruct Bad as [B|[B|[(i & Hi & Odd)|[(a' & b' & c' & HW & Bw)|(w & HW & Lw)]]]].
  - congruence.
  - congruence.
  - destruct (EI i Hi) as [Ev _]. contradiction.
  - rewrite EW in HW. inversion HW; subst. lia.
  - rewrite EW in HW. inversion HW; subst. apply Lw. reflexivity.
Qed.

(* ---------- rejections: rows ---------- *)
Lemma xrow_bad_type w0 w1 w2 obj t s c r :
  1 <= w0 <= 4 -> at_cur s c (be_bytes w0 t ++ r) -> (t < 256 ^ N.of_nat w0)%N -> (2 < t)%N ->
  xrow (N.of_nat w0, N.of_nat w1, N.of_nat w2) obj s c = PErr EGuard (c + w0).
Proof.
  intros W H B T. unfold xrow. destruct (N.eqb_spec (N.of_nat w0) 0); [lia|]. rewrite Nat2N.id.
  rewrite (usize_w_be w0 t s c r H B) by lia. unfold xrefstm_type_max. destruct (N.ltb_spec 2 t); [reflexivity|lia].
Qed.

(* a success consumes exactly w0 + w1 + w2 bytes, all inside the buffer *)
Lemma xrow_inv w0 w1 w2 obj s c e c1 :
  c <= len s -> xrow (N.of_nat w0, N.of_nat w1, N.of_nat w2) obj s c = POk e c1 ->
  c1 = c + (w0 + w1 + w2) /\ c1 <= len s.
Proof.
  intros L H. unfold xrow in H. rewrite !Nat2N.id in H.
  assert (K : forall typ ca, ca <= len s ->
     match usize_w w1 0 s ca with
     | POk f2 c2 =>
       if (0 <? N.of_nat w2)%N
       then match usize_w w2 0 s c2 with
            | POk f3 c3 =>
              if (typ =? 0)%N then POk (mk_xent obj f3 (XFree f2)) c3
              else if (typ =? 1)%N then POk (mk_xent obj f3 (XInUse f2)) c3
              else if (typ =? 2)%N then POk (mk_xent obj 0 (XInStream f2 f3)) c3 else PPanic
            | PErr e c' => PErr e c' | PPanic => PPanic | PFuel => PFuel
            end
       else if (typ =? 0)%N then POk (mk_xent obj 0 (XFree f2)) c2
            else if (typ =? 1)%N then POk (mk_xent obj 0 (XInUse f2)) c2
            else if (typ =? 2)%N then POk (mk_xent obj 0 (XInStream f2 0)) c2 else PPanic
     | PErr e c' => PErr e c' | PPanic => PPanic | PFuel => PFuel
     end = POk e c1 -> c1 = ca + (w1 + w2) /\ c1 <= len s).
  { intros typ ca La K. destruct (usize_w w1 0 s ca) as [f2 c2| | |] eqn:E2; try discriminate.
    destruct (usize_w_inv _ _ _ _ _ _ La E2) as [-> L2].
    destruct (N.ltb_spec 0 (N.of_nat w2)).
    - destruct (usize_w w2 0 s (ca + w1)) as [f3 c3| | |] eqn:E3; try discriminate.
      destruct (usize_w_inv _ _ _ _ _ _ L2 E3) as [-> L3].
      destruct (typ =? 0)%N; [inversion K; subst; lia|]. destruct (typ =? 1)%N; [inversion K; subst; lia|].
      destruct (typ =? 2)%N; [inversion K; subst; lia|discriminate].
    - assert (w2 = 0) by lia. subst w2.
      destruct (typ =? 0)%N; [inversion K; subst; lia|]. destruct (typ =? 1)%N; [inversion K; subst; lia|].
      destruct (typ =? 2)%N; [inversion K; subst; lia|discriminate]. }
  destruct (N.eqb_spec (N.of_nat w0) 0).
  - assert (w0 = 0) by lia. subst w0. destruct (K xrefstm_default_type c L H). split; lia.
  - destruct (usize_w w0 0 s c) as [f c0| | |] eqn:E0; try discriminate.
    destruct (usize_w_inv _ _ _ _ _ _ L E0) as [-> L0].
    destruct (xrefstm_type_max <? f)%N; [discriminate|]. destruct (K f _ L0 H). split; lia.
Qed.

Lemma xrows_inv w0 w1 w2 : forall fuel obj cnt s c l c1,
  c <= len s -> xrows fuel (N.of_nat w0, N.of_nat w1, N.of_nat w2) obj cnt s c = POk l c1 ->
  c1 = c + (w0 + w1 + w2) * N.to_nat cnt /\ c1 <= len s.
Proof.
  induction fuel as [|fuel IH]; intros obj cnt s c l c1 L H; cbn [xrows] in H.
  - destruct (N.eqb_spec cnt 0); [|discriminate]. inversion H; subst. split; lia.
  - destruct (N.eqb_spec cnt 0); [inversion H; subst; split; lia|].
    destruct (usize_lim <=? obj)%N; [discriminate|].
    destruct (xrow _ obj s c) as [e c2| | |] eqn:E; try discriminate.
    destruct (xrow_inv _ _ _ _ _ _ _ _ L E) as [-> L2].
    destruct (xrows fuel _ (obj + 1) (cnt - 1) s _) as [l' c3| | |] eqn:E2; try discriminate.
    destruct (IH _ _ _ _ _ _ L2 E2) as [-> L3]. inversion H; subst. split; [|lia].
    replace (N.to_nat cnt) with (S (N.to_nat (cnt - 1))) by lia. lia.
Qed.

Fixpoint index_rows (ix : list (N * N)) : nat :=
  match ix with [] => 0 | (_, cnt) :: r => N.to_nat cnt + index_rows r end.

Lemma xsections_inv w0 w1 w2 ix : forall s c l c1,
  c <= len s -> xsections (N.of_nat w0, N.of_nat w1, N.of_nat w2) ix s c = POk l c1 ->
  c1 = c + (w0 + w1 + w2) * index_rows ix /\ c1 <= len s.
Proof.
  induction ix as [|[st cnt] ix IH]; intros s c l c1 L H; cbn [xsections] in H.
  - inversion H; subst. cbn. split; lia.
  - destruct (xrows _ _ st cnt s c) as [l0 c2| | |] eqn:E; try discriminate.
    destruct (xrows_inv _ _ _ _ _ _ _ _ _ _ L E) as [-> L2].
    destruct (xsections _ ix s _) as [l1 c3| | |] eqn:E2; try discriminate.
    destruct (IH _ _ _ _ L2 E2) as [-> L3]. inversion H; subst. cbn [index_rows]. split; [lia|lia].
Qed.

(* C13_stream_rejects, truncated rows: if the stream is accepted, all declared rows are present *)
Theorem xrefstm_accepts_only_complete d content dec c l a b cur m :
  c <= len content -> get_dict_info d = Ok m -> xi_filters m = [] ->
  xrefstm_parse false d content dec c = XSOk l a b cur ->
  let '(w0, w1, w2) := xi_w m in
  let ix := match xi_index m with Some i => i | None => [(0%N, xi_size m)] end in
  c + (N.to_nat w0 + N.to_nat w1 + N.to_nat w2) * index_rows ix <= len content.
Proof.
  intros L E F H. unfold xrefstm_parse in H. rewrite E, F in H. cbn [forallb negb] in H.
  unfold parse_xstream in H. destruct (xi_w m) as [[w0 w1] w2] eqn:EW.
  destruct (xsections _ _ content c) as [l0 c1| | |] eqn:ES; try discriminate.
  rewrite <- (N2Nat.id w0), <- (N2Nat.id w1), <- (N2Nat.id w2) in ES.
  destruct (xsections_inv _ _ _ _ _ _ _ _ L ES) as [-> L1]. exact L1.
Qed.

(* a row whose type field is above 2, after any number of good rows of the (single, implicit or
   explicit) subsection: the whole stream is rejected with GuardError *)
Lemma xrows_bad_type w0 w1 w2 good : forall fuel obj cnt s c t r,
  wide w0 w1 w2 -> 1 <= w0 -> Forall (fits w0 w1 w2) good ->
  at_cur s c (render_rows w0 w1 w2 good ++ be_bytes w0 t ++ r) ->
  (t < 256 ^ N.of_nat w0)%N -> (2 < t)%N ->
  (N.of_nat (len good) < cnt)%N -> (obj + cnt <= usize_lim)%N -> len good < fuel ->
  xrows fuel (N.of_nat w0, N.of_nat w1, N.of_nat w2) obj cnt s c
  = PErr EGuard (c + (w0 + w1 + w2) * len good + w0).
Proof.
  induction good as [|x good IH]; intros fuel obj cnt s c t r W W1 F H B T C U Fu.
  - destruct fuel as [|fuel]; [cbn in Fu; lia|]. cbn [xrows]. cbn [len List.length] in *.
    destruct (N.eqb_spec cnt 0); [lia|]. destruct (N.leb_spec usize_lim obj); [lia|].
    cbn [render_rows List.map concat app] in H.
    rewrite (xrow_bad_type w0 w1 w2 obj t s c r) by (try assumption; destruct W; lia). f_equal. lia.
  - inversion F as [|? ? Fx Fl]; subst. unfold render_rows in H. cbn [List.map concat] in H. rewrite <- app_assoc in H.
    destruct fuel as [|fuel]; [cbn in Fu; lia|]. cbn [xrows]. cbn [len List.length] in *.
    destruct (N.eqb_spec cnt 0); [lia|]. destruct (N.leb_spec usize_lim obj); [lia|].
    rewrite (xrow_ok w0 w1 w2 obj x s c _ W Fx H). apply at_cur_app in H. rewrite render_row_len in H.
    rewrite (IH fuel (obj + 1)%N (cnt - 1)%N s _ t r W W1 Fl H B T) by (unfold len in *; lia).
    f_equal. unfold len. lia.
Qed.

Theorem xrefstm_rejects_type d w0 w1 w2 good t rest dec :
  wide w0 w1 w2 -> 1 <= w0 -> Forall (fits w0 w1 w2) good ->
  (t < 256 ^ N.of_nat w0)%N -> (2 < t)%N ->
  forall size, (N.of_nat (len good) < size)%N ->
  xref_dict_ok d size None w0 w1 w2 ->
  let content := render_rows w0 w1 w2 good ++ be_bytes w0 t ++ rest in
  xrefstm_parse false d content dec 0 = XSErr EGuard ((w0 + w1 + w2) * len good + w0).
Proof.
  intros W W1 F B T size C D content. unfold xrefstm_parse.
  rewrite (get_dict_info_ok d _ None w0 w1 w2 W D I).
  cbn [xi_filters forallb negb xi_index xi_w]. unfold parse_xstream. cbn [xi_index xi_w xi_size xsections].
  destruct D as (_ & _ & BS & _).
  assert (H : at_cur content 0 (render_rows w0 w1 w2 good ++ be_bytes w0 t ++ rest)) by (apply (at_cur_start [])).
  pose proof (at_cur_len _ _ _ H) as SL. unfold len in SL. rewrite app_length in SL.
  pose proof (render_rows_len w0 w1 w2 good) as RL. unfold len in RL. rewrite RL in SL.
  rewrite (xrows_bad_type w0 w1 w2 good (S (len content)) 0%N size content 0 t rest W W1 F H B T C).
  - reflexivity.
  - unfold usize_lim, i64_lim in *. lia.
  - destruct W as (? & ? & ?). unfold len. nia.
Qed.
