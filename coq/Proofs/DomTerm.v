(* Proofs/DomTerm.v — C11_terminates: no converter runs out of fuel, and the queue loop needs at most
   [S (len c)] iterations (each defined id is queued at most once). *)
From PV Require Import Model.Dom Spec.DomSpec Proofs.DomFollow Proofs.DomInv.

(* ---------- the converters below the loop never report fuel ---------- *)
Lemma to_page_content_fuel c o : to_page_content c o <> OFuel.
Proof.
  unfold to_page_content. destruct o; try (cbn; discriminate).
  destruct (follow c (ORef num gen)) eqn:F; try discriminate.
  - destruct o; cbn; discriminate.
  - exfalso. eapply follow_fuel; eauto.
Qed.

Lemma contents_loop_fuel c : forall a v, contents_loop c a v <> OFuel.
Proof.
  induction a as [|o a IH]; intros v; cbn [contents_loop]; [discriminate|].
  destruct (to_page_content c o) eqn:E; try discriminate; [apply IH|].
  exfalso. eapply to_page_content_fuel; eauto.
Qed.

Lemma page_contents_obj_fuel c o : page_contents_obj c o <> OFuel.
Proof. destruct o; cbn; try discriminate. apply contents_loop_fuel. Qed.

Lemma to_page_contents_fuel c o : to_page_contents c o <> OFuel.
Proof.
  unfold to_page_contents. destruct o; try apply page_contents_obj_fuel.
  destruct (follow c (ORef num gen)) eqn:F; try discriminate.
  - apply page_contents_obj_fuel.
  - exfalso. eapply follow_fuel; eauto.
Qed.

Lemma encoding_obj_fuel o : encoding_obj o <> DFuel.
Proof.
  destruct o; cbn; try discriminate.
  destruct (utf8_valid s); [|discriminate].
  repeat match goal with |- context [if ?b then _ else _] => destruct b end; discriminate.
Qed.

Lemma to_encoding_fuel c o : to_encoding c o <> DFuel.
Proof.
  unfold to_encoding. destruct o; try apply encoding_obj_fuel.
  destruct (follow c (ORef num gen)) eqn:F; try discriminate.
  - apply encoding_obj_fuel.
  - exfalso. eapply follow_fuel; eauto.
Qed.

Lemma to_font_descriptor_fuel d : to_font_descriptor d <> DFuel.
Proof.
  unfold to_font_descriptor. destruct (get_name d (B "FontName")); [|discriminate].
  destruct (get_usize d (B "Flags")); discriminate.
Qed.

Lemma to_font_dict_fuel c d : to_font_dict c d <> DFuel.
Proof.
  unfold to_font_dict.
  destruct (get_name d (B "BaseFont")); [|discriminate].
  destruct (get_name d (B "Subtype")); [|discriminate].
  assert (D : forall dd, match to_font_descriptor dd with DOk e => DOk (Some e) | DErr e => DErr e | DFuel => DFuel end
                         <> (DFuel : dres (option bool))).
  { intros dd. destruct (to_font_descriptor dd) eqn:E; try discriminate.
    exfalso. eapply to_font_descriptor_fuel; eauto. }
  match goal with |- match ?x with _ => _ end <> _ => assert (X : x <> DFuel) end.
  { destruct (dget d (B "FontDescriptor")) as [o|]; [|discriminate].
    destruct o; try discriminate; try apply D.
    destruct (lookup c (num, gen)) as [o|]; [|discriminate].
    destruct o; try discriminate. apply D. }
  match goal with |- match ?x with _ => _ end <> _ => destruct x end; try discriminate; try congruence.
  destruct (dget d (B "Encoding")) as [o|]; [|discriminate].
  destruct (to_encoding c o) eqn:E; try discriminate. exfalso. eapply to_encoding_fuel; eauto.
Qed.

Lemma obj_to_font_dict_fuel c o : obj_to_font_dict c o <> DFuel.
Proof. destruct o; cbn; try discriminate. apply to_font_dict_fuel. Qed.

Lemma fonts_loop_fuel c : forall ents fonts, fonts_loop c ents fonts <> DFuel.
Proof.
  induction ents as [|[frn fr] rest IH]; intros fonts; cbn [fonts_loop]; [discriminate|].
  destruct fr; try discriminate.
  - destruct (lookup c (num, gen)) as [o|]; [|discriminate].
    destruct (obj_to_font_dict c o) eqn:E; try discriminate; [apply IH|].
    exfalso. eapply obj_to_font_dict_fuel; eauto.
  - destruct (to_font_dict c l) eqn:E; try discriminate; [apply IH|].
    exfalso. eapply to_font_dict_fuel; eauto.
Qed.

Lemma font_value_obj_fuel c o : font_value_obj c o <> DFuel.
Proof. destruct o; cbn; try discriminate. apply fonts_loop_fuel. Qed.

Lemma to_resource_font_value_fuel c o : to_resource_font_value c o <> DFuel.
Proof.
  unfold to_resource_font_value. destruct o; try apply font_value_obj_fuel.
  destruct (follow c (ORef num gen)) eqn:F; try discriminate.
  - apply font_value_obj_fuel.
  - exfalso. eapply follow_fuel; eauto.
Qed.

Lemma resources_loop_fuel c : forall ents fonts, resources_loop c ents fonts <> DFuel.
Proof.
  induction ents as [|[k v] rest IH]; intros fonts; cbn [resources_loop]; [discriminate|].
  destruct (bytes_eqb k (B "Font")); [|apply IH].
  destruct (to_resource_font_value c v) eqn:E; try discriminate; [apply IH|].
  exfalso. eapply to_resource_font_value_fuel; eauto.
Qed.

Lemma to_resources_fuel c rd : to_resources c rd <> DFuel.
Proof.
  unfold to_resources. destruct (resources_loop c rd None) as [[f|]| |] eqn:E; try discriminate.
  exfalso. eapply resources_loop_fuel; eauto.
Qed.

Lemma node_resources_fuel c d r : node_resources c d r <> DFuel.
Proof.
  unfold node_resources. destruct (get_resolved_dict c d (B "Resources")) eqn:G; try discriminate.
  - destruct (to_resources c a) eqn:E; try discriminate. exfalso. eapply to_resources_fuel; eauto.
  - exfalso. eapply get_resolved_dict_fuel; eauto.
Qed.

Lemma to_page_tree_node_fuel c q r o : to_page_tree_node c q r o <> DFuel.
Proof.
  unfold to_page_tree_node. destruct o; try discriminate.
  destruct (get_ref l (B "Parent")); [|discriminate].
  destruct (node_resources c l r) eqn:NR; try discriminate.
  - destruct (get_usize l (B "Count")); [|discriminate].
    destruct (dget l (B "Kids")); [|discriminate].
    destruct (to_page_kids c q a o0) as [[q1 k]| |] eqn:E; try discriminate.
    exfalso. eapply to_page_kids_fuel; eauto.
  - exfalso. eapply node_resources_fuel; eauto.
Qed.

Lemma to_root_fuel c q o : to_root_page_tree_node c q o <> DFuel.
Proof.
  unfold to_root_page_tree_node. destruct o; try discriminate.
  destruct (node_resources c l None) eqn:NR; try discriminate.
  - destruct (get_usize l (B "Count")); [|discriminate].
    destruct (dget l (B "Kids")); [|discriminate].
    destruct (to_page_kids c q a o) as [[q1 k]| |] eqn:E; try discriminate.
    exfalso. eapply to_page_kids_fuel; eauto.
  - exfalso. eapply node_resources_fuel; eauto.
Qed.

Lemma to_catalog_fuel c q o : to_catalog c q o <> DFuel.
Proof.
  unfold to_catalog. destruct o; try discriminate.
  destruct (get_ref l (B "Pages")); [|discriminate].
  destruct (lookup c o); [|discriminate]. apply to_root_fuel.
Qed.

Lemma to_page_fuel c r o : to_page c r o <> DFuel.
Proof.
  unfold to_page. destruct o; try discriminate.
  destruct (get_ref l (B "Parent")); [|discriminate].
  destruct (node_resources c l r) eqn:NR; try discriminate.
  - destruct (dget l (B "Contents")); [|discriminate].
    destruct (to_page_contents c o0) eqn:E; try discriminate.
    exfalso. eapply to_page_contents_fuel; eauto.
  - exfalso. eapply node_resources_fuel; eauto.
Qed.

(* ---------- the examined set bounds the queue loop ---------- *)
Section Measure.
  Variable c : octx.

  (* examined ids are distinct and defined; the measure: queued entries + defined ids not yet examined *)
  Definition wfq (q : cq) : Prop :=
    NoDup (q_examined q) /\ incl (q_examined q) (List.map fst c).
  Definition measure (q : cq) : nat :=
    List.length (q_nodes q) + (len c - List.length (q_examined q)).

  Lemma wfq_len q : wfq q -> List.length (q_examined q) <= len c.
  Proof.
    intros [Hd Hi]. unfold len. rewrite <- (map_length fst c). apply NoDup_incl_length; auto.
  Qed.

  Lemma cq_add_measure q id r o :
    wfq q -> lookup c id = Some o -> wfq (cq_add q id r o) /\ measure (cq_add q id r o) = measure q.
  Proof.
    intros W L. unfold cq_add. destruct (oid_mem id (q_examined q)) eqn:M; [auto|].
    apply oid_mem_false in M. destruct W as [Hd Hi].
    assert (W' : wfq (mkq (q_nodes q ++ [(id, r, o)]) (id :: q_examined q))).
    { split; cbn [q_examined]; [constructor; auto|].
      intros x [<-|Hx]; [eapply lookup_keys; eauto | auto]. }
    split; [exact W'|].
    apply wfq_len in W'. unfold measure in *. cbn [q_nodes q_examined List.length] in *.
    rewrite app_length. cbn [List.length]. lia.
  Qed.

  Lemma add_kids_measure r : forall ids q,
    wfq q -> wfq (add_kids c r ids q) /\ measure (add_kids c r ids q) = measure q.
  Proof.
    induction ids as [|id ids IH]; intros q W; [auto|].
    change (add_kids c r (id :: ids) q) with (add_kids c r ids (add_kid c r q id)).
    assert (X : wfq (add_kid c r q id) /\ measure (add_kid c r q id) = measure q).
    { unfold add_kid. destruct (lookup c id) as [o|] eqn:L; [|auto]. apply cq_add_measure; auto. }
    destruct X as [W1 M1]. destruct (IH _ W1) as [W2 M2]. split; [auto | congruence].
  Qed.

  Lemma dom_loop_fuel : forall fuel q pg,
    wfq q -> measure q < fuel -> dom_loop fuel c q pg <> DFuel.
  Proof.
    induction fuel as [|f IH]; intros q pg W M; [lia|].
    cbn [dom_loop]. destruct q as [nodes ex]. cbn [q_nodes q_examined].
    destruct nodes as [|[[id r] o] rest]; [discriminate|].
    assert (W1 : wfq (mkq rest ex)) by exact W.
    assert (M1 : measure (mkq rest ex) < f).
    { unfold measure in *. cbn [q_nodes q_examined List.length] in *. lia. }
    destruct o; try discriminate.
    destruct (get_name l (B "Type")) as [t|]; [|discriminate].
    destruct (bytes_eqb t (B "Pages")).
    - destruct (to_page_tree_node c (mkq rest ex) r (ODict l)) as [[n q']| |] eqn:TN; try discriminate.
      + apply to_page_tree_node_ok in TN as [d [parent [res [count [v [a [E [NR [K [Hr [Hq Hn]]]]]]]]]]].
        subst q'. destruct (add_kids_measure res (refs_of a) _ W1) as [W2 M2].
        apply IH; [exact W2 | lia].
      + exfalso. eapply to_page_tree_node_fuel; eauto.
    - destruct (bytes_eqb t (B "Page")); [|discriminate].
      destruct (to_page c r (ODict l)) eqn:TP; try discriminate.
      + apply IH; auto.
      + exfalso. eapply to_page_fuel; eauto.
  Qed.
End Measure.

Theorem to_page_dom_terminates c o n : len c < n -> to_page_dom n c o <> DFuel.
Proof.
  intros Hn. unfold to_page_dom.
  destruct (to_catalog c cq_new o) as [[[[res count] kids] q]| |] eqn:TC; try discriminate.
  - assert (W : wfq c q /\ measure c q = len c).
    { apply to_catalog_ok in TC as [d [rid [root [E [G [L TR]]]]]].
      apply to_root_ok in TR as [d' [v [a [E' [NR [K [Hr [Hq Hk]]]]]]]]. subst q.
      assert (W0 : wfq c cq_new) by (split; [constructor | intros x []]).
      destruct (add_kids_measure c res (refs_of a) _ W0) as [W1 M1]. split; [auto|].
      rewrite M1. unfold measure. cbn. lia. }
    destruct W as [W M].
    destruct (dom_loop n c q []) eqn:DL; try discriminate.
    exfalso. eapply dom_loop_fuel; [exact W | | exact DL]. lia.
  - exfalso. eapply to_catalog_fuel; eauto.
Qed.
