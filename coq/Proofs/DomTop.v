(* Proofs/DomTop.v — the C11 theorems in the form exported by Properties/C11.v, and worked examples. *)
From PV Require Import Model.Dom Spec.DomSpec Proofs.DomFollow Proofs.DomInv Proofs.DomTerm Proofs.DomOnce
  Proofs.DomInherit.

Lemma terminates_ex c cat : exists n, n <= S (len c) /\ to_page_dom n c cat <> DFuel.
Proof. exists (S (len c)). split; [lia | apply to_page_dom_terminates; lia]. Qed.

(* the fuel the case protocol (and the C01 pipeline model) uses is enough *)
Lemma to_page_dom_enough_fuel c cat : to_page_dom (S (len c)) c cat <> DFuel.
Proof. apply to_page_dom_terminates. lia. Qed.

(* more fuel does not change an answer *)
Lemma dom_loop_mono c : forall n q pg r,
  dom_loop n c q pg = r -> r <> DFuel -> forall m, n <= m -> dom_loop m c q pg = r.
Proof.
  induction n as [|n IH]; intros q pg r H Hr m Hm; cbn [dom_loop] in H; [congruence|].
  destruct m as [|m]; [lia|]. cbn [dom_loop].
  destruct (q_nodes q) as [|[[id r0] o] rest]; [exact H|].
  destruct o; try exact H.
  destruct (get_name l (B "Type")) as [t|]; [|exact H].
  destruct (bytes_eqb t (B "Pages")).
  - destruct (to_page_tree_node c _ r0 (ODict l)) as [[nd q']| |]; try exact H.
    apply IH; [exact H | exact Hr | lia].
  - destruct (bytes_eqb t (B "Page")); [|exact H].
    destruct (to_page c r0 (ODict l)); try exact H.
    apply IH; [exact H | exact Hr | lia].
Qed.

Lemma to_page_dom_fuel_mono c cat n m :
  n <= m -> to_page_dom n c cat <> DFuel -> to_page_dom m c cat = to_page_dom n c cat.
Proof.
  intros Hm H. unfold to_page_dom in *.
  destruct (to_catalog c cq_new cat) as [[[[res count] kids] q]| |]; try reflexivity.
  destruct (dom_loop n c q []) eqn:DL.
  - rewrite (dom_loop_mono c n q [] _ DL ltac:(discriminate) m Hm). reflexivity.
  - rewrite (dom_loop_mono c n q [] _ DL ltac:(discriminate) m Hm). reflexivity.
  - congruence.
Qed.

Lemma once c cat n res pg :
  to_page_dom n c cat = DOk (res, pg) ->
  exists root, root_node c cat root /\
    (forall id, In id (List.map fst pg) <-> reachable c root id) /\ NoDup (List.map fst pg).
Proof.
  intros H. destruct (to_page_dom_root _ _ _ _ _ H) as [root RN].
  exists root. split; [exact RN | eapply to_page_dom_once; eauto].
Qed.

(* the fonts a page must carry given the objects from the page up to the root *)
Definition fonts_of_nearest (c : octx) (l : list obj) (fonts : resources) : Prop :=
  exists x, nearest_resources c l x /\
    match x with
    | None => fonts = []
    | Some rd => to_resources c rd = DOk fonts
    end.

Lemma inherit c cat n res pg :
  to_page_dom n c cat = DOk (res, pg) ->
  forall root, root_node c cat root ->
  forall id par fonts cs, In (id, PLeaf par fonts cs) pg ->
    exists o p, octx_get c id = Some o /\ path_to c root p id /\ fonts_of_nearest c (o :: p) fonts.
Proof.
  intros H root RN id par fonts cs Hin.
  destruct (to_page_dom_pages _ _ _ _ _ H root RN _ _ _ _ Hin) as (o & p & L & P & F & _).
  exists o, p. auto.
Qed.

(* tree-shaped documents: one path to the page, so it is THE path *)
Lemma inherit_tree c cat n res pg :
  to_page_dom n c cat = DOk (res, pg) ->
  forall root, root_node c cat root ->
  forall id par fonts cs, In (id, PLeaf par fonts cs) pg ->
  (forall p1 p2, path_to c root p1 id -> path_to c root p2 id -> p1 = p2) ->
  forall o p, octx_get c id = Some o -> path_to c root p id -> fonts_of_nearest c (o :: p) fonts.
Proof.
  intros H root RN id par fonts cs Hin U o p L P.
  destruct (to_page_dom_pages _ _ _ _ _ H root RN _ _ _ _ Hin) as (o' & p' & L' & P' & F & _).
  rewrite L in L'. inversion L'; subst o'. rewrite (U p p' P P'). exact F.
Qed.

Lemma contents_order c cat n res pg :
  to_page_dom n c cat = DOk (res, pg) ->
  forall id par fonts cs, In (id, PLeaf par fonts cs) pg ->
    exists d v, octx_get c id = Some (ODict d) /\ dict_get d (B "Contents") = Some v /\
                contents_in_order c v cs.
Proof.
  intros H id par fonts cs Hin.
  destruct (to_page_dom_root _ _ _ _ _ H) as [root RN].
  destruct (to_page_dom_pages _ _ _ _ _ H root RN _ _ _ _ Hin) as (o & p & L & _ & _ & d & v & E & K & C).
  subst o. exists d, v. auto.
Qed.

(* ---------- worked examples (the witnesses of findings C11-10 and C11-11 on the repaired code) ---------- *)
Definition fontd (bf : bytes) : obj :=
  ODict [(B "BaseFont", OName bf); (B "Subtype", OName (B "Type1")); (B "Type", OName (B "Font"))].
Definition catalog : obj := ODict [(B "Pages", ORef 2 0); (B "Type", OName (B "Catalog"))].

(* self-referential /Kids: rejected with an error, not fuel *)
Definition W10 : octx :=
  [((1, 0)%N, catalog);
   ((2, 0)%N, ODict [(B "Count", OInt 1); (B "Kids", ORef 5 0); (B "Type", OName (B "Pages"))]);
   ((5, 0)%N, ORef 5 0)].
Example W10_rejected : to_page_dom (S (len W10)) W10 catalog = DErr PageTreeNodeConversionBadKids.
Proof. vm_compute. reflexivity. Qed.

(* own /Resources behind two references: the page has its own font F1, not the root's F0 *)
Definition W11 : octx :=
  [((1, 0)%N, catalog);
   ((2, 0)%N, ODict [(B "Count", OInt 1); (B "Kids", OArr [ORef 3 0]);
                     (B "Resources", ODict [(B "Font", ODict [(B "F0", ORef 10 0)])]); (B "Type", OName (B "Pages"))]);
   ((10, 0)%N, fontd (B "Helvetica")); ((11, 0)%N, fontd (B "Courier"));
   ((4, 0)%N, OStream [(B "Length", OInt 2)] (B "c4"));
   ((3, 0)%N, ODict [(B "Contents", ORef 4 0); (B "Parent", ORef 2 0); (B "Resources", ORef 7 0);
                     (B "Type", OName (B "Page"))]);
   ((7, 0)%N, ORef 8 0);
   ((8, 0)%N, ODict [(B "Font", ODict [(B "F1", ORef 11 0)])])].
Example W11_own_fonts :
  exists r pg par fonts cs, to_page_dom (S (len W11)) W11 catalog = DOk (r, pg) /\
    pg = [((3, 0)%N, PLeaf par fonts cs)] /\ List.map fst fonts = [B "F1"] /\
    cs = [OStream [(B "Length", OInt 2)] (B "c4")].
Proof. do 5 eexists. split; [vm_compute; reflexivity|]. repeat split. Qed.
