(* Proofs/Pipeline.v — C01: structure of the composed pipeline model. *)
From PV Require Import Base.PdfObj.
From PV Require Import Model.Flate Model.Filters Model.TypeCheck Model.ShippedEntry Model.Dom Model.ContentLex Model.Pipeline.

(* ---------------------------------------------------------------------------------------------
   dump_root terminates within its fuel: the breadth-first walk takes each VALUE at most once
   (`processed` is a set of values), and every value it meets is a sub-value of the root or of a
   definition of the context. *)
From PV Require Import Proofs.TypeCheckEq.
From Coq Require Import Lia.

Definition kids (o : obj) : list obj :=
  match o with
  | OArr l => l
  | ODict d => List.map snd d
  | OStream d _ => List.map snd d
  | _ => []
  end.

Fixpoint subs (o : obj) : list obj :=
  o :: match o with
       | OArr l => flat_map subs l
       | ODict d => flat_map (fun kv => subs (snd kv)) d
       | OStream d _ => flat_map (fun kv => subs (snd kv)) d
       | _ => []
       end.

Lemma subs_self o : In o (subs o).
Proof. destruct o; left; reflexivity. Qed.

Lemma subs_len : forall o, List.length (subs o) = osize o.
Proof.
  fix IH 1. intros [ | b | z | n d | s | s | s | n g | l | l | l c]; cbn [subs osize List.length]; try reflexivity; f_equal.
  - induction l as [|x r IHr]; [reflexivity|]. cbn [flat_map fold_right]. rewrite app_length, IH, IHr. reflexivity.
  - induction l as [|[k x] r IHr]; [reflexivity|]. cbn [flat_map fold_right snd]. rewrite app_length, IH, IHr. reflexivity.
  - induction l as [|[k x] r IHr]; [reflexivity|]. cbn [flat_map fold_right snd]. rewrite app_length, IH, IHr. reflexivity.
Qed.

Lemma subs_kid o x : In x (kids o) -> incl (subs x) (subs o).
Proof.
  intros H y Hy. destruct o; cbn [kids] in H; try contradiction; cbn [subs]; right; apply in_flat_map.
  - exists x. split; assumption.
  - apply in_map_iff in H as ([k v] & E & Hin). cbn in E. subst v. exists (k, x). split; assumption.
  - apply in_map_iff in H as ([k v] & E & Hin). cbn in E. subst v. exists (k, x). split; assumption.
Qed.

Lemma subs_trans : forall x y, In y (subs x) -> incl (subs y) (subs x).
Proof.
  fix IH 1. intros x y H. destruct x as [ | b | z | n d | s | s | s | n g | l | l | l c]; cbn [subs] in H;
    try (destruct H as [<-|[]]; apply incl_refl).
  - destruct H as [<-|H]; [apply incl_refl|]. intros w Hw. cbn [subs]. right.
    revert H. induction l as [|a r IHr]; cbn [flat_map]; intros H; [contradiction|].
    apply in_app_or in H as [H|H]; apply in_or_app; [left; exact (IH a y H w Hw) | right; exact (IHr H)].
  - destruct H as [<-|H]; [apply incl_refl|]. intros w Hw. cbn [subs]. right.
    revert H. induction l as [|[k a] r IHr]; cbn [flat_map snd]; intros H; [contradiction|].
    apply in_app_or in H as [H|H]; apply in_or_app; [left; exact (IH a y H w Hw) | right; exact (IHr H)].
  - destruct H as [<-|H]; [apply incl_refl|]. intros w Hw. cbn [subs]. right.
    revert H. induction l as [|[k a] r IHr]; cbn [flat_map snd]; intros H; [contradiction|].
    apply in_app_or in H as [H|H]; apply in_or_app; [left; exact (IH a y H w Hw) | right; exact (IHr H)].
Qed.

Section DumpTerm.
  Variable dec : list (bytes * obj) -> bytes -> res (list (bytes * obj) * bytes).
  Variable ctx : octx.
  Variable root : obj.

  Definition univ : list obj := subs root ++ flat_map (fun e => subs (snd e)) ctx.

  Lemma univ_len : List.length univ = osize root + ctx_size ctx.
  Proof.
    unfold univ, ctx_size. rewrite app_length, subs_len. f_equal.
    induction ctx as [|e r IH]; [reflexivity|]. cbn [flat_map fold_right]. rewrite app_length, subs_len, IH. reflexivity.
  Qed.

  Lemma univ_subs x : In x univ -> incl (subs x) univ.
  Proof.
    unfold univ. intros H y Hy. apply in_app_or in H as [H|H]; apply in_or_app.
    - left. exact (subs_trans _ _ H y Hy).
    - right. apply in_flat_map in H as (e & He & Hx). apply in_flat_map. exists e. split; [exact He|].
      exact (subs_trans _ _ Hx y Hy).
  Qed.

  Lemma univ_kid x y : In x univ -> In y (kids x) -> In y univ.
  Proof. intros Hx Hy. apply (univ_subs x Hx). apply (subs_kid x y Hy). apply subs_self. Qed.

  Lemma octx_get_In (c : octx) id o : octx_get c id = Some o -> exists id', In (id', o) c.
  Proof.
    induction c as [|[[n g] o'] r IH]; cbn [octx_get]; [discriminate|].
    destruct (N.eqb n (fst id) && N.eqb g (snd id))%bool.
    - intros H. inversion H; subst. exists (n, g). left. reflexivity.
    - intros H. destruct (IH H) as (id' & Hin). exists id'. right. exact Hin.
  Qed.

  Lemma univ_lookup n g y : octx_get ctx (n, g) = Some y -> In y univ.
  Proof.
    intros H. destruct (octx_get_In _ _ _ H) as (id' & Hin). unfold univ. apply in_or_app. right.
    apply in_flat_map. exists (id', y). split; [exact Hin|]. apply subs_self.
  Qed.

  Lemma omem_In x p : omem x p = true <-> In x p.
  Proof.
    unfold omem. rewrite existsb_exists. split.
    - intros (y & Hy & E). apply obj_eqb_eq in E. subst. exact Hy.
    - intros H. exists x. split; [exact H | apply obj_eqb_refl].
  Qed.

  Definition Inv (q p : list obj) : Prop := incl p univ /\ NoDup p /\ incl q p.
  Definition meas (q p : list obj) : nat := List.length q + (List.length univ - List.length p).

  Lemma inv_len q p : Inv q p -> List.length p <= List.length univ.
  Proof. intros (Hp & Hn & _). apply NoDup_incl_length; assumption. Qed.

  Lemma push1_inv q p x : Inv q p -> In x univ ->
    Inv (fst (push1 (q, p) x)) (snd (push1 (q, p) x)) /\
    meas (fst (push1 (q, p) x)) (snd (push1 (q, p) x)) = meas q p.
  Proof.
    intros I Hx. pose proof (inv_len _ _ I) as Hl. destruct I as (Hp & Hn & Hq). unfold push1.
    destruct (omem x p) eqn:E; cbn [fst snd].
    - split; [repeat split; assumption | reflexivity].
    - assert (Hnx : ~ In x p) by (intros Hin; apply omem_In in Hin; congruence).
      assert (I' : Inv (q ++ [x]) (x :: p)).
      { repeat split.
        - intros y [<-|Hy]; [exact Hx | apply Hp, Hy].
        - constructor; assumption.
        - intros y Hy. apply in_app_or in Hy as [Hy|[<-|[]]]; [right; apply Hq, Hy | left; reflexivity]. }
      split; [exact I'|]. pose proof (inv_len _ _ I') as Hl'. unfold meas. rewrite app_length. cbn [List.length] in *. lia.
  Qed.

  Lemma fold_push1_inv l : forall q p, Inv q p -> incl l univ ->
    let r := fold_left push1 l (q, p) in Inv (fst r) (snd r) /\ meas (fst r) (snd r) = meas q p.
  Proof.
    induction l as [|x l IH]; intros q p I Hl; cbn [fold_left].
    - split; [exact I | reflexivity].
    - destruct (push1_inv q p x I (Hl x (or_introl eq_refl))) as (I1 & M1).
      destruct (push1 (q, p) x) as [q1 p1] eqn:E. cbn [fst snd] in *.
      destruct (IH q1 p1 I1 (fun y Hy => Hl y (or_intror Hy))) as (I2 & M2). cbv zeta in *.
      split; [exact I2 | rewrite M2; exact M1].
  Qed.

  Lemma inv_pop o q p : Inv (o :: q) p -> Inv q p /\ In o univ /\ meas q p < meas (o :: q) p.
  Proof.
    intros (Hp & Hn & Hq). repeat split; try assumption.
    - intros y Hy. apply Hq. right. exact Hy.
    - apply Hp, Hq. left. reflexivity.
    - unfold meas. cbn [List.length]. lia.
  Qed.

  Lemma dump_loop_fuel : forall f q p, Inv q p -> meas q p < f -> dump_loop dec ctx f q p <> DumpFuel.
  Proof.
    induction f as [|f IH]; intros q p I M; [lia|].
    cbn [dump_loop]. destruct q as [|o q]; [discriminate|].
    destruct (inv_pop _ _ _ I) as (I' & Ho & M').
    assert (Hk : incl (kids o) univ) by (intros y Hy; exact (univ_kid o y Ho Hy)).
    assert (Go : forall q2 p2, Inv q2 p2 -> meas q2 p2 = meas q p -> dump_loop dec ctx f q2 p2 <> DumpFuel).
    { intros q2 p2 I2 M2. apply IH; [exact I2 | lia]. }
    destruct o; try (apply Go; [exact I' | reflexivity]).
    - (* ORef *)
      destruct (octx_get ctx (num, gen)) as [x|] eqn:E; [|apply Go; [exact I' | reflexivity]].
      destruct (push1_inv q p x I' (univ_lookup _ _ _ E)) as (I2 & M2).
      destruct (push1 (q, p) x) as [q2 p2]. apply Go; assumption.
    - (* OArr *)
      pose proof (fold_push1_inv l q p I' Hk) as H. cbv zeta in H. destruct H as (I2 & M2).
      destruct (fold_left (push1) l (q, p)) as [q2 p2]. apply Go; assumption.
    - (* ODict *)
      pose proof (fold_push1_inv (List.map snd l) q p I' Hk) as H. cbv zeta in H. destruct H as (I2 & M2).
      destruct (fold_left (push1) (List.map snd l) (q, p)) as [q2 p2]. apply Go; assumption.
    - (* OStream *)
      pose proof (fold_push1_inv (List.map snd d) q p I' Hk) as H. cbv zeta in H. destruct H as (I2 & M2).
      destruct (fold_left (push1) (List.map snd d) (q, p)) as [q2 p2].
      destruct (dec d content); try discriminate; apply Go; assumption.
  Qed.

  Theorem dump_root_enough_fuel : dump_root dec ctx root <> DumpFuel.
  Proof.
    unfold dump_root. apply dump_loop_fuel.
    - repeat split.
      + intros y [<-|[]]. unfold univ. apply in_or_app. left. apply subs_self.
      + constructor; [intros []|constructor].
      + apply incl_refl.
    - unfold meas. rewrite univ_len. cbn [List.length]. lia.
  Qed.
End DumpTerm.

(* ---------------------------------------------------------------------------------------------
   The pipeline panics only where a component panics, and is "unmodelled" only where a component
   runs out of fuel / lacks an oracle answer.  Stated for arbitrary components (pipeline_gen). *)
Section Sources.
  Variable dec : list (bytes * obj) -> bytes -> res (list (bytes * obj) * bytes).
  Variable chk : octx -> obj -> outcome.
  Variable domf : octx -> obj -> dres (option resources * pages).
  Variable T : Type.
  Variable ext : bytes -> res T.
  Variable ctx : octx.

  Lemma dump_loop_panic : forall f q p, dump_loop dec ctx f q p = DumpPanic -> exists d c, dec d c = Panic.
  Proof.
    induction f as [|f IH]; intros q p H; cbn [dump_loop] in H; [discriminate|].
    destruct q as [|o q]; [discriminate|].
    destruct o; try (exact (IH _ _ H)).
    - destruct (octx_get ctx (num, gen)); [destruct (push1 (q, p) o)|]; exact (IH _ _ H).
    - destruct (fold_left push1 l (q, p)). exact (IH _ _ H).
    - destruct (fold_left push1 (List.map snd l) (q, p)). exact (IH _ _ H).
    - destruct (fold_left push1 (List.map snd d) (q, p)).
      destruct (dec d content) eqn:E; try discriminate; try (exact (IH _ _ H)).
      exists d, content. exact E.
  Qed.

  Lemma dump_loop_nooracle : forall f q p, dump_loop dec ctx f q p = DumpNoOracle -> exists d c, dec d c = Fuel.
  Proof.
    induction f as [|f IH]; intros q p H; cbn [dump_loop] in H; [discriminate|].
    destruct q as [|o q]; [discriminate|].
    destruct o; try (exact (IH _ _ H)).
    - destruct (octx_get ctx (num, gen)); [destruct (push1 (q, p) o)|]; exact (IH _ _ H).
    - destruct (fold_left push1 l (q, p)). exact (IH _ _ H).
    - destruct (fold_left push1 (List.map snd l) (q, p)). exact (IH _ _ H).
    - destruct (fold_left push1 (List.map snd d) (q, p)).
      destruct (dec d content) eqn:E; try discriminate; try (exact (IH _ _ H)).
      exists d, content. exact E.
  Qed.

  Lemma page_buf_panic cs acc : page_buf dec cs acc = Panic -> exists d c, dec d c = Panic.
  Proof.
    revert acc. induction cs as [|o cs IH]; intros acc H; cbn [page_buf] in H; [discriminate|].
    destruct o; try discriminate.
    destruct (dec d content) as [[d' out]|k| |] eqn:E; try discriminate.
    - exact (IH _ H).
    - exists d, content. exact E.
  Qed.

  Lemma page_buf_fuel cs acc : page_buf dec cs acc = Fuel -> exists d c, dec d c = Fuel.
  Proof.
    revert acc. induction cs as [|o cs IH]; intros acc H; cbn [page_buf] in H; [discriminate|].
    destruct o; try discriminate.
    destruct (dec d content) as [[d' out]|k| |] eqn:E; try discriminate.
    - exact (IH _ H).
    - exists d, content. exact E.
  Qed.

  Definition page_buffer (pg : pages) (buf : bytes) : Prop :=
    exists id par res cs, In (id, PLeaf par res cs) pg /\ page_buf dec cs [] = Ok (Some buf).

  Lemma pages_loop_panic pg :
    pages_loop dec T ext pg = PPanicked ->
    (exists d c, dec d c = Panic) \/ (exists buf, page_buffer pg buf /\ ext buf = Panic).
  Proof.
    induction pg as [|[id k] pg IH]; cbn [pages_loop]; [discriminate|].
    assert (Lift : (exists d c, dec d c = Panic) \/ (exists buf, page_buffer pg buf /\ ext buf = Panic) ->
                   (exists d c, dec d c = Panic) \/ (exists buf, page_buffer ((id, k) :: pg) buf /\ ext buf = Panic)).
    { intros [H|(buf & (i & pa & r & c & Hin & Hb) & Hx)]; [left; exact H|].
      right. exists buf. split; [|exact Hx]. exists i, pa, r, c. split; [right; exact Hin | exact Hb]. }
    destruct k as [? ? ? ?|par res cs]; [intros H; exact (Lift (IH H))|].
    destruct (not_embedded res); [discriminate|].
    destruct (page_buf dec cs []) as [[buf|]|e| |] eqn:E; try (intros H; exact (Lift (IH H))); try discriminate.
    - destruct (ext buf) eqn:X; try (intros H; exact (Lift (IH H))); try discriminate.
      intros _. right. exists buf. split; [|exact X]. exists id, par, res, cs. split; [left; reflexivity | exact E].
    - intros _. left. exact (page_buf_panic _ _ E).
  Qed.

  Lemma pages_loop_unmodelled pg :
    pages_loop dec T ext pg = PUnmodelled ->
    (exists d c, dec d c = Fuel) \/ (exists buf, page_buffer pg buf /\ ext buf = Fuel).
  Proof.
    induction pg as [|[id k] pg IH]; cbn [pages_loop]; [discriminate|].
    assert (Lift : (exists d c, dec d c = Fuel) \/ (exists buf, page_buffer pg buf /\ ext buf = Fuel) ->
                   (exists d c, dec d c = Fuel) \/ (exists buf, page_buffer ((id, k) :: pg) buf /\ ext buf = Fuel)).
    { intros [H|(buf & (i & pa & r & c & Hin & Hb) & Hx)]; [left; exact H|].
      right. exists buf. split; [|exact Hx]. exists i, pa, r, c. split; [right; exact Hin | exact Hb]. }
    destruct k as [? ? ? ?|par res cs]; [intros H; exact (Lift (IH H))|].
    destruct (not_embedded res); [discriminate|].
    destruct (page_buf dec cs []) as [[buf|]|e| |] eqn:E; try (intros H; exact (Lift (IH H))); try discriminate.
    - destruct (ext buf) eqn:X; try (intros H; exact (Lift (IH H))); try discriminate.
      intros _. right. exists buf. split; [|exact X]. exists id, par, res, cs. split; [left; reflexivity | exact E].
    - intros _. left. exact (page_buf_fuel _ _ E).
  Qed.

  (* a panic of the pipeline is a panic of a stream decoder, of the type checker, or of the content-stream parser *)
  Theorem pipeline_gen_panic_sources rootid :
    pipeline_gen dec chk domf T ext ctx rootid = PPanicked ->
    (exists d c, dec d c = Panic) \/ (exists root, chk ctx root = Panicked) \/
    (exists root r pg buf, octx_get ctx rootid = Some root /\ domf ctx root = DOk (r, pg) /\ page_buffer pg buf /\ ext buf = Panic).
  Proof.
    unfold pipeline_gen. destruct (octx_get ctx rootid) as [root|] eqn:RT; [|discriminate].
    destruct (dump_root dec ctx root) eqn:D; try discriminate.
    - destruct (chk ctx root) eqn:C; try discriminate.
      + destruct (domf ctx root) as [[r pg]|e|] eqn:Tm; try discriminate.
        intros H. destruct (pages_loop_panic _ H) as [H1|(buf & Hb & Hx)]; [left; exact H1 |].
        right; right. exists root, r, pg, buf. repeat split; try assumption; reflexivity.
      + intros _. right. left. exists root. exact C.
    - intros _. left. exact (dump_loop_panic _ _ _ D).
  Qed.

  (* the pipeline leaves the model only through: a decoder without oracle answer (or DCTDecode), the checker's
     or the DOM builder's loop bound, or the content parser's fuel *)
  Theorem pipeline_gen_unmodelled_sources rootid :
    pipeline_gen dec chk domf T ext ctx rootid = PUnmodelled ->
    (exists d c, dec d c = Fuel) \/ (exists root, chk ctx root = Stuck) \/
    (exists root, domf ctx root = DFuel) \/
    (exists root r pg buf, octx_get ctx rootid = Some root /\ domf ctx root = DOk (r, pg) /\ page_buffer pg buf /\ ext buf = Fuel).
  Proof.
    unfold pipeline_gen. destruct (octx_get ctx rootid) as [root|] eqn:RT; [|discriminate].
    destruct (dump_root dec ctx root) eqn:D; try discriminate.
    - destruct (chk ctx root) eqn:C; try discriminate.
      + destruct (domf ctx root) as [[r pg]|e|] eqn:Tm; try discriminate.
        * intros H. destruct (pages_loop_unmodelled _ H) as [H1|(buf & Hb & Hx)]; [left; exact H1 |].
          right; right; right. exists root, r, pg, buf. repeat split; try assumption; reflexivity.
        * intros _. right. right. left. exists root. exact Tm.
      + intros _. right. left. exists root. exact C.
    - intros _. left. exact (dump_loop_nooracle _ _ _ D).
    - exfalso. exact (dump_root_enough_fuel dec ctx root D).
  Qed.

  Lemma pipeline_gen_root_missing rootid :
    octx_get ctx rootid = None -> pipeline_gen dec chk domf T ext ctx rootid = PRejected.
  Proof. intros H. unfold pipeline_gen. rewrite H. reflexivity. Qed.
End Sources.
