(* Proofs/Bin.v — C19: the binary integer parsers decode exactly the bytes under the cursor. *)
From PV Require Import Model.Bin.
From Coq Require Import ZifyBool ZifyNat ZifyN.
Ltac Zify.zify_post_hook ::= Z.div_mod_to_equations.

(* ---------- specification ---------- *)
Definition valBE (l : bytes) : N := fold_left (fun a b => (a * 256 + b)%N) l 0%N.
Definition val (e : endian) (l : bytes) : N :=
  match e with Big => valBE l | Little => valBE (rev l) end.
Definition wfb (s : bytes) : Prop := Forall (fun b => (b < 256)%N) s.
Definition width (k : nat) : nat := 2 ^ k.
Definition sval (e : endian) (l : bytes) : Z :=
  let v := val e l in
  if (v <? 2 ^ (8 * N.of_nat (len l) - 1))%N then Z.of_N v else (Z.of_N v - 2 ^ (8 * Z.of_nat (len l)))%Z.

(* ---------- lemmas on valBE ---------- *)
Lemma fold_valBE l a : fold_left (fun a b => (a * 256 + b)%N) l a = (a * 256 ^ N.of_nat (len l) + valBE l)%N.
Proof.
  unfold valBE, len. revert a; induction l as [|x l IH]; intros a.
  - simpl. lia.
  - cbn [fold_left List.length]. rewrite IH. rewrite (IH (0 * 256 + x)%N).
    rewrite Nat2N.inj_succ, N.pow_succ_r'. lia.
Qed.

Lemma valBE_app a b : valBE (a ++ b) = (valBE a * 256 ^ N.of_nat (len b) + valBE b)%N.
Proof. unfold valBE at 1. rewrite fold_left_app. fold (valBE a). apply fold_valBE. Qed.

Lemma valBE_bound l : wfb l -> (valBE l < 256 ^ N.of_nat (len l))%N.
Proof.
  induction l as [|x l IH] using rev_ind; intros W.
  - cbn. lia.
  - apply Forall_app in W as [Wl Wx]. inversion Wx as [|? ? Hx _]; subst.
    rewrite valBE_app. unfold len in *. rewrite app_length. cbn [List.length].
    specialize (IH Wl). replace (N.of_nat (List.length l + 1)) with (N.succ (N.of_nat (List.length l))) by lia.
    rewrite N.pow_succ_r'. cbn [valBE fold_left]. change (valBE [x]) with (0 * 256 + x)%N.
    change (N.of_nat 1) with 1%N. rewrite N.pow_1_r. lia.
Qed.

Lemma wfb_rev l : wfb l -> wfb (rev l).
Proof. unfold wfb. intros H. apply Forall_rev. exact H. Qed.

Lemma wfb_sub s a b : wfb s -> wfb (sub s a b).
Proof. apply Forall_sub. Qed.

Lemma val_bound e l : wfb l -> (val e l < 256 ^ N.of_nat (len l))%N.
Proof.
  destruct e; cbn [val]; intros W.
  - apply valBE_bound, W.
  - replace (len l) with (len (rev l)) by apply rev_length. apply valBE_bound, wfb_rev, W.
Qed.

(* 2^(8*2^k) = 256^(2^k) *)
Lemma pow_width k : (2 ^ (8 * 2 ^ N.of_nat k) = 256 ^ N.of_nat (width k))%N.
Proof.
  unfold width. rewrite Nat2N.inj_pow. change (N.of_nat 2) with 2%N.
  change 256%N with (2 ^ 8)%N. rewrite <- N.pow_mul_r. reflexivity.
Qed.

Lemma comb_ok k hi lo :
  (hi < 256 ^ N.of_nat (width k))%N -> (lo < 256 ^ N.of_nat (width k))%N ->
  comb (8 * 2 ^ N.of_nat k) hi lo = Some (hi * 256 ^ N.of_nat (width k) + lo)%N.
Proof.
  intros Hh Hl. unfold comb. cbv zeta.
  replace (2 * (8 * 2 ^ N.of_nat k))%N with (8 * 2 ^ N.of_nat k + 8 * 2 ^ N.of_nat k)%N by lia.
  rewrite N.pow_add_r. rewrite !pow_width.
  set (P := (256 ^ N.of_nat (width k))%N) in *.
  assert (HP : (0 < P)%N) by (unfold P; apply N.neq_0_lt_0, N.pow_nonzero; lia).
  rewrite N.mod_small by nia.
  destruct (N.ltb_spec (hi * P + lo) (P * P)) as [_|Hc]; [reflexivity|nia].
Qed.

Lemma width_S k : width (S k) = width k + width k.
Proof. unfold width. cbn [Nat.pow]. lia. Qed.

(* ---------- main theorems ---------- *)
Lemma u8_ok (s : bytes) c : c + 1 <= len s -> exists b, nth_error s c = Some b /\ sub s c (c + 1) = [b].
Proof.
  intros H. destruct (nth_error s c) as [b|] eqn:E.
  - exists b. split; [reflexivity|]. unfold sub. replace (c + 1 - c) with 1 by lia.
    rewrite (skipn_cons_nth _ _ _ E). reflexivity.
  - apply nth_error_None in E. unfold len in H. lia.
Qed.

Lemma len_sub (s : bytes) a b : a <= b -> b <= len s -> len (sub s a b) = b - a.
Proof. apply sub_length. Qed.

Theorem uN_ok k e s c :
  wfb s -> c + width k <= len s ->
  uN k e s c = POk (val e (sub s c (c + width k)), c, c + width k) (c + width k).
Proof.
  revert c. induction k as [|k IH]; intros c W H.
  - cbn [uN width Nat.pow] in *. unfold u8. destruct (u8_ok s c H) as (b & E & Esub).
    rewrite E, Esub. replace (S c) with (c + 1) by lia.
    destruct e; cbn; reflexivity.
  - cbn [uN]. rewrite width_S in *.
    rewrite (IH c W) by lia. rewrite (IH (c + width k) W) by lia.
    rewrite (sub_split s c (c + width k) (c + (width k + width k))) by lia.
    replace (c + width k + width k) with (c + (width k + width k)) by lia.
    set (A := sub s c (c + width k)). set (Bs := sub s (c + width k) (c + (width k + width k))).
    assert (LA : len A = width k) by (unfold A; rewrite len_sub; lia).
    assert (LB : len Bs = width k) by (unfold Bs; rewrite len_sub; lia).
    assert (WA : wfb A) by (apply wfb_sub, W).
    assert (WB : wfb Bs) by (apply wfb_sub, W).
    pose proof (val_bound e A WA) as BA. pose proof (val_bound e Bs WB) as BB.
    rewrite LA in BA. rewrite LB in BB.
    destruct e; cbn [val] in *.
    + rewrite (comb_ok k _ _ BA BB). rewrite valBE_app, LB. reflexivity.
    + rewrite (comb_ok k _ _ BB BA). rewrite rev_app_distr, valBE_app.
      replace (len (rev A)) with (width k) by (unfold len in *; rewrite rev_length; lia).
      reflexivity.
Qed.

(* shape of every outcome, without assuming well-formed bytes *)
Lemma uN_shape k e s c :
  match uN k e s c with
  | POk (_, a, b) c' => a = c /\ b = c + width k /\ c' = c + width k /\ c + width k <= len s
  | PErr kd c' => kd = EEndOfBuffer /\ c' = c /\ len s < c + width k
  | PPanic => True
  | PFuel => False
  end.
Proof.
  revert c. induction k as [|k IH]; intros c.
  - cbn [uN]. change (width 0) with 1. unfold u8. destruct (nth_error s c) eqn:E.
    + assert (c < List.length s) by (apply nth_error_Some; congruence). unfold len. lia.
    + apply nth_error_None in E. unfold len. split; [reflexivity|]. lia.
  - cbn [uN]. rewrite width_S. pose proof (IH c) as H1.
    destruct (uN k e s c) as [[[v1 a1] b1] c1| k1 c1| |]; try solve [intuition lia].
    destruct H1 as (-> & -> & -> & L1). pose proof (IH (c + width k)) as H2.
    destruct (uN k e s (c + width k)) as [[[v2 a2] b2] c2| k2 c2| |]; try solve [intuition lia].
    destruct H2 as (-> & -> & -> & L2).
    destruct e; destruct (comb _ _ _); lia.
Qed.

Theorem uN_short k e s c :
  wfb s -> len s < c + width k -> uN k e s c = PErr EEndOfBuffer c.
Proof.
  intros W. revert c. induction k as [|k IH]; intros c H.
  - cbn [uN]. change (width 0) with 1 in H. unfold u8.
    destruct (nth_error s c) eqn:E; [|reflexivity].
    assert (c < List.length s) by (apply nth_error_Some; congruence). unfold len in H. lia.
  - cbn [uN]. rewrite width_S in H.
    destruct (Nat.lt_ge_cases (len s) (c + width k)) as [Hs|Hs].
    + rewrite (IH c Hs). reflexivity.
    + rewrite (uN_ok k e s c W Hs). rewrite IH by lia. reflexivity.
Qed.

(* the checked addition never overflows and no assertion fires *)
Theorem uN_no_panic k e s c : wfb s -> uN k e s c <> PPanic /\ uN k e s c <> PFuel.
Proof.
  intros W. destruct (Nat.lt_ge_cases (len s) (c + width k)) as [H|H].
  - rewrite uN_short by assumption. split; discriminate.
  - rewrite uN_ok by assumption. split; discriminate.
Qed.

(* signed parsers *)
Lemma to_signed_spec k e l :
  len l = width k ->
  to_signed (8 * 2 ^ N.of_nat k) (val e l) = sval e l.
Proof.
  intros L. unfold to_signed, sval. rewrite L. unfold width.
  rewrite Nat2N.inj_pow. change (N.of_nat 2) with 2%N.
  replace (8 * Z.of_nat (2 ^ k))%Z with (Z.of_N (8 * 2 ^ N.of_nat k)).
  - reflexivity.
  - rewrite N2Z.inj_mul, N2Z.inj_pow, Nat2Z.inj_pow. rewrite nat_N_Z. reflexivity.
Qed.

Theorem iN_ok k e s c :
  wfb s -> c + width k <= len s ->
  iN k e s c = POk (sval e (sub s c (c + width k)), c, c + width k) (c + width k).
Proof.
  intros W H. unfold iN. rewrite uN_ok by assumption.
  rewrite to_signed_spec; [reflexivity|]. rewrite len_sub; lia.
Qed.

Theorem iN_short k e s c :
  wfb s -> len s < c + width k -> iN k e s c = PErr EEndOfBuffer c.
Proof. intros W H. unfold iN. rewrite uN_short by assumption. reflexivity. Qed.

(* byte vectors *)
Theorem bytevec_ok n s c :
  c + n <= len s -> bytevec n s c = POk (sub s c (c + n), c, c + n) (c + n).
Proof.
  intros H. unfold bytevec. destruct (Nat.ltb_spec (len s - c) n); [lia|reflexivity].
Qed.

Theorem bytevec_short n s c :
  c <= len s -> len s < c + n -> bytevec n s c = PErr EEndOfBuffer c.
Proof.
  intros Hc H. unfold bytevec. destruct (Nat.ltb_spec (len s - c) n); [reflexivity|lia].
Qed.

Lemma bytevec_len n (s : bytes) c : c + n <= len s -> len (sub s c (c + n)) = n.
Proof. intros H. rewrite len_sub; lia. Qed.

(* any usize length: too long for what remains => EndOfBuffer, cursor unmoved (no overflow of cursor + length) *)
Theorem bytevecN_spec n s c :
  c <= len s ->
  bytevecN n s c = if (N.of_nat (len s - c) <? n)%N then PErr EEndOfBuffer c
                   else POk (sub s c (c + N.to_nat n), c, c + N.to_nat n) (c + N.to_nat n).
Proof.
  intros Hc. unfold bytevecN. destruct (N.ltb_spec (N.of_nat (len s - c)) n) as [H|H]; [reflexivity|].
  apply bytevec_ok. lia.
Qed.

(* the specification value is the conventional one: examples *)
Example val_be_ex : val Big [1; 2; 3; 4]%N = 16909060%N. Proof. reflexivity. Qed.
Example val_le_ex : val Little [1; 2; 3; 4]%N = 67305985%N. Proof. reflexivity. Qed.
Example sval_ex : sval Big [255; 254]%N = (-2)%Z. Proof. reflexivity. Qed.
Example uN_ok_nonvacuous :
  wfb [0; 1; 2; 3; 4; 5; 6; 7; 8; 9]%N /\ 1 + width 3 <= len [0; 1; 2; 3; 4; 5; 6; 7; 8; 9]%N.
Proof. split; [repeat constructor|cbn; lia]. Qed.
