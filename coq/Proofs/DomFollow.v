(* Proofs/DomFollow.v — follow_references (the visited-set loop shared by the four helpers and by
   DictT::get_resolved): never out of fuel, and equal to the specification's [resolves]. *)
From PV Require Import Model.Dom Spec.DomSpec.

Lemma oid_eqb_eq (a b : Dom.oid) : oid_eqb a b = true <-> a = b.
Proof.
  destruct a as [a1 a2], b as [b1 b2]. unfold oid_eqb. cbn [fst snd].
  rewrite andb_true_iff, !N.eqb_eq. split; [intros [-> ->]; reflexivity | intros H; inversion H; auto].
Qed.

Lemma oid_mem_In x l : oid_mem x l = true <-> In x l.
Proof.
  unfold oid_mem. rewrite existsb_exists. split.
  - intros [y [Hy He]]. apply oid_eqb_eq in He. subst. exact Hy.
  - intros H. exists x. split; [exact H | apply oid_eqb_eq; reflexivity].
Qed.

Lemma oid_mem_false x l : oid_mem x l = false <-> ~ In x l.
Proof.
  split.
  - intros H Hin. apply oid_mem_In in Hin. congruence.
  - intros H. destruct (oid_mem x l) eqn:E; [|reflexivity]. apply oid_mem_In in E. contradiction.
Qed.

Lemma lookup_keys c id o : lookup c id = Some o -> In id (List.map fst c).
Proof.
  unfold lookup. induction c as [|[[n g] o0] c IH]; cbn [octx_get]; [discriminate|].
  destruct (N.eqb n (fst id) && N.eqb g (snd id))%bool eqn:E.
  - intros _. left. apply andb_true_iff in E as [E1 E2]. apply N.eqb_eq in E1, E2.
    destruct id; cbn in *; subst; reflexivity.
  - intros H. right. exact (IH H).
Qed.

(* the body of the loop, whatever the fuel *)
Lemma follow_references_eq fuel c visited o :
  follow_references fuel c visited o =
  match o with
  | ORef n g =>
    if oid_mem (n, g) visited then CELoop (n, g)
    else match lookup c (n, g) with
         | None => CEUndefined (n, g)
         | Some o' => match fuel with O => CEFuel | S f => follow_references f c ((n, g) :: visited) o' end
         end
  | _ => CEObject o
  end.
Proof. destruct fuel; reflexivity. Qed.

(* ---------- the visited set bounds the loop ---------- *)
Lemma follow_references_fuel c : forall fuel visited o,
  NoDup visited -> incl visited (List.map fst c) -> len c <= fuel + List.length visited ->
  follow_references fuel c visited o <> CEFuel.
Proof.
  induction fuel as [|f IH]; intros visited o Hnd Hinc Hlen; rewrite follow_references_eq;
    destruct o; try discriminate.
  - destruct (oid_mem (num, gen) visited) eqn:Em; [discriminate|].
    destruct (lookup c (num, gen)) eqn:El; [|discriminate]. exfalso.
    apply oid_mem_false in Em. apply lookup_keys in El.
    assert (Hl : List.length ((num, gen) :: visited) <= List.length (List.map fst c)).
    { apply NoDup_incl_length; [constructor; auto|]. intros x [<-|Hx]; auto. }
    rewrite map_length in Hl. cbn [List.length] in Hl. unfold len in Hlen. lia.
  - destruct (oid_mem (num, gen) visited) eqn:Em; [discriminate|].
    destruct (lookup c (num, gen)) eqn:El; [|discriminate].
    apply oid_mem_false in Em. apply lookup_keys in El.
    apply IH.
    + constructor; auto.
    + intros x [<-|Hx]; auto.
    + cbn [List.length]. lia.
Qed.

Theorem follow_fuel c o : follow c o <> CEFuel.
Proof.
  unfold follow. apply follow_references_fuel; [constructor | intros x [] | cbn; lia].
Qed.

(* more fuel does not change an answer *)
Lemma follow_references_mono c : forall fuel visited o r,
  follow_references fuel c visited o = r -> r <> CEFuel ->
  forall fuel', fuel <= fuel' -> follow_references fuel' c visited o = r.
Proof.
  induction fuel as [|f IH]; intros visited o r H Hr fuel' Hle;
    rewrite follow_references_eq in H; rewrite follow_references_eq; destruct o; auto.
  - destruct (oid_mem (num, gen) visited); auto. destruct (lookup c (num, gen)); auto. congruence.
  - destruct (oid_mem (num, gen) visited); auto. destruct (lookup c (num, gen)); auto.
    destruct fuel' as [|f']; [lia|]. apply IH; auto. lia.
Qed.

(* ---------- what comes out is not a reference, and is what the chain resolves to ---------- *)
Lemma follow_references_nonref c : forall fuel visited o o',
  follow_references fuel c visited o = CEObject o' -> is_ref o' = false.
Proof.
  induction fuel as [|f IH]; intros visited o o' H; rewrite follow_references_eq in H;
    destruct o; try (inversion H; subst; reflexivity).
  - destruct (oid_mem (num, gen) visited); [discriminate|]. destruct (lookup c (num, gen)); discriminate.
  - destruct (oid_mem (num, gen) visited); [discriminate|].
    destruct (lookup c (num, gen)); [|discriminate]. eapply IH; eauto.
Qed.

Lemma follow_references_sound c : forall fuel visited o o',
  follow_references fuel c visited o = CEObject o' -> resolves c o o'.
Proof.
  induction fuel as [|f IH]; intros visited o o' H; rewrite follow_references_eq in H;
    destruct o; try (inversion H; subst; apply res_here; intros; discriminate).
  - destruct (oid_mem (num, gen) visited); [discriminate|]. destruct (lookup c (num, gen)); discriminate.
  - destruct (oid_mem (num, gen) visited); [discriminate|].
    destruct (lookup c (num, gen)) eqn:El; [|discriminate].
    eapply res_step; [exact El | eapply IH; eauto].
Qed.

(* chains with their number of hops *)
Inductive resolves_n (c : octx) : nat -> obj -> obj -> Prop :=
| rn_here o : (forall n g, o <> ORef n g) -> resolves_n c 0 o o
| rn_step n g o1 o' k : lookup c (n, g) = Some o1 -> resolves_n c k o1 o' -> resolves_n c (S k) (ORef n g) o'.

Lemma resolves_resolves_n c o o' : resolves c o o' -> exists k, resolves_n c k o o'.
Proof.
  induction 1 as [o H | n g o1 o' Hl _ [k IH]].
  - exists 0. constructor; auto.
  - exists (S k). econstructor; eauto.
Qed.

Lemma resolves_n_det c : forall k o o1, resolves_n c k o o1 ->
  forall k' o2, resolves_n c k' o o2 -> k = k' /\ o1 = o2.
Proof.
  induction 1 as [o H | n g oa o' k Hl Hr IH]; intros k' o2 H2; inversion H2; subst.
  - auto.
  - exfalso. eapply H; reflexivity.
  - exfalso. match goal with H : forall n g, ORef _ _ <> ORef n g |- _ => eapply H; reflexivity end.
  - match goal with H : lookup c (n, g) = Some ?x |- _ => rewrite Hl in H; inversion H; subst end.
    match goal with H : resolves_n c _ _ o2 |- _ => destruct (IH _ _ H) as [-> ->] end. auto.
Qed.

Lemma resolves_det c o o1 o2 : resolves c o o1 -> resolves c o o2 -> o1 = o2.
Proof.
  intros H1 H2. apply resolves_resolves_n in H1 as [k1 H1]. apply resolves_resolves_n in H2 as [k2 H2].
  eapply resolves_n_det; eauto.
Qed.

(* the chain starting at o passes through the reference `id R` *)
Inductive passes (c : octx) : obj -> Dom.oid -> Prop :=
| pass_here n g : passes c (ORef n g) (n, g)
| pass_step n g o1 id : lookup c (n, g) = Some o1 -> passes c o1 id -> passes c (ORef n g) id.

Lemma passes_hops c : forall o id, passes c o id -> forall k o', resolves_n c k o o' ->
  exists j, j <= k /\ resolves_n c j (ORef (fst id) (snd id)) o'.
Proof.
  induction 1 as [n g | n g o1 id Hl Hp IH]; intros k o' Hr.
  - exists k. split; [lia | exact Hr].
  - inversion Hr; subst.
    + exfalso. match goal with H : forall n g, ORef _ _ <> ORef n g |- _ => eapply H; reflexivity end.
    + match goal with H : lookup c (n, g) = Some ?x |- _ => rewrite Hl in H; inversion H; subst end.
      match goal with H : resolves_n c _ _ o' |- _ => destruct (IH _ _ H) as [j [Hj Hrj]] end.
      exists j. split; [lia | exact Hrj].
Qed.

(* a resolving chain never comes back to a reference it has been through *)
Lemma no_repass c n g o1 k o' :
  resolves_n c (S k) (ORef n g) o' -> lookup c (n, g) = Some o1 -> ~ passes c o1 (n, g).
Proof.
  intros Hr Hl Hp. inversion Hr; subst.
  match goal with H : lookup c (n, g) = Some ?x |- _ => rewrite Hl in H; inversion H; subst end.
  match goal with H : resolves_n c k _ o' |- _ => destruct (passes_hops _ _ _ Hp _ _ H) as [j [Hj Hrj]] end.
  cbn [fst snd] in Hrj. destruct (resolves_n_det _ _ _ _ Hr _ _ Hrj) as [E _]. lia.
Qed.

Lemma follow_references_complete_n c : forall k o o', resolves_n c k o o' ->
  forall fuel visited, k <= fuel -> (forall id, In id visited -> ~ passes c o id) ->
  follow_references fuel c visited o = CEObject o'.
Proof.
  induction 1 as [o H | n g o1 o' k Hl Hr IH]; intros fuel visited Hk Hv; rewrite follow_references_eq.
  - destruct o; try reflexivity. exfalso. eapply H; reflexivity.
  - destruct (oid_mem (n, g) visited) eqn:Em.
    + exfalso. apply oid_mem_In in Em. eapply Hv; [exact Em | constructor].
    + rewrite Hl. destruct fuel as [|f]; [lia|].
      apply IH; [lia|]. intros id [<-|Hin] Hp.
      * eapply no_repass; [econstructor; eauto | exact Hl | exact Hp].
      * eapply Hv; [exact Hin | econstructor; eauto].
Qed.

Theorem follow_sound c o o' : follow c o = CEObject o' -> resolves c o o'.
Proof. apply follow_references_sound. Qed.

Theorem follow_nonref c o o' : follow c o = CEObject o' -> is_ref o' = false.
Proof. apply follow_references_nonref. Qed.

Theorem follow_complete c o o' : resolves c o o' -> follow c o = CEObject o'.
Proof.
  intros H. apply resolves_resolves_n in H as [k H].
  assert (E : follow_references (Nat.max k (len c)) c [] o = CEObject o').
  { eapply follow_references_complete_n; [exact H | lia | intros id []]. }
  unfold follow. destruct (follow_references (len c) c [] o) eqn:F.
  - eapply follow_references_mono in F; [|discriminate|apply (Nat.le_max_r k)]. congruence.
  - eapply follow_references_mono in F; [|discriminate|apply (Nat.le_max_r k)]. congruence.
  - eapply follow_references_mono in F; [|discriminate|apply (Nat.le_max_r k)]. congruence.
  - exfalso. eapply follow_fuel. exact F.
Qed.

(* follow on an object that is not a reference *)
Lemma follow_nonref_id c o : is_ref o = false -> follow c o = CEObject o.
Proof. unfold follow. rewrite follow_references_eq. destruct o; try reflexivity; discriminate. Qed.

Lemma resolves_nonref c o o' : resolves c o o' -> forall n g, o' <> ORef n g.
Proof. induction 1; auto. Qed.
