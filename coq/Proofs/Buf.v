(* Proofs/Buf.v — C17: the step lemmas lifted over arbitrary histories, and the corollaries the
   property text names (nothing outside the window is exposed; out-of-range requests are errors
   that leave the state alone; drop/append are refused while the storage is shared). *)
From PV Require Import Model.Buf Proofs.BufSpec Proofs.BufLists Proofs.BufSteps.
From Coq Require Import ZifyBool ZifyNat ZifyN.
Local Open Scope N_scope.

(* bytes a history appends to the underlying vector *)
Fixpoint appended (ops : list op) : N :=
  match ops with [] => 0 | o :: r => app1 o + appended r end.

(* "memory is finite": the vector and everything ever appended to it fit in isize::MAX bytes *)
Definition fits (ops : list op) (v : pb) : Prop := 2 * (lenN (data v) + appended ops) < W.

(* ---------- the main theorem ---------- *)
Theorem views_refine_copies m ops : forall v, Inv v -> fits ops v -> run m ops v = run_r ops (abs v).
Proof.
  unfold fits. induction ops as [|o ops IH]; intros v I HW; [reflexivity|].
  cbn [run run_r appended] in *.
  pose proof (step_sim m v o I ltac:(lia)) as S.
  destruct (step m v o) as [[x v']| | |]; destruct (r_step (abs v) o) as [[y r']| | |];
    cbn [sim] in S; try contradiction; try reflexivity.
  destruct S as (-> & <- & I' & HL).
  rewrite observe_abs by assumption. f_equal. apply IH; [assumption | lia].
Qed.

(* ---------- a view against the fresh buffer holding a copy of its window ---------- *)
Definition copy_of (v : pb) : pb :=
  {| data := window v; st := 0; en := lenN (window v); ofs := ofs v - st v; shared := shared v |}.

Lemma window_le v : Inv v -> lenN (window v) <= lenN (data v).
Proof. intros I. rewrite window_len by assumption. destruct I as (H1 & H2 & H3 & H4). lia. Qed.

Lemma copy_Inv v : Inv v -> Inv (copy_of v).
Proof.
  intros I. pose proof (window_le v I) as HL. pose proof (window_len v I) as HW.
  destruct I as (H1 & H2 & H3 & H4). unfold Inv, copy_of. cbn [data st en ofs]. lia.
Qed.

Lemma copy_abs v : abs (copy_of v) = abs v.
Proof.
  unfold abs, copy_of, window at 1. cbn [data st en ofs shared]. f_equal; [|lia].
  unfold lenN. rewrite Nat2N.id. apply sub_0_all.
Qed.

(* a view that has just been created is exactly ParseBuffer::new(window) up to sharing *)
Lemma copy_of_fresh v : ofs v = st v ->
  copy_of v = {| data := data (pb_new (window v)); st := 0; en := en (pb_new (window v)); ofs := 0; shared := shared v |}.
Proof. intros H. unfold copy_of, pb_new. cbn [data en]. f_equal. lia. Qed.

Theorem view_equals_copy m ops v : Inv v -> fits ops v -> run m ops v = run m ops (copy_of v).
Proof.
  intros I F. rewrite (views_refine_copies m ops v I F).
  rewrite (views_refine_copies m ops (copy_of v)).
  - rewrite copy_abs. reflexivity.
  - apply copy_Inv, I.
  - pose proof (window_le v I). unfold fits in *. cbn [copy_of data]. lia.
Qed.

(* ---------- nothing outside the window is exposed ---------- *)
(* two views with the same window, cursor and sharing — whatever else their vectors hold — are
   indistinguishable by any history *)
Theorem outside_window_invisible m ops v1 v2 :
  Inv v1 -> Inv v2 -> fits ops v1 -> fits ops v2 -> abs v1 = abs v2 -> run m ops v1 = run m ops v2.
Proof.
  intros I1 I2 F1 F2 E. rewrite (views_refine_copies m ops v1 I1 F1), (views_refine_copies m ops v2 I2 F2), E.
  reflexivity.
Qed.

(* ---------- histories that start from ParseBuffer::new ---------- *)
Lemma new_Inv d : 2 * lenN d < W -> Inv (pb_new d).
Proof. intros H. unfold Inv, pb_new. cbn [data st en ofs]. lia. Qed.

Lemma new_abs d : abs (pb_new d) = {| rdata := d; rcur := 0; rshared := false |}.
Proof.
  unfold abs, pb_new, window. cbn [data st en ofs shared]. f_equal.
  unfold lenN. rewrite Nat2N.id. apply sub_0_all.
Qed.

Theorem history_from_new m ops d :
  2 * (lenN d + appended ops) < W ->
  run m ops (pb_new d) = run_r ops {| rdata := d; rcur := 0; rshared := false |}.
Proof.
  intros H. rewrite <- new_abs. apply views_refine_copies.
  - apply new_Inv. lia.
  - exact H.
Qed.

(* ---------- restrictions of restrictions ---------- *)
Theorem view_of_view m v a k : Inv v -> a + k <= en v - st v ->
  exists w, step m v (OView a k) = Ok (RUnit, w) /\ Inv w /\
            abs w = {| rdata := sub (window v) (N.to_nat a) (N.to_nat (a + k)); rcur := 0; rshared := true |}.
Proof.
  intros I H. pose proof (restrict_view_sim m v a k I) as S. pose proof (window_len v I) as HL.
  cbn [step]. cbn [r_step abs rdata rcur] in S. rewrite HL in S.
  replace (a + k <=? en v - st v) with true in S by lia.
  destruct (restrict_view m v a k) as [[x w]| | |]; cbn [sim] in S; try contradiction.
  destruct S as (-> & E & I' & _). exists w. split; [reflexivity|]. split; [exact I' | exact E].
Qed.

(* ---------- errors: reported, and nothing moves ---------- *)
Lemma r_step_err r o k r' : r_step r o = Ok (RErr k, r') -> r' = r.
Proof.
  destruct o; cbn [r_step];
    repeat match goal with
           | |- context [if ?c then _ else _] => destruct c
           | |- context [match ?c with Some _ => _ | None => _ end] => destruct c
           end; intros [=]; subst; reflexivity.
Qed.

Theorem error_leaves_state m v o k v' :
  Inv v -> 2 * (lenN (data v) + app1 o) < W -> step m v o = Ok (RErr k, v') -> abs v' = abs v.
Proof.
  intros I F E. pose proof (step_sim m v o I F) as S. rewrite E in S.
  destruct (r_step (abs v) o) as [[y r']| | |] eqn:R; cbn [sim] in S; try contradiction.
  destruct S as (<- & <- & _). apply r_step_err in R. exact R.
Qed.

(* the requests the property calls out of range, in terms of the view's own size and cursor *)
Definition out_of_range (v : pb) (o : op) : Prop :=
  let sz := en v - st v in
  let cur := ofs v - st v in
  match o with
  | OSetCursor k => sz < k
  | OIncr => cur = sz
  | ODecr => cur = 0
  | OExtract k => sz - cur < k
  | OView a k => sz < a + k
  | OViewFrom a => sz <= a
  | _ => False
  end.

Theorem out_of_range_is_error m v o :
  Inv v -> out_of_range v o -> exists k v', step m v o = Ok (RErr k, v') /\ abs v' = abs v.
Proof.
  intros I H. assert (F : 2 * (lenN (data v) + app1 o) < W).
  { destruct I as (_ & _ & _ & H4). destruct o; cbn [app1]; try lia. contradiction. }
  pose proof (step_sim m v o I F) as S. pose proof (window_len v I) as HL. pose proof I as (H1 & H2 & H3 & H4).
  assert (R : exists k, r_step (abs v) o = Ok (RErr k, abs v)).
  { destruct o; cbn [out_of_range] in H; try contradiction; cbn [r_step abs rdata rcur]; try rewrite HL.
    - exists EEndOfBuffer. replace (o <=? en v - st v) with false by lia. reflexivity.
    - exists EEndOfBuffer. replace (ofs v - st v <? en v - st v) with false by lia. reflexivity.
    - exists EEndOfBuffer. replace (0 <? ofs v - st v) with false by lia. reflexivity.
    - exists EEndOfBuffer. replace (en v - st v - (ofs v - st v) <? n) with true by lia. reflexivity.
    - exists EBounds. replace (a + n <=? en v - st v) with false by lia. reflexivity.
    - exists EBounds. replace (a <? en v - st v) with false by lia. reflexivity. }
  destruct R as (k & R). rewrite R in S.
  destruct (step m v o) as [[x v']| | |]; cbn [sim] in S; try contradiction.
  destruct S as (-> & E & _). exists k, v'. split; [reflexivity | exact E].
Qed.

(* ---------- drop / append are refused while the storage is shared ---------- *)
Theorem refused_while_shared m v : shared v = true ->
  (forall n, step m v (ODrop n) = Ok (RBool false, v)) /\ (forall t, step m v (OAppend t) = Ok (RBool false, v)).
Proof. intros H. split; intros x; cbn [step]; unfold drop, append; rewrite H; reflexivity. Qed.

(* a view stays shared as long as it is not released: no operation other than ORelease clears the flag *)
Lemma r_shared_stays r o y r' : rshared r = true -> o <> ORelease -> r_step r o = Ok (y, r') -> rshared r' = true.
Proof.
  intros S N. destruct o; cbn [r_step]; try congruence; try rewrite S;
    repeat match goal with
           | |- context [if ?c then _ else _] => destruct c
           | |- context [match ?c with Some _ => _ | None => _ end] => destruct c
           end; intros [=]; subst; try exact S; reflexivity.
Qed.

Theorem shared_stays m v o x v' :
  Inv v -> 2 * (lenN (data v) + app1 o) < W -> shared v = true -> o <> ORelease ->
  step m v o = Ok (x, v') -> shared v' = true.
Proof.
  intros I F S N E. pose proof (step_sim m v o I F) as H. rewrite E in H.
  destruct (r_step (abs v) o) as [[y r']| | |] eqn:R; cbn [sim] in H; try contradiction.
  destruct H as (_ & A & _). apply r_shared_stays in R; [|exact S|exact N].
  rewrite <- A in R. exact R.
Qed.

(* ---------- no operation other than the three asserting ones can panic ---------- *)
Lemma r_step_total r o : asserting o = false -> exists y r', r_step r o = Ok (y, r').
Proof.
  destruct o; cbn [asserting r_step]; try discriminate; intros _;
    repeat match goal with
           | |- context [if ?c then _ else _] => destruct c
           | |- context [match ?c with Some _ => _ | None => _ end] => destruct c
           end; eexists; eexists; reflexivity.
Qed.

Theorem no_panic m v o :
  Inv v -> 2 * (lenN (data v) + app1 o) < W -> asserting o = false ->
  exists x v', step m v o = Ok (x, v') /\ Inv v'.
Proof.
  intros I F A. pose proof (step_sim m v o I F) as S.
  destruct (r_step_total (abs v) o A) as (y & r' & R). rewrite R in S.
  destruct (step m v o) as [[x v']| | |]; cbn [sim] in S; try contradiction.
  destruct S as (_ & _ & I' & _). exists x, v'. split; [reflexivity | exact I'].
Qed.

(* the asserting operations panic exactly when their documented bound is violated *)
Theorem asserting_panics_iff m v : Inv v ->
  (forall k, step m v (OSetCursorU k) = Panic <-> en v - st v < k) /\
  (step m v OIncrU = Panic <-> ofs v = en v) /\
  (step m v ODecrU = Panic <-> ofs v = st v).
Proof.
  intros I. pose proof (window_len v I) as HL. pose proof I as (H1 & H2 & H3 & H4).
  split; [intros k | split].
  - pose proof (set_cursor_unsafe_sim m v k I) as S. cbn [step]. cbn [r_step abs rdata rcur] in S. rewrite HL in S.
    destruct (N.leb_spec k (en v - st v)); destruct (set_cursor_unsafe m v k) as [[x w]| | |]; cbn [sim] in S;
      try contradiction; split; intros; try discriminate; try reflexivity; lia.
  - pose proof (incr_cursor_unsafe_sim m v I) as S. cbn [step]. cbn [r_step abs rdata rcur] in S. rewrite HL in S.
    destruct (N.ltb_spec (ofs v - st v) (en v - st v)); destruct (incr_cursor_unsafe m v) as [[x w]| | |]; cbn [sim] in S;
      try contradiction; split; intros; try discriminate; try reflexivity; lia.
  - pose proof (decr_cursor_unsafe_sim m v I) as S. cbn [step]. cbn [r_step abs rdata rcur] in S.
    destruct (N.ltb_spec 0 (ofs v - st v)); destruct (decr_cursor_unsafe m v) as [[x w]| | |]; cbn [sim] in S;
      try contradiction; split; intros; try discriminate; try reflexivity; lia.
Qed.

(* ---------- the hypotheses are satisfiable: a view of a view of "0123456789" ---------- *)
Definition digits : bytes := [48;49;50;51;52;53;54;55;56;57].
Definition example_ops : list op :=
  [OView 2 5; OView 1 3; OSetCursor 2; OScan [53]; OExtract 1; ODrop 1; ORelease; OSetCursor 1; ODrop 1; OAppend [65; 66]; OBScan [52]; OSetCursor 0].

Lemma example_fits : Inv (pb_new digits) /\ fits example_ops (pb_new digits).
Proof. split; [apply new_Inv; unfold lenN, W; cbn; lia | unfold fits, lenN, W; cbn; lia]. Qed.

Lemma example_run : forall m,
  run m example_ops (pb_new digits) = run_r example_ops {| rdata := digits; rcur := 0; rshared := false |} /\
  List.length (run m example_ops (pb_new digits)) = 12%nat /\ ~ In OPanic (run m example_ops (pb_new digits)).
Proof.
  intros m. split; [|split].
  - destruct m; vm_compute; reflexivity.
  - destruct m; vm_compute; reflexivity.
  - destruct m; vm_compute; intuition discriminate.
Qed.
